import Gallia.Model.PySet
import Gallia.Proofs.Lemmas.PySetTable
/-
  C16 / PySet — the set invariant `WF` (table invariant, exact `fill` / `used` counters, load factor below 3/5) holds
  of `empty` and is preserved by every operation; each operation has the membership law of the mathematical set
  operation it implements.
-/
namespace Gallia.PySet

structure WF (s : PySet) : Prop where
  table : TableOK s.table
  fill_eq : s.fill = s.table.toList.countP nonEmpty
  used_eq : s.used = s.table.toList.countP isKey
  /-- `fill * 5 < mask * 3`: what `set_add_entry` re-establishes by resizing -/
  load : s.fill * 5 < s.mask * 3

theorem mem_toList {s : PySet} {x : Nat} : x ∈ toList s ↔ Mem s.table x := mem_keysOf

theorem WF.exists_empty {s : PySet} (h : WF s) : ∃ j, j < s.table.size ∧ slotAt s.table j = .empty := by
  apply exists_empty_of_count
  have := h.load
  have := h.fill_eq
  unfold PySet.mask at *
  omega

theorem WF.length_toList {s : PySet} (h : WF s) : (toList s).length = s.used := by
  unfold toList; rw [length_keysOf, h.used_eq]

theorem WF.bound {s : PySet} (h : WF s) {x : Nat} (hx : x ∈ toList s) : x < hashModulus := by
  obtain ⟨j, hj⟩ := mem_toList.1 hx
  exact h.table.bound j x hj

/-- iteration yields every element once -/
theorem WF.toList_nodup {s : PySet} (h : WF s) : (toList s).Nodup :=
  keysOf_nodup (fun _ _ _ hi hj => h.table.uniq hi hj)

theorem wf_empty : WF empty :=
  ⟨tableOK_replicate (k := 3) (Nat.le_refl _), by decide, by decide, by decide⟩

theorem toList_empty : toList empty = [] := by decide

/-! ### lookup -/

theorem contains_iff {s : PySet} (h : WF s) {x : Nat} (hx : x < hashModulus) : contains s x = true ↔ x ∈ toList s := by
  obtain ⟨hit, hp, hlt, hc⟩ := look_cases h.table hx h.exists_empty
  unfold contains
  rw [hp, mem_toList]
  rcases hc with ⟨he, hn⟩ | hk
  · simp [he, hn]
  · simp [hk]; exact ⟨_, hk⟩

/-! ### `set_table_resize` -/

theorem growTo_spec (m : Nat) : ∀ fuel k, 3 ≤ k → m < 2 ^ k * 2 ^ fuel →
    ∃ k', 3 ≤ k' ∧ growTo m fuel (2 ^ k) = 2 ^ k' ∧ m < 2 ^ k' := by
  intro fuel
  induction fuel with
  | zero => intro k hk h; exact ⟨k, hk, rfl, by simpa using h⟩
  | succ f ih =>
    intro k hk h
    unfold growTo
    split
    · have : (2 : Nat) * 2 ^ k = 2 ^ (k + 1) := by rw [Nat.pow_succ]; omega
      rw [this]
      exact ih (k + 1) (by omega) (by rw [Nat.pow_succ] at h ⊢; grind)
    · exact ⟨k, hk, rfl, by omega⟩

/-- the new size is a power of two, at least 8, larger than `minused` -/
theorem newSize_spec (m : Nat) : ∃ k, 3 ≤ k ∧ newSize m = 2 ^ k ∧ m < 2 ^ k := by
  unfold newSize MINSIZE
  have : m < 2 ^ 3 * 2 ^ (m + 1) := by
    have := Nat.lt_two_pow_self (n := m + 1)
    omega
  exact growTo_spec m (m + 1) 3 (Nat.le_refl _) this

theorem countP_nonEmpty_eq_of_no_dummy {t : Array Slot} (h : ∀ j, slotAt t j ≠ .dummy) :
    t.toList.countP nonEmpty = t.toList.countP isKey := by
  apply List.countP_congr
  intro a ha
  obtain ⟨i, hi, rfl⟩ := List.mem_iff_getElem.1 ha
  rw [slotAt_toList]
  have := h i
  cases hs : slotAt t i <;> simp_all [nonEmpty, isKey]

theorem insertClean_eq {t : Array Slot} {x : Nat} {hit : Hit} (h : probe stopClean t x = some hit) :
    insertClean t x = t.setIfInBounds hit.idx (.key x) := by
  unfold insertClean; rw [h]

/-- one `set_insert_clean` into a table without dummies that does not hold the key and has room -/
theorem insertClean_spec {t : Array Slot} (h : TableOK t) (hnd : ∀ j, slotAt t j ≠ .dummy) {x : Nat}
    (hx : x < hashModulus) (hnot : ¬ Mem t x) (hroom : t.toList.countP isKey < t.size) :
    TableOK (insertClean t x) ∧ (∀ j, slotAt (insertClean t x) j ≠ .dummy) ∧
      (insertClean t x).size = t.size ∧
      (insertClean t x).toList.countP isKey = t.toList.countP isKey + 1 ∧
      ∀ y, Mem (insertClean t x) y ↔ y = x ∨ Mem t y := by
  have hempty : ∃ j, j < t.size ∧ slotAt t j = .empty :=
    exists_empty_of_count (by rw [countP_nonEmpty_eq_of_no_dummy hnd]; exact hroom)
  obtain ⟨hit, hp, hlt, hc⟩ := look_cases h hx hempty
  have he : slotAt t hit.idx = .empty := by
    rcases hc with ⟨he, _⟩ | hk
    · exact he
    · exact absurd ⟨_, hk⟩ hnot
  -- `set_insert_clean` walks the same entries as the lookup: no dummies, key absent
  obtain ⟨hit', hp', hidx⟩ := probe_agree (stop' := stopClean) (t' := t) rfl hp (by
    intro j _
    have := hnd j
    cases hs : slotAt t j with
    | empty => rfl
    | dummy => exact absurd hs this
    | key y =>
      simp [stopClean, stopLook]
      rintro rfl; exact hnot ⟨j, hs⟩)
  rw [insertClean_eq hp', hidx]
  refine ⟨tableOK_set_empty h hx hp he hlt, ?_, by simp, ?_, ?_⟩
  · intro j
    by_cases hj : j = hit.idx
    · subst hj; rw [slotAt_set_same _ hlt]; simp
    · rw [slotAt_set_ne _ hj]; exact hnd j
  · have := countP_set isKey (t := t) (.key x) hlt
    rw [he] at this
    simpa [isKey] using this
  · intro y
    exact mem_set_key hlt (by rw [he]; rfl)

theorem foldl_insertClean_spec (keys : List Nat) : ∀ {t : Array Slot}, TableOK t → (∀ j, slotAt t j ≠ .dummy) →
    (∀ x ∈ keys, x < hashModulus) → keys.Nodup → (∀ x ∈ keys, ¬ Mem t x) →
    t.toList.countP isKey + keys.length < t.size →
    TableOK (keys.foldl insertClean t) ∧ (∀ j, slotAt (keys.foldl insertClean t) j ≠ .dummy) ∧
      (keys.foldl insertClean t).size = t.size ∧
      (keys.foldl insertClean t).toList.countP isKey = t.toList.countP isKey + keys.length ∧
      ∀ y, Mem (keys.foldl insertClean t) y ↔ y ∈ keys ∨ Mem t y := by
  induction keys with
  | nil => intro t h hnd _ _ _ _; exact ⟨h, hnd, rfl, rfl, by simp⟩
  | cons x xs ih =>
    intro t h hnd hb hn hdis hroom
    simp only [List.length_cons] at hroom
    obtain ⟨a1, a2, a3, a4, a5⟩ := insertClean_spec h hnd (hb x (by simp)) (hdis x (by simp)) (by omega)
    have hn' := List.nodup_cons.1 hn
    obtain ⟨b1, b2, b3, b4, b5⟩ := ih (t := insertClean t x) a1 a2 (fun y hy => hb y (by simp [hy])) hn'.2
      (by
        intro y hy hm
        rcases (a5 y).1 hm with rfl | hm
        · exact hn'.1 hy
        · exact hdis y (by simp [hy]) hm)
      (by rw [a3, a4]; omega)
    simp only [List.foldl_cons, List.length_cons]
    refine ⟨b1, b2, by rw [b3, a3], by rw [b4, a4]; omega, ?_⟩
    intro y
    rw [b5, a5]
    simp only [List.mem_cons]
    grind

/-- the parts of `WF` that `set_table_resize` needs of its argument (the load factor may be violated) -/
structure WF0 (s : PySet) : Prop where
  table : TableOK s.table
  fill_eq : s.fill = s.table.toList.countP nonEmpty
  used_eq : s.used = s.table.toList.countP isKey

theorem WF.wf0 {s : PySet} (h : WF s) : WF0 s := ⟨h.table, h.fill_eq, h.used_eq⟩

/-- `set_table_resize` keeps the elements, drops the dummies and leaves a table larger than `minused` -/
theorem resize_spec {s : PySet} (h : WF0 s) {minused : Nat} (hmin : s.used ≤ minused) :
    WF0 (resize s minused) ∧ (resize s minused).used = s.used ∧ (resize s minused).fill = s.used ∧
      minused < (resize s minused).table.size ∧ ∀ y, y ∈ toList (resize s minused) ↔ y ∈ toList s := by
  obtain ⟨k, hk3, hk, hlt⟩ := newSize_spec minused
  unfold resize
  simp only
  split
  · rename_i hc
    refine ⟨h, rfl, hc.2.2, ?_, fun _ => Iff.rfl⟩
    rw [hc.2.1, ← hc.1, hk]; exact hlt
  · rw [hk]
    have hnodup : (keysOf s.table).Nodup := keysOf_nodup (fun _ _ _ hi hj => h.table.uniq hi hj)
    have hlen : (keysOf s.table).length = s.used := by rw [length_keysOf, h.used_eq]
    have h0 : (Array.replicate (2 ^ k) Slot.empty).toList.countP isKey = 0 := by simp [isKey]
    obtain ⟨b1, b2, b3, b4, b5⟩ := foldl_insertClean_spec (keysOf s.table) (tableOK_replicate hk3)
      (fun j => by rw [slotAt_replicate]; simp)
      (fun x hx => by obtain ⟨j, hj⟩ := mem_keysOf.1 hx; exact h.table.bound j x hj) hnodup
      (fun x _ ⟨j, hj⟩ => by rw [slotAt_replicate] at hj; cases hj)
      (by rw [h0, hlen]; simp; omega)
    refine ⟨⟨b1, ?_, ?_⟩, rfl, rfl, ?_, ?_⟩
    · show s.used = _
      rw [countP_nonEmpty_eq_of_no_dummy b2, b4, h0, hlen]; omega
    · show s.used = _
      rw [b4, h0, hlen]; omega
    · show minused < Array.size _
      rw [b3]; simpa using hlt
    · intro y
      show y ∈ keysOf _ ↔ y ∈ keysOf _
      rw [mem_keysOf, b5, mem_keysOf]
      constructor
      · rintro (h | ⟨j, hj⟩)
        · exact h
        · rw [slotAt_replicate] at hj; cases hj
      · intro h; exact Or.inl h

/-- a resized set satisfies the load-factor invariant as soon as the new size was asked to be at least twice `used`
    (`used*4`, `used*2`, `(used + other.used)*2` in the callers) -/
theorem resize_wf {s : PySet} (h : WF0 s) {minused extra : Nat} (hmin : 2 * (s.used + extra) ≤ minused) :
    WF (resize s minused) ∧ ((resize s minused).fill + extra) * 5 < (resize s minused).mask * 3 := by
  obtain ⟨a1, a2, a3, a4, _⟩ := resize_spec h (minused := minused) (by omega)
  have hsz := a1.table.size_ge
  have : ((resize s minused).fill + extra) * 5 < (resize s minused).mask * 3 := by
    unfold PySet.mask; rw [a3]; omega
  exact ⟨⟨a1.table, a1.fill_eq, a1.used_eq, by unfold PySet.mask at *; omega⟩, this⟩

theorem growTarget_ge (u : Nat) : 2 * u ≤ growTarget u := by unfold growTarget; split <;> omega

/-! ### `set_add_entry` -/

theorem add_spec {s : PySet} (h : WF s) {x : Nat} (hx : x < hashModulus) :
    WF (add s x) ∧ ∀ y, y ∈ toList (add s x) ↔ y = x ∨ y ∈ toList s := by
  obtain ⟨hit, hp, hlt, hc⟩ := look_cases h.table hx h.exists_empty
  unfold add
  rw [hp]
  simp only
  rcases hc with ⟨he, hn⟩ | hk
  · rw [he]
    simp only
    cases hf : hit.free with
    | some f =>
      simp only
      have hfd := probe_free_dummy hp hf
      have hflt := slotAt_lt hfd (by simp)
      have c1 := countP_set nonEmpty (t := s.table) (.key x) hflt
      have c2 := countP_set isKey (t := s.table) (.key x) hflt
      rw [hfd] at c1 c2
      simp only [nonEmpty, isKey, ↓reduceIte, Bool.false_eq_true] at c1 c2
      refine ⟨⟨tableOK_set_free h.table hx hp he hf, ?_, ?_, ?_⟩, ?_⟩
      · show s.fill = List.countP nonEmpty (s.table.setIfInBounds f (Slot.key x)).toList
        rw [h.fill_eq]; omega
      · show s.used + 1 = List.countP isKey (s.table.setIfInBounds f (Slot.key x)).toList
        rw [h.used_eq]; omega
      · have := h.load; unfold PySet.mask at *; simpa using this
      · intro y
        show y ∈ keysOf _ ↔ _
        rw [mem_keysOf, mem_toList]
        exact mem_set_key hflt (by rw [hfd]; rfl)
    | none =>
      simp only
      have c1 := countP_set nonEmpty (t := s.table) (.key x) hlt
      have c2 := countP_set isKey (t := s.table) (.key x) hlt
      rw [he] at c1 c2
      simp only [nonEmpty, isKey, ↓reduceIte, Bool.false_eq_true] at c1 c2
      have hw0 : WF0 ⟨s.table.setIfInBounds hit.idx (.key x), s.fill + 1, s.used + 1⟩ :=
        ⟨tableOK_set_empty h.table hx hp he hlt,
         by show s.fill + 1 = List.countP nonEmpty (s.table.setIfInBounds hit.idx (Slot.key x)).toList
            rw [h.fill_eq]; omega,
         by show s.used + 1 = List.countP isKey (s.table.setIfInBounds hit.idx (Slot.key x)).toList
            rw [h.used_eq]; omega⟩
      have hmem : ∀ y, y ∈ toList (⟨s.table.setIfInBounds hit.idx (.key x), s.fill + 1, s.used + 1⟩ : PySet) ↔
          y = x ∨ y ∈ toList s := by
        intro y
        show y ∈ keysOf _ ↔ _
        rw [mem_keysOf, mem_toList]
        exact mem_set_key hlt (by rw [he]; rfl)
      split
      · rename_i hl
        exact ⟨⟨hw0.table, hw0.fill_eq, hw0.used_eq, by unfold PySet.mask at *; simpa using hl⟩, hmem⟩
      · have hg := growTarget_ge (s.used + 1)
        obtain ⟨w, _⟩ := resize_wf hw0 (minused := growTarget (s.used + 1)) (extra := 0) (by simpa using hg)
        obtain ⟨_, _, _, _, a5⟩ := resize_spec hw0 (minused := growTarget (s.used + 1)) (by show s.used + 1 ≤ _; omega)
        exact ⟨w, fun y => by rw [a5, hmem]⟩
  · rw [hk]
    simp only
    refine ⟨h, fun y => ?_⟩
    constructor
    · exact Or.inr
    · rintro (rfl | hy)
      · exact mem_toList.2 ⟨_, hk⟩
      · exact hy

theorem add_wf {s : PySet} (h : WF s) {x : Nat} (hx : x < hashModulus) : WF (add s x) := (add_spec h hx).1

theorem mem_add {s : PySet} (h : WF s) {x : Nat} (hx : x < hashModulus) {y : Nat} :
    y ∈ toList (add s x) ↔ y = x ∨ y ∈ toList s := (add_spec h hx).2 y

/-! ### `set_discard_entry` -/

theorem discard_spec {s : PySet} (h : WF s) {x : Nat} (hx : x < hashModulus) :
    WF (discard s x) ∧ (discard s x).table.size = s.table.size ∧
      ∀ y, y ∈ toList (discard s x) ↔ y ≠ x ∧ y ∈ toList s := by
  obtain ⟨hit, hp, hlt, hc⟩ := look_cases h.table hx h.exists_empty
  unfold discard
  rw [hp]
  simp only
  rcases hc with ⟨he, hn⟩ | hk
  · rw [he]
    refine ⟨h, rfl, fun y => ?_⟩
    constructor
    · intro hy; refine ⟨?_, hy⟩; rintro rfl; exact hn (mem_toList.1 hy)
    · exact fun hy => hy.2
  · rw [hk]
    simp only
    have c1 := countP_set nonEmpty (t := s.table) .dummy hlt
    have c2 := countP_set isKey (t := s.table) .dummy hlt
    rw [hk] at c1 c2
    simp only [nonEmpty, isKey, ↓reduceIte, Bool.false_eq_true] at c1 c2
    refine ⟨⟨tableOK_set_dummy h.table hk, ?_, ?_, ?_⟩, by simp, ?_⟩
    · show s.fill = List.countP nonEmpty (s.table.setIfInBounds hit.idx Slot.dummy).toList
      rw [h.fill_eq]; omega
    · show s.used - 1 = List.countP isKey (s.table.setIfInBounds hit.idx Slot.dummy).toList
      rw [h.used_eq]; omega
    · have := h.load; unfold PySet.mask at *; simpa using this
    · intro y
      show y ∈ keysOf _ ↔ _
      rw [mem_keysOf, mem_toList]
      exact mem_set_dummy hk (fun j hj => h.table.uniq hj hk)

theorem discard_wf {s : PySet} (h : WF s) {x : Nat} (hx : x < hashModulus) : WF (discard s x) := (discard_spec h hx).1

theorem mem_discard {s : PySet} (h : WF s) {x : Nat} (hx : x < hashModulus) {y : Nat} :
    y ∈ toList (discard s x) ↔ y ≠ x ∧ y ∈ toList s := (discard_spec h hx).2.2 y

/-! ### `update(iterable)`, `set(iterable)`, displays, comprehensions -/

theorem update_spec (xs : List Nat) : ∀ {s : PySet}, WF s → (∀ x ∈ xs, x < hashModulus) →
    WF (update s xs) ∧ ∀ y, y ∈ toList (update s xs) ↔ y ∈ toList s ∨ y ∈ xs := by
  induction xs with
  | nil => intro s h _; exact ⟨h, by simp [update]⟩
  | cons x xs ih =>
    intro s h hb
    obtain ⟨w, m⟩ := add_spec h (hb x (by simp))
    obtain ⟨w', m'⟩ := ih w (fun y hy => hb y (by simp [hy]))
    refine ⟨w', fun y => ?_⟩
    show y ∈ toList (update (add s x) xs) ↔ _
    rw [m', m]
    simp only [List.mem_cons]
    grind

theorem ofList_spec {xs : List Nat} (hb : ∀ x ∈ xs, x < hashModulus) :
    WF (ofList xs) ∧ ∀ y, y ∈ toList (ofList xs) ↔ y ∈ xs := by
  obtain ⟨w, m⟩ := update_spec xs wf_empty hb
  exact ⟨w, fun y => by show y ∈ toList (update empty xs) ↔ _; rw [m, toList_empty]; simp⟩

/-! ### `set_merge`, `copy` -/

theorem toList_eq_nil_of_used {s : PySet} (h : WF s) (hu : s.used = 0) : toList s = [] :=
  List.eq_nil_of_length_eq_zero (by rw [h.length_toList, hu])

theorem foldl_add_spec (xs : List Nat) : ∀ {s : PySet}, WF s → (∀ x ∈ xs, x < hashModulus) →
    WF (xs.foldl add s) ∧ ∀ y, y ∈ toList (xs.foldl add s) ↔ y ∈ toList s ∨ y ∈ xs := update_spec xs

theorem merge_spec {so other : PySet} (h : WF so) (ho : WF other) :
    WF (merge so other) ∧ ∀ y, y ∈ toList (merge so other) ↔ y ∈ toList so ∨ y ∈ toList other := by
  unfold merge
  split
  · rename_i hu
    exact ⟨h, fun y => by rw [toList_eq_nil_of_used ho hu]; simp⟩
  · rename_i hu
    simp only
    -- the pre-resize
    have hpre : ∃ so', so' = (if (so.fill + other.used) * 5 ≥ so.mask * 3 then resize so ((so.used + other.used) * 2) else so) ∧
        WF so' ∧ (so'.fill + other.used) * 5 < so'.mask * 3 ∧ ∀ y, y ∈ toList so' ↔ y ∈ toList so := by
      refine ⟨_, rfl, ?_⟩
      split
      · obtain ⟨w, l⟩ := resize_wf h.wf0 (minused := (so.used + other.used) * 2) (extra := other.used) (by omega)
        obtain ⟨_, _, _, _, a5⟩ := resize_spec h.wf0 (minused := (so.used + other.used) * 2) (by omega)
        exact ⟨w, l, a5⟩
      · exact ⟨h, by omega, fun _ => Iff.rfl⟩
    obtain ⟨so', hso', w', l', m'⟩ := hpre
    rw [← hso']
    have hkeys : ∀ y, y ∈ keysOf other.table ↔ y ∈ toList other := fun _ => Iff.rfl
    have hob : ∀ x ∈ keysOf other.table, x < hashModulus := fun x hx => ho.bound hx
    split
    · rename_i hc
      refine ⟨⟨ho.table, ho.fill_eq, ho.used_eq, ho.load⟩, fun y => ?_⟩
      have : toList so' = [] := by
        apply toList_eq_nil_of_used w'
        have h1 := w'.fill_eq; have h2 := w'.used_eq
        have := (no_dummy_of_counts (t := so'.table))
        have hle : so'.table.toList.countP isKey ≤ so'.table.toList.countP nonEmpty := by
          apply List.countP_mono_left
          intro a _ ha; cases a <;> simp_all [isKey, nonEmpty]
        omega
      rw [← m', this]
      simp [toList]
    · split
      · rename_i hnc hf0
        have hall : ∀ j, slotAt so'.table j = .empty := all_empty_of_count (by rw [← w'.fill_eq]; exact hf0)
        have hk0 : so'.table.toList.countP isKey = 0 := by
          rw [List.countP_eq_zero]
          intro a ha
          obtain ⟨i, hi, rfl⟩ := List.mem_iff_getElem.1 ha
          rw [slotAt_toList, hall]; simp [isKey]
        have hlen : (keysOf other.table).length = other.used := ho.length_toList
        obtain ⟨b1, b2, b3, b4, b5⟩ := foldl_insertClean_spec (keysOf other.table) w'.table
          (fun j => by rw [hall]; simp) hob ho.toList_nodup
          (fun x _ ⟨j, hj⟩ => by rw [hall] at hj; cases hj)
          (by rw [hk0, hlen]; unfold PySet.mask at l'; omega)
        refine ⟨⟨b1, ?_, ?_, ?_⟩, fun y => ?_⟩
        · show other.used = _
          rw [countP_nonEmpty_eq_of_no_dummy b2, b4, hk0, hlen]; omega
        · show other.used = _
          rw [b4, hk0, hlen]; omega
        · show other.used * 5 < (Array.size _ - 1) * 3
          rw [b3]; unfold PySet.mask at l'; omega
        · show y ∈ keysOf _ ↔ _
          rw [mem_keysOf, b5, ← m']
          constructor
          · rintro (hy | ⟨j, hj⟩)
            · exact Or.inr hy
            · rw [hall] at hj; cases hj
          · rintro (hy | hy)
            · obtain ⟨j, hj⟩ := mem_toList.1 hy; rw [hall] at hj; cases hj
            · exact Or.inl hy
      · obtain ⟨w, m⟩ := foldl_add_spec (keysOf other.table) w' hob
        exact ⟨w, fun y => by rw [m, m']; rfl⟩

theorem copy_spec {s : PySet} (h : WF s) : WF (copy s) ∧ ∀ y, y ∈ toList (copy s) ↔ y ∈ toList s := by
  obtain ⟨w, m⟩ := merge_spec wf_empty h
  exact ⟨w, fun y => by show y ∈ toList (merge empty s) ↔ _; rw [m, toList_empty]; simp⟩

/-- `a | b` -/
theorem union_spec {a b : PySet} (ha : WF a) (hb : WF b) :
    WF (union a b) ∧ ∀ y, y ∈ toList (union a b) ↔ y ∈ toList a ∨ y ∈ toList b := by
  obtain ⟨w, m⟩ := copy_spec ha
  obtain ⟨w', m'⟩ := merge_spec w hb
  exact ⟨w', fun y => by show y ∈ toList (merge (copy a) b) ↔ _; rw [m', m]⟩

/-! ### `a -= b`, `a - b` -/

theorem foldl_discard_spec (xs : List Nat) : ∀ {s : PySet}, WF s → (∀ x ∈ xs, x < hashModulus) →
    WF (xs.foldl discard s) ∧ ∀ y, y ∈ toList (xs.foldl discard s) ↔ y ∈ toList s ∧ y ∉ xs := by
  induction xs with
  | nil => intro s h _; exact ⟨h, by simp⟩
  | cons x xs ih =>
    intro s h hb
    obtain ⟨w, _, m⟩ := discard_spec h (hb x (by simp))
    obtain ⟨w', m'⟩ := ih w (fun y hy => hb y (by simp [hy]))
    refine ⟨w', fun y => ?_⟩
    simp only [List.foldl_cons]
    rw [m', m]
    simp only [List.mem_cons]
    grind

theorem differenceUpdate_spec {so other : PySet} (h : WF so) (ho : WF other) :
    WF (differenceUpdate so other) ∧
      ∀ y, y ∈ toList (differenceUpdate so other) ↔ y ∈ toList so ∧ y ∉ toList other := by
  obtain ⟨w, m⟩ := foldl_discard_spec (toList other) h (fun x hx => ho.bound hx)
  unfold differenceUpdate
  simp only
  split
  · exact ⟨w, m⟩
  · have hg := growTarget_ge ((toList other).foldl discard so).used
    obtain ⟨w', _⟩ := resize_wf w.wf0 (minused := growTarget ((toList other).foldl discard so).used) (extra := 0)
      (by simpa using hg)
    obtain ⟨_, _, _, _, a5⟩ := resize_spec w.wf0 (minused := growTarget ((toList other).foldl discard so).used) (by omega)
    exact ⟨w', fun y => by rw [a5, m]⟩

theorem foldl_diff_spec (other : PySet) (ho : WF other) (xs : List Nat) : ∀ {r : PySet}, WF r →
    (∀ x ∈ xs, x < hashModulus) →
    WF (xs.foldl (fun r k => if contains other k then r else add r k) r) ∧
      ∀ y, y ∈ toList (xs.foldl (fun r k => if contains other k then r else add r k) r) ↔
        y ∈ toList r ∨ (y ∈ xs ∧ y ∉ toList other) := by
  induction xs with
  | nil => intro r h _; exact ⟨h, by simp⟩
  | cons x xs ih =>
    intro r h hb
    have hx := hb x (by simp)
    simp only [List.foldl_cons]
    by_cases hc : contains other x = true
    · simp only [hc, ↓reduceIte]
      obtain ⟨w', m'⟩ := ih h (fun y hy => hb y (by simp [hy]))
      refine ⟨w', fun y => ?_⟩
      rw [m']
      have := (contains_iff ho hx).1 hc
      simp only [List.mem_cons]
      grind
    · simp only [hc, Bool.false_eq_true, ↓reduceIte]
      obtain ⟨w, m⟩ := add_spec h hx
      obtain ⟨w', m'⟩ := ih w (fun y hy => hb y (by simp [hy]))
      refine ⟨w', fun y => ?_⟩
      rw [m', m]
      have : x ∉ toList other := fun hm => hc ((contains_iff ho hx).2 hm)
      simp only [List.mem_cons]
      grind

/-- `a - b` -/
theorem difference_spec {so other : PySet} (h : WF so) (ho : WF other) :
    WF (difference so other) ∧ ∀ y, y ∈ toList (difference so other) ↔ y ∈ toList so ∧ y ∉ toList other := by
  unfold difference
  split
  · obtain ⟨w, m⟩ := copy_spec h
    obtain ⟨w', m'⟩ := differenceUpdate_spec w ho
    exact ⟨w', fun y => by rw [m', m]⟩
  · obtain ⟨w, m⟩ := foldl_diff_spec other ho (toList so) wf_empty (fun x hx => h.bound hx)
    exact ⟨w, fun y => by rw [m, toList_empty]; simp⟩

end Gallia.PySet
