import Gallia.Model.Replay
/-
  C12 — the JSON `state` column matched key by key (`stateMatch`) against what a server in a plain `ECUState` holds.
-/
namespace Gallia.Replay
open Gallia

theorem jget_cons (k : String) (v : JVal) (o : JObj) (q : String) :
    jget ((k, v) :: o) q = if k == q then v else jget o q := by
  unfold jget
  simp only [List.find?_cons]
  cases h : (k == q) <;> simp

theorem jget_nil (q : String) : jget [] q = .null := rfl

theorem jget_toJson_session (st : St) (x : JObj) : jget (st.toJson ++ x) "session" = .num st.session := by
  simp [St.toJson, jget_cons]

theorem jget_toJson_sec (st : St) (x : JObj) :
    jget (st.toJson ++ x) "security_access_level" = (match st.sec with | none => .null | some l => .num l) := by
  simp only [St.toJson, List.cons_append, jget_cons]
  rfl

/-- what the recorder logs decodes to the client's state - also when an OEM state class logs further keys behind the two -/
theorem decodeSt_toJson_append (st : St) (x : JObj) : decodeSt (st.toJson ++ x) = some st := by
  unfold decodeSt
  rw [jget_toJson_session, jget_toJson_sec]
  cases st with
  | mk s l => cases l <;> simp

theorem decodeSt_toJson (st : St) : decodeSt st.toJson = some st := by
  have := decodeSt_toJson_append st []
  simpa using this


theorem keyMatches_null (row : JObj) (k : String) : keyMatches row (k, .null) = (jget row k == .null) := rfl

theorem keyMatches_num (row : JObj) (k : String) (n : Int) : keyMatches row (k, .num n) = (jget row k == .num n) := rfl

theorem keyMatches_str (row : JObj) (k : String) (t : String) : keyMatches row (k, .str t) = (jget row k == .str t) := rfl

theorem keyMatches_json (row : JObj) (k : String) (t : String) : keyMatches row (k, .json t) = (jget row k == .json t) := rfl

/-- one conjunct, as a proposition: a server-side `None` asks for SQL NULL (key absent or JSON null), any other value for
    that very value -/
theorem keyMatches_iff (row : JObj) (kv : String × JVal) : keyMatches row kv = true ↔ jget row kv.1 = kv.2 := by
  obtain ⟨k, v⟩ := kv
  cases v <;> simp [keyMatches]

theorem stateMatch_append (a b row : JObj) : stateMatch (a ++ b) row = (stateMatch a row && stateMatch b row) := by
  simp [stateMatch, List.all_append]

/-- against the two keys of a plain `ECUState`, matching key by key is equality with the decoded state object -/
theorem stateMatch_toJson_iff (st : St) (row : JObj) : stateMatch st.toJson row = true ↔ decodeSt row = some st := by
  obtain ⟨s, l⟩ := st
  simp only [stateMatch, St.toJson, List.all_cons, List.all_nil, Bool.and_true, Bool.and_eq_true, keyMatches_iff]
  unfold decodeSt
  generalize jget row "session" = a
  generalize jget row "security_access_level" = b
  cases a <;> cases b <;> cases l <;> simp <;> omega

theorem stateMatch_toJson (st : St) (row : JObj) : stateMatch st.toJson row = (decodeSt row == some st) := by
  have h := stateMatch_toJson_iff st row
  cases h1 : stateMatch st.toJson row <;> cases h2 : (decodeSt row == some st) <;> simp_all

theorem jget_absent (row : JObj) (k : String) (h : ∀ kv ∈ row, kv.1 ≠ k) : jget row k = .null := by
  unfold jget
  have : row.find? (fun kv => kv.1 == k) = none := by
    rw [List.find?_eq_none]
    intro kv hkv
    simpa using h kv hkv
  rw [this]


end Gallia.Replay
