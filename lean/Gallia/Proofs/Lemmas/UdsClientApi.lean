import Gallia.Model.UdsClientApi
import Gallia.Proofs.Lemmas.UdsReqShape
/-
  C01 (glue): helper lemmas about the service-method layer (`Model/UdsClientApi.lean`).
-/
namespace Gallia.UdsClientApi
open Gallia Gallia.UdsReq

/-- the code as written (tables + interpreter) builds, for every call, exactly the request the documentation says -/
theorem codeReq_eq_denote : ∀ c : Call, codeReq c = denote c
  | .send_raw x0 => by rfl
  | .diagnostic_session_control x0 x1 => by cases x1 <;> rfl
  | .ecu_reset x0 x1 => by cases x1 <;> rfl
  | .security_access_request_seed x0 x1 x2 => by cases x1 <;> cases x2 <;> rfl
  | .security_access_send_key x0 x1 x2 => by cases x2 <;> rfl
  | .communication_control x0 x1 x2 => by cases x2 <;> rfl
  | .tester_present x0 => by cases x0 <;> rfl
  | .control_dtc_setting x0 x1 x2 => by cases x1 <;> cases x2 <;> rfl
  | .read_data_by_identifier x0 => by cases x0 <;> rfl
  | .read_memory_by_address x0 x1 x2 => by rcases x2 with _ | _ | _ <;> rfl
  | .write_data_by_identifier x0 x1 => by rfl
  | .write_memory_by_address x0 x1 x2 x3 => by rcases x2 with _ | _ | _ <;> rcases x3 with _ | _ | _ <;> rfl
  | .clear_diagnostic_information x0 => by rfl
  | .read_dtc_information_report_number_of_dtc_by_status_mask x0 x1 => by cases x1 <;> rfl
  | .read_dtc_information_report_dtc_by_status_mask x0 x1 => by cases x1 <;> rfl
  | .read_dtc_information_report_mirror_memory_dtc_by_status_mask x0 x1 => by cases x1 <;> rfl
  | .read_dtc_information_report_number_of_mirror_memory_dtc_by_status_mask x0 x1 => by cases x1 <;> rfl
  | .read_dtc_information_report_number_of_emissions_related_obd_dtc_by_status_mask x0 x1 => by cases x1 <;> rfl
  | .read_dtc_information_report_emissions_related_obd_dtc_by_status_mask x0 x1 => by cases x1 <;> rfl
  | .report_dtc_extended_data_record_by_dtc_number x0 x1 x2 => by cases x0 <;> cases x2 <;> rfl
  | .input_output_control_by_identifier x0 x1 x2 => by cases x2 <;> rfl
  | .input_output_control_by_identifier_return_control_to_ecu x0 x1 => by cases x1 <;> rfl
  | .input_output_control_by_identifier_reset_to_default x0 x1 => by cases x1 <;> rfl
  | .input_output_control_by_identifier_freeze_current_state x0 x1 => by cases x1 <;> rfl
  | .input_output_control_by_identifier_short_term_adjustment x0 x1 x2 => by cases x2 <;> rfl
  | .routine_control_start_routine x0 x1 x2 => by cases x1 <;> cases x2 <;> rfl
  | .routine_control_stop_routine x0 x1 x2 => by cases x1 <;> cases x2 <;> rfl
  | .routine_control_request_routine_results x0 x1 x2 => by cases x1 <;> cases x2 <;> rfl
  | .request_download x0 x1 x2 x3 x4 => by cases x2 <;> cases x3 <;> rcases x4 with _ | _ | _ <;> rfl
  | .request_upload x0 x1 x2 x3 x4 => by cases x2 <;> cases x3 <;> rcases x4 with _ | _ | _ <;> rfl
  | .transfer_data x0 x1 => by cases x1 <;> rfl
  | .request_transfer_exit x0 => by cases x0 <;> rfl
  | .define_by_identifier x0 x1 x2 x3 x4 => by cases x1 <;> cases x2 <;> cases x3 <;> cases x4 <;> rfl
  | .define_by_memory_address x0 x1 x2 x3 x4 => by cases x1 <;> cases x2 <;> rcases x3 with _ | _ | _ <;> cases x4 <;> rfl
  | .clear_dynamically_defined_data_identifier x0 x1 => by cases x0 <;> cases x1 <;> rfl
  | .ping => by rfl
  | .read_session => by rfl
  | .set_session x0 x1 => by cases x1 <;> rfl
  | .read_dtc => by rfl
  | .clear_dtc => by rfl
  | .read_vin => by rfl
  | .refresh_state x0 => by cases x0 <;> rfl

/-- spelling out the documented defaults does not change the intended arguments -/
theorem argsOf_fill : ∀ c : Call, argsOf c.fill = argsOf c
  | .send_raw x0 => by rfl
  | .diagnostic_session_control x0 x1 => by rfl
  | .ecu_reset x0 x1 => by rfl
  | .security_access_request_seed x0 x1 x2 => by rfl
  | .security_access_send_key x0 x1 x2 => by rfl
  | .communication_control x0 x1 x2 => by rfl
  | .tester_present x0 => by rfl
  | .control_dtc_setting x0 x1 x2 => by rfl
  | .read_data_by_identifier x0 => by rfl
  | .read_memory_by_address x0 x1 x2 => by rfl
  | .write_data_by_identifier x0 x1 => by rfl
  | .write_memory_by_address x0 x1 x2 x3 => by rfl
  | .clear_diagnostic_information x0 => by rfl
  | .read_dtc_information_report_number_of_dtc_by_status_mask x0 x1 => by rfl
  | .read_dtc_information_report_dtc_by_status_mask x0 x1 => by rfl
  | .read_dtc_information_report_mirror_memory_dtc_by_status_mask x0 x1 => by rfl
  | .read_dtc_information_report_number_of_mirror_memory_dtc_by_status_mask x0 x1 => by rfl
  | .read_dtc_information_report_number_of_emissions_related_obd_dtc_by_status_mask x0 x1 => by rfl
  | .read_dtc_information_report_emissions_related_obd_dtc_by_status_mask x0 x1 => by rfl
  | .report_dtc_extended_data_record_by_dtc_number x0 x1 x2 => by cases x0 <;> rfl
  | .input_output_control_by_identifier x0 x1 x2 => by rfl
  | .input_output_control_by_identifier_return_control_to_ecu x0 x1 => by rfl
  | .input_output_control_by_identifier_reset_to_default x0 x1 => by rfl
  | .input_output_control_by_identifier_freeze_current_state x0 x1 => by rfl
  | .input_output_control_by_identifier_short_term_adjustment x0 x1 x2 => by rfl
  | .routine_control_start_routine x0 x1 x2 => by rfl
  | .routine_control_stop_routine x0 x1 x2 => by rfl
  | .routine_control_request_routine_results x0 x1 x2 => by rfl
  | .request_download x0 x1 x2 x3 x4 => by rfl
  | .request_upload x0 x1 x2 x3 x4 => by rfl
  | .transfer_data x0 x1 => by rfl
  | .request_transfer_exit x0 => by rfl
  | .define_by_identifier x0 x1 x2 x3 x4 => by rfl
  | .define_by_memory_address x0 x1 x2 x3 x4 => by rfl
  | .clear_dynamically_defined_data_identifier x0 x1 => by rfl
  | .ping => by rfl
  | .read_session => by rfl
  | .set_session x0 x1 => by rfl
  | .read_dtc => by rfl
  | .clear_dtc => by rfl
  | .read_vin => by rfl
  | .refresh_state x0 => by rfl

theorem fill_fill : ∀ c : Call, c.fill.fill = c.fill
  | .send_raw x0 => by rfl
  | .diagnostic_session_control x0 x1 => by rfl
  | .ecu_reset x0 x1 => by rfl
  | .security_access_request_seed x0 x1 x2 => by rfl
  | .security_access_send_key x0 x1 x2 => by rfl
  | .communication_control x0 x1 x2 => by rfl
  | .tester_present x0 => by rfl
  | .control_dtc_setting x0 x1 x2 => by rfl
  | .read_data_by_identifier x0 => by rfl
  | .read_memory_by_address x0 x1 x2 => by rfl
  | .write_data_by_identifier x0 x1 => by rfl
  | .write_memory_by_address x0 x1 x2 x3 => by rfl
  | .clear_diagnostic_information x0 => by rfl
  | .read_dtc_information_report_number_of_dtc_by_status_mask x0 x1 => by rfl
  | .read_dtc_information_report_dtc_by_status_mask x0 x1 => by rfl
  | .read_dtc_information_report_mirror_memory_dtc_by_status_mask x0 x1 => by rfl
  | .read_dtc_information_report_number_of_mirror_memory_dtc_by_status_mask x0 x1 => by rfl
  | .read_dtc_information_report_number_of_emissions_related_obd_dtc_by_status_mask x0 x1 => by rfl
  | .read_dtc_information_report_emissions_related_obd_dtc_by_status_mask x0 x1 => by rfl
  | .report_dtc_extended_data_record_by_dtc_number x0 x1 x2 => by rfl
  | .input_output_control_by_identifier x0 x1 x2 => by rfl
  | .input_output_control_by_identifier_return_control_to_ecu x0 x1 => by rfl
  | .input_output_control_by_identifier_reset_to_default x0 x1 => by rfl
  | .input_output_control_by_identifier_freeze_current_state x0 x1 => by rfl
  | .input_output_control_by_identifier_short_term_adjustment x0 x1 x2 => by rfl
  | .routine_control_start_routine x0 x1 x2 => by rfl
  | .routine_control_stop_routine x0 x1 x2 => by rfl
  | .routine_control_request_routine_results x0 x1 x2 => by rfl
  | .request_download x0 x1 x2 x3 x4 => by rfl
  | .request_upload x0 x1 x2 x3 x4 => by rfl
  | .transfer_data x0 x1 => by rfl
  | .request_transfer_exit x0 => by rfl
  | .define_by_identifier x0 x1 x2 x3 x4 => by rfl
  | .define_by_memory_address x0 x1 x2 x3 x4 => by rfl
  | .clear_dynamically_defined_data_identifier x0 x1 => by rfl
  | .ping => by rfl
  | .read_session => by rfl
  | .set_session x0 x1 => by rfl
  | .read_dtc => by rfl
  | .clear_dtc => by rfl
  | .read_vin => by rfl
  | .refresh_state x0 => by rfl

/-! ### chunking of `transmit_data` -/

theorem chunk_nil (k : Nat) : chunk k [] = [] := by rw [chunk]; simp

theorem chunk_cons (k : Nat) (bs : Bytes) (h1 : bs ≠ []) (h2 : k ≠ 0) : chunk k bs = bs.take k :: chunk k (bs.drop k) := by
  rw [chunk]; simp [h1, h2]

/-- the chunks concatenate to the data -/
theorem chunk_flatten (k : Nat) (hk : k ≠ 0) (bs : Bytes) : (chunk k bs).flatten = bs := by
  induction h : bs.length using Nat.strongRecOn generalizing bs with
  | _ n ih =>
    by_cases hb : bs = []
    · subst hb; simp [chunk_nil]
    · rw [chunk_cons k bs hb hk, List.flatten_cons]
      have hlen : 0 < bs.length := List.length_pos_iff.mpr hb
      rw [ih (bs.drop k).length (by simp only [List.length_drop]; omega) (bs.drop k) rfl]
      exact List.take_append_drop k bs

/-- every chunk is non-empty and at most `k` long -/
theorem chunk_len (k : Nat) (hk : k ≠ 0) (bs : Bytes) : ∀ c ∈ chunk k bs, 0 < c.length ∧ c.length ≤ k := by
  induction h : bs.length using Nat.strongRecOn generalizing bs with
  | _ n ih =>
    by_cases hb : bs = []
    · subst hb; simp [chunk_nil]
    · rw [chunk_cons k bs hb hk]
      have hlen : 0 < bs.length := List.length_pos_iff.mpr hb
      intro c hc
      rcases List.mem_cons.mp hc with rfl | hc
      · simp only [List.length_take]; omega
      · exact ih (bs.drop k).length (by simp only [List.length_drop]; omega) (bs.drop k) rfl c hc

/-- number of chunks: `ceil(len / k)` -/
theorem chunk_length (k : Nat) (hk : k ≠ 0) (bs : Bytes) : (chunk k bs).length = (bs.length + k - 1) / k := by
  induction h : bs.length using Nat.strongRecOn generalizing bs with
  | _ n ih =>
    subst h
    by_cases hb : bs = []
    · subst hb; simp only [chunk_nil, List.length_nil, Nat.zero_add]
      exact (Nat.div_eq_of_lt (by omega)).symm
    · rw [chunk_cons k bs hb hk, List.length_cons]
      have hlen : 0 < bs.length := List.length_pos_iff.mpr hb
      rw [ih (bs.drop k).length (by simp only [List.length_drop]; omega) (bs.drop k) rfl]
      simp only [List.length_drop]
      by_cases hle : bs.length ≤ k
      · have e1 : (bs.length - k + k - 1) / k = 0 := Nat.div_eq_of_lt (by omega)
        have e2 : (bs.length + k - 1) / k = 1 := by
          apply Nat.div_eq_of_lt_le <;> omega
        omega
      · have e : bs.length + k - 1 = (bs.length - k + k - 1) + k := by omega
        rw [e, Nat.add_div_right _ (by omega)]

/-- every chunk but the last is full -/
theorem chunk_full (k : Nat) (hk : k ≠ 0) (bs : Bytes) (i : Nat) (h : i + 1 < (chunk k bs).length) :
    ((chunk k bs)[i]'(by omega)).length = k := by
  induction hn : bs.length using Nat.strongRecOn generalizing bs i with
  | _ n ih =>
    by_cases hb : bs = []
    · subst hb; simp [chunk_nil] at h
    · have hlen : 0 < bs.length := List.length_pos_iff.mpr hb
      have e := chunk_cons k bs hb hk
      have hk' : k < bs.length := by
        -- two chunks at least: the data is longer than one chunk
        rw [e, List.length_cons] at h
        have : 0 < (chunk k (bs.drop k)).length := by omega
        have hne : bs.drop k ≠ [] := by
          intro hz; rw [hz, chunk_nil] at this; simp at this
        have := List.length_pos_iff.mpr hne
        simp only [List.length_drop] at this; omega
      cases i with
      | zero => simp only [e, List.getElem_cons_zero, List.length_take]; omega
      | succ j =>
        simp only [e, List.getElem_cons_succ]
        apply ih (bs.drop k).length (by simp only [List.length_drop]; omega) (bs.drop k) j _ rfl
        rw [e, List.length_cons] at h; omega

/-! ### the calls of `transmit_data` -/

theorem transferCalls_length (cs : List Bytes) (s : Nat) : (transferCalls cs s).length = cs.length := by
  induction cs generalizing s with
  | nil => rfl
  | cons c t ih => simp [transferCalls, ih]

theorem transferCalls_get (cs : List Bytes) (s i : Nat) (h : i < cs.length) :
    (transferCalls cs s)[i]'(by rw [transferCalls_length]; exact h) = .transfer_data (counterOf (s + i)) (some cs[i]) := by
  induction cs generalizing s i with
  | nil => simp at h
  | cons c t ih =>
    cases i with
    | zero => simp [transferCalls]
    | succ j =>
      simp only [transferCalls, List.getElem_cons_succ]
      rw [ih (s + 1) j (by simpa using h)]
      congr 2; omega

theorem counterOf_range (i : Nat) : 0 ≤ counterOf i ∧ counterOf i < 256 := by
  unfold counterOf; omega

/-! ### which request a call denotes, field by field -/

theorem denote_shape (c : Call) (r : Req) (h : denote c = .ok r) : Shape (argsOf c) r := mk_shape _ _ h

/-- a call with a `suppress_response` parameter denotes a sub-function request whose suppress flag is the argument
    (left out = not suppressed) -/
theorem denote_subfn_sup (c : Call) (r : Req) (s : Option Bool) (h : denote c = .ok r) (hs : c.supArg = some s) :
    ∃ sf, subfn r = some (sf, s.getD false) := by
  have hsh := denote_shape c r h
  cases c <;> simp only [Call.supArg, Option.some.injEq, reduceCtorEq] at hs <;> subst hs
  case report_dtc_extended_data_record_by_dtc_number d n s =>
    cases d <;> simp only [argsOf, Shape] at hsh <;> subst hsh <;> exact ⟨_, rfl⟩
  case define_by_memory_address => simp only [argsOf, Shape] at hsh; obtain ⟨f, rfl⟩ := hsh; exact ⟨_, rfl⟩
  all_goals (simp only [argsOf, Shape] at hsh; subst hsh; exact ⟨_, rfl⟩)

/-- a call without a `suppress_response` parameter never sets the suppress bit -/
theorem denote_subfn_nosup (c : Call) (r : Req) (sf : Nat) (sup : Bool) (h : denote c = .ok r) (hs : c.supArg = none)
    (hr : subfn r = some (sf, sup)) : sup = false := by
  have hsh := denote_shape c r h
  cases c <;> simp only [Call.supArg, reduceCtorEq] at hs <;> simp only [argsOf, Shape] at hsh
  all_goals first
    | (subst hsh; simp only [subfn, Option.some.injEq, Prod.mk.injEq, reduceCtorEq] at hr; exact hr.2.symm)
    | (obtain ⟨f, rfl⟩ := hsh; simp only [subfn, reduceCtorEq] at hr)
    | (subst hsh; simp only [subfn, reduceCtorEq] at hr)

/-- the 16-bit identifier of the denoted request is the argument -/
theorem denote_didAt (c : Call) (r : Req) (off : Nat) (d : Int) (h : denote c = .ok r) (hd : c.identArg = some (off, d)) :
    didAt r = some (off, d.toNat) := by
  have hsh := denote_shape c r h
  cases c <;> simp only [Call.identArg, Option.some.injEq, Prod.mk.injEq, reduceCtorEq] at hd
  case read_data_by_identifier x =>
    cases x <;> simp only [Option.some.injEq, Prod.mk.injEq, reduceCtorEq] at hd
    obtain ⟨rfl, rfl⟩ := hd
    simp only [argsOf, IntOrList.toList, Shape, List.map_cons, List.map_nil] at hsh; subst hsh; rfl
  case clear_dynamically_defined_data_identifier x s =>
    cases x <;> simp only [Option.some.injEq, Prod.mk.injEq, reduceCtorEq] at hd
    obtain ⟨rfl, rfl⟩ := hd
    simp only [argsOf, Shape, Option.map_some] at hsh; subst hsh; rfl
  case define_by_memory_address =>
    obtain ⟨rfl, rfl⟩ := hd
    simp only [argsOf, Shape] at hsh; obtain ⟨f, rfl⟩ := hsh; rfl
  all_goals (obtain ⟨rfl, rfl⟩ := hd; simp only [argsOf, Shape, List.map_cons, List.map_nil] at hsh; subst hsh; rfl)

/-- only `send_raw` denotes an opaque raw request -/
theorem denote_not_raw (c : Call) (r : Req) (h : denote c = .ok r) (hc : c.method ≠ .send_raw) : r.isRaw = false := by
  have hsh := denote_shape c r h
  cases c
  case send_raw => exact absurd rfl hc
  case report_dtc_extended_data_record_by_dtc_number d n s =>
    cases d <;> simp only [argsOf, Shape] at hsh <;> subst hsh <;> rfl
  all_goals (simp only [argsOf, Shape] at hsh; first | (subst hsh; rfl) | (obtain ⟨f, rfl⟩ := hsh; rfl))

/-- ISO 14229-1 service id / sub-function of a public method, from `wireTable` -/
def wireOf (m : Method) : Option (Option Nat × Option Nat) := (wireTable.find? (fun e => e.1 = m)).map (·.2)

/-- the inputOutputControlParameter the name of an InputOutputControlByIdentifier convenience method says -/
def Call.iocbiParam : Call → Option Nat
  | .input_output_control_by_identifier_return_control_to_ecu .. => some returnControlToECU
  | .input_output_control_by_identifier_reset_to_default .. => some resetToDefault
  | .input_output_control_by_identifier_freeze_current_state .. => some freezeCurrentState
  | .input_output_control_by_identifier_short_term_adjustment .. => some 3
  | _ => none

theorem denote_iocbi_param (c : Call) (r : Req) (p : Nat) (h : denote c = .ok r) (hp : c.iocbiParam = some p) :
    ∃ d rest m, r = .iocbi d (u8 p :: rest) m := by
  have hsh := denote_shape c r h
  cases c <;> simp only [Call.iocbiParam, Option.some.injEq, reduceCtorEq] at hp <;> subst hp <;>
    simp only [argsOf, Shape] at hsh <;> subst hsh
  · exact ⟨_, [], _, rfl⟩
  · exact ⟨_, [], _, rfl⟩
  · exact ⟨_, [], _, rfl⟩
  · exact ⟨_, _, _, rfl⟩

/-- after `fill` every parameter of the method's signature is passed explicitly -/
theorem fill_complete : ∀ c : Call,
    (sigs.find? (fun s => s.method = c.method)).map (fun s => s.params.map (·.name)) = some (c.fill.py.2.map (·.1))
  | .send_raw x0 => by rfl
  | .diagnostic_session_control x0 x1 => by rfl
  | .ecu_reset x0 x1 => by rfl
  | .security_access_request_seed x0 x1 x2 => by rfl
  | .security_access_send_key x0 x1 x2 => by rfl
  | .communication_control x0 x1 x2 => by rfl
  | .tester_present x0 => by rfl
  | .control_dtc_setting x0 x1 x2 => by rfl
  | .read_data_by_identifier x0 => by rfl
  | .read_memory_by_address x0 x1 x2 => by rfl
  | .write_data_by_identifier x0 x1 => by rfl
  | .write_memory_by_address x0 x1 x2 x3 => by rfl
  | .clear_diagnostic_information x0 => by rfl
  | .read_dtc_information_report_number_of_dtc_by_status_mask x0 x1 => by rfl
  | .read_dtc_information_report_dtc_by_status_mask x0 x1 => by rfl
  | .read_dtc_information_report_mirror_memory_dtc_by_status_mask x0 x1 => by rfl
  | .read_dtc_information_report_number_of_mirror_memory_dtc_by_status_mask x0 x1 => by rfl
  | .read_dtc_information_report_number_of_emissions_related_obd_dtc_by_status_mask x0 x1 => by rfl
  | .read_dtc_information_report_emissions_related_obd_dtc_by_status_mask x0 x1 => by rfl
  | .report_dtc_extended_data_record_by_dtc_number x0 x1 x2 => by rfl
  | .input_output_control_by_identifier x0 x1 x2 => by rfl
  | .input_output_control_by_identifier_return_control_to_ecu x0 x1 => by rfl
  | .input_output_control_by_identifier_reset_to_default x0 x1 => by rfl
  | .input_output_control_by_identifier_freeze_current_state x0 x1 => by rfl
  | .input_output_control_by_identifier_short_term_adjustment x0 x1 x2 => by rfl
  | .routine_control_start_routine x0 x1 x2 => by rfl
  | .routine_control_stop_routine x0 x1 x2 => by rfl
  | .routine_control_request_routine_results x0 x1 x2 => by rfl
  | .request_download x0 x1 x2 x3 x4 => by rfl
  | .request_upload x0 x1 x2 x3 x4 => by rfl
  | .transfer_data x0 x1 => by rfl
  | .request_transfer_exit x0 => by rfl
  | .define_by_identifier x0 x1 x2 x3 x4 => by rfl
  | .define_by_memory_address x0 x1 x2 x3 x4 => by rfl
  | .clear_dynamically_defined_data_identifier x0 x1 => by rfl
  | .ping => by rfl
  | .read_session => by rfl
  | .set_session x0 x1 => by rfl
  | .read_dtc => by rfl
  | .clear_dtc => by rfl
  | .read_vin => by rfl
  | .refresh_state x0 => by rfl

theorem transfer_data_bytes (i : Nat) (c : Bytes) :
    denote (.transfer_data (counterOf i) (some c)) = .ok (.transferData ((i + 1) % 256) c) := by
  have hb : bIn (counterOf i) 256 := counterOf_range i
  have ht : (counterOf i).toNat = (i + 1) % 256 := by unfold counterOf; omega
  simp only [denote, argsOf, Option.getD_some, mk, natIn_ok hb, bind_ok, ht]; rfl

end Gallia.UdsClientApi
