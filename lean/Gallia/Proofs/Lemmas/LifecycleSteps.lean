import Gallia.Model.Lifecycle
import Gallia.Spec.Lifecycle
/-
  Helper lemmas for C15, part 1: sequences of awaited statements (`runSteps`) - which exception leaves them, which steps
  are performed, what they leave alone (frame) and what they do to the three resources a half-finished setup / teardown
  can leave behind (transport, tester-present task, dumpcap process).
-/
namespace Gallia.Lifecycle
open Gallia.Lifecycle.Spec

@[simp] theorem orElse_none_left (b : Option Exc) : orElse none b = b := rfl
@[simp] theorem orElse_some_left (e : Exc) (b : Option Exc) : orElse (some e) b = some e := rfl
@[simp] theorem orElse_none_right (a : Option Exc) : orElse a none = a := by cases a <;> rfl
theorem orElse_assoc (a b c : Option Exc) : orElse (orElse a b) c = orElse a (orElse b c) := by cases a <;> rfl
theorem orElse_eq_none (a b : Option Exc) : orElse a b = none ↔ a = none ∧ b = none := by cases a <;> simp
theorem orElse_isNone (a b : Option Exc) : (orElse a b).isNone = (a.isNone && b.isNone) := by cases a <;> simp

/-- the first step of the list that raises -/
def firstFault : List Step → Option Exc
  | [] => none
  | p :: ps => orElse p.ev (firstFault ps)

@[simp] theorem firstFault_nil : firstFault [] = none := rfl
@[simp] theorem firstFault_cons (p : Step) (ps : List Step) : firstFault (p :: ps) = orElse p.ev (firstFault ps) := rfl

theorem firstFault_append (a b : List Step) : firstFault (a ++ b) = orElse (firstFault a) (firstFault b) := by
  induction a with
  | nil => rfl
  | cons p ps ih => simp [ih, orElse_assoc]

/-- the steps that are reached: up to and including the first one that raises -/
def performed : List Step → List Step
  | [] => []
  | p :: ps => p :: (match p.ev with
    | some _ => []
    | none => performed ps)

@[simp] theorem performed_nil : performed [] = [] := rfl

theorem performed_append (a b : List Step) :
    performed (a ++ b) = performed a ++ (if (firstFault a).isNone then performed b else []) := by
  induction a with
  | nil => simp
  | cons p ps ih =>
    cases h : p.ev <;> simp [performed, h, ih]

theorem performed_sublist (ps : List Step) : ∀ p ∈ performed ps, p ∈ ps := by
  induction ps with
  | nil => simp
  | cons q qs ih =>
    intro p hp
    simp only [performed, List.mem_cons] at hp
    rcases hp with rfl | hp
    · simp
    · cases h : q.ev <;> simp [h] at hp
      exact List.mem_cons_of_mem _ (ih p hp)

theorem performed_head (p : Step) (ps : List Step) : p ∈ performed (p :: ps) := by simp [performed]

theorem runSteps_exc (ps : List Step) (st : St) : (runSteps ps st).2 = firstFault ps := by
  induction ps generalizing st with
  | nil => rfl
  | cons p ps ih => cases h : p.ev <;> simp [runSteps, h, ih]

theorem runSteps_append (a b : List Step) (st : St) :
    runSteps (a ++ b) st =
      match (runSteps a st).2 with
      | some e => ((runSteps a st).1, some e)
      | none => runSteps b (runSteps a st).1 := by
  induction a generalizing st with
  | nil => simp [runSteps]
  | cons p ps ih => cases h : p.ev <;> simp [runSteps, h, ih]

/-! ### frame: what no step touches -/

def Fx.dbNeutral : Fx → Bool
  | .transportCloseDbDrop => false
  | _ => true

def Step.neutral (p : Step) : Bool := p.onOk.dbNeutral && p.always.dbNeutral

/-- everything a `setup` / `teardown` step of the current code leaves alone -/
structure Core where
  lockHeld : Bool
  logOpen : Bool
  dbConn : Bool
  dbRow : DbRow
  metaFile : Option MetaFile
  reports : List Hook
  preRan : Bool
  postEnv : Option PostEnv
  endTime : Nat
  waited : Bool
  artDir : Option Nat
  runs : List RunDir
  latest : Option Nat

def St.core (st : St) : Core :=
  ⟨st.lockHeld, st.logOpen, st.dbConn, st.dbRow, st.metaFile, st.reports, st.preRan, st.postEnv, st.endTime, st.waited,
   st.artDir, st.runs, st.latest⟩

theorem obs_core (st : St) (a : Act) : (st.obs a).core = st.core := rfl

theorem fx_core (st : St) (f : Fx) (h : f.dbNeutral = true) : (st.fx f).core = st.core := by
  cases f <;> first | rfl | simp [Fx.dbNeutral] at h

theorem fx_tick (st : St) (f : Fx) (h : f.dbNeutral = true) : (st.fx f).tick = st.tick := by
  cases f <;> first | rfl | simp [Fx.dbNeutral] at h

theorem fx_trace (st : St) (f : Fx) : (st.fx f).trace = st.trace := by
  cases f <;> simp [St.fx, St.step] <;> split <;> rfl

theorem runSteps_core (ps : List Step) (st : St) (h : ∀ p ∈ ps, p.neutral = true) :
    (runSteps ps st).1.core = st.core := by
  induction ps generalizing st with
  | nil => rfl
  | cons p ps ih =>
    have hp := h p (by simp)
    simp only [Step.neutral, Bool.and_eq_true] at hp
    have ht := fun q hq => h q (List.mem_cons_of_mem _ hq)
    cases he : p.ev
    · simp only [runSteps, he]
      rw [ih _ ht, fx_core _ _ hp.1, fx_core _ _ hp.2, obs_core]
    · simp only [runSteps, he]
      rw [fx_core _ _ hp.2, obs_core]

theorem runSteps_tick (ps : List Step) (st : St) (h : ∀ p ∈ ps, p.neutral = true) :
    (runSteps ps st).1.tick = st.tick + (performed ps).length := by
  induction ps generalizing st with
  | nil => rfl
  | cons p ps ih =>
    have hp := h p (by simp)
    simp only [Step.neutral, Bool.and_eq_true] at hp
    have ht := fun q hq => h q (List.mem_cons_of_mem _ hq)
    cases he : p.ev
    · simp only [runSteps, he, performed, List.length_cons]
      rw [ih _ ht, fx_tick _ _ hp.1, fx_tick _ _ hp.2]
      simp only [St.obs]; omega
    · simp only [runSteps, he, performed, List.length_cons, List.length_nil]
      rw [fx_tick _ _ hp.2]; simp only [St.obs]

theorem runSteps_trace (ps : List Step) (st : St) (h : ∀ p ∈ ps, p.neutral = true) :
    (runSteps ps st).1.trace =
      st.trace ++ (performed ps).map fun p => ⟨p.act, st.lockHeld, st.metaFile.isSome⟩ := by
  induction ps generalizing st with
  | nil => simp [runSteps]
  | cons p ps ih =>
    have hp := h p (by simp)
    simp only [Step.neutral, Bool.and_eq_true] at hp
    have ht := fun q hq => h q (List.mem_cons_of_mem _ hq)
    have hc : (((st.obs p.act).fx p.always).fx p.onOk).core = st.core := by
      rw [fx_core _ _ hp.1, fx_core _ _ hp.2, obs_core]
    have h1 : (((st.obs p.act).fx p.always).fx p.onOk).lockHeld = st.lockHeld := congrArg Core.lockHeld hc
    have h2 : (((st.obs p.act).fx p.always).fx p.onOk).metaFile = st.metaFile := congrArg Core.metaFile hc
    cases he : p.ev
    · simp only [runSteps, he, performed]
      rw [ih _ ht, fx_trace, fx_trace, h1, h2]
      simp [St.obs]
    · simp only [runSteps, he, performed]
      rw [fx_trace]; simp [St.obs]

/-! ### resources -/

/-- the part of an effect that concerns one resource -/
def Fx.tr : Fx → Bool → Bool
  | .transportOpen, _ => true
  | .transportClose, _ => false
  | .transportCloseDbDrop, _ => false
  | _, b => b

def Fx.tp : Fx → Bool → Bool
  | .tpOn, _ => true
  | .tpOff, _ => false
  | _, b => b

def Fx.dc : Fx → Bool → Bool
  | .dcOn, _ => true
  | .dcOff, _ => false
  | _, b => b

/-- state of one resource after the steps, `r` saying what an effect does to it -/
def resAfter (r : Fx → Bool → Bool) : List Step → Bool → Bool
  | [], b => b
  | p :: ps, b =>
    match p.ev with
    | some _ => r p.always b
    | none => resAfter r ps (r p.onOk (r p.always b))

theorem resAfter_append (r : Fx → Bool → Bool) (a b : List Step) (x : Bool) :
    resAfter r (a ++ b) x = if (firstFault a).isNone then resAfter r b (resAfter r a x) else resAfter r a x := by
  induction a generalizing x with
  | nil => simp [resAfter]
  | cons p ps ih => cases h : p.ev <;> simp [resAfter, h, ih]

theorem resAfter_neutral (r : Fx → Bool → Bool) (a : List Step) (x : Bool)
    (h : ∀ p ∈ a, (∀ b, r p.onOk b = b) ∧ (∀ b, r p.always b = b)) : resAfter r a x = x := by
  induction a generalizing x with
  | nil => rfl
  | cons p ps ih =>
    have hp := h p (by simp)
    have ht := fun q hq => h q (List.mem_cons_of_mem _ hq)
    cases he : p.ev <;> simp [resAfter, he, hp.1, hp.2, ih _ ht]

theorem fx_transportOpen (st : St) (f : Fx) : (st.fx f).transportOpen = f.tr st.transportOpen := by
  cases f <;> simp [St.fx, Fx.tr, St.step] <;> split <;> rfl

theorem fx_tpRunning (st : St) (f : Fx) : (st.fx f).tpRunning = f.tp st.tpRunning := by
  cases f <;> simp [St.fx, Fx.tp, St.step] <;> split <;> rfl

theorem fx_dcRunning (st : St) (f : Fx) : (st.fx f).dcRunning = f.dc st.dcRunning := by
  cases f <;> simp [St.fx, Fx.dc, St.step] <;> split <;> rfl

theorem runSteps_transportOpen (ps : List Step) (st : St) :
    (runSteps ps st).1.transportOpen = resAfter Fx.tr ps st.transportOpen := by
  induction ps generalizing st with
  | nil => rfl
  | cons p ps ih => cases h : p.ev <;> simp [runSteps, resAfter, h, ih, fx_transportOpen, St.obs]

theorem runSteps_tpRunning (ps : List Step) (st : St) :
    (runSteps ps st).1.tpRunning = resAfter Fx.tp ps st.tpRunning := by
  induction ps generalizing st with
  | nil => rfl
  | cons p ps ih => cases h : p.ev <;> simp [runSteps, resAfter, h, ih, fx_tpRunning, St.obs]

theorem runSteps_dcRunning (ps : List Step) (st : St) :
    (runSteps ps st).1.dcRunning = resAfter Fx.dc ps st.dcRunning := by
  induction ps generalizing st with
  | nil => rfl
  | cons p ps ih => cases h : p.ev <;> simp [runSteps, resAfter, h, ih, fx_dcRunning, St.obs]

end Gallia.Lifecycle
