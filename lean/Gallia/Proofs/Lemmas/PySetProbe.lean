import Gallia.Model.PySet
import Gallia.Proofs.Lemmas.PySetLcg
/-
  C16 / PySet — the probe loop: it is never out of rounds on a power-of-two table that has an entry to stop at
  (`probe_isSome`), it stops at an entry that satisfies the stop predicate (`probe_spec`), and its result is stable under
  the table updates the set operations perform (`probe_congr`, `probe_set_stop`, `probe_set_hit`, `probe_set_free`).
-/
namespace Gallia.PySet

theorem slotAt_set (t : Array Slot) (e j : Nat) (v : Slot) :
    slotAt (t.setIfInBounds e v) j = if e = j ∧ e < t.size then v else slotAt t j := by
  unfold slotAt
  simp only [Array.getD_eq_getD_getElem?, Array.getElem?_setIfInBounds]
  by_cases h : e = j
  · subst h
    by_cases h2 : e < t.size <;> simp [h2]
  · simp [h]

theorem slotAt_of_ge (t : Array Slot) {j : Nat} (h : t.size ≤ j) : slotAt t j = .empty := by
  unfold slotAt
  simp [Array.getD_eq_getD_getElem?, Array.getElem?_eq_none h]

/-! ### the sequence of round start indices -/

def pstep (size : Nat) (s : Nat × Nat) : Nat × Nat :=
  ((s.1 * 5 + 1 + (s.2 >>> PERTURB_SHIFT)) % size, s.2 >>> PERTURB_SHIFT)

def pstate (size : Nat) : Nat → Nat × Nat → Nat × Nat
  | 0, s => s
  | r + 1, s => pstate size r (pstep size s)

theorem pstate_add (size r q : Nat) (s : Nat × Nat) : pstate size (r + q) s = pstate size q (pstate size r s) := by
  induction r generalizing s with
  | zero => simp [pstate]
  | succ r ih => rw [Nat.add_right_comm]; simp [pstate, ih]

theorem pstate_snd (size r : Nat) (s : Nat × Nat) : (pstate size r s).2 = s.2 >>> (PERTURB_SHIFT * r) := by
  induction r generalizing s with
  | zero => simp [pstate]
  | succ r ih => simp only [pstate, ih, pstep, Nat.mul_succ]; rw [Nat.add_comm, Nat.shiftRight_add]

theorem pstate_fst_lt {size : Nat} (hs : 0 < size) (r : Nat) (s : Nat × Nat) (h : s.1 < size) :
    (pstate size r s).1 < size := by
  induction r generalizing s with
  | zero => simpa [pstate]
  | succ r ih => exact ih _ (Nat.mod_lt _ hs)

/-- once `perturb` is zero the start indices follow `i ↦ 5 i + 1` -/
theorem pstate_zero (size r i : Nat) : pstate size r (i, 0) = (lcgN size r i, 0) := by
  induction r generalizing i with
  | zero => simp [pstate, lcgN]
  | succ r ih =>
    simp only [pstate, lcgN, pstep, Nat.zero_shiftRight, Nat.add_zero]
    rw [show i * 5 + 1 = 5 * i + 1 by omega]
    exact ih _

/-- on a table of `2^k` entries every index is the start index of one of the first `13 + 2^k` rounds -/
theorem pstate_reaches (k i p j : Nat) (hp : p < 2 ^ 65) (hj : j < 2 ^ k) :
    ∃ r, r < 13 + 2 ^ k ∧ (pstate (2 ^ k) r (i, p)).1 = j := by
  have hpos : 0 < 2 ^ k := Nat.two_pow_pos _
  have h13 : (pstate (2 ^ k) 13 (i, p)).2 = 0 := by
    rw [pstate_snd]
    simp only [PERTURB_SHIFT, Nat.shiftRight_eq_div_pow]
    exact Nat.div_eq_of_lt (by omega)
  have hlt : (pstate (2 ^ k) 13 (i, p)).1 < 2 ^ k := by
    show (pstate (2 ^ k) 12 (pstep (2 ^ k) (i, p))).1 < 2 ^ k
    exact pstate_fst_lt hpos _ _ (Nat.mod_lt _ hpos)
  obtain ⟨r, hr, hrj⟩ := lcg_full_period k _ j hlt hj
  refine ⟨13 + r, by omega, ?_⟩
  rw [pstate_add]
  have : pstate (2 ^ k) 13 (i, p) = ((pstate (2 ^ k) 13 (i, p)).1, 0) := by rw [← h13]
  rw [this, pstate_zero]
  exact hrj

/-! ### the loop -/

theorem runProbe_inr {stop : Slot → Bool} {t : Array Slot} {i : Nat} {free free' : Option Nat} {n : Nat}
    (h : runProbe stop t i free n = .inr free') : ∀ m, m < n → stop (slotAt t (i + m)) = false := by
  induction n generalizing i free with
  | zero => intro m hm; omega
  | succ n ih =>
    unfold runProbe at h
    simp only at h
    split at h
    · cases h
    · intro m hm
      cases m with
      | zero => exact Bool.eq_false_iff.2 ‹_›
      | succ m =>
        have := ih h m (by omega)
        rw [show i + (m + 1) = i + 1 + m by omega]
        exact this

theorem runProbe_inl {stop : Slot → Bool} {t : Array Slot} {i : Nat} {free : Option Nat} {n : Nat} {hit : Hit}
    (h : runProbe stop t i free n = .inl hit) :
    stop (slotAt t hit.idx) = true ∧ i ≤ hit.idx ∧ hit.idx < i + n ∧
      ∀ m, i ≤ m → m < hit.idx → stop (slotAt t m) = false := by
  induction n generalizing i free with
  | zero => simp [runProbe] at h
  | succ n ih =>
    unfold runProbe at h
    simp only at h
    split at h
    · cases h
      exact ⟨‹_›, Nat.le_refl _, by simp, fun m h1 h2 => by simp at h2; omega⟩
    · obtain ⟨h1, h2, h3, h4⟩ := ih h
      refine ⟨h1, by omega, by omega, ?_⟩
      intro m hm1 hm2
      by_cases hmi : m = i
      · subst hmi; exact Bool.eq_false_iff.2 ‹_›
      · exact h4 m (by omega) hm2

theorem nProbes_pos (size i : Nat) : 0 < nProbes size i := by unfold nProbes; split <;> simp [LINEAR_PROBES]

theorem nProbes_le {size i : Nat} (hi : i < size) : i + nProbes size i ≤ size := by
  unfold nProbes LINEAR_PROBES; split <;> omega

/-- out of rounds only if no round started at an entry to stop at -/
theorem probeLoop_none {stop : Slot → Bool} {t : Array Slot} {F i p : Nat} {free : Option Nat}
    (h : probeLoop stop t F i p free = none) :
    ∀ r, r < F → stop (slotAt t (pstate t.size r (i, p)).1) = false := by
  induction F generalizing i p free with
  | zero => intro r hr; omega
  | succ F ih =>
    unfold probeLoop at h
    split at h
    · cases h
    · rename_i free' hrun
      intro r hr
      cases r with
      | zero => simpa [pstate] using runProbe_inr hrun 0 (nProbes_pos _ _)
      | succ r => exact ih h r (by omega)

/-- the loop finds an entry whenever there is one (power-of-two table, 64-bit hash) -/
theorem probeLoop_isSome {stop : Slot → Bool} {t : Array Slot} {k : Nat} (hsz : t.size = 2 ^ k)
    (i p : Nat) (free : Option Nat) (hp : p < 2 ^ 65) {j : Nat} (hj : j < t.size) (hstop : stop (slotAt t j) = true)
    {F : Nat} (hF : t.size + 13 ≤ F) : ∃ hit, probeLoop stop t F i p free = some hit := by
  cases hres : probeLoop stop t F i p free with
  | some hit => exact ⟨hit, rfl⟩
  | none =>
    exfalso
    obtain ⟨r, hr, hrj⟩ := pstate_reaches k i p j hp (hsz ▸ hj)
    have := probeLoop_none hres r (by omega)
    rw [hsz, hrj, hstop] at this
    cases this

/-- where the loop stops: inside the table, at an entry that satisfies `stop` -/
theorem probeLoop_spec {stop : Slot → Bool} {t : Array Slot} {F i p : Nat} {free : Option Nat} {hit : Hit}
    (hpos : 0 < t.size) (hi : i < t.size) (h : probeLoop stop t F i p free = some hit) :
    stop (slotAt t hit.idx) = true ∧ hit.idx < t.size := by
  induction F generalizing i p free with
  | zero => simp [probeLoop] at h
  | succ F ih =>
    unfold probeLoop at h
    split at h
    · rename_i hh hrun
      cases h
      obtain ⟨h1, _, h3, _⟩ := runProbe_inl hrun
      exact ⟨h1, by have := nProbes_le hi; omega⟩
    · exact ih (Nat.mod_lt _ hpos) h

/-! ### stability of the result under changes of the table -/

theorem runProbe_agree {stop stop' : Slot → Bool} {t t' : Array Slot} {i n : Nat} {free free' : Option Nat} {hit : Hit}
    (h : runProbe stop t i free n = .inl hit)
    (hag : ∀ j, (stop (slotAt t j) = false ∨ j = hit.idx) → stop' (slotAt t' j) = stop (slotAt t j)) :
    ∃ hit', runProbe stop' t' i free' n = .inl hit' ∧ hit'.idx = hit.idx := by
  induction n generalizing i free free' with
  | zero => simp [runProbe] at h
  | succ n ih =>
    unfold runProbe at h ⊢
    simp only at h ⊢
    split at h
    · cases h
      rename_i hs
      have := hag i (Or.inr rfl)
      rw [hs] at this
      simp [this]
    · rename_i hs
      have := hag i (Or.inl (Bool.eq_false_iff.2 hs))
      rw [Bool.eq_false_iff.2 hs] at this
      simp only [this, Bool.false_eq_true, ↓reduceIte]
      exact ih h

theorem runProbe_agree_inr {stop stop' : Slot → Bool} {t t' : Array Slot} {i n : Nat} {free free' fr : Option Nat}
    (h : runProbe stop t i free n = .inr fr)
    (hag : ∀ j, stop (slotAt t j) = false → stop' (slotAt t' j) = false) :
    ∃ fr', runProbe stop' t' i free' n = .inr fr' := by
  induction n generalizing i free free' with
  | zero => exact ⟨_, rfl⟩
  | succ n ih =>
    unfold runProbe at h ⊢
    simp only at h ⊢
    split at h
    · cases h
    · rename_i hs
      simp only [hag i (Bool.eq_false_iff.2 hs), Bool.false_eq_true, ↓reduceIte]
      exact ih h

/-- the loop stops at the same entry in a table (and for a stop predicate) that agrees with the old one on the entries
    that were passed and on the entry that was found -/
theorem probeLoop_agree {stop stop' : Slot → Bool} {t t' : Array Slot} {F i p : Nat} {free free' : Option Nat}
    {hit : Hit} (hsz : t'.size = t.size) (h : probeLoop stop t F i p free = some hit)
    (hag : ∀ j, (stop (slotAt t j) = false ∨ j = hit.idx) → stop' (slotAt t' j) = stop (slotAt t j)) :
    ∃ hit', probeLoop stop' t' F i p free' = some hit' ∧ hit'.idx = hit.idx := by
  induction F generalizing i p free free' with
  | zero => simp [probeLoop] at h
  | succ F ih =>
    unfold probeLoop at h ⊢
    split at h
    · rename_i hh hrun
      cases h
      obtain ⟨hit', h1, h2⟩ := runProbe_agree (free' := free') hrun hag
      rw [hsz, h1]
      exact ⟨hit', rfl, h2⟩
    · rename_i fr hrun
      obtain ⟨fr', h1⟩ := runProbe_agree_inr (stop' := stop') (t' := t') (free' := free') hrun
        (fun j hj => by rw [hag j (Or.inl hj), hj])
      rw [hsz, h1]
      exact ih h

theorem probe_agree {stop stop' : Slot → Bool} {t t' : Array Slot} {h : Nat} {hit : Hit} (hsz : t'.size = t.size)
    (hp : probe stop t h = some hit)
    (hag : ∀ j, (stop (slotAt t j) = false ∨ j = hit.idx) → stop' (slotAt t' j) = stop (slotAt t j)) :
    ∃ hit', probe stop' t' h = some hit' ∧ hit'.idx = hit.idx := by
  unfold probe probeFuel at hp ⊢
  rw [hsz]
  exact probeLoop_agree hsz hp hag

/-! ### the remembered dummy (`freeslot`) -/

def sumFree : Sum Hit (Option Nat) → Option Nat
  | .inl h => h.free
  | .inr f => f

theorem runProbe_free_spec {stop : Slot → Bool} {t : Array Slot} {i n : Nat} {free : Option Nat} (P : Nat → Prop)
    (hP : ∀ a, slotAt t a = .dummy → P a) (h0 : ∀ a, free = some a → P a) :
    ∀ a, sumFree (runProbe stop t i free n) = some a → P a := by
  induction n generalizing i free with
  | zero => simpa [runProbe, sumFree] using h0
  | succ n ih =>
    unfold runProbe
    simp only
    by_cases hs : stop (slotAt t i) = true
    · simp only [hs, ↓reduceIte, sumFree]; exact h0
    · simp only [hs, Bool.false_eq_true, ↓reduceIte]
      apply ih
      intro a ha
      split at ha
      · cases ha; exact hP _ ‹_›
      · exact h0 a ha

theorem probeLoop_free_spec {stop : Slot → Bool} {t : Array Slot} {F i p : Nat} {free : Option Nat} {hit : Hit}
    (P : Nat → Prop) (hP : ∀ a, slotAt t a = .dummy → P a) (h0 : ∀ a, free = some a → P a)
    (h : probeLoop stop t F i p free = some hit) : ∀ a, hit.free = some a → P a := by
  induction F generalizing i p free with
  | zero => simp [probeLoop] at h
  | succ F ih =>
    unfold probeLoop at h
    have := runProbe_free_spec (stop := stop) (t := t) (i := i) (n := nProbes t.size i) P hP h0
    split at h
    · rename_i hh hrun
      cases h
      rw [hrun] at this
      exact this
    · rename_i fr hrun
      rw [hrun] at this
      exact ih this h

/-- the remembered dummy is a dummy -/
theorem probe_free_dummy {stop : Slot → Bool} {t : Array Slot} {h : Nat} {hit : Hit} (hp : probe stop t h = some hit)
    {f : Nat} (hf : hit.free = some f) : slotAt t f = .dummy :=
  probeLoop_free_spec (fun a => slotAt t a = .dummy) (fun _ h => h) (by simp) hp f hf

theorem runProbe_set_free {stop : Slot → Bool} {t t' : Array Slot} {i n f : Nat} {free free' : Option Nat}
    (hne : ∀ j, j ≠ f → slotAt t' j = slotAt t j) (hstop : stop (slotAt t' f) = true) (h0 : free ≠ some f) :
    (∃ hit', runProbe stop t' i free' n = .inl hit' ∧ hit'.idx = f) ∨
    (sumFree (runProbe stop t i free n) ≠ some f ∧
      ∀ fr, runProbe stop t i free n = .inr fr → ∃ fr', runProbe stop t' i free' n = .inr fr') := by
  induction n generalizing i free free' with
  | zero => right; simp [runProbe, sumFree, h0]
  | succ n ih =>
    by_cases hif : i = f
    · left
      unfold runProbe
      simp [hif, hstop]
    · unfold runProbe
      simp only [hne i hif]
      by_cases hs : stop (slotAt t i) = true
      · right
        simp only [hs, ↓reduceIte, sumFree]
        exact ⟨h0, fun fr h => by cases h⟩
      · simp only [hs, Bool.false_eq_true, ↓reduceIte]
        apply ih
        split
        · simp; exact hif
        · exact h0

/-- writing an entry to stop at into the remembered dummy makes the loop stop there -/
theorem probeLoop_set_free {stop : Slot → Bool} {t t' : Array Slot} {F i p f : Nat} {free free' : Option Nat}
    {hit : Hit} (hsz : t'.size = t.size) (hne : ∀ j, j ≠ f → slotAt t' j = slotAt t j)
    (hstop : stop (slotAt t' f) = true) (h0 : free ≠ some f) (h : probeLoop stop t F i p free = some hit)
    (hf : hit.free = some f) : ∃ hit', probeLoop stop t' F i p free' = some hit' ∧ hit'.idx = f := by
  induction F generalizing i p free free' with
  | zero => simp [probeLoop] at h
  | succ F ih =>
    unfold probeLoop at h ⊢
    rw [hsz]
    rcases runProbe_set_free (stop := stop) (i := i) (n := nProbes t.size i) (free := free) (free' := free')
      hne hstop h0 with ⟨hit', h1, h2⟩ | ⟨hr1, hr2⟩
    · rw [h1]; exact ⟨hit', rfl, h2⟩
    · split at h
      · rename_i hh hrun
        cases h
        rw [hrun] at hr1
        exact absurd hf hr1
      · rename_i fr hrun
        rw [hrun] at hr1
        obtain ⟨fr', h1⟩ := hr2 fr hrun
        rw [h1]
        exact ih hr1 h

theorem probe_set_free {stop : Slot → Bool} {t t' : Array Slot} {h f : Nat} {hit : Hit} (hsz : t'.size = t.size)
    (hne : ∀ j, j ≠ f → slotAt t' j = slotAt t j) (hstop : stop (slotAt t' f) = true)
    (hp : probe stop t h = some hit) (hf : hit.free = some f) :
    ∃ hit', probe stop t' h = some hit' ∧ hit'.idx = f := by
  unfold probe probeFuel at hp ⊢
  rw [hsz]
  exact probeLoop_set_free hsz hne hstop (by simp) hp hf

theorem probe_isSome {stop : Slot → Bool} {t : Array Slot} {k : Nat} (hsz : t.size = 2 ^ k) {h : Nat}
    (hh : h < 2 ^ 65) {j : Nat} (hj : j < t.size) (hstop : stop (slotAt t j) = true) :
    ∃ hit, probe stop t h = some hit :=
  probeLoop_isSome hsz _ _ _ hh hj hstop (by unfold probeFuel; omega)

theorem probe_spec {stop : Slot → Bool} {t : Array Slot} {h : Nat} {hit : Hit} (hpos : 0 < t.size)
    (hp : probe stop t h = some hit) : stop (slotAt t hit.idx) = true ∧ hit.idx < t.size :=
  probeLoop_spec hpos (Nat.mod_lt _ hpos) hp

end Gallia.PySet
