import Gallia.Proofs.Lemmas.ParseInt
/-! C20 helper lemmas: range expressions (sorted union, split / join, parse after render, two-dimensional form) -/
namespace Gallia.Parse

abbrev Sorted (l : List Nat) : Prop := List.Pairwise (· < ·) l

theorem mem_mergeU (xs ys : List Nat) (n : Nat) : n ∈ mergeU xs ys ↔ n ∈ xs ∨ n ∈ ys := by
  fun_induction mergeU xs ys with
  | case1 ys => simp
  | case2 xs _ => simp
  | case3 x xs y ys h ih => simp only [List.mem_cons, ih]; grind
  | case4 x xs y ys h1 h2 ih => simp only [List.mem_cons, ih]; grind
  | case5 x xs y ys h1 h2 ih =>
    have : x = y := by omega
    subst this
    simp only [List.mem_cons, ih]; grind

theorem sorted_mergeU (xs ys : List Nat) (hx : Sorted xs) (hy : Sorted ys) : Sorted (mergeU xs ys) := by
  fun_induction mergeU xs ys with
  | case1 ys => exact hy
  | case2 xs _ => exact hx
  | case3 x xs y ys h ih =>
    have hx' := List.pairwise_cons.mp hx
    have hy' := List.pairwise_cons.mp hy
    refine List.pairwise_cons.mpr ⟨?_, ih hx'.2 hy⟩
    intro a ha
    rcases (mem_mergeU _ _ a).mp ha with ha | ha
    · exact hx'.1 a ha
    · simp only [List.mem_cons] at ha
      rcases ha with rfl | ha
      · exact h
      · have := hy'.1 a ha; omega
  | case4 x xs y ys h1 h2 ih =>
    have hx' := List.pairwise_cons.mp hx
    have hy' := List.pairwise_cons.mp hy
    refine List.pairwise_cons.mpr ⟨?_, ih hx hy'.2⟩
    intro a ha
    rcases (mem_mergeU _ _ a).mp ha with ha | ha
    · simp only [List.mem_cons] at ha
      rcases ha with rfl | ha
      · exact h2
      · have := hx'.1 a ha; omega
    · exact hy'.1 a ha
  | case5 x xs y ys h1 h2 ih =>
    have hxy : x = y := by omega
    subst hxy
    have hx' := List.pairwise_cons.mp hx
    have hy' := List.pairwise_cons.mp hy
    refine List.pairwise_cons.mpr ⟨?_, ih hx'.2 hy'.2⟩
    intro a ha
    rcases (mem_mergeU _ _ a).mp ha with ha | ha
    · exact hx'.1 a ha
    · exact hy'.1 a ha

theorem sorted_elem (e : Elem) : Sorted e.toList := by
  cases e with
  | one n => simp [Elem.toList, Sorted]
  | range a b => exact List.pairwise_lt_range' 1

theorem mem_elem (e : Elem) (n : Nat) : n ∈ e.toList ↔ e.Covers n := by
  cases e with
  | one m => simp [Elem.toList, Elem.Covers]
  | range a b =>
    simp only [Elem.toList, Elem.Covers, List.mem_range'_1]
    omega

theorem sorted_denote (es : List Elem) : Sorted (denote es) := by
  induction es with
  | nil => simp [denote, Sorted]
  | cons e es ih => exact sorted_mergeU _ _ (sorted_elem e) ih

theorem mem_denote' (es : List Elem) (n : Nat) : n ∈ denote es ↔ ∃ e ∈ es, e.Covers n := by
  induction es with
  | nil => simp [denote]
  | cons e es ih =>
    have : denote (e :: es) = mergeU e.toList (denote es) := rfl
    rw [this, mem_mergeU, mem_elem, ih]
    simp

theorem sorted_nodup {l : List Nat} (h : Sorted l) : l.Nodup := by
  apply List.Pairwise.imp _ h
  intro a b hab; exact Nat.ne_of_lt hab

/-- a strictly increasing list is determined by its members -/
theorem sorted_ext {l₁ l₂ : List Nat} (h₁ : Sorted l₁) (h₂ : Sorted l₂) (h : ∀ n, n ∈ l₁ ↔ n ∈ l₂) : l₁ = l₂ := by
  induction l₁ generalizing l₂ with
  | nil =>
    cases l₂ with
    | nil => rfl
    | cons b l₂ => exact absurd ((h b).mpr (by simp)) (by simp)
  | cons a l₁ ih =>
    cases l₂ with
    | nil => exact absurd ((h a).mp (by simp)) (by simp)
    | cons b l₂ =>
      have ha := List.pairwise_cons.mp h₁
      have hb := List.pairwise_cons.mp h₂
      have hab : a = b := by
        have h1 := (h a).mp (by simp)
        have h2 := (h b).mpr (by simp)
        simp only [List.mem_cons] at h1 h2
        rcases h1 with h1 | h1
        · exact h1
        · rcases h2 with h2 | h2
          · exact h2.symm
          · have := ha.1 b h2; have := hb.1 a h1; omega
      subst hab
      congr 1
      apply ih ha.2 hb.2
      intro n
      have hn := h n
      simp only [List.mem_cons] at hn
      constructor
      · intro hm
        have := ha.1 n hm
        rcases hn.mp (Or.inr hm) with rfl | h'
        · omega
        · exact h'
      · intro hm
        have := hb.1 n hm
        rcases hn.mpr (Or.inr hm) with rfl | h'
        · omega
        · exact h'


/-! ### splitting and joining -/

theorem splitOnP_ne_nil (p : Char → Bool) (s : Str) : splitOnP p s ≠ [] := by
  induction s with
  | nil => simp [splitOnP]
  | cons x xs ih =>
    rw [splitOnP]
    split
    · simp
    · split <;> simp

theorem splitOnP_none (p : Char → Bool) (a : Str) (h : ∀ c ∈ a, p c = false) : splitOnP p a = [a] := by
  induction a with
  | nil => rfl
  | cons x xs ih =>
    have hx := h x (by simp)
    have := ih (fun c hc => h c (by simp [hc]))
    simp [splitOnP, hx, this]

theorem splitOnP_append (p : Char → Bool) (a : Str) (c : Char) (rest : Str) (h : ∀ x ∈ a, p x = false)
    (hc : p c = true) : splitOnP p (a ++ c :: rest) = a :: splitOnP p rest := by
  induction a with
  | nil => simp [splitOnP, hc]
  | cons x xs ih =>
    have hx := h x (by simp)
    have := ih (fun c hc => h c (by simp [hc]))
    simp [splitOnP, hx, this]

theorem splitOnC_joinC (c : Char) (parts : List Str) (hne : parts ≠ []) (h : ∀ p ∈ parts, c ∉ p) :
    splitOnC c (joinC c parts) = parts := by
  unfold splitOnC
  induction parts with
  | nil => exact absurd rfl hne
  | cons p ps ih =>
    have hp : ∀ x ∈ p, (x == c) = false := by
      intro x hx
      have := h p (by simp)
      simp only [beq_eq_false_iff_ne, ne_eq]
      intro e; subst e; exact this hx
    cases ps with
    | nil => simpa [joinC] using splitOnP_none _ p hp
    | cons q qs =>
      have ih' := ih (by simp) (fun r hr => h r (by simp at hr ⊢; right; exact hr))
      simp only [joinC]
      rw [splitOnP_append _ p c _ hp (by simp), ih']

theorem mapOpt_map {α β γ} (f : α → β) (g : β → Option γ) (k : α → γ) (l : List α)
    (h : ∀ a ∈ l, g (f a) = some (k a)) : mapOpt g (l.map f) = some (l.map k) := by
  induction l with
  | nil => rfl
  | cons a as ih =>
    have ha := h a (by simp)
    have := ih (fun x hx => h x (by simp [hx]))
    simp [mapOpt, ha, this]


/-! ### a rendered expression is parsed back to its elements -/

def Spelling.Avoids (sp : Spelling) (x : Char) : Prop := x ∉ sp.wsL ∧ x ∉ sp.wsR

def ElemSp.WF : ElemSp → Prop
  | .one sp => sp.WF
  | .range a b => a.WF ∧ b.WF

def ElemSp.Avoids (x : Char) : ElemSp → Prop
  | .one sp => sp.Avoids x
  | .range a b => a.Avoids x ∧ b.Avoids x

def SpElems.WF (es : SpElems) : Prop := ∀ p ∈ es, p.2.WF
def SpElems.Avoids (es : SpElems) (x : Char) : Prop := ∀ p ∈ es, p.2.Avoids x

theorem Spelling.WF.avoids {sp : Spelling} (h : sp.WF) {x : Char} (hx : isWsInt x = false) : sp.Avoids x := by
  constructor
  · intro hm; have := h.1 x hm; simp_all
  · intro hm; have := h.2 x hm; simp_all

theorem ElemSp.WF.avoids {s : ElemSp} (h : s.WF) {x : Char} (hx : isWsInt x = false) : s.Avoids x := by
  cases s with
  | one sp => exact Spelling.WF.avoids h hx
  | range a b => exact ⟨Spelling.WF.avoids h.1 hx, Spelling.WF.avoids h.2 hx⟩

theorem SpElems.WF.avoids {es : SpElems} (h : es.WF) {x : Char} (hx : isWsInt x = false) : es.Avoids x :=
  fun p hp => ElemSp.WF.avoids (h p hp) hx

theorem not_mem_spell (sp : Spelling) (n : Nat) (x : Char) (hav : sp.Avoids x) (h1 : numChar x = false)
    (h2 : x ≠ '+') : x ∉ spell sp (n : Int) := by
  unfold spell
  simp only [List.mem_append, not_or]
  refine ⟨⟨⟨hav.1, ?_⟩, ?_⟩, hav.2⟩
  · unfold signStr
    have : ¬ ((n : Int) < 0) := by omega
    simp only [this, if_false]
    split <;> simp [h2]
  · intro hm
    have := spellNat_numChar sp _ x hm
    simp_all

theorem exists_numChar_spell (sp : Spelling) (z : Int) : ∃ c ∈ spell sp z, numChar c = true := by
  cases hs : spellNat sp z.natAbs with
  | nil => exact absurd hs (spellNat_ne_nil _ _)
  | cons c t =>
    refine ⟨c, ?_, spellNat_numChar sp z.natAbs c (by simp [hs])⟩
    unfold spell; simp [hs]

theorem parseNat_spell (sp : Spelling) (h : sp.WF) (n : Nat) : parseNat (spell sp (n : Int)) = some n := by
  unfold parseNat
  rw [autoIntL_spell sp h]
  simp

theorem dash_props : numChar '-' = false ∧ isWsInt '-' = false ∧ numChar ',' = false ∧ isWsInt ',' = false ∧
    numChar ':' = false ∧ isWsInt ':' = false ∧ numChar ' ' = false ∧ numChar '+' = false ∧ isWsInt '+' = false := by decide

theorem numChar_not_spaceStr {c : Char} (h : numChar c = true) : isSpaceStr c = false := by
  have h1 := numChar_not_ws h
  have h2 := numChar_ascii h
  have h3 : isUniSpace c = false := by
    cases hu : isUniSpace c with
    | false => rfl
    | true => have := isUniSpace_ge hu; omega
  have h4 : (28 ≤ c.toNat && c.toNat ≤ 31) = false := by
    cases hb : (28 ≤ c.toNat && c.toNat ≤ 31) with
    | false => rfl
    | true =>
      exfalso
      simp only [Bool.and_eq_true, decide_eq_true_eq] at hb
      have hc : c ∈ [Char.ofNat 28, Char.ofNat 29, Char.ofNat 30, Char.ofNat 31] := by
        have : c = Char.ofNat c.toNat := (Char.ofNat_toNat c).symm
        rw [this]
        have : c.toNat = 28 ∨ c.toNat = 29 ∨ c.toNat = 30 ∨ c.toNat = 31 := by omega
        rcases this with e | e | e | e <;> simp [e]
      have : ∀ x ∈ [Char.ofNat 28, Char.ofNat 29, Char.ofNat 30, Char.ofNat 31], numChar x = false := by decide
      have := this c hc
      simp_all
  simp [isSpaceStr, h1, h3, h4]

theorem parseElem_one (sp : Spelling) (h : sp.WF) (n : Nat) : parseElem (spell sp (n : Int)) = some (.one n) := by
  have hd : '-' ∉ spell sp (n : Int) :=
    not_mem_spell sp n '-' (h.avoids dash_props.2.1) dash_props.1 (by decide)
  unfold parseElem
  simp [hd, parseNat_spell sp h]

theorem parseElem_range (sa sb : Spelling) (ha : sa.WF) (hb : sb.WF) (a b : Nat) :
    parseElem (spell sa (a : Int) ++ '-' :: spell sb (b : Int)) = some (.range a b) := by
  have hda : '-' ∉ spell sa (a : Int) := not_mem_spell sa a '-' (ha.avoids dash_props.2.1) dash_props.1 (by decide)
  have hdb : '-' ∉ spell sb (b : Int) := not_mem_spell sb b '-' (hb.avoids dash_props.2.1) dash_props.1 (by decide)
  have hsplit : splitOnC '-' (spell sa (a : Int) ++ '-' :: spell sb (b : Int)) = [spell sa a, spell sb b] := by
    have := splitOnC_joinC '-' [spell sa (a : Int), spell sb (b : Int)] (by simp) (by
      intro p hp; simp at hp; rcases hp with rfl | rfl <;> assumption)
    simpa [joinC] using this
  unfold parseElem
  simp [hsplit, parseNat_spell sa ha, parseNat_spell sb hb]

theorem parseElem_render (e : Elem) (s : ElemSp) (h : s.WF) : parseElem (renderElem e s) = some e := by
  cases e with
  | one n =>
    cases s with
    | one sp => exact parseElem_one sp h n
    | range sa sb => exact parseElem_one sa h.1 n
  | range a b =>
    cases s with
    | one sp => exact parseElem_range sp sp h h a b
    | range sa sb => exact parseElem_range sa sb h.1 h.2 a b

theorem not_mem_renderElem (e : Elem) (s : ElemSp) (x : Char) (hav : s.Avoids x) (h1 : numChar x = false)
    (h2 : x ≠ '+') (h3 : x ≠ '-') : x ∉ renderElem e s := by
  cases e with
  | one n =>
    cases s with
    | one sp => exact not_mem_spell sp n x hav h1 h2
    | range sa sb => exact not_mem_spell sa n x hav.1 h1 h2
  | range a b =>
    cases s with
    | one sp =>
      simp only [renderElem, List.mem_append, List.mem_cons, not_or]
      exact ⟨not_mem_spell sp a x hav h1 h2, h3, not_mem_spell sp b x hav h1 h2⟩
    | range sa sb =>
      simp only [renderElem, List.mem_append, List.mem_cons, not_or]
      exact ⟨not_mem_spell sa a x hav.1 h1 h2, h3, not_mem_spell sb b x hav.2 h1 h2⟩

theorem exists_numChar_renderElem (e : Elem) (s : ElemSp) : ∃ c ∈ renderElem e s, numChar c = true := by
  cases e with
  | one n =>
    cases s with
    | one sp => exact exists_numChar_spell sp n
    | range sa sb => exact exists_numChar_spell sa n
  | range a b =>
    cases s with
    | one sp =>
      obtain ⟨c, hc, hn⟩ := exists_numChar_spell sp a
      exact ⟨c, by simp [renderElem, hc], hn⟩
    | range sa sb =>
      obtain ⟨c, hc, hn⟩ := exists_numChar_spell sa a
      exact ⟨c, by simp [renderElem, hc], hn⟩

theorem mem_joinC (c : Char) (ps : List Str) (x : Char) : x ∈ joinC c ps → x = c ∨ ∃ p ∈ ps, x ∈ p := by
  fun_induction joinC c ps with
  | case1 => simp
  | case2 p => intro h; right; exact ⟨p, by simp, h⟩
  | case3 p q ps ih =>
    intro h
    simp only [List.mem_append, List.mem_cons] at h
    rcases h with h | rfl | h
    · right; exact ⟨p, by simp, h⟩
    · left; rfl
    · rcases ih h with h | ⟨r, hr, hx⟩
      · left; exact h
      · right; exact ⟨r, by simp at hr ⊢; right; exact hr, hx⟩

theorem mem_joinC_head (c : Char) (p : Str) (ps : List Str) (x : Char) (h : x ∈ p) : x ∈ joinC c (p :: ps) := by
  cases ps with
  | nil => exact h
  | cons q qs => simp [joinC, h]

theorem not_mem_render (es : SpElems) (x : Char) (hav : es.Avoids x) (h1 : numChar x = false)
    (h2 : x ≠ '+') (h3 : x ≠ '-') (h4 : x ≠ ',') : x ∉ render es := by
  intro hm
  rcases mem_joinC _ _ x hm with h | ⟨p, hp, hx⟩
  · exact h4 h
  · simp only [List.mem_map] at hp
    obtain ⟨q, hq, rfl⟩ := hp
    exact not_mem_renderElem q.1 q.2 x (hav q hq) h1 h2 h3 hx

theorem parseElems_render (es : SpElems) (h : es.WF) : parseElems (render es) = some (elemsOf es) := by
  cases es with
  | nil => simp [render, joinC, parseElems, elemsOf]
  | cons p ps =>
    have hnw : (render (p :: ps)).all isSpaceStr = false := by
      obtain ⟨c, hc, hn⟩ := exists_numChar_renderElem p.1 p.2
      have hmem : c ∈ render (p :: ps) := mem_joinC_head _ _ _ c hc
      cases hall : (render (p :: ps)).all isSpaceStr with
      | false => rfl
      | true =>
        have := List.all_eq_true.mp hall c hmem
        have := numChar_not_spaceStr hn
        simp_all
    unfold parseElems
    simp only [hnw, Bool.false_eq_true, if_false]
    unfold render
    rw [splitOnC_joinC ',' _ (by simp)]
    · exact mapOpt_map _ _ _ _ (fun q hq => parseElem_render q.1 q.2 (h q hq))
    · intro r hr
      simp only [List.mem_map] at hr
      obtain ⟨q, hq, rfl⟩ := hr
      exact not_mem_renderElem q.1 q.2 ',' (ElemSp.WF.avoids (h q hq) dash_props.2.2.2.1) dash_props.2.2.1
        (by decide) (by decide)


/-! ### two-dimensional form -/

structure ItemR.WF (r : ItemR) : Prop where
  outer : SpElems.WF r.outer
  inner : ∀ i, r.inner = some i → SpElems.WF i
  outerSp : SpElems.Avoids r.outer ' '
  innerSp : ∀ i, r.inner = some i → SpElems.Avoids i ' '

theorem parseItem_render (r : ItemR) (h : r.WF) : parseItem (renderItem r) = some r.item := by
  have hco : ':' ∉ render r.outer :=
    not_mem_render _ ':' (h.outer.avoids dash_props.2.2.2.2.2.1) dash_props.2.2.2.2.1 (by decide) (by decide) (by decide)
  cases hi : r.inner with
  | none =>
    unfold parseItem renderItem
    simp [hi, hco, parseElems_render _ h.outer, ItemR.item]
  | some i =>
    have hci : ':' ∉ render i :=
      not_mem_render _ ':' ((h.inner i hi).avoids dash_props.2.2.2.2.2.1) dash_props.2.2.2.2.1 (by decide) (by decide) (by decide)
    have hsplit : splitOnC ':' (render r.outer ++ ':' :: render i) = [render r.outer, render i] := by
      have := splitOnC_joinC ':' [render r.outer, render i] (by simp) (by
        intro p hp; simp at hp; rcases hp with rfl | rfl <;> assumption)
      simpa [joinC] using this
    unfold parseItem renderItem
    simp [hi, hsplit, parseElems_render _ h.outer, parseElems_render _ (h.inner i hi), ItemR.item]

theorem space_not_mem_renderItem (r : ItemR) (h : r.WF) : ' ' ∉ renderItem r := by
  have hso : ' ' ∉ render r.outer :=
    not_mem_render _ ' ' h.outerSp dash_props.2.2.2.2.2.2.1 (by decide) (by decide) (by decide)
  unfold renderItem
  cases hi : r.inner with
  | none => simpa using hso
  | some i =>
    have hsi : ' ' ∉ render i :=
      not_mem_render _ ' ' (h.innerSp i hi) dash_props.2.2.2.2.2.2.1 (by decide) (by decide) (by decide)
    simp only [List.mem_append, List.mem_cons, not_or]
    exact ⟨hso, by decide, hsi⟩

theorem parseItems_render2d (rs : List ItemR) (hne : rs ≠ []) (h : ∀ r ∈ rs, r.WF) :
    parseItems (render2d rs) = some (rs.map ItemR.item) := by
  unfold parseItems render2d
  rw [splitOnC_joinC ' ' _ (by simpa using hne)]
  · exact mapOpt_map _ _ _ _ (fun r hr => parseItem_render r (h r hr))
  · intro p hp
    simp only [List.mem_map] at hp
    obtain ⟨r, hr, rfl⟩ := hp
    exact space_not_mem_renderItem r (h r hr)

theorem hasKey_iff (it : Item) (k : Nat) : it.hasKey k = true ↔ ∃ e ∈ it.outer, e.Covers k := by
  unfold Item.hasKey
  rw [List.contains_iff_mem, mem_denote']

theorem keys_denote2d (items : List Item) :
    (denote2d items).map (·.1) = denote (items.flatMap (·.outer)) := by
  unfold denote2d
  simp [List.map_map, Function.comp_def]

theorem mem_keys (items : List Item) (k : Nat) :
    k ∈ denote (items.flatMap (·.outer)) ↔ ∃ it ∈ items, it.hasKey k = true := by
  rw [mem_denote']
  simp only [List.mem_flatMap, hasKey_iff]
  constructor
  · rintro ⟨e, ⟨it, hit, he⟩, hc⟩; exact ⟨it, hit, e, he, hc⟩
  · rintro ⟨it, hit, e, he, hc⟩; exact ⟨e, ⟨it, hit, he⟩, hc⟩

theorem mem_denote2d' (items : List Item) (k : Nat) (v : Option (List Nat)) :
    (k, v) ∈ denote2d items ↔ (∃ it ∈ items, it.hasKey k = true) ∧ v = valueOf items k := by
  rw [← mem_keys]
  unfold denote2d
  simp only [List.mem_map, Prod.mk.injEq]
  constructor
  · rintro ⟨k', hk', rfl, rfl⟩; exact ⟨hk', rfl⟩
  · rintro ⟨hk, rfl⟩; exact ⟨k, hk, rfl, rfl⟩

theorem valueOf_none (items : List Item) (k : Nat) :
    valueOf items k = none ↔ ∃ it ∈ items, it.hasKey k = true ∧ it.inner = none := by
  unfold valueOf
  constructor
  · intro h
    split at h
    · rename_i hc
      simp only [List.any_eq_true, List.mem_filter, Option.isNone_iff_eq_none] at hc
      obtain ⟨it, ⟨hit, hk⟩, hn⟩ := hc; exact ⟨it, hit, hk, hn⟩
    · simp at h
  · rintro ⟨it, hit, hk, hn⟩
    have : ((items.filter (·.hasKey k)).any (·.inner.isNone)) = true := by
      simp only [List.any_eq_true, List.mem_filter, Option.isNone_iff_eq_none]
      exact ⟨it, ⟨hit, hk⟩, hn⟩
    rw [if_pos this]

theorem valueOf_some (items : List Item) (k : Nat) (l : List Nat) (h : valueOf items k = some l) :
    Sorted l ∧ ∀ n, n ∈ l ↔ ∃ it ∈ items, it.hasKey k = true ∧ ∃ i, it.inner = some i ∧ ∃ e ∈ i, e.Covers n := by
  unfold valueOf at h
  split at h
  · simp at h
  · simp only [Option.some.injEq] at h
    subst h
    refine ⟨sorted_denote _, fun n => ?_⟩
    rw [mem_denote']
    simp only [List.mem_flatMap, List.mem_filter]
    constructor
    · rintro ⟨e, ⟨it, ⟨hit, hk⟩, he⟩, hc⟩
      cases hi : it.inner with
      | none => simp [hi] at he
      | some i => exact ⟨it, hit, hk, i, hi, e, by simpa [hi] using he, hc⟩
    · rintro ⟨it, hit, hk, i, hi, e, he, hc⟩
      exact ⟨e, ⟨it, ⟨hit, hk⟩, by simpa [hi] using he⟩, hc⟩

end Gallia.Parse
