import Gallia.Model.Randomize
/-
  Helper lemmas for C16: invariants of the three phases of `randomize` (Model/Randomize.lean), for every oracle.
-/
namespace Gallia.Randomize

/-! ### specification vocabulary -/

/-- reflexive-transitive closure -/
inductive Reach (E : Nat → Nat → Prop) : Nat → Nat → Prop
  | refl (a : Nat) : Reach E a a
  | tail {a b c : Nat} : Reach E a b → E b c → Reach E a c

theorem Reach.mono {E F : Nat → Nat → Prop} (h : ∀ a b, E a b → F a b) {a b : Nat} (r : Reach E a b) :
    Reach F a b := by
  induction r with
  | refl => exact .refl _
  | tail _ e ih => exact .tail ih (h _ _ e)

theorem Reach.trans {E : Nat → Nat → Prop} {a b c : Nat} (r1 : Reach E a b) (r2 : Reach E b c) : Reach E a c := by
  induction r2 with
  | refl => exact r1
  | tail _ e ih => exact .tail ih e

/-- edge of the transition table: `b ∈ session_transitions[a]` -/
def TEdge (t : Trans) (a b : Nat) : Prop := b ∈ t a

theorem ne_nil_of_mem {α} {a : α} {l : List α} (h : a ∈ l) : l ≠ [] := by
  intro e; subst e; simp at h

theorem exists_mem_of_ne_nil' {l : List Nat} (h : l ≠ []) : ∃ a, a ∈ l := by
  cases l with
  | nil => exact absurd rfl h
  | cons a _ => exact ⟨a, List.mem_cons_self⟩

/-- what holds of `session_transitions` between the passes of the level loop and after every mandatory session -/
structure Inv (comb : List Nat) (t : Trans) : Prop where
  dflt : t defaultSession ≠ []
  ret : ∀ s, t s ≠ [] → defaultSession ∈ t s
  reach : ∀ s, t s ≠ [] → Reach (TEdge t) defaultSession s
  closed : ∀ a b, b ∈ t a → t b ≠ []
  src : ∀ s, t s ≠ [] → s = defaultSession ∨ s ∈ comb

theorem initTrans_apply (x : Nat) : initTrans x = if x = defaultSession then [defaultSession] else [] := by
  unfold initTrans
  rw [upd_apply]
  simp

theorem inv_init (comb : List Nat) : Inv comb initTrans := by
  have hd : initTrans defaultSession = [defaultSession] := by simp [initTrans_apply]
  have hne : ∀ s, initTrans s ≠ [] → s = defaultSession := by
    intro s hs
    rw [initTrans_apply] at hs
    split at hs
    · assumption
    · exact absurd rfl hs
  refine ⟨by simp [hd], ?_, ?_, ?_, ?_⟩
  · intro s hs; rw [hne s hs, hd]; simp
  · intro s hs; rw [hne s hs]; exact .refl _
  · intro a b hb
    have ha := hne a (ne_nil_of_mem hb)
    subst ha
    rw [hd] at hb
    simp at hb
    subst hb
    simp [hd]
  · intro s hs; exact Or.inl (hne s hs)

/-! ### the `for session in level_sessions` fold -/

section fold
variable (comb : List Nat) (d : Nat → Thr → Bool) (k : Thr)

theorem fold_nxt_mono (srcs : List Nat) (st : Trans × List Nat × Nat) {y : Nat} (h : y ∈ st.2.1) :
    y ∈ (srcs.foldl (levelStep comb d k) st).2.1 := by
  induction srcs generalizing st with
  | nil => simpa using h
  | cons s ss ih =>
    simp only [List.foldl_cons]
    apply ih
    obtain ⟨t, nxt, i⟩ := st
    simp only [levelStep]
    exact mem_sunion.2 (Or.inl h)

/-- a transition present after the fold was there before or was drawn for a source of this pass -/
theorem fold_trans_char (srcs : List Nat) (st : Trans × List Nat × Nat) {x y : Nat}
    (h : y ∈ (srcs.foldl (levelStep comb d k) st).1 x) :
    y ∈ st.1 x ∨ (x ∈ srcs ∧ y ∈ (srcs.foldl (levelStep comb d k) st).2.1) := by
  induction srcs generalizing st with
  | nil => exact Or.inl (by simpa using h)
  | cons s ss ih =>
    simp only [List.foldl_cons] at h ⊢
    obtain ⟨t, nxt, i⟩ := st
    rcases ih _ h with h1 | ⟨hx, hy⟩
    · simp only [levelStep] at h1
      rcases mem_addAll.1 h1 with h2 | ⟨rfl, h2⟩
      · exact Or.inl h2
      · refine Or.inr ⟨List.mem_cons_self, ?_⟩
        apply fold_nxt_mono
        simp only [levelStep]
        exact mem_sunion.2 (Or.inr h2)
    · exact Or.inr ⟨List.mem_cons_of_mem _ hx, hy⟩

/-- every member of `next_level_sessions` was drawn as a transition of some source of this pass -/
theorem fold_nxt_char (srcs : List Nat) (st : Trans × List Nat × Nat) {y : Nat}
    (h : y ∈ (srcs.foldl (levelStep comb d k) st).2.1) :
    y ∈ st.2.1 ∨ ∃ a ∈ srcs, y ∈ (srcs.foldl (levelStep comb d k) st).1 a := by
  induction srcs generalizing st with
  | nil => exact Or.inl (by simpa using h)
  | cons s ss ih =>
    simp only [List.foldl_cons] at h ⊢
    obtain ⟨t, nxt, i⟩ := st
    rcases ih _ h with h1 | ⟨a, ha, hy⟩
    · simp only [levelStep] at h1
      rcases mem_sunion.1 h1 with h2 | h2
      · exact Or.inl h2
      · refine Or.inr ⟨s, List.mem_cons_self, ?_⟩
        apply levelStep_fold_mono
        simp only [levelStep]
        exact mem_addAll.2 (Or.inr ⟨rfl, h2⟩)
    · exact Or.inr ⟨a, List.mem_cons_of_mem _ ha, hy⟩

theorem fold_nxt_sub (srcs : List Nat) (st : Trans × List Nat × Nat) {y : Nat}
    (h : y ∈ (srcs.foldl (levelStep comb d k) st).2.1) : y ∈ st.2.1 ∨ y ∈ comb := by
  induction srcs generalizing st with
  | nil => exact Or.inl (by simpa using h)
  | cons s ss ih =>
    simp only [List.foldl_cons] at h
    obtain ⟨t, nxt, i⟩ := st
    rcases ih _ h with h1 | h1
    · simp only [levelStep] at h1
      rcases mem_sunion.1 h1 with h2 | h2
      · exact Or.inl h2
      · exact Or.inr (mem_of_mem_drawFilter h2)
    · exact Or.inr h1

theorem fold_pos (srcs : List Nat) (st : Trans × List Nat × Nat) :
    (srcs.foldl (levelStep comb d k) st).2.2 = st.2.2 + srcs.length * comb.length := by
  induction srcs generalizing st with
  | nil => simp
  | cons s ss ih =>
    simp only [List.foldl_cons, List.length_cons]
    rw [ih]
    obtain ⟨t, nxt, i⟩ := st
    simp only [levelStep, Nat.add_mul]
    omega

end fold

theorem addDefault_char (t : Trans) (nxt : List Nat) {x y : Nat} (h : y ∈ addDefault t nxt x) :
    y ∈ t x ∨ (x ∈ nxt ∧ y = defaultSession) := by
  unfold addDefault at h
  induction nxt generalizing t with
  | nil => exact Or.inl (by simpa using h)
  | cons s ss ih =>
    simp only [List.foldl_cons] at h
    rcases ih _ h with h1 | ⟨hx, hy⟩
    · rcases mem_add1.1 h1 with h2 | ⟨rfl, rfl⟩
      · exact Or.inl h2
      · exact Or.inr ⟨List.mem_cons_self, rfl⟩
    · exact Or.inr ⟨List.mem_cons_of_mem _ hx, hy⟩

/-! ### one pass of the level loop keeps the invariant -/

theorem levelBody_nonempty_char (comb o t lvl level i) (hl : ∀ s ∈ lvl, t s ≠ []) {x : Nat}
    (h : (levelBody comb o t lvl level i).1 x ≠ []) : t x ≠ [] ∨ x ∈ (levelBody comb o t lvl level i).2.1 := by
  obtain ⟨y, hy⟩ := exists_mem_of_ne_nil' h
  unfold levelBody at hy ⊢
  rcases addDefault_char _ _ hy with h1 | ⟨hx, _⟩
  · rcases fold_trans_char _ _ _ _ _ h1 with h2 | ⟨hx, _⟩
    · exact Or.inl (ne_nil_of_mem h2)
    · have := (List.mem_filter.1 hx).2
      exact Or.inl (hl x (by simpa using this))
  · exact Or.inr hx

theorem levelBody_inv (comb o t lvl level i) (hinv : Inv comb t) (hl : ∀ s ∈ lvl, t s ≠ []) :
    Inv comb (levelBody comb o t lvl level i).1 ∧
      ∀ s ∈ (levelBody comb o t lvl level i).2.1, (levelBody comb o t lvl level i).1 s ≠ [] := by
  have hmono : ∀ x y, y ∈ t x → y ∈ (levelBody comb o t lvl level i).1 x :=
    fun x y h => levelBody_mono comb o t lvl level i h
  have hne_mono : ∀ x, t x ≠ [] → (levelBody comb o t lvl level i).1 x ≠ [] := by
    intro x hx
    obtain ⟨y, hy⟩ := exists_mem_of_ne_nil' hx
    exact ne_nil_of_mem (hmono x y hy)
  have hnxt : ∀ s ∈ (levelBody comb o t lvl level i).2.1,
      defaultSession ∈ (levelBody comb o t lvl level i).1 s := by
    intro s hs
    unfold levelBody at hs ⊢
    exact addDefault_mem _ _ hs
  have hchar := fun x => levelBody_nonempty_char comb o t lvl level i hl (x := x)
  refine ⟨⟨hne_mono _ hinv.dflt, ?_, ?_, ?_, ?_⟩, fun s hs => ne_nil_of_mem (hnxt s hs)⟩
  · intro s hs
    rcases hchar s hs with h | h
    · exact hmono _ _ (hinv.ret s h)
    · exact hnxt s h
  · intro s hs
    rcases hchar s hs with h | h
    · exact (hinv.reach s h).mono (fun a b e => hmono a b e)
    · -- `s` was drawn as a transition of a source `a` of this pass, and `a` was reachable before
      have h' := h
      unfold levelBody at h'
      simp only at h'
      rcases fold_nxt_char _ _ _ _ _ h' with h0 | ⟨a, ha, hy⟩
      · simp at h0
      · have hat : t a ≠ [] := by
          have := (List.mem_filter.1 ha).2
          exact hl a (by simpa using this)
        have hra := (hinv.reach a hat).mono (fun a b e => hmono a b e)
        refine .tail hra ?_
        show s ∈ (levelBody comb o t lvl level i).1 a
        unfold levelBody
        exact addDefault_mono _ _ hy
  · intro a b hb
    have hb' := hb
    unfold levelBody at hb'
    rcases addDefault_char _ _ hb' with h1 | ⟨_, rfl⟩
    · rcases fold_trans_char _ _ _ _ _ h1 with h2 | ⟨_, h2⟩
      · exact hne_mono _ (hinv.closed a b h2)
      · exact ne_nil_of_mem (hnxt b (by unfold levelBody; exact h2))
    · exact hne_mono _ hinv.dflt
  · intro s hs
    rcases hchar s hs with h | h
    · exact hinv.src s h
    · unfold levelBody at h
      rcases fold_nxt_sub _ _ _ _ _ h with h0 | h0
      · simp at h0
      · exact Or.inr h0

theorem nextLevel_sub (t : Trans) (nxt : List Nat) {s : Nat} (h : s ∈ nextLevel t nxt) : s ∈ nxt :=
  (List.mem_filter.1 h).1

/-- the level loop keeps the invariant and only adds transitions -/
theorem levels_inv (comb o t lvl level i) (hinv : Inv comb t) (hl : ∀ s ∈ lvl, t s ≠ []) :
    Inv comb (levels comb o t lvl level i).1 ∧ ∀ x y, y ∈ t x → y ∈ (levels comb o t lvl level i).1 x := by
  fun_induction levels comb o t lvl level i with
  | case1 t lvl level i b h =>
    have hb := levelBody_inv comb o t lvl level i hinv hl
    exact ⟨hb.1, fun x y hy => levelBody_mono comb o t lvl level i hy⟩
  | case2 t lvl level i b h ih =>
    have hb := levelBody_inv comb o t lvl level i hinv hl
    have := ih hb.1 (fun s hs => hb.2 s (nextLevel_sub _ _ hs))
    exact ⟨this.1, fun x y hy => this.2 x y (levelBody_mono comb o t lvl level i hy)⟩

/-! ### phase 2 -/

theorem getD_mem_or_default {α} (l : List α) (i : Nat) (d : α) : l.getD i d ∈ l ∨ l.getD i d = d := by
  by_cases h : i < l.length
  · left; simp [List.getD, h]
  · right
    have : l[i]? = none := by simp; omega
    simp [List.getD, this]

theorem mem_available {t : Trans} {s : Nat} : s ∈ available t ↔ s < nSessions ∧ t s ≠ [] := by
  simp [available, List.mem_filter, List.mem_range]

theorem mandStep_inv (comb : List Nat) (o : Oracles) (t : Trans) (c s : Nat) (hs : s ∈ comb) (hinv : Inv comb t) :
    Inv comb (mandStep o (t, c) s).1 ∧ (∀ x y, y ∈ t x → y ∈ (mandStep o (t, c) s).1 x) ∧
      (mandStep o (t, c) s).1 s ≠ [] := by
  unfold mandStep
  by_cases he : (t s).isEmpty
  · simp only [he, if_true]
    have hts : t s = [] := by simpa using he
    generalize hsrc : (available t).getD (o.choice c % (available t).length) defaultSession = src
    have hsrc_ne : t src ≠ [] := by
      rcases getD_mem_or_default (available t) (o.choice c % (available t).length) defaultSession with h | h
      · rw [hsrc] at h; exact (mem_available.1 h).2
      · rw [hsrc] at h; rw [h]; exact hinv.dflt
    have hne : src ≠ s := by intro e; rw [e] at hsrc_ne; exact hsrc_ne hts
    -- pointwise description of the new table
    have happ : ∀ x, (upd (add1 t src s) s [defaultSession]) x =
        if x = s then [defaultSession] else if x = src then sinsert s (t src) else t x := by
      intro x
      rw [upd_apply]
      split
      · rfl
      · unfold add1; rw [upd_apply]
    have hmono : ∀ x y, y ∈ t x → y ∈ (upd (add1 t src s) s [defaultSession]) x := by
      intro x y hy
      rw [happ]
      split
      · subst_vars; rw [hts] at hy; simp at hy
      · split
        · subst_vars; exact mem_sinsert.2 (Or.inr hy)
        · exact hy
    have hne_char : ∀ x, (upd (add1 t src s) s [defaultSession]) x ≠ [] → t x ≠ [] ∨ x = s := by
      intro x hx
      rw [happ] at hx
      split at hx
      · right; assumption
      · split at hx
        · subst_vars; exact Or.inl hsrc_ne
        · exact Or.inl hx
    have hne_mono : ∀ x, t x ≠ [] → (upd (add1 t src s) s [defaultSession]) x ≠ [] := by
      intro x hx
      obtain ⟨y, hy⟩ := exists_mem_of_ne_nil' hx
      exact ne_nil_of_mem (hmono x y hy)
    have hs_new : (upd (add1 t src s) s [defaultSession]) s = [defaultSession] := by rw [happ]; simp
    refine ⟨⟨hne_mono _ hinv.dflt, ?_, ?_, ?_, ?_⟩, hmono, by rw [hs_new]; simp⟩
    · intro x hx
      rcases hne_char x hx with h | h
      · exact hmono _ _ (hinv.ret x h)
      · subst h; rw [hs_new]; simp
    · intro x hx
      rcases hne_char x hx with h | h
      · exact (hinv.reach x h).mono (fun a b e => hmono a b e)
      · subst h
        refine .tail ((hinv.reach src hsrc_ne).mono (fun a b e => hmono a b e)) ?_
        show x ∈ (upd (add1 t src x) x [defaultSession]) src
        rw [happ]
        simp [hne, mem_sinsert]
    · intro a b hb
      rw [happ] at hb
      split at hb
      · simp at hb; subst hb; exact hne_mono _ hinv.dflt
      · split at hb
        · rcases mem_sinsert.1 hb with h | h
          · subst h; rw [hs_new]; simp
          · exact hne_mono _ (hinv.closed _ _ h)
        · exact hne_mono _ (hinv.closed _ _ hb)
    · intro x hx
      rcases hne_char x hx with h | h
      · exact hinv.src x h
      · subst h; exact Or.inr hs
  · simp only [he]
    refine ⟨hinv, fun _ _ h => h, ?_⟩
    intro e; simp at e; rw [e] at he; simp at he

theorem mand_fold_inv (comb : List Nat) (o : Oracles) (ms : List Nat) (t : Trans) (c : Nat)
    (hsub : ∀ s ∈ ms, s ∈ comb) (hinv : Inv comb t) :
    Inv comb (ms.foldl (mandStep o) (t, c)).1 ∧ (∀ x y, y ∈ t x → y ∈ (ms.foldl (mandStep o) (t, c)).1 x) ∧
      ∀ s ∈ ms, (ms.foldl (mandStep o) (t, c)).1 s ≠ [] := by
  induction ms generalizing t c with
  | nil => exact ⟨hinv, fun _ _ h => h, by simp⟩
  | cons s ss ih =>
    simp only [List.foldl_cons]
    have h1 := mandStep_inv comb o t c s (hsub s List.mem_cons_self) hinv
    have h2 := ih (mandStep o (t, c) s).1 (mandStep o (t, c) s).2
      (fun x hx => hsub x (List.mem_cons_of_mem _ hx)) h1.1
    refine ⟨h2.1, fun x y hy => h2.2.1 x y (h1.2.1 x y hy), ?_⟩
    intro x hx
    rcases List.mem_cons.1 hx with rfl | hx
    · obtain ⟨y, hy⟩ := exists_mem_of_ne_nil' h1.2.2
      exact ne_nil_of_mem (h2.2.1 _ _ hy)
    · exact h2.2.2 x hx

/-- `session_transitions` at the end of phase 2: invariant, and every mandatory session is available -/
theorem transitions_inv (p : Params) (o : Oracles) :
    Inv (p.mandatorySessions ++ p.optionalSessions) (transitions p o).1 ∧
      ∀ s ∈ p.mandatorySessions, (transitions p o).1 s ≠ [] := by
  unfold transitions
  simp only
  have h0 := (levels_inv (p.mandatorySessions ++ p.optionalSessions) o initTrans [defaultSession] 0 0
    (inv_init _) (by intro s hs; simp at hs; subst hs; exact (inv_init (p.mandatorySessions ++ p.optionalSessions)).dflt)).1
  have := mand_fold_inv (p.mandatorySessions ++ p.optionalSessions) o p.mandatorySessions _ 0
    (fun s hs => List.mem_append_left _ hs) h0
  exact ⟨this.1, this.2.2⟩

/-! ### phase 3: dict of services -/

theorem mem_dictSet {m : SvcMap} {k k' : Nat} {v v' : Option (List Nat)} (h : (k', v') ∈ dictSet m k v) :
    (k' = k ∧ v' = v) ∨ (k', v') ∈ m := by
  induction m with
  | nil => simp [dictSet] at h; exact Or.inl h
  | cons e rest ih =>
    obtain ⟨a, b⟩ := e
    unfold dictSet at h
    split at h
    · rename_i hk
      rcases List.mem_cons.1 h with h | h
      · simp at h; exact Or.inl ⟨h.1 ▸ hk, h.2⟩
      · exact Or.inr (List.mem_cons_of_mem _ h)
    · rcases List.mem_cons.1 h with h | h
      · exact Or.inr (h ▸ List.mem_cons_self)
      · rcases ih h with h' | h'
        · exact Or.inl h'
        · exact Or.inr (List.mem_cons_of_mem _ h')

theorem dictSet_self (m : SvcMap) (k : Nat) (v : Option (List Nat)) : (k, v) ∈ dictSet m k v := by
  induction m with
  | nil => simp [dictSet]
  | cons e rest ih =>
    obtain ⟨a, b⟩ := e
    unfold dictSet
    split
    · rename_i hk; subst hk; exact List.mem_cons_self
    · exact List.mem_cons_of_mem _ ih

theorem dictSet_keeps_key {m : SvcMap} {k k' : Nat} {v v' : Option (List Nat)} (h : (k', v') ∈ m) :
    ∃ v'', (k', v'') ∈ dictSet m k v := by
  induction m with
  | nil => simp at h
  | cons e rest ih =>
    obtain ⟨a, b⟩ := e
    unfold dictSet
    split
    · rcases List.mem_cons.1 h with h | h
      · simp at h; exact ⟨v, by rw [h.1]; exact List.mem_cons_self⟩
      · exact ⟨v', List.mem_cons_of_mem _ h⟩
    · rcases List.mem_cons.1 h with h | h
      · exact ⟨v', h ▸ List.mem_cons_self⟩
      · obtain ⟨w, hw⟩ := ih h
        exact ⟨w, List.mem_cons_of_mem _ hw⟩

structure Tables.WF (tb : Tables) : Prop where
  /-- DiagnosticSessionControl is a sub-function service -/
  dsc_sub : tb.dsc ∈ tb.subFn
  /-- … and is not caught by the TesterPresent rung of the ladder -/
  dsc_ne_tp : tb.dsc ≠ tb.tp

theorem subFns_dsc {tb : Tables} (h : tb.WF) (d i trans) : (subFns tb d i trans tb.dsc).1 = some trans := by
  unfold subFns
  simp [h.dsc_sub, h.dsc_ne_tp]

/-- `sub-function services get a list, the others `None` -/
theorem subFns_isSome_iff (tb : Tables) (d i trans k) : (subFns tb d i trans k).1.isSome = tb.subFn.contains k := by
  unfold subFns
  split
  · rename_i h; rw [h]; repeat' split <;> try rfl
  · rename_i h; simp at h; simp [h]

section svc
variable (tb : Tables) (d : Nat → Thr → Bool) (trans : List Nat)

theorem svc_fold_char (svcs : List Nat) (st : SvcMap × Nat) {k : Nat} {v : Option (List Nat)}
    (h : (k, v) ∈ (svcs.foldl (svcStep tb d trans) st).1) :
    (k, v) ∈ st.1 ∨ (k ∈ svcs ∧ ∃ i, v = (subFns tb d i trans k).1) := by
  induction svcs generalizing st with
  | nil => exact Or.inl (by simpa using h)
  | cons a ss ih =>
    simp only [List.foldl_cons] at h
    obtain ⟨m, i⟩ := st
    rcases ih _ h with h1 | ⟨hk, hv⟩
    · simp only [svcStep] at h1
      rcases mem_dictSet h1 with ⟨rfl, rfl⟩ | h2
      · exact Or.inr ⟨List.mem_cons_self, i, rfl⟩
      · exact Or.inl h2
    · exact Or.inr ⟨List.mem_cons_of_mem _ hk, hv⟩

theorem svc_fold_keeps (svcs : List Nat) (st : SvcMap × Nat) {k : Nat} {v : Option (List Nat)}
    (h : (k, v) ∈ st.1) : ∃ v', (k, v') ∈ (svcs.foldl (svcStep tb d trans) st).1 := by
  induction svcs generalizing st v with
  | nil => exact ⟨v, by simpa using h⟩
  | cons a ss ih =>
    simp only [List.foldl_cons]
    obtain ⟨m, i⟩ := st
    obtain ⟨w, hw⟩ := dictSet_keeps_key (k := a) (v := (subFns tb d i trans a).1) h
    exact ih (st := svcStep tb d trans (m, i) a) (v := w) (by simpa [svcStep] using hw)

theorem svc_fold_has (svcs : List Nat) (st : SvcMap × Nat) {k : Nat} (h : k ∈ svcs) :
    ∃ v, (k, v) ∈ (svcs.foldl (svcStep tb d trans) st).1 := by
  induction svcs generalizing st with
  | nil => simp at h
  | cons a ss ih =>
    simp only [List.foldl_cons]
    obtain ⟨m, i⟩ := st
    rcases List.mem_cons.1 h with rfl | h
    · exact svc_fold_keeps tb d trans ss (svcStep tb d trans (m, i) k) (v := (subFns tb d i trans k).1)
        (by simp only [svcStep]; exact dictSet_self _ _ _)
    · exact ih _ h

end svc

/-- `self.services[session]` built with the service draws starting at position `i` -/
def svcMapOf (tb : Tables) (p : Params) (d : Nat → Thr → Bool) (t : Trans) (s i : Nat) : SvcMap :=
  ((p.mandatoryServices ++ drawFilter d .service i p.optionalServices).foldl (svcStep tb d (t s))
    ([], i + p.optionalServices.length)).1

theorem svcMapOf_mandatory (tb p d t s i) {k : Nat} (h : k ∈ p.mandatoryServices) :
    ∃ v, (k, v) ∈ svcMapOf tb p d t s i :=
  svc_fold_has tb d (t s) _ _ (List.mem_append_left _ h)

theorem svcMapOf_entry (tb p d t s i) {k : Nat} {v : Option (List Nat)} (h : (k, v) ∈ svcMapOf tb p d t s i) :
    (k ∈ p.mandatoryServices ∨ k ∈ p.optionalServices) ∧ ∃ j, v = (subFns tb d j (t s) k).1 := by
  rcases svc_fold_char tb d (t s) _ _ h with h | ⟨hk, hv⟩
  · simp at h
  · refine ⟨?_, hv⟩
    rcases List.mem_append.1 hk with h | h
    · exact Or.inl h
    · exact Or.inr (mem_of_mem_drawFilter h)

theorem svcMapOf_dsc_value {tb : Tables} (htb : tb.WF) (p d t s i) {v : Option (List Nat)}
    (h : (tb.dsc, v) ∈ svcMapOf tb p d t s i) : v = some (t s) := by
  obtain ⟨_, j, hj⟩ := svcMapOf_entry tb p d t s i h
  rw [hj, subFns_dsc htb]

theorem svcMapOf_dsc_mem {tb : Tables} (htb : tb.WF) (p d t s i) (hd : tb.dsc ∈ p.mandatoryServices) :
    (tb.dsc, some (t s)) ∈ svcMapOf tb p d t s i := by
  obtain ⟨v, hv⟩ := svcMapOf_mandatory tb p d t s i hd
  rw [svcMapOf_dsc_value htb p d t s i hv] at hv
  exact hv

section sess
variable (tb : Tables) (p : Params) (d : Nat → Thr → Bool) (t : Trans)

theorem session_fold_char (ss : List Nat) (st : Model × Nat) {s : Nat} {sm : SvcMap}
    (h : (s, sm) ∈ (ss.foldl (sessionStep tb p d t) st).1) :
    (s, sm) ∈ st.1 ∨ (s ∈ ss ∧ t s ≠ [] ∧ ∃ i, sm = svcMapOf tb p d t s i) := by
  induction ss generalizing st with
  | nil => exact Or.inl (by simpa using h)
  | cons a rest ih =>
    simp only [List.foldl_cons] at h
    obtain ⟨m, i⟩ := st
    rcases ih _ h with h1 | ⟨hs, hne, hi⟩
    · unfold sessionStep at h1
      by_cases he : (t a).isEmpty
      · simp only [he, if_true] at h1; exact Or.inl h1
      · simp only [he] at h1
        rcases List.mem_append.1 h1 with h2 | h2
        · exact Or.inl h2
        · simp at h2
          refine Or.inr ⟨by rw [h2.1]; exact List.mem_cons_self, ?_, i, ?_⟩
          · rw [h2.1]; intro e; rw [e] at he; simp at he
          · rw [h2.2, h2.1]; simp [svcMapOf, List.foldl_append]
    · exact Or.inr ⟨List.mem_cons_of_mem _ hs, hne, hi⟩

theorem session_fold_keeps (ss : List Nat) (st : Model × Nat) {e : Nat × SvcMap} (h : e ∈ st.1) :
    e ∈ (ss.foldl (sessionStep tb p d t) st).1 := by
  induction ss generalizing st with
  | nil => simpa using h
  | cons a rest ih =>
    simp only [List.foldl_cons]
    apply ih
    obtain ⟨m, i⟩ := st
    unfold sessionStep
    by_cases he : (t a).isEmpty
    · simp only [he, if_true]; exact h
    · simp only [he]; exact List.mem_append_left _ h

theorem session_fold_has (ss : List Nat) (st : Model × Nat) {s : Nat} (hs : s ∈ ss) (hne : t s ≠ []) :
    ∃ sm, (s, sm) ∈ (ss.foldl (sessionStep tb p d t) st).1 := by
  induction ss generalizing st with
  | nil => simp at hs
  | cons a rest ih =>
    simp only [List.foldl_cons]
    rcases List.mem_cons.1 hs with rfl | hs
    · obtain ⟨m, i⟩ := st
      have he : ¬ (t s).isEmpty := by intro e; exact hne (by simpa using e)
      refine ⟨_, session_fold_keeps tb p d t rest _ (e := (s, svcMapOf tb p d t s i)) ?_⟩
      unfold sessionStep
      simp only [he]
      exact List.mem_append_right _ (by simp [svcMapOf])
    · exact ih _ hs

end sess

/-- entries of the final model: an available session below `nSessions` with its service map -/
theorem model_mem (tb : Tables) (p : Params) (o : Oracles) {s : Nat} {sm : SvcMap}
    (h : (s, sm) ∈ (randomizeGen tb p o).model) :
    s < nSessions ∧ (transitions p o).1 s ≠ [] ∧ ∃ i, sm = svcMapOf tb p o.draw (transitions p o).1 s i := by
  unfold randomizeGen at h
  simp only at h
  rcases session_fold_char tb p o.draw _ _ _ h with h | ⟨hs, hne, hi⟩
  · simp at h
  · exact ⟨List.mem_range.1 hs, hne, hi⟩

theorem model_has (tb : Tables) (p : Params) (o : Oracles) {s : Nat} (hs : s < nSessions)
    (hne : (transitions p o).1 s ≠ []) : ∃ sm, (s, sm) ∈ (randomizeGen tb p o).model := by
  unfold randomizeGen
  simp only
  exact session_fold_has tb p o.draw _ _ _ (List.mem_range.2 hs) hne

/-! ### vocabulary -/

/-- a session is offered: it is a key of `server.services` -/
def Offered (m : Model) (s : Nat) : Prop := ∃ sm, (s, sm) ∈ m

/-- in session `a` DiagnosticSessionControl lists sub-function `b` (a positive `10 b` moves the ECU from `a` to `b`) -/
def DscEdge (tb : Tables) (m : Model) (a b : Nat) : Prop := ∃ sm l, (a, sm) ∈ m ∧ (tb.dsc, some l) ∈ sm ∧ b ∈ l

/-- well-formed arguments: every session id indexes `session_transitions` -/
def ParamsWF (p : Params) : Prop := ∀ s ∈ p.mandatorySessions ++ p.optionalSessions, s < nSessions

instance (p : Params) : Decidable (ParamsWF p) := by unfold ParamsWF; infer_instance

variable {tb : Tables} {p : Params} {o : Oracles}

theorem trans_lt (hp : ParamsWF p) {s : Nat} (h : (transitions p o).1 s ≠ []) : s < nSessions := by
  rcases (transitions_inv p o).1.src s h with rfl | h
  · decide
  · exact hp s h

theorem edge_iff (htb : tb.WF) (hd : tb.dsc ∈ p.mandatoryServices) (hp : ParamsWF p) (a b : Nat) :
    DscEdge tb (randomizeGen tb p o).model a b ↔ b ∈ (transitions p o).1 a := by
  constructor
  · rintro ⟨sm, l, hm, hl, hb⟩
    obtain ⟨_, _, i, rfl⟩ := model_mem tb p o hm
    have := svcMapOf_dsc_value htb p o.draw _ a i hl
    simp at this
    rw [← this]; exact hb
  · intro hb
    have hne := ne_nil_of_mem hb
    obtain ⟨sm, hm⟩ := model_has tb p o (trans_lt hp hne) hne
    obtain ⟨_, _, i, rfl⟩ := model_mem tb p o hm
    exact ⟨_, _, hm, svcMapOf_dsc_mem htb p o.draw _ a i hd, hb⟩

theorem offered_iff (hp : ParamsWF p) (s : Nat) :
    Offered (randomizeGen tb p o).model s ↔ (transitions p o).1 s ≠ [] := by
  constructor
  · rintro ⟨sm, hm⟩; exact (model_mem tb p o hm).2.1
  · intro h; exact model_has tb p o (trans_lt hp h) h


end Gallia.Randomize
