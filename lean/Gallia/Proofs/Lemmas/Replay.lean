import Gallia.Model.Replay
import Gallia.Proofs.Lemmas.ReplayState
namespace Gallia.Replay
open Gallia

theorem minRow_none {p : Row → Bool} {rows : List Row} (h : minRow p rows = none) : ∀ r ∈ rows, p r = false := by
  induction rows with
  | nil => simp
  | cons r rs ih =>
    simp only [minRow] at h
    cases hm : minRow p rs with
    | none =>
      rw [hm] at h; simp only [] at h
      intro x hx
      simp only [List.mem_cons] at hx
      rcases hx with rfl | hx
      · cases hp : p x with
        | true => simp [hp] at h
        | false => rfl
      · exact ih hm x hx
    | some m => rw [hm] at h; simp only [] at h; split at h <;> cases h

theorem minRow_some {p : Row → Bool} {rows : List Row} {m : Row} (h : minRow p rows = some m) :
    m ∈ rows ∧ p m = true ∧ ∀ r ∈ rows, p r = true → m.id ≤ r.id := by
  induction rows generalizing m with
  | nil => simp [minRow] at h
  | cons r rs ih =>
    simp only [minRow] at h
    cases hm : minRow p rs with
    | none =>
      rw [hm] at h; simp only [] at h
      have hn := minRow_none hm
      split at h
      · rename_i hp
        injection h with h; subst h
        refine ⟨by simp, hp, ?_⟩
        intro x hx hpx
        simp only [List.mem_cons] at hx
        rcases hx with rfl | hx
        · exact Nat.le_refl _
        · rw [hn x hx] at hpx; cases hpx
      · cases h
    | some m' =>
      rw [hm] at h; simp only [] at h
      obtain ⟨h1, h2, h3⟩ := ih hm
      split at h
      · rename_i hc
        injection h with h; subst h
        simp only [Bool.and_eq_true, decide_eq_true_eq] at hc
        refine ⟨by simp, hc.1, ?_⟩
        intro x hx hpx
        simp only [List.mem_cons] at hx
        rcases hx with rfl | hx
        · exact Nat.le_refl _
        · have := h3 x hx hpx; omega
      · rename_i hc
        injection h with h; subst h
        refine ⟨by simp [h1], h2, ?_⟩
        intro x hx hpx
        simp only [List.mem_cons] at hx
        rcases hx with rfl | hx
        · simp only [Bool.and_eq_true, decide_eq_true_eq, not_and, Nat.not_lt] at hc
          exact hc hpx
        · exact h3 x hx hpx

/-- if `r0` satisfies `p`, is in the table, has the least id among the rows satisfying `p`, and ids are
    unique, the query returns `r0` -/
theorem minRow_unique {p : Row → Bool} {rows : List Row} {r0 : Row}
    (hmem : r0 ∈ rows) (hp : p r0 = true) (hmin : ∀ r ∈ rows, p r = true → r0.id ≤ r.id)
    (huniq : ∀ r ∈ rows, r.id = r0.id → r = r0) : minRow p rows = some r0 := by
  cases h : minRow p rows with
  | none => have := minRow_none h r0 hmem; rw [hp] at this; cases this
  | some m =>
    obtain ⟨h1, h2, h3⟩ := minRow_some h
    have : m.id = r0.id := Nat.le_antisymm (h3 r0 hmem hp) (hmin m h1 h2)
    rw [huniq m h1 this]

theorem clientStates_cons (st : St) (x : Exch) (xs : List Exch) :
    clientStates st (x :: xs) = st :: clientStates (clientUpdate st x.resp) xs := rfl

theorem serverStates_cons (st : St) (x : Exch) (xs : List Exch) :
    serverStates st (x :: xs) = st :: serverStates (srvNext st x.resp) xs := rfl

theorem record_cons (k : Nat) (st : St) (x : Exch) (xs : List Exch) :
    record k st (x :: xs) = ⟨k, true, st, x.req, x.resp⟩ :: record (k + 1) (clientUpdate st x.resp) xs := rfl

theorem mem_record {k : Nat} {st : St} {h : List Exch} {r : Row} (hr : r ∈ record k st h) :
    k ≤ r.id ∧ r.id < k + h.length ∧ r.selected = true := by
  induction h generalizing k st with
  | nil => simp [record] at hr
  | cons x xs ih =>
    simp only [record, List.mem_cons] at hr
    rcases hr with rfl | hr
    · simp
    · obtain ⟨a, b', c⟩ := ih hr
      simp only [List.length_cons]; exact ⟨by omega, by omega, c⟩

end Gallia.Replay

namespace Gallia.Replay
open Gallia

/-- the server after a sequence of requests -/
def runSrv (rows : List Row) : Srv → List Bytes → Srv
  | s, [] => s
  | s, q :: qs => runSrv rows (replayStep rows s q).1 qs

/-- final server state after a history answered as recorded -/
def serverFinal : St → List Exch → St
  | st, [] => st
  | st, x :: xs => serverFinal (srvNext st x.resp) xs

theorem replayAll_append (rows : List Row) (s : Srv) (a b : List Bytes) :
    replayAll rows s (a ++ b) = replayAll rows s a ++ replayAll rows (runSrv rows s a) b := by
  induction a generalizing s with
  | nil => rfl
  | cons q qs ih => simp only [List.cons_append, replayAll, runSrv, ih]

@[simp] theorem view_id (sel : Selector) (d : DbRow) : (DbRow.view sel d).id = d.id := by
  unfold DbRow.view; split <;> rfl

@[simp] theorem view_req (sel : Selector) (d : DbRow) : (DbRow.view sel d).req = d.req := by
  unfold DbRow.view; split <;> rfl

@[simp] theorem view_resp (sel : Selector) (d : DbRow) : (DbRow.view sel d).resp = d.resp := by
  unfold DbRow.view; split <;> rfl

theorem view_unselected (sel : Selector) (d : DbRow) (h : selects sel d.run = false) : (DbRow.view sel d).selected = false := by
  unfold DbRow.view; split <;> simp [h]

theorem view_selected (sel : Selector) (d : DbRow) :
    (DbRow.view sel d).selected = (selects sel d.run && (decodeSt d.state).isSome) := by
  unfold DbRow.view; split <;> simp_all

theorem record_view (sel : Selector) (ri : RunInfo) (hsel : selects sel ri = true) (k : Nat) (st : St) (h : List Exch) :
    (recordDb ri k st h).map (DbRow.view sel) = record k st h := by
  induction h generalizing k st with
  | nil => rfl
  | cons x xs ih => simp only [recordDb, record, List.map_cons, DbRow.view, decodeSt_toJson, hsel, ih]

/-- an OEM recording (further state keys behind the two standard ones) looks the same to a server in a plain `ECUState` -/
theorem recordDbX_view (sel : Selector) (ri : RunInfo) (hsel : selects sel ri = true) (k : Nat) (st : St) (h : List (Exch × JObj)) :
    (recordDbX ri k st h).map (DbRow.view sel) = record k st (h.map (·.1)) := by
  induction h generalizing k st with
  | nil => rfl
  | cons x xs ih => simp only [recordDbX, record, List.map_cons, DbRow.view, decodeSt_toJson_append, hsel, ih]

/-- one replay step at the head of the recorded suffix: the `id > last` query finds exactly the row of this exchange -/
theorem replayStep_head (rows : List Row) (huniq : ∀ r ∈ rows, ∀ r' ∈ rows, r.id = r'.id → r = r')
    (x : Exch) (xs : List Exch) (k : Nat) (st : St) (last : Option Nat)
    (hrec : ∀ r ∈ record k st (x :: xs), r ∈ rows)
    (hlow : ∀ r ∈ rows, r.selected = true → r.id < k → ∃ l, last = some l ∧ r.id ≤ l)
    (hlast : ∀ l, last = some l → l < k) :
    replayStep rows ⟨st, last⟩ x.req = (⟨srvNext st x.resp, some k⟩, x.resp) := by
  let row0 : Row := ⟨k, true, st, x.req, x.resp⟩
  have hrow0 : row0 ∈ rows := hrec row0 (by simp [record, row0])
  have hpick : minRow (fun r => matchesQ st x.req r && afterLast last r.id) rows = some row0 := by
    apply minRow_unique hrow0
    · have : matchesQ st x.req row0 = true := by simp [matchesQ, row0]
      simp only [this, Bool.true_and]
      cases hl : last with
      | none => rfl
      | some l => simpa [row0, afterLast] using hlast l hl
    · intro r hr hp
      simp only [Bool.and_eq_true, matchesQ] at hp
      obtain ⟨⟨⟨hsel, _⟩, _⟩, hgt⟩ := hp
      show k ≤ r.id
      by_cases hlt : r.id < k
      · obtain ⟨l, hl, hle⟩ := hlow r hr hsel hlt
        rw [hl] at hgt
        simp only [afterLast, decide_eq_true_eq] at hgt
        omega
      · omega
    · intro r hr hid; exact huniq r hr row0 hrow0 hid
  simp only [replayStep, hpick]; rfl

/-- the wrap-around step: nothing selected lies behind `last`, so the `id <= last` query restarts at the first row of
    the recording -/
theorem replayStep_wrap (rows : List Row) (huniq : ∀ r ∈ rows, ∀ r' ∈ rows, r.id = r'.id → r = r')
    (x : Exch) (xs : List Exch) (k : Nat) (st : St) (l : Nat)
    (hrec : ∀ r ∈ record k st (x :: xs), r ∈ rows)
    (hall : ∀ r ∈ rows, r.selected = true → k ≤ r.id ∧ r.id ≤ l) :
    replayStep rows ⟨st, some l⟩ x.req = (⟨srvNext st x.resp, some k⟩, x.resp) := by
  let row0 : Row := ⟨k, true, st, x.req, x.resp⟩
  have hrow0 : row0 ∈ rows := hrec row0 (by simp [record, row0])
  have hnone : minRow (fun r => matchesQ st x.req r && afterLast (some l) r.id) rows = none := by
    cases hm : minRow (fun r => matchesQ st x.req r && afterLast (some l) r.id) rows with
    | none => rfl
    | some m =>
      obtain ⟨h1, h2, _⟩ := minRow_some hm
      simp only [Bool.and_eq_true, matchesQ, afterLast, decide_eq_true_eq] at h2
      have := (hall m h1 h2.1.1.1).2
      omega
  have hpick : minRow (fun r => matchesQ st x.req r && uptoLast (some l) r.id) rows = some row0 := by
    apply minRow_unique hrow0
    · have : matchesQ st x.req row0 = true := by simp [matchesQ, row0]
      simp only [this, Bool.true_and, uptoLast, decide_eq_true_eq]
      exact (hall row0 hrow0 rfl).2
    · intro r hr hp
      simp only [Bool.and_eq_true, matchesQ] at hp
      exact (hall r hr hp.1.1.1).1
    · intro r hr hid; exact huniq r hr row0 hrow0 hid
  simp only [replayStep, hnone, hpick]; rfl

/-- invariant form: replaying the rest `h` of a history whose rows start at id `k`, from the state the client
    logged, with `last` pointing below `k` -/
theorem replay_suffix_core (rows : List Row) (huniq : ∀ r ∈ rows, ∀ r' ∈ rows, r.id = r'.id → r = r')
    (h : List Exch) (k : Nat) (st : St) (last : Option Nat)
    (hrec : ∀ r ∈ record k st h, r ∈ rows)
    (hlow : ∀ r ∈ rows, r.selected = true → r.id < k → ∃ l, last = some l ∧ r.id ≤ l)
    (hlast : ∀ l, last = some l → l < k)
    (hhigh : ∀ r ∈ rows, r.selected = true → k ≤ r.id → r ∈ record k st h ∨ k + h.length ≤ r.id)
    (hagree : clientStates st h = serverStates st h) :
    replayAll rows ⟨st, last⟩ (h.map (·.req)) = h.map (·.resp) := by
  induction h generalizing k st last with
  | nil => rfl
  | cons x xs ih =>
    let row0 : Row := ⟨k, true, st, x.req, x.resp⟩
    have hrow0 : row0 ∈ rows := hrec row0 (by simp [record, row0])
    have hpick : minRow (fun r => matchesQ st x.req r && afterLast last r.id) rows = some row0 := by
      apply minRow_unique hrow0
      · have : matchesQ st x.req row0 = true := by simp [matchesQ, row0]
        simp only [this, Bool.true_and]
        cases hl : last with
        | none => rfl
        | some l => simpa [row0, afterLast] using hlast l hl
      · intro r hr hp
        simp only [Bool.and_eq_true, matchesQ] at hp
        obtain ⟨⟨⟨hsel, _⟩, _⟩, hgt⟩ := hp
        show k ≤ r.id
        by_cases hlt : r.id < k
        · obtain ⟨l, hl, hle⟩ := hlow r hr hsel hlt
          rw [hl] at hgt
          simp only [afterLast, decide_eq_true_eq] at hgt
          omega
        · omega
      · intro r hr hid; exact huniq r hr row0 hrow0 hid
    have hstep : replayStep rows ⟨st, last⟩ x.req = (⟨srvNext st x.resp, some k⟩, x.resp) := by
      simp only [replayStep, hpick]; rfl
    simp only [List.map_cons, replayAll, hstep]
    congr 1
    cases xs with
    | nil => rfl
    | cons y ys =>
      rw [clientStates_cons, serverStates_cons] at hagree
      have htail := (List.cons.inj hagree).2
      have hst : clientUpdate st x.resp = srvNext st x.resp := by
        rw [clientStates_cons, serverStates_cons] at htail
        exact (List.cons.inj htail).1
      rw [← hst]
      apply ih (k + 1) (clientUpdate st x.resp) (some k)
      · intro r hr; exact hrec r (by rw [record_cons]; simp [hr])
      · intro r _ _ hlt; exact ⟨k, rfl, by omega⟩
      · intro l hl; injection hl with hl; omega
      · intro r hr hsel hge
        rcases hhigh r hr hsel (by omega) with hmem | hbig
        · rw [record_cons, List.mem_cons] at hmem
          rcases hmem with rfl | hmem
          · have : k + 1 ≤ k := hge
            omega
          · exact Or.inl hmem
        · right; simp only [List.length_cons] at hbig ⊢; omega
      · have h' := htail
        rw [← hst] at h'
        exact h'


/-- the server after the recorded suffix: it sits in the state the recorded replies lead to, and its cursor on the last row -/
theorem replay_suffix_srv_core (rows : List Row) (huniq : ∀ r ∈ rows, ∀ r' ∈ rows, r.id = r'.id → r = r')
    (h : List Exch) (k : Nat) (st : St) (last : Option Nat)
    (hrec : ∀ r ∈ record k st h, r ∈ rows)
    (hlow : ∀ r ∈ rows, r.selected = true → r.id < k → ∃ l, last = some l ∧ r.id ≤ l)
    (hlast : ∀ l, last = some l → l < k)
    (hagree : clientStates st h = serverStates st h) :
    (runSrv rows ⟨st, last⟩ (h.map (·.req))).st = serverFinal st h ∧
    (h ≠ [] → (runSrv rows ⟨st, last⟩ (h.map (·.req))).last = some (k + h.length - 1)) := by
  induction h generalizing k st last with
  | nil => exact ⟨rfl, fun hne => absurd rfl hne⟩
  | cons x xs ih =>
    have hstep := replayStep_head rows huniq x xs k st last hrec hlow hlast
    simp only [List.map_cons, runSrv, hstep, serverFinal]
    cases xs with
    | nil => exact ⟨rfl, fun _ => by simp [runSrv]⟩
    | cons y ys =>
      rw [clientStates_cons, serverStates_cons] at hagree
      have htail := (List.cons.inj hagree).2
      have hst : clientUpdate st x.resp = srvNext st x.resp := by
        rw [clientStates_cons, serverStates_cons] at htail
        exact (List.cons.inj htail).1
      have := ih (k + 1) (srvNext st x.resp) (some k)
        (by intro r hr; exact hrec r (by rw [record_cons, hst]; simp [hr]))
        (by intro r _ _ hlt; exact ⟨k, rfl, by omega⟩)
        (by intro l hl; injection hl with hl; omega)
        (by rw [← hst]; rw [← hst] at htail; exact htail)
      refine ⟨this.1, fun _ => ?_⟩
      rw [this.2 (by simp)]
      simp only [List.length_cons]
      congr 1; omega


theorem fromBE2_eq (a c : UInt8) : fromBE [a, c] = 0xF186 ↔ a = 0xF1 ∧ c = 0x86 := by
  have h : fromBE [a, c] = a.toNat * 256 + c.toNat := by simp [fromBE]
  rw [h]
  have ha := a.toNat_lt; have hc := c.toNat_lt
  constructor
  · intro he
    have h1 : a.toNat = 0xF1 := by omega
    have h2 : c.toNat = 0x86 := by omega
    exact ⟨UInt8.toNat_inj.1 (by simpa using h1), UInt8.toNat_inj.1 (by simpa using h2)⟩
  · rintro ⟨rfl, rfl⟩; rfl


end Gallia.Replay
