import Gallia.Model.Replay
namespace Gallia.Replay
open Gallia

theorem minRow_none {p : Row → Bool} {rows : List Row} (h : minRow p rows = none) : ∀ r ∈ rows, p r = false := by
  induction rows with
  | nil => simp
  | cons r rs ih =>
    simp only [minRow] at h
    cases hm : minRow p rs with
    | none =>
      rw [hm] at h; simp only [] at h
      intro x hx
      simp only [List.mem_cons] at hx
      rcases hx with rfl | hx
      · cases hp : p x with
        | true => simp [hp] at h
        | false => rfl
      · exact ih hm x hx
    | some m => rw [hm] at h; simp only [] at h; split at h <;> cases h

theorem minRow_some {p : Row → Bool} {rows : List Row} {m : Row} (h : minRow p rows = some m) :
    m ∈ rows ∧ p m = true ∧ ∀ r ∈ rows, p r = true → m.id ≤ r.id := by
  induction rows generalizing m with
  | nil => simp [minRow] at h
  | cons r rs ih =>
    simp only [minRow] at h
    cases hm : minRow p rs with
    | none =>
      rw [hm] at h; simp only [] at h
      have hn := minRow_none hm
      split at h
      · rename_i hp
        injection h with h; subst h
        refine ⟨by simp, hp, ?_⟩
        intro x hx hpx
        simp only [List.mem_cons] at hx
        rcases hx with rfl | hx
        · exact Nat.le_refl _
        · rw [hn x hx] at hpx; cases hpx
      · cases h
    | some m' =>
      rw [hm] at h; simp only [] at h
      obtain ⟨h1, h2, h3⟩ := ih hm
      split at h
      · rename_i hc
        injection h with h; subst h
        simp only [Bool.and_eq_true, decide_eq_true_eq] at hc
        refine ⟨by simp, hc.1, ?_⟩
        intro x hx hpx
        simp only [List.mem_cons] at hx
        rcases hx with rfl | hx
        · exact Nat.le_refl _
        · have := h3 x hx hpx; omega
      · rename_i hc
        injection h with h; subst h
        refine ⟨by simp [h1], h2, ?_⟩
        intro x hx hpx
        simp only [List.mem_cons] at hx
        rcases hx with rfl | hx
        · simp only [Bool.and_eq_true, decide_eq_true_eq, not_and, Nat.not_lt] at hc
          exact hc hpx
        · exact h3 x hx hpx

/-- if `r0` satisfies `p`, is in the table, has the least id among the rows satisfying `p`, and ids are
    unique, the query returns `r0` -/
theorem minRow_unique {p : Row → Bool} {rows : List Row} {r0 : Row}
    (hmem : r0 ∈ rows) (hp : p r0 = true) (hmin : ∀ r ∈ rows, p r = true → r0.id ≤ r.id)
    (huniq : ∀ r ∈ rows, r.id = r0.id → r = r0) : minRow p rows = some r0 := by
  cases h : minRow p rows with
  | none => have := minRow_none h r0 hmem; rw [hp] at this; cases this
  | some m =>
    obtain ⟨h1, h2, h3⟩ := minRow_some h
    have : m.id = r0.id := Nat.le_antisymm (h3 r0 hmem hp) (hmin m h1 h2)
    rw [huniq m h1 this]

theorem clientStates_cons (st : St) (x : Exch) (xs : List Exch) :
    clientStates st (x :: xs) = st :: clientStates (clientUpdate st x.resp) xs := rfl

theorem serverStates_cons (st : St) (x : Exch) (xs : List Exch) :
    serverStates st (x :: xs) = st :: serverStates (srvNext st x.resp) xs := rfl

theorem record_cons (k : Nat) (st : St) (x : Exch) (xs : List Exch) :
    record k st (x :: xs) = ⟨k, true, st, x.req, x.resp⟩ :: record (k + 1) (clientUpdate st x.resp) xs := rfl

theorem mem_record {k : Nat} {st : St} {h : List Exch} {r : Row} (hr : r ∈ record k st h) :
    k ≤ r.id ∧ r.id < k + h.length ∧ r.selected = true := by
  induction h generalizing k st with
  | nil => simp [record] at hr
  | cons x xs ih =>
    simp only [record, List.mem_cons] at hr
    rcases hr with rfl | hr
    · simp
    · obtain ⟨a, b', c⟩ := ih hr
      simp only [List.length_cons]; exact ⟨by omega, by omega, c⟩

end Gallia.Replay
