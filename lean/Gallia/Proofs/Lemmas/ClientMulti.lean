import Gallia.Model.ClientMulti
/-
  C05 (widened) — helper lemmas for the multi-task model (`Model/ClientMulti.lean`): the lock / phase invariant of
  bracketed programs and its preservation by every scheduling decision, refinement of the lock-discipline acceptor.
-/
namespace Gallia.ClientMulti
open Gallia Gallia.Client Gallia.ClientIO Gallia.ClientConc

/-- pointwise update of the task table -/
def upd (f : Tid → TState) (t : Tid) (ts : TState) : Tid → TState := fun u => if u = t then ts else f u

theorem setTask_tasks (s : MSys) (t : Tid) (ts : TState) : (s.setTask t ts).tasks = upd s.tasks t ts := rfl
theorem setTask_lock (s : MSys) (t : Tid) (ts : TState) : (s.setTask t ts).lock = s.lock := rfl
theorem setTask_inbox (s : MSys) (t : Tid) (ts : TState) : (s.setTask t ts).inbox = s.inbox := rfl
theorem setTask_log (s : MSys) (t : Tid) (ts : TState) : (s.setTask t ts).log = s.log := rfl

@[simp] theorem upd_same (f : Tid → TState) (t : Tid) (ts : TState) : upd f t ts t = ts := by simp [upd]
theorem upd_other (f : Tid → TState) (t u : Tid) (ts : TState) (h : u ≠ t) : upd f t ts u = f u := by simp [upd, h]

/-- phases in which a task neither holds nor waits for the lock -/
def Phase.out : Phase → Bool
  | .idle | .done | .unborn => true
  | _ => false

/-- the rest of the current round is bracketed consistently with the phase -/
def PhaseOk (ts : TState) : Prop :=
  match ts.phase with
  | .idle => wfIn false ts.todo = true
  | .waiting | .holding => wfIn true ts.todo = true
  | .done => ts.todo = []
  | .unborn => True

/-- the lock / phase invariant -/
structure Inv' (lock : Sys) (tasks : Tid → TState) : Prop where
  nodup : lock.waiters.Nodup
  hold : ∀ t, (tasks t).phase = .holding ↔ lock.holder = some t
  wait : ∀ t, (tasks t).phase = .waiting ↔ t ∈ lock.waiters
  ok : ∀ t, PhaseOk (tasks t)

def Inv (s : MSys) : Prop := Inv' s.lock s.tasks

theorem wfIn_true_ne_nil {l : List Act} (h : wfIn true l = true) : l ≠ [] := by
  rintro rfl; simp [wfIn] at h

/-! ### updates of one task that preserve the invariant -/

theorem inv_out_out {lock : Sys} {tasks : Tid → TState} (hi : Inv' lock tasks) (t : Tid) (ts : TState)
    (h0 : (tasks t).phase.out = true) (h1 : ts.phase.out = true) (hok : PhaseOk ts) : Inv' lock (upd tasks t ts) := by
  refine ⟨hi.nodup, ?_, ?_, ?_⟩
  · intro u
    by_cases hu : u = t
    · subst hu
      have a : (tasks u).phase ≠ .holding := by intro e; rw [e] at h0; cases h0
      have b : ts.phase ≠ .holding := by intro e; rw [e] at h1; cases h1
      simp only [upd_same]
      constructor
      · intro e; exact absurd e b
      · intro e; exact absurd ((hi.hold u).mpr e) a
    · rw [upd_other _ _ _ _ hu]; exact hi.hold u
  · intro u
    by_cases hu : u = t
    · subst hu
      have a : (tasks u).phase ≠ .waiting := by intro e; rw [e] at h0; cases h0
      have b : ts.phase ≠ .waiting := by intro e; rw [e] at h1; cases h1
      simp only [upd_same]
      constructor
      · intro e; exact absurd e b
      · intro e; exact absurd ((hi.wait u).mpr e) a
    · rw [upd_other _ _ _ _ hu]; exact hi.wait u
  · intro u
    by_cases hu : u = t
    · subst hu; simpa using hok
    · rw [upd_other _ _ _ _ hu]; exact hi.ok u

theorem inv_same_phase {lock : Sys} {tasks : Tid → TState} (hi : Inv' lock tasks) (t : Tid) (ts : TState)
    (h : ts.phase = (tasks t).phase) (hok : PhaseOk ts) : Inv' lock (upd tasks t ts) := by
  refine ⟨hi.nodup, ?_, ?_, ?_⟩
  · intro u
    by_cases hu : u = t
    · subst hu; simp only [upd_same, h]; exact hi.hold u
    · rw [upd_other _ _ _ _ hu]; exact hi.hold u
  · intro u
    by_cases hu : u = t
    · subst hu; simp only [upd_same, h]; exact hi.wait u
    · rw [upd_other _ _ _ _ hu]; exact hi.wait u
  · intro u
    by_cases hu : u = t
    · subst hu; simpa using hok
    · rw [upd_other _ _ _ _ hu]; exact hi.ok u

theorem inv_want {lock : Sys} {tasks : Tid → TState} (hi : Inv' lock tasks) (t : Tid) (ts : TState)
    (h0 : (tasks t).phase.out = true) (h1 : ts.phase = .waiting) (hok : PhaseOk ts) :
    Inv' { lock with waiters := lock.waiters ++ [t] } (upd tasks t ts) := by
  have hnw : t ∉ lock.waiters := by
    intro e; have := (hi.wait t).mpr e; rw [this] at h0; cases h0
  have hnh : lock.holder ≠ some t := by
    intro e; have := (hi.hold t).mpr e; rw [this] at h0; cases h0
  refine ⟨?_, ?_, ?_, ?_⟩
  · show (lock.waiters ++ [t]).Nodup
    rw [List.nodup_append]
    exact ⟨hi.nodup, by simp, by intro a ha b hb; simp at hb; subst hb; intro e; subst e; exact hnw ha⟩
  · intro u
    show (upd tasks t ts u).phase = .holding ↔ lock.holder = some u
    by_cases hu : u = t
    · subst hu; simp only [upd_same, h1]
      constructor
      · intro e; cases e
      · intro e; exact absurd e hnh
    · rw [upd_other _ _ _ _ hu]; exact hi.hold u
  · intro u
    show (upd tasks t ts u).phase = .waiting ↔ u ∈ lock.waiters ++ [t]
    by_cases hu : u = t
    · subst hu; simp [h1]
    · rw [upd_other _ _ _ _ hu]; simp [hu]; exact hi.wait u
  · intro u
    by_cases hu : u = t
    · subst hu; simpa using hok
    · rw [upd_other _ _ _ _ hu]; exact hi.ok u

theorem inv_grant {lock : Sys} {tasks : Tid → TState} (hi : Inv' lock tasks) (t : Tid) (ws : List Tid) (ts : TState)
    (hh : lock.holder = none) (hw : lock.waiters = t :: ws) (h1 : ts.phase = .holding) (hok : PhaseOk ts) :
    Inv' { holder := some t, waiters := ws } (upd tasks t ts) := by
  have hnd := hi.nodup
  rw [hw] at hnd
  have ⟨hnt, hnd'⟩ := List.nodup_cons.mp hnd
  refine ⟨hnd', ?_, ?_, ?_⟩
  · intro u
    show (upd tasks t ts u).phase = .holding ↔ some t = some u
    by_cases hu : u = t
    · subst hu; simp [h1]
    · rw [upd_other _ _ _ _ hu]
      constructor
      · intro e; have := (hi.hold u).mp e; rw [hh] at this; cases this
      · intro e; injection e with e; exact absurd e.symm hu
  · intro u
    show (upd tasks t ts u).phase = .waiting ↔ u ∈ ws
    by_cases hu : u = t
    · subst hu; simp only [upd_same, h1]
      constructor
      · intro e; cases e
      · intro e; exact absurd e hnt
    · rw [upd_other _ _ _ _ hu, hi.wait u, hw]; simp [hu]
  · intro u
    by_cases hu : u = t
    · subst hu; simpa using hok
    · rw [upd_other _ _ _ _ hu]; exact hi.ok u

theorem inv_release {lock : Sys} {tasks : Tid → TState} (hi : Inv' lock tasks) (t : Tid) (ts : TState)
    (h0 : (tasks t).phase = .holding) (h1 : ts.phase.out = true) (hok : PhaseOk ts) :
    Inv' { lock with holder := none } (upd tasks t ts) := by
  have hh := (hi.hold t).mp h0
  refine ⟨hi.nodup, ?_, ?_, ?_⟩
  · intro u
    show (upd tasks t ts u).phase = .holding ↔ none = some u
    by_cases hu : u = t
    · subst hu; simp only [upd_same]
      constructor
      · intro e; rw [e] at h1; cases h1
      · intro e; cases e
    · rw [upd_other _ _ _ _ hu]
      constructor
      · intro e; have := (hi.hold u).mp e; rw [hh] at this; injection this with this; exact absurd this.symm hu
      · intro e; cases e
  · intro u
    show (upd tasks t ts u).phase = .waiting ↔ u ∈ lock.waiters
    by_cases hu : u = t
    · subst hu; simp only [upd_same]
      constructor
      · intro e; rw [e] at h1; cases h1
      · intro e; have := (hi.wait u).mpr e; rw [h0] at this; cases this
    · rw [upd_other _ _ _ _ hu]; exact hi.wait u
  · intro u
    by_cases hu : u = t
    · subst hu; simpa using hok
    · rw [upd_other _ _ _ _ hu]; exact hi.ok u

theorem inv_unwait {lock : Sys} {tasks : Tid → TState} (hi : Inv' lock tasks) (t : Tid) (ts : TState)
    (h0 : (tasks t).phase = .waiting) (h1 : ts.phase.out = true) (hok : PhaseOk ts) :
    Inv' { lock with waiters := lock.waiters.filter (· ≠ t) } (upd tasks t ts) := by
  refine ⟨hi.nodup.filter _, ?_, ?_, ?_⟩
  · intro u
    show (upd tasks t ts u).phase = .holding ↔ lock.holder = some u
    by_cases hu : u = t
    · subst hu; simp only [upd_same]
      constructor
      · intro e; rw [e] at h1; cases h1
      · intro e; have := (hi.hold u).mpr e; rw [h0] at this; cases this
    · rw [upd_other _ _ _ _ hu]; exact hi.hold u
  · intro u
    show (upd tasks t ts u).phase = .waiting ↔ u ∈ lock.waiters.filter (· ≠ t)
    by_cases hu : u = t
    · subst hu; simp only [upd_same]
      constructor
      · intro e; rw [e] at h1; cases h1
      · intro e; simp at e
    · rw [upd_other _ _ _ _ hu, hi.wait u]; simp [hu]
  · intro u
    by_cases hu : u = t
    · subst hu; simpa using hok
    · rw [upd_other _ _ _ _ hu]; exact hi.ok u

/-! ### `settle` -/

theorem settle_holding (p : Prog) (t : Tid) (ts : TState) (h : wfIn true ts.todo = true) : settle p t ts = (ts, []) := by
  unfold settle
  split
  · rename_i e; exact absurd e (wfIn_true_ne_nil h)
  · rfl

/-- what `settle` leaves untouched -/
structure SameButPhase (a b : TState) : Prop where
  stopReq : b.stopReq = a.stopReq
  aborted : b.aborted = a.aborted
  reads : b.reads = a.reads

theorem nextRound_idle (p : Prog) (hp : ∀ n, wfIn false (p.round n).acts = true) (t : Tid) (ts : TState)
    (h0 : ts.phase = .idle) (h1 : ts.todo = []) :
    PhaseOk (nextRound p t ts).1 ∧ SameButPhase ts (nextRound p t ts).1 ∧
    (((nextRound p t ts).1.phase = .idle ∧ (nextRound p t ts).2 = []) ∨
     ((nextRound p t ts).1.phase = .done ∧ (nextRound p t ts).2 = [.ended t])) := by
  unfold nextRound
  split
  · refine ⟨?_, ⟨rfl, rfl, rfl⟩, .inl ⟨h0, rfl⟩⟩
    simp only [PhaseOk, h0]; exact hp _
  · refine ⟨?_, ⟨rfl, rfl, rfl⟩, .inr ⟨rfl, rfl⟩⟩
    simp only [PhaseOk]; exact h1

theorem settle_idle (p : Prog) (hp : ∀ n, wfIn false (p.round n).acts = true) (t : Tid) (ts : TState)
    (h0 : ts.phase = .idle) (h : wfIn false ts.todo = true) :
    PhaseOk (settle p t ts).1 ∧ SameButPhase ts (settle p t ts).1 ∧
    (((settle p t ts).1.phase = .idle ∧ (settle p t ts).2 = []) ∨
     ((settle p t ts).1.phase = .done ∧ (settle p t ts).2 = [.ended t])) := by
  unfold settle
  split
  · rename_i e; exact nextRound_idle p hp t ts h0 e
  · refine ⟨?_, ⟨rfl, rfl, rfl⟩, .inl ⟨h0, rfl⟩⟩
    simp only [PhaseOk, h0]; exact h

/-! ### the lock-discipline acceptor accepts what the invariant allows -/

theorem step_want {lock : Sys} {tasks : Tid → TState} (hi : Inv' lock tasks) (t : Tid) (h0 : (tasks t).phase.out = true) :
    step lock (.want t) = some { lock with waiters := lock.waiters ++ [t] } := by
  have hnw : t ∉ lock.waiters := by
    intro e; have := (hi.wait t).mpr e; rw [this] at h0; cases h0
  have hnh : lock.holder ≠ some t := by
    intro e; have := (hi.hold t).mpr e; rw [this] at h0; cases h0
  simp [step, hnw, hnh]

theorem step_ended {lock : Sys} {tasks : Tid → TState} (hi : Inv' lock tasks) (t : Tid) (h0 : (tasks t).phase.out = true) :
    step lock (.ended t) = some lock := by
  have hnw : t ∉ lock.waiters := by
    intro e; have := (hi.wait t).mpr e; rw [this] at h0; cases h0
  have hnh : lock.holder ≠ some t := by
    intro e; have := (hi.hold t).mpr e; rw [this] at h0; cases h0
  simp [step, hnw, hnh]

theorem step_op {lock : Sys} (t : Tid) (k : OpKind) (h : lock.holder = some t) : step lock (.op t k) = some lock := by
  simp [step, h]

theorem step_rel {lock : Sys} (t : Tid) (h : lock.holder = some t) : step lock (.rel t) = some { lock with holder := none } := by
  simp [step, h]

theorem upd_upd (f : Tid → TState) (t : Tid) (a b : TState) : upd (upd f t a) t b = upd f t b := by
  funext u; by_cases hu : u = t <;> simp [upd, hu]

theorem accept_nil (l : Sys) : accept l [] = some l := rfl

theorem accept_one (l l' : Sys) (e : Event) (h : step l e = some l') : accept l [e] = some l' := by
  simp [accept, h]

theorem accept_cons (l l' : Sys) (e : Event) (es : List Event) (h : step l e = some l') : accept l (e :: es) = accept l' es := by
  simp [accept, h]

/-- a task that is outside the lock finishes an await point: `settle` keeps the invariant and emits at most `ended` -/
theorem finish_idle (P : Progs) (hP : WF P) {lock : Sys} {tasks : Tid → TState} (hi : Inv' lock tasks) (t : Tid) (ts1 : TState)
    (h0 : (tasks t).phase.out = true) (h1 : ts1.phase = .idle) (h2 : wfIn false ts1.todo = true) :
    Inv' lock (upd tasks t (settle (P t) t ts1).1) ∧ accept lock (settle (P t) t ts1).2 = some lock := by
  obtain ⟨hok, _, hc⟩ := settle_idle (P t) (hP t) t ts1 h1 h2
  rcases hc with ⟨hp, he⟩ | ⟨hp, he⟩
  · exact ⟨inv_out_out hi t _ h0 (by rw [hp]; rfl) hok, by rw [he]; rfl⟩
  · exact ⟨inv_out_out hi t _ h0 (by rw [hp]; rfl) hok, by rw [he]; exact accept_one _ _ _ (step_ended hi t h0)⟩

/-- … and one that holds it -/
theorem finish_holding (P : Progs) {lock : Sys} {tasks : Tid → TState} (hi : Inv' lock tasks) (t : Tid) (ts1 : TState)
    (h0 : (tasks t).phase = .holding) (h1 : ts1.phase = .holding) (h2 : wfIn true ts1.todo = true) :
    Inv' lock (upd tasks t (settle (P t) t ts1).1) ∧ (settle (P t) t ts1).2 = [] := by
  rw [settle_holding (P t) t ts1 h2]
  exact ⟨inv_same_phase hi t ts1 (by rw [h1, h0]) (by simp only [PhaseOk, h1]; exact h2), rfl⟩

theorem readInbox_same (rnd : Round) (n k : Nat) (ts ts1 : TState) (ib ib' : List Bytes)
    (h : readInbox rnd n k ts ib = some (ts1, ib')) :
    ts1.phase = ts.phase ∧ ts1.todo = ts.todo ∧ ts1.round = ts.round ∧ ts1.stopReq = ts.stopReq ∧ ts1.aborted = ts.aborted := by
  unfold readInbox at h
  split at h
  · split at h
    · injection h with h; injection h with h1 h2; subst h1; exact ⟨rfl, rfl, rfl, rfl, rfl⟩
    · cases h
  · injection h with h; injection h with h1 h2; subst h1; exact ⟨rfl, rfl, rfl, rfl, rfl⟩
  · injection h with h; injection h with h1 h2; subst h1; exact ⟨rfl, rfl, rfl, rfl, rfl⟩
  · split at h
    · split at h
      · injection h with h; injection h with h1 h2; subst h1; exact ⟨rfl, rfl, rfl, rfl, rfl⟩
      · cases h
    · cases h

def opEvOf (t : Tid) (o : OpX) : List Event := match wireKind o with | some k => [Event.op t k] | none => []

theorem accept_append (s : Sys) (a b : List Event) :
    accept s (a ++ b) = (accept s a).bind fun s' => accept s' b := by
  induction a generalizing s with
  | nil => rfl
  | cons e es ih =>
    simp only [List.cons_append, accept]
    cases step s e with
    | none => rfl
    | some s' => exact ih s'

/-- an `io` await point of a task that is outside or inside the lock as its bracketing says -/
theorem io_inv (P : Progs) (hP : WF P) {lock : Sys} {tasks : Tid → TState} (hi : Inv' lock tasks) (t : Tid) (o : OpX) (ts1 : TState)
    (hph : ts1.phase = (tasks t).phase) (hc : (tasks t).phase = .idle ∨ (tasks t).phase = .holding)
    (hidle : (tasks t).phase = .idle → (wireKind o).isNone = true ∧ wfIn false ts1.todo = true)
    (hhold : (tasks t).phase = .holding → wfIn true ts1.todo = true) :
    Inv' lock (upd tasks t (settle (P t) t ts1).1) ∧
    accept lock (opEvOf t o ++ (settle (P t) t ts1).2) = some lock := by
  rcases hc with hc | hc
  · obtain ⟨hw, hwf⟩ := hidle hc
    obtain ⟨h1, h2⟩ := finish_idle P hP hi t ts1 (by rw [hc]; rfl) (by rw [hph, hc]) hwf
    refine ⟨h1, ?_⟩
    have : opEvOf t o = [] := by
      unfold opEvOf; cases hk : wireKind o with
      | none => rfl
      | some k => rw [hk] at hw; cases hw
    rw [this]; exact h2
  · obtain ⟨h1, h2⟩ := finish_holding P hi t ts1 hc (by rw [hph, hc]) (hhold hc)
    refine ⟨h1, ?_⟩
    rw [h2, List.append_nil]
    unfold opEvOf
    cases wireKind o with
    | none => rfl
    | some k => exact accept_one _ _ _ (step_op t k ((hi.hold t).mp hc))

theorem start_ok (p : Prog) (hp : ∀ n, wfIn false (p.round n).acts = true) :
    PhaseOk (TState.start p) ∧ (TState.start p).phase.out = true := by
  unfold TState.start
  split
  · exact ⟨by simp only [PhaseOk]; exact hp 0, rfl⟩
  · exact ⟨by simp only [PhaseOk], rfl⟩

/-- what the bracketing of `a :: rest` says in the two phases in which a task executes await points -/
theorem phaseOk_cons {ts : TState} {a : Act} {rest : List Act} (hok : PhaseOk ts) (htodo : ts.todo = a :: rest) :
    (ts.phase = .idle → wfIn false (a :: rest) = true) ∧ (ts.phase = .holding → wfIn true (a :: rest) = true) := by
  constructor
  · intro h; simp only [PhaseOk, h] at hok; rw [htodo] at hok; exact hok
  · intro h; simp only [PhaseOk, h] at hok; rw [htodo] at hok; exact hok

theorem exec_inv (P : Progs) (hP : WF P) (s : MSys) (hi : Inv s) (t : Tid) (a : Act) (rest : List Act)
    (hc : (s.tasks t).phase = .idle ∨ (s.tasks t).phase = .holding) (htodo : (s.tasks t).todo = a :: rest)
    (s' : MSys) (evs : List Event) (h : exec P s t { s.tasks t with todo := rest } a = some (s', evs)) :
    Inv s' ∧ accept s.lock evs = some s'.lock := by
  obtain ⟨wi, wh⟩ := phaseOk_cons (hi.ok t) htodo
  cases a with
  | acquire =>
    simp only [exec] at h
    injection h with h; injection h with h1 h2; subst h1; subst h2
    rcases hc with hc | hc
    · have hw := wi hc
      simp only [wfIn] at hw
      have hout : (s.tasks t).phase.out = true := by rw [hc]; rfl
      refine ⟨?_, ?_⟩
      · exact inv_want hi t _ hout rfl (by simp only [PhaseOk]; exact hw)
      · exact accept_one _ _ _ (step_want hi t hout)
    · have hw := wh hc; simp [wfIn] at hw
  | release =>
    rcases hc with hc | hc
    · have hw := wi hc; simp [wfIn] at hw
    · have hw := wh hc
      simp only [wfIn] at hw
      have hh := (hi.hold t).mp hc
      simp only [exec, hh] at h
      injection h with h; injection h with h1 h2; subst h1; subst h2
      have hmid := inv_release hi t { s.tasks t with todo := rest, phase := .idle } hc rfl (by simp only [PhaseOk]; exact hw)
      obtain ⟨h1, h2⟩ := finish_idle P hP hmid t { s.tasks t with todo := rest, phase := .idle } (by simp; rfl) rfl hw
      rw [upd_upd] at h1
      refine ⟨h1, ?_⟩
      rw [accept_cons _ _ _ _ (step_rel t hh)]
      exact h2
  | io o =>
    have hidle : (s.tasks t).phase = .idle → (wireKind o).isNone = true ∧ wfIn false rest = true := by
      intro h; have := wi h; simpa [wfIn] using this
    have hhold : (s.tasks t).phase = .holding → wfIn true rest = true := by
      intro h; have := wh h; simpa [wfIn] using this
    have key : ∀ ts1 : TState, ts1.phase = (s.tasks t).phase → ts1.todo = rest →
        Inv' s.lock (upd s.tasks t (settle (P t) t ts1).1) ∧
        accept s.lock (opEvOf t o ++ (settle (P t) t ts1).2) = some s.lock := by
      intro ts1 h1 h2
      exact io_inv P hP hi t o ts1 h1 hc (by rw [h2]; exact hidle) (by rw [h2]; exact hhold)
    cases o with
    | rd k tmo d =>
      simp only [exec] at h
      split at h
      · cases h
      · rename_i ts1 ib hr
        obtain ⟨q1, q2, _⟩ := readInbox_same _ _ _ _ _ _ _ hr
        injection h with h; injection h with h1 h2; subst h1; subst h2
        exact key ts1 q1 q2
    | wr a r d =>
      simp only [exec] at h
      injection h with h; injection h with h1 h2; subst h1; subst h2
      exact key _ rfl rfl
    | sl d =>
      simp only [exec] at h
      injection h with h; injection h with h1 h2; subst h1; subst h2
      exact key _ rfl rfl
    | rc r =>
      simp only [exec] at h
      injection h with h; injection h with h1 h2; subst h1; subst h2
      exact key _ rfl rfl
  | spawn w =>
    rcases hc with hc | hc
    · have hw : wfIn false rest = true := by have := wi hc; simpa [wfIn] using this
      simp only [exec] at h
      split at h
      · cases h
      · rename_i hne
        injection h with h; injection h with h1 h2; subst h1; subst h2
        have hs1 : Inv' s.lock (if (s.tasks w).phase = .unborn then s.setTask w (TState.start (P w)) else s).tasks ∧
            (if (s.tasks w).phase = .unborn then s.setTask w (TState.start (P w)) else s).tasks t = s.tasks t ∧
            (if (s.tasks w).phase = .unborn then s.setTask w (TState.start (P w)) else s).lock = s.lock := by
          split
          · rename_i hu
            obtain ⟨a1, a2⟩ := start_ok (P w) (hP w)
            refine ⟨inv_out_out hi w _ (by rw [hu]; rfl) a2 a1, ?_, rfl⟩
            rw [setTask_tasks]; exact upd_other _ _ _ _ (fun e => hne e.symm)
          · exact ⟨hi, rfl, rfl⟩
        obtain ⟨b1, b2, b3⟩ := hs1
        obtain ⟨c1, c2⟩ := finish_idle P hP b1 t { s.tasks t with todo := rest } (by rw [b2, hc]; rfl) hc hw
        refine ⟨?_, ?_⟩
        · show Inv' (if (s.tasks w).phase = .unborn then s.setTask w (TState.start (P w)) else s).lock _
          rw [b3]; exact c1
        · show accept s.lock _ = some (if (s.tasks w).phase = .unborn then s.setTask w (TState.start (P w)) else s).lock
          rw [b3]; exact c2
    · have hw := wh hc; simp [wfIn] at hw
  | stop w =>
    rcases hc with hc | hc
    · have hw : wfIn false rest = true := by have := wi hc; simpa [wfIn] using this
      simp only [exec] at h
      split at h
      · cases h
      · rename_i hne
        injection h with h; injection h with h1 h2; subst h1; subst h2
        have hs1 : Inv' s.lock (if (s.tasks w).phase = .done then s else s.setTask w { s.tasks w with stopReq := true }).tasks ∧
            (if (s.tasks w).phase = .done then s else s.setTask w { s.tasks w with stopReq := true }).tasks t = s.tasks t ∧
            (if (s.tasks w).phase = .done then s else s.setTask w { s.tasks w with stopReq := true }).lock = s.lock := by
          split
          · exact ⟨hi, rfl, rfl⟩
          · refine ⟨inv_same_phase hi w _ rfl (hi.ok w), ?_, rfl⟩
            rw [setTask_tasks]; exact upd_other _ _ _ _ (fun e => hne e.symm)
        obtain ⟨b1, b2, b3⟩ := hs1
        obtain ⟨c1, c2⟩ := finish_idle P hP b1 t { s.tasks t with todo := rest } (by rw [b2, hc]; rfl) hc hw
        refine ⟨?_, ?_⟩
        · show Inv' (if (s.tasks w).phase = .done then s else s.setTask w { s.tasks w with stopReq := true }).lock _
          rw [b3]; exact c1
        · show accept s.lock _ = some (if (s.tasks w).phase = .done then s else s.setTask w { s.tasks w with stopReq := true }).lock
          rw [b3]; exact c2
    · have hw := wh hc; simp [wfIn] at hw
  | join w =>
    rcases hc with hc | hc
    · have hw : wfIn false rest = true := by have := wi hc; simpa [wfIn] using this
      simp only [exec] at h
      split at h
      · injection h with h; injection h with h1 h2; subst h1; subst h2
        exact finish_idle P hP hi t { s.tasks t with todo := rest } (by rw [hc]; rfl) hc hw
      · cases h
    · have hw := wh hc; simp [wfIn] at hw

theorem step_unwait {lock : Sys} (t : Tid) (h : t ∈ lock.waiters) :
    step lock (.unwait t) = some { lock with waiters := lock.waiters.filter (· ≠ t) } := by
  simp [step, h]

theorem phaseOk_dead (ts : TState) : PhaseOk { ts with phase := .done, todo := [], aborted := true, stopReq := false } := by
  simp only [PhaseOk]

/-- **every scheduling decision preserves the lock / phase invariant, and what it emits is accepted by the
    lock-discipline acceptor** -/
theorem step_inv (P : Progs) (hP : WF P) (s : MSys) (hi : Inv s) (c : Choice) (s' : MSys) (evs : List Event)
    (h : mstepE P s c = some (s', evs)) : Inv s' ∧ accept s.lock evs = some s'.lock := by
  cases c with
  | deliver b =>
    simp only [mstepE] at h
    injection h with h; injection h with h1 h2; subst h1; subst h2
    exact ⟨hi, rfl⟩
  | cancel t =>
    simp only [mstepE] at h
    split at h
    · cases h
    · rename_i hp
      injection h with h; injection h with h1 h2; subst h1; subst h2
      have hmid := inv_unwait hi t { s.tasks t with phase := .done, todo := [], aborted := true, stopReq := false } hp rfl (phaseOk_dead _)
      refine ⟨hmid, ?_⟩
      rw [accept_cons _ _ _ _ (step_unwait t ((hi.wait t).mp hp))]
      exact accept_one _ _ _ (step_ended hmid t (by simp; rfl))
    · rename_i hp
      injection h with h; injection h with h1 h2; subst h1; subst h2
      have hmid := inv_release hi t { s.tasks t with phase := .done, todo := [], aborted := true, stopReq := false } hp rfl (phaseOk_dead _)
      refine ⟨hmid, ?_⟩
      rw [accept_cons _ _ _ _ (step_rel t ((hi.hold t).mp hp))]
      exact accept_one _ _ _ (step_ended hmid t (by simp; rfl))
    · rename_i hp
      injection h with h; injection h with h1 h2; subst h1; subst h2
      have hout : (s.tasks t).phase.out = true := by rw [hp]; rfl
      exact ⟨inv_out_out hi t _ hout rfl (phaseOk_dead _), accept_one _ _ _ (step_ended hi t hout)⟩
    · rename_i hp
      injection h with h; injection h with h1 h2; subst h1; subst h2
      have hout : (s.tasks t).phase.out = true := by rw [hp]; rfl
      exact ⟨inv_out_out hi t _ hout rfl (phaseOk_dead _), accept_one _ _ _ (step_ended hi t hout)⟩
  | run t =>
    simp only [mstepE] at h
    split at h
    · cases h
    · split at h
      · cases h
      · cases h
      · -- waiting: the grant
        rename_i hp
        split at h
        · rename_i w ws hh hw
          split at h
          · rename_i hwt; subst hwt
            injection h with h; injection h with h1 h2; subst h1; subst h2
            have hok : PhaseOk { s.tasks w with phase := .holding } := by
              have := hi.ok w; simp only [PhaseOk, hp] at this; simp only [PhaseOk]; exact this
            refine ⟨inv_grant hi w ws _ hh hw rfl hok, ?_⟩
            apply accept_one
            simp [step, hh, hw, MSys.setTask]
          · cases h
        · cases h
      all_goals
        rename_i hp
        have hc : (s.tasks t).phase = .idle ∨ (s.tasks t).phase = .holding := by simp [hp]
        split at h
        · rename_i htd
          rcases hc with hc | hc
          · injection h with h; injection h with h1 h2; subst h1; subst h2
            obtain ⟨hok, _, hcase⟩ := nextRound_idle (P t) (hP t) t (s.tasks t) hc htd
            have hout : (s.tasks t).phase.out = true := by rw [hc]; rfl
            rcases hcase with ⟨q, he⟩ | ⟨q, he⟩
            · exact ⟨inv_out_out hi t _ hout (by rw [q]; rfl) hok, by rw [he]; rfl⟩
            · exact ⟨inv_out_out hi t _ hout (by rw [q]; rfl) hok, by rw [he]; exact accept_one _ _ _ (step_ended hi t hout)⟩
          · have := hi.ok t; simp only [PhaseOk, hc, htd] at this; simp [wfIn] at this
        · rename_i a rest htd
          exact exec_inv P hP s hi t a rest hc htd s' evs h

/-! ### whole schedules -/

theorem mstep_eq (P : Progs) (s s' : MSys) (c : Choice) (h : mstep P s c = some s') :
    ∃ s1 evs, mstepE P s c = some (s1, evs) ∧ s' = { s1 with events := s.events ++ evs } := by
  unfold mstep at h
  cases hm : mstepE P s c with
  | none => rw [hm] at h; cases h
  | some r =>
    rw [hm] at h
    injection h with h
    exact ⟨r.1, r.2, rfl, h.symm⟩

/-- reachable states: the invariant, and the emitted events are a trace the lock-discipline acceptor accepts -/
def RInv (s : MSys) : Prop := Inv s ∧ accept Sys.init s.events = some s.lock

theorem rinv_step (P : Progs) (hP : WF P) (s s' : MSys) (c : Choice) (hi : RInv s) (h : mstep P s c = some s') : RInv s' := by
  obtain ⟨s1, evs, hm, rfl⟩ := mstep_eq P s s' c h
  obtain ⟨h1, h2⟩ := step_inv P hP s hi.1 c s1 evs hm
  refine ⟨h1, ?_⟩
  show accept Sys.init (s.events ++ evs) = some s1.lock
  rw [accept_append, hi.2]
  exact h2

theorem rinv_init (P : Progs) (hP : WF P) (born : Tid → Bool) : RInv (MSys.init P born) := by
  refine ⟨⟨by simp [MSys.init], ?_, ?_, ?_⟩, rfl⟩
  · intro t
    have : ((MSys.init P born).tasks t).phase.out = true := by
      simp only [MSys.init]; split
      · exact (start_ok (P t) (hP t)).2
      · rfl
    constructor
    · intro e; rw [e] at this; cases this
    · intro e; cases e
  · intro t
    have : ((MSys.init P born).tasks t).phase.out = true := by
      simp only [MSys.init]; split
      · exact (start_ok (P t) (hP t)).2
      · rfl
    constructor
    · intro e; rw [e] at this; cases this
    · intro e; simp [MSys.init] at e
  · intro t
    simp only [MSys.init]; split
    · exact (start_ok (P t) (hP t)).1
    · simp only [PhaseOk]

theorem rinv_run (P : Progs) (hP : WF P) (cs : List Choice) (s s' : MSys) (hi : RInv s) (h : mrun P s cs = some s') : RInv s' := by
  induction cs generalizing s with
  | nil => simp only [mrun] at h; injection h with h; subst h; exact hi
  | cons c cs ih =>
    simp only [mrun] at h
    cases hm : mstep P s c with
    | none => rw [hm] at h; cases h
    | some s1 => rw [hm] at h; exact ih s1 (rinv_step P hP s s1 c hi hm) h

theorem mrun_append (P : Progs) (s : MSys) (a b : List Choice) :
    mrun P s (a ++ b) = (mrun P s a).bind fun s' => mrun P s' b := by
  induction a generalizing s with
  | nil => rfl
  | cons c cs ih =>
    simp only [List.cons_append, mrun]
    cases mstep P s c with
    | none => rfl
    | some s' => exact ih s'

/-! ### the programs of the real callers are bracketed -/

theorem wfIn_io_release (l : List OpX) : wfIn true (l.map Act.io ++ [Act.release]) = true := by
  induction l with
  | nil => rfl
  | cons o r ih => simp [wfIn, ih]

theorem request_acts (c : CfgX) (io : Script) :
    (requestX c io).trace.map Act.ofReq = .acquire :: ((runX c io).trace.map Act.io ++ [.release]) := by
  simp [requestX, Act.ofReq, List.map_append, Function.comp_def]

theorem request_wf (c : CfgX) (r : UdsReq.Req) (io : Script) : wfIn false (Round.request c r io).acts = true := by
  show wfIn false ((requestX c io).trace.map Act.ofReq) = true
  rw [request_acts]; simp only [wfIn]; exact wfIn_io_release _

theorem reconnect_wf (res : RcEv) : wfIn false (Round.reconnect res).acts = true := by simp [Round.reconnect, wfIn]

theorem sleep_wf (d : Nat) : wfIn false (Round.sleep d).acts = true := by simp [Round.sleep, wfIn, wireKind]

theorem worker_wf (iv : Nat) (c : CfgX) (io : Script) : wfIn false (Round.worker iv c io).acts = true := by
  show wfIn false (.io (.sl iv) :: (requestX (workerCfg c) io).trace.map Act.ofReq) = true
  rw [request_acts]; simp only [wfIn, wireKind, Option.isNone_none, Bool.or_true, Bool.true_and]; exact wfIn_io_release _

theorem startWorker_wf (w : Tid) : wfIn false (Round.startWorker w).acts = true := by simp [Round.startWorker, wfIn, wireKind]
theorem stopWorker_wf (w : Tid) : wfIn false (Round.stopWorker w).acts = true := by simp [Round.stopWorker, wfIn]

theorem seq_wf (rs : List Round) (h : ∀ r ∈ rs, wfIn false r.acts = true) (n : Nat) : wfIn false ((Prog.seq rs).round n).acts = true := by
  show wfIn false (rs.getD n (Round.sleep 0)).acts = true
  by_cases hn : n < rs.length
  · have : rs.getD n (Round.sleep 0) = rs[n] := by simp [List.getD, hn]
    rw [this]; exact h _ (List.getElem_mem hn)
  · have : rs.getD n (Round.sleep 0) = Round.sleep 0 := by simp only [List.getD]; rw [List.getElem?_eq_none (by omega)]; rfl
    rw [this]; exact sleep_wf 0

/-- the calls gallia's tasks are made of -/
def KnownRound (r : Round) : Prop :=
  (∃ c q io, r = Round.request c q io) ∨ (∃ res, r = Round.reconnect res) ∨ (∃ d, r = Round.sleep d) ∨
  (∃ iv c io, r = Round.worker iv c io) ∨ (∃ w, r = Round.startWorker w) ∨ (∃ w, r = Round.stopWorker w)

/-- the tasks of the real system: a caller of `request()`, a caller of `reconnect()`, the tester-present worker, or a task
    that performs any sequence of such calls incl. `start_cyclic_tester_present` / `stop_cyclic_tester_present` -/
def RealProg (p : Prog) : Prop :=
  (∃ c q io, p = Prog.request c q io) ∨ (∃ res, p = Prog.reconnect res) ∨ (∃ iv c ios, p = Prog.worker iv c ios) ∨
  (∃ rs, p = Prog.seq rs ∧ ∀ r ∈ rs, KnownRound r)

theorem knownRound_wf (r : Round) (h : KnownRound r) : wfIn false r.acts = true := by
  rcases h with ⟨c, q, io, rfl⟩ | ⟨res, rfl⟩ | ⟨d, rfl⟩ | ⟨iv, c, io, rfl⟩ | ⟨w, rfl⟩ | ⟨w, rfl⟩
  · exact request_wf c q io
  · exact reconnect_wf res
  · exact sleep_wf d
  · exact worker_wf iv c io
  · exact startWorker_wf w
  · exact stopWorker_wf w

theorem real_wf (P : Progs) (h : ∀ t, RealProg (P t)) : WF P := by
  intro t n
  rcases h t with ⟨c, q, io, e⟩ | ⟨res, e⟩ | ⟨iv, c, ios, e⟩ | ⟨rs, e, hk⟩ <;> rw [e]
  · exact request_wf c q io
  · exact reconnect_wf res
  · exact worker_wf iv c (ios n)
  · exact seq_wf rs (fun r hr => knownRound_wf r (hk r hr)) n

/-! ### a task that is done stays done, and nobody else's step changes a task except by `spawn` / `stop` -/

theorem exec_done_other (P : Progs) (s : MSys) (t : Tid) (ts : TState) (a : Act) (s' : MSys) (evs : List Event)
    (h : exec P s t ts a = some (s', evs)) (u : Tid) (hu : u ≠ t) (hd : (s.tasks u).phase = .done) :
    s'.tasks u = s.tasks u := by
  cases a with
  | acquire =>
    simp only [exec] at h; injection h with h; injection h with h1 h2; subst h1
    simp [MSys.setTask, hu]
  | release =>
    simp only [exec] at h
    split at h
    · injection h with h; injection h with h1 h2; subst h1; simp [MSys.setTask, hu]
    · injection h with h; injection h with h1 h2; subst h1; simp [MSys.setTask, hu]
  | io o =>
    cases o with
    | rd k tmo d =>
      simp only [exec] at h
      split at h
      · cases h
      · injection h with h; injection h with h1 h2; subst h1; simp [MSys.setTask, hu]
    | wr a r d => simp only [exec] at h; injection h with h; injection h with h1 h2; subst h1; simp [MSys.setTask, hu]
    | sl d => simp only [exec] at h; injection h with h; injection h with h1 h2; subst h1; simp [MSys.setTask, hu]
    | rc r => simp only [exec] at h; injection h with h; injection h with h1 h2; subst h1; simp [MSys.setTask, hu]
  | spawn w =>
    simp only [exec] at h
    split at h
    · cases h
    · injection h with h; injection h with h1 h2; subst h1
      simp only [MSys.setTask, hu, if_false]
      split
      · rename_i hw
        by_cases huw : u = w
        · subst huw; rw [hd] at hw; cases hw
        · simp [huw]
      · rfl
  | stop w =>
    simp only [exec] at h
    split at h
    · cases h
    · injection h with h; injection h with h1 h2; subst h1
      simp only [MSys.setTask, hu, if_false]
      split
      · rfl
      · rename_i hw
        by_cases huw : u = w
        · subst huw; exact absurd hd hw
        · simp [huw]
  | join w =>
    simp only [exec] at h
    split at h
    · injection h with h; injection h with h1 h2; subst h1; simp [MSys.setTask, hu]
    · cases h

/-- a task that has ended is never touched again -/
theorem done_stays (P : Progs) (s s' : MSys) (c : Choice) (h : mstep P s c = some s') (u : Tid)
    (hd : (s.tasks u).phase = .done) : s'.tasks u = s.tasks u := by
  obtain ⟨s1, evs, hm, rfl⟩ := mstep_eq P s s' c h
  show s1.tasks u = s.tasks u
  cases c with
  | deliver b => simp only [mstepE] at hm; injection hm with hm; injection hm with h1 h2; subst h1; rfl
  | cancel t =>
    have hu : u ≠ t := by
      rintro rfl; simp only [mstepE, hd] at hm; cases hm
    simp only [mstepE] at hm
    split at hm
    · cases hm
    all_goals (injection hm with hm; injection hm with h1 h2; subst h1; simp [MSys.setTask, hu])
  | run t =>
    have hu : u ≠ t := by
      rintro rfl; simp only [mstepE, hd] at hm; split at hm <;> cases hm
    simp only [mstepE] at hm
    split at hm
    · cases hm
    · split at hm
      · cases hm
      · cases hm
      · split at hm
        · split at hm
          · injection hm with hm; injection hm with h1 h2; subst h1; simp [MSys.setTask, hu]
          · cases hm
        · cases hm
      all_goals
        split at hm
        · injection hm with hm; injection hm with h1 h2; subst h1; simp [MSys.setTask, hu]
        · exact exec_done_other P s t _ _ s1 evs hm u hu hd

theorem done_forever (P : Progs) (cs : List Choice) (s s' : MSys) (h : mrun P s cs = some s') (u : Tid)
    (hd : (s.tasks u).phase = .done) : s'.tasks u = s.tasks u := by
  induction cs generalizing s with
  | nil => simp only [mrun] at h; injection h with h; subst h; rfl
  | cons c cs ih =>
    simp only [mrun] at h
    cases hm : mstep P s c with
    | none => rw [hm] at h; cases h
    | some s1 =>
      rw [hm] at h
      have e := done_stays P s s1 c hm u hd
      rw [ih s1 h (by rw [e]; exact hd), e]

/-! ### single decisions, computed -/

theorem cancel_waiting_step (P : Progs) (s : MSys) (t : Tid) (hp : (s.tasks t).phase = .waiting) :
    ∃ s', mstep P s (.cancel t) = some s' ∧ s'.lock.holder = s.lock.holder ∧
      s'.lock.waiters = s.lock.waiters.filter (· ≠ t) ∧ (s'.tasks t).phase = .done ∧
      (∀ u, u ≠ t → s'.tasks u = s.tasks u) ∧ s'.inbox = s.inbox ∧ s'.log = s.log := by
  cases hm : mstep P s (.cancel t) with
  | none => simp [mstep, mstepE, hp] at hm
  | some s' =>
    simp only [mstep, mstepE, hp, Option.map] at hm
    injection hm with hm; subst hm
    refine ⟨_, rfl, rfl, rfl, by simp [MSys.setTask], ?_, rfl, rfl⟩
    intro u hu; simp [MSys.setTask, hu]

theorem cancel_holding_step (P : Progs) (s : MSys) (t : Tid) (hp : (s.tasks t).phase = .holding) :
    ∃ s', mstep P s (.cancel t) = some s' ∧ s'.lock.holder = none ∧ s'.lock.waiters = s.lock.waiters ∧
      (s'.tasks t).phase = .done ∧ (∀ u, u ≠ t → s'.tasks u = s.tasks u) ∧ s'.inbox = s.inbox ∧ s'.log = s.log := by
  cases hm : mstep P s (.cancel t) with
  | none => simp [mstep, mstepE, hp] at hm
  | some s' =>
    simp only [mstep, mstepE, hp, Option.map] at hm
    injection hm with hm; subst hm
    refine ⟨_, rfl, rfl, rfl, by simp [MSys.setTask], ?_, rfl, rfl⟩
    intro u hu; simp [MSys.setTask, hu]

theorem cancel_out_step (P : Progs) (s : MSys) (t : Tid) (hp : (s.tasks t).phase = .idle ∨ (s.tasks t).phase = .unborn) :
    ∃ s', mstep P s (.cancel t) = some s' ∧ s'.lock = s.lock ∧
      (s'.tasks t).phase = .done ∧ (∀ u, u ≠ t → s'.tasks u = s.tasks u) ∧ s'.inbox = s.inbox ∧ s'.log = s.log := by
  cases hm : mstep P s (.cancel t) with
  | none => rcases hp with hp | hp <;> simp [mstep, mstepE, hp] at hm
  | some s' =>
    rcases hp with hp | hp
    all_goals
      simp only [mstep, mstepE, hp, Option.map] at hm
      injection hm with hm; subst hm
      refine ⟨_, rfl, rfl, by simp [MSys.setTask], ?_, rfl, rfl⟩
      intro u hu; simp [MSys.setTask, hu]

theorem grant_step (P : Progs) (s : MSys) (w : Tid) (ws : List Tid) (hp : (s.tasks w).phase = .waiting)
    (hs : (s.tasks w).stopReq = false) (hh : s.lock.holder = none) (hw : s.lock.waiters = w :: ws) :
    ∃ s', mstep P s (.run w) = some s' ∧ s'.lock = { holder := some w, waiters := ws } ∧
      (s'.tasks w).phase = .holding ∧ (∀ u, u ≠ w → s'.tasks u = s.tasks u) ∧ s'.log = s.log := by
  cases hm : mstep P s (.run w) with
  | none => simp [mstep, mstepE, hp, hs, hh, hw] at hm
  | some s' =>
    simp only [mstep, mstepE, hp, hs, hh, hw, Option.map] at hm
    simp at hm; subst hm
    refine ⟨_, rfl, rfl, by simp [MSys.setTask], ?_, rfl⟩
    intro u hu; simp [MSys.setTask, hu]

theorem settle_cons (p : Prog) (t : Tid) (ts : TState) (a : Act) (rest : List Act) (h : ts.todo = a :: rest) :
    settle p t ts = (ts, []) := by
  unfold settle; rw [h]

theorem release_step (P : Progs) (s : MSys) (t u0 : Tid) (rest : List Act)
    (hp : (s.tasks t).phase = .idle ∨ (s.tasks t).phase = .holding) (hs : (s.tasks t).stopReq = false)
    (htodo : (s.tasks t).todo = .release :: rest) (hh : s.lock.holder = some u0) :
    ∃ s', mstep P s (.run t) = some s' ∧ s'.lock.holder = none ∧ s'.lock.waiters = s.lock.waiters ∧
      (∀ u, u ≠ t → s'.tasks u = s.tasks u) := by
  cases hm : mstep P s (.run t) with
  | none => rcases hp with hp | hp <;> simp [mstep, mstepE, hp, hs, htodo, exec, hh] at hm
  | some s' =>
    rcases hp with hp | hp
    all_goals
      simp only [mstep, mstepE, hp, hs, htodo, exec, hh, Option.map] at hm
      simp at hm; subst hm
      refine ⟨_, rfl, rfl, rfl, ?_⟩
      intro u hu; simp [MSys.setTask, hu]

theorem stopped_silent (P : Progs) (s : MSys) (w : Tid) (h : (s.tasks w).stopReq = true) : mstep P s (.run w) = none := by
  simp [mstep, mstepE, h]

theorem stop_step (P : Progs) (s : MSys) (u w : Tid) (rest : List Act) (hne : w ≠ u)
    (hp : (s.tasks u).phase = .idle) (hs : (s.tasks u).stopReq = false) (htodo : (s.tasks u).todo = .stop w :: .join w :: rest) :
    ∃ s1, mstep P s (.run u) = some s1 ∧ s1.lock = s.lock ∧ (s1.tasks u).todo = .join w :: rest ∧
      (s1.tasks u).phase = .idle ∧ (s1.tasks u).stopReq = false ∧
      ((s.tasks w).phase ≠ .done → (s1.tasks w).stopReq = true ∧ (s1.tasks w).phase = (s.tasks w).phase) ∧
      ((s.tasks w).phase = .done → s1.tasks w = s.tasks w) := by
  cases hm : mstep P s (.run u) with
  | none => simp [mstep, mstepE, hp, hs, htodo, exec, hne] at hm
  | some s1 =>
    simp only [mstep, mstepE, hp, hs, htodo, exec, hne, Option.map, if_false, settle] at hm
    simp at hm; subst hm
    by_cases hd : (s.tasks w).phase = .done
    · simp [hd, MSys.setTask, hne]
    · simp [hd, MSys.setTask, hne]

theorem join_step (P : Progs) (s : MSys) (u w : Tid) (rest : List Act)
    (hp : (s.tasks u).phase = .idle) (hs : (s.tasks u).stopReq = false) (htodo : (s.tasks u).todo = .join w :: rest)
    (hd : (s.tasks w).phase = .done) :
    ∃ s3, mstep P s (.run u) = some s3 ∧ s3.lock = s.lock := by
  cases hm : mstep P s (.run u) with
  | none => simp [mstep, mstepE, hp, hs, htodo, exec, hd] at hm
  | some s3 =>
    simp only [mstep, mstepE, hp, hs, htodo, exec, hd, Option.map] at hm
    simp at hm; subst hm
    exact ⟨_, rfl, rfl⟩

/-! ### the log -/

theorem exec_log (P : Progs) (s : MSys) (t : Tid) (ts : TState) (a : Act) (s' : MSys) (evs : List Event)
    (h : exec P s t ts a = some (s', evs)) : s'.log = s.log ++ [(t, ts.round, a)] := by
  cases a with
  | acquire => simp only [exec] at h; injection h with h; injection h with h1 h2; subst h1; rfl
  | release =>
    simp only [exec] at h
    split at h
    · injection h with h; injection h with h1 h2; subst h1; rfl
    · injection h with h; injection h with h1 h2; subst h1; rfl
  | io o =>
    cases o with
    | rd k tmo d =>
      simp only [exec] at h
      split at h
      · cases h
      · injection h with h; injection h with h1 h2; subst h1; rfl
    | wr a r d => simp only [exec] at h; injection h with h; injection h with h1 h2; subst h1; rfl
    | sl d => simp only [exec] at h; injection h with h; injection h with h1 h2; subst h1; rfl
    | rc r => simp only [exec] at h; injection h with h; injection h with h1 h2; subst h1; rfl
  | spawn w =>
    simp only [exec] at h
    split at h
    · cases h
    · injection h with h; injection h with h1 h2; subst h1; rfl
  | stop w =>
    simp only [exec] at h
    split at h
    · cases h
    · injection h with h; injection h with h1 h2; subst h1; rfl
  | join w =>
    simp only [exec] at h
    split at h
    · injection h with h; injection h with h1 h2; subst h1; rfl
    · cases h

/-- a step appends at most one entry to the log: the await point the running task completes -/
theorem log_step (P : Progs) (s s' : MSys) (c : Choice) (h : mstep P s c = some s') :
    s'.log = s.log ∨ ∃ t a rest, c = .run t ∧ (s.tasks t).todo = a :: rest ∧
      ((s.tasks t).phase = .idle ∨ (s.tasks t).phase = .holding) ∧ s'.log = s.log ++ [(t, (s.tasks t).round, a)] := by
  obtain ⟨s1, evs, hm, rfl⟩ := mstep_eq P s s' c h
  show s1.log = s.log ∨ ∃ t a rest, c = .run t ∧ _ ∧ _ ∧ s1.log = _
  cases c with
  | deliver b => simp only [mstepE] at hm; injection hm with hm; injection hm with h1 h2; subst h1; exact .inl rfl
  | cancel t =>
    simp only [mstepE] at hm
    split at hm
    · cases hm
    all_goals (injection hm with hm; injection hm with h1 h2; subst h1; exact .inl rfl)
  | run t =>
    simp only [mstepE] at hm
    split at hm
    · cases hm
    · split at hm
      · cases hm
      · cases hm
      · split at hm
        · split at hm
          · injection hm with hm; injection hm with h1 h2; subst h1; exact .inl rfl
          · cases hm
        · cases hm
      all_goals
        rename_i hp
        split at hm
        · injection hm with hm; injection hm with h1 h2; subst h1; exact .inl rfl
        · rename_i a rest htd
          exact .inr ⟨t, a, rest, rfl, htd, by simp [hp], exec_log P s t { s.tasks t with todo := rest } a s1 evs hm⟩

/-- a task that has ended puts nothing on the wire any more -/
theorem ended_task_is_silent (P : Progs) (cs : List Choice) (s s' : MSys) (h : mrun P s cs = some s') (w : Tid)
    (hd : (s.tasks w).phase = .done) : s'.log.filter (·.1 == w) = s.log.filter (·.1 == w) := by
  induction cs generalizing s with
  | nil => simp only [mrun] at h; injection h with h; subst h; rfl
  | cons c cs ih =>
    simp only [mrun] at h
    cases hm : mstep P s c with
    | none => rw [hm] at h; cases h
    | some s1 =>
      rw [hm] at h
      have e := done_stays P s s1 c hm w hd
      rw [ih s1 h (by rw [e]; exact hd)]
      rcases log_step P s s1 c hm with hl | ⟨t, a, rest, _, _, hph, hl⟩
      · rw [hl]
      · have hne : t ≠ w := by
          rintro rfl; rcases hph with q | q <;> (rw [hd] at q; cases q)
        rw [hl, List.filter_append]
        simp [hne]

/-! ### the event trace is the wire: transport operations in the log and `op` events correspond one to one, in order -/

def wireOfLog : Tid × Nat × Act → Option (Tid × OpKind)
  | (t, _, .io o) => (wireKind o).map fun k => (t, k)
  | _ => none

def wireOfEvent : Event → Option (Tid × OpKind)
  | .op t k => some (t, k)
  | _ => none

theorem settle_events_no_op (p : Prog) (t : Tid) (ts : TState) : (settle p t ts).2.filterMap wireOfEvent = [] := by
  unfold settle
  split
  · unfold nextRound; split <;> rfl
  · rfl

theorem nextRound_events_no_op (p : Prog) (t : Tid) (ts : TState) : (nextRound p t ts).2.filterMap wireOfEvent = [] := by
  unfold nextRound; split <;> rfl

theorem exec_wire (P : Progs) (s : MSys) (t : Tid) (ts : TState) (a : Act) (s' : MSys) (evs : List Event)
    (h : exec P s t ts a = some (s', evs)) : evs.filterMap wireOfEvent = (wireOfLog (t, ts.round, a)).toList := by
  cases a with
  | acquire => simp only [exec] at h; injection h with h; injection h with h1 h2; subst h2; rfl
  | release =>
    simp only [exec] at h
    split at h
    · injection h with h; injection h with h1 h2; subst h2; rfl
    · injection h with h; injection h with h1 h2; subst h2
      simp only [List.filterMap_cons, wireOfEvent, settle_events_no_op]; rfl
  | io o =>
    cases o with
    | rd k tmo d =>
      simp only [exec] at h
      split at h
      · cases h
      · injection h with h; injection h with h1 h2; subst h2
        rw [List.filterMap_append, settle_events_no_op, List.append_nil]; simp [wireKind, wireOfLog, wireOfEvent]
    | wr a r d =>
      simp only [exec] at h; injection h with h; injection h with h1 h2; subst h2
      rw [List.filterMap_append, settle_events_no_op, List.append_nil]; simp [wireKind, wireOfLog, wireOfEvent]
    | sl d =>
      simp only [exec] at h; injection h with h; injection h with h1 h2; subst h2
      rw [List.filterMap_append, settle_events_no_op, List.append_nil]; simp [wireKind, wireOfLog]
    | rc r =>
      simp only [exec] at h; injection h with h; injection h with h1 h2; subst h2
      rw [List.filterMap_append, settle_events_no_op, List.append_nil]; simp [wireKind, wireOfLog, wireOfEvent]
  | spawn w =>
    simp only [exec] at h
    split at h
    · cases h
    · injection h with h; injection h with h1 h2; subst h2; exact settle_events_no_op _ _ _
  | stop w =>
    simp only [exec] at h
    split at h
    · cases h
    · injection h with h; injection h with h1 h2; subst h2; exact settle_events_no_op _ _ _
  | join w =>
    simp only [exec] at h
    split at h
    · injection h with h; injection h with h1 h2; subst h2; exact settle_events_no_op _ _ _
    · cases h

theorem step_wire (P : Progs) (s s' : MSys) (c : Choice) (h : mstep P s c = some s')
    (hi : s.log.filterMap wireOfLog = s.events.filterMap wireOfEvent) :
    s'.log.filterMap wireOfLog = s'.events.filterMap wireOfEvent := by
  obtain ⟨s1, evs, hm, rfl⟩ := mstep_eq P s s' c h
  show s1.log.filterMap wireOfLog = (s.events ++ evs).filterMap wireOfEvent
  rw [List.filterMap_append, ← hi]
  cases c with
  | deliver b => simp only [mstepE] at hm; injection hm with hm; injection hm with h1 h2; subst h1; subst h2; simp
  | cancel t =>
    simp only [mstepE] at hm
    split at hm
    · cases hm
    all_goals (injection hm with hm; injection hm with h1 h2; subst h1; subst h2; simp [MSys.setTask, wireOfEvent])
  | run t =>
    simp only [mstepE] at hm
    split at hm
    · cases hm
    · split at hm
      · cases hm
      · cases hm
      · split at hm
        · split at hm
          · injection hm with hm; injection hm with h1 h2; subst h1; subst h2; simp [MSys.setTask, wireOfEvent]
          · cases hm
        · cases hm
      all_goals
        split at hm
        · injection hm with hm; injection hm with h1 h2; subst h1; subst h2
          rw [nextRound_events_no_op]; simp [MSys.setTask]
        · rw [exec_log P s t _ _ s1 evs hm, exec_wire P s t _ _ s1 evs hm, List.filterMap_append]
          cases hwl : wireOfLog (t, (s.tasks t).round, _) <;> simp [hwl]

theorem run_wire (P : Progs) (cs : List Choice) (s s' : MSys) (h : mrun P s cs = some s')
    (hi : s.log.filterMap wireOfLog = s.events.filterMap wireOfEvent) :
    s'.log.filterMap wireOfLog = s'.events.filterMap wireOfEvent := by
  induction cs generalizing s with
  | nil => simp only [mrun] at h; injection h with h; subst h; exact hi
  | cons c cs ih =>
    simp only [mrun] at h
    cases hm : mstep P s c with
    | none => rw [hm] at h; cases h
    | some s1 => rw [hm] at h; exact ih s1 h (step_wire P s s1 c hm hi)

end Gallia.ClientMulti
