import Gallia.Proofs.Lemmas.Randomize
/-
  C16 helper lemmas, part 3: the executable well-formedness report (`wfReport`, evaluated by the harness on the model
  the *implementation* produced) is sound for the Prop-level vocabulary of the theorems.
-/
namespace Gallia.Randomize

theorem find?_fst_mem {β} {l : List (Nat × β)} {k : Nat} {e : Nat × β}
    (h : l.find? (fun e => e.1 == k) = some e) : e ∈ l ∧ e.1 = k := by
  refine ⟨List.mem_of_find?_eq_some h, ?_⟩
  have := List.find?_some h
  simpa using this

theorem find?_of_nodup_keys {β} {l : List (Nat × β)} {k : Nat} {v : β} (hn : (l.map (·.1)).Nodup)
    (h : (k, v) ∈ l) : l.find? (fun e => e.1 == k) = some (k, v) := by
  induction l with
  | nil => simp at h
  | cons e rest ih =>
    rw [List.map_cons, List.nodup_cons] at hn
    rw [List.find?_cons]
    by_cases hk : e.1 = k
    · have : (e.1 == k) = true := by simp [hk]
      simp only [this]
      rcases List.mem_cons.1 h with h | h
      · rw [h]
      · exfalso
        apply hn.1
        rw [hk]
        exact List.mem_map.2 ⟨(k, v), h, rfl⟩
    · have : (e.1 == k) = false := by simp [hk]
      simp only [this]
      rcases List.mem_cons.1 h with h | h
      · exfalso; apply hk; rw [← h]
      · exact ih hn.2 h

theorem lookupSess_some {m : Model} {s : Nat} {sm : SvcMap} (h : lookupSess m s = some sm) : (s, sm) ∈ m := by
  unfold lookupSess at h
  cases hf : m.find? (fun e => e.1 == s) with
  | none => simp [hf] at h
  | some e =>
    simp [hf] at h
    obtain ⟨hm, hk⟩ := find?_fst_mem hf
    rw [← h, ← hk]; exact hm

theorem lookupSvc_some {sm : SvcMap} {k : Nat} {v : Option (List Nat)} (h : lookupSvc sm k = some v) :
    (k, v) ∈ sm := by
  unfold lookupSvc at h
  cases hf : sm.find? (fun e => e.1 == k) with
  | none => simp [hf] at h
  | some e =>
    simp [hf] at h
    obtain ⟨hm, hk⟩ := find?_fst_mem hf
    rw [← h, ← hk]; exact hm

theorem offeredB_sound {m : Model} {s : Nat} (h : offeredB m s = true) : Offered m s := by
  unfold offeredB at h
  cases hl : lookupSess m s with
  | none => simp [hl] at h
  | some sm => exact ⟨sm, lookupSess_some hl⟩

theorem dscOf_edge {tb : Tables} {m : Model} {a b : Nat} (h : b ∈ dscOf tb m a) : DscEdge tb m a b := by
  unfold dscOf at h
  cases hl : lookupSess m a with
  | none => simp [hl] at h
  | some sm =>
    simp only [hl] at h
    cases hv : lookupSvc sm tb.dsc with
    | none => simp [hv] at h
    | some v =>
      cases v with
      | none => simp [hv] at h
      | some l =>
        simp only [hv] at h
        exact ⟨sm, l, lookupSess_some hl, lookupSvc_some hv, h⟩

/-- with unique keys the lookups see every entry -/
structure UniqueKeys (m : Model) : Prop where
  sessions : (m.map (·.1)).Nodup
  services : ∀ e ∈ m, (e.2.map (·.1)).Nodup

theorem dscOf_of_edge {tb : Tables} {m : Model} (hu : UniqueKeys m) {a : Nat} {sm : SvcMap} {l : List Nat}
    (hm : (a, sm) ∈ m) (hl : (tb.dsc, some l) ∈ sm) : dscOf tb m a = l := by
  unfold dscOf lookupSess lookupSvc
  rw [find?_of_nodup_keys hu.sessions hm]
  simp only [Option.map_some]
  rw [find?_of_nodup_keys (hu.services _ hm) hl]
  rfl

theorem reachFrom_sound (tb : Tables) (m : Model) (r : Nat) (fuel : Nat) (seen : List Nat)
    (hseen : ∀ y ∈ seen, Reach (DscEdge tb m) r y) : ∀ x ∈ reachFrom tb m fuel seen, Reach (DscEdge tb m) r x := by
  induction fuel generalizing seen with
  | zero => simpa [reachFrom] using hseen
  | succ n ih =>
    unfold reachFrom
    simp only
    split
    · exact hseen
    · apply ih
      intro y hy
      rcases List.mem_append.1 hy with hy | hy
      · exact hseen y hy
      · rcases mem_sunion.1 hy with hy | hy
        · simp at hy
        · have hy' := (List.mem_filter.1 hy).1
          obtain ⟨a, ha, hb⟩ := List.mem_flatMap.1 hy'
          exact .tail (hseen a ha) (dscOf_edge hb)

end Gallia.Randomize
