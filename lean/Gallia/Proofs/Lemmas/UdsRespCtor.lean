import Gallia.Model.UdsRespCtor
import Gallia.Proofs.Lemmas.UdsResp
/-! Lemmas for the constructor side of C02: what `construct` builds is well-formed (`Resp.WF`). -/
namespace Gallia.UdsResp
open Gallia

theorem ofNat_toNat_lt {n : Nat} (h : n < 256) : (UInt8.ofNat n).toNat = n := by
  simp; omega

theorem byteLen_pos (n : Nat) : 1 ≤ byteLen n := by
  rw [byteLen.eq_def]; split <;> omega

theorem lt_pow_byteLen (n : Nat) : n < 256 ^ byteLen n := by
  fun_induction byteLen n with
  | case1 n h => simpa using h
  | case2 n h ih =>
    rw [Nat.pow_succ]
    omega

theorem u8?_some {x : Int} {b : UInt8} (h : u8? x = some b) : 0 ≤ x ∧ x ≤ 255 ∧ b.toNat = x.toNat := by
  unfold u8? at h
  split at h
  · rename_i hx
    cases h
    exact ⟨hx.1, hx.2, ofNat_toNat_lt (by omega)⟩
  · cases h

theorem sub7?_some {x : Int} {b : UInt8} (h : sub7? x = some b) : 0 ≤ x ∧ b.toNat = x.toNat ∧ b.toNat < 0x80 := by
  unfold sub7? at h
  split at h
  · rename_i hx
    cases h
    have : (UInt8.ofNat x.toNat).toNat = x.toNat := ofNat_toNat_lt (by omega)
    exact ⟨hx.1, this, by omega⟩
  · cases h

theorem natBelow?_some {x : Int} {k n : Nat} (h : natBelow? x k = some n) : 0 ≤ x ∧ n = x.toNat ∧ n < k := by
  unfold natBelow? at h
  split at h
  · rename_i hx
    cases h
    exact ⟨hx.1, rfl, hx.2⟩
  · cases h

theorem dictRecs_lt {l : List (Int × Int)} {l'} (h : dictRecs l = some l') : ∀ p ∈ l', p.1 < 0x1000000 := by
  induction l generalizing l' with
  | nil => simp [dictRecs] at h; subst h; simp
  | cons p rest ih =>
    obtain ⟨d, s⟩ := p
    simp only [dictRecs] at h
    split at h
    · rename_i d' s' l0 hd hs hl
      cases h
      intro p hp
      simp only [List.mem_cons] at hp
      rcases hp with rfl | hp
      · exact (natBelow?_some hd).2.2
      · exact ih hl p hp
    · cases h

/-- facts about the registry rows the constructors rely on -/
theorem reg_ctor_facts : ∀ e ∈ registry,
    (e.kind = .upDownload → e.rsid = 0x74 ∨ e.rsid = 0x75) ∧
    (e.kind = .dtcExt → e.sub = some 6) ∧
    (e.kind = .dddi → e.minLen ≤ 2 → e.sub = some 3) ∧
    (∀ k, e.sub = some k → k < 0x80) := by
  decide

theorem subOf_toNat {e : Entry} {k : Nat} (h : e.sub = some k) (hk : k < 0x80) : (subOf e).toNat = k := by
  unfold subOf; rw [h]; exact ofNat_toNat_lt (by simp; omega)

theorem listFits_single {e : Entry} {n : Nat} (h : listFits e n = true) (hm : e.maxLen = some 7) : n ≤ 1 := by
  unfold listFits at h; rw [hm] at h; simp at h; omega

end Gallia.UdsResp

namespace Gallia.UdsResp
open Gallia

theorem dtcExtBody_wf {e : Entry} {dtc : Nat} {status : UInt8} {recs r} (hd : dtc < 0x1000000)
    (h : dtcExtBody e dtc status recs = some r) : r.WF := by
  unfold dtcExtBody at h
  split at h
  · cases h
  · rename_i n d rest
    split at h
    · rename_i hx
      cases ht : extTail rest with
      | none => simp [ht] at h
      | some t =>
        simp [ht] at h; subst h
        exact ⟨hd, by rw [ofNat_toNat_lt (by omega)]; omega⟩
    · cases h

/-- whatever a constructor of a registry class builds is a well-formed typed object -/
theorem constructE_wf {e : Entry} (he : e ∈ registry) {f : Fields} {r : Resp} (h : constructE e f = some r) : r.WF := by
  have hreg := reg_facts e he
  have hreg2 := reg_ctor_facts e he
  cases f with
  | neg sid nrc =>
    simp only [constructE] at h
    split at h
    · rename_i hc
      cases hs : u8? sid with
      | none => simp [hs] at h
      | some s =>
        simp [hs] at h; subst h
        show (UInt8.ofNat nrc).toNat ∈ nrcTable
        rw [ofNat_toNat_lt (nrcTable_lt nrc hc.2)]; exact hc.2
    · cases h
  | dsc ty rec =>
    simp only [constructE] at h
    split at h
    · cases hs : sub7? ty with
      | none => simp [hs] at h
      | some s => simp [hs] at h; subst h; exact (sub7?_some hs).2.2
    · cases h
  | secAccess ty rec =>
    simp only [constructE] at h
    split at h
    · cases hs : sub7? ty with
      | none => simp [hs] at h
      | some s => simp [hs] at h; subst h; exact (sub7?_some hs).2.2
    · cases h
  | commCtrl ty =>
    simp only [constructE] at h
    split at h
    · cases hs : sub7? ty with
      | none => simp [hs] at h
      | some s => simp [hs] at h; subst h; exact (sub7?_some hs).2.2
    · cases h
  | ctrlDTC ty =>
    simp only [constructE] at h
    split at h
    · cases hs : sub7? ty with
      | none => simp [hs] at h
      | some s => simp [hs] at h; subst h; exact (sub7?_some hs).2.2
    · cases h
  | ecuReset ty pdt =>
    simp only [constructE] at h
    split at h
    · split at h
      · rename_i t hs; cases h; exact (sub7?_some hs).2.2
      · rename_i t p hs
        cases hp : u8? p with
        | none => simp [hp] at h
        | some p' => simp [hp] at h; subst h; exact (sub7?_some hs).2.2
      · cases h
    · cases h
  | testerPresent =>
    simp only [constructE] at h
    split at h
    · cases h; trivial
    · cases h
  | clearDTC =>
    simp only [constructE] at h
    split at h
    · cases h; trivial
    · cases h
  | rdbi dids recs =>
    simp only [constructE] at h
    split at h
    · split at h
      · rename_i d ds r0 rs
        split at h
        · rename_i d' t hd ht
          split at h
          · rename_i hne
            cases h
            refine ⟨(natBelow?_some hd).2.2, ?_⟩
            cases r0 with
            | nil => exact absurd rfl hne
            | cons x xs => simp
          · cases h
        · cases h
      · cases h
    · cases h
  | rmba rec =>
    simp only [constructE] at h
    split at h
    · rename_i hc; cases h; exact hc.2
    · cases h
  | transferExit rec =>
    simp only [constructE] at h
    split at h
    · cases h; trivial
    · cases h
  | transferData ctr rec =>
    simp only [constructE] at h
    split at h
    · cases hs : u8? ctr with
      | none => simp [hs] at h
      | some s => simp [hs] at h; subst h; trivial
    · cases h
  | wdbi did =>
    simp only [constructE] at h
    split at h
    · cases hs : natBelow? did 0x10000 with
      | none => simp [hs] at h
      | some s => simp [hs] at h; subst h; exact (natBelow?_some hs).2.2
    · cases h
  | iocbi did rec =>
    simp only [constructE] at h
    split at h
    · rename_i hc
      cases hs : natBelow? did 0x10000 with
      | none => simp [hs] at h
      | some s => simp [hs] at h; subst h; exact ⟨(natBelow?_some hs).2.2, hc.2⟩
    · cases h
  | routine rid rec =>
    simp only [constructE] at h
    split at h
    · rename_i hc
      cases hs : natBelow? rid 0x10000 with
      | none => simp [hs] at h
      | some s =>
        simp [hs] at h; subst h
        refine ⟨?_, (natBelow?_some hs).2.2⟩
        rcases hreg.2.2.2.2 hc with h1 | h1 | h1 <;> rw [subOf_toNat h1 (by decide)] <;> simp
    · cases h
  | dddi did =>
    simp only [constructE] at h
    split at h
    · rename_i hc
      have hsub : (subOf e).toNat = 1 ∨ (subOf e).toNat = 2 ∨ (subOf e).toNat = 3 := by
        rcases hreg.2.1 hc with h1 | h1 | h1
        · left; exact subOf_toNat h1.1 (by decide)
        · right; left; exact subOf_toNat h1.1 (by decide)
        · right; right; exact subOf_toNat h1 (by decide)
      split at h
      · split at h
        · rename_i hm
          cases h
          refine ⟨hsub, fun _ => subOf_toNat (hreg2.2.2.1 hc hm) (by decide), fun d hd => (by cases hd)⟩
        · cases h
      · rename_i d
        cases hs : natBelow? d 0x10000 with
        | none => simp [hs] at h
        | some s =>
          simp [hs] at h; subst h
          refine ⟨hsub, fun hn => (by cases hn), fun d' hd' => ?_⟩
          cases hd'; exact (natBelow?_some hs).2.2
    · cases h
  | dtcCount mask fmt count =>
    simp only [constructE] at h
    split at h
    · rename_i hc
      split at h
      · rename_i m c hm hcnt
        cases h
        obtain ⟨k, hk, hsub⟩ := hreg.2.2.1 hc.1
        have hk80 := hreg2.2.2.2 k hsub
        refine ⟨by rw [subOf_toNat hsub hk80]; exact hk, ?_, (natBelow?_some hcnt).2.2⟩
        have : fmt < 256 := by
          have := hc.2; simp [dtcFormatTable] at this; omega
        rw [ofNat_toNat_lt this]; exact hc.2
      · cases h
    · cases h
  | dtcListD mask recs =>
    simp only [constructE] at h
    split at h
    · rename_i hc
      split at h
      · rename_i m l hm hl
        split at h
        · rename_i hcond
          cases h
          refine ⟨?_, dictRecs_lt hl, hcond.1⟩
          rcases hreg.2.2.2.1 hc with ⟨k, hk, hsub⟩ | ⟨⟨k, hk, hsub⟩, hmax⟩
          · left; rw [subOf_toNat hsub (hreg2.2.2.2 k hsub)]; exact hk
          · right; rw [subOf_toNat hsub (hreg2.2.2.2 k hsub)]; exact ⟨hk, listFits_single hcond.2 hmax⟩
        · cases h
      · cases h
    · cases h
  | dtcListB mask raw =>
    simp only [constructE] at h
    split at h
    · rename_i hc
      split at h
      · rename_i m l hm hl
        split at h
        · rename_i hcond
          cases h
          refine ⟨?_, parseRecs_lt hl, hcond.1⟩
          rcases hreg.2.2.2.1 hc with ⟨k, hk, hsub⟩ | ⟨⟨k, hk, hsub⟩, hmax⟩
          · left; rw [subOf_toNat hsub (hreg2.2.2.2 k hsub)]; exact hk
          · right; rw [subOf_toNat hsub (hreg2.2.2.2 k hsub)]; exact ⟨hk, listFits_single hcond.2 hmax⟩
        · cases h
      · cases h
    · cases h
  | dtcExtT dtc status recs =>
    simp only [constructE] at h
    split at h
    · split at h
      · rename_i d s hd hs
        exact dtcExtBody_wf (natBelow?_some hd).2.2 h
      · cases h
    · cases h
  | dtcExtB raw recs =>
    simp only [constructE] at h
    split at h
    · split at h
      · exact dtcExtBody_wf (fromBE3_lt _ _ _) h
      · cases h
    · cases h
  | wmba addr size alfid =>
    simp only [constructE] at h
    split at h
    · rename_i hc
      split at h
      · split at h
        · rename_i hb
          cases h
          have ha1 := byteLen_pos addr.toNat
          have hs1 := byteLen_pos size.toNat
          have hv : (UInt8.ofNat (byteLen size.toNat * 16 + byteLen addr.toNat)).toNat
              = byteLen size.toNat * 16 + byteLen addr.toNat := ofNat_toNat_lt (by omega)
          show _ ∧ _ ∧ _ ∧ _
          rw [hv]
          have h1 : (byteLen size.toNat * 16 + byteLen addr.toNat) % 16 = byteLen addr.toNat := by omega
          have h2 : (byteLen size.toNat * 16 + byteLen addr.toNat) / 16 = byteLen size.toNat := by omega
          rw [h1, h2]
          exact ⟨by omega, by omega, lt_pow_byteLen _, lt_pow_byteLen _⟩
        · cases h
      · rename_i x
        split at h
        · rename_i hx
          cases h
          have hv : (UInt8.ofNat x.toNat).toNat = x.toNat := ofNat_toNat_lt (by omega)
          show _ ∧ _ ∧ _ ∧ _
          rw [hv]
          exact ⟨hx.2.2.1, hx.2.2.2.1, hx.2.2.2.2.1, hx.2.2.2.2.2⟩
        · cases h
    · cases h
  | upDownload maxLen lfid =>
    simp only [constructE] at h
    split at h
    · rename_i hc
      have hrs : (UInt8.ofNat e.rsid = 0x74 ∨ UInt8.ofNat e.rsid = 0x75) := by
        rcases hreg2.1 hc.1 with h1 | h1 <;> rw [h1] <;> simp
      split at h
      · split at h
        · rename_i hb
          cases h
          have hs1 := byteLen_pos maxLen.toNat
          have hv : (UInt8.ofNat (byteLen maxLen.toNat * 16)).toNat = byteLen maxLen.toNat * 16 := ofNat_toNat_lt (by omega)
          show _ ∧ _ ∧ _ ∧ _
          rw [hv]
          have h2 : (byteLen maxLen.toNat * 16) / 16 = byteLen maxLen.toNat := by omega
          rw [h2]
          exact ⟨hrs, by omega, by omega, lt_pow_byteLen _⟩
        · cases h
      · rename_i x
        split at h
        · rename_i hx
          cases h
          have hv : (UInt8.ofNat x.toNat).toNat = x.toNat := ofNat_toNat_lt (by omega)
          show _ ∧ _ ∧ _ ∧ _
          rw [hv]
          exact ⟨hrs, hx.2.2.1, hx.2.2.2.1, hx.2.2.2.2⟩
        · cases h
    · cases h

theorem construct_entry {cls f r} (h : construct cls f = some r) :
    ∃ e, e ∈ registry ∧ e.cls = cls ∧ constructE e f = some r := by
  unfold construct at h
  split at h
  · rename_i e he
    exact ⟨e, List.mem_of_find?_eq_some he, by simpa using List.find?_some he, h⟩
  · cases h

theorem dtcExtBody_kind {e : Entry} {dtc status recs r} (hk : e.kind = .dtcExt) (h : dtcExtBody e dtc status recs = some r) :
    r.kind? = some e.kind := by
  unfold dtcExtBody at h
  split at h
  · cases h
  · split at h
    · rename_i n d rest hx
      cases ht : extTail rest with
      | none => simp [ht] at h
      | some t => simp [ht] at h; subst h; simp [Resp.kind?, hk]
    · cases h

theorem constructE_kind {e : Entry} {f : Fields} {r : Resp} (h : constructE e f = some r) : r.kind? = some e.kind := by
  cases f <;> simp only [constructE] at h <;> split at h <;> try (cases h; done)
  all_goals (rename_i hc)
  all_goals first
    | (simp [Option.map_eq_some_iff] at h; obtain ⟨_, _, rfl⟩ := h; simp [Resp.kind?, hc])
    | (cases h; simp [Resp.kind?, hc])
    | skip
  all_goals (repeat (split at h <;> try (cases h; done)))
  all_goals first
    | (cases h; simp [Resp.kind?, hc])
    | (simp [Option.map_eq_some_iff] at h; obtain ⟨_, _, rfl⟩ := h; simp [Resp.kind?, hc])
    | exact dtcExtBody_kind hc h
    | skip

end Gallia.UdsResp
