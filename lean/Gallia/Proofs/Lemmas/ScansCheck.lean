import Gallia.Proofs.Lemmas.Scans
/-
  `--check-session` against ECUs that lose the session silently.

  The ECU class here is much wider than `SessEcu`: answers are determined by a "session" component of the state, but
  how that component changes is left completely open (it may drop back to the default session after any request, a
  session change may be refused, hooks may do anything).  What makes the session check meaningful is only that
  * the ECU answers the `22 F1 86` read-back in every session, honestly (`ReadsBack`), and
  * answering the read-back does not itself change the session (`Keeps readSessionPdu`).
  Then a passed check *establishes* the session, and everything recorded for a service id whose own probes do not
  disturb the session (`KeepsProbes`) was answered in the session it is reported under.
-/
namespace Gallia.Scans
open Gallia

variable {σ : Type}

/-- an ECU whose answers are determined by a session component of its state; session changes are unconstrained -/
structure AnsBySession (e : Ecu σ) where
  sess : σ → Nat
  ans : Nat → Bytes → Ans
  step_ans : ∀ s p, (e.step s p).2 = ans (sess s) p

/-- the ECU answers the session read-back in every state with the session it is in -/
def ReadsBack {e : Ecu σ} (A : AnsBySession e) : Prop :=
  ∀ s, ∃ pdu, A.ans (A.sess s) readSessionPdu = .pos pdu ∧ fromBE (pdu.drop 3) = A.sess s

/-- answering request `p` never changes the session -/
def Keeps {e : Ecu σ} (A : AnsBySession e) (p : Bytes) : Prop := ∀ s, A.sess (e.step s p).1 = A.sess s

/-- no probe of service id `sid` changes the session -/
def KeepsProbes {e : Ecu σ} (A : AnsBySession e) (sid : Nat) : Prop := ∀ l, Keeps A (probePdu sid l)

/-- a session-determined ECU is one of these, keeps the session on the read-back and on all probes -/
def SessEcu.toAnsBySession {e : Ecu σ} (E : SessEcu e) : AnsBySession e := ⟨E.sess, E.ans, E.step_ans⟩

theorem SessEcu.keeps_readback {e : Ecu σ} (E : SessEcu e) : Keeps E.toAnsBySession readSessionPdu :=
  fun s => E.sess_keep s _ (by simp [readSessionPdu]) (by simp [readSessionPdu])

theorem SessEcu.keeps_probes {e : Ecu σ} (E : SessEcu e) (sid : Nat) (h : sid < 256) : KeepsProbes E.toAnsBySession sid :=
  fun l s => probe_keeps_session E s sid l h

/-- the read-back of such an ECU returns the session it is in and leaves it there -/
theorem readSession_reads {e : Ecu σ} (A : AnsBySession e) (hr : ReadsBack A) (hk : Keeps A readSessionPdu) (s : σ) :
    (readSession e s).2 = .is (A.sess s) ∧ A.sess (readSession e s).1 = A.sess s := by
  obtain ⟨pdu, h1, h2⟩ := hr s
  have hans := A.step_ans s readSessionPdu
  have hkeep := hk s
  simp only [readSession]
  cases hd : e.step s readSessionPdu with
  | mk s1 a =>
    rw [hd] at hans hkeep
    simp only [] at hans hkeep
    rw [h1] at hans
    subst hans
    exact ⟨by simp [h2], hkeep⟩

theorem checkRetry_establishes {e : Ecu σ} (A : AnsBySession e) (hr : ReadsBack A) (hk : Keeps A readSessionPdu)
    (h : Hooks) (k n : Nat) (s : σ) (hok : (checkRetry e h k n s).2 = .ok true) :
    A.sess (checkRetry e h k n s).1 = k := by
  induction n generalizing s with
  | zero => simp [checkRetry] at hok
  | succ n ih =>
    simp only [checkRetry] at hok ⊢
    cases hs : setSession e h k s with
    | mk s1 r1 =>
      rw [hs] at hok
      cases r1 with
      | raised w => simp at hok
      | ok a =>
        simp only [] at hok ⊢
        obtain ⟨h1, h2⟩ := readSession_reads A hr hk s1
        cases hrd : readSession e s1 with
        | mk s2 r2 =>
          rw [hrd] at hok h1 h2
          simp only [] at h1 h2
          subst h1
          simp only [] at hok ⊢
          by_cases hc : A.sess s1 = k
          · simp only [hc, if_true]; rw [h2, hc]
          · simp only [hc, if_false] at hok ⊢
            exact ih s2 hok

/-- **a passed session check establishes the session**: whatever the ECU did before (dropped the session silently,
    refused some re-entries, ...), when `check_and_set_session(k)` returns `True` the ECU is in session `k` -/
theorem check_establishes {e : Ecu σ} (A : AnsBySession e) (hr : ReadsBack A) (hk : Keeps A readSessionPdu)
    (h : Hooks) (k retries : Nat) (s : σ) (hok : (checkAndSetSession e h k retries s).2 = .ok true) :
    A.sess (checkAndSetSession e h k retries s).1 = k := by
  obtain ⟨h1, h2⟩ := readSession_reads A hr hk s
  simp only [checkAndSetSession] at hok ⊢
  cases hrd : readSession e s with
  | mk s2 r2 =>
    rw [hrd] at hok h1 h2
    simp only [] at h1 h2
    subst h1
    simp only [] at hok ⊢
    by_cases hc : A.sess s = k
    · simp only [hc, if_true]; rw [h2, hc]
    · simp only [hc, if_false] at hok ⊢
      exact checkRetry_establishes A hr hk h k _ s2 hok

/-- ... and a failed one (`False`) means the read-back said "not in session `k`" after every one of the
    `retries + 1` attempts to re-enter it -/
theorem checkRetry_fails {e : Ecu σ} (A : AnsBySession e) (hr : ReadsBack A) (hk : Keeps A readSessionPdu)
    (h : Hooks) (k n : Nat) (s : σ) (hok : (checkRetry e h k n s).2 = .ok false) :
    A.sess (checkRetry e h k n s).1 ≠ k ∨ n = 0 := by
  induction n generalizing s with
  | zero => exact Or.inr rfl
  | succ n ih =>
    left
    simp only [checkRetry] at hok ⊢
    cases hs : setSession e h k s with
    | mk s1 r1 =>
      rw [hs] at hok
      cases r1 with
      | raised w => simp at hok
      | ok a =>
        simp only [] at hok ⊢
        obtain ⟨h1, h2⟩ := readSession_reads A hr hk s1
        cases hrd : readSession e s1 with
        | mk s2 r2 =>
          rw [hrd] at hok h1 h2
          simp only [] at h1 h2
          subst h1
          simp only [] at hok ⊢
          by_cases hc : A.sess s1 = k
          · simp [hc] at hok
          · simp only [hc, if_false] at hok ⊢
            rcases ih s2 hok with h' | h'
            · exact h'
            · subst h'
              simp only [checkRetry]
              rw [h2]; exact hc

/-! ### the probe loop when the probes of the service id keep the session -/

theorem probeLens_keeps {e : Ecu σ} (A : AnsBySession e) (sid : Nat) (hkp : KeepsProbes A sid) (ls : List Nat) (s : σ) :
    A.sess (probeLens e sid ls s).1 = A.sess s :=
  probeLens_inv e (fun s' => A.sess s' = A.sess s) sid ls (fun s' l _ h => by rw [hkp l s']; exact h) s rfl

/-- whatever the probe loop records for a service id whose probes keep the session is the ECU's answer, in the
    session the loop started in, to a probe of that service id, and it is a meaningful answer -/
theorem probeLens_some_keeps {e : Ecu σ} (A : AnsBySession e) (sid : Nat) (hkp : KeepsProbes A sid) (ls : List Nat)
    (s : σ) (a : Ans) (c : Bool) (h : (probeLens e sid ls s).2 = .ok (some a, c)) :
    ∃ l ∈ ls, a = A.ans (A.sess s) (probePdu sid l) ∧ a.meaningful = true := by
  induction ls generalizing s c with
  | nil => simp [probeLens] at h
  | cons l ls ih =>
    have hk := hkp l s
    have hans := A.step_ans s (probePdu sid l)
    have hrec : ∀ c', (probeLens e sid ls (e.step s (probePdu sid l)).1).2 = .ok (some a, c') →
        ∃ l' ∈ l :: ls, a = A.ans (A.sess s) (probePdu sid l') ∧ a.meaningful = true := by
      intro c' h'
      obtain ⟨l', hl', h1, h2⟩ := ih _ c' h'
      exact ⟨l', by simp [hl'], by rw [h1, hk], h2⟩
    simp only [probeLens] at h
    cases hd : e.step s (probePdu sid l) with
    | mk s1 a1 =>
      rw [hd] at h hrec hans
      simp only [] at hans
      cases a1 with
      | timeout => exact hrec c h
      | stuck => simp at h
      | illegal =>
        simp only [] at h
        cases hp : probeLens e sid ls s1 with
        | mk s2 r2 =>
          rw [hp] at h hrec
          cases r2 with
          | raised w => simp at h
          | ok v =>
            obtain ⟨r, c2⟩ := v
            simp only [R.ok.injEq, Prod.mk.injEq] at h
            exact hrec c2 (by simp [h.1])
      | pos p =>
        simp only [R.ok.injEq, Prod.mk.injEq, Option.some.injEq] at h
        exact ⟨l, by simp, by rw [← h.1, hans], by rw [← h.1]; rfl⟩
      | neg code =>
        simp only [] at h
        split at h
        · simp at h
        · rename_i hns
          split at h
          · exact hrec c h
          · rename_i hne
            simp only [R.ok.injEq, Prod.mk.injEq, Option.some.injEq] at h
            refine ⟨l, by simp, by rw [← h.1, hans], ?_⟩
            have hns' : ¬ code ∈ serviceNotSupportedCodes := by simpa using hns
            rw [← h.1]; simp [Ans.meaningful, hns', hne]

/-- `perform_scan(k)` with `--check-session` on an ECU that reads its session back honestly: every recorded service id
    whose own probes keep the session was answered **in session `k`** by a meaningful answer — no matter where the
    ECU was when the scan started, how often it lost the session in between, and whether the scan was given up -/
theorem performScanFrom_checked {e : Ecu σ} (A : AnsBySession e) (hr : ReadsBack A) (hk : Keeps A readSessionPdu)
    (cfg : SvcCfg) (hc : cfg.checkSession = true) (k : Nat) (sids : List Nat) (s : σ) (out : ScanOut)
    (hout : (performScanFrom e cfg (some k) sids s).2 = .ok out) :
    ∀ p ∈ out.found, KeepsProbes A p.1 →
      p.1 ∈ sids ∧ sidSelected cfg (some k) p.1 = true ∧
      ∃ l ∈ probeLengths, p.2 = A.ans k (probePdu p.1 l) ∧ p.2.meaningful = true := by
  induction sids generalizing s out with
  | nil =>
    simp only [performScanFrom, R.ok.injEq] at hout
    subst hout; simp
  | cons sid rest ih =>
    simp only [performScanFrom] at hout
    by_cases hsel : sidSelected cfg (some k) sid = true
    · simp only [hsel, Bool.not_true, Bool.false_eq_true, ite_false] at hout
      have hchk : sessionCheck e cfg (some k) s = checkAndSetSession e cfg.hooks k checkRetries s := by
        simp [sessionCheck, hc]
      rw [hchk] at hout
      have hest := check_establishes A hr hk cfg.hooks k checkRetries s
      cases hcs : checkAndSetSession e cfg.hooks k checkRetries s with
      | mk s0 r0 =>
        rw [hcs] at hout hest
        cases r0 with
        | raised w => simp at hout
        | ok okv =>
          cases okv with
          | false =>
            simp only [R.ok.injEq] at hout
            subst hout; simp
          | true =>
            simp only [] at hout
            have h0 : A.sess s0 = k := hest rfl
            cases hp : probeLens e sid probeLengths s0 with
            | mk s1 r1 =>
              rw [hp] at hout
              cases r1 with
              | raised w => simp at hout
              | ok v =>
                obtain ⟨r, c⟩ := v
                simp only [] at hout
                cases hq : performScanFrom e cfg (some k) rest s1 with
                | mk s2 r2 =>
                  rw [hq] at hout
                  cases r2 with
                  | raised w => simp at hout
                  | ok out' =>
                    simp only [R.ok.injEq] at hout
                    subst hout
                    intro p hpm hkp
                    simp only [List.mem_append] at hpm
                    rcases hpm with hpm | hpm
                    · cases r with
                      | none => simp at hpm
                      | some a =>
                        simp at hpm; subst hpm
                        obtain ⟨l, hl, ha, hm⟩ := probeLens_some_keeps A sid hkp probeLengths s0 a c (by rw [hp])
                        rw [h0] at ha
                        exact ⟨by simp, hsel, l, hl, ha, hm⟩
                    · obtain ⟨a1, a2⟩ := ih s1 out' (by rw [hq]) p hpm hkp
                      exact ⟨by simp [a1], a2⟩
    · have hsel' : sidSelected cfg (some k) sid = false := by simpa using hsel
      simp only [hsel', Bool.not_false, ite_true] at hout
      intro p hpm hkp
      obtain ⟨a1, a2⟩ := ih s out hout p hpm hkp
      exact ⟨by simp [a1], a2⟩

/-- an ECU that is never in session `k` (it lost the session for good: every read-back says so) gets nothing
    reported under `k` by a checked scan -/
theorem performScanFrom_never_in_session {e : Ecu σ} (A : AnsBySession e) (hr : ReadsBack A) (hk : Keeps A readSessionPdu)
    (cfg : SvcCfg) (hc : cfg.checkSession = true) (k : Nat) (hnever : ∀ s, A.sess s ≠ k)
    (sids : List Nat) (s : σ) (out : ScanOut)
    (hout : (performScanFrom e cfg (some k) sids s).2 = .ok out) : out.found = [] := by
  induction sids generalizing s out with
  | nil =>
    simp only [performScanFrom, R.ok.injEq] at hout
    subst hout; rfl
  | cons sid rest ih =>
    simp only [performScanFrom] at hout
    by_cases hsel : sidSelected cfg (some k) sid = true
    · simp only [hsel, Bool.not_true, Bool.false_eq_true, ite_false] at hout
      have hchk : sessionCheck e cfg (some k) s = checkAndSetSession e cfg.hooks k checkRetries s := by
        simp [sessionCheck, hc]
      rw [hchk] at hout
      have hest := check_establishes A hr hk cfg.hooks k checkRetries s
      cases hcs : checkAndSetSession e cfg.hooks k checkRetries s with
      | mk s0 r0 =>
        rw [hcs] at hout hest
        cases r0 with
        | raised w => simp at hout
        | ok okv =>
          cases okv with
          | false =>
            simp only [R.ok.injEq] at hout
            subst hout; rfl
          | true => exact absurd (hest rfl) (hnever s0)
    · have hsel' : sidSelected cfg (some k) sid = false := by simpa using hsel
      simp only [hsel', Bool.not_false, ite_true] at hout
      exact ih s out hout

/-- a scan that was given up is marked unclean (exit status 1) -/
theorem performScanFrom_aborted_unclean (e : Ecu σ) (cfg : SvcCfg) (session : Option Nat) (sids : List Nat) (s : σ)
    (out : ScanOut) (hout : (performScanFrom e cfg session sids s).2 = .ok out) (sid : Nat)
    (hab : out.abortedAt = some sid) : out.clean = false ∧ sid ∈ sids ∧ sidSelected cfg session sid = true := by
  induction sids generalizing s out with
  | nil =>
    simp only [performScanFrom, R.ok.injEq] at hout
    subst hout; cases hab
  | cons sid' rest ih =>
    simp only [performScanFrom] at hout
    by_cases hsel : sidSelected cfg session sid' = true
    · simp only [hsel, Bool.not_true, Bool.false_eq_true, ite_false] at hout
      cases hcs : sessionCheck e cfg session s with
      | mk s0 r0 =>
        rw [hcs] at hout
        cases r0 with
        | raised w => simp at hout
        | ok okv =>
          cases okv with
          | false =>
            simp only [R.ok.injEq] at hout
            subst hout
            simp only [Option.some.injEq] at hab
            subst hab
            exact ⟨rfl, by simp, hsel⟩
          | true =>
            simp only [] at hout
            cases hp : probeLens e sid' probeLengths s0 with
            | mk s1 r1 =>
              rw [hp] at hout
              cases r1 with
              | raised w => simp at hout
              | ok v =>
                obtain ⟨r, c⟩ := v
                simp only [] at hout
                cases hq : performScanFrom e cfg session rest s1 with
                | mk s2 r2 =>
                  rw [hq] at hout
                  cases r2 with
                  | raised w => simp at hout
                  | ok out' =>
                    simp only [R.ok.injEq] at hout
                    subst hout
                    obtain ⟨a1, a2, a3⟩ := ih s1 out' (by rw [hq]) hab
                    exact ⟨by simp [a1], by simp [a2], a3⟩
    · have hsel' : sidSelected cfg session sid' = false := by simpa using hsel
      simp only [hsel', Bool.not_false, ite_true] at hout
      obtain ⟨a1, a2, a3⟩ := ih s out hout hab
      exact ⟨a1, by simp [a2], a3⟩


/-! ### in which session every probe reaches the ECU -/

/-- the same ECU, remembering for every request the session it was in when the request arrived (newest first) -/
def slogged {e : Ecu σ} (A : AnsBySession e) : Ecu (σ × List (Nat × Bytes)) where
  step s p := (((e.step s.1 p).1, (A.sess s.1, p) :: s.2), (e.step s.1 p).2)

def sloggedAns {e : Ecu σ} (A : AnsBySession e) : AnsBySession (slogged A) :=
  ⟨fun s => A.sess s.1, A.ans, fun s p => A.step_ans s.1 p⟩

theorem probePdu_inj {a c l m : Nat} (h : probePdu a l = probePdu c m) : b a = b c ∧ l = m := by
  simp only [probePdu, List.cons.injEq] at h
  refine ⟨h.1, ?_⟩
  have := congrArg List.length h.2
  simpa using this

theorem keepsProbes_congr {e : Ecu σ} (A : AnsBySession e) {a c : Nat} (h : b a = b c) (hk : KeepsProbes A a) :
    KeepsProbes A c := by
  intro l s
  have : probePdu c l = probePdu a l := by simp [probePdu, h]
  rw [this]; exact hk l s

/-- a logged request that has the shape of a probe arrived in session `k` — if it is the first (1-byte) probe of a
    service id, or a probe of a service id whose probes keep the session -/
def InClaimed {e : Ecu σ} (A : AnsBySession e) (k : Nat) (x : Nat × Bytes) : Prop :=
  ∀ sid l, x.2 = probePdu sid l → (l = 1 ∨ KeepsProbes A sid) → x.1 = k

/-- since log `lg` the annotated log grew by entries satisfying `InClaimed` only -/
def GrewClaimed {e : Ecu σ} (A : AnsBySession e) (k : Nat) (lg : List (Nat × Bytes)) (st : σ × List (Nat × Bytes)) : Prop :=
  ∃ new, st.2 = new ++ lg ∧ ∀ x ∈ new, InClaimed A k x

theorem GrewClaimed.step {e : Ecu σ} (A : AnsBySession e) (k : Nat) (lg : List (Nat × Bytes))
    (st : σ × List (Nat × Bytes)) (p : Bytes) (hp : InClaimed A k (A.sess st.1, p)) (h : GrewClaimed A k lg st) :
    GrewClaimed A k lg ((slogged A).step st p).1 := by
  obtain ⟨new, h1, h2⟩ := h
  refine ⟨(A.sess st.1, p) :: new, by simp [slogged, h1], ?_⟩
  intro x hx
  simp only [List.mem_cons] at hx
  rcases hx with rfl | hx
  · exact hp
  · exact h2 x hx

theorem probeLens_claimed_tail {e : Ecu σ} (A : AnsBySession e) (k sid : Nat) (lg : List (Nat × Bytes))
    (ls : List Nat) (hls : ∀ l ∈ ls, l ≠ 1) (st : σ × List (Nat × Bytes))
    (hs : KeepsProbes A sid → A.sess st.1 = k) (h : GrewClaimed A k lg st) :
    GrewClaimed A k lg (probeLens (slogged A) sid ls st).1 := by
  induction ls generalizing st with
  | nil => simpa [probeLens] using h
  | cons l ls ih =>
    have hgood : InClaimed A k (A.sess st.1, probePdu sid l) := by
      intro sid' l' heq hor
      obtain ⟨hb, hl⟩ := probePdu_inj heq
      rcases hor with rfl | hkp
      · exact absurd hl (hls l (by simp))
      · exact hs (keepsProbes_congr A hb.symm hkp)
    have h1 := GrewClaimed.step A k lg st _ hgood h
    have hs' : KeepsProbes A sid → A.sess ((slogged A).step st (probePdu sid l)).1.1 = k := by
      intro hkp
      show A.sess (e.step st.1 (probePdu sid l)).1 = k
      rw [hkp l st.1]; exact hs hkp
    have ih' := ih (fun l' hl' => hls l' (by simp [hl'])) _ hs' h1
    simp only [probeLens]
    cases hd : (slogged A).step st (probePdu sid l) with
    | mk s1 a =>
      rw [hd] at h1 ih'
      cases a with
      | pos p => exact h1
      | timeout => exact ih'
      | stuck => exact h1
      | illegal =>
        simp only []
        cases hp : probeLens (slogged A) sid ls s1 with
        | mk s2 r2 =>
          rw [hp] at ih'
          cases r2 <;> exact ih'
      | neg c =>
        simp only []
        split
        · exact h1
        · split
          · exact ih'
          · exact h1

theorem probeLens_claimed_cons {e : Ecu σ} (A : AnsBySession e) (k sid : Nat) (lg : List (Nat × Bytes))
    (tl : List Nat) (htl : ∀ l ∈ tl, l ≠ 1)
    (st : σ × List (Nat × Bytes)) (hs : A.sess st.1 = k) (h : GrewClaimed A k lg st) :
    GrewClaimed A k lg (probeLens (slogged A) sid (1 :: tl) st).1 := by
  have hgood : InClaimed A k (A.sess st.1, probePdu sid 1) := fun _ _ _ _ => hs
  have h1 := GrewClaimed.step A k lg st _ hgood h
  have hs' : KeepsProbes A sid → A.sess ((slogged A).step st (probePdu sid 1)).1.1 = k := by
    intro hkp
    show A.sess (e.step st.1 (probePdu sid 1)).1 = k
    rw [hkp 1 st.1]; exact hs
  have ih' := probeLens_claimed_tail A k sid lg tl htl _ hs' h1
  simp only [probeLens]
  cases hd : (slogged A).step st (probePdu sid 1) with
  | mk s1 a =>
    rw [hd] at h1 ih'
    cases a with
    | pos p => exact h1
    | timeout => exact ih'
    | stuck => exact h1
    | illegal =>
      simp only []
      cases hp : probeLens (slogged A) sid tl s1 with
      | mk s2 r2 =>
        rw [hp] at ih'
        cases r2 <;> exact ih'
    | neg c =>
      simp only []
      split
      · exact h1
      · split
        · exact ih'
        · exact h1

theorem probeLens_claimed {e : Ecu σ} (A : AnsBySession e) (k sid : Nat) (lg : List (Nat × Bytes))
    (st : σ × List (Nat × Bytes)) (hs : A.sess st.1 = k) (h : GrewClaimed A k lg st) :
    GrewClaimed A k lg (probeLens (slogged A) sid probeLengths st).1 :=
  probeLens_claimed_cons A k sid lg [2, 3, 5] (by decide) st hs h

/-- the requests of the session check of session `k` are not probe-shaped: `k` is a real session id and the hooks of
    `k` send no `sid 00 ..` requests -/
def MaintNotProbe (h : Hooks) (k : Nat) : Prop :=
  k ≠ 0 ∧ k < 256 ∧ ∀ p, (p ∈ h.pre k ∨ p ∈ h.post k) → ∀ sid l, p ≠ probePdu sid l

theorem maint_not_probe {h : Hooks} {k : Nat} (hm : MaintNotProbe h k) (p : Bytes) (hp : MaintReq h k p)
    (sid l : Nat) : p ≠ probePdu sid l := by
  obtain ⟨hk0, hk, hh⟩ := hm
  rcases hp with rfl | rfl | hp | hp
  · intro heq
    simp only [readSessionPdu, probePdu, List.cons.injEq] at heq
    cases l with
    | zero => simp at heq
    | succ l => simp [List.replicate_succ] at heq
  · intro heq
    simp only [dscPdu, probePdu, List.cons.injEq] at heq
    cases l with
    | zero => simp at heq
    | succ l =>
      simp only [List.replicate_succ, List.cons.injEq] at heq
      have := congrArg UInt8.toNat heq.2.1
      simp [b] at this
      omega
  · exact hh p (Or.inl hp) sid l
  · exact hh p (Or.inr hp) sid l

/-- `perform_scan(k)` with `--check-session` on an ECU that reads its session back honestly: **every first probe of a
    service id, and every probe of a service id whose probes keep the session, reaches the ECU in session `k`** —
    whatever the ECU did to its session before or in between, and also when the scan is given up or dies -/
theorem performScanFrom_claimed {e : Ecu σ} (A : AnsBySession e) (hr : ReadsBack A) (hk : Keeps A readSessionPdu)
    (cfg : SvcCfg) (hc : cfg.checkSession = true) (k : Nat) (hm : MaintNotProbe cfg.hooks k)
    (sids : List Nat) (st : σ × List (Nat × Bytes)) :
    GrewClaimed A k st.2 (performScanFrom (slogged A) cfg (some k) sids st).1 := by
  have hr' : ReadsBack (sloggedAns A) := fun s => hr s.1
  have hk' : Keeps (sloggedAns A) readSessionPdu := fun s => hk s.1
  suffices H : ∀ lg (st : σ × List (Nat × Bytes)), GrewClaimed A k lg st →
      GrewClaimed A k lg (performScanFrom (slogged A) cfg (some k) sids st).1 from H st.2 st ⟨[], by simp, by simp⟩
  intro lg
  induction sids with
  | nil => intro st h; simpa [performScanFrom] using h
  | cons sid rest ih =>
    intro st h
    simp only [performScanFrom]
    split
    · exact ih st h
    · have hchk : sessionCheck (slogged A) cfg (some k) st = checkAndSetSession (slogged A) cfg.hooks k checkRetries st := by
        simp [sessionCheck, hc]
      rw [hchk]
      have h0 : GrewClaimed A k lg (checkAndSetSession (slogged A) cfg.hooks k checkRetries st).1 :=
        checkAndSetSession_inv (slogged A) (GrewClaimed A k lg) cfg.hooks k checkRetries
          (fun s p hp hs => GrewClaimed.step A k lg s p
            (fun sid' l' heq _ => absurd heq (maint_not_probe hm p hp sid' l')) hs) st h
      have hest := check_establishes (sloggedAns A) hr' hk' cfg.hooks k checkRetries st
      cases hcs : checkAndSetSession (slogged A) cfg.hooks k checkRetries st with
      | mk s0 r0 =>
        rw [hcs] at h0 hest
        cases r0 with
        | raised w => exact h0
        | ok okv =>
          cases okv with
          | false => exact h0
          | true =>
            simp only []
            have hs0 : A.sess s0.1 = k := hest rfl
            have h1 := probeLens_claimed A k sid lg s0 hs0 h0
            cases hp : probeLens (slogged A) sid probeLengths s0 with
            | mk s1 r1 =>
              rw [hp] at h1
              cases r1 with
              | raised w => exact h1
              | ok v =>
                obtain ⟨r, c⟩ := v
                simp only []
                have h2 := ih s1 h1
                cases hq : performScanFrom (slogged A) cfg (some k) rest s1 with
                | mk s2 r2 =>
                  rw [hq] at h2
                  cases r2 <;> exact h2


/-- a failed session check anywhere in the run makes the exit status 1 -/
theorem svcSessions_aborted_unclean (e : Ecu σ) (cfg : SvcCfg) (ks : List Nat) (s : σ) (r : SvcResult)
    (hr : (svcSessions e cfg ks s).2 = .ok r) (hab : r.aborted ≠ []) : r.clean = false := by
  induction ks generalizing s r with
  | nil =>
    simp only [svcSessions, R.ok.injEq] at hr
    subst hr; simp at hab
  | cons k rest ih =>
    have skip : ∀ s1 (r' : SvcResult),
        (match svcSessions e cfg rest s1 with
          | (s4, .raised w) => (s4, R.raised w)
          | (s4, .ok r) => (s4, R.ok (⟨r.result, false, r.aborted⟩ : SvcResult))).2 = .ok r' → r'.clean = false := by
      intro s1 r' h'
      cases hq : svcSessions e cfg rest s1 with
      | mk s4 r4 =>
        rw [hq] at h'
        cases r4 with
        | raised w => simp at h'
        | ok r4 =>
          simp only [R.ok.injEq] at h'
          subst h'; rfl
    simp only [svcSessions] at hr
    cases hs : setSession e cfg.hooks k s with
    | mk s1 r1 =>
      rw [hs] at hr
      cases r1 with
      | raised w => exact skip s1 r hr
      | ok a =>
        cases a with
        | neg c => exact skip s1 r hr
        | timeout => exact skip s1 r hr
        | illegal => exact skip s1 r hr
        | stuck => exact skip s1 r hr
        | pos pp =>
          simp only [] at hr
          cases hp : performScan e cfg (some k) s1 with
          | mk s2 r2 =>
            rw [hp] at hr
            cases r2 with
            | raised w => simp at hr
            | ok out =>
              simp only [] at hr
              cases h3 : resetAfter e cfg.reset s2 with
              | mk s3 r3 =>
                rw [h3] at hr
                cases r3 with
                | raised w => simp at hr
                | ok u =>
                  simp only [] at hr
                  cases hq : svcSessions e cfg rest s3 with
                  | mk s4 r4 =>
                    rw [hq] at hr
                    cases r4 with
                    | raised w => simp at hr
                    | ok r4 =>
                      simp only [R.ok.injEq] at hr
                      subst hr
                      simp only [Bool.and_eq_false_iff]
                      cases hab' : out.abortedAt with
                      | some sid =>
                        left
                        exact (performScanFrom_aborted_unclean e cfg (some k) allSids s1 out
                          (by unfold performScan at hp; rw [hp]) sid hab').1
                      | none =>
                        right
                        apply ih s3 r4 (by rw [hq])
                        simpa [hab'] using hab

end Gallia.Scans
