import Gallia.Model.Config
/-
  Helper lemmas for C18: digit strings (`Nat.toDigits`) parse back, hex text parses back, list helpers.
-/
namespace Gallia.Config
open Gallia

/-! ### digits -/

theorem digitChar_facts : ∀ d, d < 16 →
    unhexDigit (Nat.digitChar d) = some d ∧ (Nat.digitChar d == '_') = false ∧ isWs (Nat.digitChar d) = false ∧
    (Nat.digitChar d == '-') = false ∧ (Nat.digitChar d == '+') = false := by decide

theorem digitChar_ne_zero : ∀ d, d < 16 → 0 < d → (Nat.digitChar d == '0') = false := by decide

/-- appending one more digit to an underscore-free digit string -/
theorem parseDigits_snoc (b d : Nat) (hd : d < b) (hb : b ≤ 16) :
    ∀ (s : Str) (acc : Nat), (∀ c ∈ s, (c == '_') = false) →
      parseDigits b acc false (s ++ [Nat.digitChar d]) = (parseDigits b acc false s).map (fun v => v * b + d) := by
  intro s
  induction s with
  | nil =>
    intro acc _
    obtain ⟨h1, h2, _⟩ := digitChar_facts d (by omega)
    simp [parseDigits, h1, h2, hd]
  | cons c s ih =>
    intro acc hs
    have hc : (c == '_') = false := hs c (by simp)
    have hs' : ∀ c ∈ s, (c == '_') = false := fun x hx => hs x (by simp [hx])
    simp only [List.cons_append, parseDigits, hc]
    cases hu : unhexDigit c with
    | none => simp
    | some x =>
      by_cases hx : x < b
      · simp [hx, ih _ hs']
      · simp [hx]

/-- every character of `toDigits b n` is a digit character below 16, and the string parses back to `n` -/
theorem toDigits_spec (b : Nat) (hb : 1 < b) (hb16 : b ≤ 16) :
    ∀ n, (∀ c ∈ Nat.toDigits b n, ∃ d, d < 16 ∧ c = Nat.digitChar d) ∧
         parseDigits b 0 false (Nat.toDigits b n) = some n := by
  intro n
  induction n using Nat.strongRecOn with
  | _ n ih =>
    rw [Nat.toDigits_eq_if hb]
    by_cases h : n < b
    · simp only [h, if_true]
      refine ⟨?_, ?_⟩
      · intro c hc
        simp at hc
        exact ⟨n, by omega, hc⟩
      · have := parseDigits_snoc b n h hb16 [] 0 (by simp)
        simpa [parseDigits] using this
    · simp only [h, if_false]
      have hlt : n / b < n := Nat.div_lt_self (by omega) hb
      obtain ⟨ihm, ihp⟩ := ih (n / b) hlt
      have hmod : n % b < b := Nat.mod_lt n (by omega)
      refine ⟨?_, ?_⟩
      · intro c hc
        rcases List.mem_append.mp hc with hc | hc
        · exact ihm c hc
        · simp at hc
          exact ⟨n % b, by omega, hc⟩
      · have hnu : ∀ c ∈ Nat.toDigits b (n / b), (c == '_') = false := by
          intro c hc
          obtain ⟨d, hd, rfl⟩ := ihm c hc
          exact (digitChar_facts d hd).2.1
        rw [parseDigits_snoc b (n % b) hmod hb16 _ 0 hnu, ihp]
        simp only [Option.map_some]
        congr 1
        rw [Nat.mul_comm]
        exact Nat.div_add_mod n b

theorem parseDigits_toDigits (b : Nat) (hb : 1 < b) (hb16 : b ≤ 16) (n : Nat) :
    parseDigits b 0 false (Nat.toDigits b n) = some n := (toDigits_spec b hb hb16 n).2

theorem toDigits_mem (b : Nat) (hb : 1 < b) (hb16 : b ≤ 16) (n : Nat) {c : Char} (hc : c ∈ Nat.toDigits b n) :
    ∃ d, d < 16 ∧ c = Nat.digitChar d := (toDigits_spec b hb hb16 n).1 c hc

/-- a positive number's decimal text starts with a non-zero digit -/
theorem toDigits_head (n : Nat) (hn : 0 < n) :
    ∃ c t, Nat.toDigits 10 n = c :: t ∧ (c == '0') = false ∧ (c == '_') = false ∧ (c == '-') = false ∧ (c == '+') = false := by
  induction n using Nat.strongRecOn with
  | _ n ih =>
    rw [Nat.toDigits_eq_if (by omega)]
    by_cases h : n < 10
    · simp only [h, if_true]
      obtain ⟨_, h2, _, h4, h5⟩ := digitChar_facts n (by omega)
      exact ⟨_, [], rfl, digitChar_ne_zero n (by omega) hn, h2, h4, h5⟩
    · simp only [h, if_false]
      obtain ⟨c, t, e, hc⟩ := ih (n / 10) (Nat.div_lt_self (by omega) (by omega)) (Nat.div_pos (by omega) (by omega))
      exact ⟨c, t ++ [Nat.digitChar (n % 10)], by simp [e], hc⟩

/-! ### stripping -/

theorem dropWhile_noop {α} (p : α → Bool) (l : List α) (h : ∀ x ∈ l, p x = false) : l.dropWhile p = l := by
  cases l with
  | nil => rfl
  | cons a l => simp [List.dropWhile, h a (by simp)]

theorem strip_noWs (s : Str) (h : ∀ c ∈ s, isWs c = false) : strip s = s := by
  unfold strip
  rw [dropWhile_noop _ _ h, dropWhile_noop _ _ (by intro c hc; exact h c (List.mem_reverse.mp hc)), List.reverse_reverse]

theorem toDigits_noWs (b : Nat) (hb : 1 < b) (hb16 : b ≤ 16) (n : Nat) : ∀ c ∈ Nat.toDigits b n, isWs c = false := by
  intro c hc
  obtain ⟨d, hd, rfl⟩ := toDigits_mem b hb hb16 n hc
  exact (digitChar_facts d hd).2.2.1

/-! ### hex text -/

theorem unhexDigit_hexDigit : ∀ n, n < 16 → unhexDigit (hexDigit n) = some n := by decide

theorem byte_join (b : UInt8) : UInt8.ofNat (b.toNat / 16 * 16 + b.toNat % 16) = b := by
  have h : b.toNat / 16 * 16 + b.toNat % 16 = b.toNat := by omega
  rw [h]
  simp

theorem unhexChars_hexOf (b : Bytes) : unhexChars (hexOf b) = some b := by
  induction b with
  | nil => rfl
  | cons x xs ih =>
    have h1 : x.toNat / 16 < 16 := by have := x.toNat_lt; omega
    have h2 : x.toNat % 16 < 16 := Nat.mod_lt _ (by omega)
    simp only [hexOf, List.flatMap_cons, hexByte, List.cons_append, List.nil_append] at *
    simp only [unhexChars, unhexDigit_hexDigit _ h1, unhexDigit_hexDigit _ h2, ih, byte_join]

/-! ### list helpers -/

theorem allSome_map_some {α β} (f : α → β) (l : List α) : allSome (l.map (fun a => some (f a))) = some (l.map f) := by
  induction l with
  | nil => rfl
  | cons a l ih => simp [allSome, ih]

theorem allSome_atomInt (l : List Int) : allSome ((l.map Atom.int).map atomInt?) = some l := by
  induction l with
  | nil => rfl
  | cons a l ih =>
    simp only [List.map_cons, allSome, atomInt?] at *
    rw [ih]; rfl

theorem allSome_atomStr_int (a : Int) (l : List Int) : allSome (((a :: l).map Atom.int).map atomStr?) = none := by
  simp [allSome, atomStr?]

theorem allSome_autoInts (l : List Int) : allSome ((l.map Atom.int).map atomAutoInt) = some l := by
  induction l with
  | nil => rfl
  | cons a l ih =>
    simp only [List.map_cons, allSome, atomAutoInt] at *
    rw [ih]; rfl

/-- a stored list of enum values (integers, all members) is read back element by element -/
theorem parseEach_enums (ms : List (Str × Int)) (l : List Int) (h : l.all (fun i => ms.any (·.2 == i)) = true) :
    parseEach (enumElem ms) (l.map Atom.int) = .ok l := by
  induction l with
  | nil => rfl
  | cons a l ih =>
    simp only [List.all_cons, Bool.and_eq_true] at h
    have h1 : enumElem ms (.int a) = .ok a := by simp only [enumElem, enumLookup, h.1, if_true]
    simp only [List.map_cons, parseEach, h1]
    rw [ih h.2]

theorem lookupJ_store_skip (n x : Str) (v : Val) (rest : List (Str × Val)) (h : x ≠ n) :
    lookupJ n (store ((x, v) :: rest)) = lookupJ n (store rest) := by
  have : (x == n) = false := by simpa using h
  simp [store, lookupJ, this]

end Gallia.Config
