import Gallia.Model.Config
/-
  Helper lemmas for C18: digit strings (`Nat.toDigits`) parse back, hex text parses back, list helpers.
-/
namespace Gallia.Config
open Gallia

/-! ### digits -/

theorem digitChar_facts : ∀ d, d < 16 →
    unhexDigit (Nat.digitChar d) = some d ∧ (Nat.digitChar d == '_') = false ∧ isWs (Nat.digitChar d) = false ∧
    (Nat.digitChar d == '-') = false ∧ (Nat.digitChar d == '+') = false := by decide

theorem digitChar_ne_zero : ∀ d, d < 16 → 0 < d → (Nat.digitChar d == '0') = false := by decide

/-- appending one more digit to an underscore-free digit string -/
theorem parseDigits_snoc (b d : Nat) (hd : d < b) (hb : b ≤ 16) :
    ∀ (s : Str) (acc : Nat), (∀ c ∈ s, (c == '_') = false) →
      parseDigits b acc false (s ++ [Nat.digitChar d]) = (parseDigits b acc false s).map (fun v => v * b + d) := by
  intro s
  induction s with
  | nil =>
    intro acc _
    obtain ⟨h1, h2, _⟩ := digitChar_facts d (by omega)
    simp [parseDigits, h1, h2, hd]
  | cons c s ih =>
    intro acc hs
    have hc : (c == '_') = false := hs c (by simp)
    have hs' : ∀ c ∈ s, (c == '_') = false := fun x hx => hs x (by simp [hx])
    simp only [List.cons_append, parseDigits, hc]
    cases hu : unhexDigit c with
    | none => simp
    | some x =>
      by_cases hx : x < b
      · simp [hx, ih _ hs']
      · simp [hx]

/-- every character of `toDigits b n` is a digit character below 16, and the string parses back to `n` -/
theorem toDigits_spec (b : Nat) (hb : 1 < b) (hb16 : b ≤ 16) :
    ∀ n, (∀ c ∈ Nat.toDigits b n, ∃ d, d < 16 ∧ c = Nat.digitChar d) ∧
         parseDigits b 0 false (Nat.toDigits b n) = some n := by
  intro n
  induction n using Nat.strongRecOn with
  | _ n ih =>
    rw [Nat.toDigits_eq_if hb]
    by_cases h : n < b
    · simp only [h, if_true]
      refine ⟨?_, ?_⟩
      · intro c hc
        simp at hc
        exact ⟨n, by omega, hc⟩
      · have := parseDigits_snoc b n h hb16 [] 0 (by simp)
        simpa [parseDigits] using this
    · simp only [h, if_false]
      have hlt : n / b < n := Nat.div_lt_self (by omega) hb
      obtain ⟨ihm, ihp⟩ := ih (n / b) hlt
      have hmod : n % b < b := Nat.mod_lt n (by omega)
      refine ⟨?_, ?_⟩
      · intro c hc
        rcases List.mem_append.mp hc with hc | hc
        · exact ihm c hc
        · simp at hc
          exact ⟨n % b, by omega, hc⟩
      · have hnu : ∀ c ∈ Nat.toDigits b (n / b), (c == '_') = false := by
          intro c hc
          obtain ⟨d, hd, rfl⟩ := ihm c hc
          exact (digitChar_facts d hd).2.1
        rw [parseDigits_snoc b (n % b) hmod hb16 _ 0 hnu, ihp]
        simp only [Option.map_some]
        congr 1
        rw [Nat.mul_comm]
        exact Nat.div_add_mod n b

theorem parseDigits_toDigits (b : Nat) (hb : 1 < b) (hb16 : b ≤ 16) (n : Nat) :
    parseDigits b 0 false (Nat.toDigits b n) = some n := (toDigits_spec b hb hb16 n).2

theorem toDigits_mem (b : Nat) (hb : 1 < b) (hb16 : b ≤ 16) (n : Nat) {c : Char} (hc : c ∈ Nat.toDigits b n) :
    ∃ d, d < 16 ∧ c = Nat.digitChar d := (toDigits_spec b hb hb16 n).1 c hc

/-- a positive number's decimal text starts with a non-zero digit -/
theorem toDigits_head (n : Nat) (hn : 0 < n) :
    ∃ c t, Nat.toDigits 10 n = c :: t ∧ (c == '0') = false ∧ (c == '_') = false ∧ (c == '-') = false ∧ (c == '+') = false := by
  induction n using Nat.strongRecOn with
  | _ n ih =>
    rw [Nat.toDigits_eq_if (by omega)]
    by_cases h : n < 10
    · simp only [h, if_true]
      obtain ⟨_, h2, _, h4, h5⟩ := digitChar_facts n (by omega)
      exact ⟨_, [], rfl, digitChar_ne_zero n (by omega) hn, h2, h4, h5⟩
    · simp only [h, if_false]
      obtain ⟨c, t, e, hc⟩ := ih (n / 10) (Nat.div_lt_self (by omega) (by omega)) (Nat.div_pos (by omega) (by omega))
      exact ⟨c, t ++ [Nat.digitChar (n % 10)], by simp [e], hc⟩

/-! ### stripping -/

theorem dropWhile_noop {α} (p : α → Bool) (l : List α) (h : ∀ x ∈ l, p x = false) : l.dropWhile p = l := by
  cases l with
  | nil => rfl
  | cons a l => simp [List.dropWhile, h a (by simp)]

theorem strip_noWs (s : Str) (h : ∀ c ∈ s, isWs c = false) : strip s = s := by
  unfold strip
  rw [dropWhile_noop _ _ h, dropWhile_noop _ _ (by intro c hc; exact h c (List.mem_reverse.mp hc)), List.reverse_reverse]

theorem toDigits_noWs (b : Nat) (hb : 1 < b) (hb16 : b ≤ 16) (n : Nat) : ∀ c ∈ Nat.toDigits b n, isWs c = false := by
  intro c hc
  obtain ⟨d, hd, rfl⟩ := toDigits_mem b hb hb16 n hc
  exact (digitChar_facts d hd).2.2.1

/-! ### hex text -/

theorem unhexDigit_hexDigit : ∀ n, n < 16 → unhexDigit (hexDigit n) = some n := by decide

theorem byte_join (b : UInt8) : UInt8.ofNat (b.toNat / 16 * 16 + b.toNat % 16) = b := by
  have h : b.toNat / 16 * 16 + b.toNat % 16 = b.toNat := by omega
  rw [h]
  simp

theorem unhexChars_hexOf (b : Bytes) : unhexChars (hexOf b) = some b := by
  induction b with
  | nil => rfl
  | cons x xs ih =>
    have h1 : x.toNat / 16 < 16 := by have := x.toNat_lt; omega
    have h2 : x.toNat % 16 < 16 := Nat.mod_lt _ (by omega)
    simp only [hexOf, List.flatMap_cons, hexByte, List.cons_append, List.nil_append] at *
    simp only [unhexChars, unhexDigit_hexDigit _ h1, unhexDigit_hexDigit _ h2, ih, byte_join]

/-! ### list helpers -/

theorem allSome_map_some {α β} (f : α → β) (l : List α) : allSome (l.map (fun a => some (f a))) = some (l.map f) := by
  induction l with
  | nil => rfl
  | cons a l ih => simp [allSome, ih]

theorem allSome_atomInt (l : List Int) : allSome ((l.map Atom.int).map atomInt?) = some l := by
  induction l with
  | nil => rfl
  | cons a l ih =>
    simp only [List.map_cons, allSome, atomInt?] at *
    rw [ih]; rfl

theorem allSome_atomStr_int (a : Int) (l : List Int) : allSome (((a :: l).map Atom.int).map atomStr?) = none := by
  simp [allSome, atomStr?]

theorem allSome_autoInts (l : List Int) : allSome ((l.map Atom.int).map atomAutoInt) = some l := by
  induction l with
  | nil => rfl
  | cons a l ih =>
    simp only [List.map_cons, allSome, atomAutoInt] at *
    rw [ih]; rfl

/-! ### digits of any base up to 16; signs -/

theorem toDigits_head_b (b : Nat) (hb : 1 < b) (hb16 : b ≤ 16) (n : Nat) (hn : 0 < n) :
    ∃ c t, Nat.toDigits b n = c :: t ∧ (c == '0') = false ∧ (c == '_') = false ∧ (c == '-') = false ∧ (c == '+') = false := by
  induction n using Nat.strongRecOn with
  | _ n ih =>
    rw [Nat.toDigits_eq_if hb]
    by_cases h : n < b
    · simp only [h, if_true]
      obtain ⟨_, h2, _, h4, h5⟩ := digitChar_facts n (by omega)
      exact ⟨_, [], rfl, digitChar_ne_zero n (by omega) hn, h2, h4, h5⟩
    · simp only [h, if_false]
      obtain ⟨c, t, e, hc⟩ := ih (n / b) (Nat.div_lt_self (by omega) hb) (Nat.div_pos (by omega) (by omega))
      exact ⟨c, t ++ [Nat.digitChar (n % b)], by simp [e], hc⟩

theorem toDigits_isEmpty (b n : Nat) : (Nat.toDigits b n).isEmpty = false := by
  cases h : Nat.toDigits b n with
  | nil => exact absurd h Nat.toDigits_ne_nil
  | cons _ _ => rfl

/-- a magnitude text without white space and without a sign of its own, read through `withSign ∘ strip` -/
theorem signed_of_mag (f : Str → Option Nat) (s : Str) (n : Nat) (hws : ∀ c ∈ s, isWs c = false) (hm : f s = some n)
    (hsign : ∀ c t, s = c :: t → (c == '-') = false ∧ (c == '+') = false) :
    withSign f (strip s) = some (Int.ofNat n) ∧ withSign f (strip ('-' :: s)) = some (-(Int.ofNat n)) ∧
    withSign f (strip ('+' :: s)) = some (Int.ofNat n) := by
  have hm' : isWs '-' = false := by decide
  have hp' : isWs '+' = false := by decide
  rw [strip_noWs s hws, strip_noWs ('-' :: s) (by intro c hc; rcases List.mem_cons.mp hc with rfl | h; exact hm'; exact hws c h),
    strip_noWs ('+' :: s) (by intro c hc; rcases List.mem_cons.mp hc with rfl | h; exact hp'; exact hws c h)]
  cases s with
  | nil => simp [withSign, hm]
  | cons c t =>
    obtain ⟨h1, h2⟩ := hsign c t rfl
    refine ⟨?_, ?_, ?_⟩
    · simp only [withSign, h1, h2]; simp [hm]
    · simp [withSign, hm]
    · simp [withSign, hm]

/-! ### `int(x, 16)` -/

theorem parseMag16_digits (n : Nat) : parseMag16 (Nat.toDigits 16 n) = some n := by
  by_cases hn : n = 0
  · subst hn; decide +kernel
  · obtain ⟨c, t, e, h0, hu, _, _⟩ := toDigits_head_b 16 (by omega) (by omega) n (by omega)
    have hp := parseDigits_toDigits 16 (by omega) (by omega) n
    rw [e] at hp ⊢
    unfold parseMag16
    split
    · rename_i p rest heq
      injection heq with hc _
      subst hc
      simp at h0
    · simp [hu, hp]

theorem parseMag16_prefixed (n : Nat) : parseMag16 ('0' :: 'x' :: Nat.toDigits 16 n) = some n ∧
    parseMag16 ('0' :: 'X' :: Nat.toDigits 16 n) = some n := by
  have hp := parseDigits_toDigits 16 (by omega) (by omega) n
  have he := toDigits_isEmpty 16 n
  constructor <;> simp [parseMag16, he, hp]

/-! ### pydantic's lax `str -> int` on plain decimal text -/

theorem isDigit_not_special (c : Char) (h : c.isDigit = true) :
    (c != '.') = true ∧ (c == '_') = false ∧ (c == '-') = false ∧ (c == '+') = false ∧ isWs c = false := by
  have h1 : c ≠ '.' := by rintro rfl; exact absurd h (by decide)
  have h2 : c ≠ '_' := by rintro rfl; exact absurd h (by decide)
  have h3 : c ≠ '-' := by rintro rfl; exact absurd h (by decide)
  have h4 : c ≠ '+' := by rintro rfl; exact absurd h (by decide)
  have h5 : isWs c = false := by
    simp only [Char.isDigit, Bool.and_eq_true, decide_eq_true_eq] at h
    have hv : 48 ≤ c.toNat := by
      have := h.1
      exact UInt32.le_iff_toNat_le.mp this
    simp only [isWs, Bool.or_eq_false_iff]
    refine ⟨⟨⟨⟨⟨?_, ?_⟩, ?_⟩, ?_⟩, ?_⟩, ?_⟩
    · apply beq_false_of_ne; rintro rfl; simp at hv
    · apply beq_false_of_ne; rintro rfl; simp at hv
    · apply beq_false_of_ne; rintro rfl; simp at hv
    · apply beq_false_of_ne; rintro rfl; simp at hv
    · apply beq_false_of_ne; omega
    · apply beq_false_of_ne; omega
  exact ⟨by simpa using h1, by simpa using h2, by simpa using h3, by simpa using h4, h5⟩

theorem toDigits10_isDigit (n : Nat) : ∀ c ∈ Nat.toDigits 10 n, c.isDigit = true :=
  fun _ hc => Nat.isDigit_of_mem_toDigits (by omega) (by omega) hc

theorem dropWhile_all {α} (p : α → Bool) (l : List α) (h : ∀ x ∈ l, p x = true) : l.dropWhile p = [] := by
  induction l with
  | nil => rfl
  | cons a l ih => simp [List.dropWhile, h a (by simp), ih (fun x hx => h x (by simp [hx]))]

theorem takeWhile_all {α} (p : α → Bool) (l : List α) (h : ∀ x ∈ l, p x = true) : l.takeWhile p = l := by
  induction l with
  | nil => rfl
  | cons a l ih => simp [List.takeWhile, h a (by simp), ih (fun x hx => h x (by simp [hx]))]

/-- the cleaning steps leave a plain decimal numeral alone, and the JSON integer syntax reads it -/
theorem laxSteps_decimal (n : Nat) :
    stripLeadingZeros (Nat.toDigits 10 n) = some (Nat.toDigits 10 n) ∧
    stripDecimalZeros (Nat.toDigits 10 n) = Nat.toDigits 10 n ∧
    stripUnderscores (Nat.toDigits 10 n) = Nat.toDigits 10 n ∧
    jsonNat (Nat.toDigits 10 n) = some n := by
  have hdig := toDigits10_isDigit n
  have hp := parseDigits_toDigits 10 (by omega) (by omega) n
  have hall : (Nat.toDigits 10 n).all Char.isDigit = true := List.all_eq_true.mpr hdig
  have hdot : ∀ c ∈ Nat.toDigits 10 n, (c != '.') = true := fun c hc => (isDigit_not_special c (hdig c hc)).1
  have hus : (Nat.toDigits 10 n).contains '_' = false := by
    apply Bool.eq_false_iff.mpr
    intro hc
    exact absurd (hdig _ (List.contains_iff_mem.mp hc)) (by decide)
  refine ⟨?_, ?_, ?_, ?_⟩
  · by_cases hn : n = 0
    · subst hn; decide +kernel
    · obtain ⟨c, t, e, h0, _, _, _⟩ := toDigits_head_b 10 (by omega) (by omega) n (by omega)
      have hc : c.isDigit = true := hdig c (by rw [e]; simp)
      rw [e]
      have hne : c ≠ '0' := by simpa using h0
      have hnz : isNzDigit c = true := by simp [isNzDigit, hc, hne]
      simp [stripLeadingZeros, h0, hnz]
  · simp [stripDecimalZeros, dropWhile_all _ _ hdot]
  · have := hus
    simp [stripUnderscores]
  · by_cases hn : n = 0
    · subst hn; decide +kernel
    · obtain ⟨c, t, e, h0, _, _, _⟩ := toDigits_head_b 10 (by omega) (by omega) n (by omega)
      rw [e] at hall hp ⊢
      simp [jsonNat, hall, h0, hp]

/-- a stored list of enum values (integers, all members) is read back element by element -/
theorem parseEach_enums (ms : List (Str × Int)) (l : List Int) (h : l.all (fun i => ms.any (·.2 == i)) = true) :
    parseEach (enumElem ms) (l.map Atom.int) = .ok l := by
  induction l with
  | nil => rfl
  | cons a l ih =>
    simp only [List.all_cons, Bool.and_eq_true] at h
    have h1 : enumElem ms (.int a) = .ok a := by simp only [enumElem, enumLookup, h.1, if_true]
    simp only [List.map_cons, parseEach, h1]
    rw [ih h.2]

theorem lookupJ_store_skip (n x : Str) (v : Val) (rest : List (Str × Val)) (h : x ≠ n) :
    lookupJ n (store ((x, v) :: rest)) = lookupJ n (store rest) := by
  have : (x == n) = false := by simpa using h
  simp [store, lookupJ, this]

end Gallia.Config
