import Gallia.Proofs.Lemmas.ScansLog
/-
  How many requests a scan can send at most (termination with an explicit bound), for ANY ECU with a request log:
  every function of the model extends the log by at most `N * cost` entries, `N` the bound of `Logs` (1 for exchanges,
  `max_retry + 1` for transmissions).
-/
namespace Gallia.Scans
open Gallia

variable {σ : Type}

/-- between `s` and `s'` the log grew by at most `N * m` entries -/
def Within (log : σ → List Bytes) (N : Nat) (s s' : σ) (m : Nat) : Prop :=
  (log s').length ≤ (log s).length + N * m

theorem Within.refl (log : σ → List Bytes) (N : Nat) (s : σ) : Within log N s s 0 := by
  simp [Within]

theorem Within.step {e : Ecu σ} {log : σ → List Bytes} {N : Nat} (L : Logs e log N) (s : σ) (p : Bytes) :
    Within log N s (e.step s p).1 1 := by
  obtain ⟨n, _, hn, h⟩ := L.step_log s p
  simp only [Within, h, List.length_append, List.length_replicate]
  omega

theorem Within.trans {log : σ → List Bytes} {N : Nat} {s s1 s2 : σ} {a c : Nat}
    (h1 : Within log N s s1 a) (h2 : Within log N s1 s2 c) : Within log N s s2 (a + c) := by
  simp only [Within] at *
  rw [Nat.mul_add]
  omega

theorem Within.mono {log : σ → List Bytes} {N : Nat} {s s' : σ} {a c : Nat} (hac : a ≤ c)
    (h : Within log N s s' a) : Within log N s s' c := by
  simp only [Within] at *
  have := Nat.mul_le_mul_left N hac
  omega

theorem runHook_within {e : Ecu σ} {log : σ → List Bytes} {N : Nat} (L : Logs e log N) (ps : List Bytes) (s : σ) :
    Within log N s (runHook e ps s).1 ps.length := by
  induction ps generalizing s with
  | nil => exact Within.refl _ _ _
  | cons p ps ih =>
    have h1 := Within.step L s p
    simp only [runHook]
    split
    · exact Within.mono (by simp) h1
    · exact Within.mono (by simp; omega) (Within.trans h1 (ih _))

def hookCost (h : Hooks) (k : Nat) : Nat := (h.pre k).length + (h.post k).length

/-- `set_session(k)`: the hook requests and `10 k` -/
def setCost (h : Hooks) (k : Nat) : Nat := hookCost h k + 1

theorem setSession_within {e : Ecu σ} {log : σ → List Bytes} {N : Nat} (L : Logs e log N) (h : Hooks) (k : Nat) (s : σ) :
    Within log N s (setSession e h k s).1 (setCost h k) := by
  have h0 := runHook_within L (h.pre k) s
  simp only [setSession]
  cases hr : runHook e (h.pre k) s with
  | mk s0 r0 =>
    rw [hr] at h0
    cases r0 with
    | raised w => exact Within.mono (by simp [setCost, hookCost]; omega) h0
    | ok u =>
      simp only []
      have h1 := Within.trans h0 (Within.step L s0 (dscPdu k))
      cases hd : e.step s0 (dscPdu k) with
      | mk s1 a =>
        rw [hd] at h1
        have hm : (h.pre k).length + 1 ≤ setCost h k := by simp only [setCost, hookCost]; omega
        cases a with
        | pos p =>
          simp only []
          have h2 := Within.trans h1 (runHook_within L (h.post k) s1)
          cases hp : runHook e (h.post k) s1 with
          | mk s2 r2 =>
            rw [hp] at h2
            have hm2 : (h.pre k).length + 1 + (h.post k).length ≤ setCost h k := by simp [setCost, hookCost]; omega
            cases r2 <;> exact Within.mono hm2 h2
        | neg c => exact Within.mono hm h1
        | timeout => exact Within.mono hm h1
        | illegal => exact Within.mono hm h1
        | stuck => exact Within.mono hm h1

theorem readSession_within {e : Ecu σ} {log : σ → List Bytes} {N : Nat} (L : Logs e log N) (s : σ) :
    Within log N s (readSession e s).1 1 := by
  have h1 := Within.step L s readSessionPdu
  simp only [readSession]
  cases hd : e.step s readSessionPdu with
  | mk s1 a =>
    rw [hd] at h1
    cases a <;> exact h1

theorem checkRetry_within {e : Ecu σ} {log : σ → List Bytes} {N : Nat} (L : Logs e log N) (h : Hooks) (k n : Nat) (s : σ) :
    Within log N s (checkRetry e h k n s).1 (n * (setCost h k + 1)) := by
  induction n generalizing s with
  | zero => simpa [checkRetry] using Within.refl log N s
  | succ n ih =>
    have h1 := setSession_within L h k s
    have hm : ∀ x, x ≤ setCost h k + 1 → x ≤ (n + 1) * (setCost h k + 1) := by
      intro x hx; rw [Nat.succ_mul]; omega
    simp only [checkRetry]
    cases hs : setSession e h k s with
    | mk s1 r1 =>
      rw [hs] at h1
      cases r1 with
      | raised w => exact Within.mono (hm _ (by omega)) h1
      | ok a =>
        simp only []
        have h2 := Within.trans h1 (readSession_within L s1)
        cases hr : readSession e s1 with
        | mk s2 r2 =>
          rw [hr] at h2
          cases r2 with
          | is cur =>
            simp only []
            split
            · exact Within.mono (hm _ (by omega)) h2
            · exact Within.mono (by rw [Nat.succ_mul]; omega) (Within.trans h2 (ih s2))
          | skipCheck => exact Within.mono (hm _ (by omega)) h2
          | raise w => exact Within.mono (hm _ (by omega)) h2

/-- `check_and_set_session(k, retries)`: one read-back, then at most `retries + 1` rounds of `set_session` + read-back -/
def checkCost (h : Hooks) (k retries : Nat) : Nat := 1 + (retries + 1) * (setCost h k + 1)

theorem checkAndSetSession_within {e : Ecu σ} {log : σ → List Bytes} {N : Nat} (L : Logs e log N) (h : Hooks)
    (k retries : Nat) (s : σ) : Within log N s (checkAndSetSession e h k retries s).1 (checkCost h k retries) := by
  have h1 := readSession_within L s
  simp only [checkAndSetSession]
  cases hr : readSession e s with
  | mk s2 r2 =>
    rw [hr] at h1
    cases r2 with
    | is cur =>
      simp only []
      split
      · exact Within.mono (by simp only [checkCost]; omega) h1
      · exact Within.trans h1 (checkRetry_within L h k _ s2)
    | skipCheck => exact Within.mono (by simp only [checkCost]; omega) h1
    | raise w => exact Within.mono (by simp only [checkCost]; omega) h1

/-- `wait_for_ecu` with a budget of `n` half seconds sends fewer than `n` pings -/
theorem waitForEcu_within {e : Ecu σ} {log : σ → List Bytes} {N : Nat} (L : Logs e log N) (n : Nat) (s : σ) :
    Within log N s (waitForEcu e n s).1 (n - 1) := by
  induction n using Nat.strongRecOn generalizing s with
  | _ n ih =>
    match n with
    | 0 => simpa [waitForEcu] using Within.refl log N s
    | 1 => simpa [waitForEcu] using Within.refl log N s
    | n+2 =>
      have h1 := Within.step L s pingPdu
      simp only [waitForEcu]
      cases hd : e.step s pingPdu with
      | mk s1 a =>
        rw [hd] at h1
        cases a with
        | pos p => exact Within.mono (by omega) h1
        | neg c => exact Within.mono (by omega) h1
        | stuck => exact Within.mono (by omega) h1
        | illegal => exact Within.mono (by omega) (Within.trans h1 (ih (n+1) (by omega) s1))
        | timeout => exact Within.mono (by omega) (Within.trans h1 (ih n (by omega) s1))

theorem probeLens_within {e : Ecu σ} {log : σ → List Bytes} {N : Nat} (L : Logs e log N) (sid : Nat) (ls : List Nat)
    (s : σ) : Within log N s (probeLens e sid ls s).1 ls.length := by
  induction ls generalizing s with
  | nil => simpa [probeLens] using Within.refl log N s
  | cons l ls ih =>
    have h1 := Within.step L s (probePdu sid l)
    have hgo : ∀ s1, Within log N s s1 1 → Within log N s (probeLens e sid ls s1).1 (l :: ls).length := by
      intro s1 h
      exact Within.mono (by simp; omega) (Within.trans h (ih s1))
    have hstop : ∀ s1, Within log N s s1 1 → Within log N s s1 (l :: ls).length :=
      fun s1 h => Within.mono (by simp) h
    simp only [probeLens]
    cases hd : e.step s (probePdu sid l) with
    | mk s1 a =>
      rw [hd] at h1
      cases a with
      | pos p => exact hstop s1 h1
      | stuck => exact hstop s1 h1
      | timeout => exact hgo s1 h1
      | illegal =>
        simp only []
        have := hgo s1 h1
        cases hp : probeLens e sid ls s1 with
        | mk s2 r2 =>
          rw [hp] at this
          cases r2 <;> exact this
      | neg c =>
        simp only []
        split
        · exact hstop s1 h1
        · split
          · exact hgo s1 h1
          · exact hstop s1 h1

/-- requests per service id: the session check (when it applies) and the four probes -/
def sidCost (cfg : SvcCfg) (session : Option Nat) : Nat :=
  (match session with
   | some k => if cfg.checkSession then checkCost cfg.hooks k checkRetries else 0
   | none => 0) + probeLengths.length

theorem sessionCheck_within {e : Ecu σ} {log : σ → List Bytes} {N : Nat} (L : Logs e log N) (cfg : SvcCfg)
    (session : Option Nat) (s : σ) :
    Within log N s (sessionCheck e cfg session s).1 (sidCost cfg session - probeLengths.length) := by
  unfold sessionCheck sidCost
  cases session with
  | none => simpa using Within.refl log N s
  | some k =>
    simp only []
    by_cases hc : cfg.checkSession = true
    · simp only [hc, if_true]
      exact Within.mono (by omega) (checkAndSetSession_within L cfg.hooks k checkRetries s)
    · simp only [hc]
      simpa using Within.refl log N s

theorem performScanFrom_within {e : Ecu σ} {log : σ → List Bytes} {N : Nat} (L : Logs e log N) (cfg : SvcCfg)
    (session : Option Nat) (sids : List Nat) (s : σ) :
    Within log N s (performScanFrom e cfg session sids s).1 (sids.length * sidCost cfg session) := by
  induction sids generalizing s with
  | nil => simpa [performScanFrom] using Within.refl log N s
  | cons sid rest ih =>
    have hm : ∀ x, x ≤ sidCost cfg session → x ≤ (sid :: rest).length * sidCost cfg session := by
      intro x hx; simp only [List.length_cons, Nat.succ_mul]; omega
    have hpl : probeLengths.length ≤ sidCost cfg session := by simp [sidCost]
    simp only [performScanFrom]
    split
    · exact Within.mono (by simp only [List.length_cons, Nat.succ_mul]; omega) (ih s)
    · have h0 := sessionCheck_within L cfg session s
      cases hc : sessionCheck e cfg session s with
      | mk s0 r0 =>
        rw [hc] at h0
        cases r0 with
        | raised w => exact Within.mono (hm _ (by omega)) h0
        | ok okv =>
          cases okv with
          | false => exact Within.mono (hm _ (by omega)) h0
          | true =>
            simp only []
            have h1 := Within.trans h0 (probeLens_within L sid probeLengths s0)
            have hle : sidCost cfg session - probeLengths.length + probeLengths.length ≤ sidCost cfg session := by omega
            cases hp : probeLens e sid probeLengths s0 with
            | mk s1 r1 =>
              rw [hp] at h1
              cases r1 with
              | raised w => exact Within.mono (hm _ hle) h1
              | ok v =>
                obtain ⟨r, c⟩ := v
                simp only []
                have h2 := Within.trans h1 (ih s1)
                cases hq : performScanFrom e cfg session rest s1 with
                | mk s2 r2 =>
                  rw [hq] at h2
                  have : sidCost cfg session - probeLengths.length + probeLengths.length + rest.length * sidCost cfg session
                      ≤ (sid :: rest).length * sidCost cfg session := by
                    simp only [List.length_cons, Nat.succ_mul]; omega
                  cases r2 <;> exact Within.mono this h2

/-- the `--reset` block: the reset request and fewer than `waitBudget` pings -/
def resetCost : Nat := waitBudget

theorem resetAfter_within {e : Ecu σ} {log : σ → List Bytes} {N : Nat} (L : Logs e log N) (level : Option Nat) (s : σ) :
    Within log N s (resetAfter e level s).1 resetCost := by
  cases level with
  | none => exact Within.mono (Nat.zero_le _) (by simpa [resetAfter] using Within.refl log N s)
  | some l =>
    have h1 := Within.step L s (resetPdu l)
    have hm : 1 ≤ resetCost := by decide
    simp only [resetAfter]
    cases hd : e.step s (resetPdu l) with
    | mk s1 a =>
      rw [hd] at h1
      cases a with
      | neg c => exact Within.mono hm h1
      | timeout => exact Within.mono hm h1
      | illegal => exact Within.mono hm h1
      | stuck => exact Within.mono hm h1
      | pos p =>
        simp only []
        have h2 := Within.trans h1 (waitForEcu_within L waitBudget s1)
        cases hw : waitForEcu e waitBudget s1 with
        | mk s2 r2 =>
          rw [hw] at h2
          have : 1 + (waitBudget - 1) ≤ resetCost := by decide
          cases r2 <;> exact Within.mono this h2

/-- requests per session of the service scan -/
def sessionCost (cfg : SvcCfg) (k : Nat) : Nat := setCost cfg.hooks k + 256 * sidCost cfg (some k) + resetCost

/-- an upper bound for the number of exchanges of the whole service scan over the session list `ks` -/
def svcBound (cfg : SvcCfg) (ks : List Nat) : Nat := (ks.map (sessionCost cfg)).sum

theorem svcSessions_within {e : Ecu σ} {log : σ → List Bytes} {N : Nat} (L : Logs e log N) (cfg : SvcCfg)
    (ks : List Nat) (s : σ) : Within log N s (svcSessions e cfg ks s).1 (svcBound cfg ks) := by
  induction ks generalizing s with
  | nil => simpa [svcSessions, svcBound] using Within.refl log N s
  | cons k rest ih =>
    have hb : svcBound cfg (k :: rest) = sessionCost cfg k + svcBound cfg rest := by simp [svcBound]
    have h1 := setSession_within L cfg.hooks k s
    have hskip : ∀ s1, Within log N s s1 (setCost cfg.hooks k) →
        Within log N s (match svcSessions e cfg rest s1 with
          | (s4, .raised w) => (s4, R.raised w)
          | (s4, .ok r) => (s4, R.ok (⟨r.result, false, r.aborted⟩ : SvcResult))).1 (svcBound cfg (k :: rest)) := by
      intro s1 hs1
      have := Within.trans hs1 (ih s1)
      cases hq : svcSessions e cfg rest s1 with
      | mk s4 r4 =>
        rw [hq] at this
        have hle : setCost cfg.hooks k + svcBound cfg rest ≤ svcBound cfg (k :: rest) := by
          rw [hb]; simp only [sessionCost]; omega
        cases r4 <;> exact Within.mono hle this
    simp only [svcSessions]
    cases hs : setSession e cfg.hooks k s with
    | mk s1 r1 =>
      rw [hs] at h1
      cases r1 with
      | raised w => exact hskip s1 h1
      | ok a =>
        cases a with
        | neg c => exact hskip s1 h1
        | timeout => exact hskip s1 h1
        | illegal => exact hskip s1 h1
        | stuck => exact hskip s1 h1
        | pos p =>
          simp only []
          have h2 := Within.trans h1 (performScanFrom_within L cfg (some k) allSids s1)
          have hlen : allSids.length = 256 := by simp [allSids]
          rw [hlen] at h2
          have hA : setCost cfg.hooks k + 256 * sidCost cfg (some k) ≤ svcBound cfg (k :: rest) := by
            rw [hb]; simp only [sessionCost]; omega
          cases hp : performScan e cfg (some k) s1 with
          | mk s2 r2 =>
            unfold performScan at hp
            rw [hp] at h2
            cases r2 with
            | raised w => exact Within.mono hA h2
            | ok out =>
              simp only []
              have h3 := Within.trans h2 (resetAfter_within L cfg.reset s2)
              have hB : setCost cfg.hooks k + 256 * sidCost cfg (some k) + resetCost ≤ svcBound cfg (k :: rest) := by
                rw [hb]; simp only [sessionCost]; omega
              cases hr : resetAfter e cfg.reset s2 with
              | mk s3 r3 =>
                rw [hr] at h3
                cases r3 with
                | raised w => exact Within.mono hB h3
                | ok u =>
                  simp only []
                  have h4 := Within.trans h3 (ih s3)
                  cases hq : svcSessions e cfg rest s3 with
                  | mk s4 r4 =>
                    rw [hq] at h4
                    have hC : setCost cfg.hooks k + 256 * sidCost cfg (some k) + resetCost + svcBound cfg rest
                        ≤ svcBound cfg (k :: rest) := by rw [hb]; simp only [sessionCost]; omega
                    cases r4 <;> exact Within.mono hC h4

end Gallia.Scans
