import Gallia.Model.DbTables
/-
  Helper lemmas for C11, the other tables: statements keep the foreign keys resolved and the primary keys unique, ids only
  grow; the invariant that ties the handler object, the write queue and the tables together.
-/
namespace Gallia.DbTables
open Gallia

/-! ### ids -/

theorem foldl_max_ge (ids : List Nat) (a : Nat) : a ≤ ids.foldl max a := by
  induction ids generalizing a with
  | nil => exact Nat.le_refl _
  | cons x xs ih => exact Nat.le_trans (Nat.le_max_left a x) (ih _)

theorem le_foldl_max (ids : List Nat) (a : Nat) : ∀ x ∈ ids, x ≤ ids.foldl max a := by
  induction ids generalizing a with
  | nil => simp
  | cons y ys ih =>
    intro x hx
    simp only [List.mem_cons] at hx
    rcases hx with hx | hx
    · subst hx
      exact Nat.le_trans (Nat.le_max_right a x) (foldl_max_ge ys _)
    · exact ih _ x hx

/-- a new id is larger than every id in the table, hence fresh -/
theorem lt_nextId (ids : List Nat) : ∀ x ∈ ids, x < nextId ids := by
  intro x hx
  have := le_foldl_max ids 0 x hx
  unfold nextId
  omega

theorem nextId_not_mem (ids : List Nat) : nextId ids ∉ ids := by
  intro h
  have := lt_nextId ids _ h
  omega

theorem nodup_append_nextId (ids : List Nat) (h : ids.Nodup) : (ids ++ [nextId ids]).Nodup := by
  rw [List.nodup_append]
  refine ⟨h, by simp, ?_⟩
  intro a ha b hb
  simp at hb
  subst hb
  intro hab
  exact nextId_not_mem ids (hab ▸ ha)

/-! ### tables only grow -/

structure Tables.Le (t t' : Tables) : Prop where
  runMeta : ∀ x ∈ t.runMeta, x ∈ t'.runMeta
  address : ∀ x ∈ t.addressIds, x ∈ t'.addressIds
  scanRun : ∀ x ∈ t.scanRunIds, x ∈ t'.scanRunIds
  discoveryRun : ∀ x ∈ t.discoveryRunIds, x ∈ t'.discoveryRunIds

theorem Tables.Le.refl (t : Tables) : t.Le t := ⟨fun _ h => h, fun _ h => h, fun _ h => h, fun _ h => h⟩

theorem Tables.Le.trans {a b c : Tables} (h1 : a.Le b) (h2 : b.Le c) : a.Le c :=
  ⟨fun x h => h2.runMeta x (h1.runMeta x h), fun x h => h2.address x (h1.address x h),
   fun x h => h2.scanRun x (h1.scanRun x h), fun x h => h2.discoveryRun x (h1.discoveryRun x h)⟩

theorem addrId_mem (t : Tables) (url a : Nat) (h : t.addrId url = some a) : a ∈ t.addressIds := by
  unfold Tables.addrId at h
  cases hf : t.address.find? (fun x => x.2 == url) with
  | none => simp [hf] at h
  | some p =>
    simp [hf] at h
    subst h
    have := List.mem_of_find?_eq_some hf
    exact List.mem_map_of_mem this

theorem run_le (t t' : Tables) (st : Stmt) (id : Nat) (h : t.run st = some (t', id)) : t.Le t' := by
  cases st with
  | insRunMeta =>
    simp only [Tables.run, Option.some.injEq, Prod.mk.injEq] at h
    obtain ⟨h1, _⟩ := h; subst h1
    exact ⟨fun x hx => by simp [hx], fun _ h => h, fun _ h => h, fun _ h => h⟩
  | insAddress url =>
    simp only [Tables.run] at h
    split at h
    · simp at h; obtain ⟨h1, _⟩ := h; subst h1; exact Tables.Le.refl _
    · simp at h; obtain ⟨h1, _⟩ := h; subst h1
      exact ⟨fun _ h => h, fun x hx => by simp [Tables.addressIds] at hx ⊢; exact Or.inl hx, fun _ h => h, fun _ h => h⟩
  | insScanRun url m =>
    simp only [Tables.run] at h
    split at h
    · simp at h; obtain ⟨h1, _⟩ := h; subst h1
      exact ⟨fun _ h => h, fun _ h => h, fun x hx => by simp [Tables.scanRunIds] at hx ⊢; exact Or.inl hx, fun _ h => h⟩
    · simp at h
  | insDiscoveryRun m =>
    simp only [Tables.run] at h
    split at h
    · simp at h; obtain ⟨h1, _⟩ := h; subst h1
      exact ⟨fun _ h => h, fun _ h => h, fun _ h => h, fun x hx => by simp [Tables.discoveryRunIds] at hx ⊢; exact Or.inl hx⟩
    · simp at h
  | insDiscoveryResult url run =>
    simp only [Tables.run] at h
    split at h
    · split at h
      · simp at h; obtain ⟨h1, _⟩ := h; subst h1; exact ⟨fun _ h => h, fun _ h => h, fun _ h => h, fun _ h => h⟩
      · simp at h
    · simp at h
  | insScanResult run p =>
    cases run with
    | none => simp [Tables.run] at h
    | some r =>
      simp only [Tables.run] at h
      split at h
      · simp at h; obtain ⟨h1, _⟩ := h; subst h1; exact ⟨fun _ h => h, fun _ h => h, fun _ h => h, fun _ h => h⟩
      · simp at h
  | insSessionTransition run d =>
    cases run with
    | none => simp [Tables.run] at h
    | some r =>
      simp only [Tables.run] at h
      split at h
      · simp at h; obtain ⟨h1, _⟩ := h; subst h1; exact ⟨fun _ h => h, fun _ h => h, fun _ h => h, fun _ h => h⟩
      · simp at h
  | update =>
    simp only [Tables.run, Option.some.injEq, Prod.mk.injEq] at h
    obtain ⟨h1, _⟩ := h; subst h1; exact Tables.Le.refl _

/-! ### statements keep the foreign keys resolved -/

theorem contains_mem {l : List Nat} {a : Nat} (h : l.contains a = true) : a ∈ l := by simpa using h

theorem run_fkOk (t t' : Tables) (st : Stmt) (id : Nat) (hfk : t.fkOk) (h : t.run st = some (t', id)) : t'.fkOk := by
  obtain ⟨f1, f2, f3, f4, f5⟩ := hfk
  cases st with
  | insRunMeta =>
    simp only [Tables.run, Option.some.injEq, Prod.mk.injEq] at h
    obtain ⟨h1, _⟩ := h; subst h1
    refine ⟨?_, ?_, f3, f4, f5⟩
    · intro r hr; exact ⟨by simp [(f1 r hr).1], (f1 r hr).2⟩
    · intro r hr; simp [f2 r hr]
  | insAddress url =>
    simp only [Tables.run] at h
    split at h
    · simp at h; obtain ⟨h1, _⟩ := h; subst h1; exact ⟨f1, f2, f3, f4, f5⟩
    · simp at h; obtain ⟨h1, _⟩ := h; subst h1
      refine ⟨?_, f2, ?_, f4, f5⟩
      · intro r hr
        refine ⟨(f1 r hr).1, fun a ha => ?_⟩
        have := (f1 r hr).2 a ha
        simp [Tables.addressIds] at this ⊢
        exact Or.inl this
      · intro r hr
        refine ⟨(f3 r hr).1, ?_⟩
        have := (f3 r hr).2
        simp [Tables.addressIds] at this ⊢
        exact Or.inl this
  | insScanRun url m =>
    simp only [Tables.run] at h
    split at h
    · next hm =>
      simp at h; obtain ⟨h1, _⟩ := h; subst h1
      refine ⟨?_, f2, f3, ?_, ?_⟩
      · intro r hr
        simp only [List.mem_append, List.mem_singleton] at hr
        rcases hr with hr | hr
        · exact f1 r hr
        · subst hr
          exact ⟨contains_mem hm, fun a ha => addrId_mem t url a ha⟩
      · intro r hr
        have := f4 r hr
        simp [Tables.scanRunIds] at this ⊢
        exact Or.inl this
      · intro r hr
        have := f5 r hr
        simp [Tables.scanRunIds] at this ⊢
        exact Or.inl this
    · simp at h
  | insDiscoveryRun m =>
    simp only [Tables.run] at h
    split at h
    · next hm =>
      simp at h; obtain ⟨h1, _⟩ := h; subst h1
      refine ⟨f1, ?_, ?_, f4, f5⟩
      · intro r hr
        simp only [List.mem_append, List.mem_singleton] at hr
        rcases hr with hr | hr
        · exact f2 r hr
        · subst hr; exact contains_mem hm
      · intro r hr
        refine ⟨?_, (f3 r hr).2⟩
        have := (f3 r hr).1
        simp [Tables.discoveryRunIds] at this ⊢
        exact Or.inl this
    · simp at h
  | insDiscoveryResult url run =>
    simp only [Tables.run] at h
    split at h
    · next a ha =>
      split at h
      · next hr' =>
        simp at h; obtain ⟨h1, _⟩ := h; subst h1
        refine ⟨f1, f2, ?_, f4, f5⟩
        intro r hr
        simp only [List.mem_append, List.mem_singleton] at hr
        rcases hr with hr | hr
        · exact f3 r hr
        · subst hr; exact ⟨contains_mem hr', addrId_mem t url a ha⟩
      · simp at h
    · simp at h
  | insScanResult run p =>
    cases run with
    | none => simp [Tables.run] at h
    | some r0 =>
      simp only [Tables.run] at h
      split at h
      · next hr' =>
        simp at h; obtain ⟨h1, _⟩ := h; subst h1
        refine ⟨f1, f2, f3, ?_, f5⟩
        intro r hr
        simp only [List.mem_append, List.mem_singleton] at hr
        rcases hr with hr | hr
        · exact f4 r hr
        · subst hr; exact contains_mem hr'
      · simp at h
  | insSessionTransition run d =>
    cases run with
    | none => simp [Tables.run] at h
    | some r0 =>
      simp only [Tables.run] at h
      split at h
      · next hr' =>
        simp at h; obtain ⟨h1, _⟩ := h; subst h1
        refine ⟨f1, f2, f3, f4, ?_⟩
        intro r hr
        simp only [List.mem_append, List.mem_singleton] at hr
        rcases hr with hr | hr
        · exact f5 r hr
        · subst hr; exact contains_mem hr'
      · simp at h
  | update =>
    simp only [Tables.run, Option.some.injEq, Prod.mk.injEq] at h
    obtain ⟨h1, _⟩ := h; subst h1; exact ⟨f1, f2, f3, f4, f5⟩

/-- `lastrowid` of the three INSERTs whose id the handler keeps is the id of a row of that table -/
theorem run_lastrowid_runMeta (t t' : Tables) (id : Nat) (h : t.run .insRunMeta = some (t', id)) : id ∈ t'.runMeta := by
  simp only [Tables.run, Option.some.injEq, Prod.mk.injEq] at h
  obtain ⟨h1, h2⟩ := h; subst h1; subst h2; simp

theorem run_lastrowid_scanRun (t t' : Tables) (url m id : Nat) (h : t.run (.insScanRun url m) = some (t', id)) :
    id ∈ t'.scanRunIds := by
  simp only [Tables.run] at h
  split at h
  · simp at h; obtain ⟨h1, h2⟩ := h; subst h1; subst h2; simp [Tables.scanRunIds]
  · simp at h

theorem run_lastrowid_discoveryRun (t t' : Tables) (m id : Nat) (h : t.run (.insDiscoveryRun m) = some (t', id)) :
    id ∈ t'.discoveryRunIds := by
  simp only [Tables.run] at h
  split at h
  · simp at h; obtain ⟨h1, h2⟩ := h; subst h1; subst h2; simp [Tables.discoveryRunIds]
  · simp at h

/-- a scan_result row whose run exists is accepted -/
theorem run_insScanResult_ok (t : Tables) (run p : Nat) (h : run ∈ t.scanRunIds) :
    ∃ t' id, t.run (.insScanResult (some run) p) = some (t', id) := by
  simp [Tables.run, h]

/-! ### the invariant of the system -/

structure TInv (s : TSys) : Prop where
  fkTxn : s.txn.fkOk
  fkCom : s.committed.fkOk
  hMeta : ∀ m, s.h.metaId = some m → m ∈ s.txn.runMeta
  hRun : ∀ r, s.h.scanRun = some r → r ∈ s.txn.scanRunIds
  hDisc : ∀ r, s.h.discoveryRun = some r → r ∈ s.txn.discoveryRunIds
  queue : ∀ x ∈ s.queue, x.1 ∈ s.txn.scanRunIds
  inflight : ∀ x, s.inflight = some x → x.1 ∈ s.txn.scanRunIds
  alive : s.writerDead = false

theorem TInv.init (db : Tables) (prog : List Op) (h : db.fkOk) : TInv (TSys.init db prog) :=
  ⟨h, h, by simp [TSys.init, Handler.fresh], by simp [TSys.init, Handler.fresh], by simp [TSys.init, Handler.fresh],
   by simp [TSys.init], by simp [TSys.init], rfl⟩

/-- a statement executed on the connection -/
theorem TInv.withTxn {s : TSys} (hi : TInv s) (st : Stmt) (t' : Tables) (id : Nat) (h : s.txn.run st = some (t', id)) :
    TInv { s with txn := t' } := by
  have hle := run_le _ _ _ _ h
  exact ⟨run_fkOk _ _ _ _ hi.fkTxn h, hi.fkCom, fun m hm => hle.runMeta m (hi.hMeta m hm),
         fun r hr => hle.scanRun r (hi.hRun r hr), fun r hr => hle.discoveryRun r (hi.hDisc r hr),
         fun x hx => hle.scanRun _ (hi.queue x hx), fun x hx => hle.scanRun _ (hi.inflight x hx), hi.alive⟩

theorem TInv.dbEffect {s : TSys} (hi : TInv s) (m : Micro) : TInv (s.dbEffect m).1 := by
  unfold TSys.dbEffect
  split
  · exact ⟨hi.fkTxn, hi.fkTxn, hi.hMeta, hi.hRun, hi.hDisc, hi.queue, hi.inflight, hi.alive⟩
  · exact hi
  · split
    · split
      · next t id hrun => exact hi.withTxn _ _ _ hrun
      · exact hi
    · exact hi

/-- the handler is not touched by the database side of a step -/
theorem dbEffect_h (s : TSys) (m : Micro) : (s.dbEffect m).1.h = s.h := by
  unfold TSys.dbEffect
  split
  · rfl
  · rfl
  · split
    · split <;> rfl
    · rfl

/-- what `lastrowid` is worth after the three INSERTs whose id the handler keeps -/
theorem dbEffect_id {s : TSys} (m : Micro) (id : Nat) (h : (s.dbEffect m).2 = some id) :
    (m = .runMetaIns → id ∈ (s.dbEffect m).1.txn.runMeta) ∧
    (∀ url, m = .scanRunIns url → id ∈ (s.dbEffect m).1.txn.scanRunIds) ∧
    (m = .discRunIns → id ∈ (s.dbEffect m).1.txn.discoveryRunIds) := by
  refine ⟨?_, ?_, ?_⟩
  · intro hm; subst hm
    simp only [TSys.dbEffect, Micro.stmt] at h ⊢
    split at h
    · next t id' hrun => simp at h; subst h; exact run_lastrowid_runMeta _ _ _ hrun
    · simp at h
  · intro url hm; subst hm
    simp only [TSys.dbEffect, Micro.stmt] at h ⊢
    cases hmeta : s.h.metaId with
    | none => simp [hmeta] at h
    | some mm =>
      simp only [hmeta, Option.map_some] at h ⊢
      split at h
      · next t id' hrun => simp at h; subst h; exact run_lastrowid_scanRun _ _ _ _ _ hrun
      · simp at h
  · intro hm; subst hm
    simp only [TSys.dbEffect, Micro.stmt] at h ⊢
    cases hmeta : s.h.metaId with
    | none => simp [hmeta] at h
    | some mm =>
      simp only [hmeta, Option.map_some] at h ⊢
      split at h
      · next t id' hrun => simp at h; subst h; exact run_lastrowid_discoveryRun _ _ _ _ hrun
      · simp at h

theorem TInv.micro {s : TSys} (hi : TInv s) (m : Micro) : TInv (s.micro m) := by
  unfold TSys.micro
  split
  · next p =>
    split
    · next run hrun =>
      refine ⟨hi.fkTxn, hi.fkCom, hi.hMeta, hi.hRun, hi.hDisc, ?_, hi.inflight, hi.alive⟩
      intro x hx
      simp only [List.mem_append, List.mem_singleton] at hx
      rcases hx with hx | hx
      · exact hi.queue x hx
      · subst hx; exact hi.hRun run hrun
    · exact ⟨hi.fkTxn, hi.fkCom, hi.hMeta, hi.hRun, hi.hDisc, hi.queue, hi.inflight, hi.alive⟩
  · next hne =>
    have hd := hi.dbEffect m
    have hh := dbEffect_h s m
    split
    · next s' id heq =>
      have h1 : (s.dbEffect m).1 = s' := by rw [heq]
      have h2 : (s.dbEffect m).2 = some id := by rw [heq]
      have hid := dbEffect_id (s := s) m id h2
      rw [h1] at hd hh hid
      refine ⟨hd.fkTxn, hd.fkCom, ?_, ?_, ?_, hd.queue, hd.inflight, hd.alive⟩
      · intro mm hmm
        by_cases hm : m = .runMetaIns
        · subst hm
          simp only [Micro.assign, Option.some.injEq] at hmm
          subst hmm; exact hid.1 rfl
        · have : (m.assign s'.h id).metaId = s'.h.metaId := by cases m <;> simp_all [Micro.assign]
          exact hd.hMeta mm (by rw [← this]; exact hmm)
      · intro r hr
        by_cases hm : ∃ url, m = .scanRunIns url
        · obtain ⟨url, hm⟩ := hm
          subst hm
          simp only [Micro.assign, Option.some.injEq] at hr
          subst hr; exact hid.2.1 url rfl
        · have : (m.assign s'.h id).scanRun = s'.h.scanRun := by cases m <;> simp_all [Micro.assign]
          exact hd.hRun r (by rw [← this]; exact hr)
      · intro r hr
        by_cases hm : m = .discRunIns
        · subst hm
          simp only [Micro.assign, Option.some.injEq] at hr
          subst hr; exact hid.2.2 rfl
        · have : (m.assign s'.h id).discoveryRun = s'.h.discoveryRun := by cases m <;> simp_all [Micro.assign]
          exact hd.hDisc r (by rw [← this]; exact hr)
    · next s' heq =>
      have h1 : (s.dbEffect m).1 = s' := by rw [heq]
      rw [h1] at hd
      exact ⟨hd.fkTxn, hd.fkCom, hd.hMeta, hd.hRun, hd.hDisc, hd.queue, hd.inflight, hd.alive⟩

theorem TInv.step {s : TSys} (hi : TInv s) (c : TChoice) : TInv (tstep s c) := by
  cases c with
  | run =>
    simp only [tstep]
    split
    · exact hi
    · split
      · next m ms hc =>
        exact TInv.micro (s := { s with cur := ms })
          ⟨hi.fkTxn, hi.fkCom, hi.hMeta, hi.hRun, hi.hDisc, hi.queue, hi.inflight, hi.alive⟩ m
      · split
        · exact hi
        · split
          · exact ⟨hi.fkTxn, hi.fkCom, hi.hMeta, hi.hRun, hi.hDisc, hi.queue, hi.inflight, hi.alive⟩
          · exact ⟨hi.fkTxn, hi.fkCom, hi.hMeta, hi.hRun, hi.hDisc, hi.queue, hi.inflight, hi.alive⟩
  | cancel =>
    simp only [tstep]
    split
    · exact hi
    · split
      · next p rest hc =>
        have := hi.micro (.enqueue p)
        exact ⟨this.fkTxn, this.fkCom, this.hMeta, this.hRun, this.hDisc, this.queue, this.inflight, this.alive⟩
      · next m rest hc hne =>
        have := hi.dbEffect m
        have hh := dbEffect_h s m
        exact ⟨this.fkTxn, this.fkCom, this.hMeta, this.hRun, this.hDisc, this.queue, this.inflight, this.alive⟩
      · exact ⟨hi.fkTxn, hi.fkCom, hi.hMeta, hi.hRun, hi.hDisc, hi.queue, hi.inflight, hi.alive⟩
  | get =>
    simp only [tstep]
    split
    · exact hi
    · split
      · next r q h1 h2 =>
        refine ⟨hi.fkTxn, hi.fkCom, hi.hMeta, hi.hRun, hi.hDisc, ?_, ?_, hi.alive⟩
        · intro x hx; exact hi.queue x (by simp [h2, hx])
        · intro x hx; simp at hx; subst hx; exact hi.queue r (by simp [h2])
      · exact hi
  | execOk =>
    simp only [tstep]
    split
    · exact hi
    · split
      · next run p h1 h2 =>
        have hrun : run ∈ s.txn.scanRunIds := hi.inflight (run, p) h1
        obtain ⟨t', id, hr⟩ := run_insScanResult_ok s.txn run p hrun
        simp only [hr]
        have := hi.withTxn _ _ _ hr
        exact ⟨this.fkTxn, this.fkCom, this.hMeta, this.hRun, this.hDisc, this.queue, this.inflight, this.alive⟩
      · exact hi
  | execFail =>
    simp only [tstep]
    split
    · exact ⟨hi.fkTxn, hi.fkCom, hi.hMeta, hi.hRun, hi.hDisc, hi.queue, hi.inflight, hi.alive⟩
    · exact hi
  | commitOk =>
    simp only [tstep]
    split
    · exact hi
    · split
      · exact ⟨hi.fkTxn, hi.fkTxn, hi.hMeta, hi.hRun, hi.hDisc, hi.queue, by simp, hi.alive⟩
      · exact hi
  | commitFail =>
    simp only [tstep]
    split
    · exact ⟨hi.fkTxn, hi.fkCom, hi.hMeta, hi.hRun, hi.hDisc, hi.queue, hi.inflight, hi.alive⟩
    · exact hi

theorem TInv.exec {s : TSys} (hi : TInv s) (sched : List TChoice) : TInv (texec s sched) := by
  induction sched generalizing s with
  | nil => exact hi
  | cons c cs ih => exact ih (hi.step c)

/-! ### `disconnect()` -/

theorem appendResults_fk (t : Tables) (rows : List (Nat × Nat)) (hfk : t.fkOk) (hr : ∀ x ∈ rows, x.1 ∈ t.scanRunIds) :
    ({ t with scanResult := appendResults t.scanResult rows } : Tables).fkOk := by
  induction rows generalizing t with
  | nil => simpa [appendResults] using hfk
  | cons x xs ih =>
    obtain ⟨run, p⟩ := x
    simp only [appendResults]
    have hrun : run ∈ t.scanRunIds := hr (run, p) (by simp)
    have hrun' : t.run (.insScanResult (some run) p) =
        some ({ t with scanResult := t.scanResult ++ [(nextId t.scanResultIds, run, p)] }, nextId t.scanResultIds) := by
      simp [Tables.run, hrun]
    have hfk' := run_fkOk _ _ _ _ hfk hrun'
    have := ih { t with scanResult := t.scanResult ++ [(nextId t.scanResultIds, run, p)] } hfk'
      (fun y hy => hr y (by simp [hy]))
    simpa [Tables.scanResultIds] using this

/-! ### primary keys and the unique url -/

theorem addrId_none_not_mem (t : Tables) (url : Nat) (h : t.addrId url = none) : url ∉ t.address.map (·.2) := by
  unfold Tables.addrId at h
  cases hf : t.address.find? (fun x => x.2 == url) with
  | some p => simp [hf] at h
  | none =>
    intro hm
    rw [List.mem_map] at hm
    obtain ⟨x, hx, hxu⟩ := hm
    have := List.find?_eq_none.mp hf x hx
    simp [hxu] at this

theorem run_keysOk (t t' : Tables) (st : Stmt) (id : Nat) (hk : t.keysOk) (h : t.run st = some (t', id)) : t'.keysOk := by
  obtain ⟨k1, k2, k3, k4, k5, k6, k7⟩ := hk
  cases st with
  | insRunMeta =>
    simp only [Tables.run, Option.some.injEq, Prod.mk.injEq] at h
    obtain ⟨h1, _⟩ := h; subst h1
    exact ⟨nodup_append_nextId _ k1, k2, k3, k4, k5, k6, k7⟩
  | insAddress url =>
    simp only [Tables.run] at h
    split at h
    · simp at h; obtain ⟨h1, _⟩ := h; subst h1; exact ⟨k1, k2, k3, k4, k5, k6, k7⟩
    · next hnone =>
      simp at h; obtain ⟨h1, _⟩ := h; subst h1
      refine ⟨k1, ?_, ?_, k4, k5, k6, k7⟩
      · have := nodup_append_nextId _ k2
        simpa [Tables.addressIds] using this
      · have hnm := addrId_none_not_mem t url hnone
        simp only [List.map_append, List.map_cons, List.map_nil]
        rw [List.nodup_append]
        refine ⟨k3, by simp, ?_⟩
        intro a ha b hb
        simp at hb; subst hb
        intro hab; exact hnm (hab ▸ ha)
  | insScanRun url m =>
    simp only [Tables.run] at h
    split at h
    · simp at h; obtain ⟨h1, _⟩ := h; subst h1
      refine ⟨k1, k2, k3, ?_, k5, k6, k7⟩
      have := nodup_append_nextId _ k4
      simpa [Tables.scanRunIds] using this
    · simp at h
  | insDiscoveryRun m =>
    simp only [Tables.run] at h
    split at h
    · simp at h; obtain ⟨h1, _⟩ := h; subst h1
      refine ⟨k1, k2, k3, k4, ?_, k6, k7⟩
      have := nodup_append_nextId _ k5
      simpa [Tables.discoveryRunIds] using this
    · simp at h
  | insDiscoveryResult url run =>
    simp only [Tables.run] at h
    split at h
    · split at h
      · simp at h; obtain ⟨h1, _⟩ := h; subst h1
        refine ⟨k1, k2, k3, k4, k5, ?_, k7⟩
        have := nodup_append_nextId _ k6
        simpa [Tables.discoveryResultIds] using this
      · simp at h
    · simp at h
  | insScanResult run p =>
    cases run with
    | none => simp [Tables.run] at h
    | some r0 =>
      simp only [Tables.run] at h
      split at h
      · simp at h; obtain ⟨h1, _⟩ := h; subst h1
        refine ⟨k1, k2, k3, k4, k5, k6, ?_⟩
        have := nodup_append_nextId _ k7
        simpa [Tables.scanResultIds] using this
      · simp at h
  | insSessionTransition run d =>
    cases run with
    | none => simp [Tables.run] at h
    | some r0 =>
      simp only [Tables.run] at h
      split at h
      · simp at h; obtain ⟨h1, _⟩ := h; subst h1; exact ⟨k1, k2, k3, k4, k5, k6, k7⟩
      · simp at h
  | update =>
    simp only [Tables.run, Option.some.injEq, Prod.mk.injEq] at h
    obtain ⟨h1, _⟩ := h; subst h1; exact ⟨k1, k2, k3, k4, k5, k6, k7⟩

theorem appendResults_keys (t : Tables) (rows : List (Nat × Nat)) (hk : t.keysOk) :
    ({ t with scanResult := appendResults t.scanResult rows } : Tables).keysOk := by
  induction rows generalizing t with
  | nil => simpa [appendResults] using hk
  | cons x xs ih =>
    obtain ⟨run, p⟩ := x
    simp only [appendResults]
    obtain ⟨k1, k2, k3, k4, k5, k6, k7⟩ := hk
    have hk' : ({ t with scanResult := t.scanResult ++ [(nextId t.scanResultIds, run, p)] } : Tables).keysOk := by
      refine ⟨k1, k2, k3, k4, k5, k6, ?_⟩
      have := nodup_append_nextId _ k7
      simpa [Tables.scanResultIds] using this
    have := ih _ hk'
    simpa [Tables.scanResultIds] using this

/-- keys of both views of the database -/
structure KInv (s : TSys) : Prop where
  txn : s.txn.keysOk
  committed : s.committed.keysOk

theorem KInv.init (db : Tables) (prog : List Op) (h : db.keysOk) : KInv (TSys.init db prog) := ⟨h, h⟩

theorem KInv.dbEffect {s : TSys} (hi : KInv s) (m : Micro) : KInv (s.dbEffect m).1 := by
  unfold TSys.dbEffect
  split
  · exact ⟨hi.txn, hi.txn⟩
  · exact hi
  · split
    · split
      · next t id hrun => exact ⟨run_keysOk _ _ _ _ hi.txn hrun, hi.committed⟩
      · exact hi
    · exact hi

theorem KInv.micro {s : TSys} (hi : KInv s) (m : Micro) : KInv (s.micro m) := by
  unfold TSys.micro
  split
  · split
    · exact ⟨hi.txn, hi.committed⟩
    · exact ⟨hi.txn, hi.committed⟩
  · have hd := hi.dbEffect m
    split
    · next s' id heq =>
      have h1 : (s.dbEffect m).1 = s' := by rw [heq]
      rw [h1] at hd
      exact ⟨hd.txn, hd.committed⟩
    · next s' heq =>
      have h1 : (s.dbEffect m).1 = s' := by rw [heq]
      rw [h1] at hd
      exact ⟨hd.txn, hd.committed⟩

theorem KInv.step {s : TSys} (hi : KInv s) (c : TChoice) : KInv (tstep s c) := by
  cases c with
  | run =>
    simp only [tstep]
    split
    · exact hi
    · split
      · next m ms hc => exact KInv.micro (s := { s with cur := ms }) ⟨hi.txn, hi.committed⟩ m
      · split
        · exact hi
        · split <;> exact ⟨hi.txn, hi.committed⟩
  | cancel =>
    simp only [tstep]
    split
    · exact hi
    · split
      · next p rest hc => have := hi.micro (.enqueue p); exact ⟨this.txn, this.committed⟩
      · next m rest hc hne => have := hi.dbEffect m; exact ⟨this.txn, this.committed⟩
      · exact ⟨hi.txn, hi.committed⟩
  | get =>
    simp only [tstep]
    split
    · exact hi
    · split
      · exact ⟨hi.txn, hi.committed⟩
      · exact hi
  | execOk =>
    simp only [tstep]
    split
    · exact hi
    · split
      · next run p h1 h2 =>
        split
        · next t id hrun => exact ⟨run_keysOk _ _ _ _ hi.txn hrun, hi.committed⟩
        · exact ⟨hi.txn, hi.committed⟩
      · exact hi
  | execFail =>
    simp only [tstep]
    split
    · exact ⟨hi.txn, hi.committed⟩
    · exact hi
  | commitOk =>
    simp only [tstep]
    split
    · exact hi
    · split
      · exact ⟨hi.txn, hi.txn⟩
      · exact hi
  | commitFail =>
    simp only [tstep]
    split
    · exact ⟨hi.txn, hi.committed⟩
    · exact hi

theorem KInv.exec {s : TSys} (hi : KInv s) (sched : List TChoice) : KInv (texec s sched) := by
  induction sched generalizing s with
  | nil => exact hi
  | cons c cs ih => exact ih (hi.step c)

/-! ### the tables after `disconnect()` do not depend on how the writer was interleaved -/

theorem appendResults_append (t : List (Nat × Nat × Nat)) (a b : List (Nat × Nat)) :
    appendResults t (a ++ b) = appendResults (appendResults t a) b := by
  induction a generalizing t with
  | nil => rfl
  | cons x xs ih => obtain ⟨r, p⟩ := x; simp [appendResults, ih]

def Tables.noRes (t : Tables) : Tables := { t with scanResult := [] }

/-- a statement other than the INSERT into scan_result neither reads nor writes that table -/
theorem run_noRes (t : Tables) (st : Stmt) (hst : ∀ r p, st ≠ .insScanResult r p) :
    t.run st = (t.noRes.run st).map fun x => ({ x.1 with scanResult := t.scanResult }, x.2) := by
  cases st with
  | insScanResult r p => exact absurd rfl (hst r p)
  | insRunMeta => simp [Tables.run, Tables.noRes]
  | insAddress url =>
    simp only [Tables.run, Tables.noRes, Tables.addrId, Tables.addressIds]
    cases (t.address.find? fun x => x.2 == url) <;> simp
  | insScanRun url m =>
    simp only [Tables.run, Tables.noRes, Tables.addrId, Tables.scanRunIds]
    by_cases h : t.runMeta.contains m = true
    · simp only [if_pos h]; first | rfl | simp_all
    · simp only [if_neg h]; first | rfl | simp_all
  | insDiscoveryRun m =>
    simp only [Tables.run, Tables.noRes, Tables.discoveryRunIds]
    by_cases h : t.runMeta.contains m = true
    · simp only [if_pos h]; first | rfl | simp_all
    · simp only [if_neg h]; first | rfl | simp_all
  | insDiscoveryResult url run =>
    cases h1 : t.addrId url with
    | none =>
      have h1' : t.noRes.addrId url = none := h1
      simp [Tables.run, h1, h1']
    | some a =>
      have h1' : t.noRes.addrId url = some a := h1
      cases h2 : t.discoveryRunIds.contains run with
      | false =>
        have h2' : t.noRes.discoveryRunIds.contains run = false := h2
        have L : t.run (.insDiscoveryResult url run) = none := by simp only [Tables.run, h1, h2]; simp
        have R : t.noRes.run (.insDiscoveryResult url run) = none := by simp only [Tables.run, h1', h2']; simp
        rw [L, R]; rfl
      | true =>
        have h2' : t.noRes.discoveryRunIds.contains run = true := h2
        have L : t.run (.insDiscoveryResult url run) = some ({ t with discoveryResult := t.discoveryResult ++
            [(nextId t.discoveryResultIds, run, a)] }, nextId t.discoveryResultIds) := by
          simp only [Tables.run, h1, h2, if_true]
        have R : t.noRes.run (.insDiscoveryResult url run) = some ({ t.noRes with discoveryResult := t.noRes.discoveryResult ++
            [(nextId t.noRes.discoveryResultIds, run, a)] }, nextId t.noRes.discoveryResultIds) := by
          simp only [Tables.run, h1', h2', if_true]
        rw [L, R]
        simp [Tables.noRes, Tables.discoveryResultIds]
  | insSessionTransition run d =>
    cases run with
    | none => simp [Tables.run]
    | some r =>
      cases h2 : t.scanRunIds.contains r with
      | false =>
        have h2' : t.noRes.scanRunIds.contains r = false := h2
        have L : t.run (.insSessionTransition (some r) d) = none := by simp only [Tables.run, h2]; simp
        have R : t.noRes.run (.insSessionTransition (some r) d) = none := by simp only [Tables.run, h2']; simp
        rw [L, R]; rfl
      | true =>
        have h2' : t.noRes.scanRunIds.contains r = true := h2
        have L : t.run (.insSessionTransition (some r) d) =
            some ({ t with sessionTransition := t.sessionTransition ++ [(r, d)] }, 0) := by
          simp only [Tables.run, h2, if_true]
        have R : t.noRes.run (.insSessionTransition (some r) d) =
            some ({ t.noRes with sessionTransition := t.noRes.sessionTransition ++ [(r, d)] }, 0) := by
          simp only [Tables.run, h2', if_true]
        rw [L, R]
        simp [Tables.noRes]
  | update => simp [Tables.run, Tables.noRes]

theorem run_congr (t t' : Tables) (st : Stmt) (hst : ∀ r p, st ≠ .insScanResult r p) (ho : t.noRes = t'.noRes) :
    (t.run st = none ∧ t'.run st = none) ∨
    ∃ t1 t1' id, t.run st = some (t1, id) ∧ t'.run st = some (t1', id) ∧ t1.noRes = t1'.noRes ∧
      t1.scanResult = t.scanResult ∧ t1'.scanResult = t'.scanResult := by
  rw [run_noRes t st hst, run_noRes t' st hst, ← ho]
  cases h : t.noRes.run st with
  | none => left; simp
  | some x =>
    right
    exact ⟨_, _, x.2, rfl, rfl, by simp [Tables.noRes], rfl, rfl⟩

/-- two states of the system that differ only in how far the writer has got -/
structure TEq (a b : TSys) : Prop where
  h : a.h = b.h
  cur : a.cur = b.cur
  todo : a.todo = b.todo
  performed : a.performed = b.performed
  stopped : a.stopped = b.stopped
  refused : a.refused = b.refused
  others : a.txn.noRes = b.txn.noRes
  results : appendResults a.txn.scanResult a.pending = appendResults b.txn.scanResult b.pending

theorem TEq.refl (a : TSys) : TEq a a := ⟨rfl, rfl, rfl, rfl, rfl, rfl, rfl, rfl⟩

theorem TEq.symm {a b : TSys} (h : TEq a b) : TEq b a :=
  ⟨h.h.symm, h.cur.symm, h.todo.symm, h.performed.symm, h.stopped.symm, h.refused.symm, h.others.symm, h.results.symm⟩

theorem TEq.trans {a b c : TSys} (h1 : TEq a b) (h2 : TEq b c) : TEq a c :=
  ⟨h1.h.trans h2.h, h1.cur.trans h2.cur, h1.todo.trans h2.todo, h1.performed.trans h2.performed,
   h1.stopped.trans h2.stopped, h1.refused.trans h2.refused, h1.others.trans h2.others, h1.results.trans h2.results⟩

theorem noRes_eq_iff (t t' : Tables) (h : t.noRes = t'.noRes) (hr : t.scanResult = t'.scanResult) : t = t' := by
  cases t; cases t'
  simp only [Tables.noRes, Tables.mk.injEq] at h
  simp only at hr
  simp [h.1, h.2.1, h.2.2.1, h.2.2.2.1, h.2.2.2.2.1, h.2.2.2.2.2.2, hr]

theorem TEq.afterDisconnect {a b : TSys} (h : TEq a b) : afterDisconnectT a = afterDisconnectT b := by
  unfold afterDisconnectT
  apply noRes_eq_iff
  · have := h.others
    simpa [Tables.noRes] using this
  · exact h.results

theorem Micro.stmt_ne (h : Handler) (m : Micro) (st : Stmt) (hs : m.stmt h = some st) : ∀ r p, st ≠ .insScanResult r p := by
  intro r p heq
  subst heq
  cases m <;> simp [Micro.stmt] at hs
  all_goals (first | (cases h.metaId <;> simp at hs) | (cases h.discoveryRun <;> simp at hs))

def TSys.stmtEffect (s : TSys) (st? : Option Stmt) : TSys × Option Nat :=
  match st? with
  | some st =>
    match s.txn.run st with
    | some (t, id) => ({ s with txn := t }, some id)
    | none => (s, none)
  | none => (s, none)

theorem dbEffect_eq_stmtEffect (s : TSys) (m : Micro) (h1 : m ≠ .commit) (h2 : ∀ p, m ≠ .enqueue p) :
    s.dbEffect m = s.stmtEffect (m.stmt s.h) := by
  cases m <;> first | rfl | exact absurd rfl h1 | exact absurd rfl (h2 _)

theorem TEq.stmtEffect {a b : TSys} (h : TEq a b) (st? : Option Stmt) (hne : ∀ st, st? = some st → ∀ r p, st ≠ .insScanResult r p) :
    TEq (a.stmtEffect st?).1 (b.stmtEffect st?).1 ∧ (a.stmtEffect st?).2 = (b.stmtEffect st?).2 ∧
    (a.stmtEffect st?).1.pending = a.pending ∧ (b.stmtEffect st?).1.pending = b.pending := by
  cases st? with
  | none => exact ⟨h, rfl, rfl, rfl⟩
  | some st =>
    rcases run_congr a.txn b.txn st (hne st rfl) h.others with ⟨h1, h2⟩ | ⟨t1, t1', id, h1, h2, h3, h4, h5⟩
    · have ea : a.stmtEffect (some st) = (a, none) := by simp only [TSys.stmtEffect, h1]
      have eb : b.stmtEffect (some st) = (b, none) := by simp only [TSys.stmtEffect, h2]
      rw [ea, eb]
      exact ⟨h, rfl, rfl, rfl⟩
    · have ea : a.stmtEffect (some st) = ({ a with txn := t1 }, some id) := by simp only [TSys.stmtEffect, h1]
      have eb : b.stmtEffect (some st) = ({ b with txn := t1' }, some id) := by simp only [TSys.stmtEffect, h2]
      rw [ea, eb]
      refine ⟨⟨h.h, h.cur, h.todo, h.performed, h.stopped, h.refused, h3, ?_⟩, rfl, rfl, rfl⟩
      show appendResults t1.scanResult a.pending = appendResults t1'.scanResult b.pending
      rw [h4, h5]; exact h.results

/-- the database side of a step of the run task acts alike on two such states -/
theorem TEq.dbEffect {a b : TSys} (h : TEq a b) (m : Micro) :
    TEq (a.dbEffect m).1 (b.dbEffect m).1 ∧ (a.dbEffect m).2 = (b.dbEffect m).2 ∧
    (a.dbEffect m).1.pending = a.pending ∧ (b.dbEffect m).1.pending = b.pending := by
  by_cases h1 : m = .commit
  · subst h1
    exact ⟨⟨h.h, h.cur, h.todo, h.performed, h.stopped, h.refused, h.others, h.results⟩, rfl, rfl, rfl⟩
  · by_cases h2 : ∃ p, m = .enqueue p
    · obtain ⟨p, hp⟩ := h2
      subst hp
      exact ⟨h, rfl, rfl, rfl⟩
    · have h2' : ∀ p, m ≠ .enqueue p := fun p hp => h2 ⟨p, hp⟩
      rw [dbEffect_eq_stmtEffect a m h1 h2', dbEffect_eq_stmtEffect b m h1 h2', ← h.h]
      exact h.stmtEffect _ (fun st hst => Micro.stmt_ne _ _ _ hst)

theorem pending_enqueue (s : TSys) (x : Nat × Nat) (u : Nat) :
    TSys.pending { s with queue := s.queue ++ [x], unfinished := u } = s.pending ++ [x] := by
  simp [TSys.pending, List.append_assoc]

/-- close a `TEq` goal field by field from a `TEq` hypothesis -/
macro "teq_from " h:ident : tactic =>
  `(tactic| (refine ⟨?_, ?_, ?_, ?_, ?_, ?_, ?_, ?_⟩ <;>
      first | rfl | exact ($h).h | exact ($h).cur | exact ($h).todo | exact ($h).performed | exact ($h).stopped
            | exact ($h).refused | exact ($h).others | exact ($h).results
            | (simp [($h).performed]; done) | (simp [($h).refused]; done) | (simp [($h).h]; done)))

theorem TEq.micro {a b : TSys} (h : TEq a b) (m : Micro) : TEq (a.micro m) (b.micro m) := by
  by_cases h2 : ∃ p, m = .enqueue p
  · obtain ⟨p, hp⟩ := h2
    subst hp
    have hh := h.h
    cases hr : a.h.scanRun with
    | none =>
      have hrb : b.h.scanRun = none := by rw [← hh]; exact hr
      simp only [TSys.micro, hr, hrb]
      teq_from h
    | some run =>
      have hrb : b.h.scanRun = some run := by rw [← hh]; exact hr
      simp only [TSys.micro, hr, hrb]
      refine ⟨h.h, h.cur, h.todo, h.performed, h.stopped, h.refused, h.others, ?_⟩
      show appendResults a.txn.scanResult (TSys.pending { a with queue := a.queue ++ [(run, p)], unfinished := a.unfinished + 1 }) =
        appendResults b.txn.scanResult (TSys.pending { b with queue := b.queue ++ [(run, p)], unfinished := b.unfinished + 1 })
      rw [pending_enqueue, pending_enqueue, appendResults_append, appendResults_append, h.results]
  · have h2' : ∀ p, m ≠ .enqueue p := fun p hp => h2 ⟨p, hp⟩
    obtain ⟨e1, e2, e3, e4⟩ := h.dbEffect m
    have ha : a.micro m = match a.dbEffect m with
        | (s', some id) => { s' with h := m.assign s'.h id }
        | (s', none) => { s' with cur := [], refused := s'.refused + 1 } := by
      cases m <;> first | rfl | exact absurd rfl (h2' _)
    have hb : b.micro m = match b.dbEffect m with
        | (s', some id) => { s' with h := m.assign s'.h id }
        | (s', none) => { s' with cur := [], refused := s'.refused + 1 } := by
      cases m <;> first | rfl | exact absurd rfl (h2' _)
    rw [ha, hb]
    revert e1 e2 e3 e4
    generalize a.dbEffect m = ra
    generalize b.dbEffect m = rb
    obtain ⟨a', ida⟩ := ra
    obtain ⟨b', idb⟩ := rb
    intro e1 e2 e3 e4
    simp only at e1 e2 e3 e4
    subst e2
    cases ida with
    | none => simp only; teq_from e1
    | some id => simp only; teq_from e1

/-- a step of the run task (or its cancellation) acts alike on two such states -/
theorem TEq.runStep {a b : TSys} (h : TEq a b) (c : TChoice) (hc : c.isRunTask = true) : TEq (tstep a c) (tstep b c) := by
  have hst := h.stopped
  have hcur := h.cur
  have htodo := h.todo
  have hh := h.h
  cases c with
  | run =>
    by_cases hs : a.stopped = true
    · have hsb : b.stopped = true := by rw [← hst, hs]
      simp only [tstep, hs, hsb, if_true]
      exact h
    · have hsb : ¬ b.stopped = true := by rw [← hst]; exact hs
      cases hca : a.cur with
      | cons m ms =>
        have hcb : b.cur = m :: ms := by rw [← hcur, hca]
        simp only [tstep, hs, hsb, if_false, hca, hcb]
        refine TEq.micro ?_ m
        teq_from h
      | nil =>
        have hcb : b.cur = [] := by rw [← hcur, hca]
        cases hta : a.todo with
        | nil =>
          have htb : b.todo = [] := by rw [← htodo, hta]
          simp only [tstep, hs, hsb, if_false, hca, hcb, hta, htb]
          exact h
        | cons op rest =>
          have htb : b.todo = op :: rest := by rw [← htodo, hta]
          have hmb : op.micros b.h = op.micros a.h := by rw [hh]
          cases hm : op.micros a.h with
          | some ms =>
            simp only [tstep, hs, hsb, if_false, hca, hcb, hta, htb, hmb, hm]
            teq_from h
          | none =>
            simp only [tstep, hs, hsb, if_false, hca, hcb, hta, htb, hmb, hm]
            teq_from h
  | cancel =>
    by_cases hs : a.stopped = true
    · have hsb : b.stopped = true := by rw [← hst, hs]
      simp only [tstep, hs, hsb, if_true]
      exact h
    · have hsb : ¬ b.stopped = true := by rw [← hst]; exact hs
      cases hca : a.cur with
      | nil =>
        have hcb : b.cur = [] := by rw [← hcur, hca]
        simp only [tstep, hs, hsb, if_false, hca, hcb]
        teq_from h
      | cons m ms =>
        have hcb : b.cur = m :: ms := by rw [← hcur, hca]
        by_cases h2 : ∃ p, m = .enqueue p
        · obtain ⟨p, hp⟩ := h2
          subst hp
          have hm := h.micro (.enqueue p)
          simp only [tstep, hs, hsb, if_false, hca, hcb]
          teq_from hm
        · have h2' : ∀ p, m ≠ .enqueue p := fun p hp => h2 ⟨p, hp⟩
          obtain ⟨e1, e2, e3, e4⟩ := h.dbEffect m
          have ea : tstep a .cancel = { (a.dbEffect m).1 with cur := [], todo := [], stopped := true } := by
            simp only [tstep, hs, if_false, hca]
            cases m <;> first | rfl | exact absurd rfl (h2' _)
          have eb : tstep b .cancel = { (b.dbEffect m).1 with cur := [], todo := [], stopped := true } := by
            simp only [tstep, hsb, if_false, hcb]
            cases m <;> first | rfl | exact absurd rfl (h2' _)
          rw [ea, eb]
          teq_from e1
  | get => simp [TChoice.isRunTask] at hc
  | execOk => simp [TChoice.isRunTask] at hc
  | execFail => simp [TChoice.isRunTask] at hc
  | commitOk => simp [TChoice.isRunTask] at hc
  | commitFail => simp [TChoice.isRunTask] at hc

/-- a step of the writer changes nothing that the tables after `disconnect()` depend on -/
theorem TEq.writerStep {s : TSys} (hi : TInv s) (c : TChoice) (hc : c.isRunTask = false) : TEq (tstep s c) s := by
  cases c with
  | run => simp [TChoice.isRunTask] at hc
  | cancel => simp [TChoice.isRunTask] at hc
  | get =>
    simp only [tstep]
    split
    · exact TEq.refl s
    · split
      · next r q h1 h2 =>
        refine ⟨rfl, rfl, rfl, rfl, rfl, rfl, rfl, ?_⟩
        simp [TSys.pending, h1, h2]
      · exact TEq.refl s
  | execOk =>
    simp only [tstep]
    split
    · exact TEq.refl s
    · split
      · next run p h1 h2 =>
        have hrun : run ∈ s.txn.scanRunIds := hi.inflight (run, p) h1
        have hr : s.txn.run (.insScanResult (some run) p) =
            some ({ s.txn with scanResult := s.txn.scanResult ++ [(nextId s.txn.scanResultIds, run, p)] },
                  nextId s.txn.scanResultIds) := by
          simp [Tables.run, hrun]
        simp only [hr]
        refine ⟨rfl, rfl, rfl, rfl, rfl, rfl, by simp [Tables.noRes], ?_⟩
        simp [TSys.pending, h1, h2, appendResults, Tables.scanResultIds]
      · exact TEq.refl s
  | execFail =>
    simp only [tstep]
    split
    · next r h1 h2 => exact ⟨rfl, rfl, rfl, rfl, rfl, rfl, rfl, by simp [TSys.pending, h1, h2]⟩
    · exact TEq.refl s
  | commitOk =>
    simp only [tstep]
    split
    · exact TEq.refl s
    · split
      · next r h1 h2 => exact ⟨rfl, rfl, rfl, rfl, rfl, rfl, rfl, by simp [TSys.pending, h1, h2]⟩
      · exact TEq.refl s
  | commitFail =>
    simp only [tstep]
    split
    · next r h1 h2 => exact ⟨rfl, rfl, rfl, rfl, rfl, rfl, rfl, by simp [TSys.pending, h1, h2]⟩
    · exact TEq.refl s

/-- running any schedule is, for the tables after `disconnect()`, as good as running only the run task's choices of it -/
theorem TEq.exec {a b : TSys} (h : TEq a b) (ha : TInv a) (sched : List TChoice) :
    TEq (texec a sched) (texec b (sched.filter TChoice.isRunTask)) := by
  induction sched generalizing a b with
  | nil => exact h
  | cons c cs ih =>
    cases hc : c.isRunTask with
    | true =>
      simp only [List.filter_cons, hc, if_true, texec, List.foldl_cons]
      exact ih (h.runStep c hc) (ha.step c)
    | false =>
      simp only [List.filter_cons, hc, texec, List.foldl_cons]
      have : TEq (tstep a c) b := (TEq.writerStep ha c hc).trans h
      simpa [texec] using ih this (ha.step c)

end Gallia.DbTables
