import Gallia.Proofs.Lemmas.PenlogHr
/-
  C17 helper lemmas, part 8: the writer side of the schema — a `LogRec` through `QueueHandler.prepare` and
  `_JSONFormatter.format` is a flat record the reader accepts, and it is read back as `expectRead`.
-/
namespace Gallia.Penlog

/-- a log record whose text is valid Unicode, whose level is one of the seven, whose timestamp is a valid aware or
    naive datetime -/
def LogRec.WF (host : Str) (r : LogRec) : Prop :=
  (∀ c ∈ r.name, isScalar c = true) ∧ (∀ c ∈ host, isScalar c = true) ∧ (∀ c ∈ r.msg, isScalar c = true) ∧
  (∀ c ∈ r.levelname, isScalar c = true) ∧ (∀ c ∈ r.pathname, isScalar c = true) ∧ (∀ c ∈ r.funcName, isScalar c = true) ∧
  (∀ t ∈ r.tags, ∀ s ∈ t, ∀ c ∈ s, isScalar c = true) ∧ (∀ s ∈ r.excText, ∀ c ∈ s, isScalar c = true) ∧
  r.created.Valid ∧ r.levelno ∈ levels ∧ (∀ s ∈ r.stackInfo, ∀ c ∈ s, isScalar c = true)

theorem isScalar_of_lt (c : Nat) (h : c < 128) : isScalar c = true := by
  simp [isScalar]; omega

theorem appendBlock_scalar (s : Str) (o : Option Str) (hs : ∀ c ∈ s, isScalar c = true) (ho : ∀ e ∈ o, ∀ c ∈ e, isScalar c = true) :
    ∀ c ∈ appendBlock s o, isScalar c = true := by
  cases o with
  | none => exact hs
  | some e =>
    have he := ho e rfl
    simp only [appendBlock]
    split
    · exact hs
    · intro c hc
      simp only [List.mem_append] at hc
      rcases hc with hc | hc | hc
      · exact hs c hc
      · split at hc
        · simp at hc
        · simp at hc; subst hc; decide
      · exact he c hc

theorem queuePrepare_wf (host : Str) (r : LogRec) (h : r.WF host) : (queuePrepare r).WF host := by
  obtain ⟨h1, h2, h3, h4, h5, h6, h7, h8, h9, h10, h11⟩ := h
  refine ⟨h1, h2, ?_, h4, h5, h6, h7, by simp [queuePrepare], h9, h10, by simp [queuePrepare]⟩
  exact appendBlock_scalar _ _ (appendBlock_scalar _ _ h3 h8) h11

theorem pad2_lt (n : Nat) : ∀ c ∈ pad2 n, c < 128 := by
  intro c hc; simp [pad2] at hc; omega

theorem pad4_lt (n : Nat) : ∀ c ∈ pad4 n, c < 128 := by
  intro c hc; simp [pad4] at hc; omega

theorem pad6_lt (n : Nat) : ∀ c ∈ pad6 n, c < 128 := by
  intro c hc; simp [pad6] at hc; omega

theorem offStr_lt (o : Option Int) : ∀ c ∈ offStr o, c < 128 := by
  intro c hc
  cases o with
  | none => simp [offStr] at hc
  | some v =>
    simp only [offStr, List.mem_cons, List.mem_append] at hc
    rcases hc with hc | hc | hc | hc | hc
    · split at hc <;> omega
    · exact pad2_lt _ c hc
    · omega
    · exact pad2_lt _ c hc
    · split at hc
      · simp at hc
      · simp only [List.mem_cons] at hc
        rcases hc with hc | hc
        · omega
        · exact pad2_lt _ c hc

theorem isoformat_lt (d : DT) : ∀ c ∈ isoformat d, c < 128 := by
  intro c hc
  simp only [isoformat, List.mem_cons, List.mem_append] at hc
  rcases hc with hc | hc | hc | hc | hc | hc | hc | hc | hc | hc | hc | hc | hc
  · exact pad4_lt _ c hc
  · omega
  · exact pad2_lt _ c hc
  · omega
  · exact pad2_lt _ c hc
  · omega
  · exact pad2_lt _ c hc
  · omega
  · exact pad2_lt _ c hc
  · omega
  · exact pad2_lt _ c hc
  · split at hc
    · simp at hc
    · simp only [List.mem_cons] at hc
      rcases hc with hc | hc
      · omega
      · exact pad6_lt _ c hc
  · exact offStr_lt _ c hc

theorem fromLevel_spec (l : Nat) (h : l ∈ levels) : ∃ p, fromLevel l = some p ∧ toLevel p = some l ∧ p ≤ 8 := by
  simp only [levels, List.mem_cons, List.not_mem_nil, or_false] at h
  rcases h with rfl | rfl | rfl | rfl | rfl | rfl | rfl
  · exact ⟨8, by decide, by decide, by decide⟩
  · exact ⟨7, by decide, by decide, by decide⟩
  · exact ⟨6, by decide, by decide, by decide⟩
  · exact ⟨5, by decide, by decide, by decide⟩
  · exact ⟨4, by decide, by decide, by decide⟩
  · exact ⟨3, by decide, by decide, by decide⟩
  · exact ⟨2, by decide, by decide, by decide⟩

/-- the flat record `_JSONFormatter.format` builds once the level has a priority -/
def fmtOf (host : Str) (lr : LogRec) (p : Nat) : Rec :=
  { module := lr.name, host := host, data := lr.msg, datetime := isoformat lr.created, prio := p, tags := lr.tags,
    line := lr.pathname ++ (58 :: natDec lr.lineno), stacktrace := lr.excText, levelNo := lr.levelno,
    levelName := lr.levelname, funcName := lr.funcName }

theorem formatRec_eq (host : Str) (lr : LogRec) (p : Nat) (h : fromLevel lr.levelno = some p) :
    formatRec host lr = some (fmtOf host lr p) := by
  simp [formatRec, h, fmtOf]

/-- `_JSONFormatter.format` of a well-formed record: a flat record the reader accepts, read back as `expectRead` -/
theorem formatRec_spec (host : Str) (lr : LogRec) (h : lr.WF host) :
    ∃ p r, fromLevel lr.levelno = some p ∧ toLevel p = some lr.levelno ∧ formatRec host lr = some r ∧ r.prio = p ∧
      r.Readable ∧ asRead r (dtOf r) = expectRead host lr p := by
  obtain ⟨h1, h2, h3, h4, h5, h6, h7, h8, h9, h10, _⟩ := h
  obtain ⟨p, hp, htl, hp8⟩ := fromLevel_spec lr.levelno h10
  have hiso : parseIso (isoformat lr.created) = .ok lr.created := parseIso_isoformat lr.created h9
  have hdt : dtOf (fmtOf host lr p) = lr.created := by simp [dtOf, fmtOf, hiso]
  refine ⟨p, fmtOf host lr p, hp, htl, formatRec_eq host lr p hp, rfl, ⟨?_, hp8, ?_⟩, ?_⟩
  · refine ⟨okText_of_scalar _ h1, okText_of_scalar _ h2, okText_of_scalar _ h3, okText_of_scalar _ ?_, ?_,
      okText_of_scalar _ ?_, ?_, okText_of_scalar _ h4, okText_of_scalar _ h6⟩
    · exact fun c hc => isScalar_of_lt c (isoformat_lt _ c hc)
    · exact fun t ht s hs => okText_of_scalar _ (h7 t ht s hs)
    · intro c hc
      simp only [fmtOf, List.mem_append, List.mem_cons] at hc
      rcases hc with hc | hc | hc
      · exact h5 c hc
      · subst hc; decide
      · have := natDec_printable lr.lineno c hc
        exact isScalar_of_lt c (by omega)
    · exact fun s hs => okText_of_scalar _ (h8 s hs)
  · rw [hdt]; exact hiso
  · rw [hdt]; simp only [fmtOf, asRead, expectRead]
    cases lr.tags <;> cases lr.excText <;> rfl

end Gallia.Penlog
