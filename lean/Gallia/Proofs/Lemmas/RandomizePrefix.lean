import Gallia.Model.Randomize
/-
  C16 — `randomize` reads the draw stream and the choice stream only below the positions it reports as consumed:
  two streams that agree on that prefix give the same result (`randomizePyGen_prefix`).
-/
namespace Gallia.Randomize
open Gallia.PySet (PySet)

/-- two draw streams agree below position `n` (at every call site) -/
def AgreeD (n : Nat) (d d' : Nat → Thr → Bool) : Prop := ∀ j, j < n → ∀ k, d j k = d' j k
/-- two choice streams agree below position `n` -/
def AgreeC (n : Nat) (c c' : Nat → Nat) : Prop := ∀ j, j < n → c j = c' j

theorem AgreeD.mono {n m : Nat} {d d' : Nat → Thr → Bool} (h : AgreeD n d d') (hm : m ≤ n) : AgreeD m d d' :=
  fun j hj k => h j (by omega) k

theorem AgreeC.mono {n m : Nat} {c c' : Nat → Nat} (h : AgreeC n c c') (hm : m ≤ n) : AgreeC m c c' :=
  fun j hj => h j (by omega)

theorem drawFilter_congr {d d' : Nat → Thr → Bool} (k : Thr) : ∀ (xs : List Nat) (i : Nat),
    AgreeD (i + xs.length) d d' → drawFilter d k i xs = drawFilter d' k i xs
  | [], _, _ => rfl
  | x :: xs, i, h => by
    have h1 := h i (by simp) k
    have h2 := drawFilter_congr k xs (i + 1) (h.mono (by simp; omega))
    simp only [drawFilter, h1, h2]

/-! ### phase 1 -/

theorem foldPy_pos (comb : List Nat) (d : Nat → Thr → Bool) (k : Thr) (srcs : List Nat) (st : Trans × PySet × Nat) :
    (srcs.foldl (levelStepPy comb d k) st).2.2 = st.2.2 + srcs.length * comb.length := by
  induction srcs generalizing st with
  | nil => simp
  | cons s ss ih =>
    obtain ⟨t, nxt, i⟩ := st
    simp only [List.foldl_cons, levelStepPy, ih, List.length_cons, Nat.succ_mul]
    omega

theorem foldPy_congr (comb : List Nat) {d d' : Nat → Thr → Bool} (k : Thr) (srcs : List Nat) (st : Trans × PySet × Nat)
    (h : AgreeD (st.2.2 + srcs.length * comb.length) d d') :
    srcs.foldl (levelStepPy comb d k) st = srcs.foldl (levelStepPy comb d' k) st := by
  induction srcs generalizing st with
  | nil => rfl
  | cons s ss ih =>
    obtain ⟨t, nxt, i⟩ := st
    simp only [List.length_cons, Nat.succ_mul] at h
    have h1 := drawFilter_congr k comb i (h.mono (by omega))
    simp only [List.foldl_cons, levelStepPy, h1]
    exact ih _ (h.mono (by dsimp only; omega))

theorem levelBodyPy_pos (comb : List Nat) (d : Nat → Thr → Bool) (t : Trans) (lvl : PySet) (level i : Nat) :
    (levelBodyPy comb d t lvl level i).2.2 = i + (PySet.toList lvl).length * comb.length := by
  simp only [levelBodyPy, foldPy_pos]

theorem levelBodyPy_congr (comb : List Nat) {d d' : Nat → Thr → Bool} (t : Trans) (lvl : PySet) (level i : Nat)
    (h : AgreeD (levelBodyPy comb d t lvl level i).2.2 d d') :
    levelBodyPy comb d' t lvl level i = levelBodyPy comb d t lvl level i := by
  rw [levelBodyPy_pos] at h
  simp only [levelBodyPy, foldPy_congr comb _ _ (t, PySet.empty, i) h]

theorem levelsPy_mono (comb : List Nat) (d : Nat → Thr → Bool) : ∀ (F : Nat) (t : Trans) (lvl : PySet) (level i : Nat),
    i ≤ (levelsPy comb d F t lvl level i).2.1 := by
  intro F
  induction F with
  | zero => intro t lvl level i; simp [levelsPy]
  | succ F ih =>
    intro t lvl level i
    unfold levelsPy
    simp only
    have hb : i ≤ (levelBodyPy comb d t lvl level i).2.2 := by rw [levelBodyPy_pos]; omega
    split
    · exact hb
    · exact Nat.le_trans hb (ih _ _ _ _)

theorem levelsPy_congr (comb : List Nat) {d d' : Nat → Thr → Bool} : ∀ (F : Nat) (t : Trans) (lvl : PySet)
    (level i : Nat), AgreeD (levelsPy comb d F t lvl level i).2.1 d d' →
    levelsPy comb d' F t lvl level i = levelsPy comb d F t lvl level i := by
  intro F
  induction F with
  | zero => intro t lvl level i _; simp [levelsPy]
  | succ F ih =>
    intro t lvl level i h
    have hb : AgreeD (levelBodyPy comb d t lvl level i).2.2 d d' := by
      apply h.mono
      conv => rhs; unfold levelsPy
      simp only
      split
      · exact Nat.le_refl _
      · exact levelsPy_mono comb d _ _ _ _ _
    conv => lhs; unfold levelsPy
    conv => rhs; unfold levelsPy
    simp only [levelBodyPy_congr comb t lvl level i hb]
    split
    · rfl
    · rename_i hz
      have hrec : AgreeD (levelsPy comb d F (levelBodyPy comb d t lvl level i).1
          (nextLevelPy t (levelBodyPy comb d t lvl level i).2.1) (level + 1)
          (levelBodyPy comb d t lvl level i).2.2).2.1 d d' := by
        apply h.mono
        conv => rhs; unfold levelsPy
        simp only [hz, ↓reduceIte]
        exact Nat.le_refl _
      rw [ih _ _ _ _ hrec]

/-! ### phase 2 -/

theorem mandStep_choice_mono (o : Oracles) (st : Trans × Nat) (s : Nat) : st.2 ≤ (mandStep o st s).2 := by
  obtain ⟨t, c⟩ := st
  simp only [mandStep]
  split <;> simp

theorem mand_fold_mono (o : Oracles) (ms : List Nat) (st : Trans × Nat) : st.2 ≤ (ms.foldl (mandStep o) st).2 := by
  induction ms generalizing st with
  | nil => simp
  | cons s ss ih => exact Nat.le_trans (mandStep_choice_mono o st s) (ih _)

theorem mandStep_congr_choice (o o' : Oracles) (st : Trans × Nat) (s : Nat) (h : AgreeC (mandStep o st s).2 o.choice o'.choice) :
    mandStep o' st s = mandStep o st s := by
  obtain ⟨t, c⟩ := st
  simp only [mandStep] at h ⊢
  split
  · rename_i he
    simp only [he, ↓reduceIte] at h
    simp only [h c (by omega)]
  · rfl

theorem mand_fold_congr_choice (o o' : Oracles) (ms : List Nat) (st : Trans × Nat)
    (h : AgreeC (ms.foldl (mandStep o) st).2 o.choice o'.choice) :
    ms.foldl (mandStep o') st = ms.foldl (mandStep o) st := by
  induction ms generalizing st with
  | nil => rfl
  | cons s ss ih =>
    simp only [List.foldl_cons] at h ⊢
    rw [mandStep_congr_choice o o' st s (h.mono (mand_fold_mono o ss _))]
    exact ih _ h

/-! ### phase 3 -/

theorem subFns_mono (tb : Tables) (d : Nat → Thr → Bool) (i : Nat) (trans : List Nat) (svc : Nat) :
    i ≤ (subFns tb d i trans svc).2 := by
  unfold subFns
  repeat' split
  all_goals simp

theorem subFns_congr (tb : Tables) {d d' : Nat → Thr → Bool} (i : Nat) (trans : List Nat) (svc : Nat)
    (h : AgreeD (subFns tb d i trans svc).2 d d') : subFns tb d' i trans svc = subFns tb d i trans svc := by
  unfold subFns at h ⊢
  by_cases h0 : tb.subFn.contains svc = true
  · rw [if_pos h0] at h ⊢
    rw [if_pos h0]
    by_cases h1 : svc = tb.tp
    · rw [if_pos h1, if_pos h1]
    · rw [if_neg h1] at h ⊢
      rw [if_neg h1]
      by_cases h2 : svc = tb.dsc
      · rw [if_pos h2, if_pos h2]
      · rw [if_neg h2] at h ⊢
        rw [if_neg h2]
        by_cases h3 : svc = tb.sa
        · rw [if_pos h3] at h ⊢
          rw [if_pos h3]
          rw [drawFilter_congr _ _ i h]
        · rw [if_neg h3] at h ⊢
          rw [if_neg h3]
          by_cases h4 : svc = tb.rc
          · rw [if_pos h4, if_pos h4]
          · rw [if_neg h4] at h ⊢
            rw [if_neg h4]
            by_cases h5 : svc = tb.dtc
            · rw [if_pos h5, if_pos h5]
            · rw [if_neg h5] at h ⊢
              rw [if_neg h5]
              rw [drawFilter_congr _ _ i h]
  · rw [if_neg h0, if_neg h0]

theorem svc_fold_mono (tb : Tables) (d : Nat → Thr → Bool) (trans : List Nat) (svcs : List Nat) (st : SvcMap × Nat) :
    st.2 ≤ (svcs.foldl (svcStep tb d trans) st).2 := by
  induction svcs generalizing st with
  | nil => simp
  | cons s ss ih =>
    obtain ⟨m, i⟩ := st
    simp only [List.foldl_cons, svcStep]
    exact Nat.le_trans (subFns_mono tb d i trans s) (ih (dictSet m s (subFns tb d i trans s).1, (subFns tb d i trans s).2))

theorem svc_fold_congr (tb : Tables) {d d' : Nat → Thr → Bool} (trans : List Nat) (svcs : List Nat) (st : SvcMap × Nat)
    (h : AgreeD (svcs.foldl (svcStep tb d trans) st).2 d d') :
    svcs.foldl (svcStep tb d' trans) st = svcs.foldl (svcStep tb d trans) st := by
  induction svcs generalizing st with
  | nil => rfl
  | cons s ss ih =>
    obtain ⟨m, i⟩ := st
    simp only [List.foldl_cons, svcStep] at h ⊢
    rw [subFns_congr tb i trans s
      (h.mono (svc_fold_mono tb d trans ss (dictSet m s (subFns tb d i trans s).1, (subFns tb d i trans s).2)))]
    exact ih _ h

theorem sessionStep_mono (tb : Tables) (p : Params) (d : Nat → Thr → Bool) (t : Trans) (st : Model × Nat) (s : Nat) :
    st.2 ≤ (sessionStep tb p d t st s).2 := by
  obtain ⟨m, i⟩ := st
  simp only [sessionStep]
  split
  · exact Nat.le_refl _
  · exact Nat.le_trans (Nat.le_add_right i p.optionalServices.length)
      (svc_fold_mono tb d (t s) _ ([], i + p.optionalServices.length))

theorem sessionStep_congr_draw (tb : Tables) (p : Params) {d d' : Nat → Thr → Bool} (t : Trans) (st : Model × Nat) (s : Nat)
    (h : AgreeD (sessionStep tb p d t st s).2 d d') : sessionStep tb p d' t st s = sessionStep tb p d t st s := by
  obtain ⟨m, i⟩ := st
  simp only [sessionStep] at h ⊢
  split
  · rfl
  · rename_i hne
    simp only [hne, Bool.false_eq_true, ↓reduceIte] at h
    have h1 := drawFilter_congr .service p.optionalServices i
      (h.mono (svc_fold_mono tb d _ _ ([], i + p.optionalServices.length)))
    rw [← h1, svc_fold_congr tb (t s) _ ([], i + p.optionalServices.length) h]

theorem session_fold_mono (tb : Tables) (p : Params) (d : Nat → Thr → Bool) (t : Trans) (ss : List Nat) (st : Model × Nat) :
    st.2 ≤ (ss.foldl (sessionStep tb p d t) st).2 := by
  induction ss generalizing st with
  | nil => simp
  | cons s ss ih => exact Nat.le_trans (sessionStep_mono tb p d t st s) (ih _)

theorem session_fold_congr (tb : Tables) (p : Params) {d d' : Nat → Thr → Bool} (t : Trans) (ss : List Nat) (st : Model × Nat)
    (h : AgreeD (ss.foldl (sessionStep tb p d t) st).2 d d') :
    ss.foldl (sessionStep tb p d' t) st = ss.foldl (sessionStep tb p d t) st := by
  induction ss generalizing st with
  | nil => rfl
  | cons s ss ih =>
    simp only [List.foldl_cons] at h ⊢
    rw [sessionStep_congr_draw tb p t st s (h.mono (session_fold_mono tb p d t ss _))]
    exact ih _ h

/-- **finite dependence**: `randomize` reads the draw stream only below `draws` and the choice stream only below
    `choices`; streams that agree on these prefixes give the same model, counters and set orders -/
theorem randomizePyGen_prefix (tb : Tables) (p : Params) (d d' : Nat → Thr → Bool) (c c' : Nat → Nat)
    (hd : AgreeD (randomizePyGen tb p d c).draws d d') (hc : AgreeC (randomizePyGen tb p d c).choices c c') :
    randomizePyGen tb p d' c' = randomizePyGen tb p d c := by
  simp only [randomizePyGen] at hd hc ⊢
  have hl := levelsPy_congr (p.mandatorySessions ++ p.optionalSessions) (d := d) (d' := d') (nSessions + 1) initTrans
    (PySet.ofList [defaultSession]) 0 0 (hd.mono (session_fold_mono tb p d _ (List.range nSessions)
      ([], (levelsPy (p.mandatorySessions ++ p.optionalSessions) d (nSessions + 1) initTrans
        (PySet.ofList [defaultSession]) 0 0).2.1)))
  have hm := mand_fold_congr_choice (noOrder d c) (noOrder d' c') p.mandatorySessions
    ((levelsPy (p.mandatorySessions ++ p.optionalSessions) d (nSessions + 1) initTrans
      (PySet.ofList [defaultSession]) 0 0).1, 0) hc
  rw [hl, hm, session_fold_congr tb p _ _ _ hd]

end Gallia.Randomize
