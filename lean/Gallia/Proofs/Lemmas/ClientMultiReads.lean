import Gallia.Proofs.Lemmas.ClientMulti
/-
  C05 (widened) — what a task has read: every message a task consumed was the head of the shared inbox and was classified
  by `parsePdu` against the request of the round it was read in (`classified`), and every consuming read among the await
  points a task has completed has its message on record (`current`, `earlier`).  Preserved by every scheduling decision.
-/
namespace Gallia.ClientMulti
open Gallia Gallia.Client Gallia.ClientIO Gallia.ClientConc

/-- every consuming read among `l` (await points of round `n`) has its message recorded -/
def Covered (rnd : Round) (n : Nat) (reads : List (Nat × Nat × Bytes)) (l : List Act) : Prop :=
  ∀ k tmo d, Act.io (.rd k tmo d) ∈ l → consuming (rnd.rd k) = true → ∃ b, (n, k, b) ∈ reads

/-- the task is running its program -/
def Active (ph : Phase) : Prop := ph = .idle ∨ ph = .waiting ∨ ph = .holding

theorem Active.ne_unborn {ph : Phase} (h : Active ph) : ph ≠ .unborn := by
  rcases h with h | h | h <;> (rw [h]; intro e; cases e)

structure ReadsOk (p : Prog) (ts : TState) : Prop where
  classified : ∀ n k b, (n, k, b) ∈ ts.reads →
    classify (p.round n).req b = (p.round n).rd k ∧ consuming ((p.round n).rd k) = true ∧
    ∃ tmo d, Act.io (.rd k tmo d) ∈ (p.round n).acts
  current : ts.aborted = false → ts.phase ≠ .unborn → p.hasRound ts.round = true →
    ∃ pre, (p.round ts.round).acts = pre ++ ts.todo ∧ Covered (p.round ts.round) ts.round ts.reads pre
  earlier : ts.aborted = false → ∀ m, m < ts.round → p.hasRound m = true → Covered (p.round m) m ts.reads (p.round m).acts
  roundOk : ts.round = 0 ∨ p.hasRound ts.round = true
  fresh : ts.phase = .unborn → ts.round = 0 ∧ ts.reads = [] ∧ ts.aborted = false
  alive : Active ts.phase → ts.aborted = false ∧ p.hasRound ts.round = true

theorem covered_mono {rnd : Round} {n : Nat} {r r' : List (Nat × Nat × Bytes)} {l : List Act}
    (h : Covered rnd n r l) (hs : ∀ x, x ∈ r → x ∈ r') : Covered rnd n r' l := by
  intro k tmo d hm hc
  obtain ⟨b, hb⟩ := h k tmo d hm hc
  exact ⟨b, hs _ hb⟩

theorem readsOk_unborn (p : Prog) : ReadsOk p {} := by
  refine ⟨(by intro n k b h; cases h), (by intro _ h; exact absurd rfl h), (by intro _ m h; cases h), .inl rfl, fun _ => ⟨rfl, rfl, rfl⟩, ?_⟩
  intro h; exact absurd rfl h.ne_unborn

theorem readsOk_start (p : Prog) : ReadsOk p (TState.start p) := by
  unfold TState.start
  split
  · rename_i hr
    refine ⟨(by intro n k b h; cases h), ?_, (by intro _ m h; cases h), .inl rfl, (by intro h; cases h), fun _ => ⟨rfl, hr⟩⟩
    intro _ _ _
    exact ⟨[], rfl, by intro k tmo d h; cases h⟩
  · rename_i hr
    refine ⟨(by intro n k b h; cases h), ?_, (by intro _ m h; cases h), .inl rfl, (by intro h; cases h), ?_⟩
    · intro _ _ h
      exact absurd h hr
    · intro h; rcases h with h | h | h <;> cases h

/-- the current round is finished -/
theorem readsOk_nextRound (p : Prog) (t : Tid) (ts : TState) (h : ReadsOk p ts) (htodo : ts.todo = [])
    (hact : Active ts.phase) : ReadsOk p (nextRound p t ts).1 := by
  have hph := hact.ne_unborn
  unfold nextRound
  split
  · rename_i hr
    refine ⟨h.classified, ?_, ?_, .inr hr, (by intro e; exact absurd e hph), fun _ => ⟨(h.alive hact).1, hr⟩⟩
    · intro _ _ _
      exact ⟨[], rfl, by intro k tmo d hm; cases hm⟩
    · intro ha m hm hrm
      by_cases hlt : m < ts.round
      · exact h.earlier ha m hlt hrm
      · have : m = ts.round := by simp at hm; omega
        subst this
        obtain ⟨pre, hpre, hc⟩ := h.current ha hph hrm
        rw [htodo, List.append_nil] at hpre
        rw [hpre]; exact hc
  · refine ⟨h.classified, ?_, h.earlier, h.roundOk, (by intro e; cases e), ?_⟩
    · intro ha _ hr
      exact h.current ha hph hr
    · intro e; rcases e with e | e | e <;> cases e

theorem readsOk_settle (p : Prog) (t : Tid) (ts : TState) (h : ReadsOk p ts) (hact : Active ts.phase) :
    ReadsOk p (settle p t ts).1 := by
  unfold settle
  split
  · rename_i e; exact readsOk_nextRound p t ts h e hact
  · exact h

/-- an await point that hands no message to the task is completed; the phase may change -/
theorem readsOk_pop (p : Prog) (ts : TState) (h : ReadsOk p ts) (a : Act) (rest : List Act) (htodo : ts.todo = a :: rest)
    (hact : Active ts.phase) (hnr : ∀ k tmo d, a = .io (.rd k tmo d) → consuming ((p.round ts.round).rd k) = false)
    (ts1 : TState) (h1 : ts1.todo = rest) (h2 : ts1.round = ts.round) (h3 : ts1.reads = ts.reads)
    (h4 : ts1.aborted = ts.aborted) (h5 : ts1.phase ≠ .unborn) : ReadsOk p ts1 := by
  have hph := hact.ne_unborn
  refine ⟨by rw [h3]; exact h.classified, ?_, by rw [h4, h2, h3]; exact h.earlier, by rw [h2]; exact h.roundOk,
    (by intro e; exact absurd e h5), (by intro _; rw [h4, h2]; exact h.alive hact)⟩
  intro ha _ hr
  rw [h4] at ha; rw [h2] at hr
  obtain ⟨pre, hpre, hc⟩ := h.current ha hph hr
  refine ⟨pre ++ [a], by rw [h2, h1, hpre, htodo]; simp, ?_⟩
  rw [h2, h3]
  intro k tmo d hm hcons
  rw [List.mem_append] at hm
  rcases hm with hm | hm
  · exact hc k tmo d hm hcons
  · simp at hm
    have := hnr k tmo d hm.symm
    rw [this] at hcons; cases hcons

/-- a read that consumes message `b` is completed -/
theorem readsOk_popRead (p : Prog) (ts : TState) (h : ReadsOk p ts) (k : Nat) (tmo : Option Nat) (d : Nat) (rest : List Act)
    (htodo : ts.todo = .io (.rd k tmo d) :: rest) (hact : Active ts.phase) (b : Bytes)
    (hcl : classify (p.round ts.round).req b = (p.round ts.round).rd k) (hco : consuming ((p.round ts.round).rd k) = true)
    (ts1 : TState) (h1 : ts1.todo = rest) (h2 : ts1.round = ts.round) (h3 : ts1.reads = ts.reads ++ [(ts.round, k, b)])
    (h4 : ts1.aborted = ts.aborted) (h5 : ts1.phase ≠ .unborn) : ReadsOk p ts1 := by
  have hph := hact.ne_unborn
  have hsub : ∀ x, x ∈ ts.reads → x ∈ ts1.reads := by intro x hx; rw [h3]; exact List.mem_append_left _ hx
  obtain ⟨hab, hrnd⟩ := h.alive hact
  refine ⟨?_, ?_, ?_, by rw [h2]; exact h.roundOk, (by intro e; exact absurd e h5), (by intro _; rw [h4, h2]; exact ⟨hab, hrnd⟩)⟩
  · intro n k' b' hm
    rw [h3, List.mem_append] at hm
    rcases hm with hm | hm
    · exact h.classified n k' b' hm
    · simp at hm; obtain ⟨rfl, rfl, rfl⟩ := hm
      obtain ⟨pre, hpre, _⟩ := h.current hab hph hrnd
      exact ⟨hcl, hco, tmo, d, by rw [hpre, htodo]; simp⟩
  · intro ha _ hr
    rw [h4] at ha; rw [h2] at hr
    obtain ⟨pre, hpre, hc⟩ := h.current ha hph hr
    refine ⟨pre ++ [.io (.rd k tmo d)], by rw [h2, h1, hpre, htodo]; simp, ?_⟩
    rw [h2]
    intro k' tmo' d' hm hcons
    rw [List.mem_append] at hm
    rcases hm with hm | hm
    · obtain ⟨b', hb'⟩ := hc k' tmo' d' hm hcons
      exact ⟨b', hsub _ hb'⟩
    · simp at hm; obtain ⟨rfl, rfl, rfl⟩ := hm
      exact ⟨b, by rw [h3]; simp⟩
  · intro ha m hm hrm
    rw [h4] at ha; rw [h2] at hm
    exact covered_mono (h.earlier ha m hm hrm) hsub

theorem readInbox_cases (rnd : Round) (n k : Nat) (ts ts1 : TState) (ib ib' : List Bytes)
    (h : readInbox rnd n k ts ib = some (ts1, ib')) :
    (consuming (rnd.rd k) = false ∧ ts1 = ts) ∨
    (∃ b, ib = b :: ib' ∧ classify rnd.req b = rnd.rd k ∧ consuming (rnd.rd k) = true ∧
      ts1 = { ts with reads := ts.reads ++ [(n, k, b)] }) := by
  unfold readInbox at h
  split at h
  · rename_i he
    split at h
    · injection h with h; injection h with h1 h2; subst h1; exact .inl ⟨by rw [he]; rfl, rfl⟩
    · cases h
  · rename_i he; injection h with h; injection h with h1 h2; subst h1; exact .inl ⟨by rw [he]; rfl, rfl⟩
  · rename_i he; injection h with h; injection h with h1 h2; subst h1; exact .inl ⟨by rw [he]; rfl, rfl⟩
  · rename_i e hn1 hn2 hn3
    split at h
    · rename_i b rest
      split at h
      · rename_i hcl
        injection h with h; injection h with h1 h2; subst h1; subst h2
        refine .inr ⟨b, rfl, hcl, ?_, rfl⟩
        cases hev : rnd.rd k <;> simp_all [consuming]
      · cases h
    · cases h

theorem readsOk_upd (P : Progs) (f : Tid → TState) (hr : ∀ u, ReadsOk (P u) (f u)) (t : Tid) (ts : TState)
    (h : ReadsOk (P t) ts) : ∀ u, ReadsOk (P u) (upd f t ts u) := by
  intro u
  by_cases hu : u = t
  · subst hu; simpa using h
  · rw [upd_other _ _ _ _ hu]; exact hr u

theorem exec_readsOk (P : Progs) (s : MSys) (hr : ∀ u, ReadsOk (P u) (s.tasks u)) (t : Tid) (a : Act) (rest : List Act)
    (hc : (s.tasks t).phase = .idle ∨ (s.tasks t).phase = .holding) (htodo : (s.tasks t).todo = a :: rest)
    (s' : MSys) (evs : List Event) (h : exec P s t { s.tasks t with todo := rest } a = some (s', evs)) :
    ∀ u, ReadsOk (P u) (s'.tasks u) := by
  have hact : Active (s.tasks t).phase := by rcases hc with hc | hc <;> simp [Active, hc]
  have hph : (s.tasks t).phase ≠ .unborn := hact.ne_unborn
  -- the generic case: `a` hands no message to the task; `ts1` = state with `a` popped and possibly another phase
  have pop : ∀ ts1 : TState, ts1.todo = rest → ts1.round = (s.tasks t).round → ts1.reads = (s.tasks t).reads →
      ts1.aborted = (s.tasks t).aborted → ts1.phase ≠ .unborn →
      (∀ k tmo d, a = .io (.rd k tmo d) → consuming (((P t).round (s.tasks t).round).rd k) = false) →
      ReadsOk (P t) ts1 := by
    intro ts1 h1 h2 h3 h4 h5 hnr
    exact readsOk_pop (P t) (s.tasks t) (hr t) a rest htodo hact hnr ts1 h1 h2 h3 h4 h5
  cases a with
  | acquire =>
    simp only [exec] at h; injection h with h; injection h with h1 h2; subst h1
    exact readsOk_upd P _ hr t _ (pop _ rfl rfl rfl rfl (by intro e; cases e) (by intro k tmo d e; cases e))
  | release =>
    simp only [exec] at h
    split at h
    · injection h with h; injection h with h1 h2; subst h1
      refine readsOk_upd P _ hr t _ ?_
      have hx := hr t
      refine ⟨hx.classified, (by intro e; cases e), (by intro e; cases e), hx.roundOk, (by intro e; cases e), (by intro e; rcases e with e | e | e <;> cases e)⟩
    · injection h with h; injection h with h1 h2; subst h1
      refine readsOk_upd P _ hr t _ (readsOk_settle (P t) t _ ?_ (.inl rfl))
      exact pop _ rfl rfl rfl rfl (by intro e; cases e) (by intro k tmo d e; cases e)
  | io o =>
    cases o with
    | rd k tmo d =>
      simp only [exec] at h
      split at h
      · cases h
      · rename_i ts1 ib hrd
        injection h with h; injection h with h1 h2; subst h1
        refine readsOk_upd P _ hr t _ (readsOk_settle (P t) t _ ?_ ?_)
        · rcases readInbox_cases _ _ _ _ _ _ _ hrd with ⟨hnc, rfl⟩ | ⟨b, _, hcl, hco, rfl⟩
          · exact pop _ rfl rfl rfl rfl hph (by intro k' tmo' d' e; injection e with e; injection e with e1; subst e1; exact hnc)
          · exact readsOk_popRead (P t) (s.tasks t) (hr t) k tmo d rest htodo hact b hcl hco _ rfl rfl rfl rfl hph
        · show Active ts1.phase
          rw [(readInbox_same _ _ _ _ _ _ _ hrd).1]; exact hact
    | wr a r d =>
      simp only [exec] at h; injection h with h; injection h with h1 h2; subst h1
      exact readsOk_upd P _ hr t _ (readsOk_settle (P t) t _ (pop _ rfl rfl rfl rfl hph (by intro k tmo d e; cases e)) hact)
    | sl d =>
      simp only [exec] at h; injection h with h; injection h with h1 h2; subst h1
      exact readsOk_upd P _ hr t _ (readsOk_settle (P t) t _ (pop _ rfl rfl rfl rfl hph (by intro k tmo d e; cases e)) hact)
    | rc r =>
      simp only [exec] at h; injection h with h; injection h with h1 h2; subst h1
      exact readsOk_upd P _ hr t _ (readsOk_settle (P t) t _ (pop _ rfl rfl rfl rfl hph (by intro k tmo d e; cases e)) hact)
  | spawn w =>
    simp only [exec] at h
    split at h
    · cases h
    · injection h with h; injection h with h1 h2; subst h1
      have hs1 : ∀ u, ReadsOk (P u) ((if (s.tasks w).phase = .unborn then s.setTask w (TState.start (P w)) else s).tasks u) := by
        split
        · exact readsOk_upd P _ hr w _ (readsOk_start (P w))
        · exact hr
      exact readsOk_upd P _ hs1 t _ (readsOk_settle (P t) t _ (pop _ rfl rfl rfl rfl hph (by intro k tmo d e; cases e)) hact)
  | stop w =>
    simp only [exec] at h
    split at h
    · cases h
    · injection h with h; injection h with h1 h2; subst h1
      have hs1 : ∀ u, ReadsOk (P u) ((if (s.tasks w).phase = .done then s else s.setTask w { s.tasks w with stopReq := true }).tasks u) := by
        split
        · exact hr
        · refine readsOk_upd P _ hr w _ ?_
          have hx := hr w
          exact ⟨hx.classified, hx.current, hx.earlier, hx.roundOk, hx.fresh, hx.alive⟩
      exact readsOk_upd P _ hs1 t _ (readsOk_settle (P t) t _ (pop _ rfl rfl rfl rfl hph (by intro k tmo d e; cases e)) hact)
  | join w =>
    simp only [exec] at h
    split at h
    · injection h with h; injection h with h1 h2; subst h1
      exact readsOk_upd P _ hr t _ (readsOk_settle (P t) t _ (pop _ rfl rfl rfl rfl hph (by intro k tmo d e; cases e)) hact)
    · cases h

theorem readsOk_dead (p : Prog) (ts : TState) (h : ReadsOk p ts) :
    ReadsOk p { ts with phase := .done, todo := [], aborted := true, stopReq := false } :=
  ⟨h.classified, (by intro e; cases e), (by intro e; cases e), h.roundOk, (by intro e; cases e),
    (by intro e; rcases e with e | e | e <;> cases e)⟩

theorem step_readsOk (P : Progs) (s s' : MSys) (c : Choice) (hr : ∀ u, ReadsOk (P u) (s.tasks u))
    (h : mstep P s c = some s') : ∀ u, ReadsOk (P u) (s'.tasks u) := by
  obtain ⟨s1, evs, hm, rfl⟩ := mstep_eq P s s' c h
  show ∀ u, ReadsOk (P u) (s1.tasks u)
  cases c with
  | deliver b => simp only [mstepE] at hm; injection hm with hm; injection hm with h1 h2; subst h1; exact hr
  | cancel t =>
    simp only [mstepE] at hm
    split at hm
    · cases hm
    all_goals
      injection hm with hm; injection hm with h1 h2; subst h1
      exact readsOk_upd P _ hr t _ (readsOk_dead (P t) _ (hr t))
  | run t =>
    simp only [mstepE] at hm
    split at hm
    · cases hm
    · split at hm
      · cases hm
      · cases hm
      · rename_i hp
        split at hm
        · split at hm
          · injection hm with hm; injection hm with h1 h2; subst h1
            refine readsOk_upd P _ hr t _ ?_
            have hx := hr t
            refine ⟨hx.classified, ?_, hx.earlier, hx.roundOk, (by intro e; cases e), fun _ => hx.alive (.inr (.inl hp))⟩
            intro ha _ hrr
            exact hx.current ha (by rw [hp]; intro e; cases e) hrr
          · cases hm
        · cases hm
      all_goals
        rename_i hp
        have hc : (s.tasks t).phase = .idle ∨ (s.tasks t).phase = .holding := by simp [hp]
        have hact : Active (s.tasks t).phase := by simp [Active, hp]
        split at hm
        · rename_i htd
          injection hm with hm; injection hm with h1 h2; subst h1
          exact readsOk_upd P _ hr t _ (readsOk_nextRound (P t) t _ (hr t) htd hact)
        · rename_i a rest htd
          exact exec_readsOk P s hr t a rest hc htd s1 evs hm

theorem init_readsOk (P : Progs) (born : Tid → Bool) : ∀ u, ReadsOk (P u) ((MSys.init P born).tasks u) := by
  intro u
  simp only [MSys.init]
  split
  · exact readsOk_start (P u)
  · exact readsOk_unborn (P u)

theorem run_readsOk (P : Progs) (cs : List Choice) (s s' : MSys) (hr : ∀ u, ReadsOk (P u) (s.tasks u))
    (h : mrun P s cs = some s') : ∀ u, ReadsOk (P u) (s'.tasks u) := by
  induction cs generalizing s with
  | nil => simp only [mrun] at h; injection h with h; subst h; exact hr
  | cons c cs ih =>
    simp only [mrun] at h
    cases hm : mstep P s c with
    | none => rw [hm] at h; cases h
    | some s1 => rw [hm] at h; exact ih s1 (step_readsOk P s s1 c hr hm) h

end Gallia.ClientMulti
