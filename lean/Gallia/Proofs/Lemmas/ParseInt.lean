import Gallia.Model.Parse
/-! C20 helper lemmas: integer notation (`autoIntL` reads every spelling back) -/
namespace Gallia.Parse

theorem digitVal_digitChar : ∀ (up : Bool) (d : Nat), d < 16 → digitVal (digitChar up d) = some d := by decide
theorem digitChar_ne_us : ∀ (up : Bool) (d : Nat), d < 16 → digitChar up d ≠ '_' := by decide

theorem digitsLE_ne_nil (b n : Nat) : digitsLE b n ≠ [] := by
  rw [digitsLE.eq_def]; split <;> simp

theorem digitsLE_lt {b : Nat} (hb : 2 ≤ b) (n : Nat) : ∀ d ∈ digitsLE b n, d < b := by
  fun_induction digitsLE b n with
  | case1 n h => intro d hd; simp at hd; omega
  | case2 n h ih =>
    intro d hd
    simp at hd
    rcases hd with rfl | hd
    · exact Nat.mod_lt _ (by omega)
    · exact ih d hd

theorem foldr_digitsLE {b : Nat} (_hb : 2 ≤ b) (n : Nat) :
    (digitsLE b n).foldr (fun d acc => acc * b + d) 0 = n := by
  fun_induction digitsLE b n with
  | case1 n h => simp
  | case2 n h ih =>
    simp only [List.foldr_cons, ih]
    have := Nat.div_add_mod n b
    rw [Nat.mul_comm]; omega

/-- value of a most-significant-first digit list -/
def valMSB (base : Nat) (acc : Nat) (ds : List Nat) : Nat := ds.foldl (fun a d => a * base + d) acc

theorem parseDigits_true_cons {base acc : Nat} {c : Char} {cs : Str} (h : c ≠ '_') :
    parseDigits base acc true (c :: cs) = parseDigits base acc false (c :: cs) := by
  simp [parseDigits, h]

theorem groupUs_cons (c : Char) (cs : Str) (m : List Bool) : ∃ t, groupUs (c :: cs) m = c :: t := by
  cases cs with
  | nil => exact ⟨[], rfl⟩
  | cons c' cs' => exact ⟨_, rfl⟩

theorem parseDigits_groupUs (base : Nat) (hb : base ≤ 16) (up : Bool) :
    ∀ (ds : List Nat) (m : List Bool) (acc : Nat), ds ≠ [] → (∀ d ∈ ds, d < base) →
      parseDigits base acc false (groupUs (ds.map (digitChar up)) m) = some (valMSB base acc ds) := by
  intro ds
  induction ds with
  | nil => intro m acc h; exact absurd rfl h
  | cons d ds ih =>
    intro m acc _ hlt
    have hd : d < base := hlt d (by simp)
    have hd16 : d < 16 := by omega
    cases ds with
    | nil =>
      simp [groupUs, parseDigits, digitChar_ne_us up d hd16, digitVal_digitChar up d hd16, hd, valMSB]
    | cons d' ds' =>
      have ih' := ih m.tail (acc * base + d) (by simp) (fun x hx => hlt x (by simp at hx ⊢; right; exact hx))
      simp only [List.map_cons, groupUs] at ih' ⊢
      rw [parseDigits]
      simp only [digitChar_ne_us up d hd16, if_false, digitVal_digitChar up d hd16, hd, if_true]
      cases hm : m.headD false
      · simpa [valMSB] using ih'
      · simp only [if_true, List.cons_append, List.nil_append]
        rw [parseDigits]
        simp only [if_true, Bool.false_eq_true, if_false]
        obtain ⟨t, ht⟩ := groupUs_cons (digitChar up d') (List.map (digitChar up) ds') m.tail
        rw [ht] at ih' ⊢
        rw [parseDigits_true_cons (digitChar_ne_us up d' (by have := hlt d' (by simp); omega))]
        simpa [valMSB] using ih'

theorem radix_ge (b : Base) : 2 ≤ b.radix := by cases b <;> simp [Base.radix]
theorem radix_le (b : Base) : b.radix ≤ 16 := by cases b <;> simp [Base.radix]

def digs (sp : Spelling) (n : Nat) : List Nat :=
  List.replicate (if sp.base = .dec then 0 else sp.zeros) 0 ++ (digitsLE sp.base.radix n).reverse

theorem digitStr_eq (sp : Spelling) (n : Nat) :
    digitStr sp n = groupUs ((digs sp n).map (digitChar sp.upper)) sp.us := by
  unfold digitStr digs
  have h0 : digitChar sp.upper 0 = '0' := by cases sp.upper <;> rfl
  split <;> simp [List.map_append, List.map_replicate, h0]

theorem digs_ne_nil (sp : Spelling) (n : Nat) : digs sp n ≠ [] := by
  unfold digs
  simp [digitsLE_ne_nil]

theorem digs_lt (sp : Spelling) (n : Nat) : ∀ d ∈ digs sp n, d < sp.base.radix := by
  intro d hd
  unfold digs at hd
  simp only [List.mem_append, List.mem_replicate, List.mem_reverse] at hd
  rcases hd with ⟨_, rfl⟩ | hd
  · have := radix_ge sp.base; omega
  · exact digitsLE_lt (radix_ge _) n d hd

theorem valMSB_replicate_zero (base k : Nat) : valMSB base 0 (List.replicate k 0) = 0 := by
  induction k with
  | zero => rfl
  | succ k ih => simpa [valMSB, List.replicate_succ] using ih

theorem valMSB_digs (sp : Spelling) (n : Nat) : valMSB sp.base.radix 0 (digs sp n) = n := by
  unfold digs valMSB
  rw [List.foldl_append]
  have := valMSB_replicate_zero sp.base.radix (if sp.base = .dec then 0 else sp.zeros)
  unfold valMSB at this
  rw [this, List.foldl_reverse]
  exact foldr_digitsLE (radix_ge _) n

theorem parseBody_cons {base : Nat} {c : Char} {t : Str} (h : c ≠ '_') :
    parseBody base (c :: t) = parseDigits base 0 false (c :: t) := by
  simp [parseBody, h]

theorem parseBody_digitStr (sp : Spelling) (n : Nat) : parseBody sp.base.radix (digitStr sp n) = some n := by
  rw [digitStr_eq]
  have hne := digs_ne_nil sp n
  have hlt := digs_lt sp n
  have key := parseDigits_groupUs sp.base.radix (radix_le _) sp.upper (digs sp n) sp.us 0 hne hlt
  rw [valMSB_digs] at key
  cases hd : digs sp n with
  | nil => exact absurd hd hne
  | cons d ds =>
    rw [hd] at key
    simp only [List.map_cons] at key ⊢
    obtain ⟨t, ht⟩ := groupUs_cons (digitChar sp.upper d) (ds.map (digitChar sp.upper)) sp.us
    rw [ht] at key ⊢
    rw [parseBody_cons (digitChar_ne_us _ d (by have := hlt d (by simp [hd]); have := radix_le sp.base; omega))]
    exact key

theorem digitsLE_getLast_pos {b : Nat} (hb : 2 ≤ b) (n : Nat) (hn : 0 < n) :
    ∀ h, 0 < (digitsLE b n).getLast h := by
  fun_induction digitsLE b n with
  | case1 n h => intro _; simpa using hn
  | case2 n h ih =>
    intro _
    have hdiv : 0 < n / b := Nat.div_pos (by omega) (by omega)
    rw [List.getLast_cons (digitsLE_ne_nil _ _)]
    exact ih hdiv _

theorem digitChar_ne_zero : ∀ (up : Bool) (d : Nat), d < 16 → 0 < d → digitChar up d ≠ '0' := by decide

theorem digitStr_head (sp : Spelling) (n : Nat) :
    ∃ d t, digs sp n = d :: List.drop 1 (digs sp n) ∧ d < sp.base.radix ∧ digitStr sp n = digitChar sp.upper d :: t := by
  cases hd : digs sp n with
  | nil => exact absurd hd (digs_ne_nil sp n)
  | cons d ds =>
    obtain ⟨t, ht⟩ := groupUs_cons (digitChar sp.upper d) (ds.map (digitChar sp.upper)) sp.us
    refine ⟨d, t, by simp, digs_lt sp n d (by simp [hd]), ?_⟩
    rw [digitStr_eq, hd]; simpa using ht

theorem dropUs_digitStr (sp : Spelling) (n : Nat) : dropUs (digitStr sp n) = digitStr sp n := by
  obtain ⟨d, t, _, hlt, h⟩ := digitStr_head sp n
  rw [h]
  have := digitChar_ne_us sp.upper d (by have := radix_le sp.base; omega)
  simp [dropUs, this]

theorem dropUs_us (s : Str) : dropUs ('_' :: s) = s := by simp [dropUs]

theorem parseMag_head_ne_zero {c : Char} {t : Str} (h : c ≠ '0') : parseMag (c :: t) = parseBody 10 (c :: t) := by
  unfold parseMag
  split
  · rename_i heq; simp at heq; exact absurd heq.1 h
  · rfl

theorem parseMag_dec (sp : Spelling) (hb : sp.base = .dec) (n : Nat) : parseMag (digitStr sp n) = some n := by
  have hr : sp.base.radix = 10 := by rw [hb]; rfl
  by_cases hn : n = 0
  · subst hn
    have : digitStr sp 0 = ['0'] := by
      rw [digitStr_eq]; unfold digs; rw [hr, hb, digitsLE.eq_def]; cases sp.upper <;> simp [groupUs, digitChar]
    rw [this]; decide
  · obtain ⟨d, t, hd, hlt, h⟩ := digitStr_head sp n
    have hpos : 0 < d := by
      have hdigs : digs sp n = (digitsLE 10 n).reverse := by unfold digs; simp [hb, Base.radix]
      have hne := digitsLE_ne_nil 10 n
      have := digitsLE_getLast_pos (b := 10) (by omega) n (by omega) hne
      rw [hdigs] at hd
      have h2 : (digitsLE 10 n).reverse.head? = some d := by rw [hd]; rfl
      rw [List.head?_reverse, List.getLast?_eq_some_getLast hne] at h2
      simp at h2; omega
    have := parseBody_digitStr sp n
    rw [hr] at this hlt
    rw [h] at this ⊢
    rw [parseMag_head_ne_zero (digitChar_ne_zero _ d (by omega) hpos)]
    exact this

theorem parseMag_spellNat (sp : Spelling) (n : Nat) : parseMag (spellNat sp n) = some n := by
  have hb := parseBody_digitStr sp n
  have hd := dropUs_digitStr sp n
  unfold spellNat
  cases hbase : sp.base with
  | dec => simpa [prefixOf] using parseMag_dec sp hbase n
  | hex =>
    rw [hbase] at hb
    cases sp.upper <;> cases sp.usP <;> simp [prefixOf, parseMag, dropUs_us, hd] <;> exact hb
  | oct =>
    rw [hbase] at hb
    cases sp.upper <;> cases sp.usP <;> simp [prefixOf, parseMag, dropUs_us, hd] <;> exact hb
  | bin =>
    rw [hbase] at hb
    cases sp.upper <;> cases sp.usP <;> simp [prefixOf, parseMag, dropUs_us, hd] <;> exact hb

/-! ### character classes -/

/-- characters a spelled natural number is made of -/
def numChar (c : Char) : Bool := c.isAlphanum || c == '_'

/-- separators of the grammars; none of them can occur inside a number -/
def seps : List Char := [' ', '\t', '\n', '\r', Char.ofNat 11, Char.ofNat 12, '-', '+', ',', ':', '&', '=', '?', '#', '/', '[', ']']

theorem numChar_seps : ∀ x ∈ seps, numChar x = false := by decide

theorem numChar_not_sep {c : Char} (h : numChar c = true) : c ∉ seps := by
  intro hm; have := numChar_seps c hm; simp_all

theorem isWs_mem {c : Char} (h : isWs c = true) : c ∈ [' ', '\t', '\n', '\r', Char.ofNat 11, Char.ofNat 12] := by
  simp only [isWs, Bool.or_eq_true, beq_iff_eq] at h
  simp only [List.mem_cons, List.not_mem_nil, or_false]
  grind

theorem numChar_not_ws {c : Char} (h : numChar c = true) : isWs c = false := by
  cases hw : isWs c with
  | false => rfl
  | true =>
    have := isWs_mem hw
    have h2 : c ∈ seps := by
      simp only [seps]; simp only [List.mem_cons, List.not_mem_nil, or_false] at this ⊢; grind
    exact absurd h2 (numChar_not_sep h)

theorem dropWhile_all_append {p : Char → Bool} (l s : Str) (h : ∀ c ∈ l, p c = true) :
    (l ++ s).dropWhile p = s.dropWhile p := by
  induction l with
  | nil => rfl
  | cons a l ih =>
    have ha := h a (by simp)
    simp only [List.cons_append, List.dropWhile_cons, ha, if_true]
    exact ih (fun c hc => h c (by simp [hc]))

theorem trim_pad (l core r : Str) (hl : ∀ c ∈ l, isWs c = true) (hr : ∀ c ∈ r, isWs c = true)
    (hne : core ≠ []) (hh : ∀ c ∈ core, isWs c = false) : trim (l ++ core ++ r) = core := by
  unfold trim
  rw [List.append_assoc, dropWhile_all_append l _ hl]
  cases core with
  | nil => exact absurd rfl hne
  | cons c cs =>
    have hc := hh c (by simp)
    simp only [List.cons_append, List.dropWhile_cons, hc, Bool.false_eq_true, if_false]
    rw [← List.cons_append, List.reverse_append, dropWhile_all_append _ _ (by simpa using hr)]
    cases hrev : (c :: cs).reverse with
    | nil => simp at hrev
    | cons z zs =>
      have hmem : z ∈ (c :: cs).reverse := by rw [hrev]; simp
      have hz : isWs z = false := hh z (List.mem_reverse.mp hmem)
      simp only [List.dropWhile_cons, hz, Bool.false_eq_true, if_false]
      rw [← hrev, List.reverse_reverse]

theorem mem_groupUs (cs : Str) (m : List Bool) : ∀ c ∈ groupUs cs m, c ∈ cs ∨ c = '_' := by
  fun_induction groupUs cs m with
  | case1 => simp
  | case2 c m => simp
  | case3 c c' cs m ih =>
    intro x hx
    simp only [List.mem_cons, List.mem_append] at hx
    rcases hx with rfl | hx | hx
    · simp
    · split at hx <;> simp_all
    · rcases ih x hx with h | h
      · left; simp only [List.mem_cons] at h ⊢; right; exact h
      · right; exact h

theorem digitChar_numChar : ∀ (up : Bool) (d : Nat), d < 16 → numChar (digitChar up d) = true := by decide

theorem digitStr_numChar (sp : Spelling) (n : Nat) : ∀ c ∈ digitStr sp n, numChar c = true := by
  intro c hc
  rw [digitStr_eq] at hc
  rcases mem_groupUs _ _ c hc with h | rfl
  · simp only [List.mem_map] at h
    obtain ⟨d, hd, rfl⟩ := h
    exact digitChar_numChar _ d (by have := digs_lt sp n d hd; have := radix_le sp.base; omega)
  · decide

theorem spellNat_numChar (sp : Spelling) (n : Nat) : ∀ c ∈ spellNat sp n, numChar c = true := by
  intro c hc
  unfold spellNat at hc
  simp only [List.mem_append] at hc
  rcases hc with (hc | hc) | hc
  · revert hc; cases sp.base <;> cases sp.upper <;> simp [prefixOf] <;> (intro h; rcases h with rfl | rfl <;> decide)
  · split at hc
    · simp at hc; subst hc; decide
    · simp at hc
  · exact digitStr_numChar sp n c hc

theorem spellNat_ne_nil (sp : Spelling) (n : Nat) : spellNat sp n ≠ [] := by
  obtain ⟨d, t, _, _, h⟩ := digitStr_head sp n
  unfold spellNat; rw [h]; simp

theorem splitSign_num {c : Char} {t : Str} (h : numChar c = true) : splitSign (c :: t) = (false, c :: t) := by
  have hs := numChar_not_sep h
  have h1 : c ≠ '-' := by intro e; subst e; exact hs (by decide)
  have h2 : c ≠ '+' := by intro e; subst e; exact hs (by decide)
  simp [splitSign, h1, h2]

/-- the sign, then the magnitude -/
theorem autoIntL_core (sp : Spelling) (z : Int) :
    (let (neg, m) := splitSign (signStr sp z ++ spellNat sp z.natAbs); (parseMag m).map (applySign neg)) = some z := by
  have hm := parseMag_spellNat sp z.natAbs
  unfold signStr
  by_cases hz : z < 0
  · simp [hz, splitSign, hm, applySign]; omega
  · simp only [hz, if_false]
    by_cases hp : sp.plus = true
    · simp [hp, splitSign, hm, applySign]; omega
    · simp only [hp, Bool.false_eq_true, if_false, List.nil_append]
      cases hs : spellNat sp z.natAbs with
      | nil => exact absurd hs (spellNat_ne_nil _ _)
      | cons c t =>
        have hc : numChar c = true := spellNat_numChar sp z.natAbs c (by simp [hs])
        rw [splitSign_num hc]
        simp only [← hs, hm, Option.map_some, applySign]
        simp; omega

theorem spell_core_not_ws (sp : Spelling) (z : Int) : ∀ c ∈ signStr sp z ++ spellNat sp z.natAbs, isWs c = false := by
  intro c hc
  simp only [List.mem_append] at hc
  rcases hc with hc | hc
  · unfold signStr at hc
    split at hc
    · simp at hc; subst hc; decide
    · split at hc
      · simp at hc; subst hc; decide
      · simp at hc
  · exact numChar_not_ws (spellNat_numChar sp _ c hc)

theorem autoIntA_spell (sp : Spelling) (hl : ∀ c ∈ sp.wsL, isWs c = true) (hr : ∀ c ∈ sp.wsR, isWs c = true) (z : Int) :
    autoIntA (spell sp z) = some z := by
  unfold autoIntA spell
  rw [List.append_assoc sp.wsL, trim_pad sp.wsL _ sp.wsR hl hr (by simp [spellNat_ne_nil]) (spell_core_not_ws sp z)]
  exact autoIntL_core sp z

/-! ### the Unicode edge: `normChar` -/

theorem uniSpaces_ge : ∀ n ∈ uniSpaces, 128 ≤ n := by decide

theorem isUniSpace_ge {c : Char} (h : isUniSpace c = true) : 128 ≤ c.toNat := by
  unfold isUniSpace at h
  exact uniSpaces_ge _ (by simpa using h)

theorem isWs_lt {c : Char} (h : isWs c = true) : c.toNat < 128 := by
  have := isWs_mem h
  simp only [List.mem_cons, List.not_mem_nil, or_false] at this
  rcases this with rfl | rfl | rfl | rfl | rfl | rfl <;> decide

theorem normChar_ascii {c : Char} (h : c.toNat < 128) : normChar c = c := by simp [normChar, h]

theorem numChar_ascii {c : Char} (h : numChar c = true) : c.toNat < 128 := by
  simp only [numChar, Char.isAlphanum, Char.isAlpha, Char.isUpper, Char.isLower, Char.isDigit, Bool.or_eq_true,
    Bool.and_eq_true, decide_eq_true_eq, beq_iff_eq, ge_iff_le, UInt32.le_iff_toNat_le] at h
  have e : c.toNat = c.val.toNat := rfl
  rcases h with ((h | h) | h) | h
  · rw [e]; have := h.2; simp at this; omega
  · rw [e]; have := h.2; simp at this; omega
  · rw [e]; have := h.2; simp at this; omega
  · subst h; decide

/-- a character `int()` skips is, after normalisation, one of the six ASCII ones -/
theorem normChar_wsInt {c : Char} (h : isWsInt c = true) : isWs (normChar c) = true := by
  simp only [isWsInt, Bool.or_eq_true] at h
  rcases h with h | h
  · rw [normChar_ascii (isWs_lt h)]; exact h
  · have hge := isUniSpace_ge h
    have : ¬ c.toNat < 128 := by omega
    simp only [normChar, this, if_false, h, if_true]; decide

theorem map_normChar_ascii (s : Str) (h : ∀ c ∈ s, c.toNat < 128) : s.map normChar = s := by
  induction s with
  | nil => rfl
  | cons a t ih =>
    simp only [List.map_cons, normChar_ascii (h a (by simp))]
    rw [ih (fun c hc => h c (by simp [hc]))]

theorem spell_core_ascii (sp : Spelling) (z : Int) : ∀ c ∈ signStr sp z ++ spellNat sp z.natAbs, c.toNat < 128 := by
  intro c hc
  simp only [List.mem_append] at hc
  rcases hc with hc | hc
  · unfold signStr at hc
    split at hc
    · simp at hc; subst hc; decide
    · split at hc
      · simp at hc; subst hc; decide
      · simp at hc
  · exact numChar_ascii (spellNat_numChar sp _ c hc)

/-- the spelling whose surrounding white space has been normalised -/
def Spelling.norm (sp : Spelling) : Spelling := { sp with wsL := sp.wsL.map normChar, wsR := sp.wsR.map normChar }

theorem map_normChar_spell (sp : Spelling) (z : Int) : (spell sp z).map normChar = spell sp.norm z := by
  have hcore := map_normChar_ascii _ (spell_core_ascii sp z)
  have h1 : signStr sp.norm z = signStr sp z := rfl
  have h2 : spellNat sp.norm z.natAbs = spellNat sp z.natAbs := rfl
  unfold spell
  rw [h1, h2]
  simp only [List.map_append, List.append_assoc] at hcore ⊢
  rw [← List.append_assoc (List.map normChar (signStr sp z)), hcore]
  simp [Spelling.norm]

/-- every spelling, with any white space `int()` skips around it (ASCII or not), is read back -/
theorem autoIntL_spell (sp : Spelling) (hwf : sp.WF) (z : Int) : autoIntL (spell sp z) = some z := by
  unfold autoIntL
  rw [map_normChar_spell]
  apply autoIntA_spell
  · intro c hc
    simp only [Spelling.norm, List.mem_map] at hc
    obtain ⟨x, hx, rfl⟩ := hc
    exact normChar_wsInt (hwf.1 x hx)
  · intro c hc
    simp only [Spelling.norm, List.mem_map] at hc
    obtain ⟨x, hx, rfl⟩ := hc
    exact normChar_wsInt (hwf.2 x hx)

/-- the value of a text only depends on its normalised characters: any decimal digit may be replaced by the same digit
    of another script, any skipped space by any other -/
theorem autoIntL_congr (u s : Str) (h : u.map normChar = s.map normChar) : autoIntL u = autoIntL s := by
  unfold autoIntL; rw [h]

end Gallia.Parse
