import Gallia.Proofs.Lemmas.DoipSysCalls
/-
  Helper lemmas for C06 (DoIP, whole executions): *when* the alive-check responses are written - each at the instant
  of the event that completes its request (`exec_reply_times`).
-/
namespace Gallia.DoipSys
open Gallia Gallia.Framing Gallia.Doip Gallia.DoipFifo

variable (c : Cfg) (yields : Raw → Bool)

/-- the instants at which alive-check requests become complete while `ops` happen - determined by the byte stream
    and the clock alone -/
def alog (buf : Bytes) (now : Nat) : List Op → List Nat
  | [] => []
  | .feed chunk :: ops =>
    List.replicate (aliveReqs (pendItems buf chunk)) now ++ alog (parseAll doipCutter (buf ++ chunk)).2 now ops
  | .advance dt :: ops => alog buf (now + dt) ops
  | .activate _ _ :: ops => alog buf now ops
  | .write _ _ :: ops => alog buf now ops
  | .read _ :: ops => alog buf now ops
  | .close :: ops => alog buf now ops
  | .eof :: ops => alog buf now ops

theorem aliveReqs_cons (i : Item) (is : List Item) :
    aliveReqs (i :: is) = (if i = .alive then 1 else 0) + aliveReqs is := by
  by_cases h : i = .alive <;> simp [aliveReqs, h] <;> omega

/-- one `settle` on an open connection without a frame that cannot be unpacked: one response per complete alive-check
    request, each stamped with the current instant, whatever the schedule and whatever the client does -/
theorem settle_replies (s : Sys) (ho : s.closed = false) (hnf : noFatal s.buf []) :
    replies c (settle c yields s).out =
      replies c s.out ++ List.replicate (aliveReqs (pendItems s.buf [])) (s.now, aliveResp c) := by
  generalize hn : s.buf.length = n
  induction n using Nat.strongRecOn generalizing s with
  | _ n ih =>
    cases hc : cut s.buf with
    | none => rw [settle_none c yields s ho hc, clientRun_out, pendItems_none hc]; simp [aliveReqs]
    | some r =>
      obtain ⟨raw, rest⟩ := r
      have hl := cut_shrinks hc
      have hpi : pendItems s.buf [] = classify raw :: pendItems rest [] := pendItems_cut hc []
      have hnf1 : noFatal rest [] := fun i hi => hnf i (by rw [hpi]; simp [hi])
      have hraw : classify raw ≠ .fatal := hnf _ (by rw [hpi]; simp)
      have ho1 : (deliver c { s with buf := rest } raw).closed = false := by
        have : (classify raw).isFatal = false := by cases hcr : classify raw <;> simp_all [Item.isFatal]
        simp [deliver_closed, ho, this]
      have hout : replies c (deliver c { s with buf := rest } raw).out =
          replies c s.out ++ List.replicate (if classify raw = .alive then 1 else 0) (s.now, aliveResp c) := by
        rw [deliver_out, replies_append]
        by_cases ha : classify raw = .alive <;> simp [ha, replies]
      rw [settle_some c yields s ho hc, if_neg (by simpa using ho1), hpi, aliveReqs_cons,
        ← List.replicate_append_replicate, ← List.append_assoc, ← hout]
      split
      · have := ih _ (by rw [← hn]; exact hl) (clientRun c (deliver c { s with buf := rest } raw))
          (by rw [clientRun_closed]; exact ho1) (by simpa using hnf1) (by simp)
        rw [this, clientRun_out, clientRun_now]; simp
      · have := ih _ (by rw [← hn]; exact hl) (deliver c { s with buf := rest } raw) ho1 (by simpa using hnf1) (by simp)
        rw [this]; simp

theorem startCall_buf (s : Sys) (w : Want) (bytes : Option Bytes) (timeout : Option Nat) :
    (startCall c s w bytes timeout).buf = s.buf := by
  cases hi : s.client with
  | waiting w' sk p cl => rw [startCall_waiting c s w bytes timeout hi]
  | idle =>
    cases ho : s.closed with
    | true =>
      have : startCall c s w bytes timeout = s.finish w .conn := by unfold startCall; rw [hi]; simp [ho]
      rw [this]; rfl
    | false => rw [startCall_eq c s w bytes timeout hi ho, clientRun_buf']; rfl

theorem startCall_now (s : Sys) (w : Want) (bytes : Option Bytes) (timeout : Option Nat) :
    (startCall c s w bytes timeout).now = s.now := by
  cases hi : s.client with
  | waiting w' sk p cl => rw [startCall_waiting c s w bytes timeout hi]
  | idle =>
    cases ho : s.closed with
    | true =>
      have : startCall c s w bytes timeout = s.finish w .conn := by unfold startCall; rw [hi]; simp [ho]
      rw [this]; rfl
    | false => rw [startCall_eq c s w bytes timeout hi ho, clientRun_now]; rfl

theorem startCall_replies (s : Sys) (w : Want) (bytes : Option Bytes) (timeout : Option Nat)
    (hb : ∀ b, bytes = some b → b ≠ aliveResp c) :
    replies c (startCall c s w bytes timeout).out = replies c s.out := by
  cases hi : s.client with
  | waiting w' sk p cl => rw [startCall_waiting c s w bytes timeout hi]
  | idle =>
    cases ho : s.closed with
    | true =>
      have : startCall c s w bytes timeout = s.finish w .conn := by unfold startCall; rw [hi]; simp [ho]
      rw [this]; rfl
    | false =>
      rw [startCall_eq c s w bytes timeout hi ho, clientRun_out]
      unfold begun
      simp only [replies_append]
      cases bytes with
      | none => simp [replies]
      | some b => simp [replies, hb b rfl]

/-- **when the alive checks are answered.**  Along any execution that leaves the connection open, the alive-check
    responses written are - one each, in order - stamped with the instants at which the requests became complete:
    zero virtual time passes between the last byte of a request and its response, whatever the client is doing -/
theorem exec_reply_times (ops : List Op) (s : Sys) (hinv : Inv c s)
    (hopen : (exec c yields s ops).closed = false) :
    replies c (exec c yields s ops).out = replies c s.out ++ (alog s.buf s.now ops).map (fun t => (t, aliveResp c)) := by
  induction ops generalizing s with
  | nil => simp [exec, alog]
  | cons op ops ih =>
    rw [exec_cons] at hopen ⊢
    have hinv1 := execOp_inv c yields s op hinv
    have hopen1 : (execOp c yields s op).closed = false := by
      cases h : (execOp c yields s op).closed with
      | false => rfl
      | true => rw [exec_closed c yields ops _ hinv1 h] at hopen; cases hopen
    have hs : s.closed = false := by
      cases h : s.closed with
      | false => rfl
      | true =>
        have := exec_closed c yields [op] s hinv h
        rw [show exec c yields s [op] = execOp c yields s op by simp [exec]] at this
        rw [this] at hopen1; cases hopen1
    rw [ih _ hinv1 hopen]
    cases op with
    | feed chunk =>
      obtain ⟨s0, hs0⟩ : ∃ s0 : Sys, s0 = { s with buf := s.buf ++ chunk } := ⟨_, rfl⟩
      have hS : execOp c yields s (.feed chunk) = settle c yields s0 := by rw [hs0]; rfl
      have ho0 : s0.closed = false := by rw [hs0]; exact hs
      have hpi : pendItems s0.buf [] = pendItems s.buf chunk := by simp [hs0, pendItems]
      have hnf0 : noFatal s0.buf [] := by
        intro i hi hfat
        rw [hfat] at hi
        have := settle_fatal c yields s0 ho0 hi
        rw [← hS, hopen1] at this; cases this
      obtain ⟨_, r2⟩ := settle_rest c yields s0 ho0 hnf0
      rw [hS, settle_replies c yields s0 ho0 hnf0, r2, settle_now, hpi]
      simp [alog, hs0, List.map_append, List.append_assoc]
    | activate a t =>
      simp only [execOp, alog]
      rw [startCall_replies c s .rar _ t (by intro b hb; cases hb; exact raReq_ne_alive c a), startCall_buf,
        startCall_now]
    | write d t =>
      simp only [execOp, alog]
      rw [startCall_replies c s (.ack d) _ t (by intro b hb; cases hb; exact diagReq_ne_alive c d), startCall_buf,
        startCall_now]
    | read t =>
      simp only [execOp, alog]
      rw [startCall_replies c s .diag none t (by intro b hb; cases hb), startCall_buf, startCall_now]
    | close =>
      simp only [execOp] at hopen1 ⊢
      split at hopen1
      · cases hopen1
      · simp only [alog]
    | eof =>
      simp only [execOp, hs, Bool.false_eq_true, if_false] at hopen1
      rw [clientRun_closed] at hopen1
      cases hopen1
    | advance dt =>
      simp only [execOp, alog]
      have e1 : (fire s (s.now + dt)).out = s.out := by
        rcases fire_move c s (s.now + dt) with e | m
        · rw [e]
        · exact m.out c
      have e2 : (fire s (s.now + dt)).buf = s.buf := by
        rcases fire_move c s (s.now + dt) with e | m
        · rw [e]
        · exact m.buf c
      show replies c (fire s (s.now + dt)).out ++ _ = _
      rw [e1]
      show _ ++ List.map _ (alog (fire s (s.now + dt)).buf (s.now + dt) ops) = _
      rw [e2]

end Gallia.DoipSys
