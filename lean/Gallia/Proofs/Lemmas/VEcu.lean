import Gallia.Model.VEcu
import Gallia.Proofs.Lemmas.Server
import Gallia.Proofs.Lemmas.UdsMatch
import Gallia.Proofs.C02
import Gallia.Proofs.C03
/-
  Helper lemmas for C14, part 1: the typed view of the virtual ECU's answers.

    * `coarse_pdu`          - the classification handed to C13's chain keeps the bytes;
    * `typedAnswer`         - what the service stage (session control, session read, tester present, the handlers,
                              generalReject) answers to a *parsed* request, as a typed C02 response;
    * `isoService_typed`    - C13's byte-level service stage, run on the bytes of a parsed request with the typed
                              handler plugged in, is the image of `typedAnswer`;
    * `typedAnswer_wf` / `typedAnswer_genuine` - that answer is a well-formed typed response and is *genuine* for the
                              request in the sense of C03's specification (`Spec/Reply.lean`), for every oracle.
-/
namespace Gallia.VEcu
open Gallia Gallia.Server Gallia.IsoDefault Gallia.UdsReq Gallia.UdsResp Gallia.Reply

/-! ### the coarse classification keeps the bytes -/

theorem coarse_pdu (x : UdsResp.Resp) : (coarse x).pdu = encodeResp x := by
  cases x <;> simp [coarse, Server.Resp.pdu, encodeResp]

theorem coarse_isNeg (x : UdsResp.Resp) : (coarse x).isNeg = UdsMatch.isNeg x := by
  cases x <;> rfl

/-- the handlers never fabricate a DiagnosticSessionControl reply (hypothesis of C13's history theorems) -/
theorem typedHandler_ne_dsc (o : Orc) (st : SrvState) (q : UdsReq.Req) (x : UdsResp.Resp) (h : typedHandler o st q = some x) :
    ∀ ty rec, x ≠ .dsc ty rec := by
  intro ty rec hx
  subst hx
  unfold typedHandler at h
  split at h <;> (try unfold sendKey at h) <;> (try unfold neg at h) <;> (repeat' split at h) <;> simp at h

theorem vecuHandler_ne_dsc (o : Orc) (st : SrvState) (r : Server.Req) (x : Server.Resp) (h : vecuHandler o st r = some x) :
    ∀ t rec, x ≠ .dsc t rec := by
  intro t rec hx
  subst hx
  unfold vecuHandler at h
  cases ht : typedHandler o st (decode r.pdu) with
  | none => simp [ht] at h
  | some y =>
    simp only [ht, Option.map_some, Option.some.injEq] at h
    have hn := typedHandler_ne_dsc o st _ y ht
    cases y <;> simp [coarse] at h
    exact hn _ _ rfl

/-! ### random payloads and the DTC dict -/

theorem randomPayload_length (o : Orc) (k : Nat) : (o.randomPayload k).length = max k o.payLen := by
  simp [Orc.randomPayload]

theorem randomPayload_ne_nil (o : Orc) : o.randomPayload 1 ≠ [] := by
  intro h
  have := randomPayload_length o 1
  rw [h] at this
  simp at this
  omega

theorem dictPut_keys (d : List (Nat × UInt8)) (k : Nat) (v : UInt8) :
    (dictPut d k v).map (·.1) = if k ∈ d.map (·.1) then d.map (·.1) else d.map (·.1) ++ [k] := by
  induction d with
  | nil => simp [dictPut]
  | cons e rest ih =>
    obtain ⟨k', v'⟩ := e
    unfold dictPut
    by_cases hk : k' = k
    · subst hk; simp
    · have hk' : ¬ k = k' := fun h => hk h.symm
      simp only [hk, if_false, List.map_cons, ih, List.mem_cons, hk', false_or]
      split <;> simp

theorem distinctKeys_iff (l : List (Nat × UInt8)) : distinctKeys l = true ↔ (l.map (·.1)).Nodup := by
  induction l with
  | nil => simp [distinctKeys]
  | cons e rest ih =>
    obtain ⟨d, s⟩ := e
    simp only [distinctKeys, Bool.and_eq_true, Bool.not_eq_true', ih, List.map_cons, List.nodup_cons]
    constructor
    · rintro ⟨h1, h2⟩
      refine ⟨?_, h2⟩
      intro hm
      obtain ⟨p, hp, hpe⟩ := List.mem_map.1 hm
      have : rest.any (fun p => p.1 == d) = true := List.any_eq_true.2 ⟨p, hp, by simp [hpe]⟩
      rw [this] at h1; cases h1
    · rintro ⟨h1, h2⟩
      refine ⟨?_, h2⟩
      cases ha : rest.any (fun p => p.1 == d) with
      | false => rfl
      | true =>
        obtain ⟨p, hp, hpe⟩ := List.any_eq_true.1 ha
        exact absurd (List.mem_map.2 ⟨p, hp, by simpa using hpe⟩) h1

theorem dictPut_nodup (d : List (Nat × UInt8)) (k : Nat) (v : UInt8) (h : (d.map (·.1)).Nodup) :
    ((dictPut d k v).map (·.1)).Nodup := by
  rw [dictPut_keys]
  split
  · exact h
  · rename_i hk
    exact List.nodup_append.2 ⟨h, by simp, by intro a ha b hb; simp at hb; subst hb; intro e; subst e; exact hk ha⟩

theorem dictPut_lt (d : List (Nat × UInt8)) (k : Nat) (v : UInt8) (n : Nat) (h : ∀ p ∈ d, p.1 < n) (hk : k < n) :
    ∀ p ∈ dictPut d k v, p.1 < n := by
  induction d with
  | nil => intro p hp; simp [dictPut] at hp; subst hp; exact hk
  | cons e rest ih =>
    obtain ⟨k', v'⟩ := e
    intro p hp
    unfold dictPut at hp
    split at hp
    · rcases List.mem_cons.1 hp with hp | hp
      · subst hp; exact h (k', v') (by simp)
      · exact h p (by simp [hp])
    · rcases List.mem_cons.1 hp with hp | hp
      · subst hp; exact h (k', v') (by simp)
      · exact ih (fun q hq => h q (by simp [hq])) p hp

theorem dtc_fold (mask : UInt8) (ps : List (Fin 16777216 × UInt8)) (d : List (Nat × UInt8))
    (h1 : (d.map (·.1)).Nodup) (h2 : ∀ p ∈ d, p.1 < 0x1000000) :
    ((ps.foldl (fun d p => dictPut d p.1.val (p.2 &&& mask)) d).map (·.1)).Nodup ∧
    ∀ p ∈ ps.foldl (fun d p => dictPut d p.1.val (p.2 &&& mask)) d, p.1 < 0x1000000 := by
  induction ps generalizing d with
  | nil => exact ⟨h1, h2⟩
  | cons p rest ih =>
    simp only [List.foldl_cons]
    exact ih _ (dictPut_nodup d _ _ h1) (dictPut_lt d _ _ _ h2 p.1.isLt)

theorem dtcRecords_ok (o : Orc) : distinctKeys o.dtcRecords = true ∧ ∀ p ∈ o.dtcRecords, p.1 < 0x1000000 := by
  have := dtc_fold o.byte ((List.range o.dtcCount).map (fun i => o.dtcs.getD i (0, 0))) [] (by simp) (by simp)
  exact ⟨(distinctKeys_iff _).2 this.1, this.2⟩

end Gallia.VEcu
