import Gallia.Proofs.Lemmas.Doip
/-
  Helper lemmas for C06: a client call blocked on the read queue (`block`, `wait`) and the bookkeeping around it
  (`finish`, `runOp`).
-/
namespace Gallia.Doip
open Gallia Gallia.Framing Gallia.DoipFifo

/-- frames that reach the read queue strictly before the deadline -/
def visible (deadline : Nat) (evs : List Ev) : List Frame :=
  allFrames (evs.takeWhile fun e => decide (e.t < deadline))

/-- the reader task does not end during the events (no frame it cannot unpack) -/
def NoDeath (evs : List Ev) : Prop := ∀ e ∈ evs, e.died = false

/-- what the wait rule says a consumer gets -/
def waitRef (p : Frame → Bool) (q : List Frame) : WaitRes :=
  match findSplit p q with
  | some (_, f, _) => .got f
  | none => .timeout

theorem visible_nil (d : Nat) : visible d [] = [] := rfl

theorem visible_cons_lt {d : Nat} {e : Ev} (es : List Ev) (h : e.t < d) :
    visible d (e :: es) = e.frames ++ visible d es := by
  simp [visible, h]

theorem visible_cons_ge {d : Nat} {e : Ev} (es : List Ev) (h : d ≤ e.t) : visible d (e :: es) = [] := by
  have : ¬ e.t < d := by omega
  simp [visible, this]

theorem NoDeath.tail {e : Ev} {es : List Ev} (h : NoDeath (e :: es)) : NoDeath es :=
  fun x hx => h x (by simp [hx])

theorem NoDeath.head {e : Ev} {es : List Ev} (h : NoDeath (e :: es)) : e.died = false := h e (by simp)

theorem waitRef_append_some (p : Frame → Bool) {a : List Frame} {pre post : List Frame} {f : Frame}
    (b : List Frame) (h : findSplit p a = some (pre, f, post)) : waitRef p (a ++ b) = .got f := by
  simp [waitRef, findSplit_append_of_some p b h]

/-! ### `block` -/

/-- alive-check responses: every event is either absorbed (its response is in `out`) or handed back -/
theorem block_out (c : Cfg) (p : Frame → Bool) (d : Nat) (s : St) (evs : List Ev) :
    (block c p d s evs).2.1.out ++ outOf c (block c p d s evs).2.2 = s.out ++ outOf c evs := by
  induction evs generalizing s with
  | nil => simp [block]
  | cons e es ih =>
    simp only [block]
    split
    · simp
    · split
      · rw [ih]; simp [St.absorb, outOf_cons]; cases e.reply <;> simp
      · split
        · split <;> (simp [St.absorb, outOf_cons]; cases e.reply <;> simp)
        · split
          · simp [St.absorb, outOf_cons]; cases e.reply <;> simp
          · rw [ih]; simp [St.absorb, outOf_cons]; cases e.reply <;> simp

theorem block_rd (c : Cfg) (p : Frame → Bool) (d : Nat) (s : St) (evs : List Ev) :
    (block c p d s evs).2.1.rd = s.rd := by
  induction evs generalizing s with
  | nil => simp [block]
  | cons e es ih =>
    simp only [block]
    split
    · rfl
    · split
      · rw [ih]; rfl
      · split
        · split <;> rfl
        · split
          · rfl
          · rw [ih]; rfl

/-- a blocked call returns no later than its deadline -/
theorem block_now (c : Cfg) (p : Frame → Bool) (d : Nat) (s : St) (evs : List Ev) (h : s.now ≤ d) :
    (block c p d s evs).2.1.now ≤ d := by
  induction evs generalizing s with
  | nil => simp [block]; omega
  | cons e es ih =>
    simp only [block]
    split
    · simp; omega
    · rename_i hlt
      have h1 : (s.absorb c e).now ≤ d := by simp [St.absorb]; omega
      split
      · exact ih _ h1
      · split
        · split <;> exact h1
        · split
          · exact h1
          · exact ih _ h1

theorem block_timeout_now (c : Cfg) (p : Frame → Bool) (d : Nat) (s : St) (evs : List Ev) (h : s.now ≤ d)
    (ht : (block c p d s evs).1 = .timeout) : (block c p d s evs).2.1.now = d := by
  induction evs generalizing s with
  | nil => simp [block]; omega
  | cons e es ih =>
    simp only [block] at ht ⊢
    split
    · simp; omega
    · rename_i hlt
      have h1 : (s.absorb c e).now ≤ d := by simp [St.absorb]; omega
      split
      · rename_i he; simp only [hlt, he, if_false, if_true] at ht; exact ih _ h1 ht
      · rename_i he
        simp only [hlt, he, if_false] at ht
        split
        · rename_i hs
          simp only [hs] at ht
          by_cases hg : (e.died && !(e.frames.head?.any p)) = true
          · rw [if_pos hg] at ht; cases ht
          · rw [if_neg hg] at ht; cases ht
        · rename_i hs
          simp only [hs] at ht
          split
          · rename_i hcl; simp [hcl] at ht
          · rename_i hcl; simp only [hcl] at ht; exact ih _ h1 ht

/-- result, connection state and queue of a blocked call while the reader task stays alive -/
theorem block_spec (c : Cfg) (p : Frame → Bool) (d : Nat) (s : St) (evs : List Ev)
    (hq : findSplit p s.queue = none) (hc : s.closed = false) (hd : NoDeath evs) :
    (block c p d s evs).1 = waitRef p (s.queue ++ visible d evs) ∧
    (block c p d s evs).2.1.closed = false ∧
    (match (block c p d s evs).1 with
     | .got f => ∃ pre post, s.queue ++ allFrames evs = pre ++ f :: post ∧ p f = true ∧ (∀ y ∈ pre, p y = false) ∧
                  (block c p d s evs).2.1.queue ++ allFrames (block c p d s evs).2.2 = pre ++ post
     | .timeout => (block c p d s evs).2.1.queue ++ allFrames (block c p d s evs).2.2 = s.queue ++ allFrames evs
     | .conn => False) := by
  induction evs generalizing s with
  | nil => simp [block, visible_nil, waitRef, hq, hc]
  | cons e es ih =>
    simp only [block]
    split
    · rename_i hge
      simp [visible_cons_ge es hge, waitRef, hq, hc]
    · rename_i hlt
      have hlt' : e.t < d := by omega
      have hc1 : (s.absorb c e).closed = false := by simp [St.absorb, hc, hd.head]
      have hq1 : (s.absorb c e).queue = s.queue ++ e.frames := rfl
      rw [visible_cons_lt es hlt']
      split
      · rename_i he
        have he' : e.frames = [] := by have h0 := he; simp at h0; exact h0.1
        have hq2 : findSplit p (s.absorb c e).queue = none := by rw [hq1, he']; simpa using hq
        obtain ⟨i1, i2, i3⟩ := ih (s.absorb c e) hq2 hc1 hd.tail
        refine ⟨by rw [i1, hq1, he']; simp, i2, ?_⟩
        simpa [hq1, he', allFrames_cons] using i3
      · split
        · rename_i pre f post hs
          rw [hq1] at hs
          rw [if_neg (by simp [hd.head])]
          refine ⟨by rw [← List.append_assoc]; exact (waitRef_append_some p _ hs).symm, hc1, ?_⟩
          obtain ⟨e1, e2, e3⟩ := findSplit_sound p hs
          refine ⟨pre, post ++ allFrames es, ?_, e2, e3, by simp [requeueFront]⟩
          rw [allFrames_cons, ← List.append_assoc, e1]; simp
        · rename_i hs
          simp only [hc1, Bool.false_eq_true, if_false]
          obtain ⟨i1, i2, i3⟩ := ih (s.absorb c e) hs hc1 hd.tail
          refine ⟨by rw [i1, hq1, List.append_assoc], i2, ?_⟩
          simpa [hq1, allFrames_cons, List.append_assoc] using i3

/-- the events a blocked call absorbs form a prefix of the timeline, all before the deadline; their alive-check
    responses are exactly what is appended to the written bytes -/
theorem block_taken (c : Cfg) (p : Frame → Bool) (d : Nat) (s : St) (evs : List Ev) :
    ∃ taken, evs = taken ++ (block c p d s evs).2.2 ∧
      (block c p d s evs).2.1.out = s.out ++ outOf c taken ∧ ∀ e ∈ taken, e.t < d := by
  induction evs generalizing s with
  | nil => exact ⟨[], by simp [block]⟩
  | cons e es ih =>
    simp only [block]
    have ho : (s.absorb c e).out = s.out ++ outOf c [e] := by
      simp [St.absorb, outOf_cons]; cases e.reply <;> simp
    split
    · exact ⟨[], by simp⟩
    · rename_i hlt
      have hlt' : e.t < d := by omega
      split
      · obtain ⟨tk, h1, h2, h3⟩ := ih (s.absorb c e)
        refine ⟨e :: tk, by simp [← h1], ?_, ?_⟩
        · rw [h2, ho, List.append_assoc, ← outOf_append]; rfl
        · intro x hx; rcases List.mem_cons.mp hx with rfl | hx
          · exact hlt'
          · exact h3 x hx
      · split
        · split <;> exact ⟨[e], by simp, by simp [ho], by simpa using hlt'⟩
        · split
          · exact ⟨[e], by simp, by simp [ho], by simpa using hlt'⟩
          · obtain ⟨tk, h1, h2, h3⟩ := ih (s.absorb c e)
            refine ⟨e :: tk, by simp [← h1], ?_, ?_⟩
            · rw [h2, ho, List.append_assoc, ← outOf_append]; rfl
            · intro x hx; rcases List.mem_cons.mp hx with rfl | hx
              · exact hlt'
              · exact h3 x hx

/-! ### `wait` -/

theorem wait_taken (c : Cfg) (p : Frame → Bool) (d : Nat) (s : St) (evs : List Ev) :
    ∃ taken, evs = taken ++ (wait c p d s evs).2.2 ∧
      (wait c p d s evs).2.1.out = s.out ++ outOf c taken ∧ ∀ e ∈ taken, e.t < d := by
  unfold wait
  split
  · exact ⟨[], by simp⟩
  · split
    · exact ⟨[], by simp⟩
    · exact block_taken c p d s evs

theorem wait_out (c : Cfg) (p : Frame → Bool) (d : Nat) (s : St) (evs : List Ev) :
    (wait c p d s evs).2.1.out ++ outOf c (wait c p d s evs).2.2 = s.out ++ outOf c evs := by
  unfold wait
  split
  · rfl
  · split
    · rfl
    · exact block_out c p d s evs

theorem wait_rd (c : Cfg) (p : Frame → Bool) (d : Nat) (s : St) (evs : List Ev) :
    (wait c p d s evs).2.1.rd = s.rd := by
  unfold wait
  split
  · rfl
  · split
    · rfl
    · exact block_rd c p d s evs

theorem wait_now (c : Cfg) (p : Frame → Bool) (d : Nat) (s : St) (evs : List Ev) (h : s.now ≤ d) :
    (wait c p d s evs).2.1.now ≤ d := by
  unfold wait
  split
  · exact h
  · split
    · exact h
    · exact block_now c p d s evs h

theorem wait_timeout_now (c : Cfg) (p : Frame → Bool) (d : Nat) (s : St) (evs : List Ev) (h : s.now ≤ d)
    (ht : (wait c p d s evs).1 = .timeout) : (wait c p d s evs).2.1.now = d := by
  unfold wait at ht ⊢
  split
  · rename_i hc; simp [hc] at ht
  · rename_i hc
    simp only [hc, Bool.false_eq_true, if_false] at ht
    split
    · rename_i hs; simp [hs] at ht
    · rename_i hs; simp only [hs] at ht; exact block_timeout_now c p d s evs h ht

theorem wait_spec (c : Cfg) (p : Frame → Bool) (d : Nat) (s : St) (evs : List Ev)
    (hc : s.closed = false) (hd : NoDeath evs) :
    (wait c p d s evs).1 = waitRef p (s.queue ++ visible d evs) ∧
    (wait c p d s evs).2.1.closed = false ∧
    (match (wait c p d s evs).1 with
     | .got f => ∃ pre post, s.queue ++ allFrames evs = pre ++ f :: post ∧ p f = true ∧ (∀ y ∈ pre, p y = false) ∧
                  (wait c p d s evs).2.1.queue ++ allFrames (wait c p d s evs).2.2 = pre ++ post
     | .timeout => (wait c p d s evs).2.1.queue ++ allFrames (wait c p d s evs).2.2 = s.queue ++ allFrames evs
     | .conn => False) := by
  unfold wait
  simp only [hc, Bool.false_eq_true, if_false]
  split
  · rename_i pre f post hs
    obtain ⟨e1, e2, e3⟩ := findSplit_sound p hs
    refine ⟨(waitRef_append_some p _ hs).symm, by first | exact hc | rfl, pre, post ++ allFrames evs, by simp [e1], e2, e3, ?_⟩
    simp [requeueFront]
  · rename_i hs
    exact block_spec c p d s evs hs hc hd

/-! ### after the call -/

theorem foldl_absorb (c : Cfg) (s : St) (rest : List Ev) :
    (rest.foldl (St.absorb c) s).queue = s.queue ++ allFrames rest ∧
    (rest.foldl (St.absorb c) s).out = s.out ++ outOf c rest ∧
    (rest.foldl (St.absorb c) s).closed = (s.closed || rest.any (·.died)) := by
  induction rest generalizing s with
  | nil => simp
  | cons e es ih =>
    obtain ⟨i1, i2, i3⟩ := ih (s.absorb c e)
    simp only [List.foldl_cons, i1, i2, i3]
    refine ⟨by simp [St.absorb], ?_, by simp [St.absorb, Bool.or_assoc]⟩
    simp [St.absorb, outOf_cons]; cases e.reply <;> simp

theorem finish_open (c : Cfg) (s : St) (rest : List Ev) (rd' : Reader) (tEnd : Nat) (hc : s.closed = false)
    (hd : NoDeath rest) :
    (s.finish c rest rd' tEnd).queue = s.queue ++ allFrames rest ∧
    (s.finish c rest rd' tEnd).out = s.out ++ outOf c rest ∧
    (s.finish c rest rd' tEnd).closed = false := by
  obtain ⟨i1, i2, i3⟩ := foldl_absorb c s rest
  have hany : rest.any (·.died) = false := by
    simp only [List.any_eq_false]; intro e he; simp [hd e he]
  simp [St.finish, hc, i1, i2, i3, hany]

theorem finish_closed (c : Cfg) (s : St) (rest : List Ev) (rd' : Reader) (tEnd : Nat) (hc : s.closed = true) :
    (s.finish c rest rd' tEnd).queue = s.queue ∧ (s.finish c rest rd' tEnd).out = s.out ∧
    (s.finish c rest rd' tEnd).closed = true := by
  simp [St.finish, hc]

/-! ### the client calls in terms of `wait` -/

def readRes : WaitRes → OpRes
  | .got f => .msg f.userData
  | .conn => .conn
  | .timeout => .timeout

theorem readBody_eq (c : Cfg) (tmo : Nat) (s : St) (evs : List Ev) :
    readBody c tmo s evs =
      (readRes (wait c (isDiagFor c) (s.now + tmo) s evs).1, (wait c (isDiagFor c) (s.now + tmo) s evs).2.1,
       (wait c (isDiagFor c) (s.now + tmo) s evs).2.2) := by
  unfold readBody
  generalize wait c (isDiagFor c) (s.now + tmo) s evs = W
  obtain ⟨r, s1, rest⟩ := W
  cases r <;> rfl

def writeRes (tmo : Nat) : WaitRes → OpRes
  | .got (.ackNeg _ _ code _) => if code = nackTargetUnreachable then .ok else .nack (nackName code)
  | .got _ => .ok
  | .conn => .conn
  | .timeout => if tmo ≤ ackTimeoutMs then .timeout else .conn

/-- the state a write leaves: the acknowledgement timeout closes the connection -/
def writeSt (tmo : Nat) (r : WaitRes) (s1 : St) : St :=
  if r = .timeout ∧ ¬ tmo ≤ ackTimeoutMs then { s1 with closed := true } else s1

/-- the connection state in which a write waits for its acknowledgement -/
def St.sent (s : St) (bytes : Bytes) : St := { s with out := s.out ++ [(s.now, bytes)] }

theorem writeBody_eq (c : Cfg) (data : Bytes) (tmo : Nat) (s : St) (evs : List Ev) (hc : s.closed = false) :
    writeBody c data tmo s evs =
      (writeRes tmo (wait c (ackMatch c data) (s.now + min tmo ackTimeoutMs) (s.sent (diagReq c data)) evs).1,
       writeSt tmo (wait c (ackMatch c data) (s.now + min tmo ackTimeoutMs) (s.sent (diagReq c data)) evs).1
         (wait c (ackMatch c data) (s.now + min tmo ackTimeoutMs) (s.sent (diagReq c data)) evs).2.1,
       (wait c (ackMatch c data) (s.now + min tmo ackTimeoutMs) (s.sent (diagReq c data)) evs).2.2) := by
  unfold writeBody St.sent
  simp only [hc, Bool.false_eq_true, if_false]
  generalize wait c (ackMatch c data) (s.now + min tmo ackTimeoutMs) _ evs = W
  obtain ⟨r, s1, rest⟩ := W
  cases r with
  | got f => cases f <;> simp [writeRes, writeSt]
  | conn => simp [writeRes, writeSt]
  | timeout =>
    by_cases h : tmo ≤ ackTimeoutMs <;> simp [writeRes, writeSt, h]

def connRes (tmo : Nat) : WaitRes → OpRes
  | .got (.rar _ _ code) => if code = raSuccess then .ok else .denied (racName code)
  | .got _ => .conn
  | .conn => .conn
  | .timeout => if tmo ≤ raTimeoutMs then .timeout else .conn

def connSt (tmo : Nat) (r : WaitRes) (s1 : St) : St :=
  if r = .timeout ∧ ¬ tmo ≤ raTimeoutMs then { s1 with closed := true } else s1

theorem connectBody_eq (c : Cfg) (atype : UInt8) (tmo : Nat) (s : St) (evs : List Ev) :
    connectBody c atype tmo s evs =
      (connRes tmo (wait c isRar (s.now + min tmo raTimeoutMs) (s.sent (raReq c atype)) evs).1,
       connSt tmo (wait c isRar (s.now + min tmo raTimeoutMs) (s.sent (raReq c atype)) evs).1
         (wait c isRar (s.now + min tmo raTimeoutMs) (s.sent (raReq c atype)) evs).2.1,
       (wait c isRar (s.now + min tmo raTimeoutMs) (s.sent (raReq c atype)) evs).2.2) := by
  unfold connectBody St.sent
  dsimp only
  generalize wait c isRar (s.now + min tmo raTimeoutMs) _ evs = W
  obtain ⟨r, s1, rest⟩ := W
  cases r with
  | got f => cases f <;> simp [connRes, connSt]
  | conn => simp [connRes, connSt]
  | timeout =>
    by_cases h : tmo ≤ raTimeoutMs <;> simp [connRes, connSt, h]

/-- the event timeline of a call: what the reader task makes of the chunks arriving during it -/
def timeline (s : St) (arr : List (Nat × Bytes)) : List Ev := (s.rd.run (shift s.now arr)).2

theorem runOp_res (c : Cfg) (s : St) (arr : List (Nat × Bytes)) (body : St → List Ev → OpRes × St × List Ev) :
    (runOp c s arr body).1 = (body s (timeline s arr)).1 ∧
    (runOp c s arr body).2.1 = (body s (timeline s arr)).2.1.now ∧
    (runOp c s arr body).2.2 =
      (body s (timeline s arr)).2.1.finish c (body s (timeline s arr)).2.2 (s.rd.run (shift s.now arr)).1
        (lastT s.now arr) := by
  simp [runOp, timeline]

end Gallia.Doip
