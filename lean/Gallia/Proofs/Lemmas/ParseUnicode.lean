import Gallia.Proofs.Lemmas.ParseRange
/-! C20 helper lemmas: the Unicode edge of `int()` (`normChar`), the exact alphabet `auto_int` accepts -/
namespace Gallia.Parse

/-- every decimal digit of every script is normalised to its ASCII digit -/
theorem normChar_digit : ∀ z ∈ decZeros, ∀ d, d < 10 → normChar (Char.ofNat (z + d)) = Char.ofNat (48 + d) := by
  decide +kernel

theorem map_normChar_toScript (z0 : Nat) (hz : z0 ∈ decZeros) (s : Str) :
    (toScript z0 s).map normChar = s.map normChar := by
  unfold toScript
  rw [List.map_map]
  apply List.map_congr_left
  intro c _
  simp only [Function.comp]
  split
  · rename_i h
    rw [normChar_digit z0 hz (c.toNat - 48) (by omega)]
    have : 48 + (c.toNat - 48) = c.toNat := by omega
    rw [this, Char.ofNat_toNat, normChar_ascii (by omega)]
  · rfl

/-- a literal may be written with the decimal digits of any script -/
theorem autoIntL_toScript (z0 : Nat) (hz : z0 ∈ decZeros) (s : Str) : autoIntL (toScript z0 s) = autoIntL s :=
  autoIntL_congr _ _ (map_normChar_toScript z0 hz s)

/-! ### only ASCII survives the ASCII parser -/

theorem digitVal_ascii {c : Char} {d : Nat} (h : digitVal c = some d) : c.toNat < 128 := by
  unfold digitVal at h
  simp only at h
  split at h
  · omega
  · split at h
    · omega
    · split at h
      · omega
      · simp at h

theorem parseDigits_ascii (base : Nat) (cs : Str) : ∀ (acc : Nat) (pu : Bool) (n : Nat),
    parseDigits base acc pu cs = some n → ∀ c ∈ cs, c.toNat < 128 := by
  induction cs with
  | nil => intro _ _ _ _ c hc; simp at hc
  | cons a t ih =>
    intro acc pu n h c hc
    unfold parseDigits at h
    by_cases ha : a = '_'
    · subst ha
      simp only [if_true] at h
      split at h
      · simp at h
      · rcases List.mem_cons.mp hc with rfl | hc
        · decide
        · exact ih _ _ _ h c hc
    · simp only [ha, if_false] at h
      cases hd : digitVal a with
      | none => simp [hd] at h
      | some d =>
        simp only [hd] at h
        split at h
        · rcases List.mem_cons.mp hc with rfl | hc
          · exact digitVal_ascii hd
          · exact ih _ _ _ h c hc
        · simp at h

theorem parseBody_ascii {base : Nat} {cs : Str} {n : Nat} (h : parseBody base cs = some n) : ∀ c ∈ cs, c.toNat < 128 := by
  unfold parseBody at h
  cases cs with
  | nil => simp at h
  | cons a t =>
    simp only at h
    split at h
    · simp at h
    · exact parseDigits_ascii base _ _ _ _ h

theorem mem_dropUs {r : Str} {c : Char} (h : c ∈ r) : c ∈ dropUs r ∨ c = '_' := by
  cases r with
  | nil => simp at h
  | cons a t =>
    simp only [dropUs]
    by_cases ha : a = '_'
    · subst ha
      simp only [if_true]
      rcases List.mem_cons.mp h with rfl | h
      · exact Or.inr rfl
      · exact Or.inl h
    · simp only [ha, if_false]; exact Or.inl h

theorem us_ascii : '_'.toNat < 128 := by decide

theorem parseMag_ascii {m : Str} {n : Nat} (h : parseMag m = some n) : ∀ c ∈ m, c.toNat < 128 := by
  have body : ∀ {base : Nat} {r : Str} {k : Nat}, parseBody base (dropUs r) = some k → ∀ c ∈ r, c.toNat < 128 := by
    intro base r k hb c hc
    rcases mem_dropUs hc with h1 | rfl
    · exact parseBody_ascii hb c h1
    · exact us_ascii
  unfold parseMag at h
  split at h
  · rename_i c r
    have h0 : '0'.toNat < 128 := by decide
    by_cases hx : c = 'x' ∨ c = 'X'
    · simp only [hx, if_true] at h
      intro y hy
      simp only [List.mem_cons] at hy
      rcases hy with rfl | rfl | hy
      · exact h0
      · rcases hx with rfl | rfl <;> decide
      · exact body h y hy
    · simp only [hx, if_false] at h
      by_cases ho : c = 'o' ∨ c = 'O'
      · simp only [ho, if_true] at h
        intro y hy
        simp only [List.mem_cons] at hy
        rcases hy with rfl | rfl | hy
        · exact h0
        · rcases ho with rfl | rfl <;> decide
        · exact body h y hy
      · simp only [ho, if_false] at h
        by_cases hb : c = 'b' ∨ c = 'B'
        · simp only [hb, if_true] at h
          intro y hy
          simp only [List.mem_cons] at hy
          rcases hy with rfl | rfl | hy
          · exact h0
          · rcases hb with rfl | rfl <;> decide
          · exact body h y hy
        · simp only [hb, if_false] at h
          cases hp : parseBody 10 ('0' :: c :: r) with
          | none => simp [hp] at h
          | some k => exact parseBody_ascii hp
  · exact parseBody_ascii h

theorem mem_dropWhile_or {p : Char → Bool} (l : Str) {c : Char} (h : c ∈ l) : c ∈ l.dropWhile p ∨ p c = true := by
  induction l with
  | nil => simp at h
  | cons a t ih =>
    simp only [List.dropWhile_cons]
    split
    · rename_i ha
      rcases List.mem_cons.mp h with rfl | h
      · exact Or.inr ha
      · exact ih h
    · exact Or.inl h

theorem mem_trim_or (s : Str) {c : Char} (h : c ∈ s) : c ∈ trim s ∨ isWs c = true := by
  unfold trim
  rcases mem_dropWhile_or (p := isWs) s h with h1 | h1
  · rcases mem_dropWhile_or (p := isWs) _ (List.mem_reverse.mpr h1) with h2 | h2
    · exact Or.inl (List.mem_reverse.mpr h2)
    · exact Or.inr h2
  · exact Or.inr h1

theorem mem_splitSign (core : Str) {c : Char} (h : c ∈ core) : c ∈ (splitSign core).2 ∨ c = '-' ∨ c = '+' := by
  cases core with
  | nil => simp at h
  | cons a t =>
    simp only [splitSign]
    by_cases ha : a = '-'
    · subst ha
      simp only [if_true]
      rcases List.mem_cons.mp h with rfl | h
      · exact Or.inr (Or.inl rfl)
      · exact Or.inl h
    · simp only [ha, if_false]
      by_cases hb : a = '+'
      · subst hb
        simp only [if_true]
        rcases List.mem_cons.mp h with rfl | h
        · exact Or.inr (Or.inr rfl)
        · exact Or.inl h
      · simp only [hb, if_false]; exact Or.inl h

/-- the ASCII parser accepts ASCII texts only -/
theorem autoIntA_ascii {s : Str} {z : Int} (h : autoIntA s = some z) : ∀ c ∈ s, c.toNat < 128 := by
  intro c hc
  unfold autoIntA at h
  rcases mem_trim_or s hc with h1 | h1
  · rcases mem_splitSign _ h1 with h2 | rfl | rfl
    · cases hm : parseMag (splitSign (trim s)).2 with
      | none => simp [hm] at h
      | some n => exact parseMag_ascii hm c h2
    · decide
    · decide
  · exact isWs_lt h1

/-- the exact boundary: a text `auto_int` accepts consists of ASCII characters, non-ASCII Unicode spaces and
    Unicode decimal digits only -/
theorem autoIntL_alphabet {u : Str} {z : Int} (h : autoIntL u = some z) :
    ∀ c ∈ u, c.toNat < 128 ∨ isUniSpace c = true ∨ (uniDigit c).isSome = true := by
  intro c hc
  have hn := autoIntA_ascii h (normChar c) (List.mem_map_of_mem hc)
  by_cases h1 : c.toNat < 128
  · exact Or.inl h1
  · by_cases h2 : isUniSpace c = true
    · exact Or.inr (Or.inl h2)
    · cases h3 : uniDigit c with
      | some d => exact Or.inr (Or.inr rfl)
      | none =>
        simp only [normChar, h1, if_false, h2, h3] at hn
        exact absurd hn h1

/-! ### ranges: white space of any kind around the numbers, digits of any script -/

theorem normChar_eq_ascii {c x : Char} (hx : x.toNat < 128) (hns : x ≠ ' ') (hnd : ¬ (48 ≤ x.toNat ∧ x.toNat ≤ 57)) :
    normChar c = x ↔ c = x := by
  constructor
  · intro h
    by_cases h1 : c.toNat < 128
    · rw [normChar_ascii h1] at h; exact h
    · exfalso
      simp only [normChar, h1, if_false] at h
      split at h
      · exact hns h.symm
      · split at h
        · rename_i d hd
          unfold uniDigit at hd
          simp only [Option.map_eq_some_iff] at hd
          obtain ⟨z, hz, rfl⟩ := hd
          have hf := List.find?_some hz
          simp only [Bool.and_eq_true, decide_eq_true_eq] at hf
          have hlt : c.toNat - z < 10 := by omega
          have : x.toNat = 48 + (c.toNat - z) := by
            rw [← h]
            have : ∀ k, k < 10 → (Char.ofNat (48 + k)).toNat = 48 + k := by decide
            exact this _ hlt
          exact hnd (by omega)
        · rw [h] at h1; exact h1 hx
  · intro h; subst h; exact normChar_ascii hx

theorem normChar_idem (c : Char) : normChar (normChar c) = normChar c := by
  by_cases h1 : c.toNat < 128
  · rw [normChar_ascii h1, normChar_ascii h1]
  · simp only [normChar, h1, if_false]
    split
    · decide
    · split
      · rename_i d hd
        unfold uniDigit at hd
        simp only [Option.map_eq_some_iff] at hd
        obtain ⟨z, hz, rfl⟩ := hd
        have hf := List.find?_some hz
        simp only [Bool.and_eq_true, decide_eq_true_eq] at hf
        have : ∀ k, k < 10 → (Char.ofNat (48 + k)).toNat < 128 := by decide
        have h2 := this (c.toNat - z) (by omega)
        simp [h2]
      · rename_i h2 _ h3
        simp [h1, h2, h3]

theorem map_normChar_idem (s : Str) : (s.map normChar).map normChar = s.map normChar := by
  rw [List.map_map]; apply List.map_congr_left; intro c _; exact normChar_idem c

theorem autoIntL_norm (s : Str) : autoIntL (s.map normChar) = autoIntL s := by
  unfold autoIntL; rw [map_normChar_idem]

theorem parseNat_norm (s : Str) : parseNat (s.map normChar) = parseNat s := by
  unfold parseNat; rw [autoIntL_norm]

theorem isSpaceStr_ascii_digit : ∀ k, k < 10 → isSpaceStr (Char.ofNat (48 + k)) = false := by decide

theorem isSpaceStr_norm (c : Char) : isSpaceStr (normChar c) = isSpaceStr c := by
  by_cases h1 : c.toNat < 128
  · rw [normChar_ascii h1]
  · simp only [normChar, h1, if_false]
    split
    · rename_i h2
      have hsp : isSpaceStr ' ' = true := by decide
      rw [hsp]
      simp [isSpaceStr, h2]
    · split
      · rename_i h2 _ d hd
        unfold uniDigit at hd
        simp only [Option.map_eq_some_iff] at hd
        obtain ⟨z, hz, rfl⟩ := hd
        have hf := List.find?_some hz
        simp only [Bool.and_eq_true, decide_eq_true_eq] at hf
        rw [isSpaceStr_ascii_digit _ (by omega)]
        have hw : isWs c = false := by
          cases hw : isWs c with
          | false => rfl
          | true => exact absurd (isWs_lt hw) h1
        have h28 : (28 ≤ c.toNat && c.toNat ≤ 31) = false := by
          simp only [Bool.and_eq_false_iff, decide_eq_false_iff_not]; omega
        have h2' : isUniSpace c = false := by simpa using h2
        simp [isSpaceStr, hw, h28, h2']
      · rfl

theorem splitOnP_map (p : Char → Bool) (f : Char → Char) (hp : ∀ c, p (f c) = p c) (s : Str) :
    splitOnP p (s.map f) = (splitOnP p s).map (List.map f) := by
  induction s with
  | nil => rfl
  | cons x xs ih =>
    simp only [List.map_cons, splitOnP, hp x]
    split
    · simp [ih]
    · rw [ih]
      cases hq : splitOnP p xs with
      | nil => exact absurd hq (splitOnP_ne_nil p xs)
      | cons q qs => simp

theorem mapOpt_map_congr {α β} (g : α → Option β) (f : α → α) (h : ∀ x, g (f x) = g x) (l : List α) :
    mapOpt g (l.map f) = mapOpt g l := by
  induction l with
  | nil => rfl
  | cons a t ih => simp only [List.map_cons, mapOpt, h a, ih]

theorem normChar_sep {x : Char} (hx : x ∈ [',', '-', ':']) (c : Char) : (normChar c == x) = (c == x) := by
  have hiff : normChar c = x ↔ c = x := by
    simp only [List.mem_cons, List.not_mem_nil, or_false] at hx
    rcases hx with rfl | rfl | rfl <;> exact normChar_eq_ascii (by decide) (by decide) (by decide)
  by_cases h : c = x
  · have h' := hiff.mpr h
    rw [beq_iff_eq.mpr h', beq_iff_eq.mpr h]
  · have h' : normChar c ≠ x := fun e => h (hiff.mp e)
    rw [beq_false_of_ne h', beq_false_of_ne h]

theorem mem_map_normChar_sep {x : Char} (hx : x ∈ [',', '-', ':']) (s : Str) : x ∈ s.map normChar ↔ x ∈ s := by
  have hiff : ∀ c, normChar c = x ↔ c = x := by
    intro c
    simp only [List.mem_cons, List.not_mem_nil, or_false] at hx
    rcases hx with rfl | rfl | rfl <;> exact normChar_eq_ascii (by decide) (by decide) (by decide)
  simp only [List.mem_map]
  constructor
  · rintro ⟨c, hc, e⟩; rw [← (hiff c).mp e]; exact hc
  · intro h; exact ⟨x, h, (hiff x).mpr rfl⟩

theorem parseElem_norm (s : Str) : parseElem (s.map normChar) = parseElem s := by
  unfold parseElem
  have hd : ('-' ∈ s.map normChar) ↔ ('-' ∈ s) := mem_map_normChar_sep (by simp) s
  by_cases h : '-' ∈ s
  · simp only [h, hd.mpr h, if_true]
    unfold splitOnC
    rw [splitOnP_map _ normChar (fun c => normChar_sep (by simp) c)]
    cases hs : splitOnP (fun x => x == '-') s with
    | nil => rfl
    | cons a t =>
      cases t with
      | nil => rfl
      | cons b t2 =>
        cases t2 with
        | nil => simp only [List.map_cons, List.map_nil, parseNat_norm]
        | cons _ _ => rfl
  · have h' : ¬ '-' ∈ s.map normChar := fun e => h (hd.mp e)
    simp only [h, h', if_false, parseNat_norm]

theorem all_isSpaceStr_norm (s : Str) : (s.map normChar).all isSpaceStr = s.all isSpaceStr := by
  induction s with
  | nil => rfl
  | cons a t ih => simp only [List.map_cons, List.all_cons, isSpaceStr_norm, ih]

/-- a range expression means the same after every character has been normalised the way `int()` does it -/
theorem parseElems_norm (s : Str) : parseElems (s.map normChar) = parseElems s := by
  unfold parseElems
  rw [all_isSpaceStr_norm]
  split
  · rfl
  · unfold splitOnC
    rw [splitOnP_map _ normChar (fun c => normChar_sep (by simp) c)]
    exact mapOpt_map_congr parseElem (List.map normChar) parseElem_norm _

theorem unravel_norm (s : Str) : unravel (s.map normChar) = unravel s := by
  unfold unravel; rw [parseElems_norm]

theorem unravel_congr (u s : Str) (h : u.map normChar = s.map normChar) : unravel u = unravel s := by
  rw [← unravel_norm u, h, unravel_norm]

end Gallia.Parse
