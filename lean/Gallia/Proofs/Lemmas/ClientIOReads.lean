import Gallia.Proofs.Lemmas.ClientIO
import Gallia.Model.ClientMulti
/-
  C04 / C05 — which read a request's result comes from: when `request_unsafe` returns the reply of read #j (or raises
  IllegalResponse for read #j), read #j is in its trace and the event of read #j is one with which the loop returns
  (busy on the last attempt, a final negative or positive reply) resp. a mismatch / malformed reply.
-/
namespace Gallia.ClientIO
open Gallia.Client Gallia.ClientMulti

/-- the outcome names read #j -/
def OutOfRead (o : Out) (j : Nat) (illegal : Bool) : Prop := if illegal then o = .illegal j else o = .reply j

/-- the event of read #j is of the matching kind -/
def EvOk (e : Ev) (illegal : Bool) : Prop := if illegal then e.illegal = true else replyEv e = true

theorem pend_out_read (c : Cfg) (s : Nat → Ev) (k np nt : Nat) (j : Nat) (il : Bool)
    (h : OutOfRead ((match (pendingLoop c s k np nt).1 with | .done o => o | _ => .stuck)) j il)
    (hd : ∃ o, (pendingLoop c s k np nt).1 = .done o) :
    (∃ tmo d, Op.rd j tmo d ∈ (pendingLoop c s k np nt).2) ∧ EvOk (s j) il := by
  fun_induction pendingLoop c s k np nt with
  | case1 => obtain ⟨o, ho⟩ := hd; cases ho
  | case2 k np nt hk _ ih =>
    simp only [consOp] at h hd ⊢
    obtain ⟨⟨tmo, d, hm⟩, he⟩ := ih h hd
    exact ⟨⟨tmo, d, List.mem_cons_of_mem _ hm⟩, he⟩
  | case3 => obtain ⟨o, ho⟩ := hd; cases ho
  | case4 => obtain ⟨o, ho⟩ := hd; cases ho
  | case5 k np nt hk =>
    cases il <;> simp [OutOfRead] at h
    subst h; exact ⟨⟨_, _, List.mem_singleton.mpr rfl⟩, by simp [EvOk, hk, Ev.illegal]⟩
  | case6 k np nt hk =>
    cases il <;> simp [OutOfRead] at h
    subst h; exact ⟨⟨_, _, List.mem_singleton.mpr rfl⟩, by simp [EvOk, hk, Ev.illegal]⟩
  | case7 k np nt hk _ => cases il <;> simp [OutOfRead] at h
  | case8 k np nt hk _ ih =>
    simp only [consOp] at h hd ⊢
    obtain ⟨⟨tmo, d, hm⟩, he⟩ := ih h hd
    exact ⟨⟨tmo, d, List.mem_cons_of_mem _ hm⟩, he⟩
  | case9 k np nt hk =>
    cases il <;> simp [OutOfRead] at h
    subst h; exact ⟨⟨_, _, List.mem_singleton.mpr rfl⟩, by simp [EvOk, hk, replyEv]⟩
  | case10 k np nt hk =>
    cases il <;> simp [OutOfRead] at h
    subst h; exact ⟨⟨_, _, List.mem_singleton.mpr rfl⟩, by simp [EvOk, hk, replyEv]⟩
  | case11 k np nt hk =>
    cases il <;> simp [OutOfRead] at h
    subst h; exact ⟨⟨_, _, List.mem_singleton.mpr rfl⟩, by simp [EvOk, hk, replyEv]⟩

theorem pend_out_read_eq (c : Cfg) (s : Nat → Ev) (k np nt : Nat) (o : Out) (t : List Op) (j : Nat) (il : Bool)
    (hp : pendingLoop c s k np nt = (.done o, t)) (h : OutOfRead o j il) :
    (∃ tmo d, Op.rd j tmo d ∈ t) ∧ EvOk (s j) il := by
  have := pend_out_read c s k np nt j il (by rw [hp]; exact h) ⟨o, by rw [hp]⟩
  rw [hp] at this; exact this

def OutXOfRead (o : OutX) (j : Nat) (il : Bool) : Prop := ∃ b, o = .base b ∧ OutOfRead b j il

theorem faultX_not_fin_base (c : CfgX) (io : Script) (i k m : Nat) (rc : Bool) (t : List OpX) (o : Out) (t' : List OpX) :
    faultX c io i k m rc t ≠ .fin (.base o) t' := by
  rcases faultX_cases c io i k m rc t with ⟨_, _, h'⟩ | ⟨_, _, _, h'⟩ | ⟨e, _, _, _, h'⟩ | ⟨_, h'⟩ <;> rw [h'] <;> intro e <;> cases e

theorem mem_lift_rd (c : CfgX) (t : List Op) (j : Nat) (h : ∃ tmo d, Op.rd j tmo d ∈ t) :
    ∃ tmo d, OpX.rd j tmo d ∈ t.map (liftPend c) := by
  obtain ⟨tmo, d, hm⟩ := h
  exact ⟨_, _, List.mem_map.mpr ⟨_, hm, rfl⟩⟩

theorem direct_reply (io : Script) (k j : Nat) (il : Bool) (a b : OpX) (tmo : Option Nat) (d : Nat) (hb2 : b = .rd k tmo d)
    (hb : OutOfRead (.reply k) j il) (hk : replyEv (io.rd k) = true) :
    (∃ tmo d, OpX.rd j tmo d ∈ [a, b]) ∧ EvOk (io.rd j) il := by
  cases il <;> simp [OutOfRead] at hb
  subst hb; subst hb2
  exact ⟨⟨tmo, d, by simp⟩, by simpa [EvOk] using hk⟩

theorem direct_illegal (io : Script) (k j : Nat) (il : Bool) (a b : OpX) (tmo : Option Nat) (d : Nat) (hb2 : b = .rd k tmo d)
    (hb : OutOfRead (.illegal k) j il) (hk : (io.rd k).illegal = true) :
    (∃ tmo d, OpX.rd j tmo d ∈ [a, b]) ∧ EvOk (io.rd j) il := by
  cases il <;> simp [OutOfRead] at hb
  subst hb; subst hb2
  exact ⟨⟨tmo, d, by simp⟩, by simpa [EvOk] using hk⟩

/-- one attempt that ends the request with the reply (or illegal reply) of read #j has read #j in its trace -/
theorem step_out_read (c : CfgX) (io : Script) (i k m : Nat) (last : Out) (o : OutX) (t : List OpX) (j : Nat) (il : Bool)
    (hst : attemptStepX c io i k m last = .fin o t) (ho : OutXOfRead o j il) :
    (∃ tmo d, OpX.rd j tmo d ∈ t) ∧ EvOk (io.rd j) il := by
  obtain ⟨b, rfl, hb⟩ := ho
  revert hst
  fun_cases attemptStepX c io i k m last <;> intro hst
  all_goals first
    | exact absurd hst (faultX_not_fin_base _ _ _ _ _ _ _ _ _)
    | cases hst
  · rename_i hk _; exact direct_reply io k j il _ _ _ _ rfl hb (by simp [hk, replyEv])
  · rename_i hk; exact direct_illegal io k j il _ _ _ _ rfl hb (by simp [hk, Ev.illegal])
  · rename_i hk; exact direct_illegal io k j il _ _ _ _ rfl hb (by simp [hk, Ev.illegal])
  · rename_i hk; exact direct_reply io k j il _ _ _ _ rfl hb (by simp [hk, replyEv])
  · rename_i hk; exact direct_reply io k j il _ _ _ _ rfl hb (by simp [hk, replyEv])
  · rename_i tp hp
    obtain ⟨hm, he⟩ := pend_out_read_eq c.base io.rd (k+1) 1 0 b tp j il hp hb
    obtain ⟨tmo, d, hm'⟩ := mem_lift_rd c tp j hm
    exact ⟨⟨tmo, d, List.mem_cons_of_mem _ (List.mem_cons_of_mem _ hm')⟩, he⟩

/-- the same for the whole retry loop -/
theorem attemptsX_out_read (c : CfgX) (io : Script) (i k m : Nat) (last : Out) (j : Nat) (il : Bool)
    (hl : ¬ OutOfRead last j il) (h : OutXOfRead (attemptsX c io i k m last).1 j il) :
    (∃ tmo d, OpX.rd j tmo d ∈ (attemptsX c io i k m last).2) ∧ EvOk (io.rd j) il := by
  fun_induction attemptsX c io i k m last with
  | case1 =>
    obtain ⟨b, hb, ho⟩ := h
    injection hb with hb; subst hb; exact absurd ho hl
  | case2 i k m last _ o t hst => exact step_out_read c io i k m last o t j il hst h
  | case3 i k m last _ t k' m' l hst ih =>
    have hl' : ¬ OutOfRead l j il := by
      have : l = last ∨ ∃ b, l = .missing b := by
        revert hst
        fun_cases attemptStepX c io i k m last <;> intro hst
        all_goals first
          | (rcases faultX_cases c io i _ m _ _ with ⟨_, _, h'⟩ | ⟨_, _, _, h'⟩ | ⟨e, _, _, _, h'⟩ | ⟨_, h'⟩ <;>
              rw [h'] at hst <;> cases hst <;> simp)
          | (cases hst; simp)
          | cases hst
      rcases this with rfl | ⟨b, rfl⟩
      · exact hl
      · cases il <;> simp [OutOfRead]
    obtain ⟨⟨tmo, d, hm⟩, he⟩ := ih hl' (by simpa [preX] using h)
    exact ⟨⟨tmo, d, by simp [preX]; exact .inr hm⟩, he⟩

/-- **a returned reply was read**: when `request_unsafe` returns the reply of read #j, read #j is in its trace and
    produced a busy / final negative / positive reply; when it raises IllegalResponse for read #j, read #j is in its
    trace and produced a mismatch / malformed reply -/
theorem runX_out_read (c : CfgX) (io : Script) (j : Nat) :
    ((runX c io).out = .base (.reply j) → (∃ tmo d, OpX.rd j tmo d ∈ (runX c io).trace) ∧ replyEv (io.rd j) = true) ∧
    ((runX c io).out = .base (.illegal j) → (∃ tmo d, OpX.rd j tmo d ∈ (runX c io).trace) ∧ (io.rd j).illegal = true) := by
  constructor
  · intro h
    have := attemptsX_out_read c io 0 0 0 (.missing false) j false (by simp [OutOfRead]) ⟨_, by simpa [runX] using h, by simp [OutOfRead]⟩
    simpa [runX, EvOk] using this
  · intro h
    have := attemptsX_out_read c io 0 0 0 (.missing false) j true (by simp [OutOfRead]) ⟨_, by simpa [runX] using h, by simp [OutOfRead]⟩
    simpa [runX, EvOk] using this

/-! ### reads are numbered consecutively -/

theorem pend_rd_index (c : Cfg) (s : Nat → Ev) (k np nt : Nat) (j tmo d : Nat)
    (h : Op.rd j tmo d ∈ (pendingLoop c s k np nt).2) : k ≤ j ∧ j < k + nReads (pendingLoop c s k np nt).2 := by
  fun_induction pendingLoop c s k np nt with
  | case2 k np nt _ _ ih =>
    simp only [consOp, List.mem_cons] at h
    simp only [consOp, nReads_cons, isRd_rd, if_true]
    rcases h with h | h
    · injection h with h1; omega
    · have := ih h; omega
  | case8 k np nt _ _ ih =>
    simp only [consOp, List.mem_cons] at h
    simp only [consOp, nReads_cons, isRd_rd, if_true]
    rcases h with h | h
    · injection h with h1; omega
    · have := ih h; omega
  | _ =>
    simp only [List.mem_singleton] at h
    injection h with h1
    simp; omega

/-- read indices of `t` lie in `[k, k + number of reads of t)` -/
def RdIn (t : List OpX) (k : Nat) : Prop := ∀ j tmo d, OpX.rd j tmo d ∈ t → k ≤ j ∧ j < k + nReadsX t

theorem rdIn_fault (c : CfgX) (io : Script) (i k k' m : Nat) (rc : Bool) (t : List OpX) (h : RdIn t k) :
    RdIn (faultX c io i k' m rc t).ops k := by
  rcases faultX_cases c io i k' m rc t with ⟨_, _, h'⟩ | ⟨_, _, _, h'⟩ | ⟨e, _, _, _, h'⟩ | ⟨_, h'⟩ <;> rw [h'] <;>
    simp only [StepX.ops]
  · intro j tmo d hm; simp at hm; have := h j tmo d hm; simpa using this
  · intro j tmo d hm; simp at hm; have := h j tmo d hm; simpa using this
  · intro j tmo d hm; simp at hm; have := h j tmo d hm; simpa using this
  · exact h

theorem rdIn_two (a : OpX) (k : Nat) (tmo : Option Nat) (d : Nat) (ha : ∀ j t d, a ≠ .rd j t d) (har : a.isRd = false) :
    RdIn [a, .rd k tmo d] k := by
  intro j t' d' hm
  simp at hm
  rcases hm with hm | hm
  · exact absurd hm.symm (ha j t' d')
  · obtain ⟨rfl, _, _⟩ := hm; simp [har]

theorem rdIn_pend (c : CfgX) (io : Script) (a : OpX) (k : Nat) (tmo : Option Nat) (d : Nat) (np nt : Nat)
    (ha : ∀ j t d, a ≠ .rd j t d) (har : a.isRd = false) :
    RdIn (a :: .rd k tmo d :: (pendingLoop c.base io.rd (k+1) np nt).2.map (liftPend c)) k := by
  intro j t' d' hm
  simp only [List.mem_cons, List.mem_map] at hm
  simp only [nReadsX_cons, har, nReadsX_liftPend]
  rcases hm with hm | hm | ⟨op, hop, he⟩
  · exact absurd hm.symm (ha j t' d')
  · injection hm with h1; subst h1; simp [OpX.isRd]; omega
  · cases op with
    | rd j2 t2 d2 =>
      simp only [liftPend] at he; injection he with h1; subst h1
      have := pend_rd_index c.base io.rd (k+1) np nt j2 t2 d2 hop
      simp [OpX.isRd]; omega
    | wr => simp [liftPend] at he
    | sl x => simp [liftPend] at he
    | rc => simp [liftPend] at he

theorem step_rd_index (c : CfgX) (io : Script) (i k m : Nat) (last : Out) : RdIn (attemptStepX c io i k m last).ops k := by
  have wne : ∀ (a : Option Nat) (r : WEv) (dd : Nat) (j : Nat) (t : Option Nat) (d : Nat), OpX.wr a r dd ≠ .rd j t d := by
    intros; intro e; cases e
  fun_cases attemptStepX c io i k m last
  · exact rdIn_fault c io i k k m false _ (by intro j t d hm; simp at hm)
  · exact rdIn_fault c io i k k m true _ (by intro j t d hm; simp at hm)
  · exact rdIn_fault c io i k (k+1) m false _ (rdIn_two _ k _ _ (wne _ _ _) rfl)
  · exact rdIn_fault c io i k (k+1) m true _ (rdIn_two _ k _ _ (wne _ _ _) rfl)
  · exact rdIn_fault c io i k (k+1) m true _ (rdIn_two _ k _ _ (wne _ _ _) rfl)
  · exact rdIn_two _ k _ _ (wne _ _ _) rfl
  · simp only [StepX.ops]
    intro j t d hm
    simp at hm
    obtain ⟨rfl, _, _⟩ := hm
    simp [OpX.isRd]
  · exact rdIn_two _ k _ _ (wne _ _ _) rfl
  · exact rdIn_two _ k _ _ (wne _ _ _) rfl
  · exact rdIn_two _ k _ _ (wne _ _ _) rfl
  · exact rdIn_two _ k _ _ (wne _ _ _) rfl
  all_goals
    rename_i hw hk _ t hp
    have hx := rdIn_pend c io (.wr c.timeout .ok 0) k c.timeout c.lat 1 0 (wne _ _ _) rfl
    rw [hp] at hx
  · exact hx
  · exact hx
  · exact rdIn_fault c io i k _ m true _ hx

theorem attemptsX_rd_index (c : CfgX) (io : Script) (i k m : Nat) (last : Out) : RdIn (attemptsX c io i k m last).2 k := by
  fun_induction attemptsX c io i k m last with
  | case1 => intro j t d hm; simp at hm
  | case2 i k m last _ o t hst =>
    have := step_rd_index c io i k m last
    rw [hst] at this; exact this
  | case3 i k m last _ t k' m' l hst ih =>
    have h1 := step_rd_index c io i k m last
    have sf := (step_facts c io i k m last).nextK
    rw [hst] at h1 sf
    have hk' := (sf t k' m' l rfl).1
    intro j tmo d hm
    simp only [preX, List.mem_append] at hm
    simp only [preX, nReadsX_append]
    rcases hm with hm | hm
    · have := h1 j tmo d hm; simp only [StepX.ops] at this; omega
    · have := ih j tmo d hm; omega

/-- **a foreign reply ends the request**: when read #j of a request is in its trace and produced a mismatch / malformed
    reply, the request ends with IllegalResponse for that read; when it produced a final reply, that reply is returned -/
theorem runX_read_decides (c : CfgX) (io : Script) (j : Nat) (tmo : Option Nat) (d : Nat)
    (h : OpX.rd j tmo d ∈ (runX c io).trace) :
    ((io.rd j).illegal = true → (runX c io).out = .base (.illegal j)) ∧
    ((io.rd j).final = true → (runX c io).out = .base (.reply j)) := by
  have hi := attemptsX_rd_index c io 0 0 0 (.missing false) j tmo d (by simpa [runX] using h)
  have := attemptsX_first c io 0 0 0 (.missing false) j (Nat.zero_le _) hi.2
  exact ⟨by simpa [runX] using this.2, by simpa [runX] using this.1⟩

/-! ### no retry budget, no reconnect -/

theorem faultX_last (c : CfgX) (io : Script) (i k m : Nat) (rc : Bool) (t : List OpX) (hi : c.maxRetry ≤ i) :
    faultX c io i k m rc t = .next t k m (.missing rc) := by
  unfold faultX
  have : ¬ i < c.maxRetry := by omega
  simp [this]

/-- on the last attempt nothing reconnects -/
theorem step_no_rc (c : CfgX) (io : Script) (i k m : Nat) (last : Out) (hi : c.maxRetry ≤ i) :
    nReconnectsX (attemptStepX c io i k m last).ops = 0 := by
  fun_cases attemptStepX c io i k m last
  all_goals try rw [faultX_last c io i _ m _ _ hi]
  all_goals try simp [StepX.ops, OpX.isRc]
  all_goals
    rename_i hw hk _ t hp
    have := (pend_facts c.base io.rd (k+1) 1 0).nrc
    rw [hp] at this
    simpa [nReconnectsX_liftPend] using this

/-- a request without retry budget (`max_retry = 0`, the tester-present worker's ping) never reconnects and never
    sleeps: a lost connection ends it with MissingResponse -/
theorem runX_no_rc (c : CfgX) (io : Script) (h : c.maxRetry = 0) : (runX c io).reconnects = 0 := by
  show nReconnectsX (attemptsX c io 0 0 0 (.missing false)).2 = 0
  rw [attemptsX]
  have hs := step_no_rc c io 0 0 0 (.missing false) (by omega)
  simp only [h, Nat.lt_irrefl, dite_false]
  split
  · rename_i o t hst; rw [hst] at hs; simpa [StepX.ops] using hs
  · rename_i t k' m' l hst
    rw [hst] at hs
    simp only [StepX.ops] at hs
    rw [attemptsX_done c io 1 k' m' l (by omega)]
    simpa [preX] using hs

end Gallia.ClientIO
