import Gallia.Model.Hsfz
/-
  Helper lemmas for C07 (HSFZ): framing, reader dispatch, the queue scan of the two consumers.
-/
namespace Gallia.Hsfz
open Gallia Gallia.Framing

/-! ### framing -/

theorem header_length (len cw : Nat) : (header len cw).length = 6 := by simp [header]

/-- a header announcing `L` bytes followed by exactly `L` bytes is cut off as one frame, whatever follows -/
theorem cutWire_header (L cw : Nat) (body rest : Bytes) (hL : L < 256 ^ 4) (hc : cw < 256 ^ 2)
    (hb : body.length = L) :
    cutWire (header L cw ++ body ++ rest) = some (bodyToWire cw body, rest) := by
  unfold cutWire header
  have h6 : ¬ (toBE L 4 ++ toBE cw 2 ++ body ++ rest).length < 6 := by simp; omega
  simp only [h6, ite_false]
  have e1 : (toBE L 4 ++ toBE cw 2 ++ body ++ rest).take 4 = toBE L 4 := by
    simp [List.append_assoc]
  have e2 : ((toBE L 4 ++ toBE cw 2 ++ body ++ rest).drop 4).take 2 = toBE cw 2 := by
    simp [List.append_assoc]
  have e3 : (toBE L 4 ++ toBE cw 2 ++ body ++ rest).drop 6 = body ++ rest := by
    have : (toBE L 4 ++ toBE cw 2).length = 6 := by simp
    rw [List.append_assoc (toBE L 4 ++ toBE cw 2), List.drop_append_of_le_length (by omega)]
    simp [← this]
  rw [e1, e2, e3, fromBE_toBE _ _ hL, fromBE_toBE _ _ hc]
  have : ¬ (body ++ rest).length < L := by simp; omega
  simp only [this, ite_false]
  rw [← hb]; simp

theorem bodyToWire_short (cw : Nat) (d : Bytes) (h : d.length < 2) : bodyToWire cw d = .short cw d := by
  match d, h with
  | [], _ => rfl
  | [_], _ => rfl
  | _ :: _ :: _, h => simp at h; omega

/-- `_read_frame` inverts the encoder on every frame it can produce, whatever follows in the stream -/
theorem cutWire_encode (w : Wire) (rest : Bytes) (h : w.ok) : cutWire (encodeWire w ++ rest) = some (w, rest) := by
  cases w with
  | short cw d =>
    obtain ⟨hc, hd⟩ := h
    have := cutWire_header d.length cw d rest (by omega) (by simpa using hc) rfl
    rw [bodyToWire_short cw d hd] at this
    simpa [encodeWire] using this
  | full cw s t d =>
    obtain ⟨hc, hd⟩ := h
    have := cutWire_header (d.length + 2) cw (s :: t :: d) rest (by simpa using hd) (by simpa using hc) (by simp)
    simpa [encodeWire, bodyToWire] using this

theorem cutWire_nil : cutWire [] = none := by simp [cutWire]

/-! ### dispatch -/

theorem items_nil : items [] = [] := rfl

theorem items_append (a b : List Wire) : items (a ++ b) = items a ++ items b := by
  simp [items, List.filterMap_append]

/-- what one dispatched frame adds to the queue -/
def Disp.toItems : Disp → List Item
  | .enq i => [i]
  | _ => []

theorem items_cons (w : Wire) (ws : List Wire) : items (w :: ws) = (dispatch w).toItems ++ items ws := by
  simp only [items, List.filterMap_cons]
  cases dispatch w <;> simp [Disp.toItems]

theorem dispatch_alive_iff (w : Wire) : dispatch w = .alive ↔ w.cw = cwAlive := by
  unfold dispatch
  by_cases h : w.cw = cwAlive
  · simp [h]
  · simp only [h, ite_false, iff_false]
    by_cases h2 : w.cw = cwAck ∨ w.cw = cwData
    · simp only [h2, ite_true]; cases w <;> simp
    · simp [h2]

/-- a short data / ack frame puts nothing into the queue -/
theorem dispatch_short_drop (cw : Nat) (d : Bytes) (h : cw = cwData ∨ cw = cwAck) :
    dispatch (.short cw d) = .drop := by
  rcases h with h | h <;> subst h <;> simp [dispatch, Wire.cw, cwData, cwAck, cwAlive]

/-! ### the scan of the two consumers -/

def Item.isFrame : Item → Bool
  | .frame .. => true
  | .word _ => false

/-- `pre` holds only frames the consumer does not accept -/
def Clean (m : Item → Bool) (pre : List Item) : Prop := ∀ y ∈ pre, y.isFrame = true ∧ m y = false

theorem Clean.nil (m : Item → Bool) : Clean m [] := by intro y hy; simp at hy

theorem Clean.cons {m : Item → Bool} {x : Item} {pre : List Item} (hx : x.isFrame = true ∧ m x = false)
    (h : Clean m pre) : Clean m (x :: pre) := by
  intro y hy
  rcases List.mem_cons.mp hy with rfl | hy
  · exact hx
  · exact h y hy

theorem Clean.tail {m : Item → Bool} {x : Item} {pre : List Item} (h : Clean m (x :: pre)) : Clean m pre :=
  fun y hy => h y (List.mem_cons_of_mem _ hy)

theorem scan_hit (m : Item → Bool) (sk pre : List Item) (x : Item) (post : List Item)
    (hpre : Clean m pre) (hx : x.isFrame = true) (hm : m x = true) :
    scan m sk (pre ++ x :: post) = .hit x post (sk ++ pre) := by
  induction pre generalizing sk with
  | nil =>
    cases x with
    | word cw => simp [Item.isFrame] at hx
    | frame cw s t d => simp [scan, hm]
  | cons y pre ih =>
    have hy := hpre y (by simp)
    cases y with
    | word cw => simp [Item.isFrame] at hy
    | frame cw s t d =>
      simp only [List.cons_append, scan, hy.2]
      rw [ih _ hpre.tail]; simp

theorem scan_err (m : Item → Bool) (sk pre : List Item) (cw : Nat) (post : List Item) (hpre : Clean m pre) :
    scan m sk (pre ++ .word cw :: post) = .err cw post (sk ++ pre) := by
  induction pre generalizing sk with
  | nil => simp [scan]
  | cons y pre ih =>
    have hy := hpre y (by simp)
    cases y with
    | word cw => simp [Item.isFrame] at hy
    | frame cw' s t d =>
      simp only [List.cons_append, scan, hy.2]
      rw [ih _ hpre.tail]; simp

theorem scan_more (m : Item → Bool) (sk q : List Item) (hq : Clean m q) : scan m sk q = .more (sk ++ q) := by
  induction q generalizing sk with
  | nil => simp [scan]
  | cons y q ih =>
    have hy := hq y (by simp)
    cases y with
    | word cw => simp [Item.isFrame] at hy
    | frame cw' s t d =>
      simp only [scan, hy.2]
      rw [ih _ hq.tail]; simp

/-- every queue has exactly one of the three shapes -/
theorem queue_shape (m : Item → Bool) (q : List Item) :
    (∃ pre x post, q = pre ++ x :: post ∧ Clean m pre ∧ x.isFrame = true ∧ m x = true) ∨
    (∃ pre cw post, q = pre ++ .word cw :: post ∧ Clean m pre) ∨
    Clean m q := by
  induction q with
  | nil => exact .inr (.inr (Clean.nil m))
  | cons y q ih =>
    cases y with
    | word cw => exact .inr (.inl ⟨[], cw, q, rfl, Clean.nil m⟩)
    | frame cw s t d =>
      by_cases hm : m (.frame cw s t d) = true
      · exact .inl ⟨[], _, q, rfl, Clean.nil m, rfl, hm⟩
      · have hy : (Item.frame cw s t d).isFrame = true ∧ m (.frame cw s t d) = false := ⟨rfl, by simpa using hm⟩
        rcases ih with ⟨pre, x, post, e, hc, hx, hmx⟩ | ⟨pre, cw', post, e, hc⟩ | hc
        · exact .inl ⟨_ :: pre, x, post, by simp [e], Clean.cons hy hc, hx, hmx⟩
        · exact .inr (.inl ⟨_ :: pre, cw', post, by simp [e], Clean.cons hy hc⟩)
        · exact .inr (.inr (Clean.cons hy hc))

/-- inversion: what a `hit` result says about the queue -/
theorem scan_hit_inv {m : Item → Bool} {sk q : List Item} {x : Item} {rest sk' : List Item}
    (h : scan m sk q = .hit x rest sk') :
    ∃ pre, q = pre ++ x :: rest ∧ sk' = sk ++ pre ∧ Clean m pre ∧ x.isFrame = true ∧ m x = true := by
  rcases queue_shape m q with ⟨pre, y, post, e, hc, hy, hmy⟩ | ⟨pre, cw, post, e, hc⟩ | hc
  · rw [e, scan_hit m sk pre y post hc hy hmy] at h
    injection h with h1 h2 h3
    subst h1 h2 h3
    exact ⟨pre, e, rfl, hc, hy, hmy⟩
  · rw [e, scan_err m sk pre cw post hc] at h; cases h
  · rw [scan_more m sk q hc] at h; cases h

theorem scan_err_inv {m : Item → Bool} {sk q : List Item} {cw : Nat} {rest sk' : List Item}
    (h : scan m sk q = .err cw rest sk') :
    ∃ pre, q = pre ++ .word cw :: rest ∧ sk' = sk ++ pre ∧ Clean m pre := by
  rcases queue_shape m q with ⟨pre, y, post, e, hc, hy, hmy⟩ | ⟨pre, cw', post, e, hc⟩ | hc
  · rw [e, scan_hit m sk pre y post hc hy hmy] at h; cases h
  · rw [e, scan_err m sk pre cw' post hc] at h
    injection h with h1 h2 h3
    subst h1 h2 h3
    exact ⟨pre, e, rfl, hc⟩
  · rw [scan_more m sk q hc] at h; cases h

theorem scan_more_inv {m : Item → Bool} {sk q sk' : List Item} (h : scan m sk q = .more sk') :
    sk' = sk ++ q ∧ Clean m q := by
  rcases queue_shape m q with ⟨pre, y, post, e, hc, hy, hmy⟩ | ⟨pre, cw', post, e, hc⟩ | hc
  · rw [e, scan_hit m sk pre y post hc hy hmy] at h; cases h
  · rw [e, scan_err m sk pre cw' post hc] at h; cases h
  · rw [scan_more m sk q hc] at h
    injection h with h1
    exact ⟨h1.symm, hc⟩

/-- scanning in two batches (the consumer blocks in between) is scanning the concatenation -/
theorem scan_append (m : Item → Bool) (sk a b : List Item) :
    scan m sk (a ++ b) =
      match scan m sk a with
      | .more sk' => scan m sk' b
      | .hit x rest sk' => .hit x (rest ++ b) sk'
      | .err cw rest sk' => .err cw (rest ++ b) sk' := by
  induction a generalizing sk with
  | nil => simp [scan]
  | cons y a ih =>
    cases y with
    | word cw => simp [scan]
    | frame cw s t d =>
      by_cases hm : m (.frame cw s t d) = true
      · simp [scan, hm]
      · have hm' : m (.frame cw s t d) = false := by simpa using hm
        simp only [List.cons_append, scan, hm']
        exact ih _

end Gallia.Hsfz
