import Gallia.Proofs.Lemmas.DoipSysAcct
import Gallia.Proofs.Lemmas.DoipOps
/-
  Helper lemmas for C06 (DoIP, whole executions): the conserved quantities behind the whole-execution theorems.

  * `acct`     payloads handed out by reads ++ payloads of the configured pair still on their way  (reads account for
               every diagnostic message, in arrival order)
  * `foreign`  frames no call ever accepts, still on their way                                      (never lost, never
               delivered, never reordered)
  * `ackBal`   acknowledgements used by writes + acknowledgements still on their way               (no acknowledgement
               serves two writes)
  * `rxAll`    what the reader task has handled ++ what it will make of the bytes it has not parsed (the reader
               handles exactly the frames of the stream, in order)
-/
namespace Gallia.DoipSys
open Gallia Gallia.Framing Gallia.Doip Gallia.DoipFifo

variable (c : Cfg)

/-! ### the shape of a move, seen through `avail` and `done` -/

theorem Move.shape {s s' : Sys} (h : Move c s s') (hwf : DoipSys.WF c s) :
    s'.buf = s.buf ∧
    ((avail s' = avail s ∧
        (s'.done = s.done ∨ ∃ t w r, (r = OpRes.conn ∨ r = OpRes.timeout) ∧ s'.done = s.done ++ [⟨t, w, r⟩])) ∨
     (∃ w A f B t, avail s = A ++ f :: B ∧ avail s' = A ++ B ∧ (∀ y ∈ A, w.pred c y = false) ∧
        w.pred c f = true ∧ s'.done = s.done ++ [⟨t, w, w.result f⟩])) := by
  refine ⟨h.buf c, ?_⟩
  cases h with
  | hold w sk p cl hcl _ hq e =>
    refine Or.inl ⟨?_, Or.inl (by rw [e])⟩
    rw [e]; simp [avail, held, hcl]
  | take w sk p cl pre f post hcl hq hpre hf e =>
    refine Or.inr ⟨w, sk ++ pre, f, post, s.now, ?_, ?_, ?_, hf, by rw [e]; rfl⟩
    · simp [avail, held, hcl, hq]
    · rw [e]; simp [avail, held, Sys.finish]
    · intro y hy
      rcases List.mem_append.mp hy with hy | hy
      · exact hwf _ _ _ _ hcl y hy
      · exact hpre y hy
  | fail w sk p cl r t cls hcl hr _ e =>
    refine Or.inl ⟨?_, Or.inr ⟨t, w, r, hr, by rw [e]; rfl⟩⟩
    rw [e]; simp [avail, held, hcl, Sys.finish]

theorem avail_deliver (s : Sys) (raw : Raw) : avail (deliver c s raw) = avail s ++ (classify raw).toQ := by
  simp [avail, deliver_queue, List.append_assoc]

/-- one reader step moves the frame from "still in the stream" to "queued" -/
theorem onway_deliver (s : Sys) {raw : Raw} {rest : Bytes} (hc : cut s.buf = some (raw, rest)) (extra : Bytes) :
    avail (deliver c { s with buf := rest } raw) ++ pendQ (deliver c { s with buf := rest } raw) extra =
      avail s ++ pendQ s extra := by
  rw [avail_deliver]
  unfold pendQ
  rw [deliver_buf', pendItems_cut hc extra, qAll_cons]
  simp [avail, List.append_assoc]

theorem pendQ_feed (s : Sys) (chunk extra : Bytes) :
    pendQ { s with buf := s.buf ++ chunk } extra = pendQ s (chunk ++ extra) := by
  simp [pendQ, pendItems, List.append_assoc]

/-! ### reads account for every diagnostic message -/

/-- payloads returned by reads, in completion order -/
def delivered (done : List Done) : List Bytes :=
  done.filterMap (fun e => match e.res with | .msg d => some d | _ => none)

def acct (s : Sys) (extra : Bytes) : List Bytes := delivered s.done ++ diags c (avail s ++ pendQ s extra)

@[simp] theorem delivered_nil : delivered [] = [] := rfl
theorem delivered_append (a b : List Done) : delivered (a ++ b) = delivered a ++ delivered b := by
  simp [delivered, List.filterMap_append]

theorem diags_append (a b : List Frame) : diags c (a ++ b) = diags c a ++ diags c b := by
  simp [diags, List.filter_append]

theorem diags_none (a : List Frame) (h : ∀ y ∈ a, isDiagFor c y = false) : diags c a = [] := by
  simp only [diags, List.map_eq_nil_iff, List.filter_eq_nil_iff]
  intro y hy; simp [h y hy]

theorem diags_cons (f : Frame) (q : List Frame) :
    diags c (f :: q) = (if isDiagFor c f then [f.userData] else []) ++ diags c q := by
  by_cases h : isDiagFor c f = true <;> simp [diags, h]

theorem pred_not_diag (w : Want) (hw : w ≠ .diag) (f : Frame) (h : w.pred c f = true) : isDiagFor c f = false := by
  cases w with
  | diag => exact absurd rfl hw
  | ack d => exact ackMatch_not_diag c d f h
  | rar => cases f <;> simp_all [Want.pred, isRar, isDiagFor]

theorem result_not_msg (w : Want) (hw : w ≠ .diag) (f : Frame) (t : Nat) :
    delivered [⟨t, w, w.result f⟩] = [] := by
  cases w with
  | diag => exact absurd rfl hw
  | ack d =>
    cases f with
    | ackNeg s t code p => by_cases hc : code = nackTargetUnreachable <;> simp [delivered, Want.result, hc]
    | _ => simp [delivered, Want.result]
  | rar =>
    cases f with
    | rar s t code => by_cases hc : code = raSuccess <;> simp [delivered, Want.result, hc]
    | _ => simp [delivered, Want.result]

theorem acct_conserved : Conserved c (acct c) where
  move := by
    intro s s' hwf h extra
    obtain ⟨hb, hs⟩ := h.shape c hwf
    have hp : pendQ s' extra = pendQ s extra := by simp [pendQ, hb]
    unfold acct
    rw [hp]
    rcases hs with ⟨ha, hd⟩ | ⟨w, A, f, B, t, ha, ha', hA, hf, hd⟩
    · rw [ha]
      rcases hd with hd | ⟨t, w, r, hr, hd⟩
      · rw [hd]
      · rw [hd, delivered_append]
        rcases hr with rfl | rfl <;> simp [delivered]
    · rw [ha, ha', hd, delivered_append]
      by_cases hw : w = .diag
      · subst hw
        have hA' : diags c A = [] := diags_none c A hA
        have hf' : isDiagFor c f = true := hf
        simp [diags_append, diags_cons, hA', hf', delivered, Want.result]
      · rw [result_not_msg w hw]
        have hf' := pred_not_diag c w hw f hf
        simp [diags_append, diags_cons, hf']
  deliver := by
    intro s raw rest hc extra
    unfold acct
    rw [onway_deliver c s hc extra, deliver_done]
  feed := by
    intro s chunk extra
    unfold acct
    rw [pendQ_feed]; rfl
  begin := by
    intro s w bytes timeout hi _ extra
    simp [acct, begun, avail, held, hi, pendQ]
  failFast := by
    intro s w hi extra
    simp [acct, avail, held, hi, pendQ, Sys.finish, delivered]
  flag := by intro s b extra; rfl
  tick := by intro s t extra; rfl

/-! ### frames no call accepts -/

/-- acknowledgements (positive or negative, whatever they echo) carrying the configured address pair -/
def isAckFor : Frame → Bool
  | .ackPos s t _ => s == c.tgt && t == c.src
  | .ackNeg s t _ _ => s == c.tgt && t == c.src
  | _ => false

/-- a frame that neither a read, nor a write, nor a routing activation ever accepts: diagnostic messages and
    acknowledgements of other address pairs, generic header negative acknowledgements -/
def foreign (f : Frame) : Bool := !(isDiagFor c f || isAckFor c f || isRar f)

def foreignOf (s : Sys) (extra : Bytes) : List Frame := (avail s ++ pendQ s extra).filter (foreign c)

theorem ackMatch_isAckFor (d : Bytes) (f : Frame) (h : ackMatch c d f = true) : isAckFor c f = true := by
  cases f <;> simp_all [ackMatch, isAckFor]

theorem pred_not_foreign (w : Want) (f : Frame) (h : w.pred c f = true) : foreign c f = false := by
  cases w with
  | diag => simp [foreign, show isDiagFor c f = true from h]
  | ack d => simp [foreign, ackMatch_isAckFor c d f h]
  | rar => simp [foreign, show isRar f = true from h]

theorem foreign_conserved : Conserved c (foreignOf c) where
  move := by
    intro s s' hwf h extra
    obtain ⟨hb, hs⟩ := h.shape c hwf
    have hp : pendQ s' extra = pendQ s extra := by simp [pendQ, hb]
    unfold foreignOf
    rw [hp]
    rcases hs with ⟨ha, _⟩ | ⟨w, A, f, B, t, ha, ha', _, hf, _⟩
    · rw [ha]
    · rw [ha, ha']
      simp [List.filter_append, pred_not_foreign c w f hf]
  deliver := by
    intro s raw rest hc extra
    unfold foreignOf
    rw [onway_deliver c s hc extra]
  feed := by
    intro s chunk extra
    unfold foreignOf
    rw [pendQ_feed]; rfl
  begin := by
    intro s w bytes timeout hi _ extra
    simp [foreignOf, begun, avail, held, hi, pendQ]
  failFast := by
    intro s w hi extra
    simp [foreignOf, avail, held, hi, pendQ, Sys.finish]
  flag := by intro s b extra; rfl
  tick := by intro s t extra; rfl

/-! ### acknowledgements -/

/-- writes that ended by accepting an acknowledgement (completed, or refused by a negative acknowledgement) -/
def acksUsed (done : List Done) : Nat :=
  done.countP (fun e => match e.w, e.res with
    | .ack _, .ok => true
    | .ack _, .nack _ => true
    | _, _ => false)

def ackBal (s : Sys) (extra : Bytes) : Nat := acksUsed s.done + (avail s ++ pendQ s extra).countP (isAckFor c)

theorem acksUsed_append (a b : List Done) : acksUsed (a ++ b) = acksUsed a + acksUsed b := by
  simp [acksUsed, List.countP_append]

theorem acksUsed_fail (t : Nat) (w : Want) (r : OpRes) (hr : r = .conn ∨ r = .timeout) : acksUsed [⟨t, w, r⟩] = 0 := by
  rcases hr with rfl | rfl <;> cases w <;> simp [acksUsed]

theorem acksUsed_take (t : Nat) (w : Want) (f : Frame) (h : w.pred c f = true) :
    acksUsed [⟨t, w, w.result f⟩] = if isAckFor c f then 1 else 0 := by
  cases w with
  | diag =>
    have : isAckFor c f = false := by cases f <;> simp_all [Want.pred, isDiagFor, isAckFor]
    simp [acksUsed, Want.result, this]
  | rar =>
    have : isAckFor c f = false := by cases f <;> simp_all [Want.pred, isRar, isAckFor]
    simp [acksUsed, this]
  | ack d =>
    have h1 := ackMatch_isAckFor c d f h
    cases f with
    | ackNeg s t code p =>
      by_cases hc : code = nackTargetUnreachable <;> simp_all [acksUsed, Want.result]
    | ackPos s t p => simp [acksUsed, Want.result, h1]
    | hdrNack _ => simp [isAckFor] at h1
    | rar _ _ _ => simp [isAckFor] at h1
    | diag _ _ _ => simp [isAckFor] at h1

theorem ackBal_conserved : Conserved c (ackBal c) where
  move := by
    intro s s' hwf h extra
    obtain ⟨hb, hs⟩ := h.shape c hwf
    have hp : pendQ s' extra = pendQ s extra := by simp [pendQ, hb]
    unfold ackBal
    rw [hp]
    rcases hs with ⟨ha, hd⟩ | ⟨w, A, f, B, t, ha, ha', _, hf, hd⟩
    · rw [ha]
      rcases hd with hd | ⟨t, w, r, hr, hd⟩
      · rw [hd]
      · rw [hd, acksUsed_append, acksUsed_fail t w r hr]; rfl
    · rw [ha, ha', hd, acksUsed_append, acksUsed_take c t w f hf]
      by_cases hk : isAckFor c f = true
      · simp [List.countP_append, hk]; omega
      · simp [List.countP_append, hk]
  deliver := by
    intro s raw rest hc extra
    unfold ackBal
    rw [onway_deliver c s hc extra, deliver_done]
  feed := by
    intro s chunk extra
    unfold ackBal
    rw [pendQ_feed]; rfl
  begin := by
    intro s w bytes timeout hi _ extra
    simp [ackBal, begun, avail, held, hi, pendQ]
  failFast := by
    intro s w hi extra
    simp [ackBal, avail, held, hi, pendQ, Sys.finish, acksUsed_append, acksUsed_fail]
  flag := by intro s b extra; rfl
  tick := by intro s t extra; rfl

/-! ### the reader task handles exactly the frames of the stream -/

/-- the frames the reader task handled, in order -/
def rxItems (tr : List Tr) : List Item := tr.filterMap (fun | .rx i => some i | .reply => none)

def rxAll (s : Sys) (extra : Bytes) : List Item := rxItems s.tr ++ pendItems s.buf extra

theorem rxItems_append (a b : List Tr) : rxItems (a ++ b) = rxItems a ++ rxItems b := by
  simp [rxItems, List.filterMap_append]

theorem rxAll_conserved : Conserved c rxAll where
  move := by
    intro s s' _ h extra
    simp [rxAll, h.buf c, h.tr c]
  deliver := by
    intro s raw rest hc extra
    unfold rxAll
    rw [deliver_tr, deliver_buf', pendItems_cut hc extra, rxItems_append]
    by_cases ha : classify raw = .alive <;> simp [rxItems, ha]
  feed := by
    intro s chunk extra
    simp [rxAll, pendItems, List.append_assoc]
  begin := by intro s w bytes timeout hi _ extra; rfl
  failFast := by intro s w hi extra; rfl
  flag := by intro s b extra; rfl
  tick := by intro s t extra; rfl


/-! ### alive checks -/

/-- the alive-check responses among the bytes written, with their times -/
def replies (out : List (Nat × Bytes)) : List (Nat × Bytes) := out.filter (fun o => o.2 == aliveResp c)

/-- alive-check requests among a list of items (all of them, also behind a frame that cannot be unpacked) -/
def aliveReqs (items : List Item) : Nat := items.countP (· == .alive)

def aliveBal (s : Sys) (extra : Bytes) : Nat := (replies c s.out).length + aliveReqs (pendItems s.buf extra)

theorem replies_append (a b : List (Nat × Bytes)) : replies c (a ++ b) = replies c a ++ replies c b := by
  simp [replies, List.filter_append]

theorem aliveBal_conserved : Conserved c (aliveBal c) where
  move := by
    intro s s' _ h extra
    simp [aliveBal, h.buf c, h.out c]
  deliver := by
    intro s raw rest hc extra
    unfold aliveBal
    rw [deliver_out, deliver_buf', pendItems_cut hc extra, replies_append]
    by_cases ha : classify raw = .alive
    · simp [ha, replies, aliveReqs]; omega
    · simp [ha, replies, aliveReqs]
  feed := by
    intro s chunk extra
    simp [aliveBal, pendItems, List.append_assoc]
  begin := by
    intro s w bytes timeout hi hb extra
    unfold aliveBal begun
    simp only [replies_append]
    cases bytes with
    | none => simp [replies]
    | some b => simp [replies, hb b rfl]
  failFast := by intro s w hi extra; rfl
  flag := by intro s b extra; rfl
  tick := by intro s t extra; rfl

/-- scan of what the reader task did; `owed` = the previous entry was an alive-check request that is not yet answered -/
def ansAux : Bool → List Tr → Bool
  | owed, [] => !owed
  | true, .reply :: rest => ansAux false rest
  | false, .reply :: _ => false
  | false, .rx i :: rest => ansAux (i == .alive) rest
  | true, .rx _ :: _ => false

/-- in what the reader task did, every alive-check request is followed at once by its response (before the next
    frame is handled), and there is no other response -/
def answered (tr : List Tr) : Bool := ansAux false tr

theorem ansAux_append (owed : Bool) (a b : List Tr) (ha : ansAux owed a = true) (hb : ansAux false b = true) :
    ansAux owed (a ++ b) = true := by
  induction a generalizing owed with
  | nil =>
    cases owed
    · simpa using hb
    · simp [ansAux] at ha
  | cons x xs ih =>
    cases owed <;> cases x
    · exact ih _ ha
    · simp [ansAux] at ha
    · simp [ansAux] at ha
    · exact ih _ ha

theorem answered_append (a b : List Tr) (ha : answered a = true) (hb : answered b = true) :
    answered (a ++ b) = true := ansAux_append false a b ha hb

theorem answered_stable : Stable c (fun s => answered s.tr = true) where
  move := by intro s s' _ h hp; rw [h.tr c]; exact hp
  deliver := by
    intro s raw rest _ _ hp
    rw [deliver_tr]
    apply answered_append _ _ hp
    cases classify raw <;> simp [answered, ansAux]
  feed := by intro s chunk hp; exact hp
  begin := by intro s w bytes timeout _ _ hp; exact hp
  failFast := by intro s w _ hp; exact hp
  close := by intro s hp; exact hp
  tick := by intro s t hp; exact hp

/-- the responses written are the responses in the reader's trace -/
def trReplies (tr : List Tr) : Nat := tr.countP (· == .reply)

theorem replies_stable : Stable c (fun s => (replies c s.out).length = trReplies s.tr) where
  move := by intro s s' _ h hp; rw [h.tr c, h.out c]; exact hp
  deliver := by
    intro s raw rest _ _ hp
    rw [deliver_tr, deliver_out, replies_append]
    have hp' : (replies c s.out).length = trReplies s.tr := hp
    by_cases ha : classify raw = .alive
    · simp [ha, replies, trReplies, List.countP_append] at hp' ⊢; omega
    · simp [ha, replies, trReplies, List.countP_append] at hp' ⊢; omega
  feed := by intro s chunk hp; exact hp
  begin := by
    intro s w bytes timeout _ hb hp
    have hp' : (replies c s.out).length = trReplies s.tr := hp
    show (replies c (begun s w bytes timeout).out).length = trReplies s.tr
    unfold begun
    simp only [replies_append]
    cases bytes with
    | none => simpa [replies] using hp'
    | some b => simpa [replies, hb b rfl] using hp'
  failFast := by intro s w _ hp; exact hp
  close := by intro s hp; exact hp
  tick := by intro s t hp; exact hp

/-! ### closed is final; results are only ever appended -/

theorem closed_stable : Stable c (fun s => s.closed = true) where
  move := by
    intro s s' _ h hp
    cases h with
    | hold _ _ _ _ _ _ _ e => rw [e]; exact hp
    | take _ _ _ _ _ _ _ _ _ _ _ e => rw [e]; exact hp
    | fail _ _ _ _ _ _ _ _ _ hcls e => rw [e]; exact hcls hp
  deliver := by intro s raw rest _ ho hp; simp [ho] at hp
  feed := by intro s chunk hp; exact hp
  begin := by intro s w bytes timeout _ _ hp; exact hp
  failFast := by intro s w _ hp; exact hp
  close := by intro s _; rfl
  tick := by intro s t hp; exact hp

theorem doneExt_stable (d0 : List Done) : Stable c (fun s => ∃ more, s.done = d0 ++ more) where
  move := by
    intro s s' hwf h hp
    obtain ⟨m, hm⟩ := hp
    obtain ⟨_, hs⟩ := h.shape c hwf
    rcases hs with ⟨_, hd | ⟨t, w, r, _, hd⟩⟩ | ⟨w, A, f, B, t, _, _, _, _, hd⟩
    · exact ⟨m, by rw [hd, hm]⟩
    · exact ⟨m ++ [⟨t, w, r⟩], by rw [hd, hm, List.append_assoc]⟩
    · exact ⟨m ++ [⟨t, w, w.result f⟩], by rw [hd, hm, List.append_assoc]⟩
  deliver := by intro s raw rest _ _ hp; simpa using hp
  feed := by intro s chunk hp; exact hp
  begin := by intro s w bytes timeout _ _ hp; exact hp
  failFast := by
    intro s w _ hp
    obtain ⟨m, hm⟩ := hp
    exact ⟨m ++ [⟨s.now, w, .conn⟩], by simp [Sys.finish, hm]⟩
  close := by intro s hp; exact hp
  tick := by intro s t hp; exact hp

theorem outExt_stable (o0 : List (Nat × Bytes)) : Stable c (fun s => ∃ more, s.out = o0 ++ more) where
  move := by intro s s' _ h hp; rw [h.out c]; exact hp
  deliver := by
    intro s raw rest _ _ hp
    obtain ⟨m, hm⟩ := hp
    rw [deliver_out]
    exact ⟨m ++ _, by rw [show ({ s with buf := rest } : Sys).out = s.out from rfl, hm, List.append_assoc]⟩
  feed := by intro s chunk hp; exact hp
  begin := by
    intro s w bytes timeout _ _ hp
    obtain ⟨m, hm⟩ := hp
    exact ⟨m ++ _, by simp only [begun]; rw [hm, List.append_assoc]⟩
  failFast := by intro s w _ hp; exact hp
  close := by intro s hp; exact hp
  tick := by intro s t hp; exact hp

end Gallia.DoipSys
