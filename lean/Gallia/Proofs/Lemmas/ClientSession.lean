import Gallia.Model.ClientSession
namespace Gallia.Client

theorem sessionLoop_eq (steps : List Step) (acc : List Res) :
    sessionLoop steps acc = acc.reverse ++ steps.map (fun st => run st.1 st.2) := by
  induction steps generalizing acc with
  | nil => simp [sessionLoop]
  | cons st rest ih => simp [sessionLoop, ih]

theorem runSession_eq (steps : List Step) : runSession steps = steps.map (fun st => run st.1 st.2) := by
  simp [runSession, sessionLoop_eq]

end Gallia.Client
