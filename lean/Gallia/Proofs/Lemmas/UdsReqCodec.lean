import Gallia.Proofs.Lemmas.UdsReq
/-
  C01: parser / encoder round trips per request kind
-/
namespace Gallia.UdsReq
open Gallia

/-! ### lists of fixed-width records -/

theorem chunks_roundtrip {α : Type} (k : Nat) (hk : 0 < k) (enc : α → Bytes) (dec : Bytes → α) (P : α → Prop)
    (hl : ∀ x, (enc x).length = k) (hd : ∀ x, P x → dec (enc x) = x) (xs : List α) (hx : ∀ x ∈ xs, P x) :
    (chunksOf k (xs.map enc).flatten).map (·.map dec) = some xs := by
  rw [chunksOf_flatten k hk _ (by intro c hc; simp only [List.mem_map] at hc; obtain ⟨x, _, rfl⟩ := hc; exact hl x)]
  simp only [Option.map_some, List.map_map, Option.some.injEq]
  calc xs.map (dec ∘ enc) = xs.map id := List.map_congr_left (fun x hxm => hd x (hx x hxm))
    _ = xs := List.map_id xs

theorem chunks_sound {α : Type} (k : Nat) (enc : α → Bytes) (dec : Bytes → α) (bs : Bytes) (cs : List Bytes)
    (h : chunksOf k bs = some cs) (he : ∀ c, c.length = k → enc (dec c) = c) :
    ((cs.map dec).map enc).flatten = bs := by
  obtain ⟨hf, hl⟩ := chunksOf_some k bs cs h
  rw [List.map_map]
  have : cs.map (enc ∘ dec) = cs.map id := List.map_congr_left (fun c hc => he c (hl c hc))
  rw [this, List.map_id, hf]

theorem chunks_count (k : Nat) (bs : Bytes) (cs : List Bytes) (h : chunksOf k bs = some cs) :
    bs.length = k * cs.length := by
  obtain ⟨hf, hl⟩ := chunksOf_some k bs cs h
  subst hf
  clear h
  induction cs with
  | nil => simp
  | cons c cs ih =>
    simp only [List.flatten_cons, List.length_append, List.length_cons]
    rw [ih (fun c hc => hl c (by simp [hc])), hl c (by simp), Nat.mul_succ]; omega

/-! ### DynamicallyDefineDataIdentifier source groups -/

@[simp] theorem encIdGroup_length (g : Nat × Nat × Nat) : (encIdGroup g).length = 4 := by simp [encIdGroup]

theorem decIdGroup_enc (g : Nat × Nat × Nat) (h : g.1 < 65536 ∧ g.2.1 < 256 ∧ g.2.2 < 256) :
    decIdGroup (encIdGroup g) = g := by
  obtain ⟨s, p, m⟩ := g
  simp only at h
  have e : (toBE s 2 ++ [u8 p, u8 m]).take 2 = toBE s 2 := List.take_left' (by simp)
  simp only [decIdGroup, encIdGroup, e, fromBE_toBE s 2 (by simpa using h.1)]
  simp [toBE_two, u8_toNat h.2.1, u8_toNat h.2.2]

theorem encIdGroup_dec (c : Bytes) (h : c.length = 4) :
    encIdGroup (decIdGroup c) = c ∧ (decIdGroup c).1 < 65536 ∧ (decIdGroup c).2.1 < 256 ∧ (decIdGroup c).2.2 < 256 := by
  match c, h with
  | [a, b, p, m], _ =>
    simp only [decIdGroup, encIdGroup, List.take, List.getD_cons_succ, List.getD_cons_zero, u8_of_toNat]
    refine ⟨?_, fromBE_two_lt a b, p.toNat_lt, m.toNat_lt⟩
    rw [toBE_fromBE_two]; rfl

/-! ### the length gate, per kind (values read off `requestRegistry`) -/

section gate
variable (n : Nat)
theorem gate_dsc (t s) : gate (.dsc t s) n = (decide (2 ≤ n) && decide (n ≤ 2)) := by simp [gate, keyOf, regLookup, requestRegistry]
theorem gate_ecuReset (t s) : gate (.ecuReset t s) n = (decide (2 ≤ n) && decide (n ≤ 2)) := by simp [gate, keyOf, regLookup, requestRegistry]
theorem gate_requestSeed (l r s) : gate (.requestSeed l r s) n = decide (2 ≤ n) := by simp [gate, keyOf, regLookup, requestRegistry]
theorem gate_sendKey (l k s) : gate (.sendKey l k s) n = decide (3 ≤ n) := by simp [gate, keyOf, regLookup, requestRegistry]
theorem gate_commCtrl (c m s) : gate (.commCtrl c m s) n = (decide (3 ≤ n) && decide (n ≤ 3)) := by simp [gate, keyOf, regLookup, requestRegistry]
theorem gate_testerPresent (s) : gate (.testerPresent s) n = (decide (2 ≤ n) && decide (n ≤ 2)) := by simp [gate, keyOf, regLookup, requestRegistry]
theorem gate_controlDTC (t r s) : gate (.controlDTC t r s) n = decide (2 ≤ n) := by simp [gate, keyOf, regLookup, requestRegistry]
theorem gate_rdbi (ds) : gate (.rdbi ds) n = decide (3 ≤ n) := by simp [gate, keyOf, regLookup, requestRegistry]
theorem gate_rmba (a s f) : gate (.rmba a s f) n = (decide (4 ≤ n) && decide (n ≤ 32)) := by simp [gate, keyOf, regLookup, requestRegistry]
theorem gate_defineById (d g s) : gate (.defineById d g s) n = decide (8 ≤ n) := by simp [gate, keyOf, regLookup, requestRegistry]
theorem gate_defineByMem (d f g s) : gate (.defineByMem d f g s) n = decide (7 ≤ n) := by simp [gate, keyOf, regLookup, requestRegistry]
theorem gate_clearDDDI (d s) : gate (.clearDDDI d s) n = (decide (2 ≤ n) && decide (n ≤ 4)) := by simp [gate, keyOf, regLookup, requestRegistry]
theorem gate_wdbi (d r) : gate (.wdbi d r) n = decide (4 ≤ n) := by simp [gate, keyOf, regLookup, requestRegistry]
theorem gate_wmba (a s f r) : gate (.wmba a s f r) n = decide (5 ≤ n) := by simp [gate, keyOf, regLookup, requestRegistry]
theorem gate_clearDTC (g) : gate (.clearDTC g) n = (decide (4 ≤ n) && decide (n ≤ 4)) := by simp [gate, keyOf, regLookup, requestRegistry]
theorem gate_dtcExtByNumber (d r s) : gate (.dtcExtByNumber d r s) n = (decide (6 ≤ n) && decide (n ≤ 6)) := by simp [gate, keyOf, regLookup, requestRegistry]
theorem gate_iocbi (d o m) : gate (.iocbi d o m) n = decide (4 ≤ n) := by simp [gate, keyOf, regLookup, requestRegistry]
theorem gate_reqDownload (a s c e f) : gate (.reqDownload a s c e f) n = decide (4 ≤ n) := by simp [gate, keyOf, regLookup, requestRegistry]
theorem gate_reqUpload (a s c e f) : gate (.reqUpload a s c e f) n = decide (4 ≤ n) := by simp [gate, keyOf, regLookup, requestRegistry]
theorem gate_transferData (c r) : gate (.transferData c r) n = decide (2 ≤ n) := by simp [gate, keyOf, regLookup, requestRegistry]
theorem gate_transferExit (r) : gate (.transferExit r) n = decide (1 ≤ n) := by simp [gate, keyOf, regLookup, requestRegistry]
theorem gate_raw (b) : gate (.raw b) n = decide (1 ≤ n) := by simp [gate, keyOf, regLookup, requestRegistry]

theorem gate_dtcByMask (sf m s) (h : sf ∈ dtcMaskSfs) : gate (.dtcByMask sf m s) n = (decide (3 ≤ n) && decide (n ≤ 3)) := by
  simp only [dtcMaskSfs, List.mem_cons, List.not_mem_nil, or_false] at h
  rcases h with rfl | rfl | rfl | rfl | rfl | rfl <;> simp [gate, keyOf, regLookup, requestRegistry]
theorem gate_dtcPlain (sf s) (h : sf ∈ dtcPlainSfs) : gate (.dtcPlain sf s) n = (decide (2 ≤ n) && decide (n ≤ 2)) := by
  simp only [dtcPlainSfs, List.mem_cons, List.not_mem_nil, or_false] at h
  rcases h with rfl | rfl | rfl | rfl | rfl | rfl <;> simp [gate, keyOf, regLookup, requestRegistry]
theorem gate_routine (sf r rec s) (h : sf ∈ routineSfs) : gate (.routine sf r rec s) n = decide (4 ≤ n) := by
  simp only [routineSfs, List.mem_cons, List.not_mem_nil, or_false] at h
  rcases h with rfl | rfl | rfl <;> simp [gate, keyOf, regLookup, requestRegistry]
end gate

theorem mem_sfs_lt {sf : Nat} (h : sf ∈ dtcMaskSfs ∨ sf ∈ dtcPlainSfs ∨ sf ∈ routineSfs) : sf < 128 := by
  simp only [dtcMaskSfs, dtcPlainSfs, routineSfs, List.mem_cons, List.not_mem_nil, or_false] at h
  omega

/-! ### completeness: the parser recovers every well-formed request -/

theorem map_dec_enc {α : Type} (enc : α → Bytes) (dec : Bytes → α) (P : α → Prop)
    (hd : ∀ x, P x → dec (enc x) = x) (xs : List α) (hx : ∀ x ∈ xs, P x) : (xs.map enc).map dec = xs := by
  rw [List.map_map]
  calc xs.map (dec ∘ enc) = xs.map id := List.map_congr_left (fun x hxm => hd x (hx x hxm))
    _ = xs := List.map_id xs

theorem chunks_enc {α : Type} (k : Nat) (hk : 0 < k) (enc : α → Bytes) (hl : ∀ x, (enc x).length = k) (xs : List α) :
    chunksOf k (xs.map enc).flatten = some (xs.map enc) :=
  chunksOf_flatten k hk _ (by intro c hc; simp only [List.mem_map] at hc; obtain ⟨x, _, rfl⟩ := hc; exact hl x)

theorem pt_rdbi (dids : List Nat) (h : ∀ d ∈ dids, d < 65536) :
    parseTyped (encode (.rdbi dids)) = some (.rdbi dids) := by
  simp only [encode, parseTyped, parseRdbi]
  simp (config := {decide := true}) only [if_false, if_true]
  rw [chunks_enc 2 (by decide) (fun d => toBE d 2) (by simp)]
  simp only [Option.map_some]
  rw [map_dec_enc (fun d => toBE d 2) fromBE (fun d => d < 65536) (fun d hd => fromBE_toBE d 2 (by simpa using hd)) dids h]

theorem pt_rmba (a s f : Nat) (hok : AlfidOk f) (hf : Fits f a s) :
    parseTyped (encode (.rmba a s f)) = some (.rmba a s f) := by
  simp only [encode, parseTyped, parseRmba, List.cons_append, List.nil_append]
  simp (config := {decide := true}) only [if_false, if_true]
  have := parseMem_enc f a s [] hok hf
  rw [List.append_nil] at this
  rw [this]

theorem pt_wmba (a s f : Nat) (rec : Bytes) (hok : AlfidOk f) (hf : Fits f a s) (hr : rec ≠ []) :
    parseTyped (encode (.wmba a s f rec)) = some (.wmba a s f rec) := by
  simp only [encode, parseTyped, parseWmba, List.cons_append, List.nil_append]
  simp (config := {decide := true}) only [if_false, if_true]
  rw [parseMem_enc f a s rec hok hf]
  simp [hr]

theorem pt_reqDownload (a s c e f : Nat) (hc : c < 16) (he : e < 16) (hok : AlfidOk f) (hf : Fits f a s) :
    parseTyped (encode (.reqDownload a s c e f)) = some (.reqDownload a s c e f) := by
  simp only [encode, parseTyped, parseUpDown, List.cons_append, List.nil_append]
  simp (config := {decide := true}) only [if_false, if_true]
  have := parseMem_enc f a s [] hok hf
  rw [List.append_nil] at this
  rw [this]
  have h1 : (u8 (c * 16 + e)).toNat = c * 16 + e := u8_toNat (by omega)
  simp only [h1]
  congr 2 <;> omega

theorem pt_defineById (d : Nat) (gs : List (Nat × Nat × Nat)) (sup : Bool) (hd : d < 65536)
    (hg : ∀ g ∈ gs, g.1 < 65536 ∧ g.2.1 < 256 ∧ g.2.2 < 256) :
    parseTyped (encode (.defineById d gs sup)) = some (.defineById d gs sup) := by
  simp only [encode, parseTyped, parseDDDI, toBE_two, List.cons_append, List.nil_append]
  simp (config := {decide := true}) only [if_false, if_true, sfOf_sfByte (show 1 < 128 by decide), supOf_sfByte (show 1 < 128 by decide)]
  rw [chunks_enc 4 (by decide) encIdGroup encIdGroup_length]
  simp only [Option.map_some]
  rw [map_dec_enc encIdGroup decIdGroup _ decIdGroup_enc gs hg]
  have := fromBE_toBE d 2 (by simpa using hd)
  rw [toBE_two] at this
  rw [this]

theorem pt_defineByMem (d f : Nat) (gs : List (Nat × Nat)) (sup : Bool) (hd : d < 65536) (hok : AlfidOk f)
    (hg : ∀ g ∈ gs, Fits f g.1 g.2) :
    parseTyped (encode (.defineByMem d f gs sup)) = some (.defineByMem d f gs sup) := by
  have hl := alfidOk_lens hok
  have hn : (u8 f).toNat = f := u8_toNat hok.1
  simp only [encode, parseTyped, parseDDDI, toBE_two, List.cons_append, List.nil_append]
  simp (config := {decide := true}) only [if_false, if_true, sfOf_sfByte (show 2 < 128 by decide), supOf_sfByte (show 2 < 128 by decide), hn]
  have hz : ¬ (alLen f = 0 ∨ slLen f = 0) := by omega
  rw [if_neg hz]
  rw [chunks_enc (alLen f + slLen f) (by omega) (encAddrSize f) (encAddrSize_length f)]
  simp only [Option.map_some]
  rw [map_dec_enc (encAddrSize f) (decAddrSize f) _ (fun g hg => decAddrSize_enc f g hg) gs hg]
  have := fromBE_toBE d 2 (by simpa using hd)
  rw [toBE_two] at this
  rw [this]

theorem pt_clearDDDI (d : Option Nat) (sup : Bool) (hd : ∀ x, d = some x → x < 65536) :
    parseTyped (encode (.clearDDDI d sup)) = some (.clearDDDI d sup) := by
  cases d with
  | none =>
    simp only [encode, parseTyped, parseDDDI]
    simp (config := {decide := true}) only [if_false, if_true, sfOf_sfByte (show 3 < 128 by decide), supOf_sfByte (show 3 < 128 by decide)]
  | some x =>
    have := fromBE_toBE x 2 (by simpa using hd x rfl)
    rw [toBE_two] at this
    simp only [encode, parseTyped, parseDDDI, toBE_two, List.cons_append, List.nil_append]
    simp (config := {decide := true}) only [if_false, if_true, sfOf_sfByte (show 3 < 128 by decide), supOf_sfByte (show 3 < 128 by decide), this]


theorem pt_reqUpload (a s c e f : Nat) (hc : c < 16) (he : e < 16) (hok : AlfidOk f) (hf : Fits f a s) :
    parseTyped (encode (.reqUpload a s c e f)) = some (.reqUpload a s c e f) := by
  simp only [encode, parseTyped, parseUpDown, List.cons_append, List.nil_append]
  simp (config := {decide := true}) only [if_false, if_true]
  have := parseMem_enc f a s [] hok hf
  rw [List.append_nil] at this
  rw [this]
  have h1 : (u8 (c * 16 + e)).toNat = c * 16 + e := u8_toNat (by omega)
  simp only [h1]
  congr 2 <;> omega

/-- a well-formed request parses back (structurally) to itself, up to `norm` -/
theorem parseTyped_encode (r : Req) (h : r.WF) (hr : r.isRaw = false) : parseTyped (encode r) = some (norm r) := by
  cases r with
  | raw b => simp [Req.isRaw] at hr
  | dsc ty sup => simp [Req.WF] at h; simp [encode, parseTyped, parseSub1, norm, sfOf_sfByte h, supOf_sfByte h]
  | ecuReset ty sup => simp [Req.WF] at h; simp [encode, parseTyped, parseSub1, norm, sfOf_sfByte h, supOf_sfByte h]
  | requestSeed l rec sup =>
    simp [Req.WF] at h
    simp [encode, parseTyped, parseSecurityAccess, norm, sfOf_sfByte h.1, supOf_sfByte h.1, sfByte_parity h.1, h.2]
  | sendKey l k sup =>
    simp [Req.WF] at h
    simp [encode, parseTyped, parseSecurityAccess, norm, sfOf_sfByte h.1, supOf_sfByte h.1, sfByte_parity h.1, h.2.1]
  | commCtrl c m sup =>
    simp [Req.WF] at h
    simp [encode, parseTyped, parseCommCtrl, norm, sfOf_sfByte h.1, supOf_sfByte h.1, u8_toNat h.2]
  | testerPresent sup =>
    simp [encode, parseTyped, parseTesterPresent, norm, sfOf_sfByte (show 0 < 128 by decide), supOf_sfByte (show 0 < 128 by decide)]
  | controlDTC t rec sup => simp [Req.WF] at h; simp [encode, parseTyped, parseSubRec, norm, sfOf_sfByte h, supOf_sfByte h]
  | rdbi ds => simp [Req.WF] at h; simpa [norm] using pt_rdbi ds h.2
  | rmba a s f => simp [Req.WF] at h; simpa [norm] using pt_rmba a s f h.1 h.2
  | defineById d gs sup => simp [Req.WF] at h; simpa [norm] using pt_defineById d gs sup h.1 (fun g hg => h.2.2 g.1 g.2.1 g.2.2 hg)
  | defineByMem d f gs sup => simp [Req.WF] at h; simpa [norm] using pt_defineByMem d f gs sup h.1 h.2.1 (fun g hg => h.2.2.2 g.1 g.2 hg)
  | clearDDDI d sup => simp [Req.WF] at h; simpa [norm] using pt_clearDDDI d sup (fun x hx => h x hx)
  | wdbi d rec =>
    simp [Req.WF] at h
    have := fromBE_toBE d 2 (by simpa using h.1)
    rw [toBE_two] at this
    simp [encode, parseTyped, parseWdbi, norm, toBE_two, this]
  | wmba a s f rec => simp [Req.WF] at h; simpa [norm] using pt_wmba a s f rec h.1 h.2.1 h.2.2
  | clearDTC g =>
    simp [Req.WF] at h
    have := fromBE_toBE g 3 (by simpa using h)
    rw [toBE_three] at this
    simp [encode, parseTyped, parseClearDTC, norm, toBE_three, this]
  | dtcByMask sf m sup =>
    simp only [Req.WF] at h
    have hlt := mem_sfs_lt (Or.inl h.1)
    simp [encode, parseTyped, parseReadDTC, norm, sfOf_sfByte hlt, supOf_sfByte hlt, h.1, u8_toNat h.2]
  | dtcPlain sf sup =>
    simp only [Req.WF] at h
    have hlt := mem_sfs_lt (Or.inr (Or.inl h))
    have hn : sf ∉ dtcMaskSfs := by
      simp only [dtcPlainSfs, dtcMaskSfs, List.mem_cons, List.not_mem_nil, or_false] at h ⊢; omega
    simp [encode, parseTyped, parseReadDTC, norm, sfOf_sfByte hlt, supOf_sfByte hlt, h, hn]
  | dtcExtByNumber d n sup =>
    simp [Req.WF] at h
    have := fromBE_toBE d 3 (by simpa using h.1)
    rw [toBE_three] at this
    simp [encode, parseTyped, parseReadDTC, norm, toBE_three, this, sfOf_sfByte (show 6 < 128 by decide),
      supOf_sfByte (show 6 < 128 by decide), u8_toNat h.2, dtcMaskSfs, dtcPlainSfs]
  | iocbi d o m =>
    simp [Req.WF] at h
    have := fromBE_toBE d 2 (by simpa using h.1)
    rw [toBE_two] at this
    simp [encode, parseTyped, parseIocbi, norm, toBE_two, this]
  | routine sf rid rec sup =>
    simp only [Req.WF] at h
    have hlt := mem_sfs_lt (Or.inr (Or.inr h.1))
    have := fromBE_toBE rid 2 (by simpa using h.2)
    rw [toBE_two] at this
    simp [encode, parseTyped, parseRoutine, norm, toBE_two, this, sfOf_sfByte hlt, supOf_sfByte hlt, h.1]
  | reqDownload a s c e f => simp [Req.WF] at h; simpa [norm] using pt_reqDownload a s c e f h.1 h.2.1 h.2.2.1 h.2.2.2
  | reqUpload a s c e f => simp [Req.WF] at h; simpa [norm] using pt_reqUpload a s c e f h.1 h.2.1 h.2.2.1 h.2.2.2
  | transferData c rec => simp [Req.WF] at h; simp [encode, parseTyped, parseTransferData, norm, u8_toNat h]
  | transferExit rec => simp [encode, parseTyped, norm]


theorem flatten_map_length {α : Type} (k : Nat) (enc : α → Bytes) (hl : ∀ x, (enc x).length = k) (xs : List α) :
    ((xs.map enc).flatten).length = k * xs.length := by
  induction xs with
  | nil => simp
  | cons x xs ih => simp [ih, hl x, Nat.mul_succ]; omega

theorem length_pos_of_ne_nil {α : Type} {l : List α} (h : l ≠ []) : 0 < l.length := List.length_pos_iff.mpr h

/-- a well-formed request passes the registry's length gate of its class -/
theorem gate_encode (r : Req) (h : r.WF) (hr : r.isRaw = false) : gate (norm r) (encode r).length = true := by
  cases r with
  | raw b => simp [Req.isRaw] at hr
  | dsc ty sup => simp [norm, gate_dsc, encode]
  | ecuReset ty sup => simp [norm, gate_ecuReset, encode]
  | requestSeed l rec sup => simp [norm, gate_requestSeed, encode]
  | sendKey l k sup =>
    simp [Req.WF] at h
    have := length_pos_of_ne_nil h.2.2
    simp [norm, gate_sendKey, encode]; omega
  | commCtrl c m sup => simp [norm, gate_commCtrl, encode]
  | testerPresent sup => simp [norm, gate_testerPresent, encode]
  | controlDTC t rec sup => simp [norm, gate_controlDTC, encode]
  | rdbi ds =>
    simp [Req.WF] at h
    have := length_pos_of_ne_nil h.1
    simp only [norm, gate_rdbi, encode, List.length_cons, flatten_map_length 2 (fun d => toBE d 2) (by simp) ds, decide_eq_true_eq]
    omega
  | rmba a s f =>
    simp [Req.WF] at h
    have := alfidOk_lens h.1
    simp [norm, gate_rmba, encode]; omega
  | defineById d gs sup =>
    simp [Req.WF] at h
    have := length_pos_of_ne_nil h.2.1
    simp only [norm, gate_defineById, encode, List.length_append, List.length_cons, List.length_nil, toBE_length,
      flatten_map_length 4 encIdGroup encIdGroup_length gs, decide_eq_true_eq]
    omega
  | defineByMem d f gs sup =>
    simp [Req.WF] at h
    have := length_pos_of_ne_nil h.2.2.1
    have hl := alfidOk_lens h.2.1
    simp only [norm, gate_defineByMem, encode, List.length_append, List.length_cons, List.length_nil, toBE_length,
      flatten_map_length (alLen f + slLen f) (encAddrSize f) (encAddrSize_length f) gs, decide_eq_true_eq]
    have : 2 * 1 ≤ (alLen f + slLen f) * gs.length := Nat.mul_le_mul (by omega) (by omega)
    omega
  | clearDDDI d sup => cases d <;> simp [norm, gate_clearDDDI, encode]
  | wdbi d rec =>
    simp [Req.WF] at h
    have := length_pos_of_ne_nil h.2
    simp [norm, gate_wdbi, encode]; omega
  | wmba a s f rec =>
    simp [Req.WF] at h
    have := length_pos_of_ne_nil h.2.2
    have hl := alfidOk_lens h.1
    simp [norm, gate_wmba, encode]; omega
  | clearDTC g => simp [norm, gate_clearDTC, encode]
  | dtcByMask sf m sup => simp only [Req.WF] at h; simp [norm, gate_dtcByMask _ _ _ _ h.1, encode]
  | dtcPlain sf sup => simp only [Req.WF] at h; simp [norm, gate_dtcPlain _ _ _ h, encode]
  | dtcExtByNumber d n sup => simp [norm, gate_dtcExtByNumber, encode]
  | iocbi d o m =>
    simp [Req.WF] at h
    have := length_pos_of_ne_nil h.2
    simp [norm, gate_iocbi, encode]; omega
  | routine sf rid rec sup => simp only [Req.WF] at h; simp [norm, gate_routine _ _ _ _ _ h.1, encode]
  | reqDownload a s c e f =>
    simp [Req.WF] at h
    have hl := alfidOk_lens h.2.2.1
    simp [norm, gate_reqDownload, encode]; omega
  | reqUpload a s c e f =>
    simp [Req.WF] at h
    have hl := alfidOk_lens h.2.2.1
    simp [norm, gate_reqUpload, encode]; omega
  | transferData c rec => simp [norm, gate_transferData, encode]
  | transferExit rec => simp [norm, gate_transferExit, encode]

/-! ### soundness: whatever the parser returns re-encodes to the input -/

/-- what soundness of one service parser means: the request re-encodes to the parsed bytes, and it is
    well-formed as soon as the registry's length gate lets it through -/
def Sound (sid : UInt8) (rest : Bytes) (r : Req) : Prop :=
  encode r = sid :: rest ∧ (gate r (rest.length + 1) = true → r.WF)

theorem sound_dsc (rest r) (h : parseSub1 .dsc rest = some r) : Sound 0x10 rest r := by
  unfold parseSub1 at h
  split at h <;> simp at h
  subst h
  simp [Sound, encode, Req.WF, sfOf_lt]

theorem sound_ecuReset (rest r) (h : parseSub1 .ecuReset rest = some r) : Sound 0x11 rest r := by
  unfold parseSub1 at h
  split at h <;> simp at h
  subst h
  simp [Sound, encode, Req.WF, sfOf_lt]

theorem sound_controlDTC (rest r) (h : parseSubRec .controlDTC rest = some r) : Sound 0x85 rest r := by
  unfold parseSubRec at h
  split at h <;> simp at h
  subst h
  simp [Sound, encode, Req.WF, sfOf_lt]

theorem sound_securityAccess (rest r) (h : parseSecurityAccess rest = some r) : Sound 0x27 rest r := by
  unfold parseSecurityAccess at h
  split at h
  · rename_i s rec
    split at h <;> simp at h <;> subst h
    · rename_i hodd
      simp [Sound, encode, Req.WF, sfOf_lt, sfOf_parity, hodd]
    · rename_i hodd
      simp only [Sound, encode, Req.WF, sfOf_lt, sfOf_parity, gate_sendKey, sfByte_sfOf_supOf, List.cons_append,
        List.nil_append, true_and, List.length_cons, decide_eq_true_eq]
      intro hg
      refine ⟨by omega, ?_⟩
      intro hnil; subst hnil; simp at hg
  · simp at h

theorem sound_commCtrl (rest r) (h : parseCommCtrl rest = some r) : Sound 0x28 rest r := by
  unfold parseCommCtrl at h
  split at h <;> simp at h
  subst h
  rename_i s c
  simp [Sound, encode, Req.WF, sfOf_lt, c.toNat_lt]

theorem sound_testerPresent (rest r) (h : parseTesterPresent rest = some r) : Sound 0x3E rest r := by
  unfold parseTesterPresent at h
  split at h
  · rename_i s
    split at h <;> simp at h
    subst h
    rename_i h0
    have : sfByte 0 (supOf s) = s := by rw [← h0]; exact sfByte_sfOf_supOf s
    simp [Sound, encode, Req.WF, this]
  · simp at h

theorem sound_rdbi (rest r) (h : parseRdbi rest = some r) : Sound 0x22 rest r := by
  unfold parseRdbi at h
  simp only [Option.map_eq_some_iff] at h
  obtain ⟨cs, hcs, rfl⟩ := h
  obtain ⟨hf, hl⟩ := chunksOf_some 2 rest cs hcs
  have hcount := chunks_count 2 rest cs hcs
  refine ⟨?_, ?_⟩
  · simp only [encode]
    rw [chunks_sound 2 (fun d => toBE d 2) fromBE rest cs hcs (fun c hc => toBE_fromBE' c 2 hc)]
  · intro hg
    simp only [gate_rdbi, decide_eq_true_eq] at hg
    simp only [Req.WF]
    refine ⟨?_, ?_⟩
    · intro hnil
      have : cs = [] := by simpa using hnil
      subst this; simp at hcount; subst hcount; simp at hg
    · intro d hd
      simp only [List.mem_map] at hd
      obtain ⟨c, hc, rfl⟩ := hd
      have := fromBE_lt c; rw [hl c hc] at this; simpa using this


theorem sound_rmba (rest r) (h : parseRmba rest = some r) : Sound 0x23 rest r := by
  unfold parseRmba at h
  split at h
  · rename_i alfid a s hp
    simp at h; subst h
    obtain ⟨hb, hok, hfit⟩ := parseMem_some rest alfid a s [] hp
    refine ⟨?_, fun _ => ⟨hok, hfit⟩⟩
    simp only [encode]; rw [hb]; simp
  · simp at h

theorem sound_wmba (rest r) (h : parseWmba rest = some r) : Sound 0x3D rest r := by
  unfold parseWmba at h
  split at h
  · rename_i alfid a s rec hp
    split at h <;> simp at h
    subst h
    rename_i hne
    obtain ⟨hb, hok, hfit⟩ := parseMem_some rest alfid a s rec hp
    refine ⟨?_, fun _ => ⟨hok, hfit, hne⟩⟩
    simp only [encode]; rw [hb]; simp
  · simp at h

theorem dfi_split (d : UInt8) : u8 (d.toNat / 16 * 16 + d.toNat % 16) = d := by
  have : d.toNat / 16 * 16 + d.toNat % 16 = d.toNat := by omega
  rw [this]; simp

theorem sound_reqDownload (rest r) (h : parseUpDown .reqDownload rest = some r) : Sound 0x34 rest r := by
  unfold parseUpDown at h
  split at h
  · rename_i dfi body
    split at h
    · rename_i alfid a s hp
      simp at h; subst h
      obtain ⟨hb, hok, hfit⟩ := parseMem_some body alfid a s [] hp
      have := dfi.toNat_lt
      refine ⟨?_, fun _ => ⟨by omega, by omega, hok, hfit⟩⟩
      simp only [encode, dfi_split]; rw [hb]; simp
    · simp at h
  · simp at h

theorem sound_reqUpload (rest r) (h : parseUpDown .reqUpload rest = some r) : Sound 0x35 rest r := by
  unfold parseUpDown at h
  split at h
  · rename_i dfi body
    split at h
    · rename_i alfid a s hp
      simp at h; subst h
      obtain ⟨hb, hok, hfit⟩ := parseMem_some body alfid a s [] hp
      have := dfi.toNat_lt
      refine ⟨?_, fun _ => ⟨by omega, by omega, hok, hfit⟩⟩
      simp only [encode, dfi_split]; rw [hb]; simp
    · simp at h
  · simp at h

theorem sound_wdbi (rest r) (h : parseWdbi rest = some r) : Sound 0x2E rest r := by
  unfold parseWdbi at h
  split at h <;> simp at h
  subst h
  rename_i a b rec
  refine ⟨by simp [encode, toBE_fromBE_two], ?_⟩
  intro hg
  simp only [gate_wdbi, List.length_cons, decide_eq_true_eq] at hg
  refine ⟨fromBE_two_lt a b, ?_⟩
  intro hnil; subst hnil; simp at hg

theorem sound_iocbi (rest r) (h : parseIocbi rest = some r) : Sound 0x2F rest r := by
  unfold parseIocbi at h
  split at h <;> simp at h
  subst h
  rename_i a b opt
  refine ⟨by simp [encode, toBE_fromBE_two], ?_⟩
  intro hg
  simp only [gate_iocbi, List.length_cons, decide_eq_true_eq] at hg
  refine ⟨fromBE_two_lt a b, ?_⟩
  intro hnil; subst hnil; simp at hg

theorem sound_clearDTC (rest r) (h : parseClearDTC rest = some r) : Sound 0x14 rest r := by
  unfold parseClearDTC at h
  split at h <;> simp at h
  subst h
  rename_i a b c
  exact ⟨by simp [encode, toBE_fromBE_three], fun _ => fromBE_three_lt a b c⟩

theorem sound_transferData (rest r) (h : parseTransferData rest = some r) : Sound 0x36 rest r := by
  unfold parseTransferData at h
  split at h <;> simp at h
  subst h
  rename_i c rec
  exact ⟨by simp [encode], fun _ => c.toNat_lt⟩

theorem sound_routine (rest r) (h : parseRoutine rest = some r) : Sound 0x31 rest r := by
  unfold parseRoutine at h
  split at h
  · rename_i s a b rec
    split at h <;> simp at h
    subst h
    rename_i hm
    exact ⟨by simp [encode, toBE_fromBE_two], fun _ => ⟨hm, fromBE_two_lt a b⟩⟩
  · simp at h

theorem sound_readDTC (rest r) (h : parseReadDTC rest = some r) : Sound 0x19 rest r := by
  unfold parseReadDTC at h
  split at h
  · rename_i s tl
    split at h
    · rename_i hm
      split at h <;> simp at h
      subst h
      rename_i m
      exact ⟨by simp [encode], fun _ => ⟨hm, m.toNat_lt⟩⟩
    · split at h
      · rename_i hm
        split at h <;> simp at h
        subst h
        exact ⟨by simp [encode], fun _ => hm⟩
      · split at h
        · rename_i h6
          split at h <;> simp at h
          subst h
          rename_i a b c n
          have : sfByte 6 (supOf s) = s := by rw [← h6]; exact sfByte_sfOf_supOf s
          exact ⟨by simp [encode, toBE_fromBE_three, this], fun _ => ⟨fromBE_three_lt a b c, n.toNat_lt⟩⟩
        · simp at h
  · simp at h


theorem sound_dddi (rest r) (h : parseDDDI rest = some r) : Sound 0x2C rest r := by
  unfold parseDDDI at h
  split at h
  · rename_i s tl
    split at h
    · -- defineByIdentifier
      rename_i h1
      have hs : sfByte 1 (supOf s) = s := by rw [← h1]; exact sfByte_sfOf_supOf s
      split at h
      · rename_i a b gs
        simp only [Option.map_eq_some_iff] at h
        obtain ⟨cs, hcs, rfl⟩ := h
        obtain ⟨hf, hl⟩ := chunksOf_some 4 gs cs hcs
        have hcount := chunks_count 4 gs cs hcs
        refine ⟨?_, ?_⟩
        · simp only [encode, hs, toBE_fromBE_two]
          rw [chunks_sound 4 encIdGroup decIdGroup gs cs hcs (fun c hc => (encIdGroup_dec c hc).1)]
          simp
        · intro hg
          simp only [gate_defineById, List.length_cons, decide_eq_true_eq] at hg
          refine ⟨fromBE_two_lt a b, ?_, ?_⟩
          · intro hnil
            have : cs = [] := by simpa using hnil
            subst this; simp at hcount; subst hcount; simp at hg
          · intro g hgm
            simp only [List.mem_map] at hgm
            obtain ⟨c, hc, rfl⟩ := hgm
            exact (encIdGroup_dec c (hl c hc)).2
      · simp at h
    · split at h
      · -- defineByMemoryAddress
        rename_i h2
        have hs : sfByte 2 (supOf s) = s := by rw [← h2]; exact sfByte_sfOf_supOf s
        split at h
        · rename_i a b f gs
          split at h
          · simp at h
          · rename_i hz
            simp only [Option.map_eq_some_iff] at h
            obtain ⟨cs, hcs, rfl⟩ := h
            obtain ⟨hf, hl⟩ := chunksOf_some _ gs cs hcs
            have hcount := chunks_count _ gs cs hcs
            have hok : AlfidOk f.toNat := by
              have := f.toNat_lt
              unfold AlfidOk; unfold alLen slLen at hz; omega
            refine ⟨?_, ?_⟩
            · simp only [encode, hs, toBE_fromBE_two, u8_of_toNat]
              rw [chunks_sound _ (encAddrSize f.toNat) (decAddrSize f.toNat) gs cs hcs
                (fun c hc => (encAddrSize_dec f.toNat c hc).1)]
              simp
            · intro hg
              simp only [gate_defineByMem, List.length_cons, decide_eq_true_eq] at hg
              refine ⟨fromBE_two_lt a b, hok, ?_, ?_⟩
              · intro hnil
                have : cs = [] := by simpa using hnil
                subst this; simp at hcount; subst hcount; simp at hg
              · intro g hgm
                simp only [List.mem_map] at hgm
                obtain ⟨c, hc, rfl⟩ := hgm
                exact (encAddrSize_dec f.toNat c (hl c hc)).2
        · simp at h
      · split at h
        · -- clear
          rename_i h3
          have hs : sfByte 3 (supOf s) = s := by rw [← h3]; exact sfByte_sfOf_supOf s
          split at h <;> simp at h
          · subst h
            exact ⟨by simp [encode, hs], fun _ => by simp [Req.WF]⟩
          · subst h
            rename_i a b
            refine ⟨by simp [encode, hs, toBE_fromBE_two], fun _ => ?_⟩
            simp only [Req.WF, Option.some.injEq]
            intro d hd; subst hd; exact fromBE_two_lt a b
        · simp at h
  · simp at h

/-- whatever the structural parser returns re-encodes to the parsed bytes and is well-formed once it passes the gate -/
theorem parseTyped_sound (b : Bytes) (r : Req) (h : parseTyped b = some r) :
    encode r = b ∧ (gate r b.length = true → r.WF) := by
  cases b with
  | nil => simp [parseTyped] at h
  | cons sid rest =>
    simp only [parseTyped] at h
    show Sound sid rest r
    by_cases e : sid = 0x10; · rw [if_pos e] at h; subst e; exact sound_dsc rest r h
    rw [if_neg e] at h; clear e
    by_cases e : sid = 0x11; · rw [if_pos e] at h; subst e; exact sound_ecuReset rest r h
    rw [if_neg e] at h; clear e
    by_cases e : sid = 0x27; · rw [if_pos e] at h; subst e; exact sound_securityAccess rest r h
    rw [if_neg e] at h; clear e
    by_cases e : sid = 0x28; · rw [if_pos e] at h; subst e; exact sound_commCtrl rest r h
    rw [if_neg e] at h; clear e
    by_cases e : sid = 0x3E; · rw [if_pos e] at h; subst e; exact sound_testerPresent rest r h
    rw [if_neg e] at h; clear e
    by_cases e : sid = 0x85; · rw [if_pos e] at h; subst e; exact sound_controlDTC rest r h
    rw [if_neg e] at h; clear e
    by_cases e : sid = 0x22; · rw [if_pos e] at h; subst e; exact sound_rdbi rest r h
    rw [if_neg e] at h; clear e
    by_cases e : sid = 0x23; · rw [if_pos e] at h; subst e; exact sound_rmba rest r h
    rw [if_neg e] at h; clear e
    by_cases e : sid = 0x2C; · rw [if_pos e] at h; subst e; exact sound_dddi rest r h
    rw [if_neg e] at h; clear e
    by_cases e : sid = 0x2E; · rw [if_pos e] at h; subst e; exact sound_wdbi rest r h
    rw [if_neg e] at h; clear e
    by_cases e : sid = 0x3D; · rw [if_pos e] at h; subst e; exact sound_wmba rest r h
    rw [if_neg e] at h; clear e
    by_cases e : sid = 0x14; · rw [if_pos e] at h; subst e; exact sound_clearDTC rest r h
    rw [if_neg e] at h; clear e
    by_cases e : sid = 0x19; · rw [if_pos e] at h; subst e; exact sound_readDTC rest r h
    rw [if_neg e] at h; clear e
    by_cases e : sid = 0x2F; · rw [if_pos e] at h; subst e; exact sound_iocbi rest r h
    rw [if_neg e] at h; clear e
    by_cases e : sid = 0x31; · rw [if_pos e] at h; subst e; exact sound_routine rest r h
    rw [if_neg e] at h; clear e
    by_cases e : sid = 0x34; · rw [if_pos e] at h; subst e; exact sound_reqDownload rest r h
    rw [if_neg e] at h; clear e
    by_cases e : sid = 0x35; · rw [if_pos e] at h; subst e; exact sound_reqUpload rest r h
    rw [if_neg e] at h; clear e
    by_cases e : sid = 0x36; · rw [if_pos e] at h; subst e; exact sound_transferData rest r h
    rw [if_neg e] at h; clear e
    by_cases e : sid = 0x37
    · rw [if_pos e] at h; subst e
      simp at h; subst h
      exact ⟨by simp [encode], fun _ => by simp [Req.WF]⟩
    · rw [if_neg e] at h; simp at h

end Gallia.UdsReq
