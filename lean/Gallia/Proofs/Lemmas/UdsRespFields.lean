import Gallia.Model.UdsRespFields
import Gallia.Proofs.Lemmas.UdsResp
/-
  Helper lemmas for C02 `every_field_at_its_position`: per parser family, the attribute leaves of the decoded object are
  the table's position slices of the received bytes.
-/
namespace Gallia.UdsResp
open Gallia

theorem fromBE_one (x : UInt8) : fromBE [x] = x.toNat := by simp [fromBE]

theorem recsFuel_parseRecs {b : Bytes} {l} (h : parseRecs b = some l) :
    ∀ f, b.length ≤ f → recsFuel 3 f b = l.map fun p => (p.1, p.2.toNat) := by
  fun_induction parseRecs b generalizing l with
  | case1 => cases h; intro f _; cases f <;> simp [recsFuel]
  | case2 a b c s rest l' hl ih =>
    simp only [Option.some.injEq] at h
    subst h
    intro f hf
    cases f with
    | zero => simp at hf
    | succ f =>
      have hf' : rest.length ≤ f := by simp at hf; omega
      simp [recsFuel, ih hl f hf']
  | case3 a b c s rest hl => simp at h
  | case4 => cases h

theorem recsAt_parseRecs {b : Bytes} {l} (h : parseRecs b = some l) :
    recsAt 3 b = l.map fun p => (p.1, p.2.toNat) := recsFuel_parseRecs h _ (Nat.le_refl _)

macro "fld_tac" h:ident : tactic =>
  `(tactic| ((repeat' split at $h:ident) <;>
      first
        | (cases $h:ident; done)
        | (cases $h:ident; simp_all [leaves, fieldsOf, layoutOf, evalPos, slice, nib, fromBE_one, optU8, optNat])))

theorem fields_neg {e b r} (hk : e.kind = .neg) (h : pNeg b = .ok r) : leaves r = fieldsOf e b := by
  unfold pNeg at h; fld_tac h
theorem fields_dsc {e b r} (hk : e.kind = .dsc) (h : pDsc b = .ok r) : leaves r = fieldsOf e b := by
  unfold pDsc at h; fld_tac h
theorem fields_ecuReset {e b r} (hk : e.kind = .ecuReset) (h : pEcuReset b = .ok r) : leaves r = fieldsOf e b := by
  unfold pEcuReset at h; fld_tac h
theorem fields_secAccess {e b r} (hk : e.kind = .secAccess) (h : pSecAccess b = .ok r) : leaves r = fieldsOf e b := by
  unfold pSecAccess at h; fld_tac h
theorem fields_commCtrl {e b r} (hk : e.kind = .commCtrl) (h : pCommCtrl b = .ok r) : leaves r = fieldsOf e b := by
  unfold pCommCtrl at h; fld_tac h
theorem fields_testerPresent {e b r} (hk : e.kind = .testerPresent) (h : pTesterPresent b = .ok r) :
    leaves r = fieldsOf e b := by
  unfold pTesterPresent at h; fld_tac h
theorem fields_ctrlDTC {e b r} (hk : e.kind = .ctrlDTC) (h : pCtrlDTC b = .ok r) : leaves r = fieldsOf e b := by
  unfold pCtrlDTC at h; fld_tac h
theorem fields_rdbi {e b r} (hk : e.kind = .rdbi) (h : pRdbi b = .ok r) : leaves r = fieldsOf e b := by
  unfold pRdbi at h; fld_tac h
theorem fields_rmba {e b r} (hk : e.kind = .rmba) (h : pRmba b = .ok r) : leaves r = fieldsOf e b := by
  unfold pRmba at h; fld_tac h
theorem fields_wdbi {e b r} (hk : e.kind = .wdbi) (h : pWdbi b = .ok r) : leaves r = fieldsOf e b := by
  unfold pWdbi at h; fld_tac h
theorem fields_clearDTC {e b r} (hk : e.kind = .clearDTC) (h : pClearDTC b = .ok r) : leaves r = fieldsOf e b := by
  unfold pClearDTC at h; fld_tac h
theorem fields_dtcCount {e b r} (hk : e.kind = .dtcCount) (h : pDtcCount b = .ok r) : leaves r = fieldsOf e b := by
  unfold pDtcCount at h; fld_tac h
theorem fields_dtcExt {e b r} (hk : e.kind = .dtcExt) (h : pDtcExt b = .ok r) : leaves r = fieldsOf e b := by
  unfold pDtcExt at h; fld_tac h
theorem fields_iocbi {e b r} (hk : e.kind = .iocbi) (h : pIocbi b = .ok r) : leaves r = fieldsOf e b := by
  unfold pIocbi at h; fld_tac h
theorem fields_routine {e b r} (hk : e.kind = .routine) (h : pRoutine b = .ok r) : leaves r = fieldsOf e b := by
  unfold pRoutine at h; fld_tac h
theorem fields_transferData {e b r} (hk : e.kind = .transferData) (h : pTransferData b = .ok r) :
    leaves r = fieldsOf e b := by
  unfold pTransferData at h; fld_tac h
theorem fields_transferExit {e b r} (hk : e.kind = .transferExit) (h : pTransferExit b = .ok r) :
    leaves r = fieldsOf e b := by
  unfold pTransferExit at h; fld_tac h

/-- DTC-and-status lists: the whole mapping is the list of (3-byte DTC, status byte) records from byte 3 to the end -/
theorem fields_dtcList {e b r} (hk : e.kind = .dtcList) (h : pDtcList b = .ok r) : leaves r = fieldsOf e b := by
  unfold pDtcList at h
  split at h
  · rename_i s sub mask recs
    split at h
    · split at h
      · rename_i l hl
        split at h
        · cases h
          simp [leaves, fieldsOf, layoutOf, hk, evalPos, slice, fromBE_one, recsAt_parseRecs hl]
        · cases h
      · cases h
    · cases h
  · cases h

/-- DynamicallyDefineDataIdentifier: the identifier is bytes 2..3; it may be absent only for the class whose minimal
    length admits the two-byte PDU -/
theorem fields_dddi {e b r} (hk : e.kind = .dddi) (hl : lenGate e b = .ok ()) (h : pDddi b = .ok r) :
    leaves r = fieldsOf e b := by
  have hmin := (lenGate_ok hl).1
  unfold pDddi at h
  split at h
  · split at h
    · cases h
      have : e.minLen ≤ 2 := by simpa using hmin
      simp [leaves, fieldsOf, layoutOf, hk, evalPos, slice, fromBE_one, optNat, this]
    · cases h
  · split at h
    · cases h
      by_cases hm : e.minLen ≤ 2 <;>
        simp [leaves, fieldsOf, layoutOf, hk, evalPos, slice, fromBE_one, optNat, hm]
    · cases h
  · cases h

/-- Write­MemoryByAddress: low nibble of the format byte = width of the address (from byte 2), high nibble = width of the
    size (right behind the address) -/
theorem fields_wmba {e b r} (hk : e.kind = .wmba) (h : pWmba b = .ok r) : leaves r = fieldsOf e b := by
  unfold pWmba at h
  split at h
  · rename_i s alfid rest
    split at h
    · rename_i hc
      cases h
      obtain ⟨_, _, _, hlen⟩ := hc
      have : ((rest.drop (alfid.toNat % 16)).take (alfid.toNat / 16)) = rest.drop (alfid.toNat % 16) := by
        apply List.take_of_length_le
        simp [hlen]
      have hd : List.drop (2 + alfid.toNat % 16) (s :: alfid :: rest) = rest.drop (alfid.toNat % 16) := by
        rw [Nat.add_comm]; rfl
      simp [leaves, fieldsOf, layoutOf, hk, evalPos, slice, nib, fromBE_one, hd, this]
    · cases h
  · cases h

/-- RequestDownload / RequestUpload: the high nibble of the format byte is the width of maxNumberOfBlockLength (from byte 2) -/
theorem fields_upDownload {e b r} (hk : e.kind = .upDownload) (h : pUpDownload b = .ok r) : leaves r = fieldsOf e b := by
  unfold pUpDownload at h
  split at h
  · rename_i s lfid rest
    split at h
    · rename_i hc
      cases h
      obtain ⟨_, _, _, hlen⟩ := hc
      have : rest.take (lfid.toNat / 16) = rest := List.take_of_length_le (by omega)
      simp [leaves, fieldsOf, layoutOf, hk, evalPos, slice, nib, fromBE_one, this]
    · cases h
  · cases h

/-- every parser family: the leaves of the decoded object are the table's slices of the received bytes -/
theorem leaves_eq_fieldsOf {e : Entry} {b : Bytes} {r : Resp} (hl : lenGate e b = .ok ())
    (hp : parseKind e.kind b = .ok r) : leaves r = fieldsOf e b := by
  cases hk : e.kind <;> rw [hk] at hp <;> simp only [parseKind] at hp
  · exact fields_neg hk hp
  · exact fields_dsc hk hp
  · exact fields_ecuReset hk hp
  · exact fields_secAccess hk hp
  · exact fields_commCtrl hk hp
  · exact fields_testerPresent hk hp
  · exact fields_ctrlDTC hk hp
  · exact fields_rdbi hk hp
  · exact fields_rmba hk hp
  · exact fields_dddi hk hl hp
  · exact fields_wdbi hk hp
  · exact fields_wmba hk hp
  · exact fields_clearDTC hk hp
  · exact fields_dtcCount hk hp
  · exact fields_dtcList hk hp
  · exact fields_dtcExt hk hp
  · exact fields_iocbi hk hp
  · exact fields_routine hk hp
  · exact fields_upDownload hk hp
  · exact fields_transferData hk hp
  · exact fields_transferExit hk hp

/-- class names identify registry rows -/
theorem find_cls : ∀ e ∈ registry, (registry.find? (fun x => x.cls == e.cls)).map layoutOf = some (layoutOf e) := by
  decide +kernel

/-! ### what `recsAt` is: the i-th record sits at its ISO position -/

theorem recsFuel_length (w : Nat) : ∀ (f : Nat) (b : Bytes), b.length ≤ f → (recsFuel w f b).length = b.length / (w + 1) := by
  intro f
  induction f with
  | zero => intro b hb; have : b = [] := List.eq_nil_of_length_eq_zero (by omega); subst this; simp [recsFuel]
  | succ f ih =>
    intro b hb
    unfold recsFuel
    split
    · rename_i hlt
      simp [Nat.div_eq_of_lt hlt]
    · rename_i hge
      have hl : (b.drop (w + 1)).length ≤ f := by simp; omega
      have hdiv := Nat.div_eq_sub_div (show 0 < w + 1 by omega) (show w + 1 ≤ b.length by omega)
      simp only [List.length_cons, ih _ hl, List.length_drop]
      rw [hdiv]

theorem recsFuel_getElem (w : Nat) : ∀ (f : Nat) (b : Bytes) (i : Nat), b.length ≤ f → (hi : i < (recsFuel w f b).length) →
    (recsFuel w f b)[i] = (fromBE (slice b ((w + 1) * i) w), (b.getD ((w + 1) * i + w) 0).toNat) := by
  intro f
  induction f with
  | zero => intro b i hb hi; simp [recsFuel] at hi
  | succ f ih =>
    intro b i hb hi
    unfold recsFuel at hi ⊢
    split at hi
    · simp at hi
    · rename_i hge
      simp only [hge, if_false]
      have hl : (b.drop (w + 1)).length ≤ f := by simp; omega
      cases i with
      | zero => simp [slice]
      | succ j =>
        have hj : j < (recsFuel w f (b.drop (w + 1))).length := by simpa using hi
        have := ih _ j hl hj
        simp only [List.getElem_cons_succ, this, slice, List.drop_drop, List.getD_eq_getElem?_getD, List.getElem?_drop]
        have e1 : w + 1 + (w + 1) * j = (w + 1) * (j + 1) := by rw [Nat.mul_succ]; omega
        have e2 : w + 1 + ((w + 1) * j + w) = (w + 1) * (j + 1) + w := by rw [Nat.mul_succ]; omega
        rw [e1, e2]


end Gallia.UdsResp
