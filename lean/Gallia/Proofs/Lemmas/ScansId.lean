import Gallia.Proofs.Lemmas.ScansSpec
import Gallia.Proofs.Lemmas.ScansLog
/-
  Identifier scan: which requests it sends (any ECU) and what it counts (session-determined ECUs), for every
  `--check-session` setting and with session hooks.
-/
namespace Gallia.Scans
open Gallia

variable {σ : Type}

theorem mem_idPairs (cfg : IdCfg) (did sf : Nat) :
    (did, sf) ∈ idPairs cfg ↔ cfg.start ≤ did ∧ did ≤ effectiveEnd cfg ∧ sf ∈ subFunctions cfg := by
  simp only [idPairs, List.mem_flatMap, List.mem_map, List.mem_range]
  constructor
  · rintro ⟨d, ⟨k, hk, rfl⟩, sf', hsf, h⟩
    injection h with h1 h2; subst h1 h2
    exact ⟨by omega, by omega, hsf⟩
  · rintro ⟨h1, h2, h3⟩
    exact ⟨did, ⟨did - cfg.start, by omega, by omega⟩, sf, h3, rfl⟩

theorem idPdu_head (cfg : IdCfg) (did sf : Nat) : (idPdu cfg did sf).head? = some (b cfg.service) := by
  unfold idPdu; split
  · simp
  · split <;> simp

/-- the requests the identifier scan of one session may send -/
def IdReq (cfg : IdCfg) (session : Option Nat) (pairs : List (Nat × Nat)) (p : Bytes) : Prop :=
  (∃ q ∈ pairs, skipped cfg.skip session q.1 = false ∧ p = idPdu cfg q.1 q.2) ∨
  (∃ k n, session = some k ∧ cfg.checkSession = some n ∧ MaintReq cfg.hooks k p)

theorem idSessionCheck_inv (e : Ecu σ) (I : σ → Prop) (cfg : IdCfg) (session : Option Nat) (did : Nat)
    (hI : ∀ s p, (∃ k n, session = some k ∧ cfg.checkSession = some n ∧ MaintReq cfg.hooks k p) → I s → I (e.step s p).1)
    (s : σ) (h : I s) : I (idSessionCheck e cfg session did s).1 := by
  unfold idSessionCheck
  cases hs : session with
  | none => exact h
  | some k =>
    cases hc : cfg.checkSession with
    | none => exact h
    | some n =>
      simp only []
      split
      · exact checkAndSetSession_inv e I _ k checkRetries (fun s p hp => hI s p ⟨k, n, hs, hc, hp⟩) s h
      · exact h

theorem idLoop_inv (e : Ecu σ) (I : σ → Prop) (cfg : IdCfg) (session : Option Nat) (pairs : List (Nat × Nat))
    (hI : ∀ s p, IdReq cfg session pairs p → I s → I (e.step s p).1) (c : IdCount) (s : σ) (h : I s) :
    I (idLoop e cfg session pairs c s).1 := by
  induction pairs generalizing c s with
  | nil => simpa [idLoop] using h
  | cons q rest ih =>
    obtain ⟨did, sf⟩ := q
    have ih' : ∀ c s, I s → I (idLoop e cfg session rest c s).1 := by
      intro c s hs
      apply ih _ c s hs
      intro s p hp
      apply hI
      rcases hp with ⟨q, hq, hp⟩ | hp
      · exact Or.inl ⟨q, by simp [hq], hp⟩
      · exact Or.inr hp
    simp only [idLoop]
    split
    · exact ih' c s h
    · rename_i hsk
      have hsk' : skipped cfg.skip session did = false := by simpa using hsk
      have h0 := idSessionCheck_inv e I cfg session did (fun s p hp => hI s p (Or.inr hp)) s h
      cases hc : idSessionCheck e cfg session did s with
      | mk s0 r0 =>
        rw [hc] at h0
        cases r0 with
        | raised w => exact h0
        | ok okv =>
          cases okv with
          | false => exact h0
          | true =>
            simp only []
            have h1 : I (e.step s0 (idPdu cfg did sf)).1 :=
              hI s0 _ (Or.inl ⟨(did, sf), by simp, hsk', rfl⟩) h0
            cases hd : e.step s0 (idPdu cfg did sf) with
            | mk s1 a =>
              rw [hd] at h1
              cases a with
              | timeout => exact ih' _ s1 h1
              | illegal => exact ih' _ s1 h1
              | stuck => exact h1
              | pos p => exact ih' _ s1 h1
              | neg code =>
                simp only []
                split
                · split
                  · exact h1
                  · exact ih' _ s1 h1
                · split
                  · exact ih' _ s1 h1
                  · exact ih' _ s1 h1

/-- for ANY ECU: the identifier scan of one session sends nothing but the requests of non-skipped identifiers of the
    range and, with `--check-session`, the requests of the session check -/
theorem idLoop_sends {e : Ecu σ} {log : σ → List Bytes} {N : Nat} (L : Logs e log N) (cfg : IdCfg)
    (session : Option Nat) (pairs : List (Nat × Nat)) (c : IdCount) (s : σ) :
    GrewBy log (IdReq cfg session pairs) s (idLoop e cfg session pairs c s).1 :=
  idLoop_inv e (GrewBy log (IdReq cfg session pairs) s) cfg session pairs
    (fun s' p hp h => GrewBy.step L _ s s' p hp h) c s (GrewBy.refl _ _ s)

/-- for ANY ECU, `--check-session` and `--skip-not-supported` off: a scan that ends normally has sent exactly the
    requests of the non-skipped (identifier, sub-function) pairs, once each, in order -/
theorem idLoop_requests (e : Ecu σ) (cfg : IdCfg) (hc : cfg.checkSession = none) (hns : cfg.skipNotSupported = false)
    (session : Option Nat) (pairs : List (Nat × Nat)) (c : IdCount) (s : σ × List Bytes) (out : IdOut)
    (hout : (idLoop (logged e) cfg session pairs c s).2 = .ok out) :
    out.completed = true ∧
    (idLoop (logged e) cfg session pairs c s).1.2 =
      ((pairs.filter fun p => !skipped cfg.skip session p.1).map fun p => idPdu cfg p.1 p.2).reverse ++ s.2 := by
  induction pairs generalizing c s with
  | nil =>
    simp only [idLoop, R.ok.injEq] at hout
    subst hout
    exact ⟨rfl, by simp [idLoop]⟩
  | cons q rest ih =>
    obtain ⟨did, sf⟩ := q
    have hcheck : ∀ s', idSessionCheck (logged e) cfg session did s' = (s', .ok true) := by
      intro s'; unfold idSessionCheck; rw [hc]; cases session <;> rfl
    simp only [idLoop] at hout ⊢
    by_cases hsk : skipped cfg.skip session did = true
    · simp only [hsk, ite_true] at hout ⊢
      obtain ⟨h1, h2⟩ := ih c s hout
      exact ⟨h1, by rw [h2]; simp [hsk]⟩
    · have hsk' : skipped cfg.skip session did = false := by simpa using hsk
      simp only [hsk', Bool.false_eq_true, ite_false, hcheck] at hout ⊢
      have hlog : ((logged e).step s (idPdu cfg did sf)).1.2 = idPdu cfg did sf :: s.2 := rfl
      have fin : ∀ c', (idLoop (logged e) cfg session rest c' ((logged e).step s (idPdu cfg did sf)).1).2 = .ok out →
          out.completed = true ∧
          (idLoop (logged e) cfg session rest c' ((logged e).step s (idPdu cfg did sf)).1).1.2 =
            ((((did, sf) :: rest).filter fun p => !skipped cfg.skip session p.1).map fun p => idPdu cfg p.1 p.2).reverse ++ s.2 := by
        intro c' h'
        obtain ⟨h1, h2⟩ := ih c' _ h'
        exact ⟨h1, by rw [h2, hlog]; simp [hsk']⟩
      cases hd : (logged e).step s (idPdu cfg did sf) with
      | mk s1 a =>
        rw [hd] at hout fin
        cases a with
        | timeout => exact fin _ hout
        | illegal => exact fin _ hout
        | stuck => simp at hout
        | pos p => exact fin _ hout
        | neg code =>
          simp only [hns, Bool.false_eq_true, ite_false] at hout ⊢
          split at hout
          · rename_i h1
            simp only [h1, if_true]
            exact fin _ hout
          · rename_i h1
            simp only [h1]
            split at hout
            · rename_i h2
              simp only [h2, if_true]
              exact fin _ hout
            · rename_i h2
              simp only [h2, if_false]
              exact fin _ hout

/-- the number of identifiers of the requested range the ECU answers positively in session `k` -/
def idCountSpec (ans : Nat → Bytes → Ans) (cfg : IdCfg) (session : Option Nat) (k : Nat) : Nat :=
  ((idPairs cfg).filter fun p => !skipped cfg.skip session p.1 && (ans k (idPdu cfg p.1 p.2)).isPos).length

/-- the identifier loop on a session-determined ECU (scanned service not 0x10 / 0x11, `--skip-not-supported` off,
    no probe answered with an endless ResponsePending sequence; with `--check-session` the ECU is in the session
    being scanned and reads it back honestly): it completes, stays in the session, and its positive counter grows
    by exactly the number of non-skipped pairs the ECU answers positively -/
theorem idLoop_count {e : Ecu σ} (E : SessEcu e) (cfg : IdCfg)
    (hns : cfg.skipNotSupported = false) (hsvc : cfg.service < 256) (h10 : cfg.service ≠ 0x10) (h11 : cfg.service ≠ 0x11)
    (session : Option Nat) (ss : Nat)
    (hk : ∀ k n, session = some k → cfg.checkSession = some n → ss = k ∧ ReadBackOk E.ans k)
    (hstuck : ∀ did sf, E.ans ss (idPdu cfg did sf) ≠ .stuck)
    (pairs : List (Nat × Nat)) (c : IdCount) (s : σ) (hss : E.sess s = ss) :
    ∃ out, (idLoop e cfg session pairs c s).2 = .ok out ∧ out.completed = true ∧
      E.sess (idLoop e cfg session pairs c s).1 = ss ∧
      out.counts.positive = c.positive +
        (pairs.filter fun p => !skipped cfg.skip session p.1 && (E.ans ss (idPdu cfg p.1 p.2)).isPos).length := by
  induction pairs generalizing c s with
  | nil => exact ⟨⟨c, true⟩, by simp [idLoop], rfl, by simpa [idLoop] using hss, by simp⟩
  | cons q rest ih =>
    obtain ⟨did, sf⟩ := q
    simp only [idLoop]
    by_cases hsk : skipped cfg.skip session did = true
    · simp only [hsk, ite_true]
      obtain ⟨out, a1, a2, a3, a4⟩ := ih c s hss
      exact ⟨out, a1, a2, a3, by simp [hsk, a4]⟩
    · have hsk' : skipped cfg.skip session did = false := by simpa using hsk
      simp only [hsk', Bool.false_eq_true, ite_false]
      -- the session check passes and leaves the ECU in the session
      have hchk : (idSessionCheck e cfg session did s).2 = .ok true ∧ E.sess (idSessionCheck e cfg session did s).1 = ss := by
        unfold idSessionCheck
        cases hs : session with
        | none => exact ⟨rfl, hss⟩
        | some k =>
          cases hcs : cfg.checkSession with
          | none => exact ⟨rfl, hss⟩
          | some n =>
            simp only []
            split
            · obtain ⟨hkk, hrb⟩ := hk k n hs hcs
              subst hkk
              obtain ⟨a, c'⟩ := checkAndSetSession_ok E cfg.hooks ss checkRetries s hss hrb
              refine ⟨a, ?_⟩
              rw [c', E.sess_keep s _ (by simp [readSessionPdu]) (by simp [readSessionPdu])]; exact hss
            · exact ⟨rfl, hss⟩
      cases hc : idSessionCheck e cfg session did s with
      | mk s0 r0 =>
        rw [hc] at hchk
        obtain ⟨hr0, hs0⟩ := hchk
        simp only [] at hr0 hs0
        subst hr0
        simp only []
        have hkeep : E.sess (e.step s0 (idPdu cfg did sf)).1 = ss := by
          rw [E.sess_keep s0 _ ?_ ?_]; exact hs0
          · rw [idPdu_head]; intro h; injection h with h; exact h10 (b_inj hsvc (by decide) h)
          · rw [idPdu_head]; intro h; injection h with h; exact h11 (b_inj hsvc (by decide) h)
        have hans : (e.step s0 (idPdu cfg did sf)).2 = E.ans ss (idPdu cfg did sf) := by
          rw [E.step_ans, hs0]
        have fin : ∀ (c' : IdCount) (isp : Bool), (E.ans ss (idPdu cfg did sf)).isPos = isp →
            c'.positive = c.positive + (if isp then 1 else 0) →
            ∃ out, (idLoop e cfg session rest c' (e.step s0 (idPdu cfg did sf)).1).2 = .ok out ∧
              out.completed = true ∧ E.sess (idLoop e cfg session rest c' (e.step s0 (idPdu cfg did sf)).1).1 = ss ∧
              out.counts.positive = c.positive + (((did, sf) :: rest).filter fun p =>
                  !skipped cfg.skip session p.1 && (E.ans ss (idPdu cfg p.1 p.2)).isPos).length := by
          intro c' isp hisp hc'
          obtain ⟨out, a1, a2, a3, a4⟩ := ih c' _ hkeep
          refine ⟨out, a1, a2, a3, ?_⟩
          rw [a4, hc']
          cases isp <;> simp [hsk', hisp] <;> omega
        cases hd : e.step s0 (idPdu cfg did sf) with
        | mk s1 a =>
          rw [hd] at fin hans
          simp only [] at hans
          cases a with
          | timeout => exact fin _ false (by rw [← hans]; rfl) (by simp [IdCount.addTo])
          | illegal => exact fin _ false (by rw [← hans]; rfl) (by simp)
          | stuck => exact absurd hans.symm (hstuck did sf)
          | pos pdu => exact fin _ true (by rw [← hans]; rfl) (by simp [IdCount.addPos])
          | neg code =>
            simp only [hns, Bool.false_eq_true, ite_false]
            split
            · exact fin _ false (by rw [← hans]; rfl) (by simp)
            · split
              · exact fin _ false (by rw [← hans]; rfl) (by simp)
              · exact fin _ false (by rw [← hans]; rfl) (by simp [IdCount.addAbn])


/-! ### the session loop of the identifier scan -/

theorem setSession_neg {e : Ecu σ} (E : SessEcu e) (h : Hooks) (hin : HooksInert h) (hq : HooksAnswered E.ans h)
    (k : Nat) (s : σ) (hpos : (E.ans (E.sess s) (dscPdu k)).isPos = false) (hex : (E.ans (E.sess s) (dscPdu k)).exn = none) :
    ∃ c, (setSession e h k s).2 = .ok (.neg c) := by
  have hpre := runHook_session E (h.pre k) (fun p hp => hin k p (Or.inl hp)) s
  have hpre_ok := runHook_ok E (h.pre k) (fun ss p hp => hq ss k p (Or.inl hp)) s
  simp only [setSession]
  cases h0 : runHook e (h.pre k) s with
  | mk s0 r0 =>
    rw [h0] at hpre hpre_ok
    simp only [] at hpre hpre_ok
    subst hpre_ok
    simp only []
    have hans := E.step_ans s0 (dscPdu k)
    rw [hpre] at hans
    cases hd : e.step s0 (dscPdu k) with
    | mk s1 a =>
      rw [hd] at hans
      simp only [] at hans
      rw [← hans] at hpos hex
      cases a with
      | neg c => exact ⟨c, rfl⟩
      | timeout => cases hex
      | illegal => cases hex
      | stuck => cases hex
      | pos p' => cases hpos

/-- `leave_session` ends normally when the reset, the pings and the return to the default session are answered -/
theorem leaveSession_ok {e : Ecu σ} (E : SessEcu e) (h : Hooks) (hin : HooksInert h) (hq : HooksAnswered E.ans h)
    (hreset : ∀ ss, (E.ans ss (resetPdu 1)).exn = none) (hping : ∀ ss, E.ans ss pingPdu ≠ .stuck)
    (hdsc : ∀ ss, (E.ans ss (dscPdu 1)).exn = none) (s : σ) : (leaveSession e h s).2 = .ok () := by
  have hans := E.step_ans s (resetPdu 1)
  have hr := hreset (E.sess s)
  have rest : ∀ s1, (match waitForEcu e waitBudget s1 with
      | (s2, .raised w) => (s2, Scans.R.raised w)
      | (s2, .ok _) =>
        match setSession e h 1 s2 with
        | (s3, .raised w) => (s3, Scans.R.raised w)
        | (s3, .ok _) => (s3, Scans.R.ok ())).2 = .ok () := by
    intro s1
    obtain ⟨v, hv⟩ := waitForEcu_ok E hping waitBudget s1
    cases hw : waitForEcu e waitBudget s1 with
    | mk s2 r2 =>
      rw [hw] at hv
      simp only [] at hv
      subst hv
      simp only []
      have : ∃ a, (setSession e h 1 s2).2 = .ok a := by
        cases hp : (E.ans (E.sess s2) (dscPdu 1)).isPos with
        | true => obtain ⟨p, hp'⟩ := setSession_pos E h hin hq 1 s2 hp; exact ⟨_, hp'⟩
        | false => obtain ⟨c, hc⟩ := setSession_neg E h hin hq 1 s2 hp (hdsc _); exact ⟨_, hc⟩
      obtain ⟨a, ha⟩ := this
      cases hs : setSession e h 1 s2 with
      | mk s3 r3 =>
        rw [hs] at ha
        simp only [] at ha
        subst ha
        rfl
  simp only [leaveSession]
  cases hd : e.step s (resetPdu 1) with
  | mk s1 a =>
    rw [hd] at hans
    simp only [] at hans
    rw [← hans] at hr
    cases a with
    | timeout => cases hr
    | illegal => cases hr
    | stuck => cases hr
    | pos p => exact rest s1
    | neg c => exact rest s1

/-- the whole identifier scan over a session list on a session-determined ECU that answers session changes the same
    way from every session: the logged positive counters are, for every session the ECU lets the scanner enter, in
    order, the number of non-skipped identifiers of the range it answers positively in that session -/
theorem idSessions_counts {e : Ecu σ} (E : SessEcu e) (cfg : IdCfg) (hin : HooksInert cfg.hooks)
    (hq : HooksAnswered E.ans cfg.hooks) (hns : cfg.skipNotSupported = false) (hsvc : cfg.service < 256)
    (h10 : cfg.service ≠ 0x10) (h11 : cfg.service ≠ 0x11)
    (ks : List Nat) (hlt : ∀ k ∈ ks, k < 0x80) (enter : Nat → Bool)
    (henter : ∀ ss k, k ∈ ks → (E.ans ss (dscPdu k)).isPos = enter k ∧ (E.ans ss (dscPdu k)).exn = none)
    (hrb : ∀ n, cfg.checkSession = some n → ∀ k ∈ ks, ReadBackOk E.ans k)
    (hstuck : ∀ ss did sf, E.ans ss (idPdu cfg did sf) ≠ .stuck)
    (hreset : ∀ ss, (E.ans ss (resetPdu 1)).exn = none) (hping : ∀ ss, E.ans ss pingPdu ≠ .stuck)
    (hdsc : ∀ ss, (E.ans ss (dscPdu 1)).exn = none) (s : σ) :
    ∃ r, (idSessions e cfg ks true s).2 = .ok r ∧ r.clean = true ∧
      r.perSession.map (fun x => (x.1, x.2.positive)) =
        (ks.filter enter).map (fun k => (k, idCountSpec E.ans cfg (some k) k)) := by
  induction ks generalizing s with
  | nil => exact ⟨_, rfl, rfl, rfl⟩
  | cons k rest ih =>
    have hk : k < 0x80 := hlt k (by simp)
    have ih' := ih (fun x hx => hlt x (by simp [hx])) (fun ss k' hk' => henter ss k' (by simp [hk']))
      (fun n hn k' hk' => hrb n hn k' (by simp [hk']))
    obtain ⟨hposeq, hexn⟩ := henter (E.sess s) k (by simp)
    simp only [idSessions]
    cases hent : enter k with
    | false =>
      obtain ⟨c, hc⟩ := setSession_neg E cfg.hooks hin hq k s (by rw [hposeq, hent]) hexn
      cases hs : setSession e cfg.hooks k s with
      | mk s1 r1 =>
        rw [hs] at hc
        simp only [] at hc
        subst hc
        simp only []
        obtain ⟨r, a1, a2, a3⟩ := ih' s1
        exact ⟨r, a1, a2, by rw [a3]; simp [hent]⟩
    | true =>
      obtain ⟨pp, hpp⟩ := setSession_pos E cfg.hooks hin hq k s (by rw [hposeq, hent])
      obtain ⟨hs1, _⟩ := setSession_pos_session E cfg.hooks hin k hk s pp hpp
      cases hs : setSession e cfg.hooks k s with
      | mk s1 r1 =>
        rw [hs] at hpp hs1
        simp only [] at hpp hs1
        subst hpp
        simp only [if_true]
        obtain ⟨out, o1, o2, _, o4⟩ := idLoop_count E cfg hns hsvc h10 h11 (some k) k
          (fun k' n hk' hn => by injection hk' with hk'; subst hk'; exact ⟨rfl, hrb n hn k (by simp)⟩)
          (hstuck k) (idPairs cfg) {} s1 hs1
        unfold idPerformScan
        cases hl : idLoop e cfg (some k) (idPairs cfg) {} s1 with
        | mk s2 r2 =>
          rw [hl] at o1
          simp only [] at o1
          subst o1
          simp only [o2, if_true]
          have hlv := leaveSession_ok E cfg.hooks hin hq hreset hping hdsc s2
          cases h3 : leaveSession e cfg.hooks s2 with
          | mk s3 r3 =>
            rw [h3] at hlv
            simp only [] at hlv
            subst hlv
            simp only []
            obtain ⟨r, a1, a2, a3⟩ := ih' s3
            cases hq' : idSessions e cfg rest true s3 with
            | mk s4 r4 =>
              rw [hq'] at a1
              simp only [] at a1
              subst a1
              refine ⟨_, rfl, a2, ?_⟩
              simp only [List.singleton_append, List.map_cons, a3, List.filter_cons, hent, if_true]
              congr 1
              simp only [Prod.mk.injEq, true_and]
              rw [o4]
              simp [idCountSpec]

end Gallia.Scans
