import Gallia.Proofs.Lemmas.ParseUri
import Gallia.Proofs.Lemmas.Config
/-! C20 helper lemmas: transport settings written into / read from a URI query -/
namespace Gallia.Parse

/-! ### transport settings written into a URI -/

/-- a notation without white space and without `+` (what `urlencode` used to leave unchanged; kept for the corollaries) -/
structure Spelling.UrlSafe (sp : Spelling) : Prop where
  wsL : sp.wsL = []
  wsR : sp.wsR = []
  plus : sp.plus = false

theorem Spelling.UrlSafe.wf {sp : Spelling} (h : sp.UrlSafe) : sp.WF := by
  constructor <;> simp [h.wsL, h.wsR]

theorem spell_ne_nil (sp : Spelling) (z : Int) : spell sp z ≠ [] := by
  obtain ⟨c, hc, _⟩ := exists_numChar_spell sp z
  intro e; rw [e] at hc; simp at hc

def optArg (k : Str) : Option (Spelling × Int) → Args
  | none => []
  | some (sp, z) => [(k, spell sp z)]

def optOK : Option (Spelling × Int) → Prop
  | none => True
  | some (sp, _) => sp.WF

/-- the query parameters of a DoIP target -/
def doipArgs (s1 : Spelling) (src : Int) (s2 : Spelling) (tgt : Int) (act ver : Option (Spelling × Int)) : Args :=
  [(kSrcAddr, spell s1 src), (kTargetAddr, spell s2 tgt)] ++ optArg kActivationType act ++ optArg kProtocolVersion ver

theorem doipConfig_args (s1 : Spelling) (src : Int) (s2 : Spelling) (tgt : Int) (act ver : Option (Spelling × Int))
    (h1 : s1.WF) (h2 : s2.WF) (ha : optOK act) (hv : optOK ver) :
    doipConfig (doipArgs s1 src s2 tgt act ver) = some ⟨src, tgt, act.map (·.2), ver.map (·.2)⟩ := by
  have e1 := autoIntL_spell s1 h1 src
  have e2 := autoIntL_spell s2 h2 tgt
  rcases act with _ | ⟨sa, za⟩ <;> rcases ver with _ | ⟨sv, zv⟩
  · simp [doipArgs, optArg, doipConfig, fldWith, lookupS, List.find?, kSrcAddr, kTargetAddr, kActivationType,
      kProtocolVersion, e1, e2, Fld.isBad, Fld.opt]
  · have e4 := autoIntL_spell sv hv zv
    simp [doipArgs, optArg, doipConfig, fldWith, lookupS, List.find?, kSrcAddr, kTargetAddr, kActivationType,
      kProtocolVersion, e1, e2, e4, Fld.isBad, Fld.opt]
  · have e3 := autoIntL_spell sa ha za
    simp [doipArgs, optArg, doipConfig, fldWith, lookupS, List.find?, kSrcAddr, kTargetAddr, kActivationType,
      kProtocolVersion, e1, e2, e3, Fld.isBad, Fld.opt]
  · have e3 := autoIntL_spell sa ha za
    have e4 := autoIntL_spell sv hv zv
    simp [doipArgs, optArg, doipConfig, fldWith, lookupS, List.find?, kSrcAddr, kTargetAddr, kActivationType,
      kProtocolVersion, e1, e2, e3, e4, Fld.isBad, Fld.opt]

theorem mem_optArg {k : Str} {o : Option (Spelling × Int)} {kv : Str × Str} (h : kv ∈ optArg k o) :
    kv.1 = k ∧ kv.2 ≠ [] := by
  rcases o with _ | ⟨sp, z⟩
  · simp [optArg] at h
  · simp only [optArg, List.mem_cons, List.not_mem_nil, or_false] at h
    subst h
    exact ⟨rfl, spell_ne_nil sp z⟩

theorem argsOK_doip (s1 : Spelling) (src : Int) (s2 : Spelling) (tgt : Int) (act ver : Option (Spelling × Int)) :
    ArgsOK (doipArgs s1 src s2 tgt act ver) := by
  constructor
  · intro kv hkv
    simp only [doipArgs, List.cons_append, List.nil_append, List.mem_cons, List.mem_append] at hkv
    rcases hkv with rfl | rfl | h | h
    · exact spell_ne_nil s1 src
    · exact spell_ne_nil s2 tgt
    · exact (mem_optArg h).2
    · exact (mem_optArg h).2
  · rcases act with _ | ⟨sa, za⟩ <;> rcases ver with _ | ⟨sv, zv⟩ <;> simp [doipArgs, optArg] <;> decide

/-! ### plain `int` fields: pydantic's lax `str -> int` -/

theorem digitChar_eq : ∀ d, d < 10 → Nat.digitChar d = digitChar false d := by decide

/-- the decimal text of the model is `Nat.toDigits 10` -/
theorem decStr_eq (n : Nat) : decStr n = Nat.toDigits 10 n := by
  induction n using Nat.strongRecOn with
  | _ n ih =>
    unfold decStr
    rw [digitsLE]
    by_cases h : n < 10
    · simp only [h, true_or, if_true, List.reverse_cons, List.reverse_nil, List.nil_append, List.map_cons, List.map_nil]
      rw [Nat.toDigits_of_lt_base h, digitChar_eq n h]
    · have h' : ¬ (n < 10 ∨ 10 < 2) := by omega
      simp only [h', if_false, List.reverse_cons, List.map_append, List.map_cons, List.map_nil]
      rw [Nat.toDigits_of_base_le (by omega) (by omega), ← ih (n / 10) (by omega), digitChar_eq _ (Nat.mod_lt _ (by omega))]
      rfl

/-- how a plain integer setting may be written: optional `+`, leading zeros, a `.0…0` suffix, white space around it
    (pydantic also drops single underscores between digits; that spelling is tied, not proved) -/
structure LaxSp where
  wsL : Str := []
  wsR : Str := []
  plus : Bool := false
  zeros : Nat := 0
  frac : Nat := 0
  deriving DecidableEq, Repr

def LaxSp.WF (ls : LaxSp) : Prop := (∀ c ∈ ls.wsL, isWsInt c = true) ∧ (∀ c ∈ ls.wsR, isWsInt c = true)

/-- `.000` with `k` zeros (nothing for `k = 0`) -/
def fracStr (k : Nat) : Str := if k = 0 then [] else '.' :: List.replicate k '0'

def laxBody (ls : LaxSp) (n : Nat) : Str := List.replicate ls.zeros '0' ++ Nat.toDigits 10 n ++ fracStr ls.frac

def laxCore (ls : LaxSp) (z : Int) : Str :=
  (if z < 0 then ['-'] else if ls.plus then ['+'] else []) ++ laxBody ls z.natAbs

def laxText (ls : LaxSp) (z : Int) : Str := ls.wsL ++ laxCore ls z ++ ls.wsR

theorem trimInt_pad (l core r : Str) (hl : ∀ c ∈ l, isWsInt c = true) (hr : ∀ c ∈ r, isWsInt c = true)
    (hne : core ≠ []) (hh : ∀ c ∈ core, isWsInt c = false) : trimInt (l ++ core ++ r) = core := by
  unfold trimInt
  rw [List.append_assoc, dropWhile_all_append l _ hl]
  cases core with
  | nil => exact absurd rfl hne
  | cons c cs =>
    have hc := hh c (by simp)
    simp only [List.cons_append, List.dropWhile_cons, hc, Bool.false_eq_true, if_false]
    rw [← List.cons_append, List.reverse_append, dropWhile_all_append _ _ (by simpa using hr)]
    cases hrev : (c :: cs).reverse with
    | nil => simp at hrev
    | cons z zs =>
      have hmem : z ∈ (c :: cs).reverse := by rw [hrev]; simp
      have hz : isWsInt z = false := hh z (List.mem_reverse.mp hmem)
      simp only [List.dropWhile_cons, hz, Bool.false_eq_true, if_false]
      rw [← hrev, List.reverse_reverse]

theorem isDigit_lt {c : Char} (h : c.isDigit = true) : 48 ≤ c.toNat ∧ c.toNat ≤ 57 := by
  simp only [Char.isDigit, Bool.and_eq_true, decide_eq_true_eq, ge_iff_le, UInt32.le_iff_toNat_le] at h
  have e : c.toNat = c.val.toNat := rfl
  rw [e]
  have h1 := h.1; have h2 := h.2
  simp at h1 h2
  omega

theorem isWsInt_false_of_range {c : Char} (h : 33 ≤ c.toNat ∧ c.toNat < 128) : isWsInt c = false := by
  have h1 : isWs c = false := by
    cases hw : isWs c with
    | false => rfl
    | true =>
      have := isWs_mem hw
      simp only [List.mem_cons, List.not_mem_nil, or_false] at this
      rcases this with rfl | rfl | rfl | rfl | rfl | rfl <;> simp at h
  have h2 : isUniSpace c = false := by
    cases hu : isUniSpace c with
    | false => rfl
    | true => have := isUniSpace_ge hu; omega
  simp [isWsInt, h1, h2]

theorem laxBody_chars (ls : LaxSp) (n : Nat) : ∀ c ∈ laxBody ls n, c.isDigit = true ∨ c = '.' := by
  intro c hc
  unfold laxBody fracStr at hc
  simp only [List.mem_append] at hc
  rcases hc with (hc | hc) | hc
  · left; rw [(List.mem_replicate.mp hc).2]; decide
  · left; exact Config.toDigits10_isDigit _ c hc
  · split at hc
    · simp at hc
    · rcases List.mem_cons.mp hc with rfl | hc
      · right; rfl
      · left; rw [(List.mem_replicate.mp hc).2]; decide

theorem laxBody_head (ls : LaxSp) (n : Nat) : ∃ b bt, laxBody ls n = b :: bt ∧ b.isDigit = true := by
  unfold laxBody
  cases hz : ls.zeros with
  | zero =>
    cases hd : Nat.toDigits 10 n with
    | nil => exact absurd hd Nat.toDigits_ne_nil
    | cons b bt =>
      exact ⟨b, bt ++ fracStr ls.frac, by simp, Config.toDigits10_isDigit n b (by rw [hd]; simp)⟩
  | succ k => exact ⟨'0', List.replicate k '0' ++ Nat.toDigits 10 n ++ fracStr ls.frac, by simp [List.replicate_succ], by decide⟩

theorem laxCore_props (ls : LaxSp) (z : Int) : laxCore ls z ≠ [] ∧ ∀ c ∈ laxCore ls z, isWsInt c = false := by
  constructor
  · obtain ⟨b, bt, hb, _⟩ := laxBody_head ls z.natAbs
    unfold laxCore; rw [hb]; simp
  · intro c hc
    unfold laxCore at hc
    simp only [List.mem_append] at hc
    rcases hc with hc | hc
    · split at hc
      · simp at hc; subst hc; decide
      · split at hc
        · simp at hc; subst hc; decide
        · simp at hc
    · rcases laxBody_chars ls _ c hc with h | rfl
      · have := isDigit_lt h
        exact isWsInt_false_of_range (by omega)
      · decide

open Gallia.Config in
theorem skipZeros_zeros (k : Nat) (rest : Str) : skipZeros '0' (List.replicate k '0' ++ rest) = skipZeros '0' rest := by
  induction k with
  | zero => rfl
  | succ k ih =>
    simp only [List.replicate_succ, List.cons_append, skipZeros]
    simpa using ih

open Gallia.Config in
theorem stripLeadingZeros_zeros (k n f : Nat) :
    stripLeadingZeros (List.replicate k '0' ++ Nat.toDigits 10 n ++ fracStr f) = some (Nat.toDigits 10 n ++ fracStr f) := by
  have hdig := toDigits10_isDigit n
  by_cases hn : n = 0
  · subst hn
    have e : Nat.toDigits 10 0 = ['0'] := by decide
    rw [e]
    have : List.replicate k '0' ++ ['0'] ++ fracStr f = '0' :: (List.replicate k '0' ++ fracStr f) := by
      have : List.replicate k '0' ++ ['0'] = '0' :: List.replicate k '0' := by
        rw [← List.replicate_succ', List.replicate_succ]
      rw [this]; rfl
    rw [this]
    simp only [stripLeadingZeros, beq_self_eq_true, if_true]
    rw [skipZeros_zeros]
    unfold fracStr
    split
    · rfl
    · simp [skipZeros, isNzDigit]
  · obtain ⟨c, t, e, h0, _, _, _⟩ := toDigits_head_b 10 (by omega) (by omega) n (by omega)
    have hc : c.isDigit = true := hdig c (by rw [e]; simp)
    have hne : c ≠ '0' := by simpa using h0
    have hnz : isNzDigit c = true := by simp [isNzDigit, hc, hne]
    have hus : (c == '_') = false := (isDigit_not_special c hc).2.1
    rw [e]
    cases k with
    | zero => simp [stripLeadingZeros, h0, hnz]
    | succ k =>
      simp only [List.replicate_succ, List.cons_append, stripLeadingZeros, beq_self_eq_true, if_true]
      rw [List.append_assoc, skipZeros_zeros]
      simp [skipZeros, h0, hus, hnz]

open Gallia.Config in
theorem stripDecimalZeros_frac (n f : Nat) : stripDecimalZeros (Nat.toDigits 10 n ++ fracStr f) = Nat.toDigits 10 n := by
  have hdig := toDigits10_isDigit n
  have hdot : ∀ c ∈ Nat.toDigits 10 n, (c != '.') = true := fun c hc => (isDigit_not_special c (hdig c hc)).1
  unfold fracStr
  split
  · simp [stripDecimalZeros, Config.dropWhile_all _ _ hdot]
  · rename_i hf
    unfold stripDecimalZeros
    have h1 : (Nat.toDigits 10 n ++ '.' :: List.replicate f '0').dropWhile (· != '.') = '.' :: List.replicate f '0' := by
      rw [Gallia.Parse.dropWhile_all_append _ _ hdot]; simp [List.dropWhile]
    have h2 : (Nat.toDigits 10 n ++ '.' :: List.replicate f '0').takeWhile (· != '.') = Nat.toDigits 10 n :=
      Gallia.Parse.takeWhile_stop _ _ '.' _ hdot (by decide)
    simp only [h1, h2]
    have : (List.replicate f '0').isEmpty = false := by cases f with | zero => exact absurd rfl hf | succ f => rfl
    simp [this]

open Gallia.Config in
theorem parseLaxInt_body (body X D : Str) (n : Nat) (b : Char) (bt : Str) (hb : body = b :: bt) (hbm : b ≠ '-') (hbp : b ≠ '+')
    (hws : ∀ c ∈ body, Config.isWs c = false) (hz : stripLeadingZeros body = some X)
    (hd : stripUnderscores (stripDecimalZeros X) = D) (hj : jsonNat D = some n) (hD : ∀ t, D ≠ '-' :: t) :
    parseLaxInt body = some (Int.ofNat n) ∧ parseLaxInt ('+' :: body) = some (Int.ofNat n) ∧
    parseLaxInt ('-' :: body) = some (-(Int.ofNat n)) := by
  have hjs : jsonInt D = some (Int.ofNat n) := by
    unfold jsonInt
    split
    · rename_i t; exact absurd rfl (hD t)
    · simp [hj]
  have s0 : strip body = body := strip_noWs _ hws
  have s1 : strip ('+' :: body) = '+' :: body :=
    strip_noWs _ (by intro x hx; rcases List.mem_cons.mp hx with rfl | hx; decide; exact hws x hx)
  have s2 : strip ('-' :: body) = '-' :: body :=
    strip_noWs _ (by intro x hx; rcases List.mem_cons.mp hx with rfl | hx; decide; exact hws x hx)
  refine ⟨?_, ?_, ?_⟩
  · unfold parseLaxInt
    simp only [s0]
    rw [hb] at hz ⊢
    simp [hbp, hbm, hz, hd, hjs]
  · unfold parseLaxInt
    simp only [s1]
    rw [hb] at hz ⊢
    simp [hbp, hbm, hz, hd, hjs]
  · unfold parseLaxInt
    simp only [s2]
    rw [hb] at hz ⊢
    simp [hbp, hbm, hz, hd, jsonInt, hj]

open Gallia.Config in
/-- pydantic's lax `str -> int` reads every integer back from its decimal text with optional `+`, leading zeros, `.0…0` -/
theorem parseLaxInt_core (ls : LaxSp) (z : Int) : parseLaxInt (laxCore ls z) = some z := by
  obtain ⟨_, _, hu, hj⟩ := laxSteps_decimal z.natAbs
  obtain ⟨b, bt, hb, hbd⟩ := laxBody_head ls z.natAbs
  have hbs := isDigit_not_special b hbd
  have hbm : b ≠ '-' := by simpa using hbs.2.2.1
  have hbp : b ≠ '+' := by simpa using hbs.2.2.2.1
  have hws : ∀ c ∈ laxBody ls z.natAbs, Config.isWs c = false := by
    intro c hc
    rcases laxBody_chars ls _ c hc with h | rfl
    · exact (isDigit_not_special c h).2.2.2.2
    · decide
  have hD : ∀ t, Nat.toDigits 10 z.natAbs ≠ '-' :: t := by
    intro t e
    have := toDigits10_isDigit z.natAbs '-' (by rw [e]; simp)
    exact absurd this (by decide)
  have key := parseLaxInt_body (laxBody ls z.natAbs) _ (Nat.toDigits 10 z.natAbs) z.natAbs b bt hb hbm hbp hws
    (stripLeadingZeros_zeros ls.zeros z.natAbs ls.frac) (by rw [stripDecimalZeros_frac, hu]) hj hD
  unfold laxCore
  by_cases hneg : z < 0
  · simp only [hneg, if_true, List.cons_append, List.nil_append]
    rw [key.2.2]; congr 1; simp only [Int.ofNat_eq_natCast]; omega
  · simp only [hneg, if_false]
    by_cases hp : ls.plus = true
    · simp only [hp, if_true, List.cons_append, List.nil_append]
      rw [key.2.1]; congr 1; simp only [Int.ofNat_eq_natCast]; omega
    · simp only [hp, Bool.false_eq_true, if_false, List.nil_append]
      rw [key.1]; congr 1; simp only [Int.ofNat_eq_natCast]; omega

/-- a plain `int` setting written in decimal, with an optional `+` and any white space pydantic trims, is read back -/
theorem plainInt_laxText (ls : LaxSp) (h : ls.WF) (z : Int) : plainInt (laxText ls z) = some z := by
  unfold plainInt laxText
  rw [trimInt_pad _ _ _ h.1 h.2 (laxCore_props ls z).1 (laxCore_props ls z).2]
  exact parseLaxInt_core ls z

theorem plainInt_decStr (n : Nat) : plainInt (decStr n) = some (n : Int) := by
  have := plainInt_laxText {} ⟨by simp, by simp⟩ (n : Int)
  have hn : ¬ ((n : Int) < 0) := by omega
  simpa [laxText, laxCore, laxBody, fracStr, decStr_eq, hn] using this

/-- the query parameters the HSFZ discoverer writes: addresses in any notation, `ack_timeout` in decimal -/
def hsfzArgs (s1 : Spelling) (src : Int) (s2 : Spelling) (dst : Int) (ack : Option Nat) : Args :=
  [(kSrcAddr, spell s1 src), (kDstAddr, spell s2 dst)] ++ (match ack with | none => [] | some n => [(kAckTimeout, decStr n)])

theorem hsfzConfig_args (s1 : Spelling) (src : Int) (s2 : Spelling) (dst : Int) (ack : Option Nat)
    (h1 : s1.WF) (h2 : s2.WF) :
    hsfzConfig (hsfzArgs s1 src s2 dst ack) = some ⟨src, dst, ack.map (fun n => (n : Int))⟩ := by
  have e1 := autoIntL_spell s1 h1 src
  have e2 := autoIntL_spell s2 h2 dst
  cases ack with
  | none => simp [hsfzArgs, hsfzConfig, fldWith, lookupS, List.find?, kSrcAddr, kDstAddr, kAckTimeout, e1, e2, Fld.isBad, Fld.opt]
  | some n =>
    have e3 := plainInt_decStr n
    simp [hsfzArgs, hsfzConfig, fldWith, lookupS, List.find?, kSrcAddr, kDstAddr, kAckTimeout, e1, e2, e3, Fld.isBad, Fld.opt]

theorem argsOK_hsfz (s1 : Spelling) (src : Int) (s2 : Spelling) (dst : Int) (ack : Option Nat) :
    ArgsOK (hsfzArgs s1 src s2 dst ack) := by
  have v1 := spell_ne_nil s1 src
  have v2 := spell_ne_nil s2 dst
  cases ack with
  | none =>
    refine ⟨?_, ?_⟩ <;> simp only [hsfzArgs, List.cons_append, List.nil_append, List.append_nil,
      List.mem_cons, List.not_mem_nil, or_false, forall_eq_or_imp, forall_eq, List.map_cons, List.map_nil]
    · exact ⟨v1, v2⟩
    · decide
  | some n =>
    refine ⟨?_, ?_⟩ <;> simp only [hsfzArgs, List.cons_append, List.nil_append, List.append_nil,
      List.mem_cons, List.not_mem_nil, or_false, forall_eq_or_imp, forall_eq, List.map_cons, List.map_nil]
    · exact ⟨v1, v2, decStr_ne_nil n⟩
    · decide

def boolStr (b : Bool) : Str := if b then ['t', 'r', 'u', 'e'] else ['f', 'a', 'l', 's', 'e']

/-- the query parameters the ISO-TP discoverer writes -/
def isotpArgs (fd ext : Bool) (s1 : Spelling) (src : Int) (s2 : Spelling) (dst : Int)
    (ea ra tp rp : Option (Spelling × Int)) : Args :=
  [(kIsFd, boolStr fd), (kIsExtended, boolStr ext), (kSrcAddr, spell s1 src), (kDstAddr, spell s2 dst)] ++
    optArg kExtAddress ea ++ optArg kRxExtAddress ra ++ optArg kTxPadding tp ++ optArg kRxPadding rp

theorem boolVal_boolStr : ∀ b, boolVal (boolStr b) = some b := by decide

theorem isotpConfig_args (fd ext : Bool) (s1 : Spelling) (src : Int) (s2 : Spelling) (dst : Int)
    (ea ra tp rp : Option (Spelling × Int)) (h1 : s1.WF) (h2 : s2.WF)
    (hea : optOK ea) (hra : optOK ra) (htp : optOK tp) (hrp : optOK rp) :
    isotpConfig (isotpArgs fd ext s1 src s2 dst ea ra tp rp) =
      some ⟨src, dst, some ext, some fd, none, ea.map (·.2), ra.map (·.2), tp.map (·.2), rp.map (·.2), none⟩ := by
  have e1 := autoIntL_spell s1 h1 src
  have e2 := autoIntL_spell s2 h2 dst
  have b1 := boolVal_boolStr fd
  have b2 := boolVal_boolStr ext
  rcases ea with _ | ⟨s3, z3⟩ <;> rcases ra with _ | ⟨s4, z4⟩ <;> rcases tp with _ | ⟨s5, z5⟩ <;>
    rcases rp with _ | ⟨s6, z6⟩ <;> simp only [optOK] at hea hra htp hrp <;>
    simp [isotpArgs, optArg, isotpConfig, fldWith, lookupS, List.find?, kSrcAddr, kDstAddr, kIsFd, kIsExtended,
      kFrameTxtime, kExtAddress, kRxExtAddress, kTxPadding, kRxPadding, kTxDl, Fld.isBad, Fld.opt,
      autoIntL_spell, *]

theorem boolStr_ne_nil : ∀ b, boolStr b ≠ [] := by decide

theorem argsOK_isotp (fd ext : Bool) (s1 : Spelling) (src : Int) (s2 : Spelling) (dst : Int)
    (ea ra tp rp : Option (Spelling × Int)) : ArgsOK (isotpArgs fd ext s1 src s2 dst ea ra tp rp) := by
  constructor
  · intro kv hkv
    simp only [isotpArgs, List.cons_append, List.nil_append, List.mem_cons, List.mem_append] at hkv
    rcases hkv with rfl | rfl | rfl | rfl | (((h | h) | h) | h)
    · exact boolStr_ne_nil fd
    · exact boolStr_ne_nil ext
    · exact spell_ne_nil s1 src
    · exact spell_ne_nil s2 dst
    · exact (mem_optArg h).2
    · exact (mem_optArg h).2
    · exact (mem_optArg h).2
    · exact (mem_optArg h).2
  · rcases ea with _ | ⟨s3, z3⟩ <;> rcases ra with _ | ⟨s4, z4⟩ <;> rcases tp with _ | ⟨s5, z5⟩ <;>
      rcases rp with _ | ⟨s6, z6⟩ <;> simp [isotpArgs, optArg] <;> decide

end Gallia.Parse
