import Gallia.Proofs.Lemmas.ParseUri
/-! C20 helper lemmas: transport settings written into / read from a URI query -/
namespace Gallia.Parse

/-! ### transport settings written into a URI -/

/-- a notation that survives `urlencode` unchanged: no whitespace, no `+` -/
structure Spelling.UrlSafe (sp : Spelling) : Prop where
  wsL : sp.wsL = []
  wsR : sp.wsR = []
  plus : sp.plus = false

theorem Spelling.UrlSafe.wf {sp : Spelling} (h : sp.UrlSafe) : sp.WF := by
  constructor <;> simp [h.wsL, h.wsR]

theorem digitChar_paramCh : ∀ (up : Bool) (d : Nat), d < 16 → paramCh (digitChar up d) = true := by decide

theorem spellNat_paramCh (sp : Spelling) (n : Nat) : ∀ c ∈ spellNat sp n, paramCh c = true := by
  intro c hc
  unfold spellNat at hc
  simp only [List.mem_append] at hc
  rcases hc with (hc | hc) | hc
  · revert hc; cases sp.base <;> cases sp.upper <;> simp [prefixOf] <;> (intro h; rcases h with rfl | rfl <;> decide)
  · split at hc
    · simp at hc; subst hc; decide
    · simp at hc
  · rw [digitStr_eq] at hc
    rcases mem_groupUs _ _ c hc with h | rfl
    · simp only [List.mem_map] at h
      obtain ⟨d, hd, rfl⟩ := h
      exact digitChar_paramCh _ d (by have := digs_lt sp n d hd; have := radix_le sp.base; omega)
    · decide

theorem spell_paramCh (sp : Spelling) (h : sp.UrlSafe) (z : Int) : ∀ c ∈ spell sp z, paramCh c = true := by
  intro c hc
  unfold spell signStr at hc
  simp only [h.wsL, h.wsR, h.plus, List.nil_append, List.append_nil, List.mem_append] at hc
  rcases hc with hc | hc
  · split at hc
    · simp at hc; subst hc; decide
    · simp at hc
  · exact spellNat_paramCh sp _ c hc

theorem spell_ne_nil (sp : Spelling) (z : Int) : spell sp z ≠ [] := by
  obtain ⟨c, hc, _⟩ := exists_numChar_spell sp z
  intro e; rw [e] at hc; simp at hc

def optArg (k : Str) : Option (Spelling × Int) → Args
  | none => []
  | some (sp, z) => [(k, spell sp z)]

def optOK : Option (Spelling × Int) → Prop
  | none => True
  | some (sp, _) => sp.UrlSafe

/-- the query parameters of a DoIP target -/
def doipArgs (s1 : Spelling) (src : Int) (s2 : Spelling) (tgt : Int) (act ver : Option (Spelling × Int)) : Args :=
  [(kSrcAddr, spell s1 src), (kTargetAddr, spell s2 tgt)] ++ optArg kActivationType act ++ optArg kProtocolVersion ver

theorem doipConfig_args (s1 : Spelling) (src : Int) (s2 : Spelling) (tgt : Int) (act ver : Option (Spelling × Int))
    (h1 : s1.UrlSafe) (h2 : s2.UrlSafe) (ha : optOK act) (hv : optOK ver) :
    doipConfig (doipArgs s1 src s2 tgt act ver) = some ⟨src, tgt, act.map (·.2), ver.map (·.2)⟩ := by
  have e1 := autoIntL_spell s1 h1.wf src
  have e2 := autoIntL_spell s2 h2.wf tgt
  rcases act with _ | ⟨sa, za⟩ <;> rcases ver with _ | ⟨sv, zv⟩
  · simp [doipArgs, optArg, doipConfig, fldWith, lookupS, List.find?, kSrcAddr, kTargetAddr, kActivationType,
      kProtocolVersion, e1, e2, Fld.isBad, Fld.opt]
  · have e4 := autoIntL_spell sv (Spelling.UrlSafe.wf hv) zv
    simp [doipArgs, optArg, doipConfig, fldWith, lookupS, List.find?, kSrcAddr, kTargetAddr, kActivationType,
      kProtocolVersion, e1, e2, e4, Fld.isBad, Fld.opt]
  · have e3 := autoIntL_spell sa (Spelling.UrlSafe.wf ha) za
    simp [doipArgs, optArg, doipConfig, fldWith, lookupS, List.find?, kSrcAddr, kTargetAddr, kActivationType,
      kProtocolVersion, e1, e2, e3, Fld.isBad, Fld.opt]
  · have e3 := autoIntL_spell sa (Spelling.UrlSafe.wf ha) za
    have e4 := autoIntL_spell sv (Spelling.UrlSafe.wf hv) zv
    simp [doipArgs, optArg, doipConfig, fldWith, lookupS, List.find?, kSrcAddr, kTargetAddr, kActivationType,
      kProtocolVersion, e1, e2, e3, e4, Fld.isBad, Fld.opt]


theorem autoIntL_spell_safe (sp : Spelling) (h : sp.UrlSafe) (z : Int) : autoIntL (spell sp z) = some z :=
  autoIntL_spell sp h.wf z

theorem valOK_spell (sp : Spelling) (h : sp.UrlSafe) (z : Int) :
    (∀ c ∈ spell sp z, paramCh c = true) ∧ spell sp z ≠ [] := ⟨spell_paramCh sp h z, spell_ne_nil sp z⟩

theorem keys_paramCh : ∀ k ∈ [kSrcAddr, kDstAddr, kTargetAddr, kActivationType, kProtocolVersion, kAckTimeout, kIsExtended,
    kIsFd, kFrameTxtime, kExtAddress, kRxExtAddress, kTxPadding, kRxPadding, kTxDl], ∀ c ∈ k, paramCh c = true := by decide

def valOK (v : Str) : Prop := (∀ c ∈ v, paramCh c = true) ∧ v ≠ []

def knownKeys : List Str := [kSrcAddr, kDstAddr, kTargetAddr, kActivationType, kProtocolVersion, kAckTimeout, kIsExtended,
    kIsFd, kFrameTxtime, kExtAddress, kRxExtAddress, kTxPadding, kRxPadding, kTxDl]

theorem mem_optArg {k : Str} {o : Option (Spelling × Int)} {kv : Str × Str} (ho : optOK o) (h : kv ∈ optArg k o) :
    kv.1 = k ∧ valOK kv.2 := by
  rcases o with _ | ⟨sp, z⟩
  · simp [optArg] at h
  · simp only [optArg, List.mem_cons, List.not_mem_nil, or_false] at h
    subst h
    exact ⟨rfl, valOK_spell sp ho z⟩

theorem argsOK_intro (args : Args) (hk : ∀ kv ∈ args, kv.1 ∈ knownKeys) (hv : ∀ kv ∈ args, valOK kv.2)
    (hn : (args.map (·.1)).Nodup) : ArgsOK args :=
  ⟨fun kv h => keys_paramCh kv.1 (hk kv h), hv, hn⟩

theorem argsOK_doip (s1 : Spelling) (src : Int) (s2 : Spelling) (tgt : Int) (act ver : Option (Spelling × Int))
    (h1 : s1.UrlSafe) (h2 : s2.UrlSafe) (ha : optOK act) (hv : optOK ver) :
    ArgsOK (doipArgs s1 src s2 tgt act ver) := by
  apply argsOK_intro
  · intro kv hkv
    simp only [doipArgs, List.cons_append, List.nil_append, List.mem_cons, List.mem_append] at hkv
    rcases hkv with rfl | rfl | h | h
    · simp [knownKeys]
    · simp [knownKeys]
    · rw [(mem_optArg ha h).1]; simp [knownKeys]
    · rw [(mem_optArg hv h).1]; simp [knownKeys]
  · intro kv hkv
    simp only [doipArgs, List.cons_append, List.nil_append, List.mem_cons, List.mem_append] at hkv
    rcases hkv with rfl | rfl | h | h
    · exact valOK_spell s1 h1 src
    · exact valOK_spell s2 h2 tgt
    · exact (mem_optArg ha h).2
    · exact (mem_optArg hv h).2
  · rcases act with _ | ⟨sa, za⟩ <;> rcases ver with _ | ⟨sv, zv⟩ <;> simp [doipArgs, optArg] <;> decide

/-- the query parameters the HSFZ discoverer writes: addresses in any URL-safe notation, `ack_timeout` in decimal -/
def hsfzArgs (s1 : Spelling) (src : Int) (s2 : Spelling) (dst : Int) (ack : Option Nat) : Args :=
  [(kSrcAddr, spell s1 src), (kDstAddr, spell s2 dst)] ++ (match ack with | none => [] | some n => [(kAckTimeout, decStr n)])

theorem plainInt_decStr (n : Nat) : plainInt (decStr n) = some (n : Int) := by
  have hd := decStr_isDigit n
  have hne := decStr_ne_nil n
  cases hs : decStr n with
  | nil => exact absurd hs hne
  | cons c t =>
    have hc : isDigit c = true := hd c (by simp [hs])
    have h1 : c ≠ '-' := by intro e; subst e; revert hc; decide
    have h2 : c ≠ '+' := by intro e; subst e; revert hc; decide
    have hall : (c :: t).all isDigit = true := by rw [← hs]; exact List.all_eq_true.mpr hd
    have hv : decVal (c :: t) = n := by rw [← hs]; exact decVal_decStr n
    unfold plainInt
    simp only [splitSign, h1, h2, if_false]
    simp only [List.all_cons, Bool.and_eq_true] at hall
    simp [hall.1, hall.2, hv, applySign]

theorem hsfzConfig_args (s1 : Spelling) (src : Int) (s2 : Spelling) (dst : Int) (ack : Option Nat)
    (h1 : s1.UrlSafe) (h2 : s2.UrlSafe) :
    hsfzConfig (hsfzArgs s1 src s2 dst ack) = some ⟨src, dst, ack.map (fun n => (n : Int))⟩ := by
  have e1 := autoIntL_spell s1 h1.wf src
  have e2 := autoIntL_spell s2 h2.wf dst
  cases ack with
  | none => simp [hsfzArgs, hsfzConfig, fldWith, lookupS, List.find?, kSrcAddr, kDstAddr, kAckTimeout, e1, e2, Fld.isBad, Fld.opt]
  | some n =>
    have e3 := plainInt_decStr n
    simp [hsfzArgs, hsfzConfig, fldWith, lookupS, List.find?, kSrcAddr, kDstAddr, kAckTimeout, e1, e2, e3, Fld.isBad, Fld.opt]

theorem decStr_paramCh (n : Nat) : (∀ c ∈ decStr n, paramCh c = true) ∧ decStr n ≠ [] := by
  refine ⟨fun c hc => ?_, decStr_ne_nil n⟩
  have := decStr_isDigit n c hc
  simp [paramCh, this]

theorem argsOK_hsfz (s1 : Spelling) (src : Int) (s2 : Spelling) (dst : Int) (ack : Option Nat)
    (h1 : s1.UrlSafe) (h2 : s2.UrlSafe) : ArgsOK (hsfzArgs s1 src s2 dst ack) := by
  have v1 := valOK_spell s1 h1 src
  have v2 := valOK_spell s2 h2 dst
  cases ack with
  | none =>
    refine ⟨?_, ?_, ?_⟩ <;> simp only [hsfzArgs, List.cons_append, List.nil_append, List.append_nil,
      List.mem_cons, List.not_mem_nil, or_false, forall_eq_or_imp, forall_eq, List.map_cons, List.map_nil]
    · exact ⟨keys_paramCh _ (by simp), keys_paramCh _ (by simp)⟩
    · exact ⟨v1, v2⟩
    · decide
  | some n =>
    refine ⟨?_, ?_, ?_⟩ <;> simp only [hsfzArgs, List.cons_append, List.nil_append, List.append_nil,
      List.mem_cons, List.not_mem_nil, or_false, forall_eq_or_imp, forall_eq, List.map_cons, List.map_nil]
    · exact ⟨keys_paramCh _ (by simp), keys_paramCh _ (by simp), keys_paramCh _ (by simp)⟩
    · exact ⟨v1, v2, decStr_paramCh n⟩
    · decide


def boolStr (b : Bool) : Str := if b then ['t', 'r', 'u', 'e'] else ['f', 'a', 'l', 's', 'e']

/-- the query parameters the ISO-TP discoverer writes -/
def isotpArgs (fd ext : Bool) (s1 : Spelling) (src : Int) (s2 : Spelling) (dst : Int)
    (ea ra tp rp : Option (Spelling × Int)) : Args :=
  [(kIsFd, boolStr fd), (kIsExtended, boolStr ext), (kSrcAddr, spell s1 src), (kDstAddr, spell s2 dst)] ++
    optArg kExtAddress ea ++ optArg kRxExtAddress ra ++ optArg kTxPadding tp ++ optArg kRxPadding rp

theorem boolVal_boolStr : ∀ b, boolVal (boolStr b) = some b := by decide

theorem isotpConfig_args (fd ext : Bool) (s1 : Spelling) (src : Int) (s2 : Spelling) (dst : Int)
    (ea ra tp rp : Option (Spelling × Int)) (h1 : s1.UrlSafe) (h2 : s2.UrlSafe)
    (hea : optOK ea) (hra : optOK ra) (htp : optOK tp) (hrp : optOK rp) :
    isotpConfig (isotpArgs fd ext s1 src s2 dst ea ra tp rp) =
      some ⟨src, dst, some ext, some fd, none, ea.map (·.2), ra.map (·.2), tp.map (·.2), rp.map (·.2), none⟩ := by
  have e1 := autoIntL_spell s1 h1.wf src
  have e2 := autoIntL_spell s2 h2.wf dst
  have b1 := boolVal_boolStr fd
  have b2 := boolVal_boolStr ext
  rcases ea with _ | ⟨s3, z3⟩ <;> rcases ra with _ | ⟨s4, z4⟩ <;> rcases tp with _ | ⟨s5, z5⟩ <;>
    rcases rp with _ | ⟨s6, z6⟩ <;> simp only [optOK] at hea hra htp hrp <;>
    simp [isotpArgs, optArg, isotpConfig, fldWith, lookupS, List.find?, kSrcAddr, kDstAddr, kIsFd, kIsExtended,
      kFrameTxtime, kExtAddress, kRxExtAddress, kTxPadding, kRxPadding, kTxDl, e1, e2, b1, b2, Fld.isBad, Fld.opt,
      autoIntL_spell_safe, *]

theorem boolStr_valOK : ∀ b, valOK (boolStr b) := by
  intro b; cases b <;> exact ⟨by decide, by decide⟩

theorem argsOK_isotp (fd ext : Bool) (s1 : Spelling) (src : Int) (s2 : Spelling) (dst : Int)
    (ea ra tp rp : Option (Spelling × Int)) (h1 : s1.UrlSafe) (h2 : s2.UrlSafe)
    (hea : optOK ea) (hra : optOK ra) (htp : optOK tp) (hrp : optOK rp) :
    ArgsOK (isotpArgs fd ext s1 src s2 dst ea ra tp rp) := by
  apply argsOK_intro
  · intro kv hkv
    simp only [isotpArgs, List.cons_append, List.nil_append, List.mem_cons, List.mem_append] at hkv
    rcases hkv with rfl | rfl | rfl | rfl | (((h | h) | h) | h)
    · simp [knownKeys]
    · simp [knownKeys]
    · simp [knownKeys]
    · simp [knownKeys]
    · rw [(mem_optArg hea h).1]; simp [knownKeys]
    · rw [(mem_optArg hra h).1]; simp [knownKeys]
    · rw [(mem_optArg htp h).1]; simp [knownKeys]
    · rw [(mem_optArg hrp h).1]; simp [knownKeys]
  · intro kv hkv
    simp only [isotpArgs, List.cons_append, List.nil_append, List.mem_cons, List.mem_append] at hkv
    rcases hkv with rfl | rfl | rfl | rfl | (((h | h) | h) | h)
    · exact boolStr_valOK fd
    · exact boolStr_valOK ext
    · exact valOK_spell s1 h1 src
    · exact valOK_spell s2 h2 dst
    · exact (mem_optArg hea h).2
    · exact (mem_optArg hra h).2
    · exact (mem_optArg htp h).2
    · exact (mem_optArg hrp h).2
  · rcases ea with _ | ⟨s3, z3⟩ <;> rcases ra with _ | ⟨s4, z4⟩ <;> rcases tp with _ | ⟨s5, z5⟩ <;>
      rcases rp with _ | ⟨s6, z6⟩ <;> simp [isotpArgs, optArg] <;> decide

end Gallia.Parse
