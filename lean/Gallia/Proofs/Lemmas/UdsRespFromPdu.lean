import Gallia.Model.UdsRespFields
import Gallia.Proofs.Lemmas.UdsResp
/-
  Helper lemmas for C02: `<Response>.from_pdu` / `parse_static` against the registry dispatch of `parse_dynamic`.
-/
namespace Gallia.UdsResp
open Gallia

/-- how the registry finds a class again from its response id (and sub-function): rows are unique under the dispatch key -/
theorem reg_dispatch : ∀ e ∈ registry,
    (e.bySub = false → (entriesFor e.rsid).head? = some e) ∧
    (e.bySub = true → e.subFn = true ∧ 2 ≤ e.minLen ∧ ((entriesFor e.rsid).head?.map (·.bySub)) = some true ∧
      e.sub.isSome = true ∧ e.sub.getD 0 < 0x80 ∧ (entriesFor e.rsid).find? (fun x => x.sub == e.sub) = some e) := by
  decide +kernel

theorem fromPduE_ok {e : Entry} {b : Bytes} {r : Resp} (h : fromPduE e b = .ok r) :
    lenGate e b = .ok () ∧ subGate e b = .ok () ∧ parseKind e.kind b = .ok r ∧ ∃ s t, b = s :: t ∧ s.toNat = e.rsid := by
  unfold fromPduE at h
  split at h
  · cases h
  · rename_i hl
    split at h
    · cases h
    · rename_i s t
      split at h
      · cases h
      · rename_i hs
        split at h
        · cases h
        · rename_i hsg
          exact ⟨hl, hsg, h, s, t, rfl, by simpa using hs⟩

/-- a PDU a class's own `from_pdu` accepts is dispatched to that class by the registry -/
theorem dispatch_of_fromPduE {e : Entry} {b : Bytes} {r : Resp} (he : e ∈ registry) (h : fromPduE e b = .ok r) :
    dispatch b = .ok (some e) := by
  obtain ⟨hl, hsg, _, s, t, rfl, hs⟩ := fromPduE_ok h
  obtain ⟨h1, h2⟩ := reg_dispatch e he
  have hmin := (lenGate_ok hl).1
  unfold dispatch
  simp only [hs]
  cases hb : e.bySub with
  | false =>
    have hh := h1 hb
    cases hef : entriesFor e.rsid with
    | nil => rw [hef] at hh; cases hh
    | cons e0 es =>
      rw [hef] at hh
      simp only [List.head?_cons, Option.some.injEq] at hh
      subst hh
      simp [hb]
  | true =>
    obtain ⟨hsf, hm2, hhd, hsome, hk80, hfind⟩ := h2 hb
    cases hef : entriesFor e.rsid with
    | nil => rw [hef] at hhd; cases hhd
    | cons e0 es =>
      rw [hef] at hhd
      simp only [List.head?_cons, Option.map_some, Option.some.injEq] at hhd
      simp only [hhd, if_true]
      cases t with
      | nil => simp at hmin; omega
      | cons f t' =>
        cases hsub : e.sub with
        | none => rw [hsub] at hsome; cases hsome
        | some k =>
          rw [hsub] at hk80 hfind
          simp only [Option.getD_some] at hk80
          have hf := (subGate_ok hsg).2 k hsub
          have : f.toNat % 0x80 = k := by omega
          simp only [this]
          rw [← hef, hfind]

theorem fromPduE_decodeResp {e : Entry} {b : Bytes} {r : Resp} (he : e ∈ registry) (h : fromPduE e b = .ok r) :
    decodeResp b = .ok r := by
  have hd := dispatch_of_fromPduE he h
  obtain ⟨hl, hsg, hp, _⟩ := fromPduE_ok h
  have := lenGate_ok hl
  exact decodeResp_of hd this.1 this.2 hsg hp

theorem decodeResp_fromPduE {e : Entry} {b : Bytes} {r : Resp} (h : decodeResp b = .ok r)
    (hd : dispatch b = .ok (some e)) : fromPduE e b = .ok r := by
  have hk : r.kind? ≠ none := by
    intro hn
    cases r <;> simp [Resp.kind?] at hn
    have := (decodeResp_raw h).2
    simp [gate, hd, checkEntry] at this
    split at this
    · cases this
    · split at this <;> cases this
  obtain ⟨e1, hd1, hl, hs, hp⟩ := decodeResp_typed h hk
  rw [hd] at hd1
  cases hd1
  obtain ⟨_, s, t, rfl, hrs⟩ := dispatch_spec hd
  simp [fromPduE, hl, hs, hp, hrs]

theorem negEntry_mem : negEntry ∈ registry := by decide +kernel

/-- on a first byte 7F the class-level parser of NegativeResponse IS the negative branch of the dynamic parser -/
theorem fromPduE_neg (t : Bytes) : fromPduE negEntry (0x7F :: t) = decodeResp (0x7F :: t) := by
  have hd : dispatch (0x7F :: t) = .ok (some negEntry) := by rfl
  simp only [decodeResp, gate, hd, checkEntry, fromPduE]
  cases hl : lenGate negEntry (0x7F :: t) with
  | error r => rfl
  | ok u =>
    cases u
    have : (0x7F : UInt8).toNat = negEntry.rsid := by rfl
    simp only [this, ne_eq, not_true_eq_false, if_false]
    cases hs : subGate negEntry (0x7F :: t) with
    | error r => rfl
    | ok u => cases u; rfl

end Gallia.UdsResp
