import Gallia.Proofs.Lemmas.VEcu
/-
  Helper lemmas for C14, part 2: the typed answer of the service stage and its image under C13's byte-level chain.
-/
namespace Gallia.VEcu
open Gallia Gallia.Server Gallia.IsoDefault Gallia.UdsReq Gallia.UdsResp Gallia.Reply

/-- what the service stage answers to a parsed request: session control, reading the active session, tester present
    by the ECU core, the rest by the handlers, generalReject when they have no answer -/
def typedAnswer (o : Orc) (st : SrvState) (q : UdsReq.Req) : UdsResp.Resp :=
  match q with
  | .dsc ty _ => .dsc (u8 ty) []
  | .testerPresent _ => .testerPresent
  | .rdbi dids =>
    if dids.head? = some 0xF186 then .rdbi 0xF186 [UInt8.ofNat st.session]
    else (typedHandler o st q).getD (.neg (sidOf q) 0x10)
  | _ => (typedHandler o st q).getD (.neg (sidOf q) 0x10)

theorem getD_coarse (h : Option UdsResp.Resp) (s : UInt8) :
    (h.map coarse).getD (.neg s.toNat 16) = coarse (h.getD (.neg s 0x10)) := by
  cases h <;> simp [coarse]

theorem toBE2_F186 (d : Nat) (hd : d < 65536) :
    ((toBE d 2).getD 0 0 == 0xF1 && (toBE d 2).getD 1 0 == 0x86) = decide (d = 0xF186) := by
  rw [toBE_two]
  simp only [List.getD_cons_zero, List.getD_cons_succ]
  rw [Bool.eq_iff_iff]
  simp only [Bool.and_eq_true, beq_iff_eq, decide_eq_true_eq]
  constructor
  · rintro ⟨h1, h2⟩
    have h1' := congrArg UInt8.toNat h1
    have h2' := congrArg UInt8.toNat h2
    simp at h1' h2'
    omega
  · intro h; subst h; decide

theorem isoService_typed (o : Orc) (st : SrvState) (q : UdsReq.Req) (hq : q.WF) (hraw : q.isRaw = false)
    (hdec : decode (encode q) = q) :
    isoService (vecuHandler o) st ⟨encode q, false⟩ = coarse (typedAnswer o st q) := by
  have hv : vecuHandler o st ⟨encode q, false⟩ = (typedHandler o st q).map coarse := by
    simp [vecuHandler, hdec]
  unfold isoService
  rw [hv]
  have hg := getD_coarse (typedHandler o st q) (sidOf q)
  cases q with
  | raw b => simp [Req.isRaw] at hraw
  | dsc ty sup =>
    have hty : ty < 128 := hq
    have h1 := sfOf_sfByte hty sup
    have h2 := u8_toNat (show ty < 256 by omega)
    unfold sfOf at h1
    simp [Server.Req.sid, Server.Req.subFn, encode, sidDSC, typedAnswer, coarse, h1, h2]
  | testerPresent sup =>
    simp [Server.Req.sid, encode, sidDSC, sidRDBI, sidTP, typedAnswer, coarse]
  | clearDDDI d sup =>
    cases d <;> simp [Server.Req.sid, encode, sidDSC, sidRDBI, sidTP, typedAnswer, sidOf] at hg ⊢ <;> exact hg
  | rdbi dids =>
    obtain ⟨hne, hlt⟩ := hq
    cases dids with
    | nil => exact absurd rfl hne
    | cons d ds =>
      have hd : d < 65536 := hlt d (by simp)
      have hF := toBE2_F186 d hd
      rw [toBE_two] at hF
      simp only [List.getD_cons_zero, List.getD_cons_succ] at hF
      by_cases hdd : d = 0xF186
      · subst hdd
        simp [Server.Req.sid, encode, sidDSC, sidRDBI, typedAnswer, coarse, encodeResp, toBE_two]
      · have hF' : (UInt8.ofNat (d / 256 % 256) == 241 && UInt8.ofNat (d % 256) == 134) = false := by
          rw [hF]; simp [hdd]
        simp [Server.Req.sid, encode, sidDSC, sidRDBI, sidTP, typedAnswer, sidOf, toBE_two, hdd] at hg ⊢
        simp only [Bool.and_eq_false_iff, beq_eq_false_iff_ne] at hF'
        rcases hF' with h | h <;> simp [h] <;> exact hg
  | _ =>
    simp [Server.Req.sid, encode, sidDSC, sidRDBI, sidTP, typedAnswer, sidOf] at hg ⊢ <;> first | done | exact hg

end Gallia.VEcu
