import Gallia.Model.Doip
import Gallia.Proofs.Lemmas.DoipFifo
/-
  Helper lemmas for C06: codec round trip, the reader task as a stream transducer.
-/
namespace Gallia.Doip
open Gallia Gallia.Framing Gallia.DoipFifo

/-! ### bytes -/

theorem toBE_two (n : Nat) : toBE n 2 = [UInt8.ofNat (n / 256 % 256), UInt8.ofNat (n % 256)] := by
  simp [toBE]

theorem toBE_four (n : Nat) :
    toBE n 4 = [UInt8.ofNat (n / 256 / 256 / 256 % 256), UInt8.ofNat (n / 256 / 256 % 256),
                UInt8.ofNat (n / 256 % 256), UInt8.ofNat (n % 256)] := by
  simp [toBE]

theorem fromBE_two_toBE (n : Nat) (h : n < 65536) :
    fromBE [UInt8.ofNat (n / 256 % 256), UInt8.ofNat (n % 256)] = n := by
  have := fromBE_toBE n 2 (by simpa using h)
  rwa [toBE_two] at this

theorem fromBE_four_toBE (n : Nat) (h : n < 4294967296) :
    fromBE [UInt8.ofNat (n / 256 / 256 / 256 % 256), UInt8.ofNat (n / 256 / 256 % 256),
            UInt8.ofNat (n / 256 % 256), UInt8.ofNat (n % 256)] = n := by
  have := fromBE_toBE n 4 (by simpa using h)
  rwa [toBE_four] at this

theorem xor_ff_ff (v : UInt8) : v ^^^ 0xFF ^^^ 0xFF = v := by
  rw [UInt8.xor_assoc]; simp

/-! ### codec -/

theorem ptype_lt (f : Frame) : f.ptype < 65536 := by
  cases f <;> simp [Frame.ptype, ptHdrNack, ptRaRes, ptDiag, ptAckPos, ptAckNeg]

/-- the header and `len` payload bytes are cut off as one frame, whatever follows -/
theorem cut_header (v : UInt8) (pt : Nat) (pl rest : Bytes) (hpt : pt < 65536) (hl : pl.length < 4294967296) :
    cut (header v pt pl.length ++ pl ++ rest) = some (.frame v pt pl, rest) := by
  simp only [header, toBE_two, toBE_four, List.cons_append, List.nil_append, cut]
  rw [fromBE_four_toBE _ hl, fromBE_two_toBE _ hpt]
  simp [xor_ff_ff]

theorem cut_encFrame (v : UInt8) (f : Frame) (rest : Bytes) (hl : f.payload.length < 4294967296) :
    cut (encFrame v f ++ rest) = some (.frame v f.ptype f.payload, rest) := by
  unfold encFrame
  exact cut_header v f.ptype f.payload rest (ptype_lt f) hl

/-- the reader task queues a well-formed gateway frame as it was sent -/
theorem classify_enc (v : UInt8) (f : Frame) (hw : f.wf) : classify (.frame v f.ptype f.payload) = .q f := by
  cases f with
  | hdrNack c => simp [classify, Frame.ptype, Frame.payload, ptHdrNack]
  | rar s t c =>
    obtain ⟨hs, ht⟩ := hw
    simp [classify, Frame.ptype, Frame.payload, ptHdrNack, ptRaRes, toBE_two, fromBE]
    omega
  | diag s t d =>
    obtain ⟨hs, ht⟩ := hw
    simp [classify, Frame.ptype, Frame.payload, ptHdrNack, ptRaRes, ptDiag, toBE_two, fromBE_two_toBE _ hs,
      fromBE_two_toBE _ ht]
  | ackPos s t p =>
    obtain ⟨hs, ht⟩ := hw
    simp [classify, Frame.ptype, Frame.payload, ptHdrNack, ptRaRes, ptDiag, ptAckPos, toBE_two,
      fromBE_two_toBE _ hs, fromBE_two_toBE _ ht]
  | ackNeg s t c p =>
    obtain ⟨hs, ht⟩ := hw
    simp [classify, Frame.ptype, Frame.payload, ptHdrNack, ptRaRes, ptDiag, ptAckPos, ptAckNeg, toBE_two,
      fromBE_two_toBE _ hs, fromBE_two_toBE _ ht]

/-! ### reader task -/

/-- the items the reader task gets to before it dies -/
def liveItems : List Item → List Item
  | [] => []
  | .fatal :: _ => []
  | i :: is => i :: liveItems is

/-- frames the reader puts on the read queue, in order -/
def queued : List Item → List Frame
  | [] => []
  | .fatal :: _ => []
  | .q f :: is => f :: queued is
  | _ :: is => queued is

/-- alive-check requests the reader answers -/
def aliveCount : List Item → Nat
  | [] => 0
  | .fatal :: _ => 0
  | .alive :: is => aliveCount is + 1
  | _ :: is => aliveCount is

def allFrames (evs : List Ev) : List Frame := evs.flatMap (·.frames)

/-- the alive-check responses an event list stands for -/
def outOf (c : Cfg) (evs : List Ev) : List (Nat × Bytes) :=
  (evs.filter (·.reply)).map fun e => (e.t, aliveResp c)

def replyCount (evs : List Ev) : Nat := (evs.filter (·.reply)).length

@[simp] theorem allFrames_nil : allFrames [] = [] := rfl
@[simp] theorem allFrames_cons (e : Ev) (es : List Ev) : allFrames (e :: es) = e.frames ++ allFrames es := by
  simp [allFrames]
@[simp] theorem allFrames_append (a b : List Ev) : allFrames (a ++ b) = allFrames a ++ allFrames b := by
  simp [allFrames]
@[simp] theorem outOf_nil (c : Cfg) : outOf c [] = [] := rfl
theorem outOf_cons (c : Cfg) (e : Ev) (es : List Ev) :
    outOf c (e :: es) = (if e.reply then [(e.t, aliveResp c)] else []) ++ outOf c es := by
  cases h : e.reply <;> simp [outOf, h]
@[simp] theorem outOf_append (c : Cfg) (a b : List Ev) : outOf c (a ++ b) = outOf c a ++ outOf c b := by
  simp [outOf]
@[simp] theorem replyCount_append (a b : List Ev) : replyCount (a ++ b) = replyCount a + replyCount b := by
  simp [replyCount]

theorem queued_append (a b : List Item) :
    queued (a ++ b) = queued a ++ (if a.any Item.isFatal then [] else queued b) := by
  induction a with
  | nil => simp [queued]
  | cons i is ih => cases i <;> simp [queued, Item.isFatal, ih]

theorem aliveCount_append (a b : List Item) :
    aliveCount (a ++ b) = aliveCount a + (if a.any Item.isFatal then 0 else aliveCount b) := by
  induction a with
  | nil => simp [aliveCount]
  | cons i is ih => cases i <;> simp [aliveCount, Item.isFatal, ih] <;> omega

theorem groups_frames (t : Nat) (items : List Item) (acc : List Frame) :
    allFrames (groups t items acc) = acc ++ queued items := by
  induction items generalizing acc with
  | nil =>
    cases acc <;> simp [groups, queued]
  | cons i is ih =>
    cases i <;> simp [groups, queued, ih]

theorem groups_replies (t : Nat) (items : List Item) (acc : List Frame) :
    replyCount (groups t items acc) = aliveCount items := by
  induction items generalizing acc with
  | nil => cases acc <;> simp [groups, aliveCount, replyCount]
  | cons i is ih =>
    cases i with
    | fatal => simp [groups, aliveCount, replyCount]
    | drop => simpa [groups, aliveCount] using ih acc
    | alive =>
      have := ih []
      simp only [groups, aliveCount, replyCount, List.filter_cons] at this ⊢
      simp [this]
    | q f => simpa [groups, aliveCount] using ih (acc ++ [f])

theorem groups_time (t : Nat) (items : List Item) (acc : List Frame) : ∀ e ∈ groups t items acc, e.t = t := by
  induction items generalizing acc with
  | nil => cases acc <;> simp [groups]
  | cons i is ih =>
    cases i with
    | fatal => simp [groups]
    | drop => simpa [groups] using ih acc
    | alive =>
      intro e he
      simp only [groups, List.mem_cons] at he
      rcases he with rfl | he
      · rfl
      · exact ih [] e he
    | q f => simpa [groups] using ih (acc ++ [f])

theorem groups_died (t : Nat) (items : List Item) (acc : List Frame) :
    (groups t items acc).any (·.died) = items.any Item.isFatal := by
  induction items generalizing acc with
  | nil => cases acc <;> simp [groups]
  | cons i is ih =>
    cases i <;> simp [groups, Item.isFatal, ih]

/-- the items of a byte stream, as the reader task sees them starting from its buffered tail -/
def itemsOf (buf bytes : Bytes) : List Item := (parseAll doipCutter (buf ++ bytes)).1.map classify

theorem run_dead (r : Reader) (h : r.dead = true) (chunks : List (Nat × Bytes)) : r.run chunks = (r, []) := by
  induction chunks with
  | nil => rfl
  | cons x xs ih =>
    obtain ⟨t, ch⟩ := x
    simp [Reader.run, Reader.feed, h, ih]

theorem itemsOf_append (buf a b : Bytes) :
    itemsOf buf (a ++ b) = itemsOf buf a ++ itemsOf (parseAll doipCutter (buf ++ a)).2 b := by
  unfold itemsOf
  rw [← List.append_assoc, parseAll_append]
  simp

theorem feed_alive (r : Reader) (hr : r.dead = false) (t : Nat) (ch : Bytes) :
    r.feed t ch = (⟨(parseAll doipCutter (r.buf ++ ch)).2, (itemsOf r.buf ch).any Item.isFatal⟩,
                   groups t (itemsOf r.buf ch) []) := by
  simp [Reader.feed, hr, itemsOf]

/-- whatever the segmentation, the reader queues the frames of the concatenated stream, answers its alive
    checks, and dies iff the stream holds a frame it cannot unpack -/
theorem run_spec (r : Reader) (hr : r.dead = false) (hbuf : doipCutter.cut r.buf = none)
    (chunks : List (Nat × Bytes)) :
    allFrames (r.run chunks).2 = queued (itemsOf r.buf (chunks.map (·.2)).flatten) ∧
    replyCount (r.run chunks).2 = aliveCount (itemsOf r.buf (chunks.map (·.2)).flatten) ∧
    (r.run chunks).1.dead = (itemsOf r.buf (chunks.map (·.2)).flatten).any Item.isFatal ∧
    ((r.run chunks).1.dead = false →
      (r.run chunks).1.buf = (parseAll doipCutter (r.buf ++ (chunks.map (·.2)).flatten)).2) := by
  induction chunks generalizing r with
  | nil =>
    have h0 : itemsOf r.buf [] = [] := by simp [itemsOf, parseAll_none doipCutter hbuf]
    simp [Reader.run, h0, queued, aliveCount, replyCount, hr, parseAll_none doipCutter hbuf]
  | cons x xs ih =>
    obtain ⟨t, ch⟩ := x
    simp only [Reader.run, List.map_cons, List.flatten_cons]
    rw [feed_alive r hr, itemsOf_append]
    cases hf : (itemsOf r.buf ch).any Item.isFatal with
    | true =>
      simp only [run_dead ⟨_, true⟩ rfl, List.append_nil, groups_frames, groups_replies, List.nil_append,
        queued_append, aliveCount_append, hf, if_true, List.any_append, Bool.true_or, Nat.add_zero, true_and]
      intro h; cases h
    | false =>
      have hb := parseAll_leftover doipCutter (r.buf ++ ch)
      obtain ⟨i1, i2, i3, i4⟩ := ih ⟨(parseAll doipCutter (r.buf ++ ch)).2, false⟩ rfl hb
      simp only [allFrames_append, replyCount_append, groups_frames, groups_replies, List.nil_append,
        queued_append, aliveCount_append, hf, Bool.false_eq_true, if_false, List.any_append, Bool.false_or]
      refine ⟨by rw [i1], by rw [i2], i3, ?_⟩
      intro hd
      rw [i4 hd, ← List.append_assoc r.buf ch, parseAll_append doipCutter (r.buf ++ ch)]

end Gallia.Doip
