import Gallia.Model.DoipSys
import Gallia.Proofs.Lemmas.DoipFifo
/-
  Helper lemmas for C06 (DoIP, whole executions, `Model/DoipSys.lean`): unfolding of the schedule `settle`, what the
  pieces leave alone, and the four ways a blocked consumer can move (`Move`).
-/
namespace Gallia.DoipSys
open Gallia Gallia.Framing Gallia.Doip Gallia.DoipFifo

variable (c : Cfg) (yields : Raw → Bool)

/-! ### unfolding `settle` -/

theorem settle_closed (s : Sys) (h : s.closed = true) : settle c yields s = s := by
  rw [settle.eq_def]; simp [h]

theorem settle_none (s : Sys) (h : s.closed = false) (hc : cut s.buf = none) :
    settle c yields s = clientRun c s := by
  rw [settle.eq_def, if_neg (by simp [h])]; split
  · rfl
  · rename_i raw rest h'; rw [hc] at h'; cases h'

theorem settle_some (s : Sys) (h : s.closed = false) {raw : Raw} {rest : Bytes}
    (hc : cut s.buf = some (raw, rest)) :
    settle c yields s =
      if (deliver c { s with buf := rest } raw).closed then clientRun c (deliver c { s with buf := rest } raw)
      else if yields raw then settle c yields (clientRun c (deliver c { s with buf := rest } raw))
      else settle c yields (deliver c { s with buf := rest } raw) := by
  rw [settle.eq_def, if_neg (by simp [h])]; split
  · rename_i h'; rw [hc] at h'; cases h'
  · rename_i raw' rest' h'; rw [hc] at h'; cases h'; rfl

/-! ### the reader task's step -/

@[simp] theorem deliver_client (s : Sys) (raw : Raw) : (deliver c s raw).client = s.client := by
  unfold deliver; split <;> rfl
@[simp] theorem deliver_done (s : Sys) (raw : Raw) : (deliver c s raw).done = s.done := by
  unfold deliver; split <;> rfl
@[simp] theorem deliver_now (s : Sys) (raw : Raw) : (deliver c s raw).now = s.now := by
  unfold deliver; split <;> rfl
@[simp] theorem deliver_buf' (s : Sys) (raw : Raw) : (deliver c s raw).buf = s.buf := deliver_buf c s raw

/-- the frame an item puts on the queue -/
def _root_.Gallia.Doip.Item.toQ : Item → List Frame
  | .q f => [f]
  | _ => []

theorem deliver_queue (s : Sys) (raw : Raw) : (deliver c s raw).queue = s.queue ++ (classify raw).toQ := by
  unfold deliver; split <;> simp_all [Item.toQ]

theorem deliver_closed (s : Sys) (raw : Raw) : (deliver c s raw).closed = (s.closed || (classify raw).isFatal) := by
  unfold deliver; split <;> simp_all [Item.isFatal]

theorem deliver_out (s : Sys) (raw : Raw) :
    (deliver c s raw).out = s.out ++ (if classify raw = .alive then [(s.now, aliveResp c)] else []) := by
  unfold deliver; split <;> simp_all

theorem deliver_tr (s : Sys) (raw : Raw) :
    (deliver c s raw).tr = s.tr ++ .rx (classify raw) :: (if classify raw = .alive then [.reply] else []) := by
  unfold deliver; split <;> simp_all

/-! ### the blocked consumer -/

/-- frames the blocked consumer has taken off the queue and holds in its local list -/
def held : Client → List Frame
  | .idle => []
  | .waiting _ sk _ _ => sk

/-- everything received and not yet consumed, in arrival order -/
def avail (s : Sys) : List Frame := held s.client ++ s.queue

/-- a blocked consumer holds no frame it would have accepted -/
def WF (s : Sys) : Prop := ∀ w sk p cl, s.client = .waiting w sk p cl → ∀ y ∈ sk, w.pred c y = false

theorem WF_idle (s : Sys) (h : s.client = .idle) : WF c s := by
  intro w sk p cl h2; rw [h] at h2; cases h2

theorem clientRun_idle (s : Sys) (h : s.client = .idle) : clientRun c s = s := by
  unfold clientRun; rw [h]

theorem clientRun_open {s : Sys} {w : Want} {sk : List Frame} {p cl : Option Nat}
    (hcl : s.client = .waiting w sk p cl) (ho : s.closed = false) :
    clientRun c s = scanOpen c w sk p cl s := by
  unfold clientRun; rw [hcl]; simp [ho]

theorem clientRun_closed_nil {s : Sys} {w : Want} {sk : List Frame} {p cl : Option Nat}
    (hcl : s.client = .waiting w sk p cl) (hc : s.closed = true) (hq : s.queue = []) :
    clientRun c s = { s with queue := sk }.finish w .conn := by
  unfold clientRun
  split
  · rename_i h; rw [hcl] at h; cases h
  · rename_i w' sk' p' cl' h
    rw [hcl] at h; cases h
    simp [hc, hq]

theorem clientRun_closed_cons {s : Sys} {w : Want} {sk : List Frame} {p cl : Option Nat} {f : Frame} {q : List Frame}
    (hcl : s.client = .waiting w sk p cl) (hc : s.closed = true) (hq : s.queue = f :: q) :
    clientRun c s =
      if w.pred c f then { s with queue := sk ++ q }.finish w (w.result f)
      else { s with queue := sk ++ f :: q }.finish w .conn := by
  unfold clientRun
  split
  · rename_i h; rw [hcl] at h; cases h
  · rename_i w' sk' p' cl' h
    rw [hcl] at h; cases h
    simp [hc, hq, requeueFront]

theorem scanOpen_some {s : Sys} {w : Want} {sk pre post : List Frame} {f : Frame} {p cl : Option Nat}
    (hs : findSplit (w.pred c) s.queue = some (pre, f, post)) :
    scanOpen c w sk p cl s = { s with queue := sk ++ pre ++ post }.finish w (w.result f) := by
  unfold scanOpen; rw [hs]; rfl

theorem scanOpen_none {s : Sys} {w : Want} {sk : List Frame} {p cl : Option Nat}
    (hs : findSplit (w.pred c) s.queue = none) :
    scanOpen c w sk p cl s = { s with queue := [], client := .waiting w (sk ++ s.queue) p cl } := by
  unfold scanOpen; rw [hs]

/-- the ways a pending call can move: keep waiting with everything queued taken into its local list; accept the
    first frame that passes its test and put everything else back in arrival order; or give up (timer, connection
    closed) and put everything back -/
inductive Move (s s' : Sys) : Prop
  | hold (w : Want) (sk : List Frame) (p cl : Option Nat) (hcl : s.client = .waiting w sk p cl)
      (ho : s.closed = false) (hq : ∀ y ∈ s.queue, w.pred c y = false)
      (e : s' = { s with queue := [], client := .waiting w (sk ++ s.queue) p cl })
  | take (w : Want) (sk : List Frame) (p cl : Option Nat) (pre : List Frame) (f : Frame) (post : List Frame)
      (hcl : s.client = .waiting w sk p cl) (hq : s.queue = pre ++ f :: post)
      (hpre : ∀ y ∈ pre, w.pred c y = false) (hf : w.pred c f = true)
      (e : s' = { s with queue := sk ++ pre ++ post }.finish w (w.result f))
  | fail (w : Want) (sk : List Frame) (p cl : Option Nat) (r : OpRes) (t : Nat) (cls : Bool)
      (hcl : s.client = .waiting w sk p cl) (hr : r = .conn ∨ r = .timeout) (hcls : s.closed = true → cls = true)
      (e : s' = { s with now := t, queue := sk ++ s.queue, closed := cls }.finish w r)

theorem clientRun_move (s : Sys) (w : Want) (sk : List Frame) (p cl : Option Nat)
    (hcl : s.client = .waiting w sk p cl) : Move c s (clientRun c s) := by
  cases ho : s.closed with
  | false =>
    rw [clientRun_open c hcl ho]
    cases hs : findSplit (w.pred c) s.queue with
    | none =>
      rw [scanOpen_none c hs]
      exact .hold w sk p cl hcl ho ((findSplit_none_iff _ _).mp hs) rfl
    | some r =>
      obtain ⟨pre, f, post⟩ := r
      obtain ⟨e1, e2, e3⟩ := findSplit_sound _ hs
      rw [scanOpen_some c hs]
      exact .take w sk p cl pre f post hcl e1 e3 e2 rfl
  | true =>
    cases hq : s.queue with
    | nil =>
      rw [clientRun_closed_nil c hcl ho hq]
      refine .fail w sk p cl .conn s.now true hcl (Or.inl rfl) (fun _ => rfl) ?_
      simp [hq, ← ho]
    | cons f q =>
      rw [clientRun_closed_cons c hcl ho hq]
      by_cases hf : w.pred c f = true
      · rw [if_pos hf]
        exact .take w sk p cl [] f q hcl (by simp [hq]) (by simp) hf (by simp)
      · rw [if_neg hf]
        refine .fail w sk p cl .conn s.now true hcl (Or.inl rfl) (fun _ => rfl) ?_
        simp [hq, ← ho]

theorem fire_move (s : Sys) (target : Nat) : fire s target = s ∨ Move c s (fire s target) := by
  unfold fire
  cases hcl : s.client with
  | idle => exact Or.inl rfl
  | waiting w sk p cl =>
    simp only
    cases he : expiry p cl with
    | none => exact Or.inl rfl
    | some r =>
      obtain ⟨d, byC⟩ := r
      simp only
      split
      · refine Or.inr (.fail w sk p cl (if byC then .timeout else .conn) d (s.closed || !byC) hcl ?_ ?_ ?_)
        · cases byC <;> simp
        · intro h; simp [h]
        · simp [requeueFront, Sys.finish]
      · exact Or.inl rfl

/-! ### what a move leaves alone -/

theorem Move.buf {s s' : Sys} (h : Move c s s') : s'.buf = s.buf := by
  cases h with
  | hold _ _ _ _ _ _ _ e => rw [e]
  | take _ _ _ _ _ _ _ _ _ _ _ e => rw [e]; rfl
  | fail _ _ _ _ _ _ _ _ _ _ e => rw [e]; rfl

theorem Move.out {s s' : Sys} (h : Move c s s') : s'.out = s.out := by
  cases h with
  | hold _ _ _ _ _ _ _ e => rw [e]
  | take _ _ _ _ _ _ _ _ _ _ _ e => rw [e]; rfl
  | fail _ _ _ _ _ _ _ _ _ _ e => rw [e]; rfl

theorem Move.tr {s s' : Sys} (h : Move c s s') : s'.tr = s.tr := by
  cases h with
  | hold _ _ _ _ _ _ _ e => rw [e]
  | take _ _ _ _ _ _ _ _ _ _ _ e => rw [e]; rfl
  | fail _ _ _ _ _ _ _ _ _ _ e => rw [e]; rfl

theorem Move.WF {s s' : Sys} (h : Move c s s') (hwf : WF c s) : WF c s' := by
  cases h with
  | hold w sk p cl hcl _ hq e =>
    intro w2 sk2 p2 cl2 h2
    rw [e] at h2
    simp only [Client.waiting.injEq] at h2
    obtain ⟨rfl, rfl, _, _⟩ := h2
    intro y hy
    rcases List.mem_append.mp hy with hy | hy
    · exact hwf _ _ _ _ hcl y hy
    · exact hq y hy
  | take _ _ _ _ _ _ _ _ _ _ _ e => rw [e]; exact WF_idle c _ rfl
  | fail _ _ _ _ _ _ _ _ _ _ e => rw [e]; exact WF_idle c _ rfl

@[simp] theorem clientRun_buf' (s : Sys) : (clientRun c s).buf = s.buf := clientRun_buf c s

theorem clientRun_out (s : Sys) : (clientRun c s).out = s.out := by
  cases hcl : s.client with
  | idle => rw [clientRun_idle c s hcl]
  | waiting w sk p cl => exact (clientRun_move c s w sk p cl hcl).out

theorem clientRun_tr (s : Sys) : (clientRun c s).tr = s.tr := by
  cases hcl : s.client with
  | idle => rw [clientRun_idle c s hcl]
  | waiting w sk p cl => exact (clientRun_move c s w sk p cl hcl).tr

theorem clientRun_WF (s : Sys) (hwf : WF c s) : WF c (clientRun c s) := by
  cases hcl : s.client with
  | idle => rw [clientRun_idle c s hcl]; exact hwf
  | waiting w sk p cl => exact (clientRun_move c s w sk p cl hcl).WF c hwf

theorem clientRun_closed (s : Sys) : (clientRun c s).closed = s.closed := by
  cases hcl : s.client with
  | idle => rw [clientRun_idle c s hcl]
  | waiting w sk p cl =>
    cases ho : s.closed with
    | false =>
      rw [clientRun_open c hcl ho]
      cases hs : findSplit (w.pred c) s.queue with
      | none => rw [scanOpen_none c hs]; exact ho
      | some r => obtain ⟨pre, f, post⟩ := r; rw [scanOpen_some c hs]; exact ho
    | true =>
      cases hq : s.queue with
      | nil => rw [clientRun_closed_nil c hcl ho hq]; exact ho
      | cons f q => rw [clientRun_closed_cons c hcl ho hq]; split <;> exact ho

theorem clientRun_now (s : Sys) : (clientRun c s).now = s.now := by
  cases hcl : s.client with
  | idle => rw [clientRun_idle c s hcl]
  | waiting w sk p cl =>
    cases ho : s.closed with
    | false =>
      rw [clientRun_open c hcl ho]
      cases hs : findSplit (w.pred c) s.queue with
      | none => rw [scanOpen_none c hs]
      | some r => obtain ⟨pre, f, post⟩ := r; rw [scanOpen_some c hs]; rfl
    | true =>
      cases hq : s.queue with
      | nil => rw [clientRun_closed_nil c hcl ho hq]; rfl
      | cons f q => rw [clientRun_closed_cons c hcl ho hq]; split <;> rfl

end Gallia.DoipSys
