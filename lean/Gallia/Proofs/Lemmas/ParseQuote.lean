import Gallia.Model.ParseQuote
/-! C20 helper lemmas: UTF-8 and percent-encoding round trips -/
namespace Gallia.Parse

/-! ### UTF-8: decoding the encoding of a character gives the character back -/

theorem char_range (c : Char) : c.toNat < 0xD800 ∨ (0xDFFF < c.toNat ∧ c.toNat < 0x110000) := by
  have h := c.valid
  have e : c.toNat = c.val.toNat := rfl
  rw [e]
  exact h

theorem ofNat_toNat_u8 {n : Nat} (h : n < 256) : (UInt8.ofNat n).toNat = n := by
  simp [Nat.mod_eq_of_lt h]

theorem utf8Dec_utf8 (c : Char) (rest : List UInt8) : utf8Dec (utf8 c ++ rest) = c :: utf8Dec rest := by
  have hr := char_range c
  have hc : Char.ofNat c.toNat = c := Char.ofNat_toNat c
  unfold utf8
  simp only
  by_cases h1 : c.toNat < 0x80
  · simp only [h1, if_true, List.cons_append, List.nil_append]
    conv => lhs; rw [utf8Dec.eq_def]
    simp only [ofNat_toNat_u8 (show c.toNat < 256 by omega), h1, if_true, hc]
  · simp only [h1, if_false]
    by_cases h2 : c.toNat < 0x800
    · simp only [h2, if_true, List.cons_append, List.nil_append]
      have e0 : (UInt8.ofNat (0xC0 + c.toNat / 64)).toNat = 0xC0 + c.toNat / 64 := ofNat_toNat_u8 (by omega)
      have e1 : (UInt8.ofNat (0x80 + c.toNat % 64)).toNat = 0x80 + c.toNat % 64 := ofNat_toNat_u8 (by omega)
      conv => lhs; rw [utf8Dec.eq_def]
      simp only [e0]
      rw [if_neg (by omega), if_neg (by omega), if_pos (by omega)]
      simp only [isCont, e1]
      rw [if_pos (by simp; omega)]
      have hv : (0xC0 + c.toNat / 64 - 0xC0) * 64 + (0x80 + c.toNat % 64 - 0x80) = c.toNat := by omega
      rw [hv, hc]
    · simp only [h2, if_false]
      by_cases h3 : c.toNat < 0x10000
      · simp only [h3, if_true, List.cons_append, List.nil_append]
        have e0 : (UInt8.ofNat (0xE0 + c.toNat / 4096)).toNat = 0xE0 + c.toNat / 4096 := ofNat_toNat_u8 (by omega)
        have e1 : (UInt8.ofNat (0x80 + c.toNat / 64 % 64)).toNat = 0x80 + c.toNat / 64 % 64 := ofNat_toNat_u8 (by omega)
        have e2 : (UInt8.ofNat (0x80 + c.toNat % 64)).toNat = 0x80 + c.toNat % 64 := ofNat_toNat_u8 (by omega)
        conv => lhs; rw [utf8Dec.eq_def]
        simp only [e0]
        rw [if_neg (by omega), if_neg (by omega), if_neg (by omega), if_pos (by omega)]
        have hs : second3 (UInt8.ofNat (0xE0 + c.toNat / 4096)) (UInt8.ofNat (0x80 + c.toNat / 64 % 64)) = true := by
          unfold second3 isCont
          simp only [e0, e1]
          split
          · simp; omega
          · split
            · simp; omega
            · simp; omega
        simp only [hs, if_true, isCont, e2, e1]
        rw [if_pos (by simp; omega)]
        have hv : (0xE0 + c.toNat / 4096 - 0xE0) * 4096 + (0x80 + c.toNat / 64 % 64 - 0x80) * 64 + (0x80 + c.toNat % 64 - 0x80)
            = c.toNat := by omega
        rw [hv, hc]
      · simp only [h3, if_false, List.cons_append, List.nil_append]
        have e0 : (UInt8.ofNat (0xF0 + c.toNat / 262144)).toNat = 0xF0 + c.toNat / 262144 := ofNat_toNat_u8 (by omega)
        have e1 : (UInt8.ofNat (0x80 + c.toNat / 4096 % 64)).toNat = 0x80 + c.toNat / 4096 % 64 := ofNat_toNat_u8 (by omega)
        have e2 : (UInt8.ofNat (0x80 + c.toNat / 64 % 64)).toNat = 0x80 + c.toNat / 64 % 64 := ofNat_toNat_u8 (by omega)
        have e3 : (UInt8.ofNat (0x80 + c.toNat % 64)).toNat = 0x80 + c.toNat % 64 := ofNat_toNat_u8 (by omega)
        conv => lhs; rw [utf8Dec.eq_def]
        simp only [e0]
        rw [if_neg (by omega), if_neg (by omega), if_neg (by omega), if_neg (by omega), if_pos (by omega)]
        have hs : second4 (UInt8.ofNat (0xF0 + c.toNat / 262144)) (UInt8.ofNat (0x80 + c.toNat / 4096 % 64)) = true := by
          unfold second4 isCont
          simp only [e0, e1]
          split
          · simp; omega
          · split
            · simp; omega
            · simp; omega
        simp only [hs, if_true, isCont, e1, e2, e3]
        rw [if_pos (by simp; omega), if_pos (by simp; omega)]
        have hv : (0xF0 + c.toNat / 262144 - 0xF0) * 262144 + (0x80 + c.toNat / 4096 % 64 - 0x80) * 4096 +
            (0x80 + c.toNat / 64 % 64 - 0x80) * 64 + (0x80 + c.toNat % 64 - 0x80) = c.toNat := by omega
        rw [hv, hc]

/-- `s.encode('utf-8').decode('utf-8', 'replace') == s` -/
theorem utf8Dec_utf8Str (s : Str) : utf8Dec (utf8Str s) = s := by
  induction s with
  | nil => simp [utf8Str, utf8Dec]
  | cons c t ih =>
    have : utf8Str (c :: t) = utf8 c ++ utf8Str t := by simp [utf8Str]
    rw [this, utf8Dec_utf8, ih]

/-! ### percent-encoding -/

theorem unquoteB_cons {c : Char} (h : c ≠ '%') (r : Str) : unquoteB (c :: r) = utf8 c ++ unquoteB r := by
  rw [unquoteB.eq_def]; simp [h]

theorem unquoteB_pct {x y : Char} {hi lo : Nat} (hx : hexVal x = some hi) (hy : hexVal y = some lo) (r : Str) :
    unquoteB ('%' :: x :: y :: r) = UInt8.ofNat (hi * 16 + lo) :: unquoteB r := by
  rw [unquoteB.eq_def]; simp [hx, hy]

/-- one byte as `quote_plus` writes it -/
def tokPlus (b : UInt8) : Str := if b.toNat = 32 then ['+'] else if isSafeByte b then [Char.ofNat b.toNat] else pctOf b

/-- one byte as `quote` writes it -/
def tokQ (b : UInt8) : Str := if isSafeByte b then [Char.ofNat b.toNat] else pctOf b

theorem quotePlusB_cons (b : UInt8) (bs : List UInt8) : quotePlusB (b :: bs) = tokPlus b ++ quotePlusB bs := rfl
theorem quoteB_cons (b : UInt8) (bs : List UInt8) : quoteB (b :: bs) = tokQ b ++ quoteB bs := rfl

theorem hexVal_hexUp : ∀ n, n < 16 → hexVal (hexUp n) = some n := by decide

/-- the shapes a token can have -/
theorem tokQ_shape0 : ∀ n, n < 256 →
    (tokQ (UInt8.ofNat n) = [Char.ofNat n] ∧ Char.ofNat n ≠ '%' ∧ Char.ofNat n ≠ '+' ∧ utf8 (Char.ofNat n) = [UInt8.ofNat n]) ∨
    tokQ (UInt8.ofNat n) = pctOf (UInt8.ofNat n) := by decide +kernel

theorem tokQ_shape (n : Nat) (h : n < 256) :
    (∃ c, tokQ (UInt8.ofNat n) = [c] ∧ c ≠ '%' ∧ c ≠ '+' ∧ utf8 c = [UInt8.ofNat n]) ∨
    tokQ (UInt8.ofNat n) = pctOf (UInt8.ofNat n) := by
  rcases tokQ_shape0 n h with h | h
  · exact Or.inl ⟨_, h⟩
  · exact Or.inr h

theorem tokPlus_shape0 : ∀ n, n < 256 →
    (n = 32 ∧ tokPlus (UInt8.ofNat n) = ['+']) ∨
    (tokPlus (UInt8.ofNat n) = [Char.ofNat n] ∧ Char.ofNat n ≠ '%' ∧ Char.ofNat n ≠ '+' ∧ utf8 (Char.ofNat n) = [UInt8.ofNat n]) ∨
    tokPlus (UInt8.ofNat n) = pctOf (UInt8.ofNat n) := by decide +kernel

theorem tokPlus_shape (n : Nat) (h : n < 256) :
    (n = 32 ∧ tokPlus (UInt8.ofNat n) = ['+']) ∨
    (∃ c, tokPlus (UInt8.ofNat n) = [c] ∧ c ≠ '%' ∧ c ≠ '+' ∧ utf8 c = [UInt8.ofNat n]) ∨
    tokPlus (UInt8.ofNat n) = pctOf (UInt8.ofNat n) := by
  rcases tokPlus_shape0 n h with h | h | h
  · exact Or.inl h
  · exact Or.inr (Or.inl ⟨_, h⟩)
  · exact Or.inr (Or.inr h)

theorem u8_eq (b : UInt8) : UInt8.ofNat b.toNat = b := UInt8.ofNat_toNat

theorem unquoteB_pctOf (b : UInt8) (r : Str) : unquoteB (pctOf b ++ r) = b :: unquoteB r := by
  have hb := b.toNat_lt
  unfold pctOf
  simp only [List.cons_append, List.nil_append]
  rw [unquoteB_pct (hexVal_hexUp _ (by omega)) (hexVal_hexUp _ (by omega))]
  have : b.toNat / 16 * 16 + b.toNat % 16 = b.toNat := by omega
  rw [this, u8_eq]

/-- `unquote_to_bytes(quote_from_bytes(bs, safe='')) == bs` for every byte string -/
theorem unquoteB_quoteB (bs : List UInt8) : unquoteB (quoteB bs) = bs := by
  induction bs with
  | nil => rw [quoteB, unquoteB]
  | cons b t ih =>
    rw [quoteB_cons]
    have hs := tokQ_shape b.toNat b.toNat_lt
    rw [u8_eq] at hs
    rcases hs with ⟨c, hc, h1, _, h3⟩ | hp
    · rw [hc]; simp only [List.cons_append, List.nil_append]
      rw [unquoteB_cons h1, h3, ih]; rfl
    · rw [hp, unquoteB_pctOf, ih]

theorem plusToSpace_append (a b : Str) : plusToSpace (a ++ b) = plusToSpace a ++ plusToSpace b := by
  simp [plusToSpace]

theorem hexUp_ne_plus : ∀ n, n < 16 → hexUp n ≠ '+' := by decide

theorem plusToSpace_pctOf (b : UInt8) : plusToSpace (pctOf b) = pctOf b := by
  have hb := b.toNat_lt
  have h1 := hexUp_ne_plus (b.toNat / 16) (by omega)
  have h2 := hexUp_ne_plus (b.toNat % 16) (by omega)
  simp [plusToSpace, pctOf, h1, h2]

theorem utf8_space : utf8 ' ' = [32] := by decide

/-- `unquote_to_bytes(quote_plus(bs).replace('+', ' ')) == bs` for every byte string -/
theorem unquoteB_quotePlusB (bs : List UInt8) : unquoteB (plusToSpace (quotePlusB bs)) = bs := by
  induction bs with
  | nil => rw [quotePlusB]; simp [plusToSpace, unquoteB]
  | cons b t ih =>
    rw [quotePlusB_cons, plusToSpace_append]
    have hs := tokPlus_shape b.toNat b.toNat_lt
    rw [u8_eq] at hs
    rcases hs with ⟨h32, hp⟩ | ⟨c, hc, h1, h2, h3⟩ | hp
    · rw [hp]
      have : plusToSpace ['+'] = [' '] := by decide
      rw [this]; simp only [List.cons_append, List.nil_append]
      rw [unquoteB_cons (by decide), utf8_space, ih]
      have : b = 32 := by rw [← u8_eq b, h32]; rfl
      rw [this]; rfl
    · rw [hc]
      have : plusToSpace [c] = [c] := by simp [plusToSpace, h2]
      rw [this]; simp only [List.cons_append, List.nil_append]
      rw [unquoteB_cons h1, h3, ih]; rfl
    · rw [hp, plusToSpace_pctOf, unquoteB_pctOf, ih]

/-- characters `quote_plus` can produce: the always-safe ones, `%`, `+` -/
def qpChar (c : Char) : Bool :=
  let n := c.toNat
  (48 ≤ n && n ≤ 57) || (65 ≤ n && n ≤ 90) || (97 ≤ n && n ≤ 122) || n == 45 || n == 46 || n == 95 || n == 126 ||
    n == 37 || n == 43

theorem tokPlus_chars : ∀ n, n < 256 → ∀ c ∈ tokPlus (UInt8.ofNat n), qpChar c = true := by decide +kernel

theorem quotePlusB_chars (bs : List UInt8) : ∀ c ∈ quotePlusB bs, qpChar c = true := by
  induction bs with
  | nil => intro c hc; simp [quotePlusB] at hc
  | cons b t ih =>
    intro c hc
    rw [quotePlusB_cons, List.mem_append] at hc
    rcases hc with hc | hc
    · have := tokPlus_chars b.toNat b.toNat_lt c
      rw [u8_eq] at this
      exact this hc
    · exact ih c hc

theorem quotePlus_chars (s : Str) : ∀ c ∈ quotePlus s, qpChar c = true := quotePlusB_chars _

theorem qpChar_ascii {c : Char} (h : qpChar c = true) : isAsciiCh c = true := by
  simp only [qpChar, Bool.or_eq_true, Bool.and_eq_true, decide_eq_true_eq, beq_iff_eq] at h
  simp only [isAsciiCh, decide_eq_true_eq]
  omega

theorem qpChar_excl : ∀ x ∈ ['&', '=', '#', '?', '/', ' ', ':', '[', ']', '@'], qpChar x = false := by decide

theorem qpChar_not {c : Char} (h : qpChar c = true) {x : Char} (hx : x ∈ ['&', '=', '#', '?', '/', ' ', ':', '[', ']', '@']) :
    c ≠ x := by
  intro e; subst e; have := qpChar_excl c hx; simp_all

theorem plusToSpace_ascii (s : Str) (h : ∀ c ∈ s, isAsciiCh c = true) : ∀ c ∈ plusToSpace s, isAsciiCh c = true := by
  intro c hc
  simp only [plusToSpace, List.mem_map] at hc
  obtain ⟨x, hx, rfl⟩ := hc
  split
  · decide
  · exact h x hx

theorem flushRun_eq (pend : Str) : flushRun pend = utf8Dec (unquoteB pend.reverse) := by
  unfold flushRun
  split
  · rename_i h; subst h; simp [unquoteB, utf8Dec]
  · rfl

theorem unquoteGo_ascii (q pend : Str) (h : ∀ c ∈ q, isAsciiCh c = true) :
    unquoteGo pend q = utf8Dec (unquoteB (pend.reverse ++ q)) := by
  induction q generalizing pend with
  | nil => simp [unquoteGo, flushRun_eq]
  | cons a t ih =>
    have ha := h a (by simp)
    simp only [unquoteGo, ha, if_true]
    rw [ih (a :: pend) (fun c hc => h c (by simp [hc]))]
    simp

/-- `unquote(text)` of an all-ASCII text: percent-decode, then decode the bytes -/
theorem unquote_ascii (q : Str) (h : ∀ c ∈ q, isAsciiCh c = true) : unquote q = utf8Dec (unquoteB q) := by
  unfold unquote
  rw [unquoteGo_ascii q [] h]; simp

/-- `unquote_plus(quote_plus(s)) == s` for every text -/
theorem unquotePlus_quotePlus (s : Str) : unquotePlus (quotePlus s) = s := by
  unfold unquotePlus
  rw [unquote_ascii _ (plusToSpace_ascii _ (fun c hc => qpChar_ascii (quotePlus_chars s c hc)))]
  unfold quotePlus
  rw [unquoteB_quotePlusB, utf8Dec_utf8Str]

theorem utf8_ne_nil (c : Char) : utf8 c ≠ [] := by
  unfold utf8; simp only; split
  · simp
  · split
    · simp
    · split <;> simp

theorem tokPlus_ne_nil : ∀ n, n < 256 → tokPlus (UInt8.ofNat n) ≠ [] := by decide +kernel

/-- a non-empty text has a non-empty quoted form -/
theorem quotePlus_ne_nil {s : Str} (h : s ≠ []) : quotePlus s ≠ [] := by
  cases s with
  | nil => exact absurd rfl h
  | cons c t =>
    unfold quotePlus
    have : utf8Str (c :: t) = utf8 c ++ utf8Str t := by simp [utf8Str]
    rw [this]
    cases hu : utf8 c with
    | nil => exact absurd hu (utf8_ne_nil c)
    | cons b bs =>
      simp only [List.cons_append, quotePlusB_cons]
      have := tokPlus_ne_nil b.toNat b.toNat_lt
      rw [u8_eq] at this
      simp [this]

end Gallia.Parse
