import Gallia.Model.SessionScan
/-
  Helper lemmas for C09 (session scan): what each building block of `scan` does to the ECU session, to the
  request log and to the scanner's bookkeeping.
-/
namespace Gallia.SessionScan

/-- the scanner-side bookkeeping is untouched -/
def SameRes (a b : St) : Prop :=
  b.found = a.found ∧ b.pos = a.pos ∧ b.neg = a.neg ∧ b.searched = a.searched ∧ b.aborted = a.aborted

theorem SameRes.rfl' {a : St} : SameRes a a := ⟨rfl, rfl, rfl, rfl, rfl⟩

theorem SameRes.trans {a b c : St} (h1 : SameRes a b) (h2 : SameRes b c) : SameRes a c := by
  obtain ⟨a1, a2, a3, a4, a5⟩ := h1
  obtain ⟨b1, b2, b3, b4, b5⟩ := h2
  exact ⟨b1.trans a1, b2.trans a2, b3.trans a3, b4.trans a4, b5.trans a5⟩

/-- `b`'s request log is `a`'s plus requests satisfying `Q` (and hook requests, about which nothing is claimed) -/
def ReqsGrow (Q : Req → Prop) (a b : St) : Prop := ∀ r ∈ b.reqs, r ∈ a.reqs ∨ Q r ∨ r.kind = .hook

theorem ReqsGrow.rfl' {Q} {a : St} : ReqsGrow Q a a := fun _ h => Or.inl h

theorem ReqsGrow.trans {Q} {a b c : St} (h1 : ReqsGrow Q a b) (h2 : ReqsGrow Q b c) : ReqsGrow Q a c := by
  intro r hr
  rcases h2 r hr with h | h
  · exact h1 r h
  · exact Or.inr h

theorem ReqsGrow.mono {Q Q' : Req → Prop} {a b : St} (h : ReqsGrow Q a b) (hq : ∀ r, Q r → Q' r) :
    ReqsGrow Q' a b := by
  intro r hr
  rcases h r hr with h | h | h
  · exact Or.inl h
  · exact Or.inr (Or.inl (hq r h))
  · exact Or.inr (Or.inr h)

/-! ### one exchange -/

theorem exchange_same (c : Cfg) (k tp t a) (st : St) : SameRes st (exchange c k tp t a st) :=
  ⟨rfl, rfl, rfl, rfl, rfl⟩

theorem exchange_cur (c : Cfg) (k tp t a) (st : St) : (exchange c k tp t a st).cur = st.cur := rfl

theorem exchange_reqs (c : Cfg) (k tp t a) (st : St) :
    ReqsGrow (fun r => r = ⟨k, t, st.cur, tp⟩) st (exchange c k tp t a st) := by
  intro r hr
  simp only [exchange, List.mem_append, List.mem_replicate] at hr
  rcases hr with ⟨_, h⟩ | h
  · exact Or.inr (Or.inl h)
  · exact Or.inl h

theorem hookReqs_same (tp : Nat) (codes : List Nat) (st : St) : SameRes st (hookReqs tp codes st) :=
  ⟨rfl, rfl, rfl, rfl, rfl⟩

theorem hookReqs_cur (tp : Nat) (codes : List Nat) (st : St) : (hookReqs tp codes st).cur = st.cur := rfl

theorem hookReqs_reqs (Q : Req → Prop) (tp : Nat) (codes : List Nat) (st : St) : ReqsGrow Q st (hookReqs tp codes st) := by
  intro r hr
  simp only [hookReqs, List.mem_append, List.mem_reverse, List.mem_map] at hr
  rcases hr with ⟨x, _, rfl⟩ | h
  · exact Or.inr (Or.inr rfl)
  · exact Or.inl h

/-! ### DiagnosticSessionControl -/

theorem dscOnce_ans (c : Cfg) (E : Ecu) (k tp s) (st : St) : (dscOnce c E k tp s st).2 = E.g st.cur s := by
  unfold dscOnce
  cases E.g st.cur s with
  | illegal sw => cases sw <;> rfl
  | _ => rfl

theorem dscOnce_cur (c : Cfg) (E : Ecu) (k tp s) (st : St) :
    (dscOnce c E k tp s st).1.cur = if (E.g st.cur s).moves = true then s else st.cur := by
  unfold dscOnce
  cases E.g st.cur s with
  | illegal sw => cases sw <;> simp [exchange, Ans.moves]
  | _ => simp [exchange, Ans.moves]

theorem dscOnce_same (c : Cfg) (E : Ecu) (k tp s) (st : St) : SameRes st (dscOnce c E k tp s st).1 := by
  unfold dscOnce
  cases E.g st.cur s with
  | illegal sw => cases sw <;> exact ⟨rfl, rfl, rfl, rfl, rfl⟩
  | _ => exact ⟨rfl, rfl, rfl, rfl, rfl⟩

theorem dscOnce_reqs (c : Cfg) (E : Ecu) (k tp s) (st : St) :
    ReqsGrow (fun r => r = ⟨k, s, st.cur, tp⟩) st (dscOnce c E k tp s st).1 := by
  unfold dscOnce
  cases E.g st.cur s with
  | illegal sw => cases sw <;> exact exchange_reqs c k tp s _ st
  | _ => exact exchange_reqs c k tp s _ st

theorem dscHooked_ans (c : Cfg) (E : Ecu) (k tp s) (st : St) :
    (dscHooked c E k tp s st).2 = hookedAns c E st.cur s := by
  unfold dscHooked
  cases hookedAns c E st.cur s with
  | illegal sw => cases sw <;> rfl
  | _ => rfl

theorem dscHooked_cur (c : Cfg) (E : Ecu) (k tp s) (st : St) :
    (dscHooked c E k tp s st).1.cur = if (hookedAns c E st.cur s).moves = true then s else st.cur := by
  unfold dscHooked
  cases hookedAns c E st.cur s with
  | illegal sw => cases sw <;> simp [exchange, hookReqs, Ans.moves]
  | _ => simp [exchange, hookReqs, Ans.moves]

theorem dscHooked_same (c : Cfg) (E : Ecu) (k tp s) (st : St) : SameRes st (dscHooked c E k tp s st).1 := by
  unfold dscHooked
  cases hookedAns c E st.cur s with
  | illegal sw => cases sw <;> exact ⟨rfl, rfl, rfl, rfl, rfl⟩
  | _ => exact ⟨rfl, rfl, rfl, rfl, rfl⟩

theorem dscHooked_reqs (c : Cfg) (E : Ecu) (k tp s) (st : St) :
    ReqsGrow (fun r => r = ⟨k, s, st.cur, tp⟩) st (dscHooked c E k tp s st).1 := by
  have h1 : ReqsGrow (fun r => r = ⟨k, s, st.cur, tp⟩) st
      (exchange c k tp s (hookedAns c E st.cur s) (hookReqs tp c.preHook st)) :=
    (hookReqs_reqs _ tp c.preHook st).trans (exchange_reqs c k tp s _ (hookReqs tp c.preHook st))
  unfold dscHooked
  cases hh : hookedAns c E st.cur s with
  | pos => rw [hh] at h1; exact h1.trans (hookReqs_reqs _ tp c.postHook _)
  | nrc n => rw [hh] at h1; exact h1
  | silent => rw [hh] at h1; exact h1
  | illegal sw => rw [hh] at h1; cases sw <;> exact h1

theorem dsc_eq (c : Cfg) (E : Ecu) (k tp s) (st : St) :
    dsc c E k tp s st =
      if (dscOnce c E k tp s st).2 = .nrc NRC_CNC ∧ c.hooks = true then
        (if (dscHooked c E k tp s (dscOnce c E k tp s st).1).2 = .pos then dscHooked c E k tp s (dscOnce c E k tp s st).1
         else if (dscHooked c E k tp s (dscOnce c E k tp s st).1).2 = .silent then dscHooked c E k tp s (dscOnce c E k tp s st).1
         else if (dscHooked c E k tp s (dscOnce c E k tp s st).1).2.refused = true then dscHooked c E k tp s (dscOnce c E k tp s st).1
         else ((dscHooked c E k tp s (dscOnce c E k tp s st).1).1, (dscOnce c E k tp s st).2))
      else dscOnce c E k tp s st := rfl

/-- no hook retry; or a hooked retry in the same session whose state and answer are described by `edge` -/
theorem dsc_cases (c : Cfg) (E : Ecu) (k tp s) (st : St) :
    (dsc c E k tp s st = dscOnce c E k tp s st ∧ edge c E st.cur s = E.g st.cur s) ∨
    (E.g st.cur s = .nrc NRC_CNC ∧ (dscOnce c E k tp s st).1.cur = st.cur ∧
      (dsc c E k tp s st).1 = (dscHooked c E k tp s (dscOnce c E k tp s st).1).1 ∧
      (dsc c E k tp s st).2 = edge c E st.cur s ∧
      (edge c E st.cur s = .pos ↔ hookedAns c E st.cur s = .pos) ∧
      (edge c E st.cur s).moves = (hookedAns c E st.cur s).moves) := by
  rw [dsc_eq]
  by_cases h : (dscOnce c E k tp s st).2 = .nrc NRC_CNC ∧ c.hooks = true
  · rw [if_pos h]
    right
    have ha : E.g st.cur s = .nrc NRC_CNC := by rw [← dscOnce_ans c E k tp s st]; exact h.1
    have hc : (dscOnce c E k tp s st).1.cur = st.cur := by rw [dscOnce_cur, ha]; simp [Ans.moves]
    have hh := dscHooked_ans c E k tp s (dscOnce c E k tp s st).1
    rw [hc] at hh
    refine ⟨ha, hc, ?_⟩
    have hcond : c.hooks = true ∧ E.g st.cur s = .nrc NRC_CNC := ⟨h.2, ha⟩
    cases hv : hookedAns c E st.cur s with
    | pos =>
      rw [hv] at hh
      have hedge : edge c E st.cur s = .pos := by unfold edge; rw [if_pos hcond, hv]
      rw [if_pos hh, hedge]
      exact ⟨rfl, hh, Iff.rfl, rfl⟩
    | silent =>
      rw [hv] at hh
      have hedge : edge c E st.cur s = .silent := by unfold edge; rw [if_pos hcond, hv]
      have hne : (dscHooked c E k tp s (dscOnce c E k tp s st).1).2 ≠ .pos := by rw [hh]; intro h'; cases h'
      rw [if_neg hne, if_pos hh, hedge]
      exact ⟨rfl, hh, ⟨fun h' => (by cases h'), fun h' => (by cases h')⟩, rfl⟩
    | illegal sw =>
      rw [hv] at hh
      have hedge : edge c E st.cur s = .illegal sw := by unfold edge; rw [if_pos hcond, hv]
      have hne : (dscHooked c E k tp s (dscOnce c E k tp s st).1).2 ≠ .pos := by rw [hh]; intro h'; cases h'
      have hne2 : (dscHooked c E k tp s (dscOnce c E k tp s st).1).2 ≠ .silent := by rw [hh]; intro h'; cases h'
      have hrf : (dscHooked c E k tp s (dscOnce c E k tp s st).1).2.refused = true := by rw [hh]; rfl
      rw [if_neg hne, if_neg hne2, if_pos hrf, hedge]
      exact ⟨rfl, hh, ⟨fun h' => (by cases h'), fun h' => (by cases h')⟩, rfl⟩
    | nrc n =>
      rw [hv] at hh
      have hedge : edge c E st.cur s = .nrc NRC_CNC := by unfold edge; rw [if_pos hcond, hv]
      have hne : (dscHooked c E k tp s (dscOnce c E k tp s st).1).2 ≠ .pos := by rw [hh]; intro h'; cases h'
      have hne2 : (dscHooked c E k tp s (dscOnce c E k tp s st).1).2 ≠ .silent := by rw [hh]; intro h'; cases h'
      have hrf : ¬ (dscHooked c E k tp s (dscOnce c E k tp s st).1).2.refused = true := by rw [hh]; simp [Ans.refused]
      rw [if_neg hne, if_neg hne2, if_neg hrf, hedge]
      exact ⟨rfl, h.1, ⟨fun h' => (by cases h'), fun h' => (by cases h')⟩, rfl⟩
  · rw [if_neg h]
    left
    refine ⟨rfl, ?_⟩
    rw [dscOnce_ans] at h
    unfold edge
    split
    · rename_i h'; exact absurd ⟨h'.2, h'.1⟩ h
    · rfl

theorem dsc_ans (c : Cfg) (E : Ecu) (k tp s) (st : St) : (dsc c E k tp s st).2 = edge c E st.cur s := by
  rcases dsc_cases c E k tp s st with ⟨h, he⟩ | ⟨_, _, _, h, _, _⟩
  · rw [h, he]; exact dscOnce_ans c E k tp s st
  · exact h

theorem dsc_cur (c : Cfg) (E : Ecu) (k tp s) (st : St) :
    (dsc c E k tp s st).1.cur = if (edge c E st.cur s).moves = true then s else st.cur := by
  rcases dsc_cases c E k tp s st with ⟨h, he⟩ | ⟨_, hc, h1, _, _, hm⟩
  · rw [h, he]; exact dscOnce_cur c E k tp s st
  · rw [h1, dscHooked_cur, hc, hm]

theorem dsc_same (c : Cfg) (E : Ecu) (k tp s) (st : St) : SameRes st (dsc c E k tp s st).1 := by
  rcases dsc_cases c E k tp s st with ⟨h, _⟩ | ⟨_, _, h1, _, _, _⟩
  · rw [h]; exact dscOnce_same c E k tp s st
  · rw [h1]; exact (dscOnce_same c E k tp s st).trans (dscHooked_same c E k tp s _)

theorem dsc_reqs (c : Cfg) (E : Ecu) (k tp s) (st : St) :
    ReqsGrow (fun r => r = ⟨k, s, st.cur, tp⟩) st (dsc c E k tp s st).1 := by
  rcases dsc_cases c E k tp s st with ⟨h, _⟩ | ⟨_, hc, h1, _, _, _⟩
  · rw [h]; exact dscOnce_reqs c E k tp s st
  · rw [h1]
    have h2 := dscHooked_reqs c E k tp s (dscOnce c E k tp s st).1
    rw [hc] at h2
    exact (dscOnce_reqs c E k tp s st).trans h2

/-! ### stack recovery -/

theorem recover_cons (c : Cfg) (E : Ecu) (tp s) (rest : List Sess) (st : St) :
    recoverStack c E tp (s :: rest) st =
      if (dsc c E .recover tp s st).2 = .pos then recoverStack c E tp rest (dsc c E .recover tp s st).1
      else ((dsc c E .recover tp s st).1, false) := rfl

theorem recover_same (c : Cfg) (E : Ecu) (tp) (σ : List Sess) (st : St) :
    SameRes st (recoverStack c E tp σ st).1 := by
  induction σ generalizing st with
  | nil => exact SameRes.rfl'
  | cons s rest ih =>
    rw [recover_cons]
    by_cases hp : (dsc c E .recover tp s st).2 = .pos
    · rw [if_pos hp]; exact (dsc_same c E .recover tp s st).trans (ih _)
    · rw [if_neg hp]; exact dsc_same c E .recover tp s st

theorem recover_reqs (c : Cfg) (E : Ecu) (tp) (σ : List Sess) (st : St) :
    ReqsGrow (fun r => r.kind = .recover ∧ r.target ∈ σ ∧ r.top = tp) st (recoverStack c E tp σ st).1 := by
  induction σ generalizing st with
  | nil => exact ReqsGrow.rfl'
  | cons s rest ih =>
    have h1 : ReqsGrow (fun r => r.kind = .recover ∧ r.target ∈ s :: rest ∧ r.top = tp) st
        (dsc c E .recover tp s st).1 :=
      (dsc_reqs c E .recover tp s st).mono (by intro r hr; subst hr; simp)
    rw [recover_cons]
    by_cases hp : (dsc c E .recover tp s st).2 = .pos
    · rw [if_pos hp]
      exact h1.trans ((ih _).mono (by intro r ⟨a, b, d⟩; exact ⟨a, List.mem_cons_of_mem _ b, d⟩))
    · rw [if_neg hp]; exact h1

/-- a successful recovery leaves the ECU in the last session of the stack -/
theorem recover_cur (c : Cfg) (E : Ecu) (tp) (σ : List Sess) (st : St)
    (h : (recoverStack c E tp σ st).2 = true) : (recoverStack c E tp σ st).1.cur = σ.getLastD st.cur := by
  induction σ generalizing st with
  | nil => rfl
  | cons s rest ih =>
    rw [recover_cons] at h ⊢
    by_cases hp : (dsc c E .recover tp s st).2 = .pos
    · rw [if_pos hp] at h ⊢
      rw [ih _ h]
      have hc := dsc_cur c E .recover tp s st
      rw [dsc_ans] at hp
      rw [hp] at hc
      simp only [Ans.moves, if_true] at hc
      rw [hc]
      cases rest <;> simp [List.getLastD]
    · rw [if_neg hp] at h
      cases h

/-- walking a valid path from the current session succeeds -/
theorem recover_ok (c : Cfg) (E : Ecu) (tp) (σ : List Sess) (st : St)
    (h : ValidPath (edge c E) (st.cur :: σ)) : (recoverStack c E tp σ st).2 = true := by
  induction σ generalizing st with
  | nil => rfl
  | cons s rest ih =>
    have hp : (dsc c E .recover tp s st).2 = .pos := by rw [dsc_ans]; exact h.1
    rw [recover_cons, if_pos hp]
    apply ih
    have hc := dsc_cur c E .recover tp s st
    rw [h.1] at hc
    simp only [Ans.moves, if_true] at hc
    rw [hc]
    exact h.2

/-! ### reset -/

theorem doReset_same (c : Cfg) (E : Ecu) (tp l) (st : St) : SameRes st (doReset c E tp l st) := by
  unfold doReset pingReqs
  cases E.rst st.cur <;> exact ⟨rfl, rfl, rfl, rfl, rfl⟩

theorem doReset_crashed (c : Cfg) (E : Ecu) (tp l) (st : St) :
    (doReset c E tp l st).crashed = (st.crashed || (E.rst st.cur).refused) := by
  unfold doReset pingReqs
  cases E.rst st.cur <;> simp [exchange, Ans.refused]

theorem doReset_reqs (c : Cfg) (E : Ecu) (tp l) (st : St) :
    ReqsGrow (fun r => r.kind = .reset ∨ r.kind = .ping) st (doReset c E tp l st) := by
  unfold doReset
  cases h : E.rst st.cur
  · simp only
    refine ((exchange_reqs c .reset tp l .pos st).mono ?_).trans ?_
    · intro r hr; subst hr; exact Or.inl rfl
    · intro r hr
      simp only [pingReqs, List.mem_append, List.mem_replicate] at hr
      rcases hr with ⟨_, h⟩ | h
      · exact Or.inr (Or.inl (by subst h; exact Or.inr rfl))
      · exact Or.inl h
  · exact (exchange_reqs c .reset tp l _ st).mono (by intro r hr; subst hr; exact Or.inl rfl)
  · exact (exchange_reqs c .reset tp l _ st).mono (by intro r hr; subst hr; exact Or.inl rfl)
  · exact (exchange_reqs c .reset tp l _ st).mono (by intro r hr; subst hr; exact Or.inl rfl)

/-! ### the loop body -/

theorem top_eq_getLastD {σ : List Sess} (h : σ ≠ []) (x : Sess) : σ.getLastD x = top σ := by
  cases σ with
  | nil => exact absurd rfl h
  | cons a l => simp [top, List.getLastD]

/-- sessions that may legitimately appear on a stack: the default session or anything not skipped -/
def StackOK (c : Cfg) (σ : List Sess) : Prop := σ ≠ [] ∧ ∀ x ∈ σ, x = 1 ∨ x ∉ c.skip

/-- what the property demands of a single request -/
def ReqOK (c : Cfg) (r : Req) : Prop :=
  (r.kind = .probe → r.target ∉ c.skip ∧ r.cur = r.top) ∧
  (r.kind = .recover → r.target = 1 ∨ r.target ∉ c.skip)

def ReqInv (c : Cfg) (st : St) : Prop := ∀ r ∈ st.reqs, ReqOK c r

theorem ReqInv.grow {c : Cfg} {a b : St} (h : ReqInv c a) (g : ReqsGrow (ReqOK c) a b) : ReqInv c b := by
  intro r hr
  rcases g r hr with h1 | h1 | h1
  · exact h r h1
  · exact h1
  · refine ⟨fun hk => ?_, fun hk => ?_⟩ <;> (rw [h1] at hk; cases hk)

theorem prepare_none (c : Cfg) (E : Ecu) (σ : List Sess) (acc : St × Bool) (h : wantsReset c = none) :
    prepare c E σ acc = if acc.2 = true then recoverStack c E (top σ) σ acc.1 else (acc.1, true) := by
  unfold prepare; rw [h]

theorem prepare_some (c : Cfg) (E : Ecu) (σ : List Sess) (acc : St × Bool) {l} (h : wantsReset c = some l) :
    prepare c E σ acc =
      if (E.rst acc.1.cur).refused = true then (doReset c E (top σ) l acc.1, false)
      else recoverStack c E (top σ) σ (doReset c E (top σ) l acc.1) := by
  unfold prepare; rw [h]

theorem prepare_same (c : Cfg) (E : Ecu) (σ : List Sess) (acc : St × Bool) :
    SameRes acc.1 (prepare c E σ acc).1 := by
  cases h : wantsReset c with
  | none =>
    rw [prepare_none _ _ _ _ h]
    by_cases h2 : acc.2 = true
    · rw [if_pos h2]; exact recover_same ..
    · rw [if_neg h2]; exact SameRes.rfl'
  | some l =>
    rw [prepare_some _ _ _ _ h]
    split
    · exact doReset_same c E (top σ) l acc.1
    · exact (doReset_same c E (top σ) l acc.1).trans (recover_same ..)

theorem prepare_cur (c : Cfg) (E : Ecu) (σ : List Sess) (acc : St × Bool) (hne : σ ≠ [])
    (htr : acc.2 = false → acc.1.cur = top σ) (hok : (prepare c E σ acc).2 = true) :
    (prepare c E σ acc).1.cur = top σ := by
  cases h : wantsReset c with
  | none =>
    rw [prepare_none _ _ _ _ h] at hok ⊢
    by_cases h2 : acc.2 = true
    · rw [if_pos h2] at hok ⊢
      rw [recover_cur _ _ _ _ _ hok, top_eq_getLastD hne]
    · rw [if_neg h2]
      exact htr (by simpa using h2)
  | some l =>
    rw [prepare_some _ _ _ _ h] at hok ⊢
    split at hok
    · cases hok
    · rename_i hrf
      rw [if_neg hrf, recover_cur _ _ _ _ _ hok, top_eq_getLastD hne]

theorem prepare_reqs (c : Cfg) (E : Ecu) (σ : List Sess) (acc : St × Bool) :
    ReqsGrow (fun r => r.kind = .reset ∨ r.kind = .ping ∨ (r.kind = .recover ∧ r.target ∈ σ)) acc.1
      (prepare c E σ acc).1 := by
  have hr : ∀ st, ReqsGrow (fun r => r.kind = .reset ∨ r.kind = .ping ∨ (r.kind = .recover ∧ r.target ∈ σ)) st
      (recoverStack c E (top σ) σ st).1 := fun st =>
    (recover_reqs c E (top σ) σ st).mono (by intro r ⟨a, b, _⟩; exact Or.inr (Or.inr ⟨a, b⟩))
  cases h : wantsReset c with
  | none =>
    rw [prepare_none _ _ _ _ h]
    by_cases h2 : acc.2 = true
    · rw [if_pos h2]; exact hr _
    · rw [if_neg h2]; exact ReqsGrow.rfl'
  | some l =>
    rw [prepare_some _ _ _ _ h]
    have hd : ReqsGrow (fun r => r.kind = .reset ∨ r.kind = .ping ∨ (r.kind = .recover ∧ r.target ∈ σ)) acc.1
        (doReset c E (top σ) l acc.1) := by
      refine (doReset_reqs c E (top σ) l acc.1).mono ?_
      intro r hr'
      rcases hr' with h1 | h1
      · exact Or.inl h1
      · exact Or.inr (Or.inl h1)
    split
    · exact hd
    · exact hd.trans (hr _)

/-- the ECU never answers the ECUReset of `--reset` with a reply the client refuses -/
def ResetLegal (c : Cfg) (E : Ecu) : Prop := wantsReset c = none ∨ ∀ p, (E.rst p).refused = false

/-- on an ECU where the stack is a valid path starting with a session that can be entered from anywhere,
    preparation never fails -/
theorem prepare_ok (c : Cfg) (E : Ecu) (σ : List Sess) (acc : St × Bool) (hrl : ResetLegal c E)
    (hval : ∀ x, ValidPath (edge c E) (x :: σ)) : (prepare c E σ acc).2 = true := by
  cases h : wantsReset c with
  | none =>
    rw [prepare_none _ _ _ _ h]
    by_cases h2 : acc.2 = true
    · rw [if_pos h2]; exact recover_ok _ _ _ _ _ (hval _)
    · rw [if_neg h2]
  | some l =>
    rw [prepare_some _ _ _ _ h]
    have hrf : ¬ (E.rst acc.1.cur).refused = true := by
      rcases hrl with h0 | h0
      · rw [h0] at h; cases h
      · rw [h0]; simp
    rw [if_neg hrf]
    exact recover_ok _ _ _ _ _ (hval _)

/-- the probe is answered positively by the ECU in session `p` and is not skipped -/
def okp (c : Cfg) (E : Ecu) (p u : Sess) : Prop := u ∉ c.skip ∧ edge c E p u = .pos

instance (c : Cfg) (E : Ecu) (p u : Sess) : Decidable (okp c E p u) := by unfold okp; infer_instance

theorem classify_spec (c : Cfg) (σ : List Sess) (s : Sess) (r : St × Ans) :
    let q := classify c σ s r
    q.1.aborted = r.1.aborted ∧ q.1.searched = r.1.searched ∧ q.1.cur = r.1.cur ∧ q.1.reqs = r.1.reqs ∧
    q.1.pos = r.1.pos ++ (if r.2 = .pos then [(s, σ)] else []) ∧
    q.1.found = r.1.found ++ (if r.2 = .pos ∧ (c.thorough = true ∨ s ∉ σ) then [σ ++ [s]] else []) ∧
    (q.2 = false → r.2.moves = false) := by
  obtain ⟨st, a⟩ := r
  cases a with
  | silent => simp [classify, Ans.moves]
  | illegal sw => simp [classify]
  | nrc code =>
    by_cases hc : code = NRC_SFNS
    · simp [classify, hc, Ans.moves]
    · simp [classify, hc, Ans.moves]
  | pos =>
    by_cases ht : c.thorough = true ∨ s ∉ σ
    · simp [classify, ht]
    · simp [classify, ht]

theorem probeOne_eq (c : Cfg) (E : Ecu) (σ : List Sess) (acc : St × Bool) (s : Sess) :
    probeOne c E σ acc s =
      if acc.1.aborted = true then acc else
      if s ∈ c.skip then acc else
      if (prepare c E σ acc).2 = false then ({ (prepare c E σ acc).1 with aborted := true }, false) else
      classify c σ s (dsc c E .probe (top σ) s (prepare c E σ acc).1) := rfl

/-- newly found stacks extend the processed one by a session that is not skipped -/
def FoundGrow (c : Cfg) (σ : List Sess) (a b : St) : Prop :=
  ∀ σ' ∈ b.found, σ' ∈ a.found ∨ ∃ s, s ∉ c.skip ∧ σ' = σ ++ [s]

theorem FoundGrow.trans {c : Cfg} {σ} {a b d : St} (h1 : FoundGrow c σ a b) (h2 : FoundGrow c σ b d) :
    FoundGrow c σ a d := by
  intro x hx
  rcases h2 x hx with h | h
  · exact h1 x h
  · exact Or.inr h

/-- the bookkeeping effect of probing the sessions `ls` from the stack `σ` -/
def ProbeChar (c : Cfg) (E : Ecu) (σ : List Sess) (ls : List Sess) (a b : St) : Prop :=
  b.aborted = false ∧ b.searched = a.searched ∧
  b.pos = a.pos ++ (ls.filter (fun u => decide (okp c E (top σ) u))).map (fun u => (u, σ)) ∧
  b.found = a.found ++ ((ls.filter (fun u => decide (okp c E (top σ) u))).filter
      (fun u => decide (c.thorough = true ∨ u ∉ σ))).map (fun u => σ ++ [u])

theorem probeOne_step (c : Cfg) (E : Ecu) (σ : List Sess) (acc : St × Bool) (s : Sess)
    (hok : StackOK c σ) (hab : acc.1.aborted = false) (htr : acc.2 = false → acc.1.cur = top σ)
    (r : St × Bool) (hr : r = probeOne c E σ acc s) :
    ReqsGrow (ReqOK c) acc.1 r.1 ∧ FoundGrow c σ acc.1 r.1 ∧
    (r.1.aborted = true ∨ (ProbeChar c E σ [s] acc.1 r.1 ∧ (r.2 = false → r.1.cur = top σ))) := by
  rw [probeOne_eq, if_neg (by simp [hab])] at hr
  by_cases hs : s ∈ c.skip
  · rw [if_pos hs] at hr
    subst hr
    refine ⟨ReqsGrow.rfl', fun x hx => Or.inl hx, Or.inr ⟨⟨hab, rfl, ?_, ?_⟩, htr⟩⟩
    · simp [okp, hs]
    · simp [okp, hs]
  · rw [if_neg hs] at hr
    have hsame := prepare_same c E σ acc
    have hreqs : ReqsGrow (ReqOK c) acc.1 (prepare c E σ acc).1 := by
      refine (prepare_reqs c E σ acc).mono ?_
      intro q hq
      rcases hq with h | h | ⟨h, hm⟩
      · exact ⟨by simp [h], by simp [h]⟩
      · exact ⟨by simp [h], by simp [h]⟩
      · exact ⟨by simp [h], fun _ => hok.2 _ hm⟩
    by_cases hp : (prepare c E σ acc).2 = false
    · rw [if_pos hp] at hr
      subst hr
      refine ⟨hreqs, ?_, Or.inl rfl⟩
      intro x hx
      left
      have : x ∈ (prepare c E σ acc).1.found := hx
      rw [hsame.1] at this
      exact this
    · rw [if_neg hp] at hr
      have hp' : (prepare c E σ acc).2 = true := by simpa using hp
      have hcur := prepare_cur c E σ acc hok.1 htr hp'
      have hd_same := dsc_same c E .probe (top σ) s (prepare c E σ acc).1
      have hd_ans := dsc_ans c E .probe (top σ) s (prepare c E σ acc).1
      have hd_cur := dsc_cur c E .probe (top σ) s (prepare c E σ acc).1
      have hd_reqs := dsc_reqs c E .probe (top σ) s (prepare c E σ acc).1
      rw [hcur] at hd_ans hd_cur hd_reqs
      have hcl := classify_spec c σ s (dsc c E .probe (top σ) s (prepare c E σ acc).1)
      rw [← hr] at hcl
      simp only at hcl
      obtain ⟨c1, c2, c3, c4, c5, c6, c7⟩ := hcl
      rw [hd_ans] at c5 c6 c7
      have hfound0 : (dsc c E .probe (top σ) s (prepare c E σ acc).1).1.found = acc.1.found :=
        hd_same.1.trans hsame.1
      refine ⟨?_, ?_, Or.inr ⟨⟨?_, ?_, ?_, ?_⟩, ?_⟩⟩
      · -- requests
        refine hreqs.trans ?_
        intro q hq
        rw [c4] at hq
        rcases hd_reqs q hq with h | h | h
        · exact Or.inl h
        · right; left
          subst h
          exact ⟨fun _ => ⟨hs, rfl⟩, by simp⟩
        · exact Or.inr (Or.inr h)
      · -- found grows by extensions of σ
        intro x hx
        rw [c6, hfound0] at hx
        rcases List.mem_append.1 hx with h | h
        · exact Or.inl h
        · right
          split at h
          · simp only [List.mem_singleton] at h
            exact ⟨s, hs, h⟩
          · cases h
      · rw [c1, hd_same.2.2.2.2, hsame.2.2.2.2]; exact hab
      · rw [c2, hd_same.2.2.2.1, hsame.2.2.2.1]
      · rw [c5, hd_same.2.1, hsame.2.1]
        by_cases hg : edge c E (top σ) s = .pos
        · simp [okp, hs, hg]
        · simp [okp, hg]
      · rw [c6, hfound0]
        by_cases hg : edge c E (top σ) s = .pos
        · by_cases ht : c.thorough = true ∨ s ∉ σ
          · simp [okp, hs, hg, ht]
          · simp [okp, hs, hg, ht]
        · simp [okp, hg]
      · intro h2
        rw [c3, hd_cur, if_neg (by rw [c7 h2]; simp)]

theorem probeFold_aborted (c : Cfg) (E : Ecu) (σ ls : List Sess) (acc : St × Bool) (h : acc.1.aborted = true) :
    ls.foldl (probeOne c E σ) acc = acc := by
  induction ls with
  | nil => rfl
  | cons s ls ih =>
    rw [List.foldl_cons]
    have : probeOne c E σ acc s = acc := by rw [probeOne_eq, if_pos h]
    rw [this, ih]

theorem probeFold_spec (c : Cfg) (E : Ecu) (σ ls : List Sess) (acc : St × Bool)
    (hok : StackOK c σ) (hab : acc.1.aborted = false) (htr : acc.2 = false → acc.1.cur = top σ)
    (r : St × Bool) (hr : r = ls.foldl (probeOne c E σ) acc) :
    ReqsGrow (ReqOK c) acc.1 r.1 ∧ FoundGrow c σ acc.1 r.1 ∧
    (r.1.aborted = true ∨ ProbeChar c E σ ls acc.1 r.1) := by
  induction ls generalizing acc with
  | nil =>
    subst hr
    exact ⟨ReqsGrow.rfl', fun x hx => Or.inl hx, Or.inr ⟨hab, rfl, by simp, by simp⟩⟩
  | cons s ls ih =>
    rw [List.foldl_cons] at hr
    obtain ⟨g1, f1, h1⟩ := probeOne_step c E σ acc s hok hab htr _ rfl
    rcases h1 with h1 | ⟨ch, tr⟩
    · rw [probeFold_aborted _ _ _ _ _ h1] at hr
      rw [hr]
      exact ⟨g1, f1, Or.inl h1⟩
    · obtain ⟨g2, f2, h2⟩ := ih (probeOne c E σ acc s) ch.1 tr hr
      refine ⟨g1.trans g2, f1.trans f2, ?_⟩
      rcases h2 with h2 | h2
      · exact Or.inl h2
      · right
        obtain ⟨a1, a2, a3, a4⟩ := ch
        obtain ⟨b1, b2, b3, b4⟩ := h2
        refine ⟨b1, b2.trans a2, ?_, ?_⟩
        · rw [b3, a3]
          by_cases hq : okp c E (top σ) s <;> simp [hq]
        · rw [b4, a4]
          by_cases hq : okp c E (top σ) s
          · by_cases ht : c.thorough = true ∨ s ∉ σ <;> simp [hq, ht]
          · simp [hq]

/-! ### one stack -/

theorem processStack_eq (c : Cfg) (E : Ecu) (st : St) (σ : List Sess) :
    processStack c E st σ =
      if st.aborted = true then st else
      if c.thorough = false ∧ top σ ∈ st.searched then st else
      (sessions.foldl (probeOne c E σ) ({ st with searched := st.searched ++ [top σ] }, true)).1 := rfl

/-- non-skipped sessions the ECU lets us enter from `p` -/
def succs (c : Cfg) (E : Ecu) (p : Sess) : List Sess := sessions.filter (fun u => decide (okp c E p u))

theorem mem_succs {c : Cfg} {E : Ecu} {p u : Sess} : u ∈ succs c E p ↔ u ∈ sessions ∧ okp c E p u := by
  simp [succs]

/-- what processing one stack does when the scan does not give up -/
def StackChar (c : Cfg) (E : Ecu) (σ : List Sess) (a b : St) : Prop :=
  b.aborted = false ∧
  ((c.thorough = false ∧ top σ ∈ a.searched ∧ b = a) ∨
   (¬(c.thorough = false ∧ top σ ∈ a.searched) ∧ b.searched = a.searched ++ [top σ] ∧
    b.pos = a.pos ++ (succs c E (top σ)).map (fun u => (u, σ)) ∧
    b.found = a.found ++ ((succs c E (top σ)).filter (fun u => decide (c.thorough = true ∨ u ∉ σ))).map
      (fun u => σ ++ [u])))

theorem processStack_spec (c : Cfg) (E : Ecu) (st : St) (σ : List Sess) (hok : StackOK c σ)
    (hab : st.aborted = false) :
    ReqsGrow (ReqOK c) st (processStack c E st σ) ∧ FoundGrow c σ st (processStack c E st σ) ∧
    ((processStack c E st σ).aborted = true ∨ StackChar c E σ st (processStack c E st σ)) := by
  rw [processStack_eq, if_neg (by simp [hab])]
  by_cases h : c.thorough = false ∧ top σ ∈ st.searched
  · rw [if_pos h]
    exact ⟨ReqsGrow.rfl', fun x hx => Or.inl hx, Or.inr ⟨hab, Or.inl ⟨h.1, h.2, rfl⟩⟩⟩
  · rw [if_neg h]
    obtain ⟨g, f, ch⟩ := probeFold_spec c E σ sessions
      ({ st with searched := st.searched ++ [top σ] }, true) hok hab (by simp) _ rfl
    refine ⟨g, f, ?_⟩
    rcases ch with ch | ⟨a1, a2, a3, a4⟩
    · exact Or.inl ch
    · exact Or.inr ⟨a1, Or.inr ⟨h, a2, a3, a4⟩⟩

theorem processStack_aborted (c : Cfg) (E : Ecu) (st : St) (σ : List Sess) (h : st.aborted = true) :
    processStack c E st σ = st := by
  rw [processStack_eq, if_pos h]

theorem processFold_aborted (c : Cfg) (E : Ecu) (st : St) (L : List (List Sess)) (h : st.aborted = true) :
    L.foldl (processStack c E) st = st := by
  induction L with
  | nil => rfl
  | cons σ L ih => rw [List.foldl_cons, processStack_aborted _ _ _ _ h, ih]

/-! ### requests: unconditional invariant -/

def WireInv (c : Cfg) (st : St) : Prop := ReqInv c st ∧ ∀ σ ∈ st.found, StackOK c σ

theorem stackOK_snoc {c : Cfg} {σ : List Sess} {s : Sess} (h : StackOK c σ) (hs : s ∉ c.skip) :
    StackOK c (σ ++ [s]) := by
  refine ⟨by simp, ?_⟩
  intro x hx
  rcases List.mem_append.1 hx with h1 | h1
  · exact h.2 x h1
  · simp only [List.mem_singleton] at h1
    subst h1
    exact Or.inr hs

theorem processStack_wire (c : Cfg) (E : Ecu) (st : St) (σ : List Sess) (hok : StackOK c σ)
    (h : WireInv c st) : WireInv c (processStack c E st σ) := by
  by_cases hab : st.aborted = true
  · rw [processStack_aborted _ _ _ _ hab]; exact h
  · obtain ⟨g, f, _⟩ := processStack_spec c E st σ hok (by simpa using hab)
    refine ⟨h.1.grow g, ?_⟩
    intro x hx
    rcases f x hx with h1 | ⟨s, hs, rfl⟩
    · exact h.2 x h1
    · exact stackOK_snoc hok hs

theorem processFold_wire (c : Cfg) (E : Ecu) (L : List (List Sess)) (st : St)
    (hL : ∀ σ ∈ L, StackOK c σ) (h : WireInv c st) : WireInv c (L.foldl (processStack c E) st) := by
  induction L generalizing st with
  | nil => exact h
  | cons σ L ih =>
    rw [List.foldl_cons]
    exact ih _ (fun x hx => hL x (List.mem_cons_of_mem _ hx))
      (processStack_wire c E st σ (hL σ (List.mem_cons_self ..)) h)

theorem level_wire (c : Cfg) (E : Ecu) (st : St) (h : WireInv c st) : WireInv c (level c E st) := by
  unfold level
  exact processFold_wire c E st.found _ h.2 ⟨h.1, by simp⟩

theorem scanLoop_wire (c : Cfg) (E : Ecu) (n : Nat) (st : St) (h : WireInv c st) :
    WireInv c (scanLoop c E n st) := by
  induction n generalizing st with
  | zero => exact h
  | succ n ih =>
    unfold scanLoop
    split
    · exact h
    · exact ih _ (level_wire c E st h)

theorem scan_wire (c : Cfg) (E : Ecu) : WireInv c (scan c E) := by
  apply scanLoop_wire
  refine ⟨fun r hr => (by cases hr), ?_⟩
  intro σ hσ
  simp only [initSt, List.mem_singleton] at hσ
  subst hσ
  exact ⟨by simp, by simp⟩

end Gallia.SessionScan
