import Gallia.Proofs.Lemmas.UdsRespCtor
/-! C02 constructor side: the object built from fields `f` by a canonical call exposes exactly `f` (`construct_exposes`). -/
namespace Gallia.UdsResp
open Gallia

theorem u8?_back {x : Int} {b : UInt8} (h : u8? x = some b) : (b.toNat : Int) = x := by
  obtain ⟨h0, _, hb⟩ := u8?_some h
  rw [hb]; exact Int.toNat_of_nonneg h0

theorem sub7?_back {x : Int} {b : UInt8} (h : sub7? x = some b) : (b.toNat : Int) = x := by
  obtain ⟨h0, hb, _⟩ := sub7?_some h
  rw [hb]; exact Int.toNat_of_nonneg h0

theorem natBelow?_back {x : Int} {k n : Nat} (h : natBelow? x k = some n) : (n : Int) = x := by
  obtain ⟨h0, hn, _⟩ := natBelow?_some h
  rw [hn]; exact Int.toNat_of_nonneg h0

theorem ofNat_back {x : Int} (h0 : 0 ≤ x) (h1 : x ≤ 255) : ((UInt8.ofNat x.toNat).toNat : Int) = x := by
  rw [ofNat_toNat_lt (by omega)]; exact Int.toNat_of_nonneg h0

theorem dictRecs_back {l : List (Int × Int)} {l'} (h : dictRecs l = some l') :
    l'.map (fun p => ((p.1 : Int), (p.2.toNat : Int))) = l := by
  induction l generalizing l' with
  | nil => simp [dictRecs] at h; subst h; rfl
  | cons p rest ih =>
    obtain ⟨d, s⟩ := p
    simp only [dictRecs] at h
    split at h
    · rename_i d' s' l0 hd hs hl
      cases h
      simp [natBelow?_back hd, u8?_back hs, ih hl]
    · cases h

theorem constructE_exposes {e : Entry} {f : Fields} {r : Resp} (h : constructE e f = some r) (hc : f.Canon) :
    exposed r = some f := by
  cases f <;> simp only [constructE] at h <;> simp only [Fields.Canon] at hc
  case neg sid nrc =>
    split at h
    · rename_i hk
      simp only [Option.map_eq_some_iff] at h
      obtain ⟨a, ha, rfl⟩ := h
      have := nrcTable_lt nrc hk.2
      simp [exposed, u8?_back ha, ofNat_toNat_lt this]
    · cases h

  case dsc ty rec =>
    split at h
    · simp only [Option.map_eq_some_iff] at h
      obtain ⟨a, ha, rfl⟩ := h
      simp [exposed, sub7?_back ha]
    · cases h
  case secAccess ty seed =>
    split at h
    · simp only [Option.map_eq_some_iff] at h
      obtain ⟨a, ha, rfl⟩ := h
      simp [exposed, sub7?_back ha]
    · cases h
  case commCtrl ty =>
    split at h
    · simp only [Option.map_eq_some_iff] at h
      obtain ⟨a, ha, rfl⟩ := h
      simp [exposed, sub7?_back ha]
    · cases h
  case ctrlDTC ty =>
    split at h
    · simp only [Option.map_eq_some_iff] at h
      obtain ⟨a, ha, rfl⟩ := h
      simp [exposed, sub7?_back ha]
    · cases h
  case wdbi did =>
    split at h
    · simp only [Option.map_eq_some_iff] at h
      obtain ⟨a, ha, rfl⟩ := h
      simp [exposed, natBelow?_back ha]
    · cases h
  case iocbi did rec =>
    split at h
    · simp only [Option.map_eq_some_iff] at h
      obtain ⟨a, ha, rfl⟩ := h
      simp [exposed, natBelow?_back ha]
    · cases h
  case routine rid rec =>
    split at h
    · simp only [Option.map_eq_some_iff] at h
      obtain ⟨a, ha, rfl⟩ := h
      simp [exposed, natBelow?_back ha]
    · cases h
  case transferData ctr rec =>
    split at h
    · simp only [Option.map_eq_some_iff] at h
      obtain ⟨a, ha, rfl⟩ := h
      simp [exposed, u8?_back ha]
    · cases h
  case testerPresent => split at h <;> cases h; rfl
  case clearDTC => split at h <;> cases h; rfl
  case rmba rec => split at h <;> cases h; rfl
  case transferExit rec => split at h <;> cases h; rfl
  case ecuReset ty pdt =>
    split at h
    · split at h
      · rename_i _ _ t ht
        cases h
        simp [exposed, sub7?_back ht]
      · rename_i _ _ t p ht
        simp only [Option.map_eq_some_iff] at h
        obtain ⟨a, ha, rfl⟩ := h
        simp [exposed, sub7?_back ht, u8?_back ha]
      · cases h
    · cases h
  case rdbi dids recs =>
    split at h
    · split at h
      · rename_i d ds r0 rs
        obtain ⟨h1, h2⟩ := hc
        have hds : ds = [] := by cases ds <;> simp_all
        have hrs : rs = [] := by cases rs <;> simp_all
        subst hds hrs
        simp only [rdbiTail] at h
        split at h
        · rename_i d' t hd ht
          cases ht
          split at h
          · cases h
            simp [exposed, natBelow?_back hd]
          · cases h
        · cases h
      · cases h
    · cases h
  case dddi did =>
    split at h
    · split at h
      · split at h
        · cases h; simp [exposed]
        · cases h
      · simp only [Option.map_eq_some_iff] at h
        obtain ⟨a, ha, rfl⟩ := h
        simp [exposed, natBelow?_back ha]
    · cases h
  case wmba addr size alfid =>
    split at h
    · rename_i hk
      split at h
      · exact absurd rfl hc
      · rename_i x
        split at h
        · rename_i hx
          cases h
          have := ofNat_back hx.1 hx.2.1
          simp only [exposed, Int.toNat_of_nonneg hk.2.1, Int.toNat_of_nonneg hk.2.2, this]
        · cases h
    · cases h
  case dtcCount mask fmt count =>
    split at h
    · rename_i hk
      split at h
      · rename_i m c hm hcn
        cases h
        have : fmt < 256 := by
          have := hk.2
          simp [dtcFormatTable] at this
          omega
        simp [exposed, u8?_back hm, natBelow?_back hcn, ofNat_toNat_lt this]
      · cases h
    · cases h
  case dtcListD mask recs =>
    split at h
    · split at h
      · rename_i m l hm hl
        split at h
        · cases h
          simp [exposed, u8?_back hm, dictRecs_back hl]
        · cases h
      · cases h
    · cases h
  case dtcExtT dtc status recs =>
    split at h
    · split at h
      · rename_i d s0 hd hs
        match recs, hc with
        | [(n, dat)], _ =>
          simp only [dtcExtBody] at h
          split at h
          · rename_i hn
            simp only [extTail, Option.map_some, Option.some.injEq] at h
            subst h
            simp [exposed, natBelow?_back hd, u8?_back hs]
            omega
          · cases h
      · cases h
    · cases h
  case upDownload maxLen lfid =>
    split at h
    · rename_i hk
      split at h
      · exact absurd rfl hc
      · rename_i x
        split at h
        · rename_i hx
          cases h
          simp [exposed, Int.toNat_of_nonneg hk.2]
          omega
        · cases h
    · cases h

end Gallia.UdsResp
