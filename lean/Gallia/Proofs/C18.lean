import Gallia.Proofs.Lemmas.Config
import Gallia.Proofs.Lemmas.ConfigFile
import Gallia.Gen.C18Options
/-
  C18 — Settings resolve CLI > env > file > default; a stored config re-creates the run.
  Property theorems only; helper lemmas are in `Proofs/Lemmas/Config.lean`.
-/
namespace Gallia.C18
open Gallia Gallia.Config

/-! ### precedence -/

/-- the three stages the code has (env over file in the extra defaults, command line over extra default, field
    default last) compose to CLI > env > file > default: all 16 provider combinations -/
theorem precedence {α} (c e f d : Option α) :
    resolve c e f d =
      match c, e, f, d with
      | some v, _, _, _ => some (.cli, v)
      | none, some v, _, _ => some (.env, v)
      | none, none, some v, _ => some (.file, v)
      | none, none, none, some v => some (.dflt, v)
      | none, none, none, none => none := by
  cases c <;> cases e <;> cases f <;> cases d <;> rfl

/-- a value is effective only if every provider of higher priority is silent -/
theorem resolve_sound {α} (c e f d : Option α) (src : Source) (v : α) (h : resolve c e f d = some (src, v)) :
    (src = .cli ∧ c = some v) ∨ (src = .env ∧ c = none ∧ e = some v) ∨ (src = .file ∧ c = none ∧ e = none ∧ f = some v) ∨
    (src = .dflt ∧ c = none ∧ e = none ∧ f = none ∧ d = some v) := by
  cases c <;> cases e <;> cases f <;> cases d <;> simp_all [resolve, argValue, extraDefault]

/-- nothing is effective only if nobody provides anything (a required option left out) -/
theorem resolve_none_iff {α} (c e f d : Option α) : resolve c e f d = none ↔ c = none ∧ e = none ∧ f = none ∧ d = none := by
  cases c <;> cases e <;> cases f <;> cases d <;> simp [resolve, argValue, extraDefault]

/-! ### validity layer -/

/-- value a provider's raw input validates to, if it does -/
def valid? (fld : Field) (r : Option Raw) : Option Val :=
  r.bind (fun r => match provided fld r with | .ok v => some v | .error _ => none)

/-- an invalid value of the winning provider is rejected - whatever the lower providers and the default would have
    offered, it is never skipped in their favour. The message names the provider `blame` finds: the one whose value
    equals the reported input, else the command line -/
theorem invalid_rejected_blame (fld : Field) (c e f : Option Raw) (d : Option Val) (src : Source) (r : Raw) (m : Msg)
    (hw : argValue c (offered fld (extraDefault e f)) = some (src, r)) (hbad : provided fld r = .error m) :
    effective fld c e f d = .rejected (blame (reported fld.kind r) (extraDefault e f)) m := by
  simp only [effective, hw, hbad]

/-- a value that is validated as a whole is reported as a whole -/
theorem reported_whole (k : Kind) (r : Raw) (h : ∀ xs, r ≠ .list xs) : reported k r = r := by
  cases r <;> first | (cases k <;> rfl) | exact absurd rfl (h _)

/-- ... and when the command line did not hand over the very same text as the environment / the file, the provider
    named is the winner (`hdist`); the values the environment and the file provide for the options of the shipped
    commands are never lists validated element by element (`hwhole`) -/
theorem invalid_names_source (fld : Field) (c e f : Option Raw) (d : Option Val) (src : Source) (r : Raw) (m : Msg)
    (hpos : fld.positional = false)
    (hw : resolve c e f none = some (src, r)) (hbad : provided fld r = .error m)
    (hdist : src = .cli → ∀ s x, extraDefault e f = some (s, x) → x ≠ reported fld.kind r)
    (hwhole : src ≠ .cli → reported fld.kind r = r) :
    effective fld c e f d = .rejected src m := by
  cases c <;> cases e <;> cases f <;>
    simp_all [resolve, effective, argValue, extraDefault, offered, blame] <;>
    (obtain ⟨rfl, rfl⟩ := hw; simp_all)

/-- the provider named in a rejection gave exactly the reported input: either it is the command line and its value
    was refused, or it is the environment / the file and holds the very text that was refused -/
theorem blamed_holds_input (fld : Field) (c e f : Option Raw) (d : Option Val) (s : Source) (m : Msg)
    (h : effective fld c e f d = .rejected s m) :
    ∃ src r, argValue c (offered fld (extraDefault e f)) = some (src, r) ∧ provided fld r = .error m ∧
      ((s = .cli ∧ ∀ x, extraDefault e f = some (src, x) → src ≠ .cli → x ≠ reported fld.kind r) ∨
       extraDefault e f = some (s, reported fld.kind r)) := by
  simp only [effective] at h
  split at h
  · rename_i src r hw
    split at h
    · cases h
    · rename_i m' hbad
      injection h with hs hm
      subst hm
      refine ⟨src, r, hw, hbad, ?_⟩
      unfold blame at hs
      split at hs
      · rename_i s' r' hx
        split at hs
        · rename_i heq
          right
          have : r' = reported fld.kind r := by simpa using heq
          rw [hx, this, hs]
        · rename_i hne
          left
          refine ⟨hs.symm, ?_⟩
          intro x hx2 _
          rw [hx] at hx2
          injection hx2 with hx2
          injection hx2 with _ hx3
          subst hx3
          simpa using hne
      · rename_i hx
        left
        refine ⟨hs.symm, ?_⟩
        intro x hx2
        rw [hx] at hx2
        cases hx2
  · split at h <;> cases h

/-- the same invalid text on the command line and in the environment: the message names the environment, which does
    hold that text (`blamed_holds_input`), although the command line was the winner -/
example : effective { kind := .autoInt } (some (.atom (.str ['z']))) (some (.atom (.str ['z']))) none (some (.int 4))
    = .rejected .env .notInt := by decide +kernel

/-- ... and a valid one is the effective value, attributed to that provider -/
theorem valid_winner_effective (fld : Field) (c e f : Option Raw) (d : Option Val) (src : Source) (r : Raw) (v : Val)
    (hpos : fld.positional = false)
    (hw : resolve c e f none = some (src, r)) (hok : provided fld r = .ok v) :
    effective fld c e f d = .ok src v := by
  cases c <;> cases e <;> cases f <;>
    simp_all [resolve, effective, argValue, extraDefault, offered] <;>
    (obtain ⟨rfl, rfl⟩ := hw; simp [hok])

/-- the default is used exactly when all three providers are silent; without a default that is "missing" -/
theorem default_only_when_silent (fld : Field) (d : Option Val) :
    effective fld none none none d = (match d with | some v => .ok .dflt v | none => .missing) := by
  cases d <;> simp [effective, argValue, extraDefault, offered]

/-- whatever is accepted is the validated value of the highest-priority provider that spoke, or the default when none
    did (for a positional argument: when the command line did not) -/
theorem effective_ok_sound (fld : Field) (c e f : Option Raw) (d : Option Val) (src : Source) (v : Val)
    (hpos : fld.positional = false)
    (h : effective fld c e f d = .ok src v) :
    (src = .dflt ∧ c = none ∧ e = none ∧ f = none ∧ d = some v) ∨
    (∃ r, resolve c e f none = some (src, r) ∧ provided fld r = .ok v) := by
  cases c <;> cases e <;> cases f <;> cases d <;>
    simp_all [resolve, effective, argValue, extraDefault, offered] <;>
    (split at h <;> simp_all)

theorem missing_iff (fld : Field) (c e f : Option Raw) (d : Option Val) (hpos : fld.positional = false) :
    effective fld c e f d = .missing ↔ c = none ∧ e = none ∧ f = none ∧ d = none := by
  cases c <;> cases e <;> cases f <;> cases d <;> simp [effective, argValue, extraDefault, offered, hpos] <;> split <;> simp

/-- a positional argument is taken from the command line only: the environment and the file are not even offered to
    argparse, and leaving it out is "missing" whatever they hold -/
theorem positional_cli_only (fld : Field) (c e f : Option Raw) (d : Option Val) (hpos : fld.positional = true) :
    (c = none → effective fld c e f d = (match d with | some v => .ok .dflt v | none => .missing)) ∧
    (∀ r v, c = some r → provided fld r = .ok v → effective fld c e f d = .ok .cli v) := by
  constructor
  · intro hc; subst hc
    cases d <;> simp [effective, argValue, offered, hpos]
  · intro r v hc hok; subst hc
    simp [effective, argValue, hok]

/-- a valid value on the command line makes environment, file and default irrelevant (they are not even validated);
    an invalid one is rejected whatever they hold -/
theorem cli_overrides (fld : Field) (r : Raw) (e f : Option Raw) (d : Option Val) :
    (∃ v, provided fld r = .ok v ∧ effective fld (some r) e f d = .ok .cli v) ∨
    (∃ m s, provided fld r = .error m ∧ effective fld (some r) e f d = .rejected s m) := by
  cases h : provided fld r with
  | ok v => left; exact ⟨v, rfl, by simp [effective, argValue, h]⟩
  | error m => right; exact ⟨m, blame (reported fld.kind r) (extraDefault e f), rfl, by simp [effective, argValue, h]⟩

/-- an environment value makes file and default irrelevant -/
theorem env_overrides (fld : Field) (r : Raw) (f : Option Raw) (d : Option Val) (hpos : fld.positional = false) :
    effective fld none (some r) f d = effective fld none (some r) none none := by
  simp [effective, argValue, extraDefault, offered, hpos, blame]

/-- a file value makes the default irrelevant -/
theorem file_overrides (fld : Field) (r : Raw) (d : Option Val) (hpos : fld.positional = false) :
    effective fld none none (some r) d = effective fld none none (some r) none := by
  simp [effective, argValue, extraDefault, offered, hpos]

/-- only the winning provider's value is validated: with a valid winner, whatever the providers of lower priority hold
    - valid, invalid, nothing - the outcome is the same. (Reading of "an invalid value is rejected ... instead of being
    ignored": the property speaks about the value precedence selects; a value that precedence does not select is not
    examined - `GALLIA_DEPTH=zz gallia scan uds sessions --depth 5` runs with depth 5.) -/
theorem losing_invalid_ignored (fld : Field) (r : Raw) (v : Val) (hok : provided fld r = .ok v) :
    (∀ e f d, effective fld (some r) e f d = .ok .cli v) ∧
    (fld.positional = false → ∀ f d, effective fld none (some r) f d = .ok .env v) ∧
    (fld.positional = false → ∀ d, effective fld none none (some r) d = .ok .file v) := by
  refine ⟨?_, ?_, ?_⟩
  · intro e f d; simp [effective, argValue, hok]
  · intro hpos f d; simp [effective, argValue, extraDefault, offered, hpos, hok]
  · intro hpos d; simp [effective, argValue, extraDefault, offered, hpos, hok]

/-- `precedence` for every field kind, on the raw inputs: when the winner's value is valid, the effective value is
    the one `resolve` picks among the *validated* values of the providers - CLI > env > file > default -/
theorem precedence_all_kinds (fld : Field) (c e f : Option Raw) (d : Option Val) (hpos : fld.positional = false)
    (hwin : ∀ src r, resolve c e f none = some (src, r) → ∃ v, provided fld r = .ok v) :
    effective fld c e f d =
      (match resolve (valid? fld c) (valid? fld e) (valid? fld f) d with
       | some (s, v) => .ok s v
       | none => .missing) := by
  cases c with
  | some r =>
    obtain ⟨v, hv⟩ := hwin .cli r (by simp [resolve, argValue])
    simp [effective, argValue, resolve, valid?, hv]
  | none =>
    cases e with
    | some r =>
      obtain ⟨v, hv⟩ := hwin .env r (by simp [resolve, argValue, extraDefault])
      simp [effective, argValue, extraDefault, offered, hpos, resolve, valid?, hv]
    | none =>
      cases f with
      | some r =>
        obtain ⟨v, hv⟩ := hwin .file r (by simp [resolve, argValue, extraDefault])
        simp [effective, argValue, extraDefault, offered, hpos, resolve, valid?, hv]
      | none =>
        cases d <;> simp [effective, argValue, extraDefault, offered, resolve, valid?]

/-- `precedence_all_kinds` and `losing_invalid_ignored` are not vacuous for the kinds added last: a HexInt, a list of
    DDDI definitions, a list of services each win on the command line against an invalid environment value -/
example : effective { kind := .hexInt } (some (.atom (.str ['-', '0', 'x', 'f', 'f']))) (some (.atom (.str ['z']))) none (some (.int 1))
    = .ok .cli (.int (-255)) := by decide +kernel
example : effective { kind := .tuples 3 } (some (.list [.str ['0', 'x', '1', '0', ':', '1', ':', '2'], .str ['1', ':', '2', ':', '3']]))
    (some (.atom (.str ['1', ':', '2', ':', '3']))) none none = .ok .cli (.tuples [[16, 1, 2], [1, 2, 3]]) := by decide +kernel
example : effective { kind := .enums [(['D', 'S', 'C'], 16), (['S', 'A'], 39)] } (some (.list [.str ['S', 'A'], .str ['0', 'x', '1', '0']]))
    none none (some (.ints [16])) = .ok .cli (.ints [39, 16]) := by decide +kernel
example : effective { kind := .int } none (some (.atom (.str [' ', '0', '0', '7', '.', '0']))) (some (.atom (.str ['z']))) (some (.int 3))
    = .ok .env (.int 7) := by decide +kernel

/-- no provider can give a `dict[str, Any]` option a value: the command line hands over a list, the environment a
    string (the known finding about `gallia script vecu db --properties`) -/
theorem dict_unprovidable (fld : Field) (h : fld.kind = .dict) (r : Raw) (hr : r ≠ .flag) :
    provided fld r = .error .wrongShape := by
  cases r <;> simp_all [provided, parse]

/-- the hypotheses of `invalid_names_source` are satisfiable: `GALLIA_DEPTH=0xzz` with `depth = 5` in the file and a
    default of 4 is refused, naming the environment -/
example : effective { kind := .autoInt } none (some (.atom (.str ['0', 'x', 'z', 'z']))) (some (.atom (.int 5))) (some (.int 4))
    = .rejected .env .notInt := by decide +kernel

example : effective { kind := .autoInt } (some (.atom (.str ['0', 'x', '1', '1']))) (some (.atom (.str ['z'])))
    (some (.atom (.int 5))) (some (.int 4)) = .ok .cli (.int 17) := by decide +kernel

/-- bare `--reset` of an option with a const takes the const, still with command-line priority -/
example : effective { kind := .autoInt, optional := true, const := some (.int 1) } (some .flag) (some (.atom (.str ['7']))) none (some .none)
    = .ok .cli (.int 1) := by decide +kernel

/-! ### value codecs of the special field types -/

theorem parseMag0_decimal (n : Nat) : parseMag0 (Nat.toDigits 10 n) = some n := by
  by_cases hn : n = 0
  · subst hn; decide +kernel
  · obtain ⟨c, t, e, h0, hu, _, _⟩ := toDigits_head n (by omega)
    have hp' := parseDigits_toDigits 10 (by omega) (by omega) n
    rw [e] at hp' ⊢
    simp [parseMag0, h0, hu, hp']

theorem parseMag0_prefixed (p : Char) (b : Nat) (n : Nat)
    (hp : (p = 'x' ∧ b = 16) ∨ (p = 'o' ∧ b = 8) ∨ (p = 'b' ∧ b = 2)) :
    parseMag0 ('0' :: p :: Nat.toDigits b n) = some n := by
  have hb : 1 < b ∧ b ≤ 16 := by rcases hp with ⟨_, rfl⟩ | ⟨_, rfl⟩ | ⟨_, rfl⟩ <;> omega
  have hne : (Nat.toDigits b n).isEmpty = false := by
    cases h : Nat.toDigits b n with
    | nil => exact absurd h Nat.toDigits_ne_nil
    | cons _ _ => rfl
  have hpd := parseDigits_toDigits b hb.1 hb.2 n
  rcases hp with ⟨rfl, rfl⟩ | ⟨rfl, rfl⟩ | ⟨rfl, rfl⟩ <;> simp [parseMag0, hne, hpd]

/-- a magnitude text without white space, optionally signed, is read by `int(x, 0)` as that (signed) number -/
theorem autoInt_of_mag (s : Str) (n : Nat) (hws : ∀ c ∈ s, isWs c = false) (hm : parseMag0 s = some n)
    (hsign : ∀ c t, s = c :: t → (c == '-') = false ∧ (c == '+') = false) :
    parseAutoInt s = some (Int.ofNat n) ∧ parseAutoInt ('-' :: s) = some (-(Int.ofNat n)) ∧
    parseAutoInt ('+' :: s) = some (Int.ofNat n) := by
  have hm' : isWs '-' = false := by decide
  have hp' : isWs '+' = false := by decide
  unfold parseAutoInt
  rw [strip_noWs s hws, strip_noWs ('-' :: s) (by intro c hc; rcases List.mem_cons.mp hc with rfl | h; exact hm'; exact hws c h),
    strip_noWs ('+' :: s) (by intro c hc; rcases List.mem_cons.mp hc with rfl | h; exact hp'; exact hws c h)]
  cases s with
  | nil => simp [parseMag0] at hm
  | cons c t =>
    obtain ⟨h1, h2⟩ := hsign c t rfl
    refine ⟨?_, ?_, ?_⟩
    · simp only [withSign, h1, h2]; simp [hm]
    · simp [withSign, hm]
    · simp [withSign, hm]

/-- AutoInt reads a number back from its decimal text, with or without sign -/
theorem autoInt_decimal (n : Nat) :
    parseAutoInt (Nat.toDigits 10 n) = some (Int.ofNat n) ∧
    parseAutoInt ('-' :: Nat.toDigits 10 n) = some (-(Int.ofNat n)) ∧
    parseAutoInt ('+' :: Nat.toDigits 10 n) = some (Int.ofNat n) := by
  apply autoInt_of_mag _ _ (toDigits_noWs 10 (by omega) (by omega) n) (parseMag0_decimal n)
  intro c t e
  have hc : c ∈ Nat.toDigits 10 n := by rw [e]; simp
  obtain ⟨d, hd, rfl⟩ := toDigits_mem 10 (by omega) (by omega) n hc
  exact ⟨(digitChar_facts d hd).2.2.2.1, (digitChar_facts d hd).2.2.2.2⟩

/-- ... and from its hexadecimal, octal and binary text (`0x..`, `0o..`, `0b..`), with or without sign -/
theorem autoInt_prefixed (p : Char) (b : Nat) (n : Nat)
    (hp : (p = 'x' ∧ b = 16) ∨ (p = 'o' ∧ b = 8) ∨ (p = 'b' ∧ b = 2)) :
    parseAutoInt ('0' :: p :: Nat.toDigits b n) = some (Int.ofNat n) ∧
    parseAutoInt ('-' :: '0' :: p :: Nat.toDigits b n) = some (-(Int.ofNat n)) ∧
    parseAutoInt ('+' :: '0' :: p :: Nat.toDigits b n) = some (Int.ofNat n) := by
  have hb : 1 < b ∧ b ≤ 16 := by rcases hp with ⟨_, rfl⟩ | ⟨_, rfl⟩ | ⟨_, rfl⟩ <;> omega
  apply autoInt_of_mag _ _ _ (parseMag0_prefixed p b n hp)
  · intro c t e
    injection e with e1 _
    subst e1
    decide
  · intro c hc
    simp only [List.mem_cons] at hc
    rcases hc with rfl | rfl | hc
    · decide
    · rcases hp with ⟨rfl, _⟩ | ⟨rfl, _⟩ | ⟨rfl, _⟩ <;> decide
    · exact toDigits_noWs b hb.1 hb.2 n c hc

example : parseAutoInt ['-', '0', 'x', '1', 'f'] = some (-31) := by decide +kernel

/-- HexInt (`int(x, 16)`) reads a number back from its hexadecimal text, bare or with the `0x` prefix, with or without sign -/
theorem hexInt_digits (n : Nat) :
    parseHexInt (Nat.toDigits 16 n) = some (Int.ofNat n) ∧ parseHexInt ('-' :: Nat.toDigits 16 n) = some (-(Int.ofNat n)) ∧
    parseHexInt ('0' :: 'x' :: Nat.toDigits 16 n) = some (Int.ofNat n) ∧
    parseHexInt ('-' :: '0' :: 'x' :: Nat.toDigits 16 n) = some (-(Int.ofNat n)) := by
  have hws := toDigits_noWs 16 (by omega) (by omega) n
  have h1 := signed_of_mag parseMag16 _ n hws (parseMag16_digits n) (by
    intro c t e
    have hc : c ∈ Nat.toDigits 16 n := by rw [e]; simp
    obtain ⟨d, hd, rfl⟩ := toDigits_mem 16 (by omega) (by omega) n hc
    exact ⟨(digitChar_facts d hd).2.2.2.1, (digitChar_facts d hd).2.2.2.2⟩)
  have h2 := signed_of_mag parseMag16 ('0' :: 'x' :: Nat.toDigits 16 n) n (by
    intro c hc
    simp only [List.mem_cons] at hc
    rcases hc with rfl | rfl | hc
    · decide
    · decide
    · exact hws c hc) (parseMag16_prefixed n).1 (by
    intro c t e
    injection e with e1 _
    subst e1
    decide)
  exact ⟨h1.1, h1.2.1, h2.1, h2.2.1⟩

example : parseHexInt [' ', '-', '0', 'X', '_', '1', 'f', ' '] = some (-31) := by decide +kernel

/-- a plain `int` field (pydantic's lax mode) reads every integer back from its decimal text -/
theorem laxInt_decimal (i : Int) : parseLaxInt (showInt i) = some i := by
  have key : ∀ n, parseLaxInt (Nat.toDigits 10 n) = some (Int.ofNat n) ∧
      (0 < n → parseLaxInt ('-' :: Nat.toDigits 10 n) = some (-(Int.ofNat n))) := by
    intro n
    obtain ⟨hz, hd, hu, hj⟩ := laxSteps_decimal n
    have hdig := toDigits10_isDigit n
    have hws : ∀ c ∈ Nat.toDigits 10 n, isWs c = false := fun c hc => (isDigit_not_special c (hdig c hc)).2.2.2.2
    obtain ⟨c, t, e⟩ : ∃ c t, Nat.toDigits 10 n = c :: t := by
      cases h : Nat.toDigits 10 n with
      | nil => exact absurd h Nat.toDigits_ne_nil
      | cons c t => exact ⟨c, t, rfl⟩
    have hc := isDigit_not_special c (hdig c (by rw [e]; simp))
    have hcm : c ≠ '-' := by simpa using hc.2.2.1
    have hcp : c ≠ '+' := by simpa using hc.2.2.2.1
    constructor
    · have hs : strip (Nat.toDigits 10 n) = Nat.toDigits 10 n := strip_noWs _ hws
      unfold parseLaxInt
      simp only [hs]
      rw [e] at hz hd hu hj ⊢
      have hjs : jsonInt (c :: t) = some (Int.ofNat n) := by
        unfold jsonInt
        split
        · rename_i t' heq
          injection heq with h1 _
          exact absurd h1 hcm
        · simp [hj]
      simp [hcp, hcm, hz, hd, hu, hjs]
    · intro _
      have hs : strip ('-' :: Nat.toDigits 10 n) = '-' :: Nat.toDigits 10 n :=
        strip_noWs _ (by intro x hx; rcases List.mem_cons.mp hx with rfl | hx; decide; exact hws x hx)
      unfold parseLaxInt
      simp only [hs]
      rw [e] at hz hd hu hj ⊢
      simp [hcp, hcm, hz, hd, hu, jsonInt, hj]
  cases i with
  | ofNat n => exact (key n).1
  | negSucc n =>
    have := (key (n + 1)).2 (by omega)
    simpa [showInt, showNat, Int.negSucc_eq] using this

example : parseLaxInt [' ', '0', '0', '1', '_', '0', '.', '0', '0'] = some 10 := by decide +kernel
example : parseLaxInt ['1', '.'] = none ∧ parseLaxInt ['0', 'x', '1'] = none ∧ parseLaxInt ['1', '_', '_', '0'] = none := by decide +kernel

/-- HexBytes: the stored hex text (`hexlify`) parses back to the same bytes, any length -/
theorem hexBytes_roundtrip (b : Bytes) : parse .hexBytes (.atom (.str (hexOf b))) = .ok (.bytes b) := by
  simp [parse, unhexChars_hexOf]

theorem loadKey_showInt (k : Int) : loadKey (showInt k) = some k := by
  have hdig : ∀ n, (Nat.toDigits 10 n).all Char.isDigit = true := by
    intro n
    rw [List.all_eq_true]
    intro c hc
    exact Nat.isDigit_of_mem_toDigits (by omega) (by omega) hc
  have hmag : ∀ n, parseDecMag (Nat.toDigits 10 n) = some n := by
    intro n
    have hne : (Nat.toDigits 10 n).isEmpty = false := by
      cases h : Nat.toDigits 10 n with
      | nil => exact absurd h Nat.toDigits_ne_nil
      | cons _ _ => rfl
    simp [parseDecMag, hne, hdig n, parseDigits_toDigits 10 (by omega) (by omega) n]
  cases k with
  | ofNat n =>
    simp only [loadKey, parseDecInt, showInt, showNat]
    cases h : Nat.toDigits 10 n with
    | nil => exact absurd h Nat.toDigits_ne_nil
    | cons c t =>
      have hc : c ∈ Nat.toDigits 10 n := by rw [h]; simp
      obtain ⟨d, hd, rfl⟩ := toDigits_mem 10 (by omega) (by omega) n hc
      obtain ⟨_, _, _, h4, h5⟩ := digitChar_facts d hd
      simp only [withSign, h4, h5]
      rw [← h, hmag n]
      rfl
  | negSucc n =>
    simp only [loadKey, parseDecInt, showInt, showNat, withSign, beq_self_eq_true, if_true, hmag (n + 1)]
    simp [Int.negSucc_eq]

/-- the stored configuration re-creates the value: `load (dump v) = v` for every field type and every value the
    validators can produce (AutoInt, plain int, enum by value, bool, str / Path / URI text, HexBytes, Ranges, Ranges2D,
    list[AutoInt], `None` of optional fields) -/
theorem load_dump (fld : Field) (v : Val) (h : WellTyped fld v) : load fld (dump v) = .ok v := by
  obtain ⟨kind, opt, cst, pos⟩ := fld
  cases v with
  | none => simp_all [WellTyped, dump, load]
  | int i =>
    simp only [WellTyped] at h
    rcases h with rfl | rfl | rfl | ⟨ms, rfl, hm⟩
    · simp [dump, load, parse]
    · simp [dump, load, parse]
    · simp [dump, load, parse]
    · simp [dump, load, parse, enumLookup, hm]
  | bool b =>
    simp only [WellTyped] at h
    subst h
    simp [dump, load, parse]
  | text s =>
    simp only [WellTyped] at h
    rcases h with rfl | rfl | ⟨cs, rfl, hm⟩
    · simp [dump, load, parse]
    · simp [dump, load]
    · have hm' : s ∈ cs := by simpa using hm
      simp [dump, load, parse, hm']
  | bytes b =>
    simp only [WellTyped] at h
    subst h
    simp [dump, load, parse, unhexChars_hexOf]
  | ints l =>
    simp only [WellTyped] at h
    rcases h with rfl | rfl | ⟨ms, rfl, hm⟩
    · cases l with
      | nil => simp [dump, load, parse, allSome, intercalate, unravel]
      | cons a l =>
        have h1 := allSome_atomStr_int a l
        have h2 := allSome_atomInt (a :: l)
        simp only [dump, load, parse]
        split
        · rename_i ss hss; rw [h1] at hss; cases hss
        · split
          · rename_i is his; rw [h2] at his; cases his; rfl
          · rename_i his; rw [h2] at his; cases his
    · have := allSome_autoInts l
      simp only [dump, load, parse]
      split
      · rename_i is his; rw [this] at his; cases his; rfl
      · rename_i his; rw [this] at his; cases his
    · have := parseEach_enums ms l hm
      simp only [dump, load, parse]
      rw [this]
  | tuples l =>
    simp only [WellTyped] at h
    obtain ⟨n, rfl, hl⟩ := h
    simp [dump, load, hl]
  | dict t =>
    simp only [WellTyped] at h
    obtain ⟨rfl, ht⟩ := h
    simp [dump, load, ht]
  | map m =>
    simp only [WellTyped] at h
    subst h
    simp only [dump, load]
    have : allSome ((m.map dumpEntry).map loadEntry) = some m := by
      induction m with
      | nil => rfl
      | cons x xs ih =>
        obtain ⟨k, v⟩ := x
        simp only [List.map_cons, allSome, loadEntry, dumpEntry, loadKey_showInt, Option.map_some] at *
        rw [ih]; rfl
    split
    · rename_i kv hkv; rw [this] at hkv; cases hkv; rfl
    · rename_i hkv; rw [this] at hkv; cases hkv

/-- `load_dump` is not vacuous: a Ranges2D value and an optional AutoInt holding `None` are well typed -/
example : WellTyped { kind := .ranges2d } (.map [(1, some [2, 3]), (4, none)]) := rfl
example : WellTyped { kind := .autoInt, optional := true } .none := rfl
example : load { kind := .ranges2d } (dump (.map [(1, some [2, 3]), (-4, none)])) = .ok (.map [(1, some [2, 3]), (-4, none)]) := by
  rfl

/-! ### the stored configuration as a whole -/

/-- a configuration that fits a schema: the same names in the same order, every value of its field's type -/
def Conforms : List (Str × Field × Option Val) → List (Str × Val) → Prop
  | [], [] => True
  | (n, f, _) :: s, (n', v) :: c => n = n' ∧ WellTyped f v ∧ Conforms s c
  | _, _ => False

/-- the configuration stored in META.json / the database, fed back field by field, is the configuration: for every
    schema (any number of fields of any kinds, names pairwise different) and every configuration that fits it -/
theorem reload_store (schema : List (Str × Field × Option Val)) (cfg : List (Str × Val))
    (hnd : (schema.map (·.1)).Nodup) (hc : Conforms schema cfg) :
    reload schema (store cfg) = .ok cfg := by
  -- generalise over fields already passed: their stored entries sit in front and carry other names
  suffices h : ∀ (pre : List (Str × Val)), (∀ e ∈ pre, e.1 ∉ schema.map (·.1)) →
      reload schema (store (pre ++ cfg)) = .ok cfg from h [] (by simp)
  induction schema generalizing cfg with
  | nil =>
    cases cfg with
    | nil => intro pre _; rfl
    | cons _ _ => exact absurd hc (by simp [Conforms])
  | cons e schema ih =>
    obtain ⟨n, f, d⟩ := e
    cases cfg with
    | nil => exact absurd hc (by simp [Conforms])
    | cons e' cfg =>
      obtain ⟨n', v⟩ := e'
      obtain ⟨rfl, hw, hrest⟩ := hc
      simp only [List.map_cons, List.nodup_cons] at hnd
      intro pre hpre
      have hfind : lookupJ n (store (pre ++ (n, v) :: cfg)) = some (dump v) := by
        induction pre with
        | nil => simp [store, lookupJ]
        | cons p pre ihp =>
          obtain ⟨x, xv⟩ := p
          have hx : x ≠ n := by
            intro hxn
            exact hpre (x, xv) (by simp) (by simp [hxn])
          rw [List.cons_append, lookupJ_store_skip n x xv _ hx]
          exact ihp (fun e he => hpre e (by simp [he]))
      have hnext := ih cfg hnd.2 hrest (pre ++ [(n, v)]) (by
        intro e he
        rcases List.mem_append.mp he with he | he
        · intro hmem
          exact hpre e he (by simp [hmem])
        · simp at he; subst he; exact hnd.1)
      rw [List.append_assoc] at hnext
      simp only [List.singleton_append] at hnext
      simp only [reload, hfind, load_dump f v hw, hnext]

/-- `reload_store` is not vacuous: a configuration with an enum stored by value, a list of DDDI definitions, an
    optional field holding `None`, a dictionary and the enum list of the vecu's randomness parameters -/
example : reload
    [(['s'], { kind := .enum [(['R'], 34)] }, none), (['t'], { kind := .tuples 3 }, none), (['n'], { kind := .autoInt, optional := true }, none),
     (['p'], { kind := .dict, optional := true }, none), (['m'], { kind := .enums [(['A'], 16), (['B'], 39)] }, none)]
    (store [(['s'], .int 34), (['t'], .tuples [[4660, 1, 2], [1, 2, 3]]), (['n'], .none),
            (['p'], .dict (.cons ['a'] (.leaf (.int 1)) .nil)), (['m'], .ints [16, 39])])
    = .ok [(['s'], .int 34), (['t'], .tuples [[4660, 1, 2], [1, 2, 3]]), (['n'], .none),
           (['p'], .dict (.cons ['a'] (.leaf (.int 1)) .nil)), (['m'], .ints [16, 39])] := by rfl

/-! ### every line of a rejection message -/

/-- the first line of the message is the one `effective` reports -/
theorem blamedAll_head (k : Kind) (r : Raw) (extra : Option (Source × Raw)) :
    (blamedAll k r extra).head? = some (blame (reported k r) extra) := by
  have key : ∀ (bad : Atom → Bool) (xs : List Atom),
      ((match xs.filter bad with | [] => [r] | bs => bs.map Raw.atom).map (fun i => blame i extra)).head?
        = some (blame (match xs.find? bad with | some a => Raw.atom a | none => r) extra) := by
    intro bad xs
    induction xs with
    | nil => rfl
    | cons a xs ih =>
      by_cases ha : bad a = true
      · simp [ha]
      · have ha' : bad a = false := by simpa using ha
        simpa [List.filter_cons, ha'] using ih
  unfold blamedAll reportedAll reported
  cases k <;> cases r <;> first | rfl | exact key _ _

/-! ### the file layer -/

/-- an option has a gallia.toml key exactly when it has a config section (its own or its class's): without one the file
    cannot configure it, whatever it holds (`unsectioned_ignores_file`) -/
theorem configKey_none_iff (sect : Option Str) (name : Str) : configKey sect name = none ↔ sect = none := by
  cases sect with
  | none => simp [configKey]
  | some s => simp [configKey]; split <;> simp

/-- the key of an option is looked up at the parts of its section followed by its name -/
theorem configKey_path (s name : Str) (hs : s ≠ []) (hname : ∀ c ∈ name, (c == '.') = false) (doc : Tree) :
    fileValue doc (some s) name = getPath doc (splitOn '.' s ++ [name]) := by
  have : s.isEmpty = false := by cases s <;> simp_all
  simp only [fileValue, configKey, this, Bool.false_eq_true, if_false, Option.bind_some, getValue]
  rw [splitOn_append_sep, splitOn_no_sep '.' name hname]
  cases h : splitOn '.' s with
  | nil => exact absurd h (splitOn_ne_nil _ _)
  | cons x xs => rfl

/-- `--template` written out and parsed back: every key the registry lists with a default is read back by
    `Config.get_value` as that default - `false`, `0` and `""` included -/
theorem template_roundtrip (reg : List (List Str × Option Tree)) (h : prefixFree (templateKeys reg) = true)
    (k : List Str) (v : Tree) (hk : (k, some v) ∈ reg) : getPath (templateDoc reg) k = some v := by
  have hkne : k ≠ [] := prefixFree_mem h (List.mem_map_of_mem (f := (·.1)) hk)
  rw [getPath_eq_lookup _ _ hkne, templateDoc_eq]
  exact lookup_templateDoc reg .nil h k v hk

/-- a key the template only mentions in a comment (no default) is not set by it -/
theorem template_commented_absent (reg : List (List Str × Option Tree)) (h : prefixFree (templateKeys reg) = true)
    (k : List Str) (hk : (k, none) ∈ reg) : getPath (templateDoc reg) k = none := by
  have hkne : k ≠ [] := prefixFree_mem h (List.mem_map_of_mem (f := (·.1)) hk)
  rw [getPath_eq_lookup _ _ hkne, templateDoc_eq, lookup_templateDoc_commented reg .nil h k hk]
  exact lookup_nil_tbl k

example : getValue (templateDoc [([['g'], ['v']], some (.leaf (.int 0))), ([['g'], ['h'], ['x']], some (.leaf (.bool false))),
    ([['g'], ['d']], none)]) ['g', '.', 'h', '.', 'x'] = some (.leaf (.bool false)) := by decide +kernel

/-- a value that is present is returned whatever it is (`false` is not "absent"), a path through a value is absent -/
example : getValue (.cons ['a'] (.cons ['b'] (.leaf (.bool false)) .nil) .nil) ['a', '.', 'b'] = some (.leaf (.bool false)) ∧
    getValue (.cons ['a'] (.cons ['b'] (.leaf (.bool false)) .nil) .nil) ['a', '.', 'b', '.', 'c'] = none := by decide +kernel

/-! ### which gallia.toml is picked -/

/-- GALLIA_CONFIG decides alone: an existing file is taken, a missing one is an error - whatever the directories hold -/
theorem env_file_decides (w : World) :
    (w.envFile = .existing → search w = .file .env) ∧ (w.envFile = .missing → search w = .notFound) := by
  constructor <;> intro h <;> simp [search, h]

/-- without GALLIA_CONFIG the file picked is the first candidate - working directory, git root, user config directory,
    extra paths, in this order - that holds a gallia.toml -/
theorem discovery_order (w : World) (h : w.envFile = .unset) (p : Place) :
    search w = .file p ↔
      ∃ pre post, candidates w = pre ++ p :: post ∧ holds w p = true ∧ ∀ q ∈ pre, holds w q = false := by
  simp only [search, h]
  constructor
  · intro hs
    split at hs
    · rename_i x hx
      injection hs with hs; subst hs
      exact find_split _ _ _ hx
    · cases hs
  · rintro ⟨pre, post, e, hp, hpre⟩
    rw [e, find_first _ pre post p hp hpre]

theorem discovery_nothing (w : World) (h : w.envFile = .unset) :
    search w = .nothing ↔ ∀ q ∈ candidates w, holds w q = false := by
  simp only [search, h]
  constructor
  · intro hs
    split at hs
    · cases hs
    · rename_i hn
      intro q hq
      have := List.find?_eq_none.mp hn q hq
      simpa using this
  · intro hall
    have : (candidates w).find? (holds w) = none := List.find?_eq_none.mpr (fun q hq => by simp [hall q hq])
    simp [this]

/-- the choice depends on nothing after the chosen candidate: two worlds with the same candidate list that agree on
    which of the candidates up to and including the chosen one hold a file pick the same file -/
theorem discovery_independent_of_later (w w2 : World) (h : w.envFile = .unset) (h2 : w2.envFile = .unset)
    (pre post post2 : List Place) (p : Place)
    (hc : candidates w = pre ++ p :: post) (hc2 : candidates w2 = pre ++ p :: post2)
    (hp : holds w p = true) (hpre : ∀ q ∈ pre, holds w q = false)
    (hagree : ∀ q ∈ pre ++ [p], holds w2 q = holds w q) :
    search w = .file p ∧ search w2 = .file p := by
  constructor
  · exact (discovery_order w h p).mpr ⟨pre, post, hc, hp, hpre⟩
  · refine (discovery_order w2 h2 p).mpr ⟨pre, post2, hc2, ?_, ?_⟩
    · rw [hagree p (by simp), hp]
    · intro q hq; rw [hagree q (by simp [hq]), hpre q hq]

/-- only the candidates matter: directories between the working directory and the git root, and above it, are not
    searched - two worlds with the same candidates that agree on them find the same file -/
theorem discovery_only_candidates (w w2 : World) (he : w.envFile = w2.envFile) (hc : candidates w = candidates w2)
    (hagree : ∀ q ∈ candidates w, holds w q = holds w2 q) : search w = search w2 := by
  unfold search
  rw [← he, ← hc, find_congr _ _ _ hagree]

/-- the git root is the nearest directory, from the working directory upwards, that holds a `.git` -/
theorem git_root_nearest (w : World) (n : Nat) (h : gitRoot w = some n) :
    (∃ d, w.chain[n]? = some d ∧ d.hasGit = true) ∧ ∀ j, j < n → ∀ d, w.chain[j]? = some d → d.hasGit = false := by
  obtain ⟨i, e, hd, hlt⟩ := gitRootFrom_spec w.chain 0 n h
  have : n = i := by omega
  subst this
  exact ⟨hd, hlt⟩

/-- the hypotheses are satisfiable: a gallia.toml in the parent directory is not found from a sub-directory unless
    the parent is the git root; with the `.git` there it is found, and a file in the user directory loses against it -/
example : search { chain := [⟨false, false⟩, ⟨false, true⟩], envFile := .unset, xdgSet := false, xdgToml := false, homeToml := true, extra := [] }
    = .file .user := by decide +kernel
example : search { chain := [⟨false, false⟩, ⟨true, true⟩], envFile := .unset, xdgSet := false, xdgToml := false, homeToml := true, extra := [] }
    = .file (.up 1) := by decide +kernel

/-! ### one option through all layers -/

/-- an option without a config section resolves as if gallia.toml were empty -/
theorem unsectioned_ignores_file (o : OptDecl) (h : o.sect = none) (cli : Option Raw) (environ : Str → Option Str) (doc : Tree)
    (d : Option Val) : resolveOption o cli environ doc d = resolveOption o cli environ .nil d := by
  simp [resolveOption, h, fileValue, configKey]

/-- an option declared without gallia's `Field()` is configured by the command line and its default only -/
theorem unconfigurable_cli_or_default (o : OptDecl) (h : o.configurable = false) (cli : Option Raw) (environ : Str → Option Str)
    (doc : Tree) (d : Option Val) : resolveOption o cli environ doc d = effective o.field cli none none d := by
  simp [resolveOption, h]

/-- CLI > env > file > default through the layers: the environment variable `GALLIA_<NAME>` beats the key
    `<section>.<name>` of gallia.toml, the command line beats both -/
theorem layers_precedence (o : OptDecl) (hc : o.configurable = true) (hpos : o.field.positional = false)
    (s name : Str) (hs : o.sect = some s) (hn : o.name = name) (environ : Str → Option Str) (doc : Tree) (d : Option Val)
    (r : Raw) (v : Val) (hok : provided o.field r = .ok v) :
    resolveOption o (some r) environ doc d = .ok .cli v ∧
    (∀ t, environ (envName name) = some t → r = .atom (.str t) → resolveOption o none environ doc d = .ok .env v) ∧
    (∀ tr, environ (envName name) = none → fileValue doc (some s) name = some tr → r = rawOfTree tr →
      resolveOption o none environ doc d = .ok .file v) := by
  subst hn
  refine ⟨?_, ?_, ?_⟩
  · simp [resolveOption, effective, argValue, hok]
  · intro t ht hr
    subst hr
    simp [resolveOption, hc, ht, effective, argValue, extraDefault, offered, hpos, hok]
  · intro tr he hf hr
    subst hr
    simp [resolveOption, hc, he, hs, hf, effective, argValue, extraDefault, offered, hpos, hok]

/-- `depth = 7` under `[gallia.scanner]` is the effective value when neither `--depth` nor GALLIA_DEPTH is given -/
example : resolveOption { name := "depth".toList, field := { kind := .autoInt }, sect := some "gallia.scanner".toList, configurable := true }
    none (fun _ => none) (.cons "gallia".toList (.cons "scanner".toList (.cons "depth".toList (.leaf (.int 7)) .nil) .nil) .nil) (some (.int 4))
    = .ok .file (.int 7) := by decide +kernel

/-! ### facts about the option table regenerated from the live command tree -/

open Gallia.Gen.C18Options in
/-- no two options of one command read the same GALLIA_<NAME> variable -/
theorem env_names_unique_per_command :
    ∀ c, c < commands.length → ((rows.filter (·.cmd == c)).filterMap (·.env)).Nodup := by decide +kernel

open Gallia.Gen.C18Options in
/-- no two options of one command read the same gallia.toml key -/
theorem file_keys_unique_per_command :
    ∀ c, c < commands.length → ((rows.filter (·.cmd == c)).filterMap (·.key)).Nodup := by decide +kernel

open Gallia.Gen.C18Options in
/-- every option declared with gallia's Field() (and not positional) has an environment name -/
theorem configurable_has_env :
    rows.all (fun r => !r.configurable || r.positional || r.env.isSome) = true := by decide +kernel

open Gallia.Gen.C18Options in
/-- every key an option is expected under is one the template prints (a key of the registry) ... -/
theorem file_keys_are_template_keys :
    rows.all (fun r => match r.key with | some k => decide (k < nTemplateKeys) | none => true) = true := by decide +kernel

open Gallia.Gen.C18Options in
/-- ... and every key the template prints belongs to some command's option -/
theorem template_keys_all_used :
    ∀ k, k < nTemplateKeys → rows.any (fun r => r.key == some k) = true := by decide +kernel

open Gallia.Gen.C18Options in
/-- every option of every command has a field kind the model covers: an annotation the model lacks shows up in the
    regenerated table as `unmodelled` and breaks this obligation -/
theorem all_kinds_modelled : rows.all (fun r => r.tag != .unmodelled) = true := by decide +kernel

/-- ... and every tag of the table stands for a kind of the model -/
theorem tags_have_kinds (t : KindTag) (h : t ≠ .unmodelled) : ∃ k : Kind, k.tag = t := by
  cases t <;> first
    | exact absurd rfl h
    | exact ⟨.bool, rfl⟩ | exact ⟨.int, rfl⟩ | exact ⟨.autoInt, rfl⟩ | exact ⟨.hexInt, rfl⟩ | exact ⟨.text, rfl⟩
    | exact ⟨.opaque, rfl⟩ | exact ⟨.hexBytes, rfl⟩ | exact ⟨.ranges, rfl⟩ | exact ⟨.ranges2d, rfl⟩ | exact ⟨.enum [], rfl⟩
    | exact ⟨.choice [], rfl⟩ | exact ⟨.autoInts, rfl⟩ | exact ⟨.tuples 0, rfl⟩ | exact ⟨.enums [], rfl⟩ | exact ⟨.dict, rfl⟩

open Gallia.Gen.C18Options in
/-- the kinds whose lists are validated element by element (where a rejection reports the element, not the list) are
    not read from gallia.toml by any shipped command: for the file the whole-value attribution of `invalid_names_source` applies -/
theorem elementwise_kinds_not_in_file :
    rows.all (fun r => !(r.tag == .autoInts || r.tag == .enums || r.tag == .tuples) || r.key.isNone) = true := by decide +kernel

open Gallia.Gen.C18Options in
/-- no positional argument has a gallia.toml key (the file could not provide it anyway: `positional_cli_only`) -/
theorem positional_not_in_file : rows.all (fun r => !r.positional || r.key.isNone) = true := by decide +kernel

open Gallia.Gen.C18Options in
/-- the keys of the live registry are prefix free: `template_roundtrip` applies to the template gallia really prints -/
theorem registry_prefix_free : prefixFree (registry.map (·.1)) = true := by decide +kernel

open Gallia.Gen.C18Options in
/-- no two options of one command share a name (`reload_store` looks the stored values up by name) -/
theorem option_names_unique_per_command :
    ∀ c, c < commands.length → ((rows.filter (·.cmd == c)).map (·.opt)).Nodup := by decide +kernel

open Gallia.Gen.C18Options in
/-- every row refers to a command of the tree -/
theorem rows_commands_valid : rows.all (fun r => decide (r.cmd < commands.length)) = true := by decide +kernel

end Gallia.C18
