import Gallia.Proofs.Lemmas.Config
import Gallia.Gen.C18Options
/-
  C18 — Settings resolve CLI > env > file > default; a stored config re-creates the run.
  Property theorems only; helper lemmas are in `Proofs/Lemmas/Config.lean`.
-/
namespace Gallia.C18
open Gallia Gallia.Config

/-! ### precedence -/

/-- the three stages the code has (env over file in the extra defaults, command line over extra default, field
    default last) compose to CLI > env > file > default: all 16 provider combinations -/
theorem precedence {α} (c e f d : Option α) :
    resolve c e f d =
      match c, e, f, d with
      | some v, _, _, _ => some (.cli, v)
      | none, some v, _, _ => some (.env, v)
      | none, none, some v, _ => some (.file, v)
      | none, none, none, some v => some (.dflt, v)
      | none, none, none, none => none := by
  cases c <;> cases e <;> cases f <;> cases d <;> rfl

/-- a value is effective only if every provider of higher priority is silent -/
theorem resolve_sound {α} (c e f d : Option α) (src : Source) (v : α) (h : resolve c e f d = some (src, v)) :
    (src = .cli ∧ c = some v) ∨ (src = .env ∧ c = none ∧ e = some v) ∨ (src = .file ∧ c = none ∧ e = none ∧ f = some v) ∨
    (src = .dflt ∧ c = none ∧ e = none ∧ f = none ∧ d = some v) := by
  cases c <;> cases e <;> cases f <;> cases d <;> simp_all [resolve, argValue, extraDefault]

/-- nothing is effective only if nobody provides anything (a required option left out) -/
theorem resolve_none_iff {α} (c e f d : Option α) : resolve c e f d = none ↔ c = none ∧ e = none ∧ f = none ∧ d = none := by
  cases c <;> cases e <;> cases f <;> cases d <;> simp [resolve, argValue, extraDefault]

/-! ### validity layer -/

/-- an invalid value of the winning provider is rejected with that provider named - whatever the lower providers and
    the default would have offered, it is never skipped in their favour -/
theorem invalid_names_source (fld : Field) (c e f : Option Raw) (d : Option Val) (src : Source) (r : Raw) (m : Msg)
    (hw : resolve c e f none = some (src, r)) (hbad : provided fld r = .error m) :
    effective fld c e f d = .rejected src m := by
  cases c <;> cases e <;> cases f <;>
    simp_all [resolve, effective, argValue, extraDefault] <;>
    (obtain ⟨rfl, rfl⟩ := hw; simp [hbad])

/-- ... and a valid one is the effective value, attributed to that provider -/
theorem valid_winner_effective (fld : Field) (c e f : Option Raw) (d : Option Val) (src : Source) (r : Raw) (v : Val)
    (hw : resolve c e f none = some (src, r)) (hok : provided fld r = .ok v) :
    effective fld c e f d = .ok src v := by
  cases c <;> cases e <;> cases f <;>
    simp_all [resolve, effective, argValue, extraDefault] <;>
    (obtain ⟨rfl, rfl⟩ := hw; simp [hok])

/-- the default is used exactly when all three providers are silent; without a default that is "missing" -/
theorem default_only_when_silent (fld : Field) (d : Option Val) :
    effective fld none none none d = (match d with | some v => .ok .dflt v | none => .missing) := by
  cases d <;> rfl

/-- whatever is accepted is the validated value of the highest-priority provider that spoke, or the default when none did -/
theorem effective_ok_sound (fld : Field) (c e f : Option Raw) (d : Option Val) (src : Source) (v : Val)
    (h : effective fld c e f d = .ok src v) :
    (src = .dflt ∧ c = none ∧ e = none ∧ f = none ∧ d = some v) ∨
    (∃ r, resolve c e f none = some (src, r) ∧ provided fld r = .ok v) := by
  cases c <;> cases e <;> cases f <;> cases d <;>
    simp_all [resolve, effective, argValue, extraDefault] <;>
    (split at h <;> simp_all)

theorem missing_iff (fld : Field) (c e f : Option Raw) (d : Option Val) :
    effective fld c e f d = .missing ↔ c = none ∧ e = none ∧ f = none ∧ d = none := by
  cases c <;> cases e <;> cases f <;> cases d <;> simp [effective, argValue, extraDefault] <;> split <;> simp

/-- a value on the command line makes environment, file and default irrelevant (they are not even validated) -/
theorem cli_overrides (fld : Field) (r : Raw) (e f : Option Raw) (d : Option Val) :
    effective fld (some r) e f d = effective fld (some r) none none none := rfl

/-- an environment value makes file and default irrelevant -/
theorem env_overrides (fld : Field) (r : Raw) (f : Option Raw) (d : Option Val) :
    effective fld none (some r) f d = effective fld none (some r) none none := rfl

/-- a file value makes the default irrelevant -/
theorem file_overrides (fld : Field) (r : Raw) (d : Option Val) :
    effective fld none none (some r) d = effective fld none none (some r) none := rfl

/-- the hypotheses of `invalid_names_source` are satisfiable: `GALLIA_DEPTH=0xzz` with `depth = 5` in the file and a
    default of 4 is refused, naming the environment -/
example : effective { kind := .autoInt } none (some (.atom (.str ['0', 'x', 'z', 'z']))) (some (.atom (.int 5))) (some (.int 4))
    = .rejected .env .notInt := by decide +kernel

example : effective { kind := .autoInt } (some (.atom (.str ['0', 'x', '1', '1']))) (some (.atom (.str ['z'])))
    (some (.atom (.int 5))) (some (.int 4)) = .ok .cli (.int 17) := by decide +kernel

/-- bare `--reset` of an option with a const takes the const, still with command-line priority -/
example : effective { kind := .autoInt, optional := true, const := some (.int 1) } (some .flag) (some (.atom (.str ['7']))) none (some .none)
    = .ok .cli (.int 1) := by decide +kernel

/-! ### value codecs of the special field types -/

theorem parseMag0_decimal (n : Nat) : parseMag0 (Nat.toDigits 10 n) = some n := by
  by_cases hn : n = 0
  · subst hn; decide +kernel
  · obtain ⟨c, t, e, h0, hu, _, _⟩ := toDigits_head n (by omega)
    have hp' := parseDigits_toDigits 10 (by omega) (by omega) n
    rw [e] at hp' ⊢
    simp [parseMag0, h0, hu, hp']

theorem parseMag0_prefixed (p : Char) (b : Nat) (n : Nat)
    (hp : (p = 'x' ∧ b = 16) ∨ (p = 'o' ∧ b = 8) ∨ (p = 'b' ∧ b = 2)) :
    parseMag0 ('0' :: p :: Nat.toDigits b n) = some n := by
  have hb : 1 < b ∧ b ≤ 16 := by rcases hp with ⟨_, rfl⟩ | ⟨_, rfl⟩ | ⟨_, rfl⟩ <;> omega
  have hne : (Nat.toDigits b n).isEmpty = false := by
    cases h : Nat.toDigits b n with
    | nil => exact absurd h Nat.toDigits_ne_nil
    | cons _ _ => rfl
  have hpd := parseDigits_toDigits b hb.1 hb.2 n
  rcases hp with ⟨rfl, rfl⟩ | ⟨rfl, rfl⟩ | ⟨rfl, rfl⟩ <;> simp [parseMag0, hne, hpd]

/-- a magnitude text without white space, optionally signed, is read by `int(x, 0)` as that (signed) number -/
theorem autoInt_of_mag (s : Str) (n : Nat) (hws : ∀ c ∈ s, isWs c = false) (hm : parseMag0 s = some n)
    (hsign : ∀ c t, s = c :: t → (c == '-') = false ∧ (c == '+') = false) :
    parseAutoInt s = some (Int.ofNat n) ∧ parseAutoInt ('-' :: s) = some (-(Int.ofNat n)) ∧
    parseAutoInt ('+' :: s) = some (Int.ofNat n) := by
  have hm' : isWs '-' = false := by decide
  have hp' : isWs '+' = false := by decide
  unfold parseAutoInt
  rw [strip_noWs s hws, strip_noWs ('-' :: s) (by intro c hc; rcases List.mem_cons.mp hc with rfl | h; exact hm'; exact hws c h),
    strip_noWs ('+' :: s) (by intro c hc; rcases List.mem_cons.mp hc with rfl | h; exact hp'; exact hws c h)]
  cases s with
  | nil => simp [parseMag0] at hm
  | cons c t =>
    obtain ⟨h1, h2⟩ := hsign c t rfl
    refine ⟨?_, ?_, ?_⟩
    · simp only [withSign, h1, h2]; simp [hm]
    · simp [withSign, hm]
    · simp [withSign, hm]

/-- AutoInt reads a number back from its decimal text, with or without sign -/
theorem autoInt_decimal (n : Nat) :
    parseAutoInt (Nat.toDigits 10 n) = some (Int.ofNat n) ∧
    parseAutoInt ('-' :: Nat.toDigits 10 n) = some (-(Int.ofNat n)) ∧
    parseAutoInt ('+' :: Nat.toDigits 10 n) = some (Int.ofNat n) := by
  apply autoInt_of_mag _ _ (toDigits_noWs 10 (by omega) (by omega) n) (parseMag0_decimal n)
  intro c t e
  have hc : c ∈ Nat.toDigits 10 n := by rw [e]; simp
  obtain ⟨d, hd, rfl⟩ := toDigits_mem 10 (by omega) (by omega) n hc
  exact ⟨(digitChar_facts d hd).2.2.2.1, (digitChar_facts d hd).2.2.2.2⟩

/-- ... and from its hexadecimal, octal and binary text (`0x..`, `0o..`, `0b..`), with or without sign -/
theorem autoInt_prefixed (p : Char) (b : Nat) (n : Nat)
    (hp : (p = 'x' ∧ b = 16) ∨ (p = 'o' ∧ b = 8) ∨ (p = 'b' ∧ b = 2)) :
    parseAutoInt ('0' :: p :: Nat.toDigits b n) = some (Int.ofNat n) ∧
    parseAutoInt ('-' :: '0' :: p :: Nat.toDigits b n) = some (-(Int.ofNat n)) ∧
    parseAutoInt ('+' :: '0' :: p :: Nat.toDigits b n) = some (Int.ofNat n) := by
  have hb : 1 < b ∧ b ≤ 16 := by rcases hp with ⟨_, rfl⟩ | ⟨_, rfl⟩ | ⟨_, rfl⟩ <;> omega
  apply autoInt_of_mag _ _ _ (parseMag0_prefixed p b n hp)
  · intro c t e
    injection e with e1 _
    subst e1
    decide
  · intro c hc
    simp only [List.mem_cons] at hc
    rcases hc with rfl | rfl | hc
    · decide
    · rcases hp with ⟨rfl, _⟩ | ⟨rfl, _⟩ | ⟨rfl, _⟩ <;> decide
    · exact toDigits_noWs b hb.1 hb.2 n c hc

example : parseAutoInt ['-', '0', 'x', '1', 'f'] = some (-31) := by decide +kernel

/-- HexBytes: the stored hex text (`hexlify`) parses back to the same bytes, any length -/
theorem hexBytes_roundtrip (b : Bytes) : parse .hexBytes (.atom (.str (hexOf b))) = .ok (.bytes b) := by
  simp [parse, unhexChars_hexOf]

theorem loadKey_showInt (k : Int) : loadKey (showInt k) = some k := by
  have hdig : ∀ n, (Nat.toDigits 10 n).all Char.isDigit = true := by
    intro n
    rw [List.all_eq_true]
    intro c hc
    exact Nat.isDigit_of_mem_toDigits (by omega) (by omega) hc
  have hmag : ∀ n, parseDecMag (Nat.toDigits 10 n) = some n := by
    intro n
    have hne : (Nat.toDigits 10 n).isEmpty = false := by
      cases h : Nat.toDigits 10 n with
      | nil => exact absurd h Nat.toDigits_ne_nil
      | cons _ _ => rfl
    simp [parseDecMag, hne, hdig n, parseDigits_toDigits 10 (by omega) (by omega) n]
  cases k with
  | ofNat n =>
    simp only [loadKey, parseDecInt, showInt, showNat]
    cases h : Nat.toDigits 10 n with
    | nil => exact absurd h Nat.toDigits_ne_nil
    | cons c t =>
      have hc : c ∈ Nat.toDigits 10 n := by rw [h]; simp
      obtain ⟨d, hd, rfl⟩ := toDigits_mem 10 (by omega) (by omega) n hc
      obtain ⟨_, _, _, h4, h5⟩ := digitChar_facts d hd
      simp only [withSign, h4, h5]
      rw [← h, hmag n]
      rfl
  | negSucc n =>
    simp only [loadKey, parseDecInt, showInt, showNat, withSign, beq_self_eq_true, if_true, hmag (n + 1)]
    simp [Int.negSucc_eq]

/-- the stored configuration re-creates the value: `load (dump v) = v` for every field type and every value the
    validators can produce (AutoInt, plain int, enum by value, bool, str / Path / URI text, HexBytes, Ranges, Ranges2D,
    list[AutoInt], `None` of optional fields) -/
theorem load_dump (fld : Field) (v : Val) (h : WellTyped fld v) : load fld (dump v) = .ok v := by
  obtain ⟨kind, opt, cst⟩ := fld
  cases v with
  | none => simp_all [WellTyped, dump, load]
  | int i =>
    simp only [WellTyped] at h
    rcases h with rfl | rfl | ⟨ms, rfl, hm⟩
    · simp [dump, load, parse]
    · simp [dump, load, parse]
    · simp [dump, load, parse, enumLookup, hm]
  | bool b =>
    simp only [WellTyped] at h
    subst h
    simp [dump, load, parse]
  | text s =>
    simp only [WellTyped] at h
    rcases h with rfl | rfl | ⟨cs, rfl, hm⟩
    · simp [dump, load, parse]
    · simp [dump, load]
    · have hm' : s ∈ cs := by simpa using hm
      simp [dump, load, parse, hm']
  | bytes b =>
    simp only [WellTyped] at h
    subst h
    simp [dump, load, parse, unhexChars_hexOf]
  | ints l =>
    simp only [WellTyped] at h
    rcases h with rfl | rfl
    · cases l with
      | nil => simp [dump, load, parse, allSome, intercalate, unravel]
      | cons a l =>
        have h1 := allSome_atomStr_int a l
        have h2 := allSome_atomInt (a :: l)
        simp only [dump, load, parse]
        split
        · rename_i ss hss; rw [h1] at hss; cases hss
        · split
          · rename_i is his; rw [h2] at his; cases his; rfl
          · rename_i his; rw [h2] at his; cases his
    · have := allSome_autoInts l
      simp only [dump, load, parse]
      split
      · rename_i is his; rw [this] at his; cases his; rfl
      · rename_i his; rw [this] at his; cases his
  | map m =>
    simp only [WellTyped] at h
    subst h
    simp only [dump, load]
    have : allSome ((m.map dumpEntry).map loadEntry) = some m := by
      induction m with
      | nil => rfl
      | cons x xs ih =>
        obtain ⟨k, v⟩ := x
        simp only [List.map_cons, allSome, loadEntry, dumpEntry, loadKey_showInt, Option.map_some] at *
        rw [ih]; rfl
    split
    · rename_i kv hkv; rw [this] at hkv; cases hkv; rfl
    · rename_i hkv; rw [this] at hkv; cases hkv

/-- `load_dump` is not vacuous: a Ranges2D value and an optional AutoInt holding `None` are well typed -/
example : WellTyped { kind := .ranges2d } (.map [(1, some [2, 3]), (4, none)]) := rfl
example : WellTyped { kind := .autoInt, optional := true } .none := rfl
example : load { kind := .ranges2d } (dump (.map [(1, some [2, 3]), (-4, none)])) = .ok (.map [(1, some [2, 3]), (-4, none)]) := by
  rfl

/-! ### facts about the option table regenerated from the live command tree -/

open Gallia.Gen.C18Options in
/-- no two options of one command read the same GALLIA_<NAME> variable -/
theorem env_names_unique_per_command :
    ∀ c, c < commands.length → ((rows.filter (·.cmd == c)).filterMap (·.env)).Nodup := by decide +kernel

open Gallia.Gen.C18Options in
/-- no two options of one command read the same gallia.toml key -/
theorem file_keys_unique_per_command :
    ∀ c, c < commands.length → ((rows.filter (·.cmd == c)).filterMap (·.key)).Nodup := by decide +kernel

open Gallia.Gen.C18Options in
/-- every option declared with gallia's Field() (and not positional) has an environment name -/
theorem configurable_has_env :
    rows.all (fun r => !r.configurable || r.positional || r.env.isSome) = true := by decide +kernel

open Gallia.Gen.C18Options in
/-- every key an option is expected under is one the template prints (a key of the registry) ... -/
theorem file_keys_are_template_keys :
    rows.all (fun r => match r.key with | some k => decide (k < nTemplateKeys) | none => true) = true := by decide +kernel

open Gallia.Gen.C18Options in
/-- ... and every key the template prints belongs to some command's option -/
theorem template_keys_all_used :
    ∀ k, k < nTemplateKeys → rows.any (fun r => r.key == some k) = true := by decide +kernel

open Gallia.Gen.C18Options in
/-- every row refers to a command of the tree -/
theorem rows_commands_valid : rows.all (fun r => decide (r.cmd < commands.length)) = true := by decide +kernel

end Gallia.C18
