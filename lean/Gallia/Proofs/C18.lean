import Gallia.Model.Config
import Gallia.Gen.C18Options
/-
  C18 — Settings resolve CLI > env > file > default; a stored config re-creates the run.
-/
namespace Gallia.C18
open Gallia Gallia.Config

/-- the three stages compose to CLI > env > file > default: all 16 provider combinations -/
theorem precedence {α} (c e f d : Option α) :
    resolve c e f d =
      match c, e, f, d with
      | some v, _, _, _ => some (.cli, v)
      | none, some v, _, _ => some (.env, v)
      | none, none, some v, _ => some (.file, v)
      | none, none, none, some v => some (.dflt, v)
      | none, none, none, none => none := by
  cases c <;> cases e <;> cases f <;> cases d <;> rfl

end Gallia.C18
