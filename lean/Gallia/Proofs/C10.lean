import Gallia.Proofs.Lemmas.Scans
import Gallia.Gen.C10
/-
  C10 — Service and identifier scans report what the ECU really supports, nothing else.

  Two kinds of statement:
  * for **every** ECU (any step function, any state): which requests the scanners put on the wire
    (`probes_only_selected`, `probes_cover`, `skip_respected`);
  * for every **session-determined ECU obeying the ISO default rule** (`SessEcu`, `IsoServiceRule`; the class the
    virtual ECU of C13 belongs to): what is reported (`found_supported`, `found_complete`, `scan_sound`,
    `scan_complete`) and what is counted (`ident_count`, `ident_requests`).
  Configuration domain of the theorems: `--check-session` off (the model and the correspondence cover it; the
  session check only adds `22 F1 86` / `10 xx` exchanges), `--skip-not-supported` off for the count.
-/
namespace Gallia.C10
open Gallia Gallia.Scans

variable {σ : Type}

/-- (T) the literal tables of the scanners as the running code has them -/
theorem tables_agree :
    Gen.C10.sns = SNS ∧ Gen.C10.sfns = SFNS ∧ Gen.C10.imloif = IMLOIF ∧ Gen.C10.roor = ROOR ∧
    Gen.C10.sfnsias = SFNSIAS ∧ Gen.C10.snsias = SNSIAS ∧
    Gen.C10.suggestsServiceNotSupported = serviceNotSupportedCodes ∧
    Gen.C10.suggestsIdentifierNotSupported = identifierNotSupportedCodes ∧
    Gen.C10.probeLengths = probeLengths ∧
    Gen.C10.scanNotSupported = serviceNotSupportedCodes ∧
    Gen.C10.scanNextLength = [IMLOIF] ∧
    Gen.C10.identQuiet = [ROOR, SFNS] ∧
    Gen.C10.routineSubFuncs = routineSubFuncs := by decide

/-- every service id 0x00..0xFF is a candidate, response ids (bit 6) only when asked, skipped ids never -/
theorem selection (cfg : SvcCfg) (session : Option Nat) (sid : Nat) :
    sidSelected cfg session sid = true ↔
      (sid &&& 0x40 = 0 ∨ cfg.scanResponseIds = true) ∧ skipped cfg.skip session sid = false := by
  simp only [sidSelected]
  by_cases h : sid &&& 0x40 = 0 <;> cases cfg.scanResponseIds <;> cases skipped cfg.skip session sid <;> simp [h]

/-- for ANY ECU: `perform_scan` only ever sends probes `sid 00..` of selected service ids with one of the
    probe lengths — in particular nothing for an id the skip option names -/
theorem probes_only_selected (e : Ecu σ) (cfg : SvcCfg) (hc : cfg.checkSession = false) (session : Option Nat)
    (s : σ) (log : List Bytes) :
    ∃ out new, performScan (logged e) cfg session (s, log) = .ok out ∧ out.state.2 = new ++ log ∧
      ∀ r ∈ new, ∃ sid, sid < 256 ∧ sidSelected cfg session sid = true ∧ ∃ l ∈ probeLengths, r = probePdu sid l := by
  obtain ⟨out, new, h1, h2, h3, _⟩ := performScanFrom_log e cfg hc session allSids (s, log)
  refine ⟨out, new, h1, h2, ?_⟩
  intro r hr
  obtain ⟨sid, hs, rest⟩ := h3 r hr
  exact ⟨sid, allSids_lt sid hs, rest⟩

/-- for ANY ECU: every selected service id 0x00..0xFF is probed -/
theorem probes_cover (e : Ecu σ) (cfg : SvcCfg) (hc : cfg.checkSession = false) (session : Option Nat)
    (s : σ) (log : List Bytes) :
    ∃ out new, performScan (logged e) cfg session (s, log) = .ok out ∧ out.state.2 = new ++ log ∧
      ∀ sid, sid < 256 → sidSelected cfg session sid = true → probePdu sid 1 ∈ new := by
  obtain ⟨out, new, h1, h2, _, h4⟩ := performScanFrom_log e cfg hc session allSids (s, log)
  exact ⟨out, new, h1, h2, fun sid hs hsel => h4 sid (by simp [allSids, hs]) hsel⟩

/-- for ANY ECU: no request for a skipped service id leaves the scanner during the scan of that session -/
theorem skip_respected (e : Ecu σ) (cfg : SvcCfg) (hc : cfg.checkSession = false) (k : Nat)
    (s : σ) (log : List Bytes) (sid : Nat) (hs : sid < 256) (hskip : skipped cfg.skip (some k) sid = true) :
    ∃ out new, performScan (logged e) cfg (some k) (s, log) = .ok out ∧ out.state.2 = new ++ log ∧
      ∀ r ∈ new, r.head? ≠ some (b sid) := by
  obtain ⟨out, new, h1, h2, h3⟩ := probes_only_selected e cfg hc (some k) s log
  refine ⟨out, new, h1, h2, ?_⟩
  intro r hr hhead
  obtain ⟨sid', hs', hsel, l, _, rfl⟩ := h3 r hr
  rw [probePdu_head] at hhead
  injection hhead with hhead
  have := b_inj hs' hs hhead
  subst this
  rw [(selection cfg (some k) sid').mp hsel |>.2] at hskip
  cases hskip

/-- reported ⇒ implemented: whatever `perform_scan` records in a session is a service the ECU implements in
    exactly that session, found by a probe that the ECU answered meaningfully there -/
theorem found_supported {e : Ecu σ} (E : SessEcu e) (supp : Nat → Nat → Bool) (R : IsoServiceRule E.ans supp)
    (cfg : SvcCfg) (hc : cfg.checkSession = false) (session : Option Nat) (s : σ) :
    ∃ out, performScan e cfg session s = .ok out ∧ E.sess out.state = E.sess s ∧
      ∀ p ∈ out.found, p.1 < 256 ∧ supp (E.sess s) p.1 = true ∧
        ∃ l ∈ probeLengths, p.2 = E.ans (E.sess s) (probePdu p.1 l) ∧ p.2.meaningful = true := by
  obtain ⟨out, h1, h2, h3, _⟩ := performScanFrom_spec E supp R cfg hc session allSids allSids_lt s
  refine ⟨out, h1, h2, ?_⟩
  intro p hp
  obtain ⟨a, _, c, d, l, hl, hp2⟩ := h3 p hp
  exact ⟨allSids_lt _ a, c, l, hl, hp2, d⟩

/-- implemented ⇒ reported: an implemented, selected service that answers any probe length with something other
    than a not-supported or length error is recorded -/
theorem found_complete {e : Ecu σ} (E : SessEcu e) (supp : Nat → Nat → Bool) (R : IsoServiceRule E.ans supp)
    (cfg : SvcCfg) (hc : cfg.checkSession = false) (session : Option Nat) (s : σ)
    (sid : Nat) (hs : sid < 256) (hsel : sidSelected cfg session sid = true) (hsup : supp (E.sess s) sid = true)
    (hm : ∃ l ∈ probeLengths, (E.ans (E.sess s) (probePdu sid l)).meaningful = true) :
    ∃ out, performScan e cfg session s = .ok out ∧ sid ∈ out.found.map (·.1) := by
  obtain ⟨out, h1, _, _, h4⟩ := performScanFrom_spec E supp R cfg hc session allSids allSids_lt s
  exact ⟨out, h1, h4 sid (by simp [allSids, hs]) hsel hsup hm⟩

/-- the whole service scan over a session list: always terminates with a result; every reported
    (session, service) pair names a service the ECU implements in that session and that is neither skipped nor an
    unrequested response id -/
theorem scan_sound {e : Ecu σ} (E : SessEcu e) (supp : Nat → Nat → Bool) (R : IsoServiceRule E.ans supp)
    (cfg : SvcCfg) (hc : cfg.checkSession = false) (sessions : List Nat) (hcfg : cfg.sessions = some sessions)
    (hlt : ∀ k ∈ sessions, k < 0x80) (s : σ) :
    ∃ r, serviceScan e cfg s = .ok r ∧
      ∀ p ∈ r.result, p.1 ∈ activeSessions cfg.skip sessions ∧ p.2 < 256 ∧
        sidSelected cfg (some p.1) p.2 = true ∧ supp p.1 p.2 = true := by
  have hlt' : ∀ k ∈ activeSessions cfg.skip sessions, k < 0x80 := by
    intro k hk; exact hlt k (List.mem_filter.mp hk).1
  obtain ⟨r, h1, h2, _⟩ := svcSessions_spec E supp R cfg hc (activeSessions cfg.skip sessions) hlt' s
  exact ⟨r, by simp [serviceScan, hcfg, h1], h2⟩

/-- ... and when the ECU lets the scanner enter the requested sessions, nothing implemented and answering is
    left out -/
theorem scan_complete {e : Ecu σ} (E : SessEcu e) (supp : Nat → Nat → Bool) (R : IsoServiceRule E.ans supp)
    (cfg : SvcCfg) (hc : cfg.checkSession = false) (sessions : List Nat) (hcfg : cfg.sessions = some sessions)
    (hlt : ∀ k ∈ sessions, k < 0x80) (s : σ)
    (henter : ∀ ss t, t ∈ activeSessions cfg.skip sessions → (E.ans ss (dscPdu t)).isPos = true)
    (k sid : Nat) (hk : k ∈ activeSessions cfg.skip sessions) (hs : sid < 256)
    (hsel : sidSelected cfg (some k) sid = true) (hsup : supp k sid = true)
    (hm : ∃ l ∈ probeLengths, (E.ans k (probePdu sid l)).meaningful = true) :
    ∃ r, serviceScan e cfg s = .ok r ∧ (k, sid) ∈ r.result := by
  have hlt' : ∀ k ∈ activeSessions cfg.skip sessions, k < 0x80 := by
    intro k hk; exact hlt k (List.mem_filter.mp hk).1
  obtain ⟨r, h1, _, h3⟩ := svcSessions_spec E supp R cfg hc (activeSessions cfg.skip sessions) hlt' s
  exact ⟨r, by simp [serviceScan, hcfg, h1], h3 henter k hk sid hs hsel hsup hm⟩

/-- the scan without a session list reports under key 0 what the ECU implements in its current session -/
theorem scan_sound_current {e : Ecu σ} (E : SessEcu e) (supp : Nat → Nat → Bool) (R : IsoServiceRule E.ans supp)
    (cfg : SvcCfg) (hc : cfg.checkSession = false) (hcfg : cfg.sessions = none) (s : σ) :
    ∃ r, serviceScan e cfg s = .ok r ∧ ∀ p ∈ r.result, p.1 = 0 ∧ p.2 < 256 ∧ supp (E.sess s) p.2 = true := by
  obtain ⟨out, h1, _, h3⟩ := found_supported E supp R cfg hc none s
  refine ⟨⟨out.found.map (fun p => (0, p.1)), out.clean, out.state⟩, by simp [serviceScan, hcfg, h1], ?_⟩
  intro p hp
  simp only [List.mem_map] at hp
  obtain ⟨q, hq, rfl⟩ := hp
  obtain ⟨a, c, _⟩ := h3 q hq
  exact ⟨rfl, a, c⟩

/-- the identifiers in the requested range, each with each sub-function of the scanned service, 0x27 clamped
    to 7 bit -/
theorem ident_range (cfg : IdCfg) (did sf : Nat) :
    (did, sf) ∈ idPairs cfg ↔ cfg.start ≤ did ∧ did ≤ effectiveEnd cfg ∧ sf ∈ subFunctions cfg :=
  mem_idPairs cfg did sf

/-- request layout per scanned service: `27 id`, `31 sf idHi idLo`, `sid idHi idLo`, payload appended -/
theorem ident_pdu_layout (cfg : IdCfg) (did sf : Nat) :
    (cfg.service = 0x27 → idPdu cfg did sf = [0x27, b did] ++ cfg.payload) ∧
    (cfg.service = 0x31 → idPdu cfg did sf = [0x31, b sf, b (did / 256), b (did % 256)] ++ cfg.payload) ∧
    (cfg.service ≠ 0x27 → cfg.service ≠ 0x31 →
      idPdu cfg did sf = [b cfg.service, b (did / 256), b (did % 256)] ++ cfg.payload) := by
  refine ⟨?_, ?_, ?_⟩
  · intro h; simp [idPdu, h, b]
  · intro h; simp [idPdu, h, b]
  · intro h1 h2; simp [idPdu, h1, h2]

/-- the identifier scan of one session sends exactly the requests of the non-skipped identifiers of the range,
    once each, in order, and counts as positive exactly those the ECU answers positively -/
theorem ident_count {e : Ecu σ} (E : SessEcu e) (cfg : IdCfg) (hc : cfg.checkSession = none)
    (hns : cfg.skipNotSupported = false) (hsvc : cfg.service < 256) (h10 : cfg.service ≠ 0x10) (h11 : cfg.service ≠ 0x11)
    (session : Option Nat) (s : σ) (log : List Bytes) :
    ∃ out, idPerformScan (logged e) cfg session (s, log) = .ok out ∧ out.completed = true ∧
      out.state.2 = (((idPairs cfg).filter fun p => !skipped cfg.skip session p.1).map
          fun p => idPdu cfg p.1 p.2).reverse ++ log ∧
      out.counts.positive = ((idPairs cfg).filter fun p =>
          !skipped cfg.skip session p.1 && (E.ans (E.sess s) (idPdu cfg p.1 p.2)).isPos).length := by
  obtain ⟨out, h1, h2, _, h4, h5⟩ := idLoop_spec E cfg hc hns hsvc h10 h11 session (idPairs cfg) {} (s, log)
  exact ⟨out, h1, h2, h4, by simpa using h5⟩

/-! ### non-vacuity: a concrete ECU in the class, with two sessions and a service answering only long probes -/

namespace Example

def ans (ss : Nat) (p : Bytes) : Ans :=
  match p with
  | [0x10, 0x02] => .pos [0x50, 0x02]
  | [0x10, 0x01] => .pos [0x50, 0x01]
  | 0x10 :: _ => .neg SFNS
  | 0x22 :: rest => if ss = 2 then (if rest.length < 2 then .neg IMLOIF else .neg ROOR) else .neg SNSIAS
  | _ => .neg SNS

def nextSess (ss : Nat) (p : Bytes) : Nat :=
  match p with
  | [0x10, 0x02] => 2
  | [0x10, 0x01] => 1
  | _ => ss

def ecu : Ecu Nat := ⟨fun ss p => (nextSess ss p, ans ss p)⟩

def supp (ss sid : Nat) : Bool := sid == 0x10 || (ss == 2 && sid == 0x22)

def cfg : SvcCfg := { sessions := some [1, 2], checkSession := false, scanResponseIds := false, skip := [(1, some [0x10])] }

/-- the scan of this ECU: 0x10 in session 1 is skipped, session 2 offers 0x10 and 0x22 (found by the 2-byte probe) -/
example : (match serviceScan ecu cfg 1 with | .ok r => r.result | .raised _ => []) = [(2, 0x10), (2, 0x22)] := by
  decide +kernel

/-- the example ECU is session-determined in the sense of `SessEcu` -/
def sessEcu : SessEcu ecu where
  sess := id
  ans := ans
  step_ans := fun _ _ => rfl
  sess_keep := by
    intro s p h10 _
    show nextSess s p = s
    unfold nextSess
    split <;> simp_all
  sess_neg := by
    intro s p h
    show nextSess s p = s
    unfold nextSess
    split <;> simp_all [ans, Ans.isPos]
  dsc_pos := by
    intro s x hx h
    show nextSess s (dscPdu x) = x
    have hx' : x = 1 ∨ x = 2 ∨ (x ≠ 1 ∧ x ≠ 2) := by omega
    rcases hx' with rfl | rfl | ⟨h1, h2⟩
    · rfl
    · rfl
    · exfalso
      have hb1 : b x ≠ 1 := by
        intro hh; have := congrArg UInt8.toNat hh; simp [b] at this; omega
      have hb2 : b x ≠ 2 := by
        intro hh; have := congrArg UInt8.toNat hh; simp [b] at this; omega
      simp only [id, dscPdu, ans] at h
      split at h <;> simp_all [Ans.isPos]
  reserved0 := by
    intro ss l
    cases l with
    | zero => exact ⟨rfl, rfl⟩
    | succ n => cases n <;> exact ⟨rfl, rfl⟩

theorem b_eq_iff (sid : Nat) (h : sid < 256) (k : Nat) (hk : k < 256) : b sid = UInt8.ofNat k ↔ sid = k := by
  constructor
  · intro hh; exact b_inj h hk hh
  · intro hh; subst hh; rfl

/-- ... and obeys the ISO default rule for its service table -/
theorem isoRule : IsoServiceRule ans supp where
  unsupported := by
    intro ss sid p hlt hs hh
    cases p with
    | nil => simp at hh
    | cons x rest =>
      simp only [List.head?_cons, Option.some.injEq] at hh
      subst hh
      simp only [supp, Bool.or_eq_false_iff, Bool.and_eq_false_iff, beq_eq_false_iff_ne] at hs
      obtain ⟨h10, h22⟩ := hs
      have e10 : b sid ≠ 0x10 := fun hh => h10 ((b_eq_iff sid hlt 0x10 (by decide)).mp hh)
      unfold ans
      split <;> simp_all [Ans.notSupported, serviceNotSupportedCodes, SNS, SNSIAS]
      · rename_i hss
        have hsid : sid = 0x22 := (b_eq_iff sid hlt 0x22 (by decide)).mp hss.1
        have hs2 : ¬ ss = 2 := by rcases h22 with h | h; exact h; exact absurd hsid h
        simp [hs2]
  supported := by
    intro ss sid p hlt hs hh
    cases p with
    | nil => simp at hh
    | cons x rest =>
      simp only [List.head?_cons, Option.some.injEq] at hh
      subst hh
      simp only [supp, Bool.or_eq_true, Bool.and_eq_true, beq_iff_eq] at hs
      unfold ans
      rcases hs with rfl | ⟨rfl, rfl⟩
      · split <;> simp_all [Ans.notSupported, serviceNotSupportedCodes, SNS, SNSIAS, SFNS, b]
      · split <;> simp_all [Ans.notSupported, serviceNotSupportedCodes, SNS, SNSIAS, IMLOIF, ROOR, b]
        all_goals
          rename_i rest' _
          by_cases hl : rest'.length < 2
          · simp [hl]
          · simp [hl]

end Example

end Gallia.C10
