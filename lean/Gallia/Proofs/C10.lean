import Gallia.Proofs.Lemmas.ScansId
import Gallia.Proofs.Lemmas.ScansWire
import Gallia.Proofs.Lemmas.ScansCheck
import Gallia.Proofs.Lemmas.ScansBound
import Gallia.Proofs.Lemmas.ScansCompat
import Gallia.Gen.C10
/-
  C10 — Service and identifier scans report what the ECU really supports, nothing else.

  Three kinds of statement, all for every configuration (`--check-session` on / off, `--reset`, session hooks):
  * for **every** ECU (any step function, any state) with a request log (`Logs`: one entry per exchange — `logged e` —
    or one entry per transmission — the real client loop over a logging wire ECU, `client_logs`): which requests the
    scanners put on the wire, also in runs that are given up or die (`probes_only_selected`, `probes_cover`,
    `skip_respected`, `scan_requests`, `skipped_session_not_requested`, `ident_requests_only`); what a skip entry with an
    empty id list means (`empty_skip_list_skips_nothing`, `empty_skip_list_scanned_completely`);
  * for every **session-determined ECU obeying the ISO default rule** (`SessEcu`, `IsoServiceRule`; the class the
    virtual ECU of C13 belongs to): what is reported (`found_supported`, `found_complete`, `scan_sound`,
    `scan_complete`, `scan_exact`, `reset_same_result`) and what is counted (`ident_count`, `ident_scan_counts`);
  * for the client loop between scanner and wire: `pending_transparent`, `stuck_needs_max_pending`;
  * for ECUs that **lose the session silently** (`AnsBySession`: answers determined by a session component that may
    change in any way) and read it back honestly: what `--check-session` buys (`check_establishes_session`,
    `probes_in_claimed_session_checked`, `found_supported_checked`, `lost_session_reports_nothing`,
    `given_up_scan_exits_1`);
  * termination with an explicit bound on the number of requests (`requests_bounded`).
-/
namespace Gallia.C10
open Gallia Gallia.Scans

variable {σ : Type}

/-- (T) the literal tables of the scanners as the running code has them -/
theorem tables_agree :
    Gen.C10.sns = SNS ∧ Gen.C10.sfns = SFNS ∧ Gen.C10.imloif = IMLOIF ∧ Gen.C10.roor = ROOR ∧
    Gen.C10.sfnsias = SFNSIAS ∧ Gen.C10.snsias = SNSIAS ∧
    Gen.C10.suggestsServiceNotSupported = serviceNotSupportedCodes ∧
    Gen.C10.suggestsIdentifierNotSupported = identifierNotSupportedCodes ∧
    Gen.C10.probeLengths = probeLengths ∧
    Gen.C10.scanNotSupported = serviceNotSupportedCodes ∧
    Gen.C10.scanNextLength = [IMLOIF] ∧
    Gen.C10.identQuiet = [ROOR, SFNS] ∧
    Gen.C10.routineSubFuncs = routineSubFuncs := by decide

/-- (T) the literal limits of the session check, the reset / wait path and the client loop as the running code has
    them: retries of `check_and_set_session` and of its read-back, `max_retry` per call site, `MAX_N_PENDING`, the
    10 s / 0.5 s / 0.5 s of `wait_for_ecu`, the levels of `leave_session`, the session data identifier -/
theorem limits_agree :
    Gen.C10.brr = BRR ∧ Gen.C10.rcrrp = RCRRP ∧ Gen.C10.maxNPending = maxPending ∧
    Gen.C10.checkRetries = checkRetries ∧ Gen.C10.idCheckRetries = checkRetries ∧ Gen.C10.checkRoundsExtra = 1 ∧
    svcRetry readSessionPdu = Gen.C10.checkRetries ∧ svcRetry (probePdu 0x22 3) = Gen.C10.svcMaxRetry ∧
    svcRetry (dscPdu 2) = Gen.C10.svcMaxRetry ∧ svcRetry pingPdu = Gen.C10.svcMaxRetry ∧
    idRetry 7 [] readSessionPdu = Gen.C10.idCheckRetries ∧ idRetry 7 [] [0x2E, 0x00, 0x01] = Gen.C10.idProbeRetry ∧
    idRetry 7 [] pingPdu = Gen.C10.pingMaxRetry ∧ idRetry 7 [] (dscPdu 2) = 7 ∧
    idRetry 7 [] (resetPdu Gen.C10.leaveReset) = 7 ∧
    Gen.C10.waitTimeoutHalf = waitBudget ∧ Gen.C10.waitSleepHalf = 1 ∧ Gen.C10.pingTimeoutHalf = 1 ∧
    Gen.C10.leaveReset = 1 ∧ Gen.C10.leaveSession = 1 ∧
    readSessionPdu = 0x22 :: toBE Gen.C10.sessionDid 2 := by decide

/-- every service id 0x00..0xFF is a candidate, response ids (bit 6) only when asked, skipped ids never -/
theorem selection (cfg : SvcCfg) (session : Option Nat) (sid : Nat) :
    sidSelected cfg session sid = true ↔
      (sid &&& 0x40 = 0 ∨ cfg.scanResponseIds = true) ∧ skipped cfg.skip session sid = false := by
  simp only [sidSelected]
  by_cases h : sid &&& 0x40 = 0 <;> cases cfg.scanResponseIds <;> cases skipped cfg.skip session sid <;> simp [h]

/-! ### what goes on the wire — any ECU, any configuration, any outcome of the run -/

/-- for ANY ECU with a request log and ANY configuration: `perform_scan` only ever sends probes `sid 00..` of selected
    service ids with one of the probe lengths and — with `--check-session` — the requests of the session check (the
    `22 F1 86` read-back, `10 k`, the session hooks of `k`); also when the scan is given up or dies -/
theorem probes_only_selected {e : Ecu σ} {log : σ → List Bytes} {N : Nat} (L : Logs e log N) (cfg : SvcCfg)
    (session : Option Nat) (s : σ) :
    ∃ new, log (performScan e cfg session s).1 = new ++ log s ∧
      ∀ r ∈ new,
        (∃ sid, sid < 256 ∧ sidSelected cfg session sid = true ∧ ∃ l ∈ probeLengths, r = probePdu sid l) ∨
        (cfg.checkSession = true ∧ ∃ k, session = some k ∧
          (r = readSessionPdu ∨ r = dscPdu k ∨ r ∈ cfg.hooks.pre k ∨ r ∈ cfg.hooks.post k)) :=
  performScanFrom_sends L cfg session allSids allSids_lt s

/-- ... in particular nothing but probes when `--check-session` is off (or no session list is given) -/
theorem probes_only_selected_unchecked {e : Ecu σ} {log : σ → List Bytes} {N : Nat} (L : Logs e log N) (cfg : SvcCfg)
    (session : Option Nat) (hc : cfg.checkSession = false ∨ session = none) (s : σ) :
    ∃ new, log (performScan e cfg session s).1 = new ++ log s ∧
      ∀ r ∈ new, ∃ sid, sid < 256 ∧ sidSelected cfg session sid = true ∧ ∃ l ∈ probeLengths, r = probePdu sid l := by
  obtain ⟨new, h1, h2⟩ := probes_only_selected L cfg session s
  refine ⟨new, h1, fun r hr => ?_⟩
  rcases h2 r hr with h | ⟨hc', k, hk, _⟩
  · exact h
  · rcases hc with hc | hc
    · rw [hc] at hc'; cases hc'
    · rw [hc] at hk; cases hk

/-- for ANY ECU: a scan of a session that ends normally and was not given up has probed every selected service id
    0x00..0xFF -/
theorem probes_cover {e : Ecu σ} {log : σ → List Bytes} {N : Nat} (L : Logs e log N) (cfg : SvcCfg)
    (session : Option Nat) (s : σ) (out : ScanOut) (hout : (performScan e cfg session s).2 = .ok out)
    (hab : out.abortedAt = none) :
    ∃ new, log (performScan e cfg session s).1 = new ++ log s ∧
      ∀ sid, sid < 256 → sidSelected cfg session sid = true → probePdu sid 1 ∈ new := by
  obtain ⟨new, h1, h2⟩ := performScanFrom_cover L cfg session allSids allSids_lt s out hout hab
  exact ⟨new, h1, fun sid hs hsel => h2 sid (by simp [allSids, hs]) hsel⟩

/-- for ANY ECU and ANY configuration: during the scan of session `k` no probe of a service id that the skip option
    names for `k` leaves the scanner; the only requests that can carry that id are those of the session check -/
theorem skip_respected {e : Ecu σ} {log : σ → List Bytes} {N : Nat} (L : Logs e log N) (cfg : SvcCfg) (k : Nat)
    (s : σ) (sid : Nat) (hs : sid < 256) (hskip : skipped cfg.skip (some k) sid = true) :
    ∃ new, log (performScan e cfg (some k) s).1 = new ++ log s ∧
      ∀ r ∈ new, r.head? ≠ some (b sid) ∨
        (cfg.checkSession = true ∧ (r = readSessionPdu ∨ r = dscPdu k ∨ r ∈ cfg.hooks.pre k ∨ r ∈ cfg.hooks.post k)) := by
  obtain ⟨new, h1, h2⟩ := probes_only_selected L cfg (some k) s
  refine ⟨new, h1, fun r hr => ?_⟩
  rcases h2 r hr with ⟨sid', hs', hsel, l, _, rfl⟩ | ⟨hc, k', hk', hm⟩
  · left
    intro hhead
    rw [probePdu_head] at hhead
    injection hhead with hhead
    have := b_inj hs' hs hhead
    subst this
    rw [(selection cfg (some k) sid').mp hsel |>.2] at hskip
    cases hskip
  · injection hk' with hk'; subst hk'
    exact Or.inr ⟨hc, hm⟩

/-- for ANY ECU and ANY configuration: everything the whole service scan over a session list sends is a session
    change into (or a hook request of) a requested, not wholly skipped session, a request of the scan of such a
    session, a ping of `wait_for_ecu`, or the `--reset` request -/
theorem scan_requests {e : Ecu σ} {log : σ → List Bytes} {N : Nat} (L : Logs e log N) (cfg : SvcCfg)
    (sessions : List Nat) (hcfg : cfg.sessions = some sessions) (s : σ) :
    ∃ new, log (serviceScan e cfg s).1 = new ++ log s ∧
      ∀ r ∈ new, ScanReq cfg (activeSessions cfg.skip sessions) r := by
  have := svcSessions_sends L cfg (activeSessions cfg.skip sessions) s
  unfold GrewBy at this
  simpa [serviceScan, hcfg] using this

/-- a session that the skip option names as a whole is never requested (hooks that send no `10 ..` themselves) -/
theorem skipped_session_not_requested {e : Ecu σ} {log : σ → List Bytes} {N : Nat} (L : Logs e log N) (cfg : SvcCfg)
    (hin : HooksInert cfg.hooks) (sessions : List Nat) (hcfg : cfg.sessions = some sessions)
    (hsess : ∀ k' ∈ sessions, k' < 256) (s : σ)
    (k : Nat) (hk0 : k ≠ 0) (hk : k < 256) (hskip : cfg.skip.find k = some none) :
    ∃ new, log (serviceScan e cfg s).1 = new ++ log s ∧ dscPdu k ∉ new := by
  obtain ⟨new, h1, h2⟩ := scan_requests L cfg sessions hcfg s
  refine ⟨new, h1, fun hmem => ?_⟩
  have hnot : k ∉ activeSessions cfg.skip sessions := by
    simp [activeSessions, hskip]
  have hbk : b k ≠ 0 := by
    intro h; have := congrArg UInt8.toNat h; simp [b] at this; omega
  have hhook : ∀ k', (dscPdu k ∈ cfg.hooks.pre k' ∨ dscPdu k ∈ cfg.hooks.post k') → False := by
    intro k' h
    exact (hin k' _ h).1 (by simp [dscPdu])
  rcases h2 _ hmem with ⟨k', hk', hreq⟩ | hping | ⟨l, _, hreset⟩
  · have hlt : k' < 256 := hsess k' (List.mem_filter.mp hk').1
    have hset : SetReq cfg.hooks k' (dscPdu k) → False := by
      rintro (h | h | h)
      · simp only [dscPdu, List.cons.injEq, and_true, true_and] at h
        exact hnot (b_inj hk hlt h ▸ hk')
      · exact hhook k' (Or.inl h)
      · exact hhook k' (Or.inr h)
    rcases hreq with hreq | hreq
    · exact hset hreq
    · rcases hreq with ⟨sid, _, _, l, hl, hp⟩ | ⟨_, k'', hk'', hm⟩
      · -- a probe is `sid 00 ..`
        simp only [dscPdu, probePdu] at hp
        cases l with
        | zero => simp [probeLengths] at hl
        | succ l =>
          simp only [List.replicate_succ, List.cons.injEq] at hp
          exact hbk hp.2.1
      · injection hk'' with hk''; subst hk''
        rcases hm with h | h
        · simp [dscPdu, readSessionPdu] at h
        · exact hset h
  · simp [dscPdu, pingPdu] at hping
  · simp [dscPdu, resetPdu] at hreset


/-! ### what is reported — session-determined ECUs obeying the ISO default rule, any configuration -/

/-- reported ⇒ implemented, for every configuration: whatever `perform_scan` records in a session is a service the ECU
    implements in exactly that session, found by a probe that the ECU answered meaningfully there — also when the scan
    was given up by a failed session check.  (With `--check-session` the ECU has to be in the session being scanned when
    the scan starts, which the session loop guarantees; session hooks must not change the session themselves.) -/
theorem found_supported {e : Ecu σ} (E : SessEcu e) (supp : Nat → Nat → Bool) (iso : IsoServiceRule E.ans supp)
    (cfg : SvcCfg) (hin : HooksInert cfg.hooks) (session : Option Nat) (s : σ)
    (hk : ∀ k, session = some k → cfg.checkSession = true → E.sess s = k ∧ k < 0x80)
    (out : ScanOut) (hout : (performScan e cfg session s).2 = .ok out) :
    E.sess (performScan e cfg session s).1 = E.sess s ∧
      ∀ p ∈ out.found, p.1 < 256 ∧ supp (E.sess s) p.1 = true ∧
        ∃ l ∈ probeLengths, p.2 = E.ans (E.sess s) (probePdu p.1 l) ∧ p.2.meaningful = true := by
  refine ⟨performScanFrom_session E cfg hin session _ hk allSids allSids_lt s rfl, ?_⟩
  obtain ⟨h3, _⟩ := performScanFrom_spec E supp iso cfg hin session _ hk allSids allSids_lt s rfl out hout
  intro p hp
  obtain ⟨a, _, c, d, l, hl, hp2⟩ := h3 p hp
  exact ⟨allSids_lt _ a, c, l, hl, hp2, d⟩

/-- implemented ⇒ reported, for every configuration: when the session read-back is honest (or unsupported) and no probe
    is answered by an endless ResponsePending sequence, the scan of a session ends normally, is not given up, and
    records every implemented, selected service that answers any probe length with something other than a
    not-supported or length error -/
theorem found_complete {e : Ecu σ} (E : SessEcu e) (supp : Nat → Nat → Bool) (iso : IsoServiceRule E.ans supp)
    (cfg : SvcCfg) (hin : HooksInert cfg.hooks) (session : Option Nat) (s : σ)
    (hk : ∀ k, session = some k → cfg.checkSession = true → E.sess s = k ∧ k < 0x80 ∧ ReadBackOk E.ans k)
    (hn : ∀ sid l, E.ans (E.sess s) (probePdu sid l) ≠ .stuck)
    (sid : Nat) (hs : sid < 256) (hsel : sidSelected cfg session sid = true) (hsup : supp (E.sess s) sid = true)
    (hm : ∃ l ∈ probeLengths, (E.ans (E.sess s) (probePdu sid l)).meaningful = true) :
    ∃ out, (performScan e cfg session s).2 = .ok out ∧ out.abortedAt = none ∧ sid ∈ out.found.map (·.1) := by
  obtain ⟨out, h1, h2⟩ := performScanFrom_ok E cfg hin session _ hk hn allSids allSids_lt s rfl
  obtain ⟨_, h4⟩ := performScanFrom_spec E supp iso cfg hin session _
    (fun k a c => ⟨(hk k a c).1, (hk k a c).2.1⟩) allSids allSids_lt s rfl out h1
  exact ⟨out, h1, h2, h4 h2 sid (by simp [allSids, hs]) hsel hsup hm⟩

/-- with an honest read-back the session check of a session-determined ECU that is in the right session is a single
    `22 F1 86` exchange: no session change is sent -/
theorem check_passes_without_session_change {e : Ecu σ} (E : SessEcu e) (h : Hooks) (k retries : Nat) (s : σ)
    (hs : E.sess s = k) (hrb : ReadBackOk E.ans k) :
    checkAndSetSession e h k retries s = ((e.step s readSessionPdu).1, .ok true) := by
  obtain ⟨a, c⟩ := checkAndSetSession_ok E h k retries s hs hrb
  exact Prod.ext c a

/-- the whole service scan over a session list, every configuration (`--check-session`, `--reset`, inert hooks):
    every reported (session, service) pair names a requested, not wholly skipped session that the ECU let the scanner
    enter, and a selected service that the ECU implements in that session and that answered a probe meaningfully -/
theorem scan_sound {e : Ecu σ} (E : SessEcu e) (supp : Nat → Nat → Bool) (iso : IsoServiceRule E.ans supp)
    (cfg : SvcCfg) (hin : HooksInert cfg.hooks) (sessions : List Nat) (hcfg : cfg.sessions = some sessions)
    (hlt : ∀ k ∈ sessions, k < 0x80) (s : σ) (r : SvcResult) (hr : (serviceScan e cfg s).2 = .ok r) :
    ∀ p ∈ r.result, p.1 ∈ activeSessions cfg.skip sessions ∧ p.2 < 256 ∧
      sidSelected cfg (some p.1) p.2 = true ∧ supp p.1 p.2 = true ∧
      (∃ l ∈ probeLengths, (E.ans p.1 (probePdu p.2 l)).meaningful = true) ∧
      (∃ ss, (E.ans ss (dscPdu p.1)).isPos = true) := by
  have hlt' : ∀ k ∈ activeSessions cfg.skip sessions, k < 0x80 := by
    intro k hk; exact hlt k (List.mem_filter.mp hk).1
  simp only [serviceScan, hcfg] at hr
  exact svcSessions_sound E supp iso cfg hin (activeSessions cfg.skip sessions) hlt' s r hr

/-- ... and on an ECU that answers session changes the same way from every session (`enter`), reads the session back
    honestly and answers hook / reset / ping requests, the run ends normally, no session's scan is given up, and
    nothing implemented and answering is left out in the sessions the ECU lets the scanner enter -/
theorem scan_complete {e : Ecu σ} (E : SessEcu e) (supp : Nat → Nat → Bool) (iso : IsoServiceRule E.ans supp)
    (cfg : SvcCfg) (hin : HooksInert cfg.hooks) (hq : HooksAnswered E.ans cfg.hooks)
    (sessions : List Nat) (hcfg : cfg.sessions = some sessions) (hlt : ∀ k ∈ sessions, k < 0x80) (s : σ)
    (enter : Nat → Bool)
    (henter : ∀ ss t, t ∈ activeSessions cfg.skip sessions → (E.ans ss (dscPdu t)).isPos = enter t)
    (hrb : cfg.checkSession = true → ∀ k ∈ activeSessions cfg.skip sessions, ReadBackOk E.ans k)
    (hstuck : ∀ ss sid l, E.ans ss (probePdu sid l) ≠ .stuck)
    (hreset : ∀ ss l, cfg.reset = some l → E.ans ss (resetPdu l) ≠ .illegal ∧ E.ans ss (resetPdu l) ≠ .stuck)
    (hping : ∀ ss, E.ans ss pingPdu ≠ .stuck) :
    ∃ r, (serviceScan e cfg s).2 = .ok r ∧ r.aborted = [] ∧
      ∀ k sid, k ∈ activeSessions cfg.skip sessions → enter k = true → sid < 256 →
        sidSelected cfg (some k) sid = true → supp k sid = true →
        (∃ l ∈ probeLengths, (E.ans k (probePdu sid l)).meaningful = true) → (k, sid) ∈ r.result := by
  have hlt' : ∀ k ∈ activeSessions cfg.skip sessions, k < 0x80 := by
    intro k hk; exact hlt k (List.mem_filter.mp hk).1
  obtain ⟨r, h1, h2, h3⟩ := svcSessions_complete E supp iso cfg hin hq (activeSessions cfg.skip sessions) hlt' enter
    henter hrb hstuck hreset hping s
  exact ⟨r, by simp [serviceScan, hcfg, h1], h2, fun k sid hk hen hs hsel hsup hm => h3 k hk hen sid hs hsel hsup hm⟩

/-- the reported set, exactly: under the hypotheses of `scan_complete` a pair is reported iff its session is requested,
    not wholly skipped and enterable, and its service is selected, implemented there and answers a probe meaningfully -/
theorem scan_exact {e : Ecu σ} (E : SessEcu e) (supp : Nat → Nat → Bool) (iso : IsoServiceRule E.ans supp)
    (cfg : SvcCfg) (hin : HooksInert cfg.hooks) (hq : HooksAnswered E.ans cfg.hooks)
    (sessions : List Nat) (hcfg : cfg.sessions = some sessions) (hlt : ∀ k ∈ sessions, k < 0x80) (s : σ)
    (enter : Nat → Bool)
    (henter : ∀ ss t, t ∈ activeSessions cfg.skip sessions → (E.ans ss (dscPdu t)).isPos = enter t)
    (hrb : cfg.checkSession = true → ∀ k ∈ activeSessions cfg.skip sessions, ReadBackOk E.ans k)
    (hstuck : ∀ ss sid l, E.ans ss (probePdu sid l) ≠ .stuck)
    (hreset : ∀ ss l, cfg.reset = some l → E.ans ss (resetPdu l) ≠ .illegal ∧ E.ans ss (resetPdu l) ≠ .stuck)
    (hping : ∀ ss, E.ans ss pingPdu ≠ .stuck) :
    ∃ r, (serviceScan e cfg s).2 = .ok r ∧ ∀ k sid, (k, sid) ∈ r.result ↔
      (k ∈ activeSessions cfg.skip sessions ∧ enter k = true ∧ sid < 256 ∧ sidSelected cfg (some k) sid = true ∧
        supp k sid = true ∧ ∃ l ∈ probeLengths, (E.ans k (probePdu sid l)).meaningful = true) := by
  obtain ⟨r, h1, _, h3⟩ := scan_complete E supp iso cfg hin hq sessions hcfg hlt s enter henter hrb hstuck hreset hping
  refine ⟨r, h1, fun k sid => ⟨fun hmem => ?_, fun ⟨a, b', c, d, f, g⟩ => h3 k sid a b' c d f g⟩⟩
  obtain ⟨a, b', c, d, f, ss, g⟩ := scan_sound E supp iso cfg hin sessions hcfg hlt s r h1 (k, sid) hmem
  exact ⟨a, by rw [← henter ss k a]; exact g, b', c, d, f⟩

/-- a skip entry with an EMPTY id list (`--skip S:`, which `unravel_2d` turns into `{S: []}`, or `{S: []}` given directly)
    names nothing to leave out: no id is skipped in that session, the session stays in the list of sessions to scan
    exactly when it was requested, the service scan selects every service id (response ids only when asked) and the
    identifier scan keeps the whole requested range -/
theorem empty_skip_list_skips_nothing (sk : Skip) (k : Nat) (hk : sk.find k = some (some [])) :
    (∀ id, skipped sk (some k) id = false) ∧
    (∀ sessions, k ∈ activeSessions sk sessions ↔ k ∈ sessions) ∧
    (∀ cfg : SvcCfg, cfg.skip = sk → ∀ sid,
      (sidSelected cfg (some k) sid = true ↔ (sid &&& 0x40 = 0 ∨ cfg.scanResponseIds = true))) ∧
    (∀ cfg : IdCfg, cfg.skip = sk →
      (idPairs cfg).filter (fun p => !skipped cfg.skip (some k) p.1) = idPairs cfg) := by
  have h1 : ∀ id, skipped sk (some k) id = false := fun id => by simp [skipped, hk]
  refine ⟨h1, fun sessions => ?_, fun cfg hc sid => ?_, fun cfg hc => ?_⟩
  · simp [activeSessions, hk]
  · rw [selection, hc, h1 sid]; simp
  · rw [hc]; simp [h1]

/-- ... and therefore such a session is reported completely: under the hypotheses of `scan_exact`, in a requested,
    enterable session whose skip entry is an empty list EVERY implemented service (response ids only when asked) that
    answers a probe meaningfully is reported -/
theorem empty_skip_list_scanned_completely {e : Ecu σ} (E : SessEcu e) (supp : Nat → Nat → Bool)
    (iso : IsoServiceRule E.ans supp)
    (cfg : SvcCfg) (hin : HooksInert cfg.hooks) (hq : HooksAnswered E.ans cfg.hooks)
    (sessions : List Nat) (hcfg : cfg.sessions = some sessions) (hlt : ∀ k ∈ sessions, k < 0x80) (s : σ)
    (enter : Nat → Bool)
    (henter : ∀ ss t, t ∈ activeSessions cfg.skip sessions → (E.ans ss (dscPdu t)).isPos = enter t)
    (hrb : cfg.checkSession = true → ∀ k ∈ activeSessions cfg.skip sessions, ReadBackOk E.ans k)
    (hstuck : ∀ ss sid l, E.ans ss (probePdu sid l) ≠ .stuck)
    (hreset : ∀ ss l, cfg.reset = some l → E.ans ss (resetPdu l) ≠ .illegal ∧ E.ans ss (resetPdu l) ≠ .stuck)
    (hping : ∀ ss, E.ans ss pingPdu ≠ .stuck)
    (k : Nat) (hk : cfg.skip.find k = some (some [])) (hreq : k ∈ sessions) (hen : enter k = true) :
    ∃ r, (serviceScan e cfg s).2 = .ok r ∧ ∀ sid, sid < 256 → (sid &&& 0x40 = 0 ∨ cfg.scanResponseIds = true) →
      supp k sid = true → (∃ l ∈ probeLengths, (E.ans k (probePdu sid l)).meaningful = true) → (k, sid) ∈ r.result := by
  obtain ⟨r, h1, h2⟩ := scan_exact E supp iso cfg hin hq sessions hcfg hlt s enter henter hrb hstuck hreset hping
  obtain ⟨_, hact, hsel, _⟩ := empty_skip_list_skips_nothing cfg.skip k hk
  exact ⟨r, h1, fun sid hs hr hsup hm =>
    (h2 k sid).mpr ⟨(hact sessions).mpr hreq, hen, hs, (hsel cfg rfl sid).mpr hr, hsup, hm⟩⟩

/-- non-vacuity: `--skip 0x01:0x22 0x03:` = `{1: [0x22], 3: []}` has such an entry for session 3 (and none for 1, 2) -/
example : Skip.find [(1, some [0x22]), (3, some [])] 3 = some (some []) := by decide
example : activeSessions [(1, some [0x22]), (3, some []), (4, none)] [1, 2, 3, 4] = [1, 2, 3] := by decide

/-- `--reset` never changes the reported set: for an ECU as in `scan_exact` the scan with `--reset <level>` and the
    scan without report the same (session, service) pairs, wherever the reset leaves the ECU -/
theorem reset_same_result {e : Ecu σ} (E : SessEcu e) (supp : Nat → Nat → Bool) (iso : IsoServiceRule E.ans supp)
    (cfg : SvcCfg) (hin : HooksInert cfg.hooks) (hq : HooksAnswered E.ans cfg.hooks)
    (sessions : List Nat) (hcfg : cfg.sessions = some sessions) (hlt : ∀ k ∈ sessions, k < 0x80) (s s' : σ)
    (enter : Nat → Bool)
    (henter : ∀ ss t, t ∈ activeSessions cfg.skip sessions → (E.ans ss (dscPdu t)).isPos = enter t)
    (hrb : cfg.checkSession = true → ∀ k ∈ activeSessions cfg.skip sessions, ReadBackOk E.ans k)
    (hstuck : ∀ ss sid l, E.ans ss (probePdu sid l) ≠ .stuck)
    (level : Nat) (hreset : ∀ ss, E.ans ss (resetPdu level) ≠ .illegal ∧ E.ans ss (resetPdu level) ≠ .stuck)
    (hping : ∀ ss, E.ans ss pingPdu ≠ .stuck) :
    ∃ r r', (serviceScan e { cfg with reset := some level } s).2 = .ok r ∧
      (serviceScan e { cfg with reset := none } s').2 = .ok r' ∧ ∀ p, p ∈ r.result ↔ p ∈ r'.result := by
  obtain ⟨r, h1, h3⟩ := scan_exact E supp iso { cfg with reset := some level } hin hq sessions hcfg hlt s enter henter hrb
    hstuck (fun ss l hl => by injection hl with hl; subst hl; exact hreset ss) hping
  obtain ⟨r', h1', h3'⟩ := scan_exact E supp iso { cfg with reset := none } hin hq sessions hcfg hlt s' enter henter hrb
    hstuck (fun ss l hl => by cases hl) hping
  refine ⟨r, r', h1, h1', fun p => ?_⟩
  obtain ⟨k, sid⟩ := p
  rw [h3 k sid, h3' k sid]
  rfl

/-- the scan without a session list reports under key 0 what the ECU implements in its current session -/
theorem scan_sound_current {e : Ecu σ} (E : SessEcu e) (supp : Nat → Nat → Bool) (iso : IsoServiceRule E.ans supp)
    (cfg : SvcCfg) (hin : HooksInert cfg.hooks) (hcfg : cfg.sessions = none) (s : σ)
    (r : SvcResult) (hr : (serviceScan e cfg s).2 = .ok r) :
    ∀ p ∈ r.result, p.1 = 0 ∧ p.2 < 256 ∧ supp (E.sess s) p.2 = true := by
  simp only [serviceScan, hcfg] at hr
  cases hp : performScan e cfg none s with
  | mk s1 r1 =>
    rw [hp] at hr
    cases r1 with
    | raised w => simp at hr
    | ok out =>
      simp only [Scans.R.ok.injEq] at hr
      subst hr
      obtain ⟨_, h3⟩ := found_supported E supp iso cfg hin none s (fun k hk => by cases hk) out (by rw [hp])
      intro p hpm
      simp only [List.mem_map] at hpm
      obtain ⟨q, hq, rfl⟩ := hpm
      obtain ⟨a, c, _⟩ := h3 q hq
      exact ⟨rfl, a, c⟩

/-! ### identifier scan -/

/-- the identifiers in the requested range, each with each sub-function of the scanned service, 0x27 clamped
    to 7 bit -/
theorem ident_range (cfg : IdCfg) (did sf : Nat) :
    (did, sf) ∈ idPairs cfg ↔ cfg.start ≤ did ∧ did ≤ effectiveEnd cfg ∧ sf ∈ subFunctions cfg :=
  mem_idPairs cfg did sf

/-- request layout per scanned service: `27 id`, `31 sf idHi idLo`, `sid idHi idLo`, payload appended -/
theorem ident_pdu_layout (cfg : IdCfg) (did sf : Nat) :
    (cfg.service = 0x27 → idPdu cfg did sf = [0x27, b did] ++ cfg.payload) ∧
    (cfg.service = 0x31 → idPdu cfg did sf = [0x31, b sf, b (did / 256), b (did % 256)] ++ cfg.payload) ∧
    (cfg.service ≠ 0x27 → cfg.service ≠ 0x31 →
      idPdu cfg did sf = [b cfg.service, b (did / 256), b (did % 256)] ++ cfg.payload) := by
  refine ⟨?_, ?_, ?_⟩
  · intro h; simp [idPdu, h, b]
  · intro h; simp [idPdu, h, b]
  · intro h1 h2; simp [idPdu, h1, h2]

/-- for ANY ECU and ANY configuration: the identifier scan of one session sends nothing but the requests of non-skipped
    identifiers of the range and — with `--check-session` — the requests of the session check -/
theorem ident_requests_only {e : Ecu σ} {log : σ → List Bytes} {N : Nat} (L : Logs e log N) (cfg : IdCfg)
    (session : Option Nat) (s : σ) :
    ∃ new, log (idPerformScan e cfg session s).1 = new ++ log s ∧
      ∀ r ∈ new,
        (∃ q ∈ idPairs cfg, skipped cfg.skip session q.1 = false ∧ r = idPdu cfg q.1 q.2) ∨
        (∃ k n, session = some k ∧ cfg.checkSession = some n ∧
          (r = readSessionPdu ∨ r = dscPdu k ∨ r ∈ cfg.hooks.pre k ∨ r ∈ cfg.hooks.post k)) :=
  idLoop_sends L cfg session (idPairs cfg) {} s

/-- for ANY ECU, `--check-session` and `--skip-not-supported` off: an identifier scan of one session that ends normally
    has sent exactly the requests of the non-skipped identifiers of the range, once each, in order -/
theorem ident_requests (e : Ecu σ) (cfg : IdCfg) (hc : cfg.checkSession = none) (hns : cfg.skipNotSupported = false)
    (session : Option Nat) (s : σ) (log : List Bytes) (out : IdOut)
    (hout : (idPerformScan (logged e) cfg session (s, log)).2 = .ok out) :
    out.completed = true ∧
    (idPerformScan (logged e) cfg session (s, log)).1.2 =
      (((idPairs cfg).filter fun p => !skipped cfg.skip session p.1).map fun p => idPdu cfg p.1 p.2).reverse ++ log :=
  idLoop_requests e cfg hc hns session (idPairs cfg) {} (s, log) out hout

/-- the identifier scan of one session, every `--check-session` setting: it completes, stays in the session, and counts
    as positive exactly the non-skipped identifiers of the requested range that the ECU answers positively -/
theorem ident_count {e : Ecu σ} (E : SessEcu e) (cfg : IdCfg)
    (hns : cfg.skipNotSupported = false) (hsvc : cfg.service < 256) (h10 : cfg.service ≠ 0x10) (h11 : cfg.service ≠ 0x11)
    (session : Option Nat) (s : σ)
    (hk : ∀ k n, session = some k → cfg.checkSession = some n → E.sess s = k ∧ ReadBackOk E.ans k)
    (hstuck : ∀ did sf, E.ans (E.sess s) (idPdu cfg did sf) ≠ .stuck) :
    ∃ out, (idPerformScan e cfg session s).2 = .ok out ∧ out.completed = true ∧
      E.sess (idPerformScan e cfg session s).1 = E.sess s ∧
      out.counts.positive = ((idPairs cfg).filter fun p =>
          !skipped cfg.skip session p.1 && (E.ans (E.sess s) (idPdu cfg p.1 p.2)).isPos).length := by
  obtain ⟨out, h1, h2, h3, h4⟩ := idLoop_count E cfg hns hsvc h10 h11 session (E.sess s) hk hstuck (idPairs cfg) {} s rfl
  exact ⟨out, h1, h2, h3, by simpa using h4⟩

/-- the whole identifier scan over a session list (`set_session`, scan, `leave_session` = reset + wait + default session
    per session): the positive counters that are logged are, in order, one per session the ECU lets the scanner enter,
    the number of non-skipped identifiers of the range the ECU answers positively in that session; exit status 0 -/
theorem ident_scan_counts {e : Ecu σ} (E : SessEcu e) (cfg : IdCfg) (hin : HooksInert cfg.hooks)
    (hq : HooksAnswered E.ans cfg.hooks) (hns : cfg.skipNotSupported = false) (hsvc : cfg.service < 256)
    (h10 : cfg.service ≠ 0x10) (h11 : cfg.service ≠ 0x11)
    (sessions : List Nat) (hcfg : cfg.sessions = some sessions) (hlt : ∀ k ∈ sessions, k < 0x80) (enter : Nat → Bool)
    (henter : ∀ ss k, k ∈ activeSessions cfg.skip sessions →
      (E.ans ss (dscPdu k)).isPos = enter k ∧ (E.ans ss (dscPdu k)).exn = none)
    (hrb : ∀ n, cfg.checkSession = some n → ∀ k ∈ activeSessions cfg.skip sessions, ReadBackOk E.ans k)
    (hstuck : ∀ ss did sf, E.ans ss (idPdu cfg did sf) ≠ .stuck)
    (hreset : ∀ ss, (E.ans ss (resetPdu 1)).exn = none) (hping : ∀ ss, E.ans ss pingPdu ≠ .stuck)
    (hdsc : ∀ ss, (E.ans ss (dscPdu 1)).exn = none) (s : σ) :
    ∃ r, (identScan e cfg s).2 = .ok r ∧ r.clean = true ∧
      r.perSession.map (fun x => (x.1, x.2.positive)) =
        ((activeSessions cfg.skip sessions).filter enter).map (fun k => (k, idCountSpec E.ans cfg (some k) k)) := by
  have hlt' : ∀ k ∈ activeSessions cfg.skip sessions, k < 0x80 := by
    intro k hk; exact hlt k (List.mem_filter.mp hk).1
  obtain ⟨r, h1, h2, h3⟩ := idSessions_counts E cfg hin hq hns hsvc h10 h11 (activeSessions cfg.skip sessions) hlt' enter
    henter hrb hstuck hreset hping hdsc s
  exact ⟨r, by simp [identScan, hcfg, h1], h2, h3⟩

/-! ### the client loop between scanner and wire -/

/-- the wire-level form of the request theorems: the real client over a wire ECU that records every transmission is an
    ECU with a request log, so `probes_only_selected`, `skip_respected`, `scan_requests`, `ident_requests_only` hold for
    the transmissions (retries included) -/
theorem wire_logs (w : WireEcu σ) (retry : Bytes → Nat) (M : Nat) (hM : ∀ p, retry p ≤ M) :
    Logs (clientEcu (wlogged w) retry) (·.2) (M + 1) :=
  client_logs w retry M hM

/-- ResponsePending during a scan: an ECU that puts fewer than `MAX_N_PENDING` ResponsePending frames in front of its
    replies (and no busyRepeatRequest behind them) is, above the client, the same ECU as without them — so every scan
    gives the same result, exit status and sequence of exchanges -/
theorem pending_transparent (w : WireEcu σ) (hlt : ∀ s p, (w.wstep s p).2.pendings < maxPending)
    (hb : ∀ s p, (w.wstep s p).2.pendings ≠ 0 → (w.wstep s p).2.final ≠ .neg BRR) (retry : Bytes → Nat)
    (cfg : SvcCfg) (icfg : IdCfg) (s : σ) :
    serviceScan (clientEcu w retry) cfg s = serviceScan (clientEcu (stripPending w) retry) cfg s ∧
    identScan (clientEcu w retry) icfg s = identScan (clientEcu (stripPending w) retry) icfg s := by
  rw [client_strip w hlt hb retry]
  exact ⟨rfl, rfl⟩

/-- an exchange — hence a scan — can only end with the client's `RuntimeError` when the ECU answered one transmission
    with `MAX_N_PENDING` ResponsePending frames in a row -/
theorem stuck_needs_max_pending (w : WireEcu σ) (retry : Bytes → Nat) (s : σ) (pdu : Bytes)
    (h : ((clientEcu w retry).step s pdu).2 = .stuck) : ∃ s', maxPending ≤ (w.wstep s' pdu).2.pendings :=
  exchangeLoop_stuck w pdu _ s h


/-! ### `--check-session` against ECUs that lose the session -/

/-- **a passed session check establishes the session.**  For every ECU whose answers are determined by a session
    component — however that component changes: silent drops, refused re-entries, hooks — that answers the `22 F1 86`
    read-back honestly and does not change session by answering it: when `check_and_set_session(k)` returns `True`, the
    ECU is in session `k` -/
theorem check_establishes_session {e : Ecu σ} (A : AnsBySession e) (hr : ReadsBack A) (hk : Keeps A readSessionPdu)
    (h : Hooks) (k retries : Nat) (s : σ) (hok : (checkAndSetSession e h k retries s).2 = .ok true) :
    A.sess (checkAndSetSession e h k retries s).1 = k :=
  check_establishes A hr hk h k retries s hok

/-- **with `--check-session` on every probe is still sent in the session it is reported under**, as far as that is
    possible at all: the first (1-byte) probe of every service id, and every probe of a service id whose own probes do
    not make the ECU leave the session, reaches the ECU in session `k` — for every such ECU, wherever it was when the
    scan of `k` started and whatever it did to its session in between; also when the scan is given up or dies.
    (A later probe of a service id whose first probe itself made the ECU drop the session is sent without a new check:
    that is what the code does, and the property's "exactly in the session it claims" does not hold for such ids.) -/
theorem probes_in_claimed_session_checked {e : Ecu σ} (A : AnsBySession e) (hr : ReadsBack A)
    (hk : Keeps A readSessionPdu) (cfg : SvcCfg) (hc : cfg.checkSession = true) (k : Nat)
    (hm : MaintNotProbe cfg.hooks k) (s : σ) (lg : List (Nat × Bytes)) :
    ∃ new, (performScan (slogged A) cfg (some k) (s, lg)).1.2 = new ++ lg ∧
      ∀ x ∈ new, ∀ sid l, x.2 = probePdu sid l → (l = 1 ∨ KeepsProbes A sid) → x.1 = k :=
  performScanFrom_claimed A hr hk cfg hc k hm allSids (s, lg)

/-- reported ⇒ implemented with `--check-session` on, for ECUs that lose the session: whatever is recorded for a
    service id whose own probes keep the session was answered in session `k` by a meaningful answer, hence (ISO default
    rule) is implemented in session `k` — also in a scan that was given up -/
theorem found_supported_checked {e : Ecu σ} (A : AnsBySession e) (hr : ReadsBack A) (hk : Keeps A readSessionPdu)
    (supp : Nat → Nat → Bool) (iso : IsoServiceRule A.ans supp)
    (cfg : SvcCfg) (hc : cfg.checkSession = true) (k : Nat) (s : σ) (out : ScanOut)
    (hout : (performScan e cfg (some k) s).2 = .ok out) :
    ∀ p ∈ out.found, KeepsProbes A p.1 →
      p.1 < 256 ∧ sidSelected cfg (some k) p.1 = true ∧ supp k p.1 = true ∧
      ∃ l ∈ probeLengths, p.2 = A.ans k (probePdu p.1 l) ∧ p.2.meaningful = true := by
  intro p hp hkp
  obtain ⟨h1, h2, l, hl, h3, h4⟩ := performScanFrom_checked A hr hk cfg hc k allSids s out hout p hp hkp
  refine ⟨allSids_lt _ h1, h2, ?_, l, hl, h3, h4⟩
  cases hsup : supp k p.1 with
  | true => rfl
  | false =>
    have := iso.unsupported k p.1 (probePdu p.1 l) (allSids_lt _ h1) hsup (probePdu_head p.1 l)
    rw [← h3] at this
    cases hp2 : p.2 with
    | pos _ => rw [hp2] at this; simp [Ans.notSupported] at this
    | neg c =>
      rw [hp2] at this h4
      simp only [Ans.notSupported] at this
      simp only [Ans.meaningful, this] at h4
      simp at h4
    | timeout => rw [hp2] at this; simp [Ans.notSupported] at this
    | illegal => rw [hp2] at this; simp [Ans.notSupported] at this
    | stuck => rw [hp2] at this; simp [Ans.notSupported] at this

/-- a session the ECU has lost for good (every read-back says so) gets nothing reported under it by a checked scan.
    What the code does when the session is lost *during* the scan of `k`: the findings made before the loss stay (they
    were made in session `k`, see `found_supported_checked`), the scan of `k` ends at the failed check (`abortedAt`),
    later sessions are still scanned, and the run exits with status 1 (`given_up_scan_exits_1`). -/
theorem lost_session_reports_nothing {e : Ecu σ} (A : AnsBySession e) (hr : ReadsBack A) (hk : Keeps A readSessionPdu)
    (cfg : SvcCfg) (hc : cfg.checkSession = true) (k : Nat) (hnever : ∀ s, A.sess s ≠ k) (s : σ) (out : ScanOut)
    (hout : (performScan e cfg (some k) s).2 = .ok out) : out.found = [] :=
  performScanFrom_never_in_session A hr hk cfg hc k hnever allSids s out hout

/-- for ANY ECU: a failed session check anywhere in the run makes the run unclean (exit status 1), and the failed check
    belongs to a selected service id of that session -/
theorem given_up_scan_exits_1 (e : Ecu σ) (cfg : SvcCfg) (sessions : List Nat) (hcfg : cfg.sessions = some sessions)
    (s : σ) (r : SvcResult) (hr : (serviceScan e cfg s).2 = .ok r) (hab : r.aborted ≠ []) : r.clean = false := by
  simp only [serviceScan, hcfg] at hr
  exact svcSessions_aborted_unclean e cfg _ s r hr hab

/-! ### termination with a bound -/

/-- for ANY ECU with a request log and ANY configuration: the whole service scan sends at most `N * svcBound` requests
    (`N = 1` counting exchanges, `N = max_retry + 1` counting transmissions): per session the session change with its
    hook requests, per service id the session check (1 + 4 rounds of re-entry and read-back) and four probes, the
    reset and fewer than 20 pings -/
theorem requests_bounded {e : Ecu σ} {log : σ → List Bytes} {N : Nat} (L : Logs e log N) (cfg : SvcCfg)
    (sessions : List Nat) (hcfg : cfg.sessions = some sessions) (s : σ) :
    (log (serviceScan e cfg s).1).length ≤ (log s).length + N * svcBound cfg (activeSessions cfg.skip sessions) := by
  have := svcSessions_within L cfg (activeSessions cfg.skip sessions) s
  simpa [serviceScan, hcfg, Within] using this

/-- the bound with the base-class hooks: 3349 exchanges per session with `--check-session`, 1045 without -/
example (cfg : SvcCfg) (hh : cfg.hooks = {}) (k : Nat) :
    sessionCost cfg k = if cfg.checkSession then 3349 else 1045 := by
  cases hc : cfg.checkSession <;>
    simp [sessionCost, setCost, hookCost, sidCost, checkCost, resetCost, waitBudget, checkRetries, probeLengths, hh, hc]

/-! ### non-vacuity: a concrete ECU in the class, with two sessions, a service answering only long probes and an
    honest session read-back -/

namespace Example

def ans (ss : Nat) (p : Bytes) : Ans :=
  match p with
  | [0x10, 0x02] => .pos [0x50, 0x02]
  | [0x10, 0x01] => .pos [0x50, 0x01]
  | 0x10 :: _ => .neg SFNS
  | [0x11, 0x01] => .pos [0x51, 0x01]
  | 0x11 :: _ => .neg SFNS
  | [0x3E, 0x00] => .pos [0x7E, 0x00]
  | 0x3E :: _ => .neg SFNS
  | [0x22, 0xF1, 0x86] => if ss = 2 then .pos [0x62, 0xF1, 0x86, 0x02] else .neg SNSIAS
  | 0x22 :: rest => if ss = 2 then (if rest.length < 2 then .neg IMLOIF else .neg ROOR) else .neg SNSIAS
  | _ => .neg SNS

def nextSess (ss : Nat) (p : Bytes) : Nat :=
  match p with
  | [0x10, 0x02] => 2
  | [0x10, 0x01] => 1
  | [0x11, 0x01] => 1
  | _ => ss

def ecu : Ecu Nat := ⟨fun ss p => (nextSess ss p, ans ss p)⟩

def supp (ss sid : Nat) : Bool := sid == 0x10 || sid == 0x11 || sid == 0x3E || (ss == 2 && sid == 0x22)

def cfg : SvcCfg := { sessions := some [1, 2], checkSession := false, scanResponseIds := false, skip := [(1, some [0x10])] }

/-- the scan of this ECU: 0x10 in session 1 is skipped, session 2 offers 0x10 and 0x22 (found by the 2-byte probe) -/
example : (match (serviceScan ecu cfg 1).2 with | .ok r => r.result | .raised _ => []) =
    [(1, 0x11), (1, 0x3E), (2, 0x10), (2, 0x11), (2, 0x22), (2, 0x3E)] := by
  decide +kernel

/-- the same with `--check-session`, `--reset 1` and session hooks: same report, the ECU ends in the default session -/
example : (match serviceScan ecu { cfg with checkSession := true, reset := some 1,
                                             hooks := { pre := fun _ => [[0x3E, 0x00]], post := fun _ => [[0x85, 0x02]] } } 1 with
           | (s, .ok r) => (s, r.result, r.clean, r.aborted) | (s, .raised _) => (s, [], false, [])) =
    (1, [(1, 0x11), (1, 0x3E), (2, 0x10), (2, 0x11), (2, 0x22), (2, 0x3E)], true, []) := by
  decide +kernel

/-- the example ECU is session-determined in the sense of `SessEcu` -/
def sessEcu : SessEcu ecu where
  sess := id
  ans := ans
  step_ans := fun _ _ => rfl
  sess_keep := by
    intro s p h10 h11
    show nextSess s p = s
    unfold nextSess
    split <;> simp_all
  sess_neg := by
    intro s p h
    show nextSess s p = s
    unfold nextSess
    split <;> simp_all [ans, Ans.isPos]
  dsc_pos := by
    intro s x hx h
    show nextSess s (dscPdu x) = x
    have hx' : x = 1 ∨ x = 2 ∨ (x ≠ 1 ∧ x ≠ 2) := by omega
    rcases hx' with rfl | rfl | ⟨h1, h2⟩
    · rfl
    · rfl
    · exfalso
      have hb1 : b x ≠ 1 := by
        intro hh; have := congrArg UInt8.toNat hh; simp [b] at this; omega
      have hb2 : b x ≠ 2 := by
        intro hh; have := congrArg UInt8.toNat hh; simp [b] at this; omega
      simp only [id, dscPdu, ans] at h
      split at h <;> simp_all [Ans.isPos]
  reserved0 := by
    intro ss l
    cases l with
    | zero => exact ⟨rfl, rfl⟩
    | succ n => cases n <;> exact ⟨rfl, rfl⟩

theorem b_eq_iff (sid : Nat) (h : sid < 256) (k : Nat) (hk : k < 256) : b sid = UInt8.ofNat k ↔ sid = k := by
  constructor
  · intro hh; exact b_inj h hk hh
  · intro hh; subst hh; rfl

/-- the read-back of both sessions is honest (session 2) or unsupported (session 1): the hypothesis of the
    completeness theorems is satisfiable -/
example : ReadBackOk ans 1 ∧ ReadBackOk ans 2 := by
  constructor
  · simp [ReadBackOk, ans, readSessionPdu, identifierNotSupportedCodes, SNS, SNSIAS, SFNS, SFNSIAS, ROOR]
  · simp [ReadBackOk, ans, readSessionPdu, fromBE]

/-- ... and obeys the ISO default rule for its service table -/
theorem isoRule : IsoServiceRule ans supp where
  unsupported := by
    intro ss sid p hlt hs hh
    cases p with
    | nil => simp at hh
    | cons x rest =>
      simp only [List.head?_cons, Option.some.injEq] at hh
      subst hh
      simp only [supp, Bool.or_eq_false_iff, Bool.and_eq_false_iff, beq_eq_false_iff_ne] at hs
      obtain ⟨⟨⟨h10, h11⟩, h3e⟩, h22⟩ := hs
      have e10 : b sid ≠ 0x10 := fun hh => h10 ((b_eq_iff sid hlt 0x10 (by decide)).mp hh)
      have e11 : b sid ≠ 0x11 := fun hh => h11 ((b_eq_iff sid hlt 0x11 (by decide)).mp hh)
      have e3e : b sid ≠ 0x3E := fun hh => h3e ((b_eq_iff sid hlt 0x3E (by decide)).mp hh)
      have hs2 : b sid = 0x22 → ¬ ss = 2 := by
        intro hb
        have hsid : sid = 0x22 := (b_eq_iff sid hlt 0x22 (by decide)).mp hb
        rcases h22 with h | h
        · exact h
        · exact absurd hsid h
      unfold ans
      split <;> simp_all [Ans.notSupported, serviceNotSupportedCodes, SNS, SNSIAS]
  supported := by
    intro ss sid p hlt hs hh
    cases p with
    | nil => simp at hh
    | cons x rest =>
      simp only [List.head?_cons, Option.some.injEq] at hh
      subst hh
      simp only [supp, Bool.or_eq_true, Bool.and_eq_true, beq_iff_eq] at hs
      unfold ans
      rcases hs with ((rfl | rfl) | rfl) | ⟨rfl, rfl⟩
      · split <;> simp_all [Ans.notSupported, serviceNotSupportedCodes, SNS, SNSIAS, SFNS, b]
      · split <;> simp_all [Ans.notSupported, serviceNotSupportedCodes, SNS, SNSIAS, SFNS, b]
      · split <;> simp_all [Ans.notSupported, serviceNotSupportedCodes, SNS, SNSIAS, SFNS, b]
      · by_cases hl : rest.length < 2 <;>
          (split <;> simp_all [Ans.notSupported, serviceNotSupportedCodes, SNS, SNSIAS, IMLOIF, ROOR, b])
        all_goals
          rename_i _ r _ _
          have h2 : ¬ r.length < 2 := by omega
          simp [h2]

/-- session changes are answered the same way from every session -/
example : ∀ ss, (ans ss (dscPdu 1)).isPos = true ∧ (ans ss (dscPdu 2)).isPos = true := fun _ => ⟨rfl, rfl⟩

end Example

/-! ### non-vacuity of the `--check-session` theorems: an ECU that falls back to the default session whenever it
    receives a CommunicationControl (0x28) request.  Service 0x2E exists only in session 1, service 0x31 only in
    session 2. -/

namespace Dropping

def sessOf (s : Bool) : Nat := if s then 2 else 1

def ans (ss : Nat) (p : Bytes) : Ans :=
  match p with
  | [0x10, 0x02] => .pos [0x50, 0x02]
  | [0x10, 0x01] => .pos [0x50, 0x01]
  | [0x22, 0xF1, 0x86] => .pos [0x62, 0xF1, 0x86, b ss]
  | 0x2E :: _ => if ss = 1 then .neg 0x33 else .neg SNSIAS
  | 0x31 :: _ => if ss = 2 then .neg 0x33 else .neg SNSIAS
  | _ => .neg SNS

def next (s : Bool) (p : Bytes) : Bool :=
  match p with
  | [0x10, 0x02] => true
  | [0x10, 0x01] => false
  | 0x28 :: _ => false
  | _ => s

def ecu : Ecu Bool := ⟨fun s p => (next s p, ans (sessOf s) p)⟩

def A : AnsBySession ecu := ⟨sessOf, ans, fun _ _ => rfl⟩

theorem readsBack : ReadsBack A := by
  intro s
  cases s <;> exact ⟨_, rfl, by decide⟩

theorem keepsReadback : Keeps A readSessionPdu := fun s => by cases s <;> rfl

def cfg (check : Bool) : SvcCfg := { sessions := some [2], checkSession := check, scanResponseIds := false, skip := [] }

/-- without `--check-session` the probe of 0x28 throws the ECU back to session 1 unnoticed and 0x2E, which exists only
    there, is reported under session 2; 0x31, which exists in session 2, is missed -/
example : (match (serviceScan ecu (cfg false) false).2 with | .ok r => (r.result, r.clean) | .raised _ => ([], false)) =
    ([(2, 0x2E)], true) := by decide +kernel

/-- with `--check-session` the loss is noticed before the next service id, the session is re-entered, and the report
    is the truth about session 2 -/
example : (match (serviceScan ecu (cfg true) false).2 with | .ok r => (r.result, r.clean) | .raised _ => ([], false)) =
    ([(2, 0x31)], true) := by decide +kernel

/-- 0x2E and 0x31 are service ids whose probes keep the session; 0x28 is not -/
example : KeepsProbes A 0x2E ∧ KeepsProbes A 0x31 ∧ ¬ KeepsProbes A 0x28 := by
  refine ⟨fun l s => by cases s <;> rfl, fun l s => by cases s <;> rfl, fun h => ?_⟩
  have := h 1 true
  simp [A, ecu, next, sessOf, probePdu, b] at this

example : MaintNotProbe (cfg true).hooks 2 := ⟨by decide, by decide, by intro p hp; simp [cfg] at hp⟩

end Dropping

end Gallia.C10
