import Gallia.Model.Client
import Gallia.Gen.C04Limits
namespace Gallia.C04
open Gallia.Client

/-- the limits the model runs with are the literals of client.py (table regenerated on every run) -/
theorem limits_agree :
    Limits.std = { maxPending := Gen.C04Limits.maxPending, waiting := Gen.C04Limits.waitingMs,
                   floor := Gen.C04Limits.floorMs, retryWait := Gen.C04Limits.retryWaitMs,
                   base := Gen.C04Limits.backoffBase } ∧
    Gen.C04Limits.nPendingInit = 1 ∧ Gen.C04Limits.nTimeoutInit = 0 := by decide

end Gallia.C04
