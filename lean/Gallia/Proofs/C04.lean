import Gallia.Proofs.Lemmas.Client
import Gallia.Proofs.Lemmas.ClientIO
import Gallia.Proofs.Lemmas.ClientSession
import Gallia.Gen.C04Limits
/-
  C04 — One client request ends with the outcome its reply / fault sequence implies.

  Model: `Model/Client.lean` (`run`, follows `UDSClient.request_unsafe` branch by branch; the event script is an
  infinite stream `Nat → Ev`, so termination and boundedness are theorems).  Specification: `Spec/ClientSpec.lean`
  (`Implied`, `retryEvents`; written from the property's sentence).  Helper lemmas: `Proofs/Lemmas/Client.lean`.
  All theorems hold for every configuration `c` (any max_retry, timeout, latency, limits) and every script `s`.
-/
namespace Gallia.C04
open Gallia.Client Gallia.ClientSpec

/-! ### tie: the literal limits -/

/-- the limits the model runs with are the literals of client.py (table regenerated on every run) -/
theorem limits_agree :
    Limits.std = { maxPending := Gen.C04Limits.maxPending, waiting := Gen.C04Limits.waitingMs,
                   floor := Gen.C04Limits.floorMs, retryWait := Gen.C04Limits.retryWaitMs,
                   base := Gen.C04Limits.backoffBase } ∧
    Gen.C04Limits.nPendingInit = 1 ∧ Gen.C04Limits.nTimeoutInit = 0 := by decide

/-- with the code's limits the silence limit is 40 polls up to a 20 s timeout and ⌈timeout / 0.5 s⌉ above -/
theorem silence_limit_std (maxRetry timeout lat : Nat) :
    maxNT ⟨maxRetry, timeout, lat, Limits.std⟩ = if timeout ≤ 20000 then 40 else (timeout + 499) / 500 := by
  simp only [maxNT, Limits.std]; split <;> omega

/-! ### bounded: `run` is total (by construction, well-founded recursion) and these are its explicit bounds -/

/-- the request is written at most `max_retry + 1` times -/
theorem writes_le (c : Cfg) (s : Nat → Ev) : (run c s).writes ≤ c.maxRetry + 1 := by
  simpa [run, Res.writes] using (attempts_bounds c s 0 0 (.missing false)).writes

/-- bounded number of polls: at most `(max_retry+1) · (1 + pendReadsBound)` reads, whatever the ECU sends -/
theorem reads_le (c : Cfg) (s : Nat → Ev) : (run c s).reads ≤ readsBound c := by
  simpa [run, Res.reads, readsBound] using (attempts_bounds c s 0 0 (.missing false)).reads

/-- the bound in the shape of DESIGN.md: `(maxRetry+1) · (1 + maxPending · (maxNT+1))` once `maxPending ≥ 1` -/
theorem reads_le_design (c : Cfg) (s : Nat → Ev) (h : 1 ≤ c.lim.maxPending) :
    (run c s).reads ≤ (c.maxRetry + 1) * (1 + c.lim.maxPending * (maxNT c + 1)) := by
  have h1 := reads_le c s
  have h2 : attemptReadsBound c = 1 + c.lim.maxPending * (maxNT c + 1) := by
    simp only [attemptReadsBound, pendReadsBound]
    obtain ⟨p, hp⟩ : ∃ p, c.lim.maxPending = p + 1 := ⟨c.lim.maxPending - 1, by omega⟩
    rw [hp, Nat.add_sub_cancel, Nat.add_mul]; omega
  rwa [readsBound, h2] at h1

/-- bounded virtual time: per attempt one request timeout, the polls of one pending loop and one backoff -/
theorem elapsed_le (c : Cfg) (s : Nat → Ev) : (run c s).elapsed ≤ elapsedBound c := by
  simpa [run, Res.elapsed, elapsedBound] using (attempts_bounds c s 0 0 (.missing false)).time

/-- one request always terminates (`run` is a total function on infinite scripts) within explicit bounds on
    transmissions, polls and virtual time that depend on the configuration only, not on what the ECU sends -/
theorem run_total (c : Cfg) : ∃ w r t, ∀ s : Nat → Ev,
    (run c s).writes ≤ w ∧ (run c s).reads ≤ r ∧ (run c s).elapsed ≤ t :=
  ⟨c.maxRetry + 1, readsBound c, elapsedBound c, fun s => ⟨writes_le c s, reads_le c s, elapsed_le c s⟩⟩

/-- concretely for the code's limits, timeout ≤ 20 s and latency ≤ 0.5 s: at most 4921 reads per attempt -/
theorem reads_le_std (maxRetry timeout lat : Nat) (s : Nat → Ev) (ht : timeout ≤ 20000) :
    (run ⟨maxRetry, timeout, lat, Limits.std⟩ s).reads ≤ (maxRetry + 1) * 4921 := by
  have h := reads_le ⟨maxRetry, timeout, lat, Limits.std⟩ s
  have hm := silence_limit_std maxRetry timeout lat
  simp only [ht, if_true] at hm
  rw [readsBound, attemptReadsBound, pendReadsBound, hm] at h
  simpa [Limits.std] using h

/-! ### transmissions -/

/-- the request goes on the wire once, plus once per retry-worthy event among the reads consumed, capped at
    `max_retry + 1`.  `retryEvents` is the specification's own count (timeouts, lost connections, busy as first
    reply, one per completed silence episode; responsePending replies are never counted). -/
theorem writes_eq (c : Cfg) (s : Nat → Ev) :
    (run c s).writes = min (1 + retryEvents (bounds c) s (run c s).reads) (c.maxRetry + 1) := by
  simpa [run, Res.writes, Res.reads, retryEvents] using attempts_writes_eq c s 0 0 (.missing false) (Nat.zero_le _)

/-- the responsePending loop itself never transmits, sleeps or reconnects, however long it runs -/
theorem pending_loop_only_reads (c : Cfg) (s : Nat → Ev) (k np nt : Nat) :
    nWrites (pendingLoop c s k np nt).2 = 0 ∧ nReconnects (pendingLoop c s k np nt).2 = 0 ∧
    sleepsOf (pendingLoop c s k np nt).2 = [] :=
  ⟨(pend_facts c s k np nt).nw, (pend_facts c s k np nt).nrc, (pend_facts c s k np nt).sl⟩

/-- ResponsePending prolongs waiting without retransmission: in the trace of a request every read that
    produced a responsePending is directly followed by another read, or is the last action (stuck) -/
theorem pending_no_write (c : Cfg) (s : Nat → Ev) : PendNoWrite s (run c s).trace := by
  simpa [run] using attempts_pnw c s 0 0 (.missing false)

/-! ### the outcome -/

/-- the outcome of the model is the one the specification says the event sequence implies -/
theorem run_sound (c : Cfg) (s : Nat → Ev) : ImpliedReq (bounds c) c.maxRetry s (run c s).out := by
  simpa [run, ImpliedReq] using attempts_sound c s 0 0 (.missing false) (Nat.zero_le _)

/-- … and it is the only one: the specification determines the outcome.  This is what lets the correspondence
    harness decide "the observed behaviour violates the specification" by comparison with `run` -/
theorem implied_iff_run (c : Cfg) (s : Nat → Ev) (o : Out) :
    ImpliedReq (bounds c) c.maxRetry s o ↔ o = (run c s).out :=
  ⟨fun h => implied_unique h (run_sound c s), fun h => h ▸ run_sound c s⟩

/-- a reply received is never dropped: if any read the request performed produced a final reply, that reply is
    what the request returns (so it is also the last read, and the first final reply of the script) -/
theorem first_final (c : Cfg) (s : Nat → Ev) (j : Nat) (hj : j < (run c s).reads)
    (hf : (s j).final = true) : (run c s).out = .reply j := by
  have := (attempts_first c s 0 0 (.missing false) j (Nat.zero_le _) (by simpa [run, Res.reads] using hj)).1 hf
  simpa [run] using this

/-- likewise a mismatching / malformed reply that was read ends the request with the illegal-response error for
    exactly that reply (it is neither skipped nor retried) -/
theorem illegal_ends (c : Cfg) (s : Nat → Ev) (j : Nat) (hj : j < (run c s).reads)
    (hf : (s j).illegal = true) : (run c s).out = .illegal j := by
  have := (attempts_first c s 0 0 (.missing false) j (Nat.zero_le _) (by simpa [run, Res.reads] using hj)).2 hf
  simpa [run] using this

/-- the reply a request returns is the one produced by its last read: nothing is read after it -/
theorem reply_is_last (c : Cfg) (s : Nat → Ev) (k : Nat) (h : (run c s).out = .reply k) :
    (run c s).reads = k + 1 := by
  have := attempts_reply_last c s 0 0 (.missing false) (by simp) k (.inl (by simpa [run] using h))
  simp [run, Res.reads]; omega

/-- … it is a final reply or a busyRepeatRequest … -/
theorem reply_event (c : Cfg) (s : Nat → Ev) (k : Nat) (h : (run c s).out = .reply k) :
    (s k).final = true ∨ s k = .busy := by
  have hs := run_sound c s
  rw [h] at hs
  exact implied_reply_event hs

/-- … and it is the first final reply of the script: nothing final was read before it -/
theorem reply_is_first (c : Cfg) (s : Nat → Ev) (k : Nat) (h : (run c s).out = .reply k) :
    ∀ j, j < k → (s j).final = false := by
  intro j hj
  have hk := reply_is_last c s k h
  cases hfin : (s j).final with
  | false => rfl
  | true =>
    have := first_final c s j (by omega) hfin
    rw [h] at this; injection this with e; omega

/-- the exception raised after the loop always stems from the last attempt: the initial
    `last_exception = MissingResponse(request)` never surfaces (max_retry ≥ 0) -/
theorem last_exception_from_last_attempt (c : Cfg) (s : Nat → Ev) (l : Out) :
    attempts c s 0 0 l = attempts c s 0 0 (.missing false) :=
  attempts_last_irrelevant c s 0 0 l _ (Nat.zero_le _)

/-! ### backoff -/

/-- the backoff sleeps of a request are, in order, a sub-sequence of `retry_wait·2^0, …, retry_wait·2^(max_retry-1)`:
    attempt `i` sleeps `retry_wait · base^i` or not at all, and there is no sleep after the last attempt -/
theorem backoff (c : Cfg) (s : Nat → Ev) :
    (run c s).sleeps.Sublist ((List.range c.maxRetry).map (fun i => c.lim.retryWait * c.lim.base ^ i)) := by
  have h := attempts_sleeps c s 0 0 (.missing false)
  have hw : (fun i => c.lim.retryWait * c.lim.base ^ i) = wait c := rfl
  rw [hw]
  simpa [run, Res.sleeps, List.range_eq_range'] using h

/-- per-request overrides: `None` falls back to the client attribute, everything else (also 0) overrides -/
theorem resolve_override (ct cm : Nat) (rt rm : Option Nat) (lat : Nat) (lim : Limits) :
    (resolve ct cm rt rm lat lim).maxRetry = (match rm with | some m => m | none => cm) ∧
    (resolve ct cm rt rm lat lim).timeout = (match rt with | some t => t | none => ct) := by
  cases rt <;> cases rm <;> simp [resolve]

/-! ### non-vacuity: every outcome occurs, and the hypotheses above are satisfiable -/

/-- small limits so that the examples evaluate quickly: 3 pendings, 2 silent polls -/
def exLim : Limits := { maxPending := 3, waiting := 500, floor := 1000, retryWait := 200, base := 2 }
def exCfg (maxRetry : Nat) : Cfg := ⟨maxRetry, 1000, 10, exLim⟩
def script (l : List Ev) (pad : Ev) : Nat → Ev := fun k => l.getD k pad

/-- evaluate a concrete run by unfolding the model -/
macro "run_eval" : tactic => `(tactic| simp [run, attempts, pendingLoop, script, exCfg, exLim, maxNT, pre, consOp, afterFault,
  wait, Res.writes, Res.reads, Res.sleeps, Res.reconnects, Res.elapsed])

-- reply: pending, one silent poll, then the positive response; one transmission, 3 reads, 10+500+10 ms
example : run (exCfg 1) (script [.pending, .timeout, .posFinal] .timeout) =
    ⟨.reply 2, [.wr, .rd 0 1000 10, .rd 1 500 500, .rd 2 500 10]⟩ := by run_eval
-- busy on the last attempt is returned; busy before is retried after the backoff
example : run (exCfg 1) (script [.busy, .busy] .timeout) =
    ⟨.reply 1, [.wr, .rd 0 1000 10, .sl 200, .wr, .rd 1 1000 10]⟩ := by run_eval
-- an ECU that never answers: missing-response (no cause) after max_retry + 1 transmissions
example : (run (exCfg 1) (script [] .timeout)).out = .missing false ∧
    (run (exCfg 1) (script [] .timeout)).writes = 2 := by constructor <;> run_eval
-- connection lost while polling after a responsePending: missing-response with the cause (the repaired branch)
example : (run (exCfg 0) (script [.pending, .connErr] .timeout)).out = .missing true := by run_eval
-- … and with a retry left: backoff, reconnect, retransmission, reply
example : run (exCfg 1) (script [.pending, .empty, .negFinal] .timeout) =
    ⟨.reply 2, [.wr, .rd 0 1000 10, .rd 1 500 10, .sl 200, .rc, .wr, .rd 2 1000 10]⟩ := by run_eval
-- a mismatching reply after a retry: illegal-response, no further transmission
example : (run (exCfg 2) (script [.timeout, .mismatch] .posFinal)).out = .illegal 1 ∧
    (run (exCfg 2) (script [.timeout, .mismatch] .posFinal)).writes = 2 := by constructor <;> run_eval
-- endless pendings: stuck after `maxPending` of them, one transmission
example : (run (exCfg 1) (script [] .pending)).out = .stuck ∧
    (run (exCfg 1) (script [] .pending)).writes = 1 ∧ (run (exCfg 1) (script [] .pending)).reads = 3 := by
  refine ⟨?_, ?_, ?_⟩ <;> run_eval
-- a final reply arriving as the last tolerated message is returned (the repaired limit check)
example : (run (exCfg 0) (script [.pending, .pending, .posFinal] .pending)).out = .reply 2 := by run_eval
-- silence after a pending is one retry-worthy event: retransmission without backoff, then the reply
example : run (exCfg 1) (script [.pending, .timeout, .timeout, .posFinal] .timeout) =
    ⟨.reply 3, [.wr, .rd 0 1000 10, .rd 1 500 500, .rd 2 500 500, .wr, .rd 3 1000 10]⟩ := by run_eval
-- exponential backoff and reconnect
example : (run (exCfg 2) (script [.connErr, .timeout, .posFinal] .timeout)).sleeps = [200, 400] ∧
    (run (exCfg 2) (script [.connErr, .timeout, .posFinal] .timeout)).reconnects = 1 := by
  constructor <;> run_eval
-- the specification's relation is inhabited for a non-trivial script (and by `implied_iff_run` by nothing else)
example : ImpliedReq (bounds (exCfg 1)) 1 (script [.pending, .timeout, .posFinal] .timeout) (.reply 2) := by
  have h := run_sound (exCfg 1) (script [.pending, .timeout, .posFinal] .timeout)
  have e : (run (exCfg 1) (script [.pending, .timeout, .posFinal] .timeout)).out = .reply 2 := by run_eval
  rwa [e] at h
-- the hypotheses of `first_final` are satisfiable: read 2 < 3 reads is final
example : (2 : Nat) < (run (exCfg 1) (script [.pending, .timeout, .posFinal] .timeout)).reads ∧
    ((script [.pending, .timeout, .posFinal] .timeout) 2).final = true := by
  constructor
  · run_eval
  · simp [script, Ev.final]
-- retry-worthy events as the specification counts them: timeout, lost, busy = 3; writes = min (1+3) (2+1)
example : retryEvents (bounds (exCfg 2)) (script [.timeout, .connErr, .busy] .posFinal) 3 = 3 := by
  simp [retryEvents, retryEventsFrom, stepPhase, script]

/-! ## sessions: several requests by one process (`Model/ClientSession.lean`)

  The property speaks of a single request; it must hold for each request of a process whatever that process has
  requested (and parsed) before.  `runSession` runs the steps in order; the theorems say that nothing but the step
  itself decides its result, and that the bounds add up.  The harness runs sessions of the real client in one fresh
  process over request kinds that share sub-function ids and compares every step with `run` of that step alone. -/

section Session

/-- history independence: the result of a request is the result of that request alone, whatever requests (of whatever
    configuration, answered by whatever events) the process served before it and serves after it -/
theorem session_step (before after : List Step) (st : Step) :
    (runSession (before ++ st :: after))[before.length]? = some (run st.1 st.2) := by
  simp [runSession_eq]

/-- one result per request, in order: a session is never cut short by what an earlier request ended with -/
theorem session_length (steps : List Step) : (runSession steps).length = steps.length := by
  simp [runSession_eq]

/-- a request that is part of two sessions with different histories ends the same way in both -/
theorem session_history_irrelevant (h₁ h₂ a₁ a₂ : List Step) (st : Step) :
    (runSession (h₁ ++ st :: a₁))[h₁.length]? = (runSession (h₂ ++ st :: a₂))[h₂.length]? := by
  rw [session_step, session_step]

/-- transmissions of a whole session: at most `max_retry + 1` per request -/
theorem session_writes_le (steps : List Step) :
    sumBy Res.writes (runSession steps) ≤ sumBy (fun st => st.1.maxRetry + 1) steps := by
  rw [runSession_eq]
  induction steps with
  | nil => simp [sumBy]
  | cons st rest ih =>
    have h := writes_le st.1 st.2
    simp only [sumBy, List.map_cons, List.sum_cons, List.map_map] at ih ⊢
    omega

/-- a whole session ends within the sum of the per-request time bounds -/
theorem session_elapsed_le (steps : List Step) :
    sumBy Res.elapsed (runSession steps) ≤ sumBy (fun st => elapsedBound st.1) steps := by
  rw [runSession_eq]
  induction steps with
  | nil => simp [sumBy]
  | cons st rest ih =>
    have h := elapsed_le st.1 st.2
    simp only [sumBy, List.map_cons, List.sum_cons, List.map_map] at ih ⊢
    omega

-- non-vacuity: startRoutine answered at once, then a request answered after responsePending, then one after a timeout
-- and a retry - three different results, each the one of its own events
example : (runSession [(exCfg 0, script [.posFinal] .timeout), (exCfg 0, script [.pending, .posFinal] .timeout),
      (exCfg 1, script [.timeout, .posFinal] .timeout)]).map Res.out = [.reply 0, .reply 1, .reply 1] := by
  simp [runSession_eq]
  refine ⟨?_, ?_, ?_⟩ <;> run_eval

end Session

/-! ## widened alphabet: `write()` and `reconnect_unsafe()` can fail too (`Model/ClientIO.lean`)

  `runX c io` is one `request_unsafe` over a script of three infinite streams (what the j-th write, the k-th read and
  the m-th reconnect do); `requestX` puts the client's mutex around it.  Specification: `Spec/ClientIOSpec.lean`
  (`ImpliedX`).  Everything below holds for every configuration (also `timeout = None` / `0`) and every script. -/

section Widened
open Gallia.ClientIO Gallia.ClientIOSpec

/-! ### configuration: `None`, `0`, overrides -/

/-- `max(timeout if timeout else 0, 20) / waiting_time`: for a request timeout that is set it is the old silence limit;
    `None` and `0` are falsy and give the limit of the floor alone -/
theorem silence_limit_falsy (maxRetry lat : Nat) (st : Option Nat) (lim : Limits) (t : Nat) :
    maxNTX ⟨maxRetry, some t, st, lat, lim⟩ = maxNT ⟨maxRetry, t, lat, lim⟩ ∧
    maxNTX ⟨maxRetry, none, st, lat, lim⟩ = maxNT ⟨maxRetry, 0, lat, lim⟩ ∧
    maxNTX ⟨maxRetry, some 0, st, lat, lim⟩ = (lim.floor + lim.waiting - 1) / lim.waiting := by
  refine ⟨by simp [maxNTX, maxNT], by simp [maxNTX, maxNT], by simp [maxNTX]⟩

/-- with the code's limits: 40 polls for `None`, `0` and everything up to 20 s -/
theorem silence_limit_std_io (maxRetry lat : Nat) (st : Option Nat) (t : Option Nat) (h : orZero t ≤ 20000) :
    maxNTX ⟨maxRetry, t, st, lat, Limits.std⟩ = 40 := by
  simp only [maxNTX, Limits.std]; omega

/-- per-request overrides are taken when they are not `None` — also `timeout = 0`, which then is falsy for the
    silence limit but is still what `write()` / `read()` get -/
theorem resolve_override_io (ct : Option Nat) (cm : Nat) (rt rm : Option Nat) (lat : Nat) (lim : Limits) :
    (resolveX ct cm rt rm lat lim).maxRetry = rm.getD cm ∧
    (resolveX ct cm rt rm lat lim).timeout = (match rt with | some t => some t | none => ct) ∧
    (resolveX ct cm (some 0) rm lat lim).timeout = some 0 ∧
    maxNTX (resolveX ct cm (some 0) rm lat lim) = maxNTX (resolveX none cm none rm lat lim) := by
  cases rt <;> cases rm <;> simp [resolveX, maxNTX]

/-- `UDSClient._read`: an explicit timeout (also 0) is passed on; `None` becomes `self.timeout` only when that is truthy.
    The poll of the responsePending loop passes `waiting_time`, so `self.timeout` never reaches it -/
theorem read_timeout_resolution (st : Option Nat) (t : Nat) :
    readTmo st (some t) = some t ∧ readTmo (some (t+1)) none = some (t+1) ∧ readTmo (some 0) none = none ∧
    readTmo none none = none := by
  simp [readTmo, truthy]

/-! ### bounded -/

/-- at most `max_retry + 1` write attempts, failed ones included -/
theorem writes_le_io (c : CfgX) (io : Script) : (runX c io).writes ≤ c.maxRetry + 1 := by
  simpa [runX, ResX.writes] using (attemptsX_bounds c io 0 0 0 (.missing false)).writes

/-- bounded number of reads, whatever the transport does -/
theorem reads_le_io (c : CfgX) (io : Script) : (runX c io).reads ≤ readsBound c.base := by
  exact (attemptsX_bounds c io 0 0 0 (.missing false)).reads

/-- bounded virtual time: per attempt one request timeout (of the write or of the read), the polls of one pending loop
    and one backoff; a reconnect takes no modelled time -/
theorem elapsed_le_io (c : CfgX) (io : Script) : (runX c io).elapsed ≤ elapsedBound c.base := by
  exact (attemptsX_bounds c io 0 0 0 (.missing false)).time

/-- one request terminates within bounds that depend on the configuration only, not on the script -/
theorem run_total_io (c : CfgX) : ∃ w r t, ∀ io : Script,
    (runX c io).writes ≤ w ∧ (runX c io).reads ≤ r ∧ (runX c io).elapsed ≤ t :=
  ⟨c.maxRetry + 1, readsBound c.base, elapsedBound c.base,
    fun io => ⟨writes_le_io c io, reads_le_io c io, elapsed_le_io c io⟩⟩

/-! ### transmissions -/

/-- one write attempt, plus one per retry-worthy event (failed writes among the writes performed, and the read events
    `ClientSpec.retryEvents` counts), capped at `max_retry + 1`; when a reconnect failed the retransmission its fault
    asked for did not happen -/
theorem writes_eq_io (c : CfgX) (io : Script) :
    (runX c io).writes =
      min (1 + retryEventsX (boundsX c) io (runX c io).writes (runX c io).reads
             - (if (runX c io).out.isRcFail then 1 else 0))
          (c.maxRetry + 1) := by
  exact attemptsX_writes_eq c io 0 0 0 (.missing false) (Nat.zero_le _)

/-- the writes that reached the wire are among the write attempts -/
theorem writes_ok_le_io (c : CfgX) (io : Script) : (runX c io).writesOk ≤ (runX c io).writes := by
  simp only [ResX.writesOk, ResX.writes, nWritesOkX, nWritesX]
  exact List.countP_mono_left (fun o _ h => by cases o <;> simp_all [OpX.isWrOk, OpX.isWr])

/-! ### the outcome -/

/-- the outcome of the widened model is the one the widened specification says the script implies -/
theorem run_sound_io (c : CfgX) (io : Script) : ImpliedReqX (boundsX c) c.maxRetry io (runX c io).out := by
  simpa [runX, ImpliedReqX] using attemptsX_sound c io 0 0 0 (.missing false) (Nat.zero_le _)

/-- … and the only one -/
theorem implied_iff_run_io (c : CfgX) (io : Script) (o : OutX) :
    ImpliedReqX (boundsX c) c.maxRetry io o ↔ o = (runX c io).out :=
  ⟨fun h => impliedX_unique h (run_sound_io c io), fun h => h ▸ run_sound_io c io⟩

/-- a reply received is never dropped, also when writes and reconnects fail around it -/
theorem first_final_io (c : CfgX) (io : Script) (j : Nat) (hj : j < (runX c io).reads)
    (hf : (io.rd j).final = true) : (runX c io).out = .base (.reply j) := by
  have := (attemptsX_first c io 0 0 0 (.missing false) j (Nat.zero_le _) (by simpa [runX, ResX.reads] using hj)).1 hf
  simpa [runX] using this

theorem illegal_ends_io (c : CfgX) (io : Script) (j : Nat) (hj : j < (runX c io).reads)
    (hf : (io.rd j).illegal = true) : (runX c io).out = .base (.illegal j) := by
  have := (attemptsX_first c io 0 0 0 (.missing false) j (Nat.zero_le _) (by simpa [runX, ResX.reads] using hj)).2 hf
  simpa [runX] using this

/-- the reply a request returns is the one produced by its last read -/
theorem reply_is_last_io (c : CfgX) (io : Script) (k : Nat) (h : (runX c io).out = .base (.reply k)) :
    (runX c io).reads = k + 1 := by
  have := attemptsX_reply_last c io 0 0 0 (.missing false) (by simp) k (.inl (by simpa [runX] using h))
  simp [runX, ResX.reads]; omega

/-! ### backoff -/

theorem backoff_io (c : CfgX) (io : Script) :
    (runX c io).sleeps.Sublist ((List.range c.maxRetry).map (fun i => c.lim.retryWait * c.lim.base ^ i)) := by
  have h := attemptsX_sleeps c io 0 0 0 (.missing false)
  have hw : (fun i => c.lim.retryWait * c.lim.base ^ i) = waitX c := rfl
  rw [hw]
  simpa [runX, ResX.sleeps, List.range_eq_range'] using h

/-! ### conservativity -/

/-- on scripts without write / reconnect faults the widened run is the old `run`: same outcome, and the same trace
    once the new detail (timeout given to a write, result of write / reconnect) is forgotten -/
theorem conservative (c : CfgX) (io : Script) (h : io.Clean) :
    (runX c io).out = .base (run c.base io.rd).out ∧ (runX c io).trace.map OpX.forget = (run c.base io.rd).trace := by
  simpa [runX, run] using attemptsX_clean c io h 0 0 0 (.missing false)

/-- … in particular for every script of the old alphabet; the old configuration with timeout `t` is `c.base` -/
theorem conservative_of_reads (maxRetry t lat : Nat) (st : Option Nat) (lim : Limits) (s : Nat → Ev) :
    (runX ⟨maxRetry, some t, st, lat, lim⟩ (Script.ofReads s)).out = .base (run ⟨maxRetry, t, lat, lim⟩ s).out ∧
    (runX ⟨maxRetry, some t, st, lat, lim⟩ (Script.ofReads s)).trace.map OpX.forget = (run ⟨maxRetry, t, lat, lim⟩ s).trace := by
  have := conservative ⟨maxRetry, some t, st, lat, lim⟩ (Script.ofReads s) ⟨fun _ => rfl, fun _ => rfl⟩
  simpa [CfgX.base, Script.ofReads] using this

/-! ### the shape of the call sequence -/

/-- in the trace of a request every action is followed by what `okNext` allows: a write that went out by its read, a
    failed write by the backoff sleep or nothing, a responsePending read by another read, a sleep by a reconnect or a
    write, a successful reconnect by the retransmission, a failed reconnect by nothing -/
theorem trace_shape_io (c : CfgX) (io : Script) : Adj (okNext io) (runX c io).trace :=
  attemptsX_adj c io 0 0 0 (.missing false)

/-- a TimeoutError / ConnectionError raised by `write()` is handled without a read in that attempt: what follows a
    failed write in the trace is the backoff sleep (or nothing, on the last attempt) -/
theorem failed_write_no_read (c : CfgX) (io : Script) (pre post : List OpX) (a : Option Nat) (r : WEv) (d : Nat)
    (nxt : OpX) (h : (runX c io).trace = pre ++ .wr a r d :: nxt :: post) (hr : r ≠ .ok) : ∃ s, nxt = .sl s := by
  have := adj_split pre _ _ (h ▸ trace_shape_io c io)
  cases r <;> simp_all [okNext]

/-- ResponsePending prolongs waiting without retransmission, also in the widened model -/
theorem pending_no_write_io (c : CfgX) (io : Script) (pre post : List OpX) (k : Nat) (t : Option Nat) (d : Nat)
    (nxt : OpX) (h : (runX c io).trace = pre ++ .rd k t d :: nxt :: post) (hp : io.rd k = .pending) :
    nxt.isRd = true := by
  have := adj_split pre _ _ (h ▸ trace_shape_io c io)
  simp_all [okNext]

/-- nothing happens after a failed reconnect: its exception leaves `request_unsafe` -/
theorem reconnect_failed_is_last (c : CfgX) (io : Script) (pre post : List OpX) (e : RcFault)
    (h : (runX c io).trace = pre ++ .rc (.fail e) :: post) : post = [] := by
  have := adj_split pre _ _ (h ▸ trace_shape_io c io)
  cases post <;> simp_all [okNext]

/-- the outcome `reconnectFailed m e` means exactly that: reconnect #m of the script fails with `e` -/
theorem reconnect_failed_event (c : CfgX) (io : Script) (m : Nat) (e : RcFault)
    (h : (runX c io).out = .reconnectFailed m e) : io.rc m = .fail e := by
  have hs := run_sound_io c io
  rw [h] at hs
  exact impliedX_rcfail hs

/-- when no reconnect fails the request ends within the property's own vocabulary -/
theorem no_reconnect_failure (c : CfgX) (io : Script) (h : ∀ m, io.rc m = .ok) : ∃ o, (runX c io).out = .base o := by
  cases ho : (runX c io).out with
  | base o => exact ⟨o, rfl⟩
  | reconnectFailed m e => have := reconnect_failed_event c io m e ho; simp [h m] at this

/-- the deadlines the transport sees: every `write()` gets the effective request timeout (`None` included), the first
    `read()` of an attempt too, and every poll of the responsePending loop gets `waiting_time` — it goes through
    `_read`, whose `self.timeout` fallback never applies there -/
theorem call_timeouts (c : CfgX) (io : Script) (op : OpX) (h : op ∈ (runX c io).trace) :
    (∀ a r d, op = .wr a r d → a = c.timeout) ∧
    (∀ k t d, op = .rd k t d → t = c.timeout ∨ t = some c.lim.waiting) := by
  have := attemptsX_tmoOk c io 0 0 0 (.missing false) op h
  constructor
  · rintro a r d rfl; exact this
  · rintro k t d rfl; exact this

/-! ### `request()`: the mutex -/

/-- `request()` returns / raises what `request_unsafe` does, and every transport call of the request happens between
    acquiring the client's mutex and releasing it; the mutex is released whatever the outcome -/
theorem request_brackets (c : CfgX) (io : Script) :
    (requestX c io).out = (runX c io).out ∧
    (requestX c io).trace.head? = some .acquire ∧ (requestX c io).trace.getLast? = some .release ∧
    (requestX c io).trace.count .acquire = 1 ∧ (requestX c io).trace.count .release = 1 := by
  refine ⟨rfl, rfl, ?_, ?_, ?_⟩
  · show (ReqOp.acquire :: ((runX c io).trace.map ReqOp.io ++ [ReqOp.release])).getLast? = _
    rw [show ReqOp.acquire :: ((runX c io).trace.map ReqOp.io ++ [ReqOp.release]) =
      (ReqOp.acquire :: (runX c io).trace.map ReqOp.io) ++ [ReqOp.release] from rfl, List.getLast?_concat]
  · simp [requestX, List.count_append]
    exact List.count_eq_zero.mpr (by simp)
  · simp [requestX, List.count_append]
    exact List.count_eq_zero.mpr (by simp)

/-! ### non-vacuity -/

def exCfgX (maxRetry : Nat) : CfgX := ⟨maxRetry, some 1000, some 1000, 10, exLim⟩
def scriptX (w : List WEv) (r : List Ev) (rc : List RcEv) : Script :=
  ⟨fun j => w.getD j .ok, fun k => r.getD k .timeout, fun m => rc.getD m .ok⟩

macro "runx_eval" : tactic => `(tactic| simp [runX, attemptsX, attemptStepX, faultX, pendingLoop, scriptX, exCfgX, exLim, maxNT,
  preX, consOp, waitX, tmoDur, liftPend, readTmo, CfgX.base, ResX.writes, ResX.reads, ResX.sleeps, ResX.reconnects,
  ResX.elapsed, ResX.writesOk])

-- write timeout, then write ConnectionError (backoff, reconnect), then the request gets through: three write attempts
example : runX (exCfgX 2) (scriptX [.timeout, .connErr] [.posFinal] []) =
    ⟨.base (.reply 0), [.wr (some 1000) .timeout 1000, .sl 200, .wr (some 1000) .connErr 0, .sl 400, .rc .ok,
                       .wr (some 1000) .ok 0, .rd 0 (some 1000) 10]⟩ := by runx_eval
-- the reconnect after a lost connection fails: its exception ends the request, nothing is retransmitted
example : runX (exCfgX 2) (scriptX [] [.pending, .connErr] [.fail .osErr]) =
    ⟨.reconnectFailed 0 .osErr, [.wr (some 1000) .ok 0, .rd 0 (some 1000) 10, .rd 1 (some 500) 10, .sl 200,
                                 .rc (.fail .osErr)]⟩ := by runx_eval
-- on the last attempt there is no reconnect: a failing write gives missing-response with the cause
example : (runX (exCfgX 0) (scriptX [.connErr] [] [.fail .connErr])).out = .base (.missing true) ∧
    (runX (exCfgX 0) (scriptX [.connErr] [] [.fail .connErr])).reads = 0 := by constructor <;> runx_eval
-- hypotheses of `first_final_io` are satisfiable in a script with a write fault
example : (0 : Nat) < (runX (exCfgX 1) (scriptX [.timeout] [.negFinal] [])).reads ∧
    ((scriptX [.timeout] [.negFinal] []).rd 0).final = true := by
  constructor
  · runx_eval
  · simp [scriptX, Ev.final]
-- the widened relation is inhabited for a script with a reconnect failure
example : ImpliedReqX (boundsX (exCfgX 1)) 1 (scriptX [.connErr] [] [.fail .timeout]) (.reconnectFailed 0 .timeout) := by
  have h := run_sound_io (exCfgX 1) (scriptX [.connErr] [] [.fail .timeout])
  have e : (runX (exCfgX 1) (scriptX [.connErr] [] [.fail .timeout])).out = .reconnectFailed 0 .timeout := by runx_eval
  rwa [e] at h
-- a clean script exists (hypothesis of `conservative`)
example : (Script.ofReads (script [.pending, .posFinal] .timeout)).Clean := ⟨fun _ => rfl, fun _ => rfl⟩
-- retry-worthy events: a failed write and a read timeout = 2; three write attempts with max_retry 2
example : (runX (exCfgX 2) (scriptX [.timeout] [.timeout, .posFinal] [])).writes = 3 ∧
    retryEventsX (boundsX (exCfgX 2)) (scriptX [.timeout] [.timeout, .posFinal] []) 3 2 = 2 := by
  constructor
  · runx_eval
  · simp [retryEventsX, wrFaultsFrom, retryEvents, retryEventsFrom, stepPhase, scriptX]
-- hypotheses of `failed_write_no_read` / `reconnect_failed_is_last` are satisfiable
example : (runX (exCfgX 1) (scriptX [.connErr] [] [.fail .timeout])).trace =
    [] ++ .wr (some 1000) .connErr 0 :: .sl 200 :: [.rc (.fail .timeout)] := by runx_eval
example : (runX (exCfgX 1) (scriptX [.connErr] [] [.fail .timeout])).trace =
    [.wr (some 1000) .connErr 0, .sl 200] ++ .rc (.fail .timeout) :: [] := by runx_eval
-- … and of `pending_no_write_io`
example : (runX (exCfgX 0) (scriptX [] [.pending, .posFinal] [])).trace =
    [.wr (some 1000) .ok 0] ++ .rd 0 (some 1000) 10 :: .rd 1 (some 500) 10 :: [] ∧
    (scriptX [] [.pending, .posFinal] []).rd 0 = .pending := by
  constructor
  · runx_eval
  · simp [scriptX]

end Widened

end Gallia.C04
