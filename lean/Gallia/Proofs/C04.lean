import Gallia.Proofs.Lemmas.Client
import Gallia.Gen.C04Limits
/-
  C04 — One client request ends with the outcome its reply / fault sequence implies.

  Model: `Model/Client.lean` (`run`, follows `UDSClient.request_unsafe` branch by branch; the event script is an
  infinite stream `Nat → Ev`, so termination and boundedness are theorems).  Specification: `Spec/ClientSpec.lean`
  (`Implied`, `retryEvents`; written from the property's sentence).  Helper lemmas: `Proofs/Lemmas/Client.lean`.
  All theorems hold for every configuration `c` (any max_retry, timeout, latency, limits) and every script `s`.
-/
namespace Gallia.C04
open Gallia.Client Gallia.ClientSpec

/-! ### tie: the literal limits -/

/-- the limits the model runs with are the literals of client.py (table regenerated on every run) -/
theorem limits_agree :
    Limits.std = { maxPending := Gen.C04Limits.maxPending, waiting := Gen.C04Limits.waitingMs,
                   floor := Gen.C04Limits.floorMs, retryWait := Gen.C04Limits.retryWaitMs,
                   base := Gen.C04Limits.backoffBase } ∧
    Gen.C04Limits.nPendingInit = 1 ∧ Gen.C04Limits.nTimeoutInit = 0 := by decide

/-- with the code's limits the silence limit is 40 polls up to a 20 s timeout and ⌈timeout / 0.5 s⌉ above -/
theorem silence_limit_std (maxRetry timeout lat : Nat) :
    maxNT ⟨maxRetry, timeout, lat, Limits.std⟩ = if timeout ≤ 20000 then 40 else (timeout + 499) / 500 := by
  simp only [maxNT, Limits.std]; split <;> omega

/-! ### bounded: `run` is total (by construction, well-founded recursion) and these are its explicit bounds -/

/-- the request is written at most `max_retry + 1` times -/
theorem writes_le (c : Cfg) (s : Nat → Ev) : (run c s).writes ≤ c.maxRetry + 1 := by
  simpa [run, Res.writes] using (attempts_bounds c s 0 0 (.missing false)).writes

/-- bounded number of polls: at most `(max_retry+1) · (1 + pendReadsBound)` reads, whatever the ECU sends -/
theorem reads_le (c : Cfg) (s : Nat → Ev) : (run c s).reads ≤ readsBound c := by
  simpa [run, Res.reads, readsBound] using (attempts_bounds c s 0 0 (.missing false)).reads

/-- the bound in the shape of DESIGN.md: `(maxRetry+1) · (1 + maxPending · (maxNT+1))` once `maxPending ≥ 1` -/
theorem reads_le_design (c : Cfg) (s : Nat → Ev) (h : 1 ≤ c.lim.maxPending) :
    (run c s).reads ≤ (c.maxRetry + 1) * (1 + c.lim.maxPending * (maxNT c + 1)) := by
  have h1 := reads_le c s
  have h2 : attemptReadsBound c = 1 + c.lim.maxPending * (maxNT c + 1) := by
    simp only [attemptReadsBound, pendReadsBound]
    obtain ⟨p, hp⟩ : ∃ p, c.lim.maxPending = p + 1 := ⟨c.lim.maxPending - 1, by omega⟩
    rw [hp, Nat.add_sub_cancel, Nat.add_mul]; omega
  rwa [readsBound, h2] at h1

/-- bounded virtual time: per attempt one request timeout, the polls of one pending loop and one backoff -/
theorem elapsed_le (c : Cfg) (s : Nat → Ev) : (run c s).elapsed ≤ elapsedBound c := by
  simpa [run, Res.elapsed, elapsedBound] using (attempts_bounds c s 0 0 (.missing false)).time

/-- one request always terminates (`run` is a total function on infinite scripts) within explicit bounds on
    transmissions, polls and virtual time that depend on the configuration only, not on what the ECU sends -/
theorem run_total (c : Cfg) : ∃ w r t, ∀ s : Nat → Ev,
    (run c s).writes ≤ w ∧ (run c s).reads ≤ r ∧ (run c s).elapsed ≤ t :=
  ⟨c.maxRetry + 1, readsBound c, elapsedBound c, fun s => ⟨writes_le c s, reads_le c s, elapsed_le c s⟩⟩

/-- concretely for the code's limits, timeout ≤ 20 s and latency ≤ 0.5 s: at most 4921 reads per attempt -/
theorem reads_le_std (maxRetry timeout lat : Nat) (s : Nat → Ev) (ht : timeout ≤ 20000) :
    (run ⟨maxRetry, timeout, lat, Limits.std⟩ s).reads ≤ (maxRetry + 1) * 4921 := by
  have h := reads_le ⟨maxRetry, timeout, lat, Limits.std⟩ s
  have hm := silence_limit_std maxRetry timeout lat
  simp only [ht, if_true] at hm
  rw [readsBound, attemptReadsBound, pendReadsBound, hm] at h
  simpa [Limits.std] using h

/-! ### transmissions -/

/-- the request goes on the wire once, plus once per retry-worthy event among the reads consumed, capped at
    `max_retry + 1`.  `retryEvents` is the specification's own count (timeouts, lost connections, busy as first
    reply, one per completed silence episode; responsePending replies are never counted). -/
theorem writes_eq (c : Cfg) (s : Nat → Ev) :
    (run c s).writes = min (1 + retryEvents (bounds c) s (run c s).reads) (c.maxRetry + 1) := by
  simpa [run, Res.writes, Res.reads, retryEvents] using attempts_writes_eq c s 0 0 (.missing false) (Nat.zero_le _)

/-- the responsePending loop itself never transmits, sleeps or reconnects, however long it runs -/
theorem pending_loop_only_reads (c : Cfg) (s : Nat → Ev) (k np nt : Nat) :
    nWrites (pendingLoop c s k np nt).2 = 0 ∧ nReconnects (pendingLoop c s k np nt).2 = 0 ∧
    sleepsOf (pendingLoop c s k np nt).2 = [] :=
  ⟨(pend_facts c s k np nt).nw, (pend_facts c s k np nt).nrc, (pend_facts c s k np nt).sl⟩

/-- ResponsePending prolongs waiting without retransmission: in the trace of a request every read that
    produced a responsePending is directly followed by another read, or is the last action (stuck) -/
theorem pending_no_write (c : Cfg) (s : Nat → Ev) : PendNoWrite s (run c s).trace := by
  simpa [run] using attempts_pnw c s 0 0 (.missing false)

/-! ### the outcome -/

/-- the outcome of the model is the one the specification says the event sequence implies -/
theorem run_sound (c : Cfg) (s : Nat → Ev) : ImpliedReq (bounds c) c.maxRetry s (run c s).out := by
  simpa [run, ImpliedReq] using attempts_sound c s 0 0 (.missing false) (Nat.zero_le _)

/-- … and it is the only one: the specification determines the outcome.  This is what lets the correspondence
    harness decide "the observed behaviour violates the specification" by comparison with `run` -/
theorem implied_iff_run (c : Cfg) (s : Nat → Ev) (o : Out) :
    ImpliedReq (bounds c) c.maxRetry s o ↔ o = (run c s).out :=
  ⟨fun h => implied_unique h (run_sound c s), fun h => h ▸ run_sound c s⟩

/-- a reply received is never dropped: if any read the request performed produced a final reply, that reply is
    what the request returns (so it is also the last read, and the first final reply of the script) -/
theorem first_final (c : Cfg) (s : Nat → Ev) (j : Nat) (hj : j < (run c s).reads)
    (hf : (s j).final = true) : (run c s).out = .reply j := by
  have := (attempts_first c s 0 0 (.missing false) j (Nat.zero_le _) (by simpa [run, Res.reads] using hj)).1 hf
  simpa [run] using this

/-- likewise a mismatching / malformed reply that was read ends the request with the illegal-response error for
    exactly that reply (it is neither skipped nor retried) -/
theorem illegal_ends (c : Cfg) (s : Nat → Ev) (j : Nat) (hj : j < (run c s).reads)
    (hf : (s j).illegal = true) : (run c s).out = .illegal j := by
  have := (attempts_first c s 0 0 (.missing false) j (Nat.zero_le _) (by simpa [run, Res.reads] using hj)).2 hf
  simpa [run] using this

/-- the reply a request returns is the one produced by its last read: nothing is read after it -/
theorem reply_is_last (c : Cfg) (s : Nat → Ev) (k : Nat) (h : (run c s).out = .reply k) :
    (run c s).reads = k + 1 := by
  have := attempts_reply_last c s 0 0 (.missing false) (by simp) k (.inl (by simpa [run] using h))
  simp [run, Res.reads]; omega

/-- … it is a final reply or a busyRepeatRequest … -/
theorem reply_event (c : Cfg) (s : Nat → Ev) (k : Nat) (h : (run c s).out = .reply k) :
    (s k).final = true ∨ s k = .busy := by
  have hs := run_sound c s
  rw [h] at hs
  exact implied_reply_event hs

/-- … and it is the first final reply of the script: nothing final was read before it -/
theorem reply_is_first (c : Cfg) (s : Nat → Ev) (k : Nat) (h : (run c s).out = .reply k) :
    ∀ j, j < k → (s j).final = false := by
  intro j hj
  have hk := reply_is_last c s k h
  cases hfin : (s j).final with
  | false => rfl
  | true =>
    have := first_final c s j (by omega) hfin
    rw [h] at this; injection this with e; omega

/-- the exception raised after the loop always stems from the last attempt: the initial
    `last_exception = MissingResponse(request)` never surfaces (max_retry ≥ 0) -/
theorem last_exception_from_last_attempt (c : Cfg) (s : Nat → Ev) (l : Out) :
    attempts c s 0 0 l = attempts c s 0 0 (.missing false) :=
  attempts_last_irrelevant c s 0 0 l _ (Nat.zero_le _)

/-! ### backoff -/

/-- the backoff sleeps of a request are, in order, a sub-sequence of `retry_wait·2^0, …, retry_wait·2^(max_retry-1)`:
    attempt `i` sleeps `retry_wait · base^i` or not at all, and there is no sleep after the last attempt -/
theorem backoff (c : Cfg) (s : Nat → Ev) :
    (run c s).sleeps.Sublist ((List.range c.maxRetry).map (fun i => c.lim.retryWait * c.lim.base ^ i)) := by
  have h := attempts_sleeps c s 0 0 (.missing false)
  have hw : (fun i => c.lim.retryWait * c.lim.base ^ i) = wait c := rfl
  rw [hw]
  simpa [run, Res.sleeps, List.range_eq_range'] using h

/-- per-request overrides: `None` falls back to the client attribute, everything else (also 0) overrides -/
theorem resolve_override (ct cm : Nat) (rt rm : Option Nat) (lat : Nat) (lim : Limits) :
    (resolve ct cm rt rm lat lim).maxRetry = (match rm with | some m => m | none => cm) ∧
    (resolve ct cm rt rm lat lim).timeout = (match rt with | some t => t | none => ct) := by
  cases rt <;> cases rm <;> simp [resolve]

/-! ### non-vacuity: every outcome occurs, and the hypotheses above are satisfiable -/

/-- small limits so that the examples evaluate quickly: 3 pendings, 2 silent polls -/
def exLim : Limits := { maxPending := 3, waiting := 500, floor := 1000, retryWait := 200, base := 2 }
def exCfg (maxRetry : Nat) : Cfg := ⟨maxRetry, 1000, 10, exLim⟩
def script (l : List Ev) (pad : Ev) : Nat → Ev := fun k => l.getD k pad

/-- evaluate a concrete run by unfolding the model -/
macro "run_eval" : tactic => `(tactic| simp [run, attempts, pendingLoop, script, exCfg, exLim, maxNT, pre, consOp, afterFault,
  wait, Res.writes, Res.reads, Res.sleeps, Res.reconnects, Res.elapsed])

-- reply: pending, one silent poll, then the positive response; one transmission, 3 reads, 10+500+10 ms
example : run (exCfg 1) (script [.pending, .timeout, .posFinal] .timeout) =
    ⟨.reply 2, [.wr, .rd 0 1000 10, .rd 1 500 500, .rd 2 500 10]⟩ := by run_eval
-- busy on the last attempt is returned; busy before is retried after the backoff
example : run (exCfg 1) (script [.busy, .busy] .timeout) =
    ⟨.reply 1, [.wr, .rd 0 1000 10, .sl 200, .wr, .rd 1 1000 10]⟩ := by run_eval
-- an ECU that never answers: missing-response (no cause) after max_retry + 1 transmissions
example : (run (exCfg 1) (script [] .timeout)).out = .missing false ∧
    (run (exCfg 1) (script [] .timeout)).writes = 2 := by constructor <;> run_eval
-- connection lost while polling after a responsePending: missing-response with the cause (the repaired branch)
example : (run (exCfg 0) (script [.pending, .connErr] .timeout)).out = .missing true := by run_eval
-- … and with a retry left: backoff, reconnect, retransmission, reply
example : run (exCfg 1) (script [.pending, .empty, .negFinal] .timeout) =
    ⟨.reply 2, [.wr, .rd 0 1000 10, .rd 1 500 10, .sl 200, .rc, .wr, .rd 2 1000 10]⟩ := by run_eval
-- a mismatching reply after a retry: illegal-response, no further transmission
example : (run (exCfg 2) (script [.timeout, .mismatch] .posFinal)).out = .illegal 1 ∧
    (run (exCfg 2) (script [.timeout, .mismatch] .posFinal)).writes = 2 := by constructor <;> run_eval
-- endless pendings: stuck after `maxPending` of them, one transmission
example : (run (exCfg 1) (script [] .pending)).out = .stuck ∧
    (run (exCfg 1) (script [] .pending)).writes = 1 ∧ (run (exCfg 1) (script [] .pending)).reads = 3 := by
  refine ⟨?_, ?_, ?_⟩ <;> run_eval
-- a final reply arriving as the last tolerated message is returned (the repaired limit check)
example : (run (exCfg 0) (script [.pending, .pending, .posFinal] .pending)).out = .reply 2 := by run_eval
-- silence after a pending is one retry-worthy event: retransmission without backoff, then the reply
example : run (exCfg 1) (script [.pending, .timeout, .timeout, .posFinal] .timeout) =
    ⟨.reply 3, [.wr, .rd 0 1000 10, .rd 1 500 500, .rd 2 500 500, .wr, .rd 3 1000 10]⟩ := by run_eval
-- exponential backoff and reconnect
example : (run (exCfg 2) (script [.connErr, .timeout, .posFinal] .timeout)).sleeps = [200, 400] ∧
    (run (exCfg 2) (script [.connErr, .timeout, .posFinal] .timeout)).reconnects = 1 := by
  constructor <;> run_eval
-- the specification's relation is inhabited for a non-trivial script (and by `implied_iff_run` by nothing else)
example : ImpliedReq (bounds (exCfg 1)) 1 (script [.pending, .timeout, .posFinal] .timeout) (.reply 2) := by
  have h := run_sound (exCfg 1) (script [.pending, .timeout, .posFinal] .timeout)
  have e : (run (exCfg 1) (script [.pending, .timeout, .posFinal] .timeout)).out = .reply 2 := by run_eval
  rwa [e] at h
-- the hypotheses of `first_final` are satisfiable: read 2 < 3 reads is final
example : (2 : Nat) < (run (exCfg 1) (script [.pending, .timeout, .posFinal] .timeout)).reads ∧
    ((script [.pending, .timeout, .posFinal] .timeout) 2).final = true := by
  constructor
  · run_eval
  · simp [script, Ev.final]
-- retry-worthy events as the specification counts them: timeout, lost, busy = 3; writes = min (1+3) (2+1)
example : retryEvents (bounds (exCfg 2)) (script [.timeout, .connErr, .busy] .posFinal) 3 = 3 := by
  simp [retryEvents, retryEventsFrom, stepPhase, script]

end Gallia.C04
