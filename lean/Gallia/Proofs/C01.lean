import Gallia.Proofs.Lemmas.UdsReqCodec
import Gallia.Proofs.Lemmas.UdsReqLayout
import Gallia.Proofs.Lemmas.UdsReqMk
import Gallia.Gen.C01Registry
import Gallia.Proofs.Lemmas.UdsClientApi
import Gallia.Gen.C01Api
/-
  C01 — UDS requests serialise to the ISO 14229-1 layout and parse back losslessly.
  Property theorems only; helper lemmas are in `Proofs/Lemmas/UdsReq*.lean`.

  `Req` has one constructor per request kind of the registry (the six ReadDTCInformation kinds with a status mask,
  the six without parameters and the three RoutineControl kinds are parameterised by their sub-function, whose
  admissible values are part of `Req.WF`); `encode` is the ISO layout, `decode` the dynamic parser, `mk` construction.
-/
namespace Gallia.C01
open Gallia Gallia.UdsReq Gallia.UdsClientApi

/-! ### (T) registry -/

/-- the registry the model dispatches and gates on is the registry of the running code: same request classes, service ids,
    sub-function ids, minimal and maximal lengths -/
theorem registry_agrees : Gen.C01Registry.table = requestRegistry := by decide +kernel

/-- the InputOutputControlByIdentifier convenience classes carry the control parameters / minimal lengths the model assumes -/
theorem convenience_agrees : Gen.C01Registry.convenience = iocbiConvenience := by decide +kernel

/-- the sub-function families of the model are exactly the registered ones -/
theorem subfunction_families :
    (requestRegistry.filter (·.kind = .dtcByMask)).map (·.sf) = dtcMaskSfs.map some ∧
    (requestRegistry.filter (·.kind = .dtcPlain)).map (·.sf) = dtcPlainSfs.map some ∧
    (requestRegistry.filter (·.kind = .routine)).map (·.sf) = routineSfs.map some := by decide +kernel

/-! ### round trip -/

/-- parsing the bytes of a well-formed request yields the same request (same kind, same field values; the two
    adjacent unbounded records of InputOutputControlByIdentifier come back concatenated) -/
theorem decode_encode (r : Req) (h : r.WF) (hr : r.isRaw = false) : decode (encode r) = norm r := by
  unfold decode
  rw [parseTyped_encode r h hr]
  simp only [gate_encode r h hr, if_true]

/-- a well-formed request is never degraded to an opaque raw request by the dynamic parser -/
theorem decode_encode_ne_raw (r : Req) (h : r.WF) (hr : r.isRaw = false) : (decode (encode r)).isRaw = false := by
  rw [decode_encode r h hr]
  cases r <;> simp_all [norm, Req.isRaw]

/-- whatever the parser returns — typed or raw — carries exactly the parsed bytes
    (the in-code `assert result.pdu == pdu`, for every byte string) -/
theorem encode_decode (b : Bytes) : encode (decode b) = b := by
  unfold decode
  split
  · rename_i r hp
    split
    · exact (parseTyped_sound b r hp).1
    · rfl
  · rfl

/-- the parser only ever returns requests whose fields are in their documented ranges -/
theorem decode_wf (b : Bytes) : (decode b).WF := by
  unfold decode
  split
  · rename_i r hp
    split
    · rename_i hg; exact (parseTyped_sound b r hp).2 hg
    · simp [Req.WF]
  · simp [Req.WF]

/-- distinct well-formed requests have distinct PDUs (up to the inseparable record pair) -/
theorem encode_injective (r s : Req) (hr : r.WF) (hs : s.WF) (hr' : r.isRaw = false) (hs' : s.isRaw = false)
    (h : encode r = encode s) : norm r = norm s := by
  rw [← decode_encode r hr hr', ← decode_encode s hs hs', h]

/-- a typed result of the parser belongs to a registered class whose length gate the input passes -/
theorem decode_typed_in_registry (b : Bytes) (h : (decode b).isRaw = false) :
    ∃ e, regLookup (keyOf (decode b)).1 (keyOf (decode b)).2 = some e ∧ e.minLen ≤ b.length ∧
      ∀ m, e.maxLen = some m → b.length ≤ m := by
  unfold decode at h ⊢
  split at h
  · rename_i r hp
    split at h
    · rename_i hg
      simp only [hg, if_true]
      unfold gate at hg
      split at hg
      · rename_i e he
        refine ⟨e, he, ?_, ?_⟩
        · simp at hg; exact hg.1
        · intro m hm; simp [hm] at hg; exact hg.2
      · simp at hg
    · simp [Req.isRaw] at h
  · simp [Req.isRaw] at h

/-! ### layout: the positions the property names, stated through accessors independent of `encode` -/

/-- first byte = the service id the registry holds for the request's class -/
theorem encode_sid (r : Req) (h : r.WF) (hr : r.isRaw = false) :
    ∃ e sid, regLookup (keyOf r).1 (keyOf r).2 = some e ∧ e.sid = some sid ∧ (encode r).head? = some (UInt8.ofNat sid) :=
  encode_head r h hr

/-- second byte of every sub-function request = sub-function + 0x80 * suppressPosRspMsgIndicationBit -/
theorem encode_subfn_suppress (r : Req) (h : r.WF) (sf : Nat) (sup : Bool) (hs : subfn r = some (sf, sup)) :
    ∃ b : UInt8, (encode r)[1]? = some b ∧ b.toNat = sf + 0x80 * sup.toNat ∧ b.toNat % 0x80 = sf ∧
      (0x80 ≤ b.toNat ↔ sup = true) := by
  have hlt := subfn_lt r h sf sup hs
  refine ⟨sfByte sf sup, encode_byte1 r sf sup hs, ?_, ?_, ?_⟩
  · rw [sfByte_toNat hlt]; cases sup <;> simp
  · rw [sfByte_toNat hlt]; cases sup <;> simp <;> omega
  · rw [sfByte_toNat hlt]; cases sup <;> simp <;> omega

/-- 16-bit identifiers (dataIdentifier, routineIdentifier, dynamicallyDefinedDataIdentifier) are big-endian -/
theorem encode_did_be (r : Req) (h : r.WF) (off d : Nat) (hd : didAt r = some (off, d)) :
    d < 65536 ∧ (encode r)[off]? = some (UInt8.ofNat (d / 256)) ∧ (encode r)[off + 1]? = some (UInt8.ofNat (d % 256)) :=
  encode_did r h off d hd

/-- addressAndLengthFormatIdentifier: low nibble = number of address bytes, high nibble = number of size bytes, both
    non-zero, followed by exactly that many big-endian bytes of address and of size, which hold the values -/
theorem encode_alfid (r : Req) (h : r.WF) (off f a s : Nat) (hm : memAt r = some (off, f, a, s)) :
    f < 256 ∧ 0 < f % 16 ∧ 0 < f / 16 ∧ (encode r)[off]? = some (UInt8.ofNat f) ∧
    ((encode r).drop (off + 1)).take (f % 16) = toBE a (f % 16) ∧ fromBE (toBE a (f % 16)) = a ∧
    ((encode r).drop (off + 1 + f % 16)).take (f / 16) = toBE s (f / 16) ∧ fromBE (toBE s (f / 16)) = s := by
  obtain ⟨hok, hfit, h1, h2, h3⟩ := encode_mem r h off f a s hm
  exact ⟨hok.1, hok.2.1, hok.2.2, h1, h2, fromBE_toBE _ _ hfit.1, h3, fromBE_toBE _ _ hfit.2⟩

/-- the PDU length of a well-formed request lies within the registry's bounds for its class -/
theorem encode_length (r : Req) (h : r.WF) (hr : r.isRaw = false) :
    ∃ e, regLookup (keyOf r).1 (keyOf r).2 = some e ∧ e.minLen ≤ (encode r).length ∧
      ∀ m, e.maxLen = some m → (encode r).length ≤ m := by
  have hd := decode_encode r h hr
  have hn : (decode (encode r)).isRaw = false := decode_encode_ne_raw r h hr
  have := decode_typed_in_registry (encode r) hn
  rw [hd, keyOf_norm] at this
  exact this

/-! ### construction -/

/-- a request that construction accepts is well-formed -/
theorem mk_ok_wf (a : Args) (r : Req) (h : mk a = .ok r) : r.WF := by
  by_cases hin : InRange a
  · obtain ⟨r', hr', hwf⟩ := mk_accepts' a hin
    rw [hr'] at h; cases h; exact hwf
  · rw [mk_refuses' a hin] at h; cases h

/-- a parameter outside its documented range is refused with an error (never encoded) -/
theorem mk_refuses (a : Args) (h : ¬ InRange a) : mk a = .error .refused := mk_refuses' a h

/-- every argument tuple inside the documented ranges is accepted, and the result round-trips through the wire format -/
theorem mk_accepts (a : Args) (h : InRange a) :
    ∃ r, mk a = .ok r ∧ r.WF ∧ (r.isRaw = false → decode (encode r) = norm r) := by
  obtain ⟨r, hr, hwf⟩ := mk_accepts' a h
  exact ⟨r, hr, hwf, fun hraw => decode_encode r hwf hraw⟩

/-- without an explicit format the computed addressAndLengthFormatIdentifier is valid and the values fit -/
theorem alfidOf_fits (a s : Nat) (ha : minBytes a ≤ 15) (hs : minBytes s ≤ 15) :
    AlfidOk (alfidOf a s) ∧ Fits (alfidOf a s) a s := UdsReq.alfidOf_fits a s ha hs

/-- ... and it is minimal: no valid format that fits the values has a narrower address or size field; values that no
    format fits (more than 15 bytes) are exactly those with `minBytes > 15` -/
theorem alfidOf_minimal (a s f : Nat) (hok : AlfidOk f) (hf : Fits f a s) :
    minBytes a ≤ alLen f ∧ minBytes s ≤ slLen f ∧ minBytes a ≤ 15 ∧ minBytes s ≤ 15 := UdsReq.alfidOf_minimal a s f hok hf


/-! ### the service-method layer: `UDSClient.<method>(...)` / `ECU.<helper>(...)`

  `denote` is the documented meaning of a call, `bytesOf` the code as written (tables regenerated from the signatures and the
  AST of client.py / ecu.py, run by the interpreter of `Model/UdsClientApi.lean`). -/

/-- (T) parameter names, their order and their defaults — of every request building method of UDSClient / ECU and of every
    request class they construct — are the modelled ones: a changed default or parameter breaks this at build time -/
theorem api_signature_agrees :
    Gen.C01Api.sigs = UdsClientApi.sigs ∧ Gen.C01Api.classSigs = UdsClientApi.classSigs := by decide +kernel

/-- (T) which class every method body constructs, which expression it passes for which constructor parameter, that a service
    method does nothing else, which method every helper delegates to with which arguments, and the statements of
    `ECU.transmit_data` are the modelled ones -/
theorem api_sites_agree :
    Gen.C01Api.ctorSites = UdsClientApi.ctorSites ∧ Gen.C01Api.callSites = UdsClientApi.callSites ∧
    Gen.C01Api.bodies = UdsClientApi.bodies ∧ Gen.C01Api.transmitBody = UdsClientApi.transmitBody := by decide +kernel

/-- (T) method name -> (service id, sub-function) as the live classes have it = the ISO 14229-1 table of the model -/
theorem api_table_agrees : Gen.C01Api.wire = wireTable := by decide +kernel

/-- the default of `max_block_length` in the signature table is the one `transmitCalls` uses -/
theorem api_transmit_default :
    (UdsClientApi.sigs.find? (fun s => s.method = .transmit_data)).map (·.params) =
      some [⟨.data, none⟩, ⟨.block_length, none⟩, ⟨.max_block_length, some (.int maxBlockLengthDefault)⟩] := by decide +kernel

/-- every denoted request is well-formed ... -/
theorem denote_wf (c : Call) (r : Req) (h : denote c = .ok r) : r.WF := mk_ok_wf (argsOf c) r h

/-- ... and a call with an argument outside its documented range is refused (never encoded); a call inside is accepted -/
theorem denote_refuses (c : Call) (h : ¬ InRange (argsOf c)) : denote c = .error .refused := mk_refuses (argsOf c) h

theorem denote_accepts (c : Call) (h : InRange (argsOf c)) : ∃ r, denote c = .ok r ∧ r.WF := by
  obtain ⟨r, hr, hwf, -⟩ := mk_accepts (argsOf c) h
  exact ⟨r, hr, hwf⟩

/-- the bytes the code hands to the transport are the ISO layout of the request the documentation says, and the code refuses
    exactly the calls the documentation puts out of range -/
theorem call_bytes (c : Call) : bytesOf c = (denote c).map encode := by
  unfold bytesOf; rw [codeReq_eq_denote]

/-- the bytes of every accepted call parse back to the denoted request: same service, same field values, never degraded to
    an opaque raw request (`send_raw` is the one method whose request *is* raw) -/
theorem call_decode (c : Call) (b : Bytes) (h : bytesOf c = .ok b) :
    ∃ r, denote c = .ok r ∧ r.WF ∧ b = encode r ∧ encode (decode b) = b ∧
      (c.method ≠ .send_raw → decode b = norm r ∧ (decode b).isRaw = false) := by
  rw [call_bytes] at h
  cases hd : denote c with
  | error e => rw [hd] at h; cases h
  | ok r =>
    rw [hd] at h
    have hb : b = encode r := by cases h; rfl
    have hwf := denote_wf c r hd
    refine ⟨r, rfl, hwf, hb, encode_decode b, fun hc => ?_⟩
    have hraw := denote_not_raw c r hd hc
    subst hb
    exact ⟨decode_encode r hwf hraw, decode_encode_ne_raw r hwf hraw⟩

/-- the sub-function byte carries the suppressPosRspMsgIndicationBit iff the caller asked for it (leaving the argument out
    = not asked) -/
theorem call_suppress_bit (c : Call) (r : Req) (s : Option Bool) (h : denote c = .ok r) (hs : c.supArg = some s) :
    ∃ b : UInt8, (encode r)[1]? = some b ∧ (0x80 ≤ b.toNat ↔ s = some true) := by
  obtain ⟨sf, hsf⟩ := denote_subfn_sup c r s h hs
  obtain ⟨b, hb, -, -, hiff⟩ := encode_subfn_suppress r (denote_wf c r h) sf (s.getD false) hsf
  refine ⟨b, hb, hiff.trans ?_⟩
  cases s with
  | none => simp
  | some v => simp

/-- ... and a method without a `suppress_response` parameter (transfer_data, read_data_by_identifier, ECU.ping, ECU.set_session,
    ECU.read_dtc, ...) never sets the bit -/
theorem call_no_suppress_unasked (c : Call) (r : Req) (sf : Nat) (sup : Bool) (h : denote c = .ok r) (hs : c.supArg = none)
    (hr : subfn r = some (sf, sup)) : ∃ b : UInt8, (encode r)[1]? = some b ∧ b.toNat = sf := by
  have hsup := denote_subfn_nosup c r sf sup h hs hr
  subst hsup
  obtain ⟨b, hb, hv, -, -⟩ := encode_subfn_suppress r (denote_wf c r h) sf false hr
  exact ⟨b, hb, by simpa using hv⟩

/-- the method name fixes the service and, for the convenience methods, exactly the sub-function the name says
    (`wireTable`, equal to the live classes' SERVICE_ID / SUB_FUNCTION_ID by `api_table_agrees`) -/
theorem call_fixed_subfn (c : Call) (r : Req) (sid : Nat) (sf : Option Nat) (h : denote c = .ok r)
    (hw : wireOf c.method = some (some sid, sf)) :
    (encode r).head? = some (UInt8.ofNat sid) ∧
    ∀ f, sf = some f → ∃ b : UInt8, (encode r)[1]? = some b ∧ b.toNat % 0x80 = f := by
  have hsh := denote_shape c r h
  have hwf := denote_wf c r h
  have key : ∀ (f : Nat) (sup : Bool), subfn r = some (f, sup) → ∃ b : UInt8, (encode r)[1]? = some b ∧ b.toNat % 0x80 = f := by
    intro f sup hs
    obtain ⟨b, hb, -, hm, -⟩ := encode_subfn_suppress r hwf f sup hs
    exact ⟨b, hb, hm⟩
  cases c <;> simp [wireOf, wireTable, Call.method, Call.py] at hw <;> obtain ⟨rfl, rfl⟩ := hw
  case report_dtc_extended_data_record_by_dtc_number d n s =>
    cases d <;> simp only [argsOf, Shape] at hsh <;> subst hsh <;>
      exact ⟨rfl, fun f hf => by cases hf; exact key _ _ rfl⟩
  case clear_dynamically_defined_data_identifier d s =>
    simp only [argsOf, Shape] at hsh; subst hsh
    cases d <;> exact ⟨rfl, fun f hf => by cases hf; exact key _ _ rfl⟩
  all_goals
    simp only [argsOf, Shape] at hsh
    first
      | (subst hsh; exact ⟨rfl, fun f hf => by first | (cases hf; exact key _ _ rfl) | cases hf⟩)
      | (obtain ⟨fb, rfl⟩ := hsh; exact ⟨rfl, fun f hf => by first | (cases hf; exact key _ _ rfl) | cases hf⟩)

/-- identifiers named by a call (dataIdentifier, routineIdentifier, dynamicallyDefinedDataIdentifier; the fixed identifiers of
    ECU.read_session / read_vin) go out big-endian at the offset ISO 14229-1 gives them -/
theorem call_ident_be (c : Call) (r : Req) (off : Nat) (d : Int) (h : denote c = .ok r) (hd : c.identArg = some (off, d)) :
    d.toNat < 65536 ∧ (encode r)[off]? = some (UInt8.ofNat (d.toNat / 256)) ∧
      (encode r)[off + 1]? = some (UInt8.ofNat (d.toNat % 256)) :=
  encode_did_be r (denote_wf c r h) off d.toNat (denote_didAt c r off d h hd)

/-- the InputOutputControlByIdentifier convenience methods put exactly the inputOutputControlParameter their name says
    (returnControlToECU 0, resetToDefault 1, freezeCurrentState 2, shortTermAdjustment 3) behind the dataIdentifier -/
theorem call_iocbi_parameter (c : Call) (r : Req) (p : Nat) (h : denote c = .ok r) (hp : c.iocbiParam = some p) :
    (encode r).head? = some 0x2F ∧ (encode r)[3]? = some (UInt8.ofNat p) := by
  obtain ⟨d, rest, m, rfl⟩ := denote_iocbi_param c r p h hp
  simp [encode, toBE_two, u8]

/-- leaving an optional argument out = passing its documented default (no suppression, empty record, method 0, computed format
    byte / size, `use_db` on), for the documented meaning and for the code as written; after `fill` every parameter of the
    signature is passed explicitly -/
theorem omitted_equals_default (c : Call) :
    denote c.fill = denote c ∧ bytesOf c.fill = bytesOf c ∧ c.fill.fill = c.fill ∧
    (UdsClientApi.sigs.find? (fun s => s.method = c.method)).map (fun s => s.params.map (·.name)) = some (c.fill.py.2.map (·.1)) := by
  have h1 : denote c.fill = denote c := by unfold denote; rw [argsOf_fill]
  exact ⟨h1, by rw [call_bytes, call_bytes, h1], fill_fill c, fill_complete c⟩

/-- `ECU.transmit_data`: a block length (after limiting it to `max_block_length`, default 0xFFF) that leaves no room for
    payload is refused; otherwise the data goes out as TransferData calls followed by one RequestTransferExit -/
theorem transmit_data_refuses (data : Bytes) (bl : Int) (mbl : Option Int) :
    (effBlockLength bl mbl < 3 → transmitCalls data bl mbl = .error .refused) ∧
    (3 ≤ effBlockLength bl mbl → ∃ cs, transmitCalls data bl mbl = .ok cs) ∧
    effBlockLength bl mbl ≤ bl ∧ effBlockLength bl mbl ≤ mbl.getD 0xFFF := by
  refine ⟨fun h => ?_, fun h => ?_, ?_, ?_⟩
  · unfold transmitCalls; simp only; rw [if_pos (by omega)]
  · unfold transmitCalls; simp only; rw [if_neg (by omega)]; exact ⟨_, rfl⟩
  · unfold effBlockLength; simp only; split <;> omega
  · unfold effBlockLength maxBlockLengthDefault; simp only; split <;> omega

/-- `ECU.transmit_data`: the block sequence counter starts at 1 and wraps 0xFF -> 0x00 (block i, 0-based, carries
    `(i + 1) % 256`), the payload chunks concatenate to the data, every chunk is non-empty and fits the block length in force
    (service id + counter + payload), every chunk but the last fills it, and RequestTransferExit (no record) comes last -/
theorem transmit_data_counters (data : Bytes) (bl : Int) (mbl : Option Int) (cs : List Call)
    (h : transmitCalls data bl mbl = .ok cs) :
    ∃ chunks : List Bytes,
      chunks.flatten = data ∧
      (∀ c ∈ chunks, c ≠ [] ∧ (c.length : Int) + 2 ≤ effBlockLength bl mbl) ∧
      (∀ i (hi : i + 1 < chunks.length), ((chunks[i]).length : Int) + 2 = effBlockLength bl mbl) ∧
      cs.length = chunks.length + 1 ∧
      (∀ i (hi : i < chunks.length), cs[i]? = some (.transfer_data (((i + 1) % 256 : Nat) : Int) (some chunks[i]))) ∧
      cs[chunks.length]? = some (.request_transfer_exit none) := by
  unfold transmitCalls at h
  simp only at h
  split at h
  · cases h
  · rename_i hp
    have hk : (effBlockLength bl mbl - 2).toNat ≠ 0 := by omega
    have hcs : cs = transferCalls (chunk (effBlockLength bl mbl - 2).toNat data) 0 ++ [.request_transfer_exit none] := by
      cases h; rfl
    refine ⟨chunk (effBlockLength bl mbl - 2).toNat data, chunk_flatten _ hk data, ?_, ?_, ?_, ?_, ?_⟩
    · intro c hc
      have := chunk_len _ hk data c hc
      exact ⟨fun e => by rw [e] at this; simp at this, by omega⟩
    · intro i hi
      have := chunk_full _ hk data i hi
      omega
    · rw [hcs, List.length_append, transferCalls_length]; rfl
    · intro i hi
      rw [hcs, List.getElem?_append_left (by rw [transferCalls_length]; exact hi),
        List.getElem?_eq_getElem (by rw [transferCalls_length]; exact hi), transferCalls_get _ 0 i hi]
      simp [counterOf]
    · rw [hcs, List.getElem?_append_right (by rw [transferCalls_length]; exact Nat.le_refl _), transferCalls_length]
      simp

/-- ... and each of these calls is accepted: block i goes out as `36 <(i+1) % 256> <chunk>`, the exit as `37` -/
theorem transmit_data_bytes (i : Nat) (c : Bytes) :
    bytesOf (.transfer_data (((i + 1) % 256 : Nat) : Int) (some c)) = .ok (0x36 :: UInt8.ofNat ((i + 1) % 256) :: c) ∧
    bytesOf (.request_transfer_exit none) = .ok [0x37] := by
  refine ⟨?_, by rw [call_bytes]; rfl⟩
  rw [call_bytes]
  have := transfer_data_bytes i c
  unfold counterOf at this
  rw [this]; rfl

/-- ... so every PDU `ECU.transmit_data` puts on the wire is accepted by the codec and fits the block length in force -/
theorem transmit_data_fits (data : Bytes) (bl : Int) (mbl : Option Int) (cs : List Call)
    (h : transmitCalls data bl mbl = .ok cs) :
    ∀ c ∈ cs, ∃ b, bytesOf c = .ok b ∧ 1 ≤ b.length ∧ (b.length : Int) ≤ effBlockLength bl mbl := by
  obtain ⟨chunks, -, hlen, -, hn, hget, hlast⟩ := transmit_data_counters data bl mbl cs h
  have h3 : 3 ≤ effBlockLength bl mbl := by
    by_cases h3 : 3 ≤ effBlockLength bl mbl
    · exact h3
    · rw [(transmit_data_refuses data bl mbl).1 (by omega)] at h; cases h
  intro c hc
  obtain ⟨i, hi, rfl⟩ := List.getElem_of_mem hc
  by_cases hic : i < chunks.length
  · have := hget i hic
    rw [List.getElem?_eq_getElem hi, Option.some.injEq] at this
    rw [this]
    refine ⟨_, (transmit_data_bytes i chunks[i]).1, by simp, ?_⟩
    have := (hlen chunks[i] (List.getElem_mem hic)).2
    simp only [List.length_cons]; omega
  · have hie : i = chunks.length := by omega
    subst hie
    rw [List.getElem?_eq_getElem hi, Option.some.injEq] at hlast
    rw [hlast]
    exact ⟨_, (transmit_data_bytes 0 []).2, by simp, by simp; omega⟩

/-! ### the hypotheses are satisfiable by concrete, non-trivial values -/

example : (Req.defineByMem 0xF300 0x24 [(0x11223344, 0x0102)] true).WF := by decide
example : InRange (.wmba 0x1000 [1, 2, 3] none (some 0x12)) := by
  refine ⟨⟨⟨by decide, by decide⟩, ?_⟩, by decide⟩
  simp only [Option.getD]; exact ⟨⟨by decide, by decide⟩, by decide, by decide⟩
example : ¬ InRange (.rdbi []) := by simp [InRange]
example : mk (.rmba 0x1234 0x10 (some 0x12)) = .ok (.rmba 0x1234 0x10 0x12) := by rfl
example : encode (.rmba 0x1234 0x10 0x12) = [0x23, 0x12, 0x12, 0x34, 0x10] := by decide +kernel
example : decode (encode (.defineByMem 0xF300 0x24 [(0x11223344, 0x0102)] true)) = .defineByMem 0xF300 0x24 [(0x11223344, 0x0102)] true := by
  decide +kernel

-- the service-method layer
example : bytesOf (.read_dtc_information_report_dtc_by_status_mask 0xFF (some true)) = .ok [0x19, 0x82, 0xFF] := rfl
example : bytesOf (.routine_control_request_routine_results 0x0203 none none) = .ok [0x31, 0x03, 0x02, 0x03] := rfl
example : bytesOf (.input_output_control_by_identifier_short_term_adjustment 0x1234 [0xAA, 0xBB] (some [0xFF])) =
    .ok [0x2F, 0x12, 0x34, 0x03, 0xAA, 0xBB, 0xFF] := rfl
example : bytesOf (.request_download 0x1000 0x20 (some 1) none (some (some 0x12))) = .ok [0x34, 0x10, 0x12, 0x10, 0x00, 0x20] := rfl
example : bytesOf .read_session = .ok [0x22, 0xF1, 0x86] ∧ bytesOf .read_vin = .ok [0x22, 0xF1, 0x90] ∧
    bytesOf .clear_dtc = .ok [0x14, 0xFF, 0xFF, 0xFF] ∧ bytesOf .read_dtc = .ok [0x19, 0x02, 0xFF] ∧ bytesOf .ping = .ok [0x3E, 0x00] ∧
    bytesOf (.set_session 3 none) = .ok [0x10, 0x03] := ⟨rfl, rfl, rfl, rfl, rfl, rfl⟩
example : denote (.diagnostic_session_control 0x80 none) = .error .refused ∧ denote (.set_session (-1) none) = .error .refused :=
  ⟨rfl, rfl⟩
example : (Call.routine_control_start_routine 0x0203 none none).supArg = some none ∧
    (Call.routine_control_start_routine 0x0203 none none).identArg = some (2, 0x0203) ∧
    wireOf (Call.routine_control_start_routine 0x0203 none none).method = some (some 0x31, some 1) := by decide +kernel
example : (Call.request_upload 1 2 none none none).fill = .request_upload 1 2 (some 0) (some 0) (some none) := rfl
example : ∃ cs, transmitCalls [1, 2, 3, 4, 5] 4 none = .ok cs := (transmit_data_refuses _ _ _).2.1 (by decide)
example : transmitCalls [1, 2, 3] 2 none = .error .refused ∧ transmitCalls [1, 2, 3] 9 (some 1) = .error .refused := ⟨rfl, rfl⟩
example : leaveSessionCalls.map bytesOf = [.ok [0x11, 0x01], .ok [0x3E, 0x00], .ok [0x10, 0x01]] := rfl

end Gallia.C01
