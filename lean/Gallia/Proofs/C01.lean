import Gallia.Proofs.Lemmas.UdsReqCodec
import Gallia.Gen.C01Registry
/-
  C01 — UDS requests serialise to the ISO 14229-1 layout and parse back losslessly.
  Property theorems only; helper lemmas are in `Proofs/Lemmas/UdsReq.lean` and `Proofs/Lemmas/UdsReqCodec.lean`.

  `Req` has one constructor per request kind of the registry (the six ReadDTCInformation kinds with a status mask,
  the six without parameters and the three RoutineControl kinds are parameterised by their sub-function, whose
  admissible values are part of `Req.WF`); `encode` is the ISO layout, `decode` the dynamic parser, `mk` construction.
-/
namespace Gallia.C01
open Gallia Gallia.UdsReq

/-! ### (T) registry -/

/-- the registry the model dispatches and gates on is the registry of the running code: same request classes, service ids,
    sub-function ids, minimal and maximal lengths -/
theorem registry_agrees : Gen.C01Registry.table = requestRegistry := by decide +kernel

/-- the InputOutputControlByIdentifier convenience classes carry the control parameters / minimal lengths the model assumes -/
theorem convenience_agrees : Gen.C01Registry.convenience = iocbiConvenience := by decide +kernel

/-- the sub-function families of the model are exactly the registered ones -/
theorem subfunction_families :
    (requestRegistry.filter (·.kind = .dtcByMask)).map (·.sf) = dtcMaskSfs.map some ∧
    (requestRegistry.filter (·.kind = .dtcPlain)).map (·.sf) = dtcPlainSfs.map some ∧
    (requestRegistry.filter (·.kind = .routine)).map (·.sf) = routineSfs.map some := by decide +kernel

/-! ### round trip -/

/-- parsing the bytes of a well-formed request yields the same request (same kind, same field values; the two
    adjacent unbounded records of InputOutputControlByIdentifier come back concatenated) -/
theorem decode_encode (r : Req) (h : r.WF) (hr : r.isRaw = false) : decode (encode r) = norm r := by
  unfold decode
  rw [parseTyped_encode r h hr]
  simp only [gate_encode r h hr, if_true]

/-- a well-formed request is never degraded to an opaque raw request by the dynamic parser -/
theorem decode_encode_ne_raw (r : Req) (h : r.WF) (hr : r.isRaw = false) : (decode (encode r)).isRaw = false := by
  rw [decode_encode r h hr]
  cases r <;> simp_all [norm, Req.isRaw]

/-- whatever the parser returns — typed or raw — carries exactly the parsed bytes
    (the in-code `assert result.pdu == pdu`, for every byte string) -/
theorem encode_decode (b : Bytes) : encode (decode b) = b := by
  unfold decode
  split
  · rename_i r hp
    split
    · exact (parseTyped_sound b r hp).1
    · rfl
  · rfl

/-- the parser only ever returns requests whose fields are in their documented ranges -/
theorem decode_wf (b : Bytes) : (decode b).WF := by
  unfold decode
  split
  · rename_i r hp
    split
    · rename_i hg; exact (parseTyped_sound b r hp).2 hg
    · simp [Req.WF]
  · simp [Req.WF]

/-- distinct well-formed requests have distinct PDUs (up to the inseparable record pair) -/
theorem encode_injective (r s : Req) (hr : r.WF) (hs : s.WF) (hr' : r.isRaw = false) (hs' : s.isRaw = false)
    (h : encode r = encode s) : norm r = norm s := by
  rw [← decode_encode r hr hr', ← decode_encode s hs hs', h]

/-- a typed result of the parser belongs to a registered class whose length gate the input passes -/
theorem decode_typed_in_registry (b : Bytes) (h : (decode b).isRaw = false) :
    ∃ e, regLookup (keyOf (decode b)).1 (keyOf (decode b)).2 = some e ∧ e.minLen ≤ b.length ∧
      ∀ m, e.maxLen = some m → b.length ≤ m := by
  unfold decode at h ⊢
  split at h
  · rename_i r hp
    split at h
    · rename_i hg
      simp only [hg, if_true]
      unfold gate at hg
      split at hg
      · rename_i e he
        refine ⟨e, he, ?_, ?_⟩
        · simp at hg; exact hg.1
        · intro m hm; simp [hm] at hg; exact hg.2
      · simp at hg
    · simp [Req.isRaw] at h
  · simp [Req.isRaw] at h

example : decode (encode (.defineByMem 0xF300 0x24 [(0x11223344, 0x0102)] true)) = .defineByMem 0xF300 0x24 [(0x11223344, 0x0102)] true := by
  decide +kernel

end Gallia.C01
