import Gallia.Model.UdsReq
import Gallia.Gen.C01Registry
/-
  C01 — UDS requests serialise to the ISO 14229-1 layout and parse back losslessly.
-/
namespace Gallia.C01
open Gallia Gallia.UdsReq

/-- (T) the registry the model dispatches and gates on is the registry of the running code -/
theorem registry_agrees : Gen.C01Registry.table = requestRegistry := by decide +kernel

theorem convenience_agrees : Gen.C01Registry.convenience = iocbiConvenience := by decide +kernel

end Gallia.C01
