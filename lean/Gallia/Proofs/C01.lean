import Gallia.Proofs.Lemmas.UdsReqCodec
import Gallia.Proofs.Lemmas.UdsReqLayout
import Gallia.Proofs.Lemmas.UdsReqMk
import Gallia.Gen.C01Registry
/-
  C01 — UDS requests serialise to the ISO 14229-1 layout and parse back losslessly.
  Property theorems only; helper lemmas are in `Proofs/Lemmas/UdsReq*.lean`.

  `Req` has one constructor per request kind of the registry (the six ReadDTCInformation kinds with a status mask,
  the six without parameters and the three RoutineControl kinds are parameterised by their sub-function, whose
  admissible values are part of `Req.WF`); `encode` is the ISO layout, `decode` the dynamic parser, `mk` construction.
-/
namespace Gallia.C01
open Gallia Gallia.UdsReq

/-! ### (T) registry -/

/-- the registry the model dispatches and gates on is the registry of the running code: same request classes, service ids,
    sub-function ids, minimal and maximal lengths -/
theorem registry_agrees : Gen.C01Registry.table = requestRegistry := by decide +kernel

/-- the InputOutputControlByIdentifier convenience classes carry the control parameters / minimal lengths the model assumes -/
theorem convenience_agrees : Gen.C01Registry.convenience = iocbiConvenience := by decide +kernel

/-- the sub-function families of the model are exactly the registered ones -/
theorem subfunction_families :
    (requestRegistry.filter (·.kind = .dtcByMask)).map (·.sf) = dtcMaskSfs.map some ∧
    (requestRegistry.filter (·.kind = .dtcPlain)).map (·.sf) = dtcPlainSfs.map some ∧
    (requestRegistry.filter (·.kind = .routine)).map (·.sf) = routineSfs.map some := by decide +kernel

/-! ### round trip -/

/-- parsing the bytes of a well-formed request yields the same request (same kind, same field values; the two
    adjacent unbounded records of InputOutputControlByIdentifier come back concatenated) -/
theorem decode_encode (r : Req) (h : r.WF) (hr : r.isRaw = false) : decode (encode r) = norm r := by
  unfold decode
  rw [parseTyped_encode r h hr]
  simp only [gate_encode r h hr, if_true]

/-- a well-formed request is never degraded to an opaque raw request by the dynamic parser -/
theorem decode_encode_ne_raw (r : Req) (h : r.WF) (hr : r.isRaw = false) : (decode (encode r)).isRaw = false := by
  rw [decode_encode r h hr]
  cases r <;> simp_all [norm, Req.isRaw]

/-- whatever the parser returns — typed or raw — carries exactly the parsed bytes
    (the in-code `assert result.pdu == pdu`, for every byte string) -/
theorem encode_decode (b : Bytes) : encode (decode b) = b := by
  unfold decode
  split
  · rename_i r hp
    split
    · exact (parseTyped_sound b r hp).1
    · rfl
  · rfl

/-- the parser only ever returns requests whose fields are in their documented ranges -/
theorem decode_wf (b : Bytes) : (decode b).WF := by
  unfold decode
  split
  · rename_i r hp
    split
    · rename_i hg; exact (parseTyped_sound b r hp).2 hg
    · simp [Req.WF]
  · simp [Req.WF]

/-- distinct well-formed requests have distinct PDUs (up to the inseparable record pair) -/
theorem encode_injective (r s : Req) (hr : r.WF) (hs : s.WF) (hr' : r.isRaw = false) (hs' : s.isRaw = false)
    (h : encode r = encode s) : norm r = norm s := by
  rw [← decode_encode r hr hr', ← decode_encode s hs hs', h]

/-- a typed result of the parser belongs to a registered class whose length gate the input passes -/
theorem decode_typed_in_registry (b : Bytes) (h : (decode b).isRaw = false) :
    ∃ e, regLookup (keyOf (decode b)).1 (keyOf (decode b)).2 = some e ∧ e.minLen ≤ b.length ∧
      ∀ m, e.maxLen = some m → b.length ≤ m := by
  unfold decode at h ⊢
  split at h
  · rename_i r hp
    split at h
    · rename_i hg
      simp only [hg, if_true]
      unfold gate at hg
      split at hg
      · rename_i e he
        refine ⟨e, he, ?_, ?_⟩
        · simp at hg; exact hg.1
        · intro m hm; simp [hm] at hg; exact hg.2
      · simp at hg
    · simp [Req.isRaw] at h
  · simp [Req.isRaw] at h

/-! ### layout: the positions the property names, stated through accessors independent of `encode` -/

/-- first byte = the service id the registry holds for the request's class -/
theorem encode_sid (r : Req) (h : r.WF) (hr : r.isRaw = false) :
    ∃ e sid, regLookup (keyOf r).1 (keyOf r).2 = some e ∧ e.sid = some sid ∧ (encode r).head? = some (UInt8.ofNat sid) :=
  encode_head r h hr

/-- second byte of every sub-function request = sub-function + 0x80 * suppressPosRspMsgIndicationBit -/
theorem encode_subfn_suppress (r : Req) (h : r.WF) (sf : Nat) (sup : Bool) (hs : subfn r = some (sf, sup)) :
    ∃ b : UInt8, (encode r)[1]? = some b ∧ b.toNat = sf + 0x80 * sup.toNat ∧ b.toNat % 0x80 = sf ∧
      (0x80 ≤ b.toNat ↔ sup = true) := by
  have hlt := subfn_lt r h sf sup hs
  refine ⟨sfByte sf sup, encode_byte1 r sf sup hs, ?_, ?_, ?_⟩
  · rw [sfByte_toNat hlt]; cases sup <;> simp
  · rw [sfByte_toNat hlt]; cases sup <;> simp <;> omega
  · rw [sfByte_toNat hlt]; cases sup <;> simp <;> omega

/-- 16-bit identifiers (dataIdentifier, routineIdentifier, dynamicallyDefinedDataIdentifier) are big-endian -/
theorem encode_did_be (r : Req) (h : r.WF) (off d : Nat) (hd : didAt r = some (off, d)) :
    d < 65536 ∧ (encode r)[off]? = some (UInt8.ofNat (d / 256)) ∧ (encode r)[off + 1]? = some (UInt8.ofNat (d % 256)) :=
  encode_did r h off d hd

/-- addressAndLengthFormatIdentifier: low nibble = number of address bytes, high nibble = number of size bytes, both
    non-zero, followed by exactly that many big-endian bytes of address and of size, which hold the values -/
theorem encode_alfid (r : Req) (h : r.WF) (off f a s : Nat) (hm : memAt r = some (off, f, a, s)) :
    f < 256 ∧ 0 < f % 16 ∧ 0 < f / 16 ∧ (encode r)[off]? = some (UInt8.ofNat f) ∧
    ((encode r).drop (off + 1)).take (f % 16) = toBE a (f % 16) ∧ fromBE (toBE a (f % 16)) = a ∧
    ((encode r).drop (off + 1 + f % 16)).take (f / 16) = toBE s (f / 16) ∧ fromBE (toBE s (f / 16)) = s := by
  obtain ⟨hok, hfit, h1, h2, h3⟩ := encode_mem r h off f a s hm
  exact ⟨hok.1, hok.2.1, hok.2.2, h1, h2, fromBE_toBE _ _ hfit.1, h3, fromBE_toBE _ _ hfit.2⟩

/-- the PDU length of a well-formed request lies within the registry's bounds for its class -/
theorem encode_length (r : Req) (h : r.WF) (hr : r.isRaw = false) :
    ∃ e, regLookup (keyOf r).1 (keyOf r).2 = some e ∧ e.minLen ≤ (encode r).length ∧
      ∀ m, e.maxLen = some m → (encode r).length ≤ m := by
  have hd := decode_encode r h hr
  have hn : (decode (encode r)).isRaw = false := decode_encode_ne_raw r h hr
  have := decode_typed_in_registry (encode r) hn
  rw [hd, keyOf_norm] at this
  exact this

/-! ### construction -/

/-- a request that construction accepts is well-formed -/
theorem mk_ok_wf (a : Args) (r : Req) (h : mk a = .ok r) : r.WF := by
  by_cases hin : InRange a
  · obtain ⟨r', hr', hwf⟩ := mk_accepts' a hin
    rw [hr'] at h; cases h; exact hwf
  · rw [mk_refuses' a hin] at h; cases h

/-- a parameter outside its documented range is refused with an error (never encoded) -/
theorem mk_refuses (a : Args) (h : ¬ InRange a) : mk a = .error .refused := mk_refuses' a h

/-- every argument tuple inside the documented ranges is accepted, and the result round-trips through the wire format -/
theorem mk_accepts (a : Args) (h : InRange a) :
    ∃ r, mk a = .ok r ∧ r.WF ∧ (r.isRaw = false → decode (encode r) = norm r) := by
  obtain ⟨r, hr, hwf⟩ := mk_accepts' a h
  exact ⟨r, hr, hwf, fun hraw => decode_encode r hwf hraw⟩

/-- without an explicit format the computed addressAndLengthFormatIdentifier is valid and the values fit -/
theorem alfidOf_fits (a s : Nat) (ha : minBytes a ≤ 15) (hs : minBytes s ≤ 15) :
    AlfidOk (alfidOf a s) ∧ Fits (alfidOf a s) a s := UdsReq.alfidOf_fits a s ha hs

/-- ... and it is minimal: no valid format that fits the values has a narrower address or size field; values that no
    format fits (more than 15 bytes) are exactly those with `minBytes > 15` -/
theorem alfidOf_minimal (a s f : Nat) (hok : AlfidOk f) (hf : Fits f a s) :
    minBytes a ≤ alLen f ∧ minBytes s ≤ slLen f ∧ minBytes a ≤ 15 ∧ minBytes s ≤ 15 := UdsReq.alfidOf_minimal a s f hok hf

/-! ### the hypotheses are satisfiable by concrete, non-trivial values -/

example : (Req.defineByMem 0xF300 0x24 [(0x11223344, 0x0102)] true).WF := by decide
example : InRange (.wmba 0x1000 [1, 2, 3] none (some 0x12)) := by
  refine ⟨⟨⟨by decide, by decide⟩, ?_⟩, by decide⟩
  simp only [Option.getD]; exact ⟨⟨by decide, by decide⟩, by decide, by decide⟩
example : ¬ InRange (.rdbi []) := by simp [InRange]
example : mk (.rmba 0x1234 0x10 (some 0x12)) = .ok (.rmba 0x1234 0x10 0x12) := by rfl
example : encode (.rmba 0x1234 0x10 0x12) = [0x23, 0x12, 0x12, 0x34, 0x10] := by decide +kernel
example : decode (encode (.defineByMem 0xF300 0x24 [(0x11223344, 0x0102)] true)) = .defineByMem 0xF300 0x24 [(0x11223344, 0x0102)] true := by
  decide +kernel

end Gallia.C01
