import Gallia.Proofs.Lemmas.Replay
/-
  C12 — A database-backed virtual ECU replays the recorded ECU's answers.
-/
namespace Gallia.C12
open Gallia Gallia.Replay

/-- invariant form: replaying the rest `h` of a history whose rows start at id `k`, from the state the client
    logged, with `last` pointing below `k` -/
theorem replay_suffix (rows : List Row) (huniq : ∀ r ∈ rows, ∀ r' ∈ rows, r.id = r'.id → r = r')
    (h : List Exch) (k : Nat) (st : St) (last : Option Nat)
    (hrec : ∀ r ∈ record k st h, r ∈ rows)
    (hlow : ∀ r ∈ rows, r.selected = true → r.id < k → ∃ l, last = some l ∧ r.id ≤ l)
    (hlast : ∀ l, last = some l → l < k)
    (hhigh : ∀ r ∈ rows, r.selected = true → k ≤ r.id → r ∈ record k st h ∨ k + h.length ≤ r.id)
    (hagree : clientStates st h = serverStates st h) :
    replayAll rows ⟨st, last⟩ (h.map (·.req)) = h.map (·.resp) := by
  induction h generalizing k st last with
  | nil => rfl
  | cons x xs ih =>
    let row0 : Row := ⟨k, true, st, x.req, x.resp⟩
    have hrow0 : row0 ∈ rows := hrec row0 (by simp [record, row0])
    have hpick : minRow (fun r => matchesQ st x.req r && afterLast last r.id) rows = some row0 := by
      apply minRow_unique hrow0
      · have : matchesQ st x.req row0 = true := by simp [matchesQ, row0]
        simp only [this, Bool.true_and]
        cases hl : last with
        | none => rfl
        | some l => simpa [row0, afterLast] using hlast l hl
      · intro r hr hp
        simp only [Bool.and_eq_true, matchesQ] at hp
        obtain ⟨⟨⟨hsel, _⟩, _⟩, hgt⟩ := hp
        show k ≤ r.id
        by_cases hlt : r.id < k
        · obtain ⟨l, hl, hle⟩ := hlow r hr hsel hlt
          rw [hl] at hgt
          simp only [afterLast, decide_eq_true_eq] at hgt
          omega
        · omega
      · intro r hr hid; exact huniq r hr row0 hrow0 hid
    have hstep : replayStep rows ⟨st, last⟩ x.req = (⟨srvNext st x.resp, some k⟩, x.resp) := by
      simp only [replayStep, hpick]; rfl
    simp only [List.map_cons, replayAll, hstep]
    congr 1
    cases xs with
    | nil => rfl
    | cons y ys =>
      rw [clientStates_cons, serverStates_cons] at hagree
      have htail := (List.cons.inj hagree).2
      have hst : clientUpdate st x.resp = srvNext st x.resp := by
        rw [clientStates_cons, serverStates_cons] at htail
        exact (List.cons.inj htail).1
      rw [← hst]
      apply ih (k + 1) (clientUpdate st x.resp) (some k)
      · intro r hr; exact hrec r (by rw [record_cons]; simp [hr])
      · intro r _ _ hlt; exact ⟨k, rfl, by omega⟩
      · intro l hl; injection hl with hl; omega
      · intro r hr hsel hge
        rcases hhigh r hr hsel (by omega) with hmem | hbig
        · rw [record_cons, List.mem_cons] at hmem
          rcases hmem with rfl | hmem
          · have : k + 1 ≤ k := hge
            omega
          · exact Or.inl hmem
        · right; simp only [List.length_cons] at hbig ⊢; omega
      · have h' := htail
        rw [← hst] at h'
        exact h'

/-- **C12.** A history recorded from the default state into rows `id0, id0+1, …` is replayed exactly - the
    recorded reply bytes, silence where no reply was recorded - whatever else the database holds, as long as the
    other rows belong to runs the selector excludes (other ECU names / property sets) or were recorded later, and
    provided client and server derive the same state along the history (`Agree`, the property's presupposition). -/
theorem replay_faithful (rows : List Row) (huniq : ∀ r ∈ rows, ∀ r' ∈ rows, r.id = r'.id → r = r')
    (h : List Exch) (id0 : Nat)
    (hrec : ∀ r ∈ record id0 St.default h, r ∈ rows)
    (hothers : ∀ r ∈ rows, r ∉ record id0 St.default h → r.selected = false ∨ id0 + h.length ≤ r.id)
    (hagree : Agree h) :
    replayAll rows {} (h.map (·.req)) = h.map (·.resp) := by
  apply replay_suffix rows huniq h id0 St.default none hrec
  · intro r hr hsel hlt
    exfalso
    have hnot : r ∉ record id0 St.default h := fun hm => by have := (mem_record hm).1; omega
    rcases hothers r hr hnot with h1 | h1
    · rw [hsel] at h1; cases h1
    · omega
  · intro l hl; cases hl
  · intro r hr _ _
    by_cases hm : r ∈ record id0 St.default h
    · exact Or.inl hm
    · rcases hothers r hr hm with h1 | h1
      · rename_i hsel _; rw [hsel] at h1; cases h1
      · exact Or.inr h1
  · exact hagree

/-- repeated identical requests with different answers are replayed in recording order (instance of the above,
    spelled out because it is the case the `id > last` rule exists for) -/
example : replayAll (record 7 St.default [⟨[0x27, 1], some [0x67, 1, 0xAA]⟩, ⟨[0x27, 1], some [0x67, 1, 0xBB]⟩]) {}
    [[0x27, 1], [0x27, 1]] = [some [0x67, 1, 0xAA], some [0x67, 1, 0xBB]] := by decide

/-- a syntactic sufficient condition for the presupposition: every unanswered request was sent in the default
    state, and every read of the active-session identifier confirms what the client believed -/
def Safe : St → List Exch → Prop
  | _, [] => True
  | st, x :: xs =>
    (match x.resp with
      | none => st = St.default
      | some r => match classify r with
        | .f186 s => s = st.session
        | _ => True) ∧ Safe (clientUpdate st x.resp) xs

theorem agree_of_safe (st : St) (h : List Exch) (hs : Safe st h) : clientStates st h = serverStates st h := by
  induction h generalizing st with
  | nil => rfl
  | cons x xs ih =>
    obtain ⟨h1, h2⟩ := hs
    have hst : clientUpdate st x.resp = srvNext st x.resp := by
      cases hx : x.resp with
      | none => simp only [hx] at h1; simpa [clientUpdate, srvNext] using h1
      | some r =>
        simp only [hx] at h1
        simp only [clientUpdate, serverUpdate, srvNext]
        cases hc : classify r with
        | f186 s => rw [hc] at h1; simp only [] at h1; simp [h1]
        | _ => rfl
    rw [clientStates_cons, serverStates_cons, ← hst]
    exact congrArg _ (ih _ h2)

theorem agree_of_safe_default (h : List Exch) (hs : Safe St.default h) : Agree h := agree_of_safe _ h hs

/-- the presupposition is not automatic: a suppressed TesterPresent leaves no reply, the replaying server resets
    its state, the recording client did not (DESIGN.md section 8 item 20) ... -/
theorem agree_can_fail :
    ¬ Agree [⟨[0x10, 0x04], some [0x50, 0x04, 0, 0x32, 1, 0xF4]⟩, ⟨[0x3E, 0x80], none⟩, ⟨[0x3E, 0x00], some [0x7E, 0x00]⟩] := by
  decide

/-- ... and then the replay really differs from the recording: after the unanswered request the server looks
    for rows logged in session 1 and finds none -/
theorem replay_differs_without_agree :
    replayAll (record 1 St.default
        [⟨[0x10, 0x04], some [0x50, 0x04, 0, 0x32, 1, 0xF4]⟩, ⟨[0x3E, 0x80], none⟩, ⟨[0x3E, 0x00], some [0x7E, 0x00]⟩]) {}
      [[0x10, 0x04], [0x3E, 0x80], [0x3E, 0x00]] = [some [0x50, 0x04, 0, 0x32, 1, 0xF4], none, none] := by
  decide

/-- non-vacuity of `replay_faithful`: a history with a session change, a seed/key pair and a reset satisfies `Safe` -/
example : Safe St.default [⟨[0x10, 3], some [0x50, 3, 0, 0x32, 1, 0xF4]⟩, ⟨[0x27, 1], some [0x67, 1, 9, 9]⟩,
    ⟨[0x27, 2, 9, 9], some [0x67, 2]⟩, ⟨[0x22, 0xF1, 0x86], some [0x62, 0xF1, 0x86, 3]⟩, ⟨[0x11, 1], some [0x51, 1]⟩,
    ⟨[0x3E, 0x80], none⟩] := by
  simp [Safe, clientUpdate, classify, St.default, fromBE]

end Gallia.C12
