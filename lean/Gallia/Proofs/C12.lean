import Gallia.Proofs.Lemmas.Replay
import Gallia.Proofs.Lemmas.ReplayCursor
import Gallia.Proofs.Lemmas.ReplayRuns
import Gallia.Proofs.Lemmas.ReplayServe
import Gallia.Proofs.Lemmas.ReplayRec
import Gallia.Gen.C12Server
/-
  C12 — A database-backed virtual ECU replays the recorded ECU's answers.
-/
namespace Gallia.C12
open Gallia Gallia.Replay

/-- invariant form: replaying the rest `h` of a history whose rows start at id `k`, from the state the client
    logged, with `last` pointing below `k` -/
theorem replay_suffix (rows : List Row) (huniq : ∀ r ∈ rows, ∀ r' ∈ rows, r.id = r'.id → r = r')
    (h : List Exch) (k : Nat) (st : St) (last : Option Nat)
    (hrec : ∀ r ∈ record k st h, r ∈ rows)
    (hlow : ∀ r ∈ rows, r.selected = true → r.id < k → ∃ l, last = some l ∧ r.id ≤ l)
    (hlast : ∀ l, last = some l → l < k)
    (hhigh : ∀ r ∈ rows, r.selected = true → k ≤ r.id → r ∈ record k st h ∨ k + h.length ≤ r.id)
    (hagree : clientStates st h = serverStates st h) :
    replayAll rows ⟨st, last⟩ (h.map (·.req)) = h.map (·.resp) :=
  replay_suffix_core rows huniq h k st last hrec hlow hlast hhigh hagree

/-- **C12.** A history recorded from the default state into rows `id0, id0+1, …` is replayed exactly - the
    recorded reply bytes, silence where no reply was recorded - whatever else the database holds, as long as the
    other rows belong to runs the selector excludes (other ECU names / property sets) or were recorded later, and
    provided client and server derive the same state along the history (`Agree`, the property's presupposition). -/
theorem replay_faithful (rows : List Row) (huniq : ∀ r ∈ rows, ∀ r' ∈ rows, r.id = r'.id → r = r')
    (h : List Exch) (id0 : Nat)
    (hrec : ∀ r ∈ record id0 St.default h, r ∈ rows)
    (hothers : ∀ r ∈ rows, r ∉ record id0 St.default h → r.selected = false ∨ id0 + h.length ≤ r.id)
    (hagree : Agree h) :
    replayAll rows {} (h.map (·.req)) = h.map (·.resp) := by
  apply replay_suffix rows huniq h id0 St.default none hrec
  · intro r hr hsel hlt
    exfalso
    have hnot : r ∉ record id0 St.default h := fun hm => by have := (mem_record hm).1; omega
    rcases hothers r hr hnot with h1 | h1
    · rw [hsel] at h1; cases h1
    · omega
  · intro l hl; cases hl
  · intro r hr _ _
    by_cases hm : r ∈ record id0 St.default h
    · exact Or.inl hm
    · rcases hothers r hr hm with h1 | h1
      · rename_i hsel _; rw [hsel] at h1; cases h1
      · exact Or.inr h1
  · exact hagree

/-- the server after the recorded suffix: it sits in the state the recorded replies lead to, and its cursor on the last row -/
theorem replay_suffix_srv (rows : List Row) (huniq : ∀ r ∈ rows, ∀ r' ∈ rows, r.id = r'.id → r = r')
    (h : List Exch) (k : Nat) (st : St) (last : Option Nat)
    (hrec : ∀ r ∈ record k st h, r ∈ rows)
    (hlow : ∀ r ∈ rows, r.selected = true → r.id < k → ∃ l, last = some l ∧ r.id ≤ l)
    (hlast : ∀ l, last = some l → l < k)
    (hagree : clientStates st h = serverStates st h) :
    (runSrv rows ⟨st, last⟩ (h.map (·.req))).st = serverFinal st h ∧
    (h ≠ [] → (runSrv rows ⟨st, last⟩ (h.map (·.req))).last = some (k + h.length - 1)) :=
  replay_suffix_srv_core rows huniq h k st last hrec hlow hlast hagree

/-- **C12, restarted scan.** A virtual ECU that has replayed a recorded history to its end - and is back in the default
    state, as after a reset or an unanswered request - answers the same request sequence a second time with the same
    replies: the `id <= last` query wraps around to the first row of the recording. -/
theorem replay_again (rows : List Row) (huniq : ∀ r ∈ rows, ∀ r' ∈ rows, r.id = r'.id → r = r')
    (h : List Exch) (id0 : Nat)
    (hrec : ∀ r ∈ record id0 St.default h, r ∈ rows)
    (hothers : ∀ r ∈ rows, r ∉ record id0 St.default h → r.selected = false)
    (hagree : Agree h) (hback : serverFinal St.default h = St.default) :
    replayAll rows {} (h.map (·.req) ++ h.map (·.req)) = h.map (·.resp) ++ h.map (·.resp) := by
  have hfirst := replay_faithful rows huniq h id0 hrec
    (fun r hr hn => Or.inl (hothers r hr hn)) hagree
  rw [replayAll_append, hfirst]
  congr 1
  cases h with
  | nil => rfl
  | cons x xs =>
    have hsel : ∀ r ∈ rows, r.selected = true → id0 ≤ r.id ∧ r.id ≤ id0 + (x :: xs).length - 1 := by
      intro r hr hs
      by_cases hm : r ∈ record id0 St.default (x :: xs)
      · have := mem_record hm; omega
      · have := hothers r hr hm; rw [hs] at this; cases this
    have hsrv := replay_suffix_srv rows huniq (x :: xs) id0 St.default none hrec
      (by intro r hr hs hlt; have := (hsel r hr hs).1; omega) (by intro l hl; cases hl) hagree
    have hs1 : runSrv rows {} ((x :: xs).map (·.req)) = ⟨St.default, some (id0 + (x :: xs).length - 1)⟩ := by
      have h1 := hsrv.1; have h2 := hsrv.2 (by simp)
      rw [hback] at h1
      cases hr : runSrv rows ⟨St.default, none⟩ ((x :: xs).map (·.req)) with
      | mk st last =>
        rw [hr] at h1 h2; simp only at h1 h2; subst h1 h2; exact hr
    show replayAll rows (runSrv rows {} ((x :: xs).map (·.req))) ((x :: xs).map (·.req)) = (x :: xs).map (·.resp)
    rw [hs1]
    have hwrap := replayStep_wrap rows huniq x xs id0 St.default (id0 + (x :: xs).length - 1) hrec hsel
    simp only [List.map_cons, replayAll, hwrap]
    congr 1
    cases xs with
    | nil => rfl
    | cons y ys =>
      have hag := hagree
      unfold Agree at hag
      rw [clientStates_cons, serverStates_cons] at hag
      have htail := (List.cons.inj hag).2
      have hst : clientUpdate St.default x.resp = srvNext St.default x.resp := by
        rw [clientStates_cons, serverStates_cons] at htail
        exact (List.cons.inj htail).1
      rw [← hst]
      apply replay_suffix rows huniq (y :: ys) (id0 + 1) (clientUpdate St.default x.resp) (some id0)
      · intro r hr; exact hrec r (by rw [record_cons]; simp [hr])
      · intro r _ _ hlt; exact ⟨id0, rfl, by omega⟩
      · intro l hl; injection hl with hl; omega
      · intro r hr hs hge
        by_cases hm : r ∈ record id0 St.default (x :: y :: ys)
        · rw [record_cons, List.mem_cons] at hm
          rcases hm with rfl | hm
          · have : id0 + 1 ≤ id0 := hge
            omega
          · exact Or.inl hm
        · have := hothers r hr hm; rw [hs] at this; cases this
      · have h' := htail; rw [← hst] at h'; exact h'

example : replayAll (record 3 St.default [⟨[0x10, 3], some [0x50, 3, 0, 0x32, 1, 0xF4]⟩, ⟨[0x22, 1, 2], some [0x62, 1, 2, 9]⟩,
      ⟨[0x11, 1], some [0x51, 1]⟩]) {}
    [[0x10, 3], [0x22, 1, 2], [0x11, 1], [0x10, 3], [0x22, 1, 2], [0x11, 1]] =
    [some [0x50, 3, 0, 0x32, 1, 0xF4], some [0x62, 1, 2, 9], some [0x51, 1],
     some [0x50, 3, 0, 0x32, 1, 0xF4], some [0x62, 1, 2, 9], some [0x51, 1]] := by decide

/-! ### the selector made explicit -/

/-- rows of another ECU name are invisible to a server selected by name -/
theorem other_name_ignored (sel : Selector) (ri : RunInfo) (n : String) (hs : sel.ecu = some n) (hn : ri.ecuName ≠ some n) :
    selects sel ri = false := by
  simp only [selects, hs, Bool.and_eq_false_iff]
  left
  cases he : ri.ecuName with
  | none => rfl
  | some m =>
    rw [he] at hn
    have : m ≠ n := fun h => hn (by rw [h])
    simp [this]

/-- rows of a run that differs in one requested property are invisible to a server selected by properties -/
theorem other_props_ignored (sel : Selector) (ri : RunInfo) (ps : List (String × JVal)) (k : String) (v : JVal)
    (hs : sel.props = some ps) (hmem : (k, v) ∈ ps) (hdiff : ri.extract k ≠ v) : selects sel ri = false := by
  simp only [selects, hs, Bool.and_eq_false_iff]
  right
  rw [List.all_eq_false]
  refine ⟨(k, v), hmem, ?_⟩
  unfold propMatches
  cases v <;> simp_all

/-- a run recorded under the name and with the properties the selector asks for is visible -/
theorem selects_own (n : String) (ps : List (String × JVal)) (hnn : ∀ kv ∈ ps, kv.2 ≠ .null)
    (ri : RunInfo) (hname : ri.ecuName = some n) (hps : ∀ kv ∈ ps, ri.extract kv.1 = kv.2) :
    selects ⟨some n, some ps⟩ ri = true ∧ selects ⟨some n, none⟩ ri = true ∧ selects ⟨none, some ps⟩ ri = true ∧
    selects ⟨none, none⟩ ri = true := by
  have hall : ps.all (propMatches ri) = true := by
    rw [List.all_eq_true]
    intro kv hkv
    unfold propMatches
    have h1 := hps kv hkv
    have h2 := hnn kv hkv
    cases hv : kv.2 <;> simp_all
  simp [selects, hname, hall]

/-- `complete_scan_run` (any number of times, with any properties) on a run whose pre-properties were never written leaves
    `properties_pre` NULL -/
theorem complete_keeps_pre_null (rc : RunCols) (hpre : rc.pre = none) (calls : List RunCall)
    (hc : ∀ c ∈ calls, ∃ p, c = RunCall.complete p) :
    (calls.foldl RunCols.apply rc).pre = none ∧ (calls.foldl RunCols.apply rc).ecuName = rc.ecuName := by
  induction calls generalizing rc with
  | nil => exact ⟨hpre, rfl⟩
  | cons c cs ih =>
    obtain ⟨p, rfl⟩ := hc c (List.mem_cons_self ..)
    have := ih (rc.apply (.complete p)) (by simpa [RunCols.apply] using hpre) (fun c hc' => hc c (List.mem_cons_of_mem _ hc'))
    simpa [List.foldl_cons, RunCols.apply] using this

/-- **a run without pre-properties is never selected by a property value.**  A scan run was inserted and completed
    (`complete_scan_run`, with whatever post-properties - also ones that equal what the selector asks for) but
    `insert_scan_run_properties_pre` never ran (the write failed or was skipped): a virtual ECU selected by properties of which at
    least one has a value (not `None`) does not see the rows of this run, whatever ECU name it is selected by in addition. -/
theorem run_without_pre_properties_never_selected (sel : Selector) (ps : List (String × JVal)) (hs : sel.props = some ps)
    (kv : String × JVal) (hmem : kv ∈ ps) (hval : kv.2 ≠ .null)
    (name : Option String) (calls : List RunCall) (hc : ∀ c ∈ calls, ∃ p, c = RunCall.complete p) :
    selects sel (RunCols.after name calls).info = false := by
  have h := complete_keeps_pre_null ⟨name, none, none⟩ rfl calls hc
  apply other_props_ignored sel _ ps kv.1 kv.2 hs hmem
  unfold RunCols.after RunCols.info
  rw [h.1]
  simpa [RunInfo.extract] using fun h' => hval h'.symm

/-- only `insert_scan_run_properties_pre` decides about the selection: completing a run changes nothing -/
theorem complete_scan_run_keeps_selection (sel : Selector) (rc : RunCols) (p : List (String × JVal)) :
    selects sel (rc.apply (.complete p)).info = selects sel rc.info := rfl

/-- non-vacuity: completed with exactly the properties the selector asks for and still not selected; with the pre-properties
    written it is; a selector that asks for an absent property (`None`) does see the run without pre-properties -/
example :
    selects ⟨none, some [("sw", .str "2.0")]⟩ (RunCols.after (some "E") [.complete [("sw", .str "2.0")]]).info = false ∧
    selects ⟨none, some [("sw", .str "2.0")]⟩ (RunCols.after (some "E") [.insertPre [("sw", .str "2.0")], .complete [("sw", .str "2.1")]]).info = true ∧
    selects ⟨none, some [("sw", .null)]⟩ (RunCols.after (some "E") [.complete [("sw", .str "2.0")]]).info = true := by decide

/-- **C12 on a whole database.** The run of ECU `ri` was recorded into rows `id0, id0+1, …` of a database that also holds any
    number of runs which the selector (ECU name and / or properties) does not select, and later runs of whatever ECU. A virtual ECU
    started on that database with a selector that selects `ri` replays the recorded replies (silence where none was recorded),
    provided client and server derive the same state along the history. -/
theorem replay_faithful_db (sel : Selector) (db : List DbRow) (huniq : ∀ r ∈ db, ∀ r' ∈ db, r.id = r'.id → r = r')
    (ri : RunInfo) (hsel : selects sel ri = true) (h : List Exch) (id0 : Nat)
    (hrec : ∀ r ∈ recordDb ri id0 St.default h, r ∈ db)
    (hothers : ∀ r ∈ db, r ∉ recordDb ri id0 St.default h → selects sel r.run = false ∨ id0 + h.length ≤ r.id)
    (hagree : Agree h) :
    replayDb sel db (h.map (·.req)) = h.map (·.resp) := by
  unfold replayDb
  apply replay_faithful (db.map (DbRow.view sel)) _ h id0
  · intro r hr
    rw [← record_view sel ri hsel] at hr
    obtain ⟨d, hd, rfl⟩ := List.mem_map.1 hr
    exact List.mem_map.2 ⟨d, hrec d hd, rfl⟩
  · intro r hr hn
    obtain ⟨d, hd, rfl⟩ := List.mem_map.1 hr
    by_cases hm : d ∈ recordDb ri id0 St.default h
    · exact absurd (by rw [← record_view sel ri hsel]; exact List.mem_map.2 ⟨d, hm, rfl⟩) hn
    · rcases hothers d hd hm with h1 | h1
      · exact Or.inl (view_unselected sel d h1)
      · exact Or.inr (by simpa using h1)
  · exact hagree
  · intro r hr r' hr' hid
    obtain ⟨d, hd, rfl⟩ := List.mem_map.1 hr
    obtain ⟨d', hd', rfl⟩ := List.mem_map.1 hr'
    rw [huniq d hd d' hd' (by simpa using hid)]

/-- non-vacuity: two ECUs in one database, selection by name and by a property -/
example :
    let a : RunInfo := ⟨some "ECU0", [("vin", .str "VIN0"), ("hw", .num 7)]⟩
    let b : RunInfo := ⟨some "ECU1", [("vin", .str "VIN1"), ("hw", .num 7)]⟩
    let db := recordDb b 1 St.default [⟨[0x3E, 0], some [0x7F, 0x3E, 0x11]⟩] ++
              recordDb a 2 St.default [⟨[0x3E, 0], some [0x7E, 0]⟩, ⟨[0x10, 3], some [0x50, 3, 0, 0x32, 1, 0xF4]⟩]
    replayDb ⟨some "ECU0", none⟩ db [[0x3E, 0], [0x10, 3]] = [some [0x7E, 0], some [0x50, 3, 0, 0x32, 1, 0xF4]] ∧
    replayDb ⟨none, some [("vin", .str "VIN1")]⟩ db [[0x3E, 0]] = [some [0x7F, 0x3E, 0x11]] := by decide

/-- repeated identical requests with different answers are replayed in recording order (instance of the above,
    spelled out because it is the case the `id > last` rule exists for) -/
example : replayAll (record 7 St.default [⟨[0x27, 1], some [0x67, 1, 0xAA]⟩, ⟨[0x27, 1], some [0x67, 1, 0xBB]⟩]) {}
    [[0x27, 1], [0x27, 1]] = [some [0x67, 1, 0xAA], some [0x67, 1, 0xBB]] := by decide

/-- a syntactic sufficient condition for the presupposition: every unanswered request was sent in the default
    state, and every read of the active-session identifier confirms what the client believed -/
def Safe : St → List Exch → Prop
  | _, [] => True
  | st, x :: xs =>
    (match x.resp with
      | none => st = St.default
      | some r => match classify r with
        | .f186 s => s = st.session
        | _ => True) ∧ Safe (clientUpdate st x.resp) xs

theorem agree_of_safe (st : St) (h : List Exch) (hs : Safe st h) : clientStates st h = serverStates st h := by
  induction h generalizing st with
  | nil => rfl
  | cons x xs ih =>
    obtain ⟨h1, h2⟩ := hs
    have hst : clientUpdate st x.resp = srvNext st x.resp := by
      cases hx : x.resp with
      | none => simp only [hx] at h1; simpa [clientUpdate, srvNext] using h1
      | some r =>
        simp only [hx] at h1
        simp only [clientUpdate, serverUpdate, srvNext]
        cases hc : classify r with
        | f186 s => rw [hc] at h1; simp only [] at h1; simp [h1]
        | _ => rfl
    rw [clientStates_cons, serverStates_cons, ← hst]
    exact congrArg _ (ih _ h2)

theorem agree_of_safe_default (h : List Exch) (hs : Safe St.default h) : Agree h := agree_of_safe _ h hs

/-- the presupposition is not automatic: a suppressed TesterPresent leaves no reply, the replaying server resets
    its state, the recording client did not (DESIGN.md section 8 item 20) ... -/
theorem agree_can_fail :
    ¬ Agree [⟨[0x10, 0x04], some [0x50, 0x04, 0, 0x32, 1, 0xF4]⟩, ⟨[0x3E, 0x80], none⟩, ⟨[0x3E, 0x00], some [0x7E, 0x00]⟩] := by
  decide

/-- ... and then the replay really differs from the recording: after the unanswered request the server looks
    for rows logged in session 1 and finds none -/
theorem replay_differs_without_agree :
    replayAll (record 1 St.default
        [⟨[0x10, 0x04], some [0x50, 0x04, 0, 0x32, 1, 0xF4]⟩, ⟨[0x3E, 0x80], none⟩, ⟨[0x3E, 0x00], some [0x7E, 0x00]⟩]) {}
      [[0x10, 0x04], [0x3E, 0x80], [0x3E, 0x00]] = [some [0x50, 0x04, 0, 0x32, 1, 0xF4], none, none] := by
  decide

/-- non-vacuity of `replay_faithful`: a history with a session change, a seed/key pair and a reset satisfies `Safe` -/
example : Safe St.default [⟨[0x10, 3], some [0x50, 3, 0, 0x32, 1, 0xF4]⟩, ⟨[0x27, 1], some [0x67, 1, 9, 9]⟩,
    ⟨[0x27, 2, 9, 9], some [0x67, 2]⟩, ⟨[0x22, 0xF1, 0x86], some [0x62, 0xF1, 0x86, 3]⟩, ⟨[0x11, 1], some [0x51, 1]⟩,
    ⟨[0x3E, 0x80], none⟩] := by
  simp [Safe, clientUpdate, classify, St.default, fromBE]


/-! ## round 4: the cursor in general, several recordings of one ECU, the recorder of C11, the server as a whole -/

/-- **the cursor semantics of one replay step, complete** (`DBUDSServer.respond_after_default`: `r.id > last ORDER BY r.id LIMIT 1`,
    else `r.id <= last ORDER BY r.id LIMIT 1`).  Whatever the table holds - earlier recordings of the same ECU, rows of never
    transmitted calls, anything: either no row matches (selector, logged state = server state, request bytes) and the server stays
    silent and unchanged; or it serves a matching row `r`, moves the cursor onto it and takes the state its reply leads to (the default
    state for a row without reply), and `r` is the matching row with the smallest id above the cursor - or, when no matching row lies
    above the cursor, the matching row with the smallest id of all. -/
theorem replay_cursor_spec (rows : List Row) (s : Srv) (req : Bytes) :
    ((∀ r ∈ rows, matchesQ s.st req r = false) ∧ replayStep rows s req = (s, none)) ∨
    ∃ r ∈ rows, matchesQ s.st req r = true ∧ replayStep rows s req = (⟨srvNext s.st r.resp, some r.id⟩, r.resp) ∧
      ((afterLast s.last r.id = true ∧
          ∀ r' ∈ rows, matchesQ s.st req r' = true → afterLast s.last r'.id = true → r.id ≤ r'.id) ∨
       ((∀ r' ∈ rows, matchesQ s.st req r' = true → afterLast s.last r'.id = false) ∧
          ∀ r' ∈ rows, matchesQ s.st req r' = true → r.id ≤ r'.id)) :=
  replayStep_cases rows s req

/-- ... and with unique ids (`id` is the primary key) the two positive cases determine the step: the smallest matching id above the
    cursor is served; if there is none, the smallest matching id -/
theorem replay_cursor_spec_unique (rows : List Row) (huniq : ∀ r ∈ rows, ∀ r' ∈ rows, r.id = r'.id → r = r')
    (s : Srv) (req : Bytes) (r : Row) (hr : r ∈ rows) (hm : matchesQ s.st req r = true) :
    ((afterLast s.last r.id = true ∧
        ∀ r' ∈ rows, matchesQ s.st req r' = true → afterLast s.last r'.id = true → r.id ≤ r'.id) →
      replayStep rows s req = (⟨srvNext s.st r.resp, some r.id⟩, r.resp)) ∧
    (((∀ r' ∈ rows, matchesQ s.st req r' = true → afterLast s.last r'.id = false) ∧
        ∀ r' ∈ rows, matchesQ s.st req r' = true → r.id ≤ r'.id) →
      replayStep rows s req = (⟨srvNext s.st r.resp, some r.id⟩, r.resp)) :=
  ⟨fun h => replayStep_after rows huniq s req r hr hm h.1 h.2,
   fun h => replayStep_wrapAround rows huniq s req r hr hm h.1 h.2⟩

/-- **the earliest recording is the one replayed.**  The database holds several recordings the selector selects (`runs`, in the
    order they were made, whatever their request sequences) and any rows it does not select.  Replaying the request sequence of the
    *earliest* recording returns exactly its replies, provided client and server agree on the state along it: rows of later recordings
    never shadow it.  (Rows of an *earlier* recording do shadow a later one: `earlier_recording_shadows`.) -/
theorem replay_earliest_recording (rows : List Row) (huniq : ∀ r ∈ rows, ∀ r' ∈ rows, r.id = r'.id → r = r')
    (run : Run) (later : List Run) (hsorted : RunsSorted (run :: later))
    (hrec : ∀ r ∈ rowsOfRuns (run :: later), r ∈ rows)
    (hothers : ∀ r ∈ rows, r ∉ rowsOfRuns (run :: later) → r.selected = false)
    (hagree : Agree run.2) :
    replayAll rows {} (run.2.map (·.req)) = run.2.map (·.resp) :=
  (pass_forward rows huniq [] run later hsorted hrec hothers hagree none (fun l hl => by cases hl)
    (fun r hr => by simp [rowsOfRuns] at hr)).1

/-- **`k` recordings of the same request sequence, `m` passes.**  The database holds `k ≥ 1` complete recordings which the selector
    all selects (a deterministic or not so deterministic ECU scanned `k` times with the same requests `qs`; each recording starts and
    ends in the default state and satisfies the presupposition), in id blocks that do not overlap, mixed with any rows the selector
    does not select.  A virtual ECU that is sent `qs` `m` times in a row answers pass by pass with the replies of one recording:
    the first pass serves the earliest recording, the second the next one, ..., and after the last recording the cursor wraps around
    to the earliest (`rr`: round robin in recording order). -/
theorem replay_with_earlier_runs (rows : List Row) (huniq : ∀ r ∈ rows, ∀ r' ∈ rows, r.id = r'.id → r = r')
    (runs : List Run) (hsorted : RunsSorted runs) (hruns : runs ≠ [])
    (hrec : ∀ r ∈ rowsOfRuns runs, r ∈ rows)
    (hothers : ∀ r ∈ rows, r ∉ rowsOfRuns runs → r.selected = false)
    (qs : List Bytes) (hqs : qs ≠ []) (hreq : ∀ run ∈ runs, run.2.map (·.req) = qs)
    (hagree : ∀ run ∈ runs, Agree run.2) (hback : ∀ run ∈ runs, serverFinal St.default run.2 = St.default) (m : Nat) :
    replayAll rows {} (passes m qs) = (rr runs runs m).flatMap (·.map (·.resp)) :=
  passes_from rows huniq runs hsorted hruns hrec hothers qs hqs hreq hagree hback m [] runs rfl none
    (fun _ _ l hl => by cases hl) (fun r hr => by simp [rowsOfRuns] at hr)

/-- what `rr` is: pass `p` (counted from 0) is served from recording `p mod k` - the first pass from the earliest recording -/
theorem pass_served_from_recording (runs : List Run) (hne : runs ≠ []) (m p : Nat) (hp : p < m) :
    (rr runs runs m)[p]? = (runs[p % runs.length]?).map (·.2) := by
  have := rr_drop_index runs hne m 0 p (Nat.zero_le _)
  simpa [hp] using this

/-- non-vacuity of `replay_with_earlier_runs` and the round robin spelled out: two recordings of the same three requests with
    different answers (a counter read), four passes -/
def exRun (ctr : UInt8) : List Exch :=
  [⟨[0x10, 3], some [0x50, 3, 0, 0x32, 1, 0xF4]⟩, ⟨[0x22, 0x0C, 0x0C], some [0x62, 0x0C, 0x0C, ctr]⟩, ⟨[0x11, 1], some [0x51, 1]⟩]

example :
    replayAll (record 4 St.default (exRun 1) ++ record 20 St.default (exRun 7)) {}
        (passes 4 [[0x10, 3], [0x22, 0x0C, 0x0C], [0x11, 1]]) =
      (exRun 1 ++ exRun 7 ++ exRun 1 ++ exRun 7).map (·.resp) ∧
    (rr [(4, exRun 1), (20, exRun 7)] [(4, exRun 1), (20, exRun 7)] 4).map (·.map (·.resp)) =
      [exRun 1, exRun 7, exRun 1, exRun 7].map (·.map (·.resp)) ∧
    RunsSorted [(4, exRun 1), (20, exRun 7)] ∧ Agree (exRun 1) ∧ serverFinal St.default (exRun 7) = St.default := by
  refine ⟨by decide, by decide, ?_, by decide, by decide⟩
  simp [RunsSorted, exRun]

/-- **C12 for a deterministic ECU scanned repeatedly.**  The database holds `k ≥ 1` *identical* recordings `h` which the selector all
    selects (and anything it does not select).  The virtual ECU answers the recorded request sequence with exactly the recorded
    replies: whichever of the recordings is "the" recording, the earlier ones shadow it with the same bytes. -/
theorem replay_faithful_repeated_runs (rows : List Row) (huniq : ∀ r ∈ rows, ∀ r' ∈ rows, r.id = r'.id → r = r')
    (h : List Exch) (runs : List Run) (hruns : runs ≠ []) (hsame : ∀ run ∈ runs, run.2 = h) (hsorted : RunsSorted runs)
    (hrec : ∀ r ∈ rowsOfRuns runs, r ∈ rows)
    (hothers : ∀ r ∈ rows, r ∉ rowsOfRuns runs → r.selected = false)
    (hagree : Agree h) :
    replayAll rows {} (h.map (·.req)) = h.map (·.resp) := by
  cases runs with
  | nil => exact absurd rfl hruns
  | cons run later =>
    have := replay_earliest_recording rows huniq run later hsorted hrec hothers (by rw [hsame run (by simp)]; exact hagree)
    rw [hsame run (by simp)] at this
    exact this

/-- ... and it keeps doing so: scanned again and again (each scan ending in the default state), every pass gets the recorded replies -/
theorem replay_repeated_runs_passes (rows : List Row) (huniq : ∀ r ∈ rows, ∀ r' ∈ rows, r.id = r'.id → r = r')
    (h : List Exch) (hne : h ≠ []) (runs : List Run) (hruns : runs ≠ []) (hsame : ∀ run ∈ runs, run.2 = h)
    (hsorted : RunsSorted runs) (hrec : ∀ r ∈ rowsOfRuns runs, r ∈ rows)
    (hothers : ∀ r ∈ rows, r ∉ rowsOfRuns runs → r.selected = false)
    (hagree : Agree h) (hback : serverFinal St.default h = St.default) (m : Nat) :
    replayAll rows {} (passes m (h.map (·.req))) = (List.replicate m (h.map (·.resp))).flatten := by
  have hq : h.map (·.req) ≠ [] := by intro he; exact hne (List.map_eq_nil_iff.1 he)
  rw [replay_with_earlier_runs rows huniq runs hsorted hruns hrec hothers (h.map (·.req)) hq
    (fun run hr => by rw [hsame run hr]) (fun run hr => by rw [hsame run hr]; exact hagree)
    (fun run hr => by rw [hsame run hr]; exact hback) m,
    rr_same runs h hruns hsame runs hsame m]
  induction m with
  | zero => rfl
  | succ m ih => simp [List.replicate_succ, ih]

/-- the limit of the property: an *earlier* recording of the same ECU with other answers shadows the later one - replaying the later
    recording's requests returns the earlier recording's bytes (the cursor rule serves the smallest id first).  With exactly one
    recording selected (`replay_faithful`) or identical recordings (`replay_faithful_repeated_runs`) this cannot show. -/
theorem earlier_recording_shadows :
    replayAll (record 1 St.default [⟨[0x22, 0xF1, 0x90], some [0x62, 0xF1, 0x90, 0x41]⟩] ++
               record 2 St.default [⟨[0x22, 0xF1, 0x90], some [0x62, 0xF1, 0x90, 0x42]⟩]) {} [[0x22, 0xF1, 0x90]] =
      [some [0x62, 0xF1, 0x90, 0x41]] := by decide

/-! ### the recording side is C11's recorder -/

/-- **the rows C11's recorder leaves are `recordDb`.**  Run C11's model of `ECU._request` + `DBHandler` (`Model/DbLog.lean`) on
    history `h` under *any* schedule of producer steps, writer steps, write failures and a cancellation at any point, then
    `disconnect()`.  Numbered the way the single writer task numbers them (`numberRows`), the rows are exactly what this model's
    `recordDb` writes for the exchanges performed (`done`, a prefix of `h`, possibly followed by the interrupted exchange): the
    client's pre-state from the default state on, the request, the reply bytes if any.  An exchange without reply - timeout,
    connection error, or a call cancelled in flight, which leaves a row with neither reply nor exception - is an exchange whose
    `resp` is `none`: the replay will answer it with silence. -/
theorem record_is_c11_rows (ri : RunInfo) (id0 : Nat) (h : List DbLog.Exchange) (sched : List DbLog.Choice)
    (hon : ∀ e ∈ (DbLog.exec (DbLog.Sys.init h) sched).done, e.implicitOn = true) :
    numberRows ri id0 (DbLog.afterDisconnect (DbLog.exec (DbLog.Sys.init h) sched)) =
      recordDb ri id0 St.default ((DbLog.exec (DbLog.Sys.init h) sched).done.map exchOf) := by
  rw [DbLog.afterDisconnect_eq, ((DbLog.Inv.init h).exec sched).rows]
  exact numberRows_specRows ri id0 .init 0 _ hon

/-- the canonical run: the producer gets through the whole history -/
theorem record_is_c11_rows_complete (ri : RunInfo) (id0 : Nat) (h : List DbLog.Exchange) (hon : ∀ e ∈ h, e.implicitOn = true) :
    numberRows ri id0 (DbLog.specRows .init 0 h) = recordDb ri id0 St.default (h.map exchOf) :=
  numberRows_specRows ri id0 .init 0 h hon

/-- **several producers behind the client mutex** (scanner coroutines, the tester-present task): the rows are `recordDb` of the
    *completed calls in completion order* - including the calls that were cancelled while they waited for the mutex, whose request
    was never transmitted (C11: `cancelled_waiter_row`); they are exchanges without reply. -/
theorem record_is_c11_calls (ri : RunInfo) (id0 : Nat) (progs : List (List DbLog.Exchange)) (sched : List DbLog.MChoice)
    (hon : ∀ c ∈ (DbLog.mexec (DbLog.MSys.init progs) sched).calls, c.ex.implicitOn = true) :
    numberRows ri id0 (DbLog.afterDisconnectM (DbLog.mexec (DbLog.MSys.init progs) sched)) =
      recordDb ri id0 St.default ((DbLog.mexec (DbLog.MSys.init progs) sched).calls.map fun c => exchOf c.ex) := by
  unfold DbLog.afterDisconnectM
  rw [((DbLog.MRows.init progs).exec sched).rows]
  exact numberRows_callRows ri id0 .init _ hon

/-- C11's client-side state rule is this model's `clientUpdate`, reply class by reply class (`classify` is C11's
    `DbLog.classify`, whose length limits C11 compares with the live response classes) -/
theorem client_state_rule_is_c11 (st : DbLog.EcuState) (e : DbLog.Exchange) :
    stOf (DbLog.nextState st e) = clientUpdate (stOf st) (exchOf e).resp ∧
    ∀ b, classify b = kindOf (DbLog.classify b) :=
  ⟨stOf_nextState st e, classify_eq_c11⟩

/-- **rows of calls that were never transmitted.**  `cs`: the completed calls of a run with the flag "was transmitted"; the
    database holds their rows (ids `id0, id0+1, ...`), anything the selector does not select, and later rows.  Replaying the
    *transmitted* requests returns exactly the recorded replies provided (a) the never-transmitted calls have no reply and client and
    server agree on the state along the transmitted ones (`AgreeSent`), and (b) no never-transmitted request is directly followed - as
    the next transmitted request - by the same bytes (`NoShadow`).  The state needs no condition: a call without reply leaves the
    client's state as it is, so the extra row always carries the state of the next transmitted request.
    Replaying *all* calls, the never-transmitted ones included, is `replay_faithful`: they are answered with silence. -/
theorem replay_skips_unsent_calls (rows : List Row) (huniq : ∀ r ∈ rows, ∀ r' ∈ rows, r.id = r'.id → r = r')
    (cs : List (Exch × Bool)) (id0 : Nat)
    (hrec : ∀ r ∈ record id0 St.default (cs.map (·.1)), r ∈ rows)
    (hothers : ∀ r ∈ rows, r ∉ record id0 St.default (cs.map (·.1)) → r.selected = false ∨ id0 + cs.length ≤ r.id)
    (hagree : AgreeSent St.default cs) (hns : NoShadow [] cs) :
    replayAll rows {} ((sentOf cs).map (·.req)) = (sentOf cs).map (·.resp) := by
  apply replay_sent_suffix rows huniq cs id0 St.default none [] hrec
  · intro r hr hsel hlt
    exfalso
    have hnot : r ∉ record id0 St.default (cs.map (·.1)) := fun hm => by have := (mem_record hm).1; omega
    rcases hothers r hr hnot with h1 | h1
    · rw [hsel] at h1; cases h1
    · omega
  · intro l hl; cases hl
  · intro r hr hsel _
    by_cases hm : r ∈ record id0 St.default (cs.map (·.1))
    · exact Or.inl hm
    · rcases hothers r hr hm with h1 | h1
      · rw [hsel] at h1; cases h1
      · exact Or.inr h1
  · exact hagree
  · exact hns

/-- condition (b) is needed: a tester-present call cancelled while it waited for the mutex, then the same request transmitted and
    answered - the extra row is served first, the replay answers with silence instead of `7E 00` -/
theorem unsent_row_shadows_equal_request :
    let cs : List (Exch × Bool) := [(⟨[0x3E, 0], none⟩, false), (⟨[0x3E, 0], some [0x7E, 0]⟩, true)]
    AgreeSent St.default cs ∧ ¬ NoShadow [] cs ∧
    replayAll (record 1 St.default (cs.map (·.1))) {} ((sentOf cs).map (·.req)) = [none] := by
  refine ⟨⟨rfl, rfl, trivial⟩, ?_, by decide⟩
  intro h
  exact h.1 (by simp)

/-- non-vacuity of `replay_skips_unsent_calls`: a read cancelled while waiting, between a session change and another read -/
example :
    let cs : List (Exch × Bool) := [(⟨[0x10, 3], some [0x50, 3, 0, 0x32, 1, 0xF4]⟩, true), (⟨[0x22, 1, 2], none⟩, false),
      (⟨[0x22, 1, 4], some [0x62, 1, 4, 9]⟩, true)]
    AgreeSent St.default cs ∧ NoShadow [] cs ∧
    replayAll (record 1 St.default (cs.map (·.1))) {} ((sentOf cs).map (·.req)) = (sentOf cs).map (·.resp) := by
  refine ⟨⟨rfl, rfl, rfl, trivial⟩, ⟨by simp, by simp, trivial⟩, by decide⟩

/-! ### the `state` column, key by key -/

/-- **the JSON state object is matched key by key, over the server's keys.**
    (1) `stateMatch srv row` holds iff for every key the *server's* state object has, `json_extract(row, key)` is the server's value -
        where a server-side `None` asks for SQL NULL, i.e. the key absent from the row or JSON null there;
    (2) against the two keys of a plain `ECUState` (what every `DBUDSServer` has) this is equality with the decoded logged state:
        rows whose `session` is missing, negative, or not an integer, or whose level is neither integer nor null / absent, match no state;
    (3) keys only the row has (an OEM state class on the recording side) are ignored;
    (4) a key only the server has matches exactly when the server's value is `None`. -/
theorem state_match_keywise :
    (∀ srv row : JObj, stateMatch srv row = true ↔ ∀ kv ∈ srv, jget row kv.1 = kv.2) ∧
    (∀ (st : St) (row : JObj), stateMatch st.toJson row = (decodeSt row == some st)) ∧
    (∀ (st logged : St) (extra : JObj), stateMatch st.toJson (logged.toJson ++ extra) = (logged == st)) ∧
    (∀ (srv row : JObj) (k : String) (v : JVal), (∀ kv ∈ row, kv.1 ≠ k) →
        stateMatch (srv ++ [(k, v)]) row = (stateMatch srv row && v == .null)) := by
  refine ⟨?_, stateMatch_toJson, ?_, ?_⟩
  · intro srv row
    simp only [stateMatch, List.all_eq_true, keyMatches_iff]
  · intro st logged extra
    rw [stateMatch_toJson, decodeSt_toJson_append]
    simp
  · intro srv row k v hk
    rw [stateMatch_append]
    congr 1
    simp only [stateMatch, List.all_cons, List.all_nil, Bool.and_true]
    have hn := jget_absent row k hk
    cases v <;> simp [keyMatches, hn] <;> (apply Bool.eq_iff_iff.2; simp)

/-- non-vacuity and the corner cases of `state_match_keywise` on concrete objects -/
example :
    stateMatch (St.toJson ⟨3, some 1⟩) [("session", .num 3), ("security_access_level", .num 1), ("variant", .str "A")] = true ∧
    stateMatch (St.toJson ⟨1, none⟩) [("session", .num 1)] = true ∧
    stateMatch (St.toJson ⟨1, none⟩) [("security_access_level", .null)] = false ∧
    stateMatch (St.toJson ⟨1, none⟩) [("session", .str "1"), ("security_access_level", .null)] = false ∧
    stateMatch (St.toJson ⟨1, none⟩ ++ [("variant", .null)]) [("session", .num 1), ("security_access_level", .null)] = true ∧
    stateMatch (St.toJson ⟨1, none⟩ ++ [("variant", .str "A")]) [("session", .num 1), ("security_access_level", .null)] = false := by
  decide

/-! ### the server as a whole: `handle_request` -> `respond` -> `respond_after_default` -> `update_state` -/

/-- what makes a `DBUDSServer` a pure lookup server, regenerated from the working tree on every run: all nine switches of
    `DBUDSServer.Behavior` are off; `respond_without_state_change` tries the seven default rules, each behind its switch, then
    `respond_after_default`, then `default_response_if_none` behind its switch; `respond` calls `update_state` and the suppress rule
    behind its switch; `DBUDSServer` inherits all three; the two queries end in `r.id > ?` / `r.id <= ?` ... `ORDER BY r.id LIMIT 1`;
    the cursor starts at -1; the state is reset after more than 10 s of inactivity; `ECUState()` has the keys `session = 1`,
    `security_access_level = None` -/
theorem server_tables_agree :
    Gen.C12Server.dbBehaviorFields = Behavior.db.fields ∧
    Gen.C12Server.chain = chainNames ∧
    Gen.C12Server.respondCalls = ["respond_without_state_change", "update_state", "default_response_if_suppress"] ∧
    Gen.C12Server.inherited = [("respond", true), ("respond_without_state_change", true), ("update_state", true)] ∧
    Gen.C12Server.queryTails = queryTails ∧
    Gen.C12Server.cursorInit = -1 ∧
    Gen.C12Server.idleOp = "Gt" ∧ Gen.C12Server.idleLimitSeconds * 1000 = idleLimitMs ∧
    Gen.C12Server.stateKeys.map (fun kv => (kv.1, match kv.2 with | none => JVal.null | some n => JVal.num n)) =
      St.default.toJson := by decide

/-- with these switches the default rules of `UDSServer` are never consulted: the answer does not depend on them -/
theorem default_rules_never_consulted (d d' : Defaults) (sel : Selector) (xs : JObj) (db : List DbRow) (s : Srv) (gap : Nat)
    (q : Bytes) : serveStep Behavior.db d sel xs db s gap q = serveStep Behavior.db d' sel xs db s gap q :=
  serveStep_defaults_irrelevant d d' sel xs db s gap q

/-- **the server-level model is the row-level model.**  For a `DBUDSServer` (its `Behavior`, a plain `ECUState`), requests that
    arrive without a pause beyond the inactivity limit, and the two codec facts - C01: the parsed request carries the received bytes;
    C02: an accepted reply re-serialises to the received bytes - `handle_request` over the database as it is on disk answers reply for
    reply what `replayDb` answers over the rows as `DbRow.view` presents them.  So every theorem above about `replayAll` / `replayDb`
    is a theorem about `UDSServerTransport.handle_request`. -/
theorem serve_is_replay (hC01 : ReqLossless) (hC02 : RespLossless) (sel : Selector) (db : List DbRow)
    (reqs : List (Nat × Bytes)) (hgap : ∀ g ∈ reqs, g.1 ≤ idleLimitMs) :
    serveDb sel db reqs = (replayDb sel db (reqs.map (·.2))).map outOf :=
  serveAll_eq hC01 hC02 Defaults.unused sel db {} reqs hgap

/-- the two hypotheses hold: they are C01's `encode_decode` and C02's `encodeResp_decodeResp` -/
theorem codec_hypotheses_hold : ReqLossless ∧ RespLossless := ⟨reqLossless, respLossless⟩

/-- the class `update_state` tests on the object `parse_dynamic` returns is `classify` of the recorded bytes, for every byte string:
    the state-tracking rule of the model is read off C02's decoder, it is not a separate assumption -/
theorem update_state_class_is_classify (b : Bytes) : (parseRecorded b).kind = classify b := kind_parseRecorded b

/-- **C12 end to end on the server-level model.**  A run recorded (by `recordDb`, i.e. by C11's recorder: `record_is_c11_rows`) into
    a database that also holds runs the selector does not select and later runs, replayed through `handle_request` with a selector
    that selects it: the recorded reply bytes, silence where no reply was recorded. -/
theorem serve_faithful_db (sel : Selector) (db : List DbRow) (huniq : ∀ r ∈ db, ∀ r' ∈ db, r.id = r'.id → r = r')
    (ri : RunInfo) (hsel : selects sel ri = true) (h : List Exch) (id0 : Nat)
    (hrec : ∀ r ∈ recordDb ri id0 St.default h, r ∈ db)
    (hothers : ∀ r ∈ db, r ∉ recordDb ri id0 St.default h → selects sel r.run = false ∨ id0 + h.length ≤ r.id)
    (hagree : Agree h) :
    serveDb sel db (h.map fun x => (0, x.req)) = h.map fun x => outOf x.resp := by
  rw [serve_is_replay reqLossless respLossless sel db _ (by intro g hg; obtain ⟨x, _, rfl⟩ := List.mem_map.1 hg; simp)]
  have := replay_faithful_db sel db huniq ri hsel h id0 hrec hothers hagree
  simp only [List.map_map] at this ⊢
  have hreq : (List.map ((fun g : Nat × Bytes => g.2) ∘ fun x : Exch => (0, x.req)) h) = List.map (fun x => x.req) h := rfl
  rw [hreq, this, List.map_map]
  rfl

/-- the same for a recording made by an OEM subclass of `ECU` whose state object logs further keys: the plain server ignores them -/
theorem serve_faithful_oem (sel : Selector) (db : List DbRow) (huniq : ∀ r ∈ db, ∀ r' ∈ db, r.id = r'.id → r = r')
    (ri : RunInfo) (hsel : selects sel ri = true) (h : List (Exch × JObj)) (id0 : Nat)
    (hrec : ∀ r ∈ recordDbX ri id0 St.default h, r ∈ db)
    (hothers : ∀ r ∈ db, r ∉ recordDbX ri id0 St.default h → selects sel r.run = false ∨ id0 + h.length ≤ r.id)
    (hagree : Agree (h.map (·.1))) :
    serveDb sel db (h.map fun x => (0, x.1.req)) = h.map fun x => outOf x.1.resp := by
  rw [serve_is_replay reqLossless respLossless sel db _ (by intro g hg; obtain ⟨x, _, rfl⟩ := List.mem_map.1 hg; simp)]
  unfold replayDb
  have key := replay_faithful (db.map (DbRow.view sel)) (by
      intro r hr r' hr' hid
      obtain ⟨d, hd, rfl⟩ := List.mem_map.1 hr
      obtain ⟨d', hd', rfl⟩ := List.mem_map.1 hr'
      rw [huniq d hd d' hd' (by simpa using hid)]) (h.map (·.1)) id0
    (by
      intro r hr
      rw [← recordDbX_view sel ri hsel] at hr
      obtain ⟨d, hd, rfl⟩ := List.mem_map.1 hr
      exact List.mem_map.2 ⟨d, hrec d hd, rfl⟩)
    (by
      intro r hr hn
      obtain ⟨d, hd, rfl⟩ := List.mem_map.1 hr
      by_cases hm : d ∈ recordDbX ri id0 St.default h
      · exact absurd (by rw [← recordDbX_view sel ri hsel]; exact List.mem_map.2 ⟨d, hm, rfl⟩) hn
      · rcases hothers d hd hm with h1 | h1
        · exact Or.inl (view_unselected sel d h1)
        · exact Or.inr (by simpa using h1))
    hagree
  simp only [List.map_map] at key ⊢
  have hreq : (List.map ((fun g : Nat × Bytes => g.2) ∘ fun x : Exch × JObj => (0, x.1.req)) h) =
      List.map ((fun x : Exch => x.req) ∘ fun x : Exch × JObj => x.1) h := rfl
  rw [hreq, key, List.map_map]
  rfl

/-- **a recorded reply that does not parse** (the client refused it as malformed; the recorder kept its bytes next to the
    `MalformedResponse`).  The server serves the recorded bytes as a raw response: the cursor moves onto the row, the state does
    not change (the client's did not either: `update_state` saw a raw response), the caller gets exactly the recorded bytes. -/
theorem unparsable_recorded_reply (d : Defaults) (sel : Selector) (xs : JObj) (db : List DbRow) (s : Srv) (gap : Nat)
    (hgap : gap ≤ idleLimitMs) (q : Bytes) (row : DbRow) (bytes : Bytes) (e : UdsResp.Reject)
    (hrow : lookupDb sel xs db s (reqKey q) = some row) (hresp : row.resp = some bytes)
    (hbad : UdsResp.decodeResp bytes = .error e) :
    serveStep Behavior.db d sel xs db s gap q = (⟨s.st, some row.id⟩, .reply bytes) ∧ classify bytes = .other := by
  have hg : ¬ gap > idleLimitMs := by omega
  have hp : parseRecorded bytes = .raw bytes := by unfold parseRecorded; rw [hbad]
  refine ⟨?_, ?_⟩
  · unfold serveStep
    simp only [hg, if_false, hrow, hresp, hp, finishResp, Reply.kind, Reply.pdu, serverUpdateK, Behavior.db,
      Bool.false_and]
    rfl
  · rw [← kind_parseRecorded, hp]; rfl

/-- before the repair the same row made `handle_request` raise - after the cursor had moved (the TCP transport then drops the
    connection): the failing input of known_findings.jsonl, `22 F1 86` answered `62 F1 86` -/
def exBadRow : DbRow := ⟨1, ⟨some "ECU0", []⟩, St.default.toJson, [0x22, 0xF1, 0x86], some [0x62, 0xF1, 0x86]⟩
def exBadDb : List DbRow := [exBadRow]

theorem unparsable_recorded_reply_legacy :
    serveStepLegacy ⟨none, none⟩ exBadDb {} [0x22, 0xF1, 0x86] = (⟨St.default, some 1⟩, .raised) ∧
    serveDb ⟨none, none⟩ exBadDb [(0, [0x22, 0xF1, 0x86])] = [.reply [0x62, 0xF1, 0x86]] := by
  have hk : reqKey [0x22, 0xF1, 0x86] = [0x22, 0xF1, 0x86] := reqKey_eq reqLossless _
  have hbad : UdsResp.decodeResp [0x62, 0xF1, 0x86] = .error .tooShort := decode62_short _ (by simp)
  have hl : lookupDb ⟨none, none⟩ [] exBadDb {} [0x22, 0xF1, 0x86] = some exBadRow := by decide
  constructor
  · have hr : exBadRow.resp = some [0x62, 0xF1, 0x86] := rfl
    simp only [serveStepLegacy, hk, hl, hr, hbad]
    rfl
  · have h := (unparsable_recorded_reply Defaults.unused ⟨none, none⟩ [] exBadDb {} 0 (by simp [idleLimitMs]) [0x22, 0xF1, 0x86]
      exBadRow [0x62, 0xF1, 0x86] .tooShort (by rw [hk]; exact hl) rfl hbad).1
    simp only [serveDb, serveAll, h]

/-- nothing is invented: whatever bytes `handle_request` returns are the reply bytes of a row of the database, and the cursor
    stands on that row -/
theorem served_bytes_are_recorded (hC02 : RespLossless) (d : Defaults) (sel : Selector) (xs : JObj) (db : List DbRow) (s s' : Srv)
    (gap : Nat) (q b : Bytes) (h : serveStep Behavior.db d sel xs db s gap q = (s', .reply b)) :
    ∃ row ∈ db, row.resp = some b ∧ s'.last = some row.id := by
  unfold serveStep at h
  simp only [preChain_db] at h
  split at h
  · simp [Behavior.db] at h
  · rename_i row hrow
    have hmem : row ∈ db := lookupDb_mem hrow
    split at h
    · simp [Behavior.db] at h
    · rename_i bytes hb
      simp only [finishResp, Behavior.db, Bool.false_and, Prod.mk.injEq] at h
      obtain ⟨h1, h2⟩ := h
      refine ⟨row, hmem, ?_, by rw [← h1]⟩
      rw [hb]
      simp only [Bool.false_eq_true, ↓reduceIte, Out.reply.injEq] at h2
      rw [← h2, parseRecorded_pdu hC02]

/-- a pause of more than ten seconds resets the server's state and keeps the cursor: the request is then answered as by a server in
    the default state standing on the same row -/
theorem idle_reset_keeps_cursor (b : Behavior) (d : Defaults) (sel : Selector) (xs : JObj) (db : List DbRow) (s : Srv) (gap : Nat)
    (hgap : gap > idleLimitMs) (q : Bytes) :
    serveStep b d sel xs db s gap q = serveStep b d sel xs db ⟨St.default, s.last⟩ 0 q :=
  serveStep_idle b d sel xs db s gap hgap q

/-- **C11's recorder, then the server.**  The rows C11's model leaves for a fully logged single-producer history (any schedule
    that lets the producer finish), numbered from `id0` in a database that otherwise holds only runs the selector does not select and
    later rows, replayed through `handle_request`: every exchange gets its recorded reply bytes, every exchange without reply -
    whatever the reason - silence. -/
theorem c11_recording_replays (sel : Selector) (db : List DbRow) (huniq : ∀ r ∈ db, ∀ r' ∈ db, r.id = r'.id → r = r')
    (ri : RunInfo) (hsel : selects sel ri = true) (h : List DbLog.Exchange) (hon : ∀ e ∈ h, e.implicitOn = true) (id0 : Nat)
    (hrec : ∀ r ∈ numberRows ri id0 (DbLog.afterDisconnect (DbLog.runAll h)), r ∈ db)
    (hothers : ∀ r ∈ db, r ∉ numberRows ri id0 (DbLog.afterDisconnect (DbLog.runAll h)) →
      selects sel r.run = false ∨ id0 + h.length ≤ r.id)
    (hagree : Agree (h.map exchOf)) :
    serveDb sel db (h.map fun e => (0, e.req)) = h.map fun e => outOf e.out.response := by
  have hrows : numberRows ri id0 (DbLog.afterDisconnect (DbLog.runAll h)) = recordDb ri id0 St.default (h.map exchOf) := by
    rw [DbLog.afterDisconnect_eq]
    have hinv := (DbLog.Inv.init h).exec (h.map fun _ => DbLog.Choice.prod)
    have hdone : (DbLog.runAll h).done = h := runAll_done h
    unfold DbLog.runAll at hdone ⊢
    rw [hinv.rows, hdone]
    exact numberRows_specRows ri id0 .init 0 h hon
  rw [hrows] at hrec hothers
  have := serve_faithful_db sel db huniq ri hsel (h.map exchOf) id0 hrec (by simpa using hothers) hagree
  simpa [List.map_map, exchOf, Function.comp_def] using this

end Gallia.C12
