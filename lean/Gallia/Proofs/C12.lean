import Gallia.Proofs.Lemmas.Replay
/-
  C12 — A database-backed virtual ECU replays the recorded ECU's answers.
-/
namespace Gallia.C12
open Gallia Gallia.Replay

/-- invariant form: replaying the rest `h` of a history whose rows start at id `k`, from the state the client
    logged, with `last` pointing below `k` -/
theorem replay_suffix (rows : List Row) (huniq : ∀ r ∈ rows, ∀ r' ∈ rows, r.id = r'.id → r = r')
    (h : List Exch) (k : Nat) (st : St) (last : Option Nat)
    (hrec : ∀ r ∈ record k st h, r ∈ rows)
    (hlow : ∀ r ∈ rows, r.selected = true → r.id < k → ∃ l, last = some l ∧ r.id ≤ l)
    (hlast : ∀ l, last = some l → l < k)
    (hhigh : ∀ r ∈ rows, r.selected = true → k ≤ r.id → r ∈ record k st h ∨ k + h.length ≤ r.id)
    (hagree : clientStates st h = serverStates st h) :
    replayAll rows ⟨st, last⟩ (h.map (·.req)) = h.map (·.resp) := by
  induction h generalizing k st last with
  | nil => rfl
  | cons x xs ih =>
    let row0 : Row := ⟨k, true, st, x.req, x.resp⟩
    have hrow0 : row0 ∈ rows := hrec row0 (by simp [record, row0])
    have hpick : minRow (fun r => matchesQ st x.req r && afterLast last r.id) rows = some row0 := by
      apply minRow_unique hrow0
      · have : matchesQ st x.req row0 = true := by simp [matchesQ, row0]
        simp only [this, Bool.true_and]
        cases hl : last with
        | none => rfl
        | some l => simpa [row0, afterLast] using hlast l hl
      · intro r hr hp
        simp only [Bool.and_eq_true, matchesQ] at hp
        obtain ⟨⟨⟨hsel, _⟩, _⟩, hgt⟩ := hp
        show k ≤ r.id
        by_cases hlt : r.id < k
        · obtain ⟨l, hl, hle⟩ := hlow r hr hsel hlt
          rw [hl] at hgt
          simp only [afterLast, decide_eq_true_eq] at hgt
          omega
        · omega
      · intro r hr hid; exact huniq r hr row0 hrow0 hid
    have hstep : replayStep rows ⟨st, last⟩ x.req = (⟨srvNext st x.resp, some k⟩, x.resp) := by
      simp only [replayStep, hpick]; rfl
    simp only [List.map_cons, replayAll, hstep]
    congr 1
    cases xs with
    | nil => rfl
    | cons y ys =>
      rw [clientStates_cons, serverStates_cons] at hagree
      have htail := (List.cons.inj hagree).2
      have hst : clientUpdate st x.resp = srvNext st x.resp := by
        rw [clientStates_cons, serverStates_cons] at htail
        exact (List.cons.inj htail).1
      rw [← hst]
      apply ih (k + 1) (clientUpdate st x.resp) (some k)
      · intro r hr; exact hrec r (by rw [record_cons]; simp [hr])
      · intro r _ _ hlt; exact ⟨k, rfl, by omega⟩
      · intro l hl; injection hl with hl; omega
      · intro r hr hsel hge
        rcases hhigh r hr hsel (by omega) with hmem | hbig
        · rw [record_cons, List.mem_cons] at hmem
          rcases hmem with rfl | hmem
          · have : k + 1 ≤ k := hge
            omega
          · exact Or.inl hmem
        · right; simp only [List.length_cons] at hbig ⊢; omega
      · have h' := htail
        rw [← hst] at h'
        exact h'

/-- **C12.** A history recorded from the default state into rows `id0, id0+1, …` is replayed exactly - the
    recorded reply bytes, silence where no reply was recorded - whatever else the database holds, as long as the
    other rows belong to runs the selector excludes (other ECU names / property sets) or were recorded later, and
    provided client and server derive the same state along the history (`Agree`, the property's presupposition). -/
theorem replay_faithful (rows : List Row) (huniq : ∀ r ∈ rows, ∀ r' ∈ rows, r.id = r'.id → r = r')
    (h : List Exch) (id0 : Nat)
    (hrec : ∀ r ∈ record id0 St.default h, r ∈ rows)
    (hothers : ∀ r ∈ rows, r ∉ record id0 St.default h → r.selected = false ∨ id0 + h.length ≤ r.id)
    (hagree : Agree h) :
    replayAll rows {} (h.map (·.req)) = h.map (·.resp) := by
  apply replay_suffix rows huniq h id0 St.default none hrec
  · intro r hr hsel hlt
    exfalso
    have hnot : r ∉ record id0 St.default h := fun hm => by have := (mem_record hm).1; omega
    rcases hothers r hr hnot with h1 | h1
    · rw [hsel] at h1; cases h1
    · omega
  · intro l hl; cases hl
  · intro r hr _ _
    by_cases hm : r ∈ record id0 St.default h
    · exact Or.inl hm
    · rcases hothers r hr hm with h1 | h1
      · rename_i hsel _; rw [hsel] at h1; cases h1
      · exact Or.inr h1
  · exact hagree

/-- the server after the recorded suffix: it sits in the state the recorded replies lead to, and its cursor on the last row -/
theorem replay_suffix_srv (rows : List Row) (huniq : ∀ r ∈ rows, ∀ r' ∈ rows, r.id = r'.id → r = r')
    (h : List Exch) (k : Nat) (st : St) (last : Option Nat)
    (hrec : ∀ r ∈ record k st h, r ∈ rows)
    (hlow : ∀ r ∈ rows, r.selected = true → r.id < k → ∃ l, last = some l ∧ r.id ≤ l)
    (hlast : ∀ l, last = some l → l < k)
    (hagree : clientStates st h = serverStates st h) :
    (runSrv rows ⟨st, last⟩ (h.map (·.req))).st = serverFinal st h ∧
    (h ≠ [] → (runSrv rows ⟨st, last⟩ (h.map (·.req))).last = some (k + h.length - 1)) := by
  induction h generalizing k st last with
  | nil => exact ⟨rfl, fun hne => absurd rfl hne⟩
  | cons x xs ih =>
    have hstep := replayStep_head rows huniq x xs k st last hrec hlow hlast
    simp only [List.map_cons, runSrv, hstep, serverFinal]
    cases xs with
    | nil => exact ⟨rfl, fun _ => by simp [runSrv]⟩
    | cons y ys =>
      rw [clientStates_cons, serverStates_cons] at hagree
      have htail := (List.cons.inj hagree).2
      have hst : clientUpdate st x.resp = srvNext st x.resp := by
        rw [clientStates_cons, serverStates_cons] at htail
        exact (List.cons.inj htail).1
      have := ih (k + 1) (srvNext st x.resp) (some k)
        (by intro r hr; exact hrec r (by rw [record_cons, hst]; simp [hr]))
        (by intro r _ _ hlt; exact ⟨k, rfl, by omega⟩)
        (by intro l hl; injection hl with hl; omega)
        (by rw [← hst]; rw [← hst] at htail; exact htail)
      refine ⟨this.1, fun _ => ?_⟩
      rw [this.2 (by simp)]
      simp only [List.length_cons]
      congr 1; omega

/-- **C12, restarted scan.** A virtual ECU that has replayed a recorded history to its end - and is back in the default
    state, as after a reset or an unanswered request - answers the same request sequence a second time with the same
    replies: the `id <= last` query wraps around to the first row of the recording. -/
theorem replay_again (rows : List Row) (huniq : ∀ r ∈ rows, ∀ r' ∈ rows, r.id = r'.id → r = r')
    (h : List Exch) (id0 : Nat)
    (hrec : ∀ r ∈ record id0 St.default h, r ∈ rows)
    (hothers : ∀ r ∈ rows, r ∉ record id0 St.default h → r.selected = false)
    (hagree : Agree h) (hback : serverFinal St.default h = St.default) :
    replayAll rows {} (h.map (·.req) ++ h.map (·.req)) = h.map (·.resp) ++ h.map (·.resp) := by
  have hfirst := replay_faithful rows huniq h id0 hrec
    (fun r hr hn => Or.inl (hothers r hr hn)) hagree
  rw [replayAll_append, hfirst]
  congr 1
  cases h with
  | nil => rfl
  | cons x xs =>
    have hsel : ∀ r ∈ rows, r.selected = true → id0 ≤ r.id ∧ r.id ≤ id0 + (x :: xs).length - 1 := by
      intro r hr hs
      by_cases hm : r ∈ record id0 St.default (x :: xs)
      · have := mem_record hm; omega
      · have := hothers r hr hm; rw [hs] at this; cases this
    have hsrv := replay_suffix_srv rows huniq (x :: xs) id0 St.default none hrec
      (by intro r hr hs hlt; have := (hsel r hr hs).1; omega) (by intro l hl; cases hl) hagree
    have hs1 : runSrv rows {} ((x :: xs).map (·.req)) = ⟨St.default, some (id0 + (x :: xs).length - 1)⟩ := by
      have h1 := hsrv.1; have h2 := hsrv.2 (by simp)
      rw [hback] at h1
      cases hr : runSrv rows ⟨St.default, none⟩ ((x :: xs).map (·.req)) with
      | mk st last =>
        rw [hr] at h1 h2; simp only at h1 h2; subst h1 h2; exact hr
    show replayAll rows (runSrv rows {} ((x :: xs).map (·.req))) ((x :: xs).map (·.req)) = (x :: xs).map (·.resp)
    rw [hs1]
    have hwrap := replayStep_wrap rows huniq x xs id0 St.default (id0 + (x :: xs).length - 1) hrec hsel
    simp only [List.map_cons, replayAll, hwrap]
    congr 1
    cases xs with
    | nil => rfl
    | cons y ys =>
      have hag := hagree
      unfold Agree at hag
      rw [clientStates_cons, serverStates_cons] at hag
      have htail := (List.cons.inj hag).2
      have hst : clientUpdate St.default x.resp = srvNext St.default x.resp := by
        rw [clientStates_cons, serverStates_cons] at htail
        exact (List.cons.inj htail).1
      rw [← hst]
      apply replay_suffix rows huniq (y :: ys) (id0 + 1) (clientUpdate St.default x.resp) (some id0)
      · intro r hr; exact hrec r (by rw [record_cons]; simp [hr])
      · intro r _ _ hlt; exact ⟨id0, rfl, by omega⟩
      · intro l hl; injection hl with hl; omega
      · intro r hr hs hge
        by_cases hm : r ∈ record id0 St.default (x :: y :: ys)
        · rw [record_cons, List.mem_cons] at hm
          rcases hm with rfl | hm
          · have : id0 + 1 ≤ id0 := hge
            omega
          · exact Or.inl hm
        · have := hothers r hr hm; rw [hs] at this; cases this
      · have h' := htail; rw [← hst] at h'; exact h'

example : replayAll (record 3 St.default [⟨[0x10, 3], some [0x50, 3, 0, 0x32, 1, 0xF4]⟩, ⟨[0x22, 1, 2], some [0x62, 1, 2, 9]⟩,
      ⟨[0x11, 1], some [0x51, 1]⟩]) {}
    [[0x10, 3], [0x22, 1, 2], [0x11, 1], [0x10, 3], [0x22, 1, 2], [0x11, 1]] =
    [some [0x50, 3, 0, 0x32, 1, 0xF4], some [0x62, 1, 2, 9], some [0x51, 1],
     some [0x50, 3, 0, 0x32, 1, 0xF4], some [0x62, 1, 2, 9], some [0x51, 1]] := by decide

/-! ### the selector made explicit -/

/-- rows of another ECU name are invisible to a server selected by name -/
theorem other_name_ignored (sel : Selector) (ri : RunInfo) (n : String) (hs : sel.ecu = some n) (hn : ri.ecuName ≠ some n) :
    selects sel ri = false := by
  simp only [selects, hs, Bool.and_eq_false_iff]
  left
  cases he : ri.ecuName with
  | none => rfl
  | some m =>
    rw [he] at hn
    have : m ≠ n := fun h => hn (by rw [h])
    simp [this]

/-- rows of a run that differs in one requested property are invisible to a server selected by properties -/
theorem other_props_ignored (sel : Selector) (ri : RunInfo) (ps : List (String × JVal)) (k : String) (v : JVal)
    (hs : sel.props = some ps) (hmem : (k, v) ∈ ps) (hdiff : ri.extract k ≠ v) : selects sel ri = false := by
  simp only [selects, hs, Bool.and_eq_false_iff]
  right
  rw [List.all_eq_false]
  refine ⟨(k, v), hmem, ?_⟩
  unfold propMatches
  cases v <;> simp_all

/-- a run recorded under the name and with the properties the selector asks for is visible -/
theorem selects_own (n : String) (ps : List (String × JVal)) (hnn : ∀ kv ∈ ps, kv.2 ≠ .null)
    (ri : RunInfo) (hname : ri.ecuName = some n) (hps : ∀ kv ∈ ps, ri.extract kv.1 = kv.2) :
    selects ⟨some n, some ps⟩ ri = true ∧ selects ⟨some n, none⟩ ri = true ∧ selects ⟨none, some ps⟩ ri = true ∧
    selects ⟨none, none⟩ ri = true := by
  have hall : ps.all (propMatches ri) = true := by
    rw [List.all_eq_true]
    intro kv hkv
    unfold propMatches
    have h1 := hps kv hkv
    have h2 := hnn kv hkv
    cases hv : kv.2 <;> simp_all
  simp [selects, hname, hall]

/-- **C12 on a whole database.** The run of ECU `ri` was recorded into rows `id0, id0+1, …` of a database that also holds any
    number of runs which the selector (ECU name and / or properties) does not select, and later runs of whatever ECU. A virtual ECU
    started on that database with a selector that selects `ri` replays the recorded replies (silence where none was recorded),
    provided client and server derive the same state along the history. -/
theorem replay_faithful_db (sel : Selector) (db : List DbRow) (huniq : ∀ r ∈ db, ∀ r' ∈ db, r.id = r'.id → r = r')
    (ri : RunInfo) (hsel : selects sel ri = true) (h : List Exch) (id0 : Nat)
    (hrec : ∀ r ∈ recordDb ri id0 St.default h, r ∈ db)
    (hothers : ∀ r ∈ db, r ∉ recordDb ri id0 St.default h → selects sel r.run = false ∨ id0 + h.length ≤ r.id)
    (hagree : Agree h) :
    replayDb sel db (h.map (·.req)) = h.map (·.resp) := by
  unfold replayDb
  apply replay_faithful (db.map (DbRow.view sel)) _ h id0
  · intro r hr
    rw [← record_view sel ri hsel] at hr
    obtain ⟨d, hd, rfl⟩ := List.mem_map.1 hr
    exact List.mem_map.2 ⟨d, hrec d hd, rfl⟩
  · intro r hr hn
    obtain ⟨d, hd, rfl⟩ := List.mem_map.1 hr
    by_cases hm : d ∈ recordDb ri id0 St.default h
    · exact absurd (by rw [← record_view sel ri hsel]; exact List.mem_map.2 ⟨d, hm, rfl⟩) hn
    · rcases hothers d hd hm with h1 | h1
      · exact Or.inl (view_unselected sel d h1)
      · exact Or.inr (by simpa using h1)
  · exact hagree
  · intro r hr r' hr' hid
    obtain ⟨d, hd, rfl⟩ := List.mem_map.1 hr
    obtain ⟨d', hd', rfl⟩ := List.mem_map.1 hr'
    rw [huniq d hd d' hd' (by simpa using hid)]

/-- non-vacuity: two ECUs in one database, selection by name and by a property -/
example :
    let a : RunInfo := ⟨some "ECU0", [("vin", .str "VIN0"), ("hw", .num 7)]⟩
    let b : RunInfo := ⟨some "ECU1", [("vin", .str "VIN1"), ("hw", .num 7)]⟩
    let db := recordDb b 1 St.default [⟨[0x3E, 0], some [0x7F, 0x3E, 0x11]⟩] ++
              recordDb a 2 St.default [⟨[0x3E, 0], some [0x7E, 0]⟩, ⟨[0x10, 3], some [0x50, 3, 0, 0x32, 1, 0xF4]⟩]
    replayDb ⟨some "ECU0", none⟩ db [[0x3E, 0], [0x10, 3]] = [some [0x7E, 0], some [0x50, 3, 0, 0x32, 1, 0xF4]] ∧
    replayDb ⟨none, some [("vin", .str "VIN1")]⟩ db [[0x3E, 0]] = [some [0x7F, 0x3E, 0x11]] := by decide

/-- repeated identical requests with different answers are replayed in recording order (instance of the above,
    spelled out because it is the case the `id > last` rule exists for) -/
example : replayAll (record 7 St.default [⟨[0x27, 1], some [0x67, 1, 0xAA]⟩, ⟨[0x27, 1], some [0x67, 1, 0xBB]⟩]) {}
    [[0x27, 1], [0x27, 1]] = [some [0x67, 1, 0xAA], some [0x67, 1, 0xBB]] := by decide

/-- a syntactic sufficient condition for the presupposition: every unanswered request was sent in the default
    state, and every read of the active-session identifier confirms what the client believed -/
def Safe : St → List Exch → Prop
  | _, [] => True
  | st, x :: xs =>
    (match x.resp with
      | none => st = St.default
      | some r => match classify r with
        | .f186 s => s = st.session
        | _ => True) ∧ Safe (clientUpdate st x.resp) xs

theorem agree_of_safe (st : St) (h : List Exch) (hs : Safe st h) : clientStates st h = serverStates st h := by
  induction h generalizing st with
  | nil => rfl
  | cons x xs ih =>
    obtain ⟨h1, h2⟩ := hs
    have hst : clientUpdate st x.resp = srvNext st x.resp := by
      cases hx : x.resp with
      | none => simp only [hx] at h1; simpa [clientUpdate, srvNext] using h1
      | some r =>
        simp only [hx] at h1
        simp only [clientUpdate, serverUpdate, srvNext]
        cases hc : classify r with
        | f186 s => rw [hc] at h1; simp only [] at h1; simp [h1]
        | _ => rfl
    rw [clientStates_cons, serverStates_cons, ← hst]
    exact congrArg _ (ih _ h2)

theorem agree_of_safe_default (h : List Exch) (hs : Safe St.default h) : Agree h := agree_of_safe _ h hs

/-- the presupposition is not automatic: a suppressed TesterPresent leaves no reply, the replaying server resets
    its state, the recording client did not (DESIGN.md section 8 item 20) ... -/
theorem agree_can_fail :
    ¬ Agree [⟨[0x10, 0x04], some [0x50, 0x04, 0, 0x32, 1, 0xF4]⟩, ⟨[0x3E, 0x80], none⟩, ⟨[0x3E, 0x00], some [0x7E, 0x00]⟩] := by
  decide

/-- ... and then the replay really differs from the recording: after the unanswered request the server looks
    for rows logged in session 1 and finds none -/
theorem replay_differs_without_agree :
    replayAll (record 1 St.default
        [⟨[0x10, 0x04], some [0x50, 0x04, 0, 0x32, 1, 0xF4]⟩, ⟨[0x3E, 0x80], none⟩, ⟨[0x3E, 0x00], some [0x7E, 0x00]⟩]) {}
      [[0x10, 0x04], [0x3E, 0x80], [0x3E, 0x00]] = [some [0x50, 0x04, 0, 0x32, 1, 0xF4], none, none] := by
  decide

/-- non-vacuity of `replay_faithful`: a history with a session change, a seed/key pair and a reset satisfies `Safe` -/
example : Safe St.default [⟨[0x10, 3], some [0x50, 3, 0, 0x32, 1, 0xF4]⟩, ⟨[0x27, 1], some [0x67, 1, 9, 9]⟩,
    ⟨[0x27, 2, 9, 9], some [0x67, 2]⟩, ⟨[0x22, 0xF1, 0x86], some [0x62, 0xF1, 0x86, 3]⟩, ⟨[0x11, 1], some [0x51, 1]⟩,
    ⟨[0x3E, 0x80], none⟩] := by
  simp [Safe, clientUpdate, classify, St.default, fromBE]

end Gallia.C12
