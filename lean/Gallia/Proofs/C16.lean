import Gallia.Model.Randomize
import Gallia.Proofs.Lemmas.Randomize
import Gallia.Proofs.Lemmas.RandomizeDict
import Gallia.Proofs.Lemmas.RandomizeSpec
import Gallia.Gen.C16Tables
/-
  C16 — a random virtual ECU is fully determined by its seed and arguments; its model is well-formed.

  The theorems are about `randomizeGen tb p o` (Model/Randomize.lean): the code of `RandomUDSServer.randomize` with
  the random number generator replaced by arbitrary oracles `o` (draw stream, `choice` indices, set iteration
  order).  Being statements for **all** oracles they hold for every seed.  Determinism proper ("nothing but seed and
  arguments is consulted") cannot be a Lean theorem about Python processes; it is carried by the correspondence
  (recorded-draw replay and cross-process transcripts, harness/props/C16.py).
-/
namespace Gallia.C16
open Gallia.Randomize

/-! ### (T) tables -/

/-- the tables the code reads today (regenerated from the working tree on every run) -/
def genTables : Tables where
  subFn := Gen.C16Tables.subFnServices
  tp := Gen.C16Tables.sidTesterPresent
  dsc := Gen.C16Tables.sidDSC
  sa := Gen.C16Tables.sidSecurityAccess
  rc := Gen.C16Tables.sidRoutineControl
  dtc := Gen.C16Tables.sidReadDTC
  routine := Gen.C16Tables.routineSubFns
  dtcSub := Gen.C16Tables.dtcSubFn
  saRange := Gen.C16Tables.saRange
  subRange := Gen.C16Tables.subRange

/-- the hand-written tables of the model are the ones the code uses -/
theorem tables_agree : genTables = isoTables := by decide

theorem constants_agree :
    Gen.C16Tables.nSessions = nSessions ∧ Gen.C16Tables.defaultSession = defaultSession ∧
    Gen.C16Tables.ladder =
      ["TesterPresent", "DiagnosticSessionControl", "SecurityAccess", "RoutineControl", "ReadDTCInformation"] := by
  decide

theorem isoTables_wf : isoTables.WF := ⟨by decide, by decide⟩

variable {tb : Tables} {p : Params} {o : Oracles}

/-! ### headline theorems: for every draw stream, choice oracle and iteration order -/

/-- the default session is always offered (no precondition at all) -/
theorem default_present : Offered (randomizeGen tb p o).model defaultSession :=
  model_has tb p o (by decide) (transitions_inv p o).1.dflt

/-- every mandatory session is offered -/
theorem mandatory_present (hp : ParamsWF p) :
    ∀ s ∈ p.mandatorySessions, Offered (randomizeGen tb p o).model s := by
  intro s hs
  exact (offered_iff hp s).2 ((transitions_inv p o).2 s hs)

/-- every offered session offers every mandatory service -/
theorem services_mandatory :
    ∀ s sm, (s, sm) ∈ (randomizeGen tb p o).model → ∀ k ∈ p.mandatoryServices, ∃ v, (k, v) ∈ sm := by
  intro s sm hm k hk
  obtain ⟨_, _, i, rfl⟩ := model_mem tb p o hm
  exact svcMapOf_mandatory tb p o.draw _ s i hk

/-- every offered session can be entered from the default session by DiagnosticSessionControl requests that the
    model answers positively -/
theorem reachable_from_default (htb : tb.WF) (hd : tb.dsc ∈ p.mandatoryServices) (hp : ParamsWF p) :
    ∀ s, Offered (randomizeGen tb p o).model s → Reach (DscEdge tb (randomizeGen tb p o).model) defaultSession s := by
  intro s hs
  have := (transitions_inv p o).1.reach s ((offered_iff hp s).1 hs)
  exact this.mono (fun a b e => (edge_iff htb hd hp a b).2 e)

/-- every offered session lists the default session among its DiagnosticSessionControl sub-functions -/
theorem returns_to_default (htb : tb.WF) (hd : tb.dsc ∈ p.mandatoryServices) (hp : ParamsWF p) :
    ∀ s, Offered (randomizeGen tb p o).model s → DscEdge tb (randomizeGen tb p o).model s defaultSession := by
  intro s hs
  exact (edge_iff htb hd hp s defaultSession).2 ((transitions_inv p o).1.ret s ((offered_iff hp s).1 hs))

/-- whatever DiagnosticSessionControl lists as a sub-function is an offered session (also when the service is only
    optional): a positive session change never leaves the model -/
theorem dsc_subfns_are_sessions (htb : tb.WF) (hp : ParamsWF p) :
    ∀ a sm l b, (a, sm) ∈ (randomizeGen tb p o).model → (tb.dsc, some l) ∈ sm → b ∈ l →
      Offered (randomizeGen tb p o).model b := by
  intro a sm l b hm hl hb
  obtain ⟨_, _, i, rfl⟩ := model_mem tb p o hm
  have := svcMapOf_dsc_value htb p o.draw _ a i hl
  simp at this
  rw [this] at hb
  exact (offered_iff hp b).2 ((transitions_inv p o).1.closed a b hb)

/-- nothing is invented: offered sessions come from the argument lists (or are the default session), offered
    services come from the argument lists, and a service carries a sub-function list iff it is a sub-function service -/
theorem nothing_invented :
    ∀ s sm, (s, sm) ∈ (randomizeGen tb p o).model →
      (s = defaultSession ∨ s ∈ p.mandatorySessions ∨ s ∈ p.optionalSessions) ∧ s < nSessions ∧
      ∀ k v, (k, v) ∈ sm → (k ∈ p.mandatoryServices ∨ k ∈ p.optionalServices) ∧ (v.isSome = tb.subFn.contains k) := by
  intro s sm hm
  obtain ⟨hlt, hne, i, rfl⟩ := model_mem tb p o hm
  refine ⟨?_, hlt, ?_⟩
  · rcases (transitions_inv p o).1.src s hne with h | h
    · exact Or.inl h
    · exact Or.inr (List.mem_append.1 h)
  · intro k v hkv
    obtain ⟨hk, j, rfl⟩ := svcMapOf_entry tb p o.draw _ s i hkv
    exact ⟨hk, subFns_isSome_iff tb o.draw j _ k⟩

/-- the result is a well-formed dict of dicts, whatever the draws: sessions strictly ascending (so unique), service
    keys unique per session, every DiagnosticSessionControl list strictly ascending (= `sorted(set)`, no duplicates).
    Lookups by key are therefore unambiguous (used by the server models of C13 / C14). -/
theorem model_is_dict (htb : tb.WF) :
    ((randomizeGen tb p o).model.map (·.1)).Pairwise (· < ·) ∧
    ∀ s sm, (s, sm) ∈ (randomizeGen tb p o).model →
      (sm.map (·.1)).Nodup ∧ ∀ l, (tb.dsc, some l) ∈ sm → l.Pairwise (· < ·) := by
  refine ⟨?_, ?_⟩
  · rw [model_keys]
    exact List.Pairwise.filter _ List.pairwise_lt_range
  · intro s sm hm
    obtain ⟨_, _, i, rfl⟩ := model_mem tb p o hm
    refine ⟨svcMapOf_nodup tb p o.draw _ s i, ?_⟩
    intro l hl
    have := svcMapOf_dsc_value htb p o.draw _ s i hl
    simp at this
    rw [this]
    exact transitions_sorted p o s

/-! ### the function of DESIGN section 7 (`isoTables`, Boolean stream) -/

/-- well-formedness of a model with respect to the arguments: what the property promises of every virtual ECU -/
structure WellFormed (p : Params) (m : Model) : Prop where
  default_present : Offered m defaultSession
  mandatory_sessions : ∀ s ∈ p.mandatorySessions, Offered m s
  mandatory_services : ∀ s sm, (s, sm) ∈ m → ∀ k ∈ p.mandatoryServices, ∃ v, (k, v) ∈ sm
  reachable : ∀ s, Offered m s → Reach (DscEdge isoTables m) defaultSession s
  returns : ∀ s, Offered m s → DscEdge isoTables m s defaultSession
  dsc_sessions : ∀ a b, DscEdge isoTables m a b → Offered m b

/-- for all seeds (draw streams, choices, iteration orders): the model of the virtual ECU is well-formed -/
theorem randomizeCore_wellFormed (p : Params) (hp : ParamsWF p) (hd : 0x10 ∈ p.mandatoryServices)
    (draws : Nat → Bool) (choice : Nat → Nat) (order : Nat → List Nat) :
    WellFormed p (randomizeCore p draws choice order) := by
  unfold randomizeCore
  exact {
    default_present := default_present
    mandatory_sessions := mandatory_present hp
    mandatory_services := services_mandatory
    reachable := reachable_from_default isoTables_wf hd hp
    returns := returns_to_default isoTables_wf hd hp
    dsc_sessions := fun a b ⟨sm, l, hm, hl, hb⟩ => dsc_subfns_are_sessions isoTables_wf hp a sm l b hm hl hb }

/-! ### the executable report the harness evaluates on the implementation's own model -/

/-- soundness of the executable check: when `wfReport` (run by the correspondence harness on `server.services` of the
    real `RandomUDSServer`) shows all six flags, that model is well-formed in the sense of the theorems above.
    `UniqueKeys` holds of anything read from a Python dict of dicts. -/
theorem wfReport_sound (p : Params) (m : Model) (hu : UniqueKeys m)
    (h : wfReport isoTables p m = ⟨true, true, true, true, true, true⟩) : WellFormed p m := by
  have h1 := congrArg WfReport.mandatorySessions h
  have h2 := congrArg WfReport.mandatoryServices h
  have h3 := congrArg WfReport.defaultPresent h
  have h4 := congrArg WfReport.reachable h
  have h5 := congrArg WfReport.returns h
  have h6 := congrArg WfReport.dscAreSessions h
  simp only [wfReport, List.all_eq_true, Bool.and_eq_true] at h1 h2 h3 h4 h5 h6
  have hsess : ∀ {s sm}, (s, sm) ∈ m → s ∈ m.map (·.1) := fun hm => List.mem_map.2 ⟨_, hm, rfl⟩
  refine ⟨offeredB_sound h3, fun s hs => offeredB_sound (h1 s hs), ?_, ?_, ?_, ?_⟩
  · intro s sm hm k hk
    have := h2 (s, sm) hm k hk
    cases hv : lookupSvc sm k with
    | none => simp [hv] at this
    | some v => exact ⟨v, lookupSvc_some hv⟩
  · rintro s ⟨sm, hm⟩
    have := h4.2 s (hsess hm)
    have hseed : ∀ y ∈ [defaultSession], Reach (DscEdge isoTables m) defaultSession y := by
      intro y hy; simp at hy; subst hy; exact .refl _
    exact reachFrom_sound isoTables m defaultSession m.length [defaultSession] hseed s (by simpa using this)
  · rintro s ⟨sm, hm⟩
    have := h5 s (hsess hm)
    exact dscOf_edge (by simpa using this)
  · rintro a b ⟨sm, l, hm, hl, hb⟩
    have := h6 a (hsess hm) b (by rw [dscOf_of_edge hu hm hl]; exact hb)
    exact offeredB_sound this

/-! ### non-vacuity -/

/-- the default arguments of `RandomnessParameters` satisfy the hypotheses -/
def defaultParams : Params :=
  ⟨Gen.C16Tables.defaultMandatorySessions, Gen.C16Tables.defaultOptionalSessions,
   Gen.C16Tables.defaultMandatoryServices, Gen.C16Tables.defaultOptionalServicesSorted⟩

example : ParamsWF defaultParams ∧ 0x10 ∈ defaultParams.mandatoryServices := by decide

/-- a non-trivial instance: with sessions 5 and 0x60 mandatory, every seed yields a model in which both are offered,
    reachable from session 1 and able to return to it -/
example (draws : Nat → Bool) (choice : Nat → Nat) (order : Nat → List Nat) :
    let m := randomizeCore ⟨[5, 0x60], [2, 3], [0x10, 0x3E], [0x22, 0x27]⟩ draws choice order
    Offered m 5 ∧ Reach (DscEdge isoTables m) 1 0x60 ∧ DscEdge isoTables m 5 1 := by
  intro m
  have h := randomizeCore_wellFormed ⟨[5, 0x60], [2, 3], [0x10, 0x3E], [0x22, 0x27]⟩ (by decide) (by decide)
    draws choice order
  exact ⟨h.mandatory_sessions 5 (by decide), h.reachable _ (h.mandatory_sessions 0x60 (by decide)),
    h.returns _ (h.mandatory_sessions 5 (by decide))⟩

end Gallia.C16
