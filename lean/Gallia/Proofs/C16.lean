import Gallia.Model.Randomize
import Gallia.Gen.C16Tables
namespace Gallia.C16
open Gallia.Randomize

/-- (T) the tables the hand-written model uses are the ones the code reads today -/
def genTables : Tables where
  subFn := Gen.C16Tables.subFnServices
  tp := Gen.C16Tables.sidTesterPresent
  dsc := Gen.C16Tables.sidDSC
  sa := Gen.C16Tables.sidSecurityAccess
  rc := Gen.C16Tables.sidRoutineControl
  dtc := Gen.C16Tables.sidReadDTC
  routine := Gen.C16Tables.routineSubFns
  dtcSub := Gen.C16Tables.dtcSubFn
  saRange := Gen.C16Tables.saRange
  subRange := Gen.C16Tables.subRange

theorem tables_agree : genTables = isoTables := by decide

end Gallia.C16
