import Gallia.Model.Randomize
import Gallia.Proofs.Lemmas.Randomize
import Gallia.Proofs.Lemmas.RandomizeDict
import Gallia.Proofs.Lemmas.RandomizeSpec
import Gallia.Proofs.Lemmas.PySet
import Gallia.Proofs.Lemmas.RandomizePy
import Gallia.Proofs.Lemmas.RandomizePrefix
import Gallia.Gen.C16Tables
import Gallia.Model.VEcuRng
import Gallia.Proofs.Lemmas.VEcuRng
import Gallia.Gen.C16Handlers
/-
  C16 — a random virtual ECU is fully determined by its seed and arguments; its model is well-formed.

  The theorems are about `randomizeGen tb p o` (Model/Randomize.lean): the code of `RandomUDSServer.randomize` with
  the random number generator replaced by arbitrary oracles `o` (draw stream, `choice` indices, set iteration
  order).  Being statements for **all** oracles they hold for every seed.  Determinism proper ("nothing but seed and
  arguments is consulted") cannot be a Lean theorem about Python processes; it is carried by the correspondence
  (recorded-draw replay and cross-process transcripts, harness/props/C16.py).
-/
namespace Gallia.C16
open Gallia.Randomize

/-! ### (T) tables -/

/-- the tables the code reads today (regenerated from the working tree on every run) -/
def genTables : Tables where
  subFn := Gen.C16Tables.subFnServices
  tp := Gen.C16Tables.sidTesterPresent
  dsc := Gen.C16Tables.sidDSC
  sa := Gen.C16Tables.sidSecurityAccess
  rc := Gen.C16Tables.sidRoutineControl
  dtc := Gen.C16Tables.sidReadDTC
  routine := Gen.C16Tables.routineSubFns
  dtcSub := Gen.C16Tables.dtcSubFn
  saRange := Gen.C16Tables.saRange
  subRange := Gen.C16Tables.subRange

/-- the hand-written tables of the model are the ones the code uses -/
theorem tables_agree : genTables = isoTables := by decide

theorem constants_agree :
    Gen.C16Tables.nSessions = nSessions ∧ Gen.C16Tables.defaultSession = defaultSession ∧
    Gen.C16Tables.ladder =
      ["TesterPresent", "DiagnosticSessionControl", "SecurityAccess", "RoutineControl", "ReadDTCInformation"] := by
  decide

theorem isoTables_wf : isoTables.WF := ⟨by decide, by decide⟩

variable {tb : Tables} {p : Params} {o : Oracles}

/-! ### headline theorems: for every draw stream, choice oracle and iteration order -/

/-- the default session is always offered (no precondition at all) -/
theorem default_present : Offered (randomizeGen tb p o).model defaultSession :=
  model_has tb p o (by decide) (transitions_inv p o).1.dflt

/-- every mandatory session is offered -/
theorem mandatory_present (hp : ParamsWF p) :
    ∀ s ∈ p.mandatorySessions, Offered (randomizeGen tb p o).model s := by
  intro s hs
  exact (offered_iff hp s).2 ((transitions_inv p o).2 s hs)

/-- every offered session offers every mandatory service -/
theorem services_mandatory :
    ∀ s sm, (s, sm) ∈ (randomizeGen tb p o).model → ∀ k ∈ p.mandatoryServices, ∃ v, (k, v) ∈ sm := by
  intro s sm hm k hk
  obtain ⟨_, _, i, rfl⟩ := model_mem tb p o hm
  exact svcMapOf_mandatory tb p o.draw _ s i hk

/-- every offered session can be entered from the default session by DiagnosticSessionControl requests that the
    model answers positively -/
theorem reachable_from_default (htb : tb.WF) (hd : tb.dsc ∈ p.mandatoryServices) (hp : ParamsWF p) :
    ∀ s, Offered (randomizeGen tb p o).model s → Reach (DscEdge tb (randomizeGen tb p o).model) defaultSession s := by
  intro s hs
  have := (transitions_inv p o).1.reach s ((offered_iff hp s).1 hs)
  exact this.mono (fun a b e => (edge_iff htb hd hp a b).2 e)

/-- every offered session lists the default session among its DiagnosticSessionControl sub-functions -/
theorem returns_to_default (htb : tb.WF) (hd : tb.dsc ∈ p.mandatoryServices) (hp : ParamsWF p) :
    ∀ s, Offered (randomizeGen tb p o).model s → DscEdge tb (randomizeGen tb p o).model s defaultSession := by
  intro s hs
  exact (edge_iff htb hd hp s defaultSession).2 ((transitions_inv p o).1.ret s ((offered_iff hp s).1 hs))

/-- whatever DiagnosticSessionControl lists as a sub-function is an offered session (also when the service is only
    optional): a positive session change never leaves the model -/
theorem dsc_subfns_are_sessions (htb : tb.WF) (hp : ParamsWF p) :
    ∀ a sm l b, (a, sm) ∈ (randomizeGen tb p o).model → (tb.dsc, some l) ∈ sm → b ∈ l →
      Offered (randomizeGen tb p o).model b := by
  intro a sm l b hm hl hb
  obtain ⟨_, _, i, rfl⟩ := model_mem tb p o hm
  have := svcMapOf_dsc_value htb p o.draw _ a i hl
  simp at this
  rw [this] at hb
  exact (offered_iff hp b).2 ((transitions_inv p o).1.closed a b hb)

/-- nothing is invented: offered sessions come from the argument lists (or are the default session), offered
    services come from the argument lists, and a service carries a sub-function list iff it is a sub-function service -/
theorem nothing_invented :
    ∀ s sm, (s, sm) ∈ (randomizeGen tb p o).model →
      (s = defaultSession ∨ s ∈ p.mandatorySessions ∨ s ∈ p.optionalSessions) ∧ s < nSessions ∧
      ∀ k v, (k, v) ∈ sm → (k ∈ p.mandatoryServices ∨ k ∈ p.optionalServices) ∧ (v.isSome = tb.subFn.contains k) := by
  intro s sm hm
  obtain ⟨hlt, hne, i, rfl⟩ := model_mem tb p o hm
  refine ⟨?_, hlt, ?_⟩
  · rcases (transitions_inv p o).1.src s hne with h | h
    · exact Or.inl h
    · exact Or.inr (List.mem_append.1 h)
  · intro k v hkv
    obtain ⟨hk, j, rfl⟩ := svcMapOf_entry tb p o.draw _ s i hkv
    exact ⟨hk, subFns_isSome_iff tb o.draw j _ k⟩

/-- the result is a well-formed dict of dicts, whatever the draws: sessions strictly ascending (so unique), service
    keys unique per session, every DiagnosticSessionControl list strictly ascending (= `sorted(set)`, no duplicates).
    Lookups by key are therefore unambiguous (used by the server models of C13 / C14). -/
theorem model_is_dict (htb : tb.WF) :
    ((randomizeGen tb p o).model.map (·.1)).Pairwise (· < ·) ∧
    ∀ s sm, (s, sm) ∈ (randomizeGen tb p o).model →
      (sm.map (·.1)).Nodup ∧ ∀ l, (tb.dsc, some l) ∈ sm → l.Pairwise (· < ·) := by
  refine ⟨?_, ?_⟩
  · rw [model_keys]
    exact List.Pairwise.filter _ List.pairwise_lt_range
  · intro s sm hm
    obtain ⟨_, _, i, rfl⟩ := model_mem tb p o hm
    refine ⟨svcMapOf_nodup tb p o.draw _ s i, ?_⟩
    intro l hl
    have := svcMapOf_dsc_value htb p o.draw _ s i hl
    simp at this
    rw [this]
    exact transitions_sorted p o s

/-! ### the function of DESIGN section 7 (`isoTables`, Boolean stream) -/

/-- well-formedness of a model with respect to the arguments: what the property promises of every virtual ECU -/
structure WellFormed (p : Params) (m : Model) : Prop where
  default_present : Offered m defaultSession
  mandatory_sessions : ∀ s ∈ p.mandatorySessions, Offered m s
  mandatory_services : ∀ s sm, (s, sm) ∈ m → ∀ k ∈ p.mandatoryServices, ∃ v, (k, v) ∈ sm
  reachable : ∀ s, Offered m s → Reach (DscEdge isoTables m) defaultSession s
  returns : ∀ s, Offered m s → DscEdge isoTables m s defaultSession
  dsc_sessions : ∀ a b, DscEdge isoTables m a b → Offered m b

/-- for all seeds (draw streams, choices, iteration orders): the model of the virtual ECU is well-formed -/
theorem randomizeCore_wellFormed (p : Params) (hp : ParamsWF p) (hd : 0x10 ∈ p.mandatoryServices)
    (draws : Nat → Bool) (choice : Nat → Nat) (order : Nat → List Nat) :
    WellFormed p (randomizeCore p draws choice order) := by
  unfold randomizeCore
  exact {
    default_present := default_present
    mandatory_sessions := mandatory_present hp
    mandatory_services := services_mandatory
    reachable := reachable_from_default isoTables_wf hd hp
    returns := returns_to_default isoTables_wf hd hp
    dsc_sessions := fun a b ⟨sm, l, hm, hl, hb⟩ => dsc_subfns_are_sessions isoTables_wf hp a sm l b hm hl hb }

/-! ### the model as a function of (arguments, draws, choices) alone: CPython's set order is computed, not given

  `randomize` (Model/Randomize.lean) keeps `level_sessions` / `next_level_sessions` as `PySet`s - an executable model
  of CPython 3.12's set for ints (Model/PySet.lean) - and walks them in table order, as the `for` loops of the code
  do.  What this buys: the order oracle of `randomizeCore` was a *hidden input* (read from the running interpreter);
  `randomize` has none.  Whatever the interpreter process, hash seed or time - these are not arguments of the
  function - the model is the value of `randomize` at the arguments, the draw stream and the choice stream, and the
  streams are those of `random.Random(str(seed))`. -/

open Gallia.PySet (PySet hashModulus)

/-- `randomize` is the oracle model at the order oracle that replays the PySet run: every theorem for all oracles
    applies to it -/
theorem randomize_is_instance (p : Params) (hp : ParamsWF p) (draws : Nat → Bool) (choice : Nat → Nat) :
    randomize p draws choice = randomizeCore p draws choice (pyOrder p draws choice) :=
  (randomizePyGen_eq isoTables p hp (fun i _ => draws i) choice).1

/-- the same for the counters: the PySet run consumes exactly the draws and choices of the oracle run -/
theorem randomize_counters (tb : Tables) (p : Params) (hp : ParamsWF p) (draw : Nat → Thr → Bool) (choice : Nat → Nat) :
    (randomizePyGen tb p draw choice).draws = (randomizeGen tb p (pyOracles tb p draw choice)).draws ∧
    (randomizePyGen tb p draw choice).choices = (randomizeGen tb p (pyOracles tb p draw choice)).choices ∧
    (randomizePyGen tb p draw choice).levels = (randomizeGen tb p (pyOracles tb p draw choice)).levels :=
  (randomizePyGen_eq tb p hp draw choice).2

/-- for all seeds (draw streams, choice streams) - and no other input: the model of the virtual ECU is well-formed -/
theorem randomize_wellFormed (p : Params) (hp : ParamsWF p) (hd : 0x10 ∈ p.mandatoryServices)
    (draws : Nat → Bool) (choice : Nat → Nat) : WellFormed p (randomize p draws choice) := by
  rw [randomize_is_instance p hp]
  exact randomizeCore_wellFormed p hp hd draws choice _

/-- the result of `randomize` is a well-formed dict of dicts -/
theorem randomize_is_dict (p : Params) (hp : ParamsWF p) (draws : Nat → Bool) (choice : Nat → Nat) :
    ((randomize p draws choice).map (·.1)).Pairwise (· < ·) ∧
    ∀ s sm, (s, sm) ∈ randomize p draws choice → (sm.map (·.1)).Nodup := by
  rw [randomize_is_instance p hp]
  have := model_is_dict (tb := isoTables) (p := p)
    (o := { draw := fun i _ => draws i, choice := choice, order := pyOrder p draws choice }) isoTables_wf
  exact ⟨this.1, fun s sm h => (this.2 s sm h).1⟩

/-- determinism: the model is a function of the arguments, the Boolean draw stream and the choice stream; two runs
    that see pointwise equal streams (two processes seeding `random.Random` with the same string) yield the same
    model.  There is no further argument a hash seed, an import order or a clock could enter through. -/
theorem determinism (p p' : Params) (draws draws' : Nat → Bool) (choice choice' : Nat → Nat) (hp : p = p')
    (hd : ∀ i, draws i = draws' i) (hc : ∀ k, choice k = choice' k) :
    randomize p draws choice = randomize p' draws' choice' ∧ pyOrder p draws choice = pyOrder p' draws' choice' := by
  have e1 : draws = draws' := funext hd
  have e2 : choice = choice' := funext hc
  subst hp e1 e2
  exact ⟨rfl, rfl⟩

/-- finite dependence: the run reads the draw stream only below the number of draws it reports and the choice stream
    only below the number of choices it reports.  Two generators whose streams agree on that prefix - at every call
    site, whatever they return afterwards - produce the same model, the same counters and the same set orders.  The
    recorded-draw replay of the harness feeds exactly this prefix, so it determines the model completely. -/
theorem determinism_prefix (tb : Tables) (p : Params) (draw draw' : Nat → Thr → Bool) (choice choice' : Nat → Nat)
    (hd : ∀ i, i < (randomizePyGen tb p draw choice).draws → ∀ k, draw i k = draw' i k)
    (hc : ∀ j, j < (randomizePyGen tb p draw choice).choices → choice j = choice' j) :
    randomizePyGen tb p draw' choice' = randomizePyGen tb p draw choice :=
  randomizePyGen_prefix tb p draw draw' choice choice' hd hc

/-- ... and the oracle model reproduces it from *any* order oracle that tells the truth about CPython's sets: the
    recorded-order replay of the harness and the order-free replay must agree -/
theorem determinism_order_oracle (p : Params) (hp : ParamsWF p) (draws : Nat → Bool) (choice : Nat → Nat)
    (order : Nat → List Nat) (h : ∀ level, order level = pyOrder p draws choice level) :
    randomizeCore p draws choice order = randomize p draws choice := by
  rw [randomize_is_instance p hp, show order = pyOrder p draws choice from funext h]

/-! ### CPython's set (Model/PySet.lean) against the mathematical set -/

section pyset
open Gallia.PySet

/-- sets built by the modelled operations from ints below `2^61 - 1` (where `hash(n) = n`) -/
inductive Built : PySet → Prop
  | empty : Built PySet.empty
  | add {s x} : Built s → x < hashModulus → Built (PySet.add s x)
  | discard {s x} : Built s → x < hashModulus → Built (PySet.discard s x)
  | update {s xs} : Built s → (∀ x ∈ xs, x < hashModulus) → Built (PySet.update s xs)
  | ofList {xs} : (∀ x ∈ xs, x < hashModulus) → Built (PySet.ofList xs)
  | merge {a b} : Built a → Built b → Built (PySet.merge a b)
  | copy {s} : Built s → Built (PySet.copy s)
  | union {a b} : Built a → Built b → Built (PySet.union a b)
  | difference {a b} : Built a → Built b → Built (PySet.difference a b)
  | differenceUpdate {a b} : Built a → Built b → Built (PySet.differenceUpdate a b)
  | resize {s m} : Built s → 2 * s.used ≤ m → Built (PySet.resize s m)

/-- table invariant by induction over any sequence of operations -/
theorem pyset_invariant {s : PySet} (h : Built s) : PySet.WF s := by
  induction h with
  | empty => exact wf_empty
  | add _ hx ih => exact add_wf ih hx
  | discard _ hx ih => exact discard_wf ih hx
  | update _ hx ih => exact (update_spec _ ih hx).1
  | ofList hx => exact (ofList_spec hx).1
  | merge _ _ iha ihb => exact (merge_spec iha ihb).1
  | copy _ ih => exact (copy_spec ih).1
  | union _ _ iha ihb => exact (union_spec iha ihb).1
  | difference _ _ iha ihb => exact (difference_spec iha ihb).1
  | differenceUpdate _ _ iha ihb => exact (differenceUpdate_spec iha ihb).1
  | resize _ hm ih => exact (resize_wf ih.wf0 (extra := 0) (by simpa using hm)).1

/-- what the invariant says in terms of the C fields: the table has `2^k >= 8` entries, `used <= fill`, the load factor
    is below 3/5 (so an unused entry always exists and probing terminates), `len(s)` is the number of elements iterated -/
theorem pyset_load_factor {s : PySet} (h : Built s) :
    (∃ k, 3 ≤ k ∧ s.table.size = 2 ^ k) ∧ s.used ≤ s.fill ∧ s.fill * 5 < (s.table.size - 1) * 3 ∧
      (PySet.toList s).length = s.used ∧ ∃ j, j < s.table.size ∧ slotAt s.table j = .empty := by
  have w := pyset_invariant h
  refine ⟨w.table.pow, ?_, w.load, w.length_toList, w.exists_empty⟩
  rw [w.fill_eq, w.used_eq]
  apply List.countP_mono_left
  intro a _ ha; cases a <;> simp_all [isKey, nonEmpty]

/-- the iteration order lists every element exactly once … -/
theorem toList_nodup {s : PySet} (h : Built s) : (PySet.toList s).Nodup := (pyset_invariant h).toList_nodup

/-- … and `x in s` is membership in it: `list(s)` is a permutation of the elements -/
theorem mem_toList_iff {s : PySet} (h : Built s) {x : Nat} (hx : x < hashModulus) :
    x ∈ PySet.toList s ↔ PySet.contains s x = true := (contains_iff (pyset_invariant h) hx).symm

theorem pyset_add_law {s : PySet} (h : Built s) {x : Nat} (hx : x < hashModulus) (y : Nat) :
    y ∈ PySet.toList (PySet.add s x) ↔ y = x ∨ y ∈ PySet.toList s := mem_add (pyset_invariant h) hx

theorem pyset_discard_law {s : PySet} (h : Built s) {x : Nat} (hx : x < hashModulus) (y : Nat) :
    y ∈ PySet.toList (PySet.discard s x) ↔ y ≠ x ∧ y ∈ PySet.toList s := mem_discard (pyset_invariant h) hx

theorem pyset_update_law {s : PySet} (h : Built s) {xs : List Nat} (hx : ∀ x ∈ xs, x < hashModulus) (y : Nat) :
    y ∈ PySet.toList (PySet.update s xs) ↔ y ∈ PySet.toList s ∨ y ∈ xs := (update_spec xs (pyset_invariant h) hx).2 y

theorem pyset_ofList_law {xs : List Nat} (hx : ∀ x ∈ xs, x < hashModulus) (y : Nat) :
    y ∈ PySet.toList (PySet.ofList xs) ↔ y ∈ xs := (ofList_spec hx).2 y

theorem pyset_union_law {a b : PySet} (ha : Built a) (hb : Built b) (y : Nat) :
    y ∈ PySet.toList (PySet.union a b) ↔ y ∈ PySet.toList a ∨ y ∈ PySet.toList b :=
  (union_spec (pyset_invariant ha) (pyset_invariant hb)).2 y

theorem pyset_merge_law {a b : PySet} (ha : Built a) (hb : Built b) (y : Nat) :
    y ∈ PySet.toList (PySet.merge a b) ↔ y ∈ PySet.toList a ∨ y ∈ PySet.toList b :=
  (merge_spec (pyset_invariant ha) (pyset_invariant hb)).2 y

theorem pyset_difference_law {a b : PySet} (ha : Built a) (hb : Built b) (y : Nat) :
    y ∈ PySet.toList (PySet.difference a b) ↔ y ∈ PySet.toList a ∧ y ∉ PySet.toList b :=
  (difference_spec (pyset_invariant ha) (pyset_invariant hb)).2 y

theorem pyset_differenceUpdate_law {a b : PySet} (ha : Built a) (hb : Built b) (y : Nat) :
    y ∈ PySet.toList (PySet.differenceUpdate a b) ↔ y ∈ PySet.toList a ∧ y ∉ PySet.toList b :=
  (differenceUpdate_spec (pyset_invariant ha) (pyset_invariant hb)).2 y

theorem pyset_copy_law {s : PySet} (h : Built s) (y : Nat) :
    y ∈ PySet.toList (PySet.copy s) ↔ y ∈ PySet.toList s := (copy_spec (pyset_invariant h)).2 y

/-- `set_table_resize` loses no element, invents none, and drops every dummy -/
theorem pyset_resize_preserves {s : PySet} (h : Built s) {m : Nat} (hm : s.used ≤ m) :
    (∀ y, y ∈ PySet.toList (PySet.resize s m) ↔ y ∈ PySet.toList s) ∧
      (PySet.resize s m).used = s.used ∧ (PySet.resize s m).fill = s.used ∧ m < (PySet.resize s m).table.size := by
  obtain ⟨_, a2, a3, a4, a5⟩ := resize_spec (pyset_invariant h).wf0 hm
  exact ⟨a5, a2, a3, a4⟩

/-- the probe loops of `set_lookkey` / `set_add_entry` / `set_insert_clean` are never out of rounds: a lookup in a
    built set stops inside the table, at the key or - iff the key is absent - at an unused entry -/
theorem pyset_probe_terminates {s : PySet} (h : Built s) {x : Nat} (hx : x < hashModulus) :
    ∃ hit, probe (stopLook x) s.table x = some hit ∧ hit.idx < s.table.size ∧
      ((slotAt s.table hit.idx = .empty ∧ x ∉ PySet.toList s) ∨ slotAt s.table hit.idx = .key x) := by
  have w := pyset_invariant h
  obtain ⟨hit, hp, hlt, hc⟩ := look_cases w.table hx w.exists_empty
  exact ⟨hit, hp, hlt, hc.imp (fun ⟨a, b⟩ => ⟨a, fun hm => b (PySet.mem_toList.1 hm)⟩) id⟩

/-- the one set of the code whose elements are not plain ints: the default `optional_services` is
    `list(set(UDSIsoServices) - set(mandatory_services + [NegativeResponse]))`.  `UDSIsoServices` is an `IntEnum`, its
    members hash like their values (`enumHashIsInt`, evaluated on the live enum by the generator), so the order of that
    list is the PySet order - the list read from the live class (regenerated on every run) is the model's -/
theorem default_optional_services_order :
    Gen.C16Tables.enumHashIsInt = true ∧
    defaultOptionalServices Gen.C16Tables.allServices Gen.C16Tables.defaultMandatoryServices
      Gen.C16Tables.sidNegativeResponse = Gen.C16Tables.defaultOptionalServices := by
  decide +kernel

end pyset

/-! ### the executable report the harness evaluates on the implementation's own model -/

/-- soundness of the executable check: when `wfReport` (run by the correspondence harness on `server.services` of the
    real `RandomUDSServer`) shows all six flags, that model is well-formed in the sense of the theorems above.
    `UniqueKeys` holds of anything read from a Python dict of dicts. -/
theorem wfReport_sound (p : Params) (m : Model) (hu : UniqueKeys m)
    (h : wfReport isoTables p m = ⟨true, true, true, true, true, true⟩) : WellFormed p m := by
  have h1 := congrArg WfReport.mandatorySessions h
  have h2 := congrArg WfReport.mandatoryServices h
  have h3 := congrArg WfReport.defaultPresent h
  have h4 := congrArg WfReport.reachable h
  have h5 := congrArg WfReport.returns h
  have h6 := congrArg WfReport.dscAreSessions h
  simp only [wfReport, List.all_eq_true, Bool.and_eq_true] at h1 h2 h3 h4 h5 h6
  have hsess : ∀ {s sm}, (s, sm) ∈ m → s ∈ m.map (·.1) := fun hm => List.mem_map.2 ⟨_, hm, rfl⟩
  refine ⟨offeredB_sound h3, fun s hs => offeredB_sound (h1 s hs), ?_, ?_, ?_, ?_⟩
  · intro s sm hm k hk
    have := h2 (s, sm) hm k hk
    cases hv : lookupSvc sm k with
    | none => simp [hv] at this
    | some v => exact ⟨v, lookupSvc_some hv⟩
  · rintro s ⟨sm, hm⟩
    have := h4.2 s (hsess hm)
    have hseed : ∀ y ∈ [defaultSession], Reach (DscEdge isoTables m) defaultSession y := by
      intro y hy; simp at hy; subst hy; exact .refl _
    exact reachFrom_sound isoTables m defaultSession m.length [defaultSession] hseed s (by simpa using this)
  · rintro s ⟨sm, hm⟩
    have := h5 s (hsess hm)
    exact dscOf_edge (by simpa using this)
  · rintro a b ⟨sm, l, hm, hl, hb⟩
    have := h6 a (hsess hm) b (by rw [dscOf_of_edge hu hm hl]; exact hb)
    exact offeredB_sound this

/-! ### non-vacuity -/

/-- the default arguments of `RandomnessParameters` satisfy the hypotheses -/
def defaultParams : Params :=
  ⟨Gen.C16Tables.defaultMandatorySessions, Gen.C16Tables.defaultOptionalSessions,
   Gen.C16Tables.defaultMandatoryServices, Gen.C16Tables.defaultOptionalServicesSorted⟩

example : ParamsWF defaultParams ∧ 0x10 ∈ defaultParams.mandatoryServices := by decide

/-- a non-trivial instance: with sessions 5 and 0x60 mandatory, every seed yields a model in which both are offered,
    reachable from session 1 and able to return to it -/
example (draws : Nat → Bool) (choice : Nat → Nat) (order : Nat → List Nat) :
    let m := randomizeCore ⟨[5, 0x60], [2, 3], [0x10, 0x3E], [0x22, 0x27]⟩ draws choice order
    Offered m 5 ∧ Reach (DscEdge isoTables m) 1 0x60 ∧ DscEdge isoTables m 5 1 := by
  intro m
  have h := randomizeCore_wellFormed ⟨[5, 0x60], [2, 3], [0x10, 0x3E], [0x22, 0x27]⟩ (by decide) (by decide)
    draws choice order
  exact ⟨h.mandatory_sessions 5 (by decide), h.reachable _ (h.mandatory_sessions 0x60 (by decide)),
    h.returns _ (h.mandatory_sessions 5 (by decide))⟩

/-- non-vacuity of `Built` and the laws: a set that went through collisions, a dummy, the reuse of the dummy and a
    resize; its iteration order is neither insertion order nor sorted -/
example :
    let s := PySet.add (PySet.add (PySet.discard (PySet.ofList [1, 9, 17, 2, 25]) 9) 33) 41
    Built s ∧ PySet.toList s = [1, 2, 33, 41, 17, 25] ∧ s.fill = 6 ∧ s.used = 6 ∧ s.table.size = 32 := by
  refine ⟨?_, by decide +kernel, by decide +kernel, by decide +kernel, by decide +kernel⟩
  exact .add (.add (.discard (.ofList (by decide)) (by decide)) (by decide)) (by decide)

/-- `a - b` on both code paths of `set_difference` (copy + difference_update for a large left operand, filtered
    re-insertion otherwise) -/
example :
    PySet.toList (PySet.difference (PySet.ofList [8, 16, 24, 32, 40, 1, 2, 3]) (PySet.ofList [16])) =
      [32, 1, 2, 3, 8, 40, 24] ∧
    (PySet.difference (PySet.ofList [8, 16, 24, 32, 40, 1, 2, 3]) (PySet.ofList [16])).fill = 8 ∧
    PySet.toList (PySet.difference (PySet.ofList [8, 16, 24]) (PySet.ofList [16, 1])) = [8, 24] := by
  decide +kernel

/-- a concrete run of `randomize`: session 1 reaches 9, 17 and 2 in the first pass; the second pass walks the set
    `{9, 17, 2}` in CPython's order 9, 2, 17 (9 and 17 collide in the 8-entry table) - computed, not given -/
example :
    pyOrder ⟨[1], [9, 17, 2], [0x10], []⟩ (fun i => decide (0 < i ∧ i < 4)) (fun _ => 0) 1 = [9, 2, 17] ∧
    (randomize ⟨[1], [9, 17, 2], [0x10], []⟩ (fun i => decide (0 < i ∧ i < 4)) (fun _ => 0)).map (·.1) =
      [1, 2, 9, 17] := by
  decide +kernel

/-- `determinism_prefix` at work: this run consumes 16 draws and no choice; any stream with the same first 16 draws
    (here: one that answers `true` for ever after) gives the same result -/
example :
    (randomizePyGen isoTables ⟨[1], [9, 17, 2], [0x10], []⟩ (fun i _ => decide (0 < i ∧ i < 4)) (fun _ => 0)).draws = 16 ∧
    randomizePyGen isoTables ⟨[1], [9, 17, 2], [0x10], []⟩ (fun i _ => decide ((0 < i ∧ i < 4) ∨ 16 ≤ i)) (fun _ => 7) =
      randomizePyGen isoTables ⟨[1], [9, 17, 2], [0x10], []⟩ (fun i _ => decide (0 < i ∧ i < 4)) (fun _ => 0) := by
  have h16 : (randomizePyGen isoTables ⟨[1], [9, 17, 2], [0x10], []⟩ (fun i _ => decide (0 < i ∧ i < 4))
      (fun _ => 0)).draws = 16 := by decide +kernel
  have h0 : (randomizePyGen isoTables ⟨[1], [9, 17, 2], [0x10], []⟩ (fun i _ => decide (0 < i ∧ i < 4))
      (fun _ => 0)).choices = 0 := by decide +kernel
  refine ⟨h16, determinism_prefix _ _ _ _ _ _ ?_ ?_⟩
  · intro i hi k
    rw [h16] at hi
    have : ¬ 16 ≤ i := by omega
    simp [this]
  · intro j hj
    rw [h0] at hj
    omega

example (draws : Nat → Bool) (choice : Nat → Nat) :
    let m := randomize ⟨[5, 0x60], [2, 3], [0x10, 0x3E], [0x22, 0x27]⟩ draws choice
    Offered m 5 ∧ Reach (DscEdge isoTables m) 1 0x60 ∧ DscEdge isoTables m 5 1 := by
  intro m
  have h := randomize_wellFormed ⟨[5, 0x60], [2, 3], [0x10, 0x3E], [0x22, 0x27]⟩ (by decide) (by decide) draws choice
  exact ⟨h.mandatory_sessions 5 (by decide), h.reachable _ (h.mandatory_sessions 0x60 (by decide)),
    h.returns _ (h.mandatory_sessions 5 (by decide))⟩

/-! ### the request handlers (Model/VEcuRng.lean): answers are a function of seed, session state and request -/

section handlers
open Gallia.VEcuRng

/-- the AST obligation: the handlers reachable from `respond_after_default`, the expressions that create / seed each of
    their RNG objects, the global names and server attributes they read, the methods they call on the RNG objects, the
    source of `stateful_rng` and of `class RNG`, and the service ids / response codes - regenerated from the working tree
    on every run - are the ones the model was written against.  A handler that starts to draw from the global `random`
    module, `time`, `os.urandom`, `id()`, `hash()` or from an RNG seeded from other expressions changes one of these
    tables. -/
theorem handler_rng_sources_agree :
    Gen.C16Handlers.handlers = declaredHandlers ∧ Gen.C16Handlers.handlerSources = declaredSources ∧
    Gen.C16Handlers.handlerFreeNames = declaredFreeNames ∧ Gen.C16Handlers.handlerDrawCalls = declaredDrawCalls ∧
    Gen.C16Handlers.rngTexts = declaredTexts ∧ Gen.C16Handlers.sids = declaredSids ∧ Gen.C16Handlers.nrcs = declaredNrcs ∧
    Gen.C16Handlers.rapidPowerShutDown = VEcuRng.rapidPowerShutDown :=
  ⟨rfl, rfl, rfl, rfl, rfl, rfl, rfl, rfl⟩

/-- every declared handler has its sources / names / draw calls declared, and the model's dispatch names only those -/
theorem handler_tables_cover (req : Request) :
    handlerName req = "-" ∨ (handlerName req ∈ declaredHandlers ∧ handlerName req ∈ declaredSources.map (·.1)) := by
  cases req <;> simp [handlerName, declaredHandlers, declaredSources]

/-- no SendKey in a history -/
def KeyFree (hist : List Request) : Prop := ∀ r ∈ hist, depOf r ≠ .pendingSeed

/-- Two virtual ECUs started with the same seed and the same arguments - in two processes: the seeded generators agree
    (`random.Random(text)` is a function of the text: `hd`, `hc`, `he`), everything else (the fresh streams behind `RNG()`,
    the ambient streams: global `random`, clock, ...) is arbitrary and different - offer the same model, and after the same
    request history answer the next request identically, up to the bytes of a security-access seed.  Composes the
    determinism of `randomize` with the handler layer.  SendKey is excluded: its answer compares the key with the (fresh)
    seed handed out before, see `sendKey_answer_function_of_pending_seed`. -/
theorem answer_function_of_seed_state_request (seed : Int) (p : Params) (hpar : HParams)
    (md md' : String → Nat → Bool) (mc mc' : String → Nat → Nat)
    (hd : ∀ t i, md t i = md' t i) (hc : ∀ t k, mc t k = mc' t k)
    (chain : Randomize.Model → Nat → Request → Option Reply) (e e' : Env) (he : ∀ t cs, e.rngOf t cs = e'.rngOf t cs)
    (hist : List Request) (hk : KeyFree hist) (next : Request) (hn : depOf next ≠ .pendingSeed) (n n' : Nat) :
    let A := serverOf seed p hpar md mc chain
    let B := serverOf seed p hpar md' mc' chain
    A.services = B.services ∧
    (run A e hist).1 = (run B e' hist).1 ∧
    mask (respond A (e.at n) (run A e hist).2 next).1 = mask (respond B (e'.at n') (run B e' hist).2 next).1 := by
  intro A B
  have hAB : A = B := by
    have e1 : md = md' := funext fun t => funext (hd t)
    have e2 : mc = mc' := funext fun t => funext (hc t)
    subst e1 e2; rfl
  have her : e.rngOf = e'.rngOf := funext fun t => funext (he t)
  rw [← hAB]
  have h := runFrom_rel A e e' her hist hk 0 0 {} {} (Rel.refl _)
  exact ⟨rfl, h.1, (respond_rel A (e.at n) (e'.at n') her h.2 next hn).1.mask⟩

/-- whole transcripts: the masked answers to a SendKey-free history are the same in any two processes -/
theorem transcript_function_of_seed (s : Server) (e e' : Env) (he : e.rngOf = e'.rngOf) (hist : List Request)
    (hk : KeyFree hist) : (run s e hist).1 = (run s e' hist).1 :=
  (runFrom_rel s e e' he hist hk 0 0 {} {} (Rel.refl _)).1

/-- Which answers depend on the request history, and through what.  Every handler seeds through `stateful_rng`, so there
    is no handler that is independent of the state altogether; but for every request except SendKey (`depOf req` is
    `sessionOnly`: ECUReset, RoutineControl, Read / WriteDataByIdentifier, InputOutputControlByIdentifier,
    ClearDiagnosticInformation, ReadDTCInformation, unhandled services; or `fresh`: RequestSeed) the answer sees the history
    through the current session ONLY: two states with the same session - whatever was requested before, whatever
    security-access seed is pending - give the same answer (up to the fresh seed bytes), and with the same fresh stream
    the same answer and the same draws.
    Partial: (full statement: "the answer to request k of a history is independent of all other requests that do not change
    the session") SendKey is the exception by design; the inactivity reset of `UDSServerTransport.handle_request` (a
    clock) and the default chain are outside this model (C13 / C14). -/
theorem answer_independent_of_other_requests_partial (s : Server) (w w' : World) (hw : w.rngOf = w'.rngOf)
    (st st' : State) (hs : st.session = st'.session) (req : Request) (hk : depOf req ≠ .pendingSeed) :
    mask (respond s w st req).1 = mask (respond s w' st' req).1 ∧
    (respond s w st req).1 = (respond s w st' req).1 ∧ (respond s w st req).2.2 = (respond s w st' req).2.2 ∧
    (respond s w st req).2.1.session = (respond s w' st' req).2.1.session :=
  ⟨(respond_reply_of_session s w w' hw hs req hk).mask, (respond_of_session s w hs req hk).1,
   (respond_of_session s w hs req hk).2, respond_session s w w' hs req hk hw⟩

/-- the history version: two SendKey-free histories that end in the same session -/
theorem answer_independent_of_history_partial (s : Server) (e e' : Env) (he : e.rngOf = e'.rngOf) (h1 h2 : List Request)
    (hs : (run s e h1).2.session = (run s e' h2).2.session) (req : Request) (hk : depOf req ≠ .pendingSeed) (n n' : Nat) :
    mask (respond s (e.at n) (run s e h1).2 req).1 = mask (respond s (e'.at n') (run s e' h2).2 req).1 :=
  (respond_reply_of_session s (e.at n) (e'.at n') he hs req hk).mask

/-- Which string seeds the per-request generators: the seed texts of the RNG objects of a handler call, in order, are a
    prefix of `plannedTexts` - a list computed from the server seed, the current session and the request alone (how far
    the handler gets depends on the draws; which texts it uses does not).  `none` (an unseeded `RNG()`) occurs for
    RequestSeed only. -/
theorem seed_texts_function_of_seed_session_request (c : Cfg) (w : World) (sess : Nat) (req : Request) :
    (handler c w sess req).2.map (·.1) <+: plannedTexts c sess req ∧
    (none ∈ plannedTexts c sess req → ∃ t, req = .requestSeed t) := by
  refine ⟨handler_texts c w sess req, ?_⟩
  cases req <;> simp [plannedTexts]

/-- ... and a handler call reads the seeded oracle at those texts only: two oracles that agree on the planned texts of the
    request give the same answer and the same draws, whatever they return for any other text (another session, another
    request, another server seed) and whatever the ambient streams are -/
theorem handler_reads_seeded_streams_of_request_only (c : Cfg) (r r' : String → DrawStream) (f a a' : DrawStream)
    (sess : Nat) (req : Request) (h : ∀ x, some x ∈ plannedTexts c sess req → r x = r' x) :
    handler c ⟨r, f, a⟩ sess req = handler c ⟨r', f, a'⟩ sess req :=
  handler_reads_planned_only c r r' f a a' sess req h

/-- SendKey: the answer is a function of the default chain, the session, the pending security-access answer and the
    request - it looks at no stream at all (no seeded generator, no fresh one, nothing ambient) -/
theorem sendKey_answer_function_of_pending_seed (s : Server) (w w' : World) (st : State) (t : Nat) (key : List Nat) :
    respond s w st (.sendKey t key) = respond s w' st (.sendKey t key) :=
  respond_sendKey s w w' st t key

/-- The global `random` module (and any other ambient source) is irrelevant: every handler is handed the ambient stream
    of its request and the answers, the states and the draws of ANY history - SendKey included, unmasked - do not depend
    on it.  (That the code hands its handlers nothing the model does not is `handler_rng_sources_agree` plus the recorded
    draws of the harness.) -/
theorem global_random_irrelevant (s : Server) (e : Env) (ambient' : Nat → DrawStream) (hist : List Request) :
    run s e hist = run s { e with ambient := ambient' } hist ∧
    ∀ (n : Nat) (st : State) (req : Request),
      respond s (e.at n) st req = respond s (({ e with ambient := ambient' } : Env).at n) st req :=
  ⟨runFrom_ambient s e { e with ambient := ambient' } rfl rfl hist 0 {}, fun n st req => respond_ambient s e.rngOf (e.fresh n) (e.ambient n) (ambient' n) st req⟩

/-- the seed text of `stateful_rng`: server seed, session, `str()` of the arguments - e.g. ECUReset `11 04` in session 3
    of the ECU with seed 42 draws from `random.Random("42|3b'\\x11\\x04'")` -/
example : seedText 42 3 [pyBytesRepr [0x11, 0x04]] = "42|3b'\\x11\\x04'" := by decide

/-- SendKey does depend on the history: nothing pending / the right key / a wrong key -/
example :
    let s : Server := ⟨⟨0, ⟨0, 0, 0⟩⟩, [], fun _ _ _ => none⟩
    let w : World := ⟨fun _ _ => 0, fun _ => 0, fun _ => 0⟩
    (respond s w ⟨1, none⟩ (.sendKey 2 [7, 7])).1 = .neg 0x27 0x24 ∧
    (respond s w ⟨1, some (1, [7, 7])⟩ (.sendKey 2 [7, 7])).1 = .saKey 2 ∧
    (respond s w ⟨1, some (1, [8])⟩ (.sendKey 2 [7, 7])).1 = .neg 0x27 0x35 := by
  decide

/-- the hypotheses are satisfiable by a non-trivial history (session change, reset, seed request, identifier services) -/
example : KeyFree [.other 0x10, .requestSeed 1, .readDataById [0x22, 0xF1, 0x90] 0xF190, .ecuReset [0x11, 4] 4,
    .reportDTCByStatusMask 0xFF] ∧ depOf (.routineControl [0x31, 1, 2, 3] 0x0203 1) ≠ .pendingSeed := by
  constructor
  · intro r hr; simp at hr; rcases hr with h | h | h | h | h <;> subst h <;> simp [depOf]
  · simp [depOf]

end handlers

end Gallia.C16
