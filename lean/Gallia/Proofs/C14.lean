import Gallia.Proofs.Lemmas.VEcuGenuine
import Gallia.Proofs.Lemmas.VEcuModel
import Gallia.Proofs.Lemmas.VEcuSA
import Gallia.Proofs.Lemmas.ServerHist
import Gallia.Proofs.Lemmas.VEcuConn
import Gallia.Gen.C14Handlers
import Gallia.Gen.C14Partial
import Gallia.Model.VEcuPartial
/-
  C14 - the virtual ECU survives any request and the client accepts its answers.

  `VEcu.vecuRespond` (Model/VEcu.lean) is C13's `respond` with every default behaviour on, the raw bit computed by C01's
  parser model `decode`, and the typed handlers of `RandomUDSServer.respond_after_default` (all random decisions a
  per-request oracle `Orc`).  The client is C03's `parsePdu`, "well-formed" is C02's `decodeResp` / `encodeResp`.

  "Neither raises nor drops the connection" is a statement about Python exceptions: the model has the three exception
  sites of the rule chain as outcomes (`Outcome.crash`) and they are proved unreachable; the connection loop
  `TCPUDSServerTransport.handle_client` with its `except` arm and `break`s is `Model/VEcuConn.lean` (last section:
  what ends the loop exactly, the reply line, one `client.request` end to end, nothing stale after a suppressed reply);
  every other exception inside a handler is excluded by the correspondence run (harness/props/C14.py), not by a
  theorem. In that sense the property is *partial*.
-/
namespace Gallia.C14
open Gallia Gallia.Server Gallia.IsoDefault Gallia.VEcu Gallia.UdsMatch

/-! ### (T) the shape of the handlers, regenerated from the AST of server.py on every run -/

/-- the `isinstance` ladder of `respond_after_default`: one branch per constructor group of `typedHandler`, in code
    order; anything else is not handled (generalReject) -/
theorem ladder_agrees : Gen.C14Handlers.ladder = [
    ("isinstance:ECUResetRequest", "ecu_reset"), ("isinstance:_SecurityAccessRequest", "security_access"),
    ("isinstance:RoutineControlRequest", "routine_control"), ("isinstance:ReadDataByIdentifierRequest", "read_data_by_identifier"),
    ("isinstance:WriteDataByIdentifierRequest", "write_data_by_identifier"),
    ("isinstance:InputOutputControlByIdentifierRequest", "input_output_control_by_identifier"),
    ("isinstance:ClearDiagnosticInformationRequest", "clear_diagnostic_information"),
    ("service_id==ReadDTCInformation", "read_dtc_information"), ("else", "None")] := by decide

/-- per handler, in source order: negative response codes, response classes, `isinstance` tests and random draws
    (`random_payload` with its `min_len`) - what `typedHandler` mirrors branch by branch -/
theorem handlers_agree : Gen.C14Handlers.handlers = [
    ("ecu_reset", ["const:EcuResetSubFuncs.enableRapidPowerShutDown", "resp:ECUResetResponse", "draw:randint:0:255",
      "resp:ECUResetResponse"]),
    ("security_access", ["isinstance:RequestSeedRequest", "resp:SecurityAccessResponse", "draw:random_payload:min_len=0",
      "isinstance:SendKeyRequest", "resp:NegativeResponse", "nrc:requestSequenceError", "resp:SecurityAccessResponse",
      "resp:NegativeResponse", "nrc:invalidKey", "raise"]),
    ("routine_control", ["draw:random_bool", "resp:NegativeResponse", "nrc:requestOutOfRange", "draw:random_bool",
      "resp:NegativeResponse", "nrc:subFunctionNotSupported", "draw:random_bool", "resp:NegativeResponse",
      "nrc:incorrectMessageLengthOrInvalidFormat", "resp:RESPONSE_TYPE", "draw:random_payload:min_len=0"]),
    ("read_data_by_identifier", ["draw:random_bool", "resp:NegativeResponse", "nrc:requestOutOfRange",
      "resp:ReadDataByIdentifierResponse", "draw:random_payload:min_len=1"]),
    ("write_data_by_identifier", ["draw:random_bool", "resp:NegativeResponse", "nrc:requestOutOfRange", "draw:random_bool",
      "resp:NegativeResponse", "nrc:incorrectMessageLengthOrInvalidFormat", "resp:WriteDataByIdentifierResponse"]),
    ("input_output_control_by_identifier", ["draw:random_bool", "resp:NegativeResponse", "nrc:requestOutOfRange",
      "draw:random_bool", "resp:NegativeResponse", "nrc:incorrectMessageLengthOrInvalidFormat", "resp:RESPONSE_TYPE",
      "draw:random_payload:min_len=1"]),
    ("clear_diagnostic_information", ["draw:random_bool", "resp:NegativeResponse", "nrc:requestOutOfRange",
      "resp:ClearDiagnosticInformationResponse"]),
    ("read_dtc_information", ["isinstance:ReportDTCByStatusMaskRequest", "draw:randint:0:255", "draw:expovariate",
      "draw:randint:0:16777215", "draw:randint:0:255", "resp:ReportDTCByStatusMaskResponse", "resp:NegativeResponse",
      "nrc:subFunctionNotSupported"])] := by decide

/-- the values behind the names: response codes, the two sub-function constants, the `RESPONSE_TYPE` of the request
    classes the dynamic parser returns (first byte and sub-function of the reply the handler builds), the defaults of
    `random_payload` -/
theorem handler_constants_agree :
    Gen.C14Handlers.nrc = [("incorrectMessageLengthOrInvalidFormat", nrcLength.toNat), ("invalidKey", nrcInvalidKey.toNat),
      ("requestOutOfRange", nrcOutOfRange.toNat), ("requestSequenceError", nrcSequence.toNat),
      ("subFunctionNotSupported", VEcu.nrcSFNS.toNat)] ∧
    Gen.C14Handlers.consts = [("EcuResetSubFuncs.enableRapidPowerShutDown", rapidPowerShutDown),
      ("ReadDTCInformationSubFuncs.reportDTCByStatusMask", dtcByStatusMask)] ∧
    Gen.C14Handlers.responseTypes = [
      ("31010000", "StartRoutineRequest", "StartRoutineResponse", 0x71, some 1),
      ("31020000", "StopRoutineRequest", "StopRoutineResponse", 0x71, some 2),
      ("31030000", "RequestRoutineResultsRequest", "RequestRoutineResultsResponse", 0x71, some 3),
      ("2f000000", "InputOutputControlByIdentifierRequest", "InputOutputControlByIdentifierResponse", 0x6F, none),
      ("2f000003aa", "InputOutputControlByIdentifierRequest", "InputOutputControlByIdentifierResponse", 0x6F, none),
      ("190200", "ReportDTCByStatusMaskRequest", "ReportDTCByStatusMaskResponse", 0x59, some 2)] ∧
    Gen.C14Handlers.randomPayloadDefaults = [("min_len", "0"), ("max_len", "None")] := by decide

/-! ### one exchange -/

/-- the classification handed to C13's chain (`update_state`, suppression) keeps the bytes of the typed response -/
theorem coarse_keeps_bytes (x : UdsResp.Resp) : (coarse x).pdu = UdsResp.encodeResp x := coarse_pdu x

/-- what the ECU sends (before suppression) is the ISO answer of C13 with the typed handler plugged in; when the
    request parses it is the image of the typed answer -/
theorem answer_of_reply (m : Model) (o : Orc) (st st' : SrvState) (b : Bytes) (x : Server.Resp) (hr : Ready m st)
    (hb : b ≠ []) (h : vecuRespond m o st b = .ok st' (some x)) :
    x = isoAnswer m (vecuHandler o) st (mkReq b) := by
  unfold vecuRespond at h
  rw [C13.respond_default_iso m _ st (mkReq b) hr hb] at h
  simp only [isoDefault, Outcome.ok.injEq] at h
  obtain ⟨_, h2⟩ := h
  split at h2
  · cases h2
  · exact (Option.some.inj h2).symm

/-- **the reply is genuine**: whatever the ECU sends back to non-empty request bytes `b` is, in the vocabulary of
    C03's specification, a genuine reply to the request C01's parser reads from `b` - a negative response naming
    the request's service with a listed code, or the decodable positive response of that service echoing the
    request's primary identifier. For every model, state whose session is offered, and oracle. -/
theorem server_reply_genuine (m : Model) (o : Orc) (st st' : SrvState) (b : Bytes) (x : Server.Resp) (hr : Ready m st)
    (hb : b ≠ []) (h : vecuRespond m o st b = .ok st' (some x)) :
    Reply.Genuine (UdsReq.decode b) x.pdu := by
  rw [answer_of_reply m o st st' b x hr hb h]
  have hwf := dec_wf b
  have henc := enc_dec b
  obtain ⟨s, hs⟩ : ∃ s, Reply.reqSid (UdsReq.decode b) = some s := by
    unfold Reply.reqSid; rw [henc]
    cases b with
    | nil => exact absurd rfl hb
    | cons a t => exact ⟨a, rfl⟩
  have hsid : (mkReq b).sid = s.toNat := by
    have := sidOf_eq hs
    unfold sidOf at this
    rw [henc] at this
    subst this
    simp [Server.Req.sid, mkReq]
  unfold isoAnswer
  cases hn : isoNegative m st (mkReq b) with
  | some n =>
    -- one of the six general negative rules
    simp only
    have hmem : n ∈ [0x11, 0x7F, 0x13, 0x12, 0x7E] := by
      unfold isoNegative at hn
      cases hf : isoRules.find? (fun ru => ru.applies m st (mkReq b)) with
      | none => simp [hf] at hn
      | some ru =>
        simp only [hf, Option.map_some, Option.some.injEq] at hn
        have := List.mem_of_find?_eq_some hf
        subst hn
        simp only [isoRules, List.mem_cons, List.not_mem_nil, or_false] at this
        rcases this with rfl | rfl | rfl | rfl | rfl | rfl <;> simp
    have hlt : n < 256 := by
      simp only [List.mem_cons, List.not_mem_nil, or_false] at hmem
      rcases hmem with rfl | rfl | rfl | rfl | rfl <;> decide
    have hn' : (UInt8.ofNat n).toNat ∈ UdsResp.nrcTable := by
      simp only [List.mem_cons, List.not_mem_nil, or_false] at hmem
      rcases hmem with rfl | rfl | rfl | rfl | rfl <;> decide
    have := (genuine_neg _ s hs (UInt8.ofNat n) hn').2
    rw [sidOf_eq hs] at this
    simpa [Server.Resp.pdu, hsid, UdsResp.encodeResp] using this
  | none =>
    simp only
    -- no general rule applies: the request parsed
    have hraw : (UdsReq.decode b).isRaw = false := by
      unfold isoNegative at hn
      have hall := List.find?_eq_none.mp (by simpa using hn)
      have := hall ⟨"incorrectMessageLengthOrInvalidFormat (request does not parse)", 0x13, fun _ _ r => r.raw⟩
        (by simp [isoRules])
      simpa [mkReq] using this
    have hdec : UdsReq.decode (UdsReq.encode (UdsReq.decode b)) = UdsReq.decode b := by rw [henc]
    have hreq : mkReq b = ⟨UdsReq.encode (UdsReq.decode b), false⟩ := by simp [mkReq, henc, hraw]
    rw [hreq, isoService_typed o st _ hwf hraw hdec, coarse_pdu]
    exact (typedAnswer_ok o st _ hwf hraw).2

/-- **the client accepts the reply as the answer to exactly that request**: `parse_pdu(reply, r)` returns the decoded
    reply for *every* request object `r` whose bytes are `b` (typed or raw, whatever its suppress flag says) -/
theorem server_reply_accepted (m : Model) (o : Orc) (st st' : SrvState) (b : Bytes) (x : Server.Resp) (hr : Ready m st)
    (hb : b ≠ []) (h : vecuRespond m o st b = .ok st' (some x)) :
    ∀ r : UdsReq.Req, UdsReq.encode r = b → ∃ y, parsePdu x.pdu r = .accepted y := by
  intro r hrb
  obtain ⟨y, _, hy⟩ := C03.genuine_accepted _ (dec_wf b) x.pdu (server_reply_genuine m o st st' b x hr hb h)
  refine ⟨y, ?_⟩
  rw [C03.parsePdu_bytes r (UdsReq.decode b) (by rw [hrb, enc_dec]) x.pdu]
  exact hy

/-- **the reply is a well-formed UDS response**: its bytes decode to a typed (never an opaque) ... response object
    of C02 that satisfies the class's field constraints and re-encodes to exactly the bytes sent -/
theorem reply_well_formed (m : Model) (o : Orc) (st st' : SrvState) (b : Bytes) (x : Server.Resp) (hr : Ready m st)
    (hb : b ≠ []) (h : vecuRespond m o st b = .ok st' (some x)) :
    ∃ y, UdsResp.decodeResp x.pdu = .ok y ∧ y.WF ∧ UdsResp.encodeResp y = x.pdu := by
  obtain ⟨y, hy, _⟩ := C03.genuine_accepted _ (dec_wf b) x.pdu (server_reply_genuine m o st st' b x hr hb h)
  exact ⟨y, hy, C02.decodeResp_wf _ _ hy, C02.encodeResp_decodeResp _ _ hy⟩

/-- the client's verdict as the driver prints it -/
theorem client_verdict_accepted (m : Model) (o : Orc) (st st' : SrvState) (b : Bytes) (x : Server.Resp) (hr : Ready m st)
    (hb : b ≠ []) (h : vecuRespond m o st b = .ok st' (some x)) : ∃ y, clientVerdict x.pdu b = .accepted y :=
  server_reply_accepted m o st st' b x hr hb h _ (enc_dec b)

/-- a reply is withheld only for a parsed request of a service with sub-function whose suppress bit is set - never for
    bytes that do not parse, never a negative one -/
theorem silence_only_on_suppress_bit (m : Model) (o : Orc) (st st' : SrvState) (b : Bytes) (hr : Ready m st) (hb : b ≠ [])
    (h : vecuRespond m o st b = .ok st' none) :
    (UdsReq.decode b).isRaw = false ∧ (mkReq b).hasSubFn = true ∧ 128 ≤ (b.getD 1 0).toNat ∧
      (isoAnswer m (vecuHandler o) st (mkReq b)).isNeg = false := by
  unfold vecuRespond at h
  have := (C13.suppress_iff m (vecuHandler o) st (mkReq b) hr hb).mp ⟨st', h⟩
  obtain ⟨h1, h2⟩ := this
  simp only [isoSuppressBit, Bool.and_eq_true, decide_eq_true_eq] at h2
  refine ⟨?_, h2.1, by simpa [mkReq] using h2.2, h1⟩
  cases hraw : (UdsReq.decode b).isRaw with
  | false => rfl
  | true =>
    have := isoAnswer_neg_of_raw m (vecuHandler o) st (mkReq b) (by simp [mkReq, hraw])
    rw [this] at h1; cases h1

/-! ### never raises (as far as the model has exceptions), never leaves the offered sessions -/

/-- no request hits one of the two `assert`s or the index error of the rule chain -/
theorem never_raises (m : Model) (o : Orc) (st : SrvState) (b : Bytes) (hr : Ready m st) (hb : b ≠ []) (c : Crash) :
    vecuRespond m o st b ≠ .crash c :=
  C13.respond_never_crashes_allOn m (vecuHandler o) st (mkReq b) hr hb c

/-- one request at any time (inactivity reset included): the session afterwards is one the model offers -/
theorem never_leaves (m : Model) (o : Orc) (ts : TState) (now : Nat) (b : Bytes) (hm : ModelOK m)
    (hr : Ready m ts.st) (hb : b ≠ []) : Ready m (vecuHandleAt m ts now b o).1.st :=
  C13.session_stays_offered m (vecuHandler o) ts now (mkReq b) hr hm.closed hb
    (fun st x hx => vecuHandler_ne_dsc o st _ x hx)

/-- **after any history** of non-empty requests, at any times, each with its own oracle: the state is still one
    whose session the model offers -/
theorem history_stays_offered (m : Model) (hm : ModelOK m) :
    ∀ (hist : List (Nat × Bytes × Orc)) (ts : TState), Ready m ts.st → (∀ p ∈ hist, p.2.1 ≠ []) →
      Ready m (vecuRun m ts hist).st := by
  intro hist
  induction hist with
  | nil => intro ts hr _; exact hr
  | cons p rest ih =>
    intro ts hr hall
    obtain ⟨now, b, o⟩ := p
    simp only [vecuRun]
    apply ih
    · exact never_leaves m o ts now b hm hr (hall (now, b, o) (by simp))
    · intro q hq; exact hall q (by simp [hq])

/-- ... in particular from the initial state of a freshly started ECU, and the session identifier still fits the byte
    it is reported in -/
theorem history_session_offered (m : Model) (hm : ModelOK m) (hist : List (Nat × Bytes × Orc)) (t0 : Nat)
    (hall : ∀ p ∈ hist, p.2.1 ≠ []) :
    (vecuRun m ⟨SrvState.init, t0⟩ hist).st.session ∈ m.sessions ∧ (vecuRun m ⟨SrvState.init, t0⟩ hist).st.session < 128 := by
  have := history_stays_offered m hm hist ⟨SrvState.init, t0⟩ hm.ready_init hall
  exact ⟨this.sess, hm.small _ this.sess⟩

/-- ... and no request of the history, nor the next one, raises (assert / index error of the chain) -/
theorem history_never_crashes (m : Model) (hm : ModelOK m) (hist : List (Nat × Bytes × Orc)) (ts : TState)
    (hr : Ready m ts.st) (hall : ∀ p ∈ hist, p.2.1 ≠ []) (now : Nat) (b : Bytes) (o : Orc) (hb : b ≠ []) (c : Crash) :
    (vecuHandleAt m (vecuRun m ts hist) now b o).2 ≠ .crash c := by
  have hr' := history_stays_offered m hm hist ts hr hall
  generalize vecuRun m ts hist = ts' at hr'
  have hr0 : Ready m (if now - ts'.lastActive > idleLimit then ts'.st.reset else ts'.st) := by
    split
    · exact ⟨hr'.wf, hm.closed.dflt, hr'.listed⟩
    · exact hr'
  unfold vecuHandleAt handleAt
  simp only
  generalize (if now - ts'.lastActive > idleLimit then ts'.st.reset else ts'.st) = st0 at hr0
  cases hres : respond allOn m (vecuHandler o) st0 (mkReq b) with
  | crash c' => exact absurd hres (C13.respond_never_crashes_allOn m _ st0 _ hr0 hb c')
  | ok st' reply => simp

/-- **the headline**: start the ECU with any model `ModelOK`, send any history of non-empty requests at any times,
    then any non-empty request `b`: if the ECU answers, the client accepts the answer as the reply to every request
    object with bytes `b`, and the answer is a well-formed response -/
theorem history_reply_accepted (m : Model) (hm : ModelOK m) (hist : List (Nat × Bytes × Orc)) (t0 : Nat)
    (hall : ∀ p ∈ hist, p.2.1 ≠ []) (now : Nat) (b : Bytes) (o : Orc) (hb : b ≠ []) (st' : SrvState) (x : Server.Resp)
    (h : (vecuHandleAt m (vecuRun m ⟨SrvState.init, t0⟩ hist) now b o).2 = .ok st' (some x)) :
    (∀ r : UdsReq.Req, UdsReq.encode r = b → ∃ y, parsePdu x.pdu r = .accepted y) ∧
    (∃ y, UdsResp.decodeResp x.pdu = .ok y ∧ y.WF ∧ UdsResp.encodeResp y = x.pdu) := by
  have hr' := history_stays_offered m hm hist ⟨SrvState.init, t0⟩ hm.ready_init hall
  generalize vecuRun m ⟨SrvState.init, t0⟩ hist = ts' at hr' h
  have hr0 : Ready m (if now - ts'.lastActive > idleLimit then ts'.st.reset else ts'.st) := by
    split
    · exact ⟨hr'.wf, hm.closed.dflt, hr'.listed⟩
    · exact hr'
  unfold vecuHandleAt handleAt at h
  simp only at h
  generalize (if now - ts'.lastActive > idleLimit then ts'.st.reset else ts'.st) = st0 at hr0 h
  have hresp : vecuRespond m o st0 b = .ok st' (some x) := by
    unfold vecuRespond
    cases hres : respond allOn m (vecuHandler o) st0 (mkReq b) with
    | crash c => rw [hres] at h; simp at h
    | ok s rep => rw [hres] at h; simpa using h
  exact ⟨server_reply_accepted m o st0 st' b x hr0 hb hresp, reply_well_formed m o st0 st' b x hr0 hb hresp⟩

/-- histories with one oracle for all requests are C13's `run` -/
theorem vecuRun_const (m : Model) (o : Orc) (hist : List (Nat × Bytes)) (ts : TState) :
    vecuRun m ts (hist.map (fun p => (p.1, p.2, o))) =
      Server.run allOn m (vecuHandler o) ts (hist.map (fun p => (p.1, mkReq p.2))) := by
  induction hist generalizing ts with
  | nil => rfl
  | cons p rest ih => simp only [List.map_cons, vecuRun, Server.run, vecuHandleAt, ih]

/-! ### SecurityAccess is C13's seed / key sequencing -/

/-- on every request the typed handler equals C13's `rndHandler` wrapped around it, the seed being the oracle's
    `random_payload()`: requestSeed answers with a fresh seed, sendKey is checked against the last SecurityAccess reply
    (right level, identity key) - so C13's statements about `rndHandler` apply to the typed ECU -/
theorem security_access_as_c13 (o : Orc) (st : SrvState) (b : Bytes) :
    vecuHandler o st (mkReq b) = rndHandler (vecuHandler o) (fun _ _ => o.randomPayload 0) st (mkReq b) := by
  cases hraw : (UdsReq.decode b).isRaw with
  | true => simp [rndHandler, mkReq, hraw]
  | false =>
    have henc := enc_dec b
    have hreq : mkReq b = ⟨UdsReq.encode (UdsReq.decode b), false⟩ := by simp [mkReq, henc, hraw]
    rw [hreq]
    exact vecuHandler_typed o st _ (dec_wf b) hraw (by rw [henc])

/-! ### the session identifier is reported exactly -/

/-- reading identifier 0xF186 (alone or first of several) when the service is offered: the data byte *is* the active
    session (no wrap-around: `ModelOK` keeps sessions below 0x80) -/
theorem session_read_exact (m : Model) (hm : ModelOK m) (o : Orc) (st : SrvState) (hs : st.session ∈ m.sessions)
    (more : List Nat) :
    typedAnswer o st (.rdbi (0xF186 :: more)) = .rdbi 0xF186 [UInt8.ofNat st.session] ∧
      (UInt8.ofNat st.session).toNat = st.session := by
  refine ⟨by simp [typedAnswer], ?_⟩
  have hlt : st.session < 128 := hm.small _ hs
  have hmod : st.session % 256 = st.session := Nat.mod_eq_of_lt (Nat.lt_trans hlt (by decide))
  simpa using hmod

/-! ### the models the real virtual ECU can have -/

/-- **every model `RandomUDSServer.randomize` can build** - for all draw streams, `choice` answers and set iteration
    orders, for every argument set whose session identifiers index `session_transitions` - satisfies the hypotheses of
    the theorems above: it is a dict (`Model.WF`), closed under session control from the default session (C13's
    `Closed`), its sub-function services carry lists and its sessions are below 0x80; the initial state is `Ready` -/
theorem randomize_model_ok (p : Randomize.Params) (hp : Randomize.ParamsWF p) (draws : Nat → Bool) (choice : Nat → Nat)
    (order : Nat → List Nat) :
    let m := Model.ofAssoc (Randomize.randomizeCore p draws choice order)
    m.WF ∧ C13.Closed m ∧ ModelOK m ∧ Ready m SrvState.init := by
  intro m
  have h : ModelOK m := randomize_ok p _ hp
  exact ⟨h.wf, h.closed, h, h.ready_init⟩

/-- the same for the general form of the model (any table set is not needed: the code's tables are `isoTables`, C16's
    `tables_agree`), per oracle structure -/
theorem randomizeGen_model_ok (p : Randomize.Params) (hp : Randomize.ParamsWF p) (orc : Randomize.Oracles) :
    ModelOK (Model.ofAssoc (Randomize.randomizeGen Randomize.isoTables p orc).model) := randomize_ok p orc hp

/-- the executable checks the driver prints for the concrete models of the tie are sound -/
theorem checks_sound (a : Assoc) (st : SrvState) :
    (modelOKB a = true → ModelOK (Model.ofAssoc a)) ∧ (readyB a st = true → Ready (Model.ofAssoc a) st) ∧
    (closedB a = true → C13.Closed (Model.ofAssoc a)) :=
  ⟨modelOKB_sound a, readyB_sound a st, closedB_sound a⟩

/-! ### the hypotheses are satisfiable, every handler branch is exercised: a concrete ECU -/

/-- two sessions; the handled services in the default session, SecurityAccess level 1 in session 3 -/
def exA : Assoc :=
  [(1, [(0x10, some [1, 3]), (0x11, some [1, 4]), (0x3E, some [0]), (0x22, none), (0x2E, none), (0x2F, none), (0x14, none),
        (0x19, some [1, 2]), (0x28, some [0]), (0x31, some [1, 2, 3])]),
   (3, [(0x10, some [1, 3]), (0x27, some [1, 2]), (0x3E, some [0]), (0x22, none)])]

def exM : Model := Model.ofAssoc exA
def s1 : SrvState := ⟨1, none, none⟩
def s3 : SrvState := ⟨3, none, none⟩

example : ModelOK exM := modelOKB_sound exA (by decide)
example : Ready exM s1 ∧ Ready exM s3 := ⟨readyB_sound exA s1 (by decide), readyB_sound exA s3 (by decide)⟩
/-- a model outside the hypotheses (session control without a list; a listed session that is not offered) -/
example : modelOKB [(1, [(0x10, none)])] = false ∧ modelOKB [(1, [(0x10, some [1, 2])])] = false := by decide

/-- what one exchange looks like from outside: reply bytes and the client's verdict on them -/
def exchange (o : Orc) (st : SrvState) (b : Bytes) : Option (SrvState × Option (Bytes × Bool)) :=
  match vecuRespond exM o st b with
  | .ok st' none => some (st', none)
  | .ok st' (some x) => some (st', some (x.pdu, match clientVerdict x.pdu b with | .accepted _ => true | _ => false))
  | .crash _ => none

-- ecu_reset: enableRapidPowerShutDown carries the powerDownTime byte, hardReset does not
example : exchange { byte := 0xAA } s1 [0x11, 0x04] = some (s1, some ([0x51, 0x04, 0xAA], true)) := by decide +kernel
example : exchange { byte := 0xAA } s1 [0x11, 0x01] = some (s1, some ([0x51, 0x01], true)) := by decide +kernel
-- security_access: seed (random_payload, two bytes), right key, wrong key, key without seed
example : exchange { payLen := 2, payload := [0xAA, 0xBB] } s3 [0x27, 0x01] =
    some (⟨3, none, some (1, [0xAA, 0xBB])⟩, some ([0x67, 0x01, 0xAA, 0xBB], true)) := by decide +kernel
example : exchange {} ⟨3, none, some (1, [0xAA, 0xBB])⟩ [0x27, 0x02, 0xAA, 0xBB] =
    some (⟨3, some 1, some (2, [])⟩, some ([0x67, 0x02], true)) := by decide +kernel
example : exchange {} ⟨3, none, some (1, [0xAA, 0xBB])⟩ [0x27, 0x02, 0xAA, 0xCC] = some (s3, some ([0x7F, 0x27, 0x35], true)) := by
  decide +kernel
example : exchange {} s3 [0x27, 0x02, 0xAA, 0xBB] = some (s3, some ([0x7F, 0x27, 0x24], true)) := by decide +kernel
-- routine_control: the three gates and the positive reply (RESPONSE_TYPE of StartRoutineRequest)
example : exchange { bools := [true, true, true], payLen := 1, payload := [0x7F] } s1 [0x31, 0x01, 0x12, 0x34] =
    some (s1, some ([0x71, 0x01, 0x12, 0x34, 0x7F], true)) := by decide +kernel
example : exchange { bools := [false] } s1 [0x31, 0x01, 0x12, 0x34] = some (s1, some ([0x7F, 0x31, 0x31], true)) := by decide +kernel
example : exchange { bools := [true, false] } s1 [0x31, 0x01, 0x12, 0x34] = some (s1, some ([0x7F, 0x31, 0x12], true)) := by decide +kernel
example : exchange { bools := [true, true, false] } s1 [0x31, 0x01, 0x12, 0x34] = some (s1, some ([0x7F, 0x31, 0x13], true)) := by
  decide +kernel
-- read_data_by_identifier: several identifiers are answered for the first one, min_len = 1 although the length drawn is 0;
-- the session identifier first is answered by the ECU core
example : exchange { bools := [true], payLen := 0, payload := [0x5A] } s1 [0x22, 0xF1, 0x90, 0xF1, 0x86] =
    some (s1, some ([0x62, 0xF1, 0x90, 0x5A], true)) := by decide +kernel
example : exchange { bools := [true] } s1 [0x22, 0xF1, 0x86, 0xF1, 0x90] = some (s1, some ([0x62, 0xF1, 0x86, 0x01], true)) := by
  decide +kernel
-- write_data_by_identifier, input_output_control_by_identifier (generic RESPONSE_TYPE), clear_diagnostic_information
example : exchange { bools := [true, true] } s1 [0x2E, 0xF1, 0x90, 0xAA] = some (s1, some ([0x6E, 0xF1, 0x90], true)) := by decide +kernel
example : exchange { bools := [true, true], payLen := 2, payload := [1, 2] } s1 [0x2F, 0x12, 0x34, 0x03, 0x01] =
    some (s1, some ([0x6F, 0x12, 0x34, 0x01, 0x02], true)) := by decide +kernel
example : exchange { bools := [true] } s1 [0x14, 0xFF, 0xFF, 0xFF] = some (s1, some ([0x54], true)) := by decide +kernel
-- read_dtc_information: a DTC drawn twice keeps its place and takes the later status; other sub-functions fall through
example : exchange { byte := 0x0F, dtcCount := 3, dtcs := [(1, 0xFF), (2, 0x03), (1, 0x10)] } s1 [0x19, 0x02, 0xFF] =
    some (s1, some ([0x59, 0x02, 0x0F, 0, 0, 1, 0x00, 0, 0, 2, 0x03], true)) := by decide +kernel
example : exchange {} s1 [0x19, 0x01, 0xFF] = some (s1, some ([0x7F, 0x19, 0x12], true)) := by decide +kernel
-- suppressed positive reply, unparsable request, offered service without handler, session change
example : exchange {} s1 [0x3E, 0x80] = some (s1, none) := by decide +kernel
example : exchange {} s1 [0x22, 0xF1] = some (s1, some ([0x7F, 0x22, 0x13], true)) := by decide +kernel
example : exchange {} s1 [0x28, 0x00, 0x01] = some (s1, some ([0x7F, 0x28, 0x10], true)) := by decide +kernel
example : exchange {} s1 [0x10, 0x03] = some (s3, some ([0x50, 0x03], true)) := by decide +kernel
-- outside `Ready` the chain's assert is hit: the hypothesis is needed
example : exchange {} ⟨7, none, none⟩ [0x3E, 0x00] = none := by decide +kernel
-- the client's verdict is not vacuous: a foreign identifier and a truncated reply are refused
example : clientVerdict [0x62, 0xF1, 0x91, 0x00] [0x22, 0xF1, 0x90] = .mismatch ∧
    clientVerdict [0x62, 0xF1, 0x90] [0x22, 0xF1, 0x90] = .malformed ∧
    clientVerdict [0x71, 0x02, 0x12, 0x34] [0x31, 0x01, 0x12, 0x34] = .mismatch := by decide +kernel

/-- a history: enter session 3, request a seed, keep alive, send the key - unlocked; 11 s later the state is reset
    before the next request is handled -/
example : (vecuRun exM ⟨SrvState.init, 0⟩
    [(1, [0x10, 0x03], {}), (2, [0x27, 0x01], { payLen := 1, payload := [0x42] }), (3, [0x3E, 0x00], {}),
     (4, [0x27, 0x02, 0x42], {})]).st = ⟨3, some 1, some (2, [])⟩ := by decide +kernel
example : (vecuHandleAt exM ⟨⟨3, some 1, none⟩, 4⟩ 48 [0x22, 0xF1, 0x86] {}).2 =
    .ok ⟨1, none, none⟩ (some (.other [0x62, 0xF1, 0x86, 0x01])) := by decide +kernel

/-! ## whole histories with both clock reads, the negative paths of the handlers, reply lengths -/

theorem handleSE_outcome (b : Behavior) (m : Model) (h : Handler) (ts : TState) (start stop : Nat) (r : Server.Req) :
    (handleSE b m h ts start stop r).2 = (handleAt b m h ts start r).2 ∧
    (handleSE b m h ts start stop r).1.st = (handleAt b m h ts start r).1.st := by
  unfold handleSE handleAt
  simp only
  cases respond b m h (if start - ts.lastActive > idleLimit then ts.st.reset else ts.st) r <;> exact ⟨rfl, rfl⟩

/-- histories as `UDSServerTransport.handle_request` really runs them - the inactivity test on the clock read at the
    start, `last_time_active` the clock read at the end: the session stays offered -/
theorem history_stays_offered_clock (m : Model) (hm : ModelOK m) :
    ∀ (hist : List CItem) (ts : TState), Ready m ts.st → (∀ c ∈ hist, c.bytes ≠ []) →
      Ready m (vecuRunSE allOn m ts hist).st := by
  intro hist
  induction hist with
  | nil => intro ts hr _; exact hr
  | cons c rest ih =>
    intro ts hr hall
    unfold vecuRunSE
    simp only [List.map_cons, runH]
    apply ih
    · have := never_leaves m c.orc ts c.start c.bytes hm hr (hall c (by simp))
      unfold vecuHandleAt at this
      simp only [CItem.toH]
      rw [(handleSE_outcome allOn m _ ts c.start c.stop _).2]
      exact this
    · intro q hq; exact hall q (by simp [hq])

/-- **server_reply_accepted over whole histories with the inactivity rule as coded**: start the ECU with any model
    `ModelOK`, send any history of non-empty requests with any clock readings (each request its own oracle), then any
    non-empty request: if the ECU answers, the client accepts the answer as the reply to every request object with those
    bytes, and the answer is a well-formed response -/
theorem history_reply_accepted_clock (m : Model) (hm : ModelOK m) (hist : List CItem) (t0 : Nat)
    (hall : ∀ c ∈ hist, c.bytes ≠ []) (c : CItem) (hb : c.bytes ≠ []) (st' : SrvState) (x : Server.Resp)
    (h : (vecuHandleSE allOn m (vecuRunSE allOn m ⟨SrvState.init, t0⟩ hist) c).2 = .ok st' (some x)) :
    (∀ r : UdsReq.Req, UdsReq.encode r = c.bytes → ∃ y, parsePdu x.pdu r = .accepted y) ∧
    (∃ y, UdsResp.decodeResp x.pdu = .ok y ∧ y.WF ∧ UdsResp.encodeResp y = x.pdu) := by
  have hr' := history_stays_offered_clock m hm hist ⟨SrvState.init, t0⟩ hm.ready_init hall
  generalize vecuRunSE allOn m ⟨SrvState.init, t0⟩ hist = ts' at hr' h
  unfold vecuHandleSE at h
  rw [(handleSE_outcome allOn m _ ts' c.start c.stop _).1] at h
  have hr0 : Ready m (if c.start - ts'.lastActive > idleLimit then ts'.st.reset else ts'.st) := by
    split
    · exact ⟨hr'.wf, hm.closed.dflt, hr'.listed⟩
    · exact hr'
  unfold handleAt at h
  simp only at h
  generalize (if c.start - ts'.lastActive > idleLimit then ts'.st.reset else ts'.st) = st0 at hr0 h
  have hresp : vecuRespond m c.orc st0 c.bytes = .ok st' (some x) := by
    unfold vecuRespond
    cases hres : respond allOn m (vecuHandler c.orc) st0 (mkReq c.bytes) with
    | crash cr => rw [hres] at h; simp at h
    | ok s rep => rw [hres] at h; simpa using h
  exact ⟨server_reply_accepted m c.orc st0 st' c.bytes x hr0 hb hresp, reply_well_formed m c.orc st0 st' c.bytes x hr0 hb hresp⟩

/-- **the negative paths of every handler**: whatever negative response a handler of `RandomUDSServer` returns - for any
    oracle, state and parsed request - it names the request's service, its code is one of the five the handlers use,
    the regenerated NRC -> exception map has a class for exactly that code (`raise_for_error` cannot KeyError), and the
    client accepts `7F sid nrc` as the (negative) answer to that request -/
theorem handler_negatives_accepted (o : Orc) (st : SrvState) (q : UdsReq.Req) (hq : q.WF) (s n : UInt8)
    (h : typedHandler o st q = some (.neg s n)) :
    s = sidOf q ∧ n ∈ [VEcu.nrcSFNS, VEcu.nrcLength, VEcu.nrcSequence, nrcOutOfRange, VEcu.nrcInvalidKey] ∧
    (∃ e ∈ Gen.C03Tables.exceptionTable, e.1 = n.toNat ∧ e.2.2 = n.toNat) ∧
    parsePdu [0x7F, s, n] q = .accepted (.neg s n) := by
  have h12 : s = sidOf q ∧ n ∈ [VEcu.nrcSFNS, VEcu.nrcLength, VEcu.nrcSequence, nrcOutOfRange, VEcu.nrcInvalidKey] := by
    unfold typedHandler at h
    split at h <;> (try unfold sendKey at h) <;> (try unfold neg at h) <;> (repeat' split at h) <;>
      simp only [Option.some.injEq, UdsResp.Resp.neg.injEq, reduceCtorEq] at h <;>
      first
        | (obtain ⟨h1, h2⟩ := h; subst h1; subst h2; simp)
        | cases h
  obtain ⟨hs, hn⟩ := h12
  have hlisted : n.toNat ∈ UdsResp.nrcTable := by
    simp only [List.mem_cons, List.not_mem_nil, or_false] at hn
    rcases hn with rfl | rfl | rfl | rfl | rfl <;> decide
  obtain ⟨s', hs'⟩ : ∃ s', Reply.reqSid q = some s' := by
    unfold Reply.reqSid
    cases q with
    | raw b =>
      simp only [typedHandler] at h
      split at h
      · rename_i hb
        cases b with
        | nil => simp at hb
        | cons a t => exact ⟨a, rfl⟩
      · cases h
    | clearDDDI d sup => cases d <;> exact ⟨_, rfl⟩
    | _ => exact ⟨_, rfl⟩
  have hgen := (genuine_neg q s' hs' n hlisted).2
  rw [← hs] at hgen
  obtain ⟨y, hy, hacc⟩ := C03.genuine_accepted q hq _ hgen
  have hy' : y = .neg s n := by
    have : UdsResp.decodeResp (UdsResp.encodeResp (.neg s n)) = .ok (.neg s n) :=
      C02.decodeResp_encodeResp (.neg s n) hlisted
    rw [this] at hy; exact (Except.ok.inj hy).symm
  subst hy'
  have hacc' : parsePdu [0x7F, s, n] q = .accepted (.neg s n) := by simpa [UdsResp.encodeResp] using hacc
  exact ⟨hs, hn, (C03.accepted_negative_has_exception q _ s n hacc').2, hacc'⟩

theorem dictPut_length_le (d : List (Nat × UInt8)) (k : Nat) (v : UInt8) : (dictPut d k v).length ≤ d.length + 1 := by
  induction d with
  | nil => simp [dictPut]
  | cons e rest ih =>
    obtain ⟨k', v'⟩ := e
    unfold dictPut
    split <;> simp <;> omega

theorem dtcRecords_length_le (o : Orc) : o.dtcRecords.length ≤ o.dtcCount := by
  unfold Orc.dtcRecords
  have key : ∀ (ps : List (Fin 16777216 × UInt8)) (d : List (Nat × UInt8)),
      (ps.foldl (fun d p => dictPut d p.1.val (p.2 &&& o.byte)) d).length ≤ d.length + ps.length := by
    intro ps
    induction ps with
    | nil => intro d; simp
    | cons p rest ih =>
      intro d
      simp only [List.foldl_cons, List.length_cons]
      have h1 := ih (dictPut d p.1.val (p.2 &&& o.byte))
      have h2 := dictPut_length_le d p.1.val (p.2 &&& o.byte)
      omega
  have := key ((List.range o.dtcCount).map (fun i => o.dtcs.getD i (0, 0))) []
  simpa using this

/-- `d[k] = v` for a key the dict already has does not add an entry -/
theorem dictPut_length_of_mem (d : List (Nat × UInt8)) (k : Nat) (v : UInt8) (h : k ∈ d.map (·.1)) :
    (dictPut d k v).length = d.length := by
  have := congrArg List.length (dictPut_keys d k v)
  simpa [h] using this

theorem dictPut_keys_mono (d : List (Nat × UInt8)) (k : Nat) (v : UInt8) (a : Nat) (h : a ∈ d.map (·.1)) :
    a ∈ (dictPut d k v).map (·.1) := by
  rw [dictPut_keys]; split
  · exact h
  · exact List.mem_append_left _ h

theorem dictPut_key_mem (d : List (Nat × UInt8)) (k : Nat) (v : UInt8) : k ∈ (dictPut d k v).map (·.1) := by
  rw [dictPut_keys]; split
  · assumption
  · simp

/-- a draw list that repeats a DTC (or hits one already in the dict) yields strictly fewer entries than draws -/
theorem dtc_fold_length_lt (mask : UInt8) (ps : List (Fin 16777216 × UInt8)) :
    ∀ d : List (Nat × UInt8),
      (¬ (ps.map (fun p => p.1.val)).Nodup ∨ ∃ p ∈ ps, p.1.val ∈ d.map (·.1)) →
      (ps.foldl (fun d p => dictPut d p.1.val (p.2 &&& mask)) d).length < d.length + ps.length := by
  have bound : ∀ (ps : List (Fin 16777216 × UInt8)) (d : List (Nat × UInt8)),
      (ps.foldl (fun d p => dictPut d p.1.val (p.2 &&& mask)) d).length ≤ d.length + ps.length := by
    intro ps
    induction ps with
    | nil => intro d; simp
    | cons p rest ih =>
      intro d
      simp only [List.foldl_cons, List.length_cons]
      have h1 := ih (dictPut d p.1.val (p.2 &&& mask))
      have h2 := dictPut_length_le d p.1.val (p.2 &&& mask)
      omega
  induction ps with
  | nil => intro d h; simp at h
  | cons p rest ih =>
    intro d h
    simp only [List.foldl_cons, List.length_cons]
    by_cases hk : p.1.val ∈ d.map (·.1)
    · have h1 := bound rest (dictPut d p.1.val (p.2 &&& mask))
      have h2 := dictPut_length_of_mem d p.1.val (p.2 &&& mask) hk
      omega
    · have h2 := dictPut_length_le d p.1.val (p.2 &&& mask)
      have hih : ¬ (rest.map (fun p => p.1.val)).Nodup ∨
          ∃ q ∈ rest, q.1.val ∈ (dictPut d p.1.val (p.2 &&& mask)).map (·.1) := by
        rcases h with h | ⟨q, hq, hqd⟩
        · simp only [List.map_cons, List.nodup_cons] at h
          by_cases hm : p.1.val ∈ rest.map (fun p => p.1.val)
          · obtain ⟨q, hq, hqe⟩ := List.mem_map.1 hm
            exact Or.inr ⟨q, hq, by rw [hqe]; exact dictPut_key_mem d _ _⟩
          · exact Or.inl (fun hn => h ⟨hm, hn⟩)
        · rcases List.mem_cons.1 hq with rfl | hq
          · exact absurd hqd hk
          · exact Or.inr ⟨q, hq, dictPut_keys_mono d _ _ _ hqd⟩
      have := ih _ hih
      omega

/-- **duplicate_dtc_draw_answered**: when the RNG of `read_dtc_information` draws the same 24-bit DTC twice in one
    reportDTCByStatusMask call (passes `i < j` of the loop), the handler still answers positively with the dict-built
    record list: the repeated draw is merged (strictly fewer records than draws), the DTC keys of the list are pairwise
    distinct and below 2^24, i.e. the response object satisfies the field constraints of its class (`Resp.WF`: the
    check the bytes constructor of `_ReadDTCType1Response` makes can not fire), for every state, mask and suppress bit -/
theorem duplicate_dtc_draw_answered (o : Orc) (st : SrvState) (mask : Nat) (sup : Bool) (i j : Nat) (hij : i < j)
    (hj : j < o.dtcCount) (hdup : (o.dtcs.getD i (0, 0)).1 = (o.dtcs.getD j (0, 0)).1) :
    typedHandler o st (.dtcByMask dtcByStatusMask mask sup)
        = some (.dtcList (UdsReq.u8 dtcByStatusMask) o.byte o.dtcRecords) ∧
      o.dtcRecords.length < o.dtcCount ∧
      UdsResp.distinctKeys o.dtcRecords = true ∧ (∀ p ∈ o.dtcRecords, p.1 < 0x1000000) := by
  refine ⟨by simp [typedHandler], ?_, (dtcRecords_ok o).1, (dtcRecords_ok o).2⟩
  have hnd : ¬ (((List.range o.dtcCount).map (fun i => o.dtcs.getD i (0, 0))).map (fun p => p.1.val)).Nodup := by
    intro hn
    have hp := List.pairwise_iff_getElem.1 hn i j (by simp; omega) (by simp; omega) hij
    simp only [List.getElem_map, List.getElem_range] at hp
    exact hp (by rw [hdup])
  have := dtc_fold_length_lt o.byte _ [] (Or.inl hnd)
  simpa [Orc.dtcRecords] using this

/-- non-vacuity: a three-draw oracle whose first and third draw are the same DTC gives a two-record answer -/
example : (({ dtcCount := 3, byte := 0xFF, dtcs := [(5, 1), (7, 2), (5, 4)] } : Orc).dtcRecords) = [(5, 4), (7, 2)] := by
  decide

theorem encRecs_length (l : List (Nat × UInt8)) : (UdsResp.encRecs l).length = 4 * l.length := by
  induction l with
  | nil => rfl
  | cons e rest ih => obtain ⟨d, s⟩ := e; simp [UdsResp.encRecs, ih]; omega

/-- **reply_length_bounds**: no handler builds a reply longer than 4095 bytes (the largest UDS message over ISO-TP)
    as long as the two unbounded draws stay within `random_payload` length <= 4090 and DTC count <= 1023. The code
    draws both from `expovariate`, whose range with Python's 53-bit `random()` ends near 36.7 / lambda: 294 for the
    payload (mean 8) - far inside -, 1837 for the DTC count (mean 50) - a count above 1023 (probability about 1e-9 per
    call) would give a longer reply; the bound on the count is tight (3 + 4 * 1023 = 4095). -/
theorem reply_length_bounds (o : Orc) (st : SrvState) (q : UdsReq.Req) (x : UdsResp.Resp)
    (hp : o.payLen ≤ 4090) (hd : o.dtcCount ≤ 1023) (h : typedHandler o st q = some x) :
    (UdsResp.encodeResp x).length ≤ 4095 := by
  have hpay : ∀ k, k ≤ 1 → (o.randomPayload k).length ≤ 4090 := by
    intro k hk; rw [randomPayload_length]; omega
  have hdtc : (UdsResp.encRecs o.dtcRecords).length ≤ 4092 := by
    rw [encRecs_length]; have := dtcRecords_length_le o; omega
  have h0 := hpay 0 (by omega)
  have h1 := hpay 1 (by omega)
  unfold typedHandler at h
  split at h <;> (try unfold sendKey at h) <;> (try unfold neg at h) <;> (repeat' split at h) <;>
    simp only [Option.some.injEq, reduceCtorEq] at h <;>
    first
      | (subst h; simp [UdsResp.encodeResp] <;> omega)
      | cases h

/-- the hypotheses of `reply_length_bounds` are satisfiable with a long reply, and a handler-level negative reply is
    accepted: 1023 DTC draws that all hit the same DTC collapse into one record -/
example : (UdsResp.encodeResp ((typedHandler { byte := 0xFF, dtcCount := 2, dtcs := [(1, 3), (2, 5)] } s1 (.dtcByMask 2 0xFF false)).getD
    .clearDTC)).length = 11 := by decide +kernel
example : typedHandler { bools := [false] } s1 (.rdbi [0x1234]) = some (.neg 0x22 0x31) ∧
    parsePdu [0x7F, 0x22, 0x31] (.rdbi [0x1234]) = .accepted (.neg 0x22 0x31) := by decide +kernel

/-- a history with distinct clock reads: the key arrives 10 s after the END of the seed request (which took 1 s): still
    answered in the same state, accepted; 0.25 s later it would have hit the inactivity reset -/
example : (vecuHandleSE allOn exM ⟨⟨3, none, some (1, [0x42])⟩, 8⟩ ⟨48, 49, [0x27, 0x02, 0x42], {}⟩).2 =
      .ok ⟨3, some 1, some (2, [])⟩ (some (.sa 2 [])) ∧
    (vecuHandleSE allOn exM ⟨⟨3, none, some (1, [0x42])⟩, 8⟩ ⟨49, 50, [0x27, 0x02, 0x42], {}⟩).2 =
      .ok ⟨1, none, none⟩ (some (.neg 0x27 0x7F)) := by decide +kernel

/-! ## the handlers with their Python-level partial operations (`Model/VEcuPartial.lean`) -/

/-- (T) every operation of the request path that can raise, per function and in source order, regenerated from the AST
    of server.py on every run: a new subscript, slice, division, `to_bytes` / `struct` / `decode` call, `assert`, `raise`
    or read through the optional `last_sa_response` in `handle_client`, `handle_request`, `respond_after_default`,
    `update_state`, a handler or `random_payload` breaks this theorem; so does a third class below
    `_SecurityAccessRequest` (it would reach the `raise AssertionError` of `security_access`) -/
theorem partial_ops_agree : Gen.C14Partial.partialOps = [
  ("TCPUDSServerTransport.handle_client", [("call", "line.decode"), ("call", "unhexlify"), ("div", "sum(response_times) / len(response_times)")]),
  ("UDSServerTransport.handle_request", []),
  ("RandomUDSServer.respond_after_default", []),
  ("RandomUDSServer.update_state", []),
  ("RandomUDSServer.ecu_reset", []),
  ("RandomUDSServer.security_access", [("optattr", "self.state.last_sa_response.security_access_type"), ("optattr", "self.state.last_sa_response.security_seed"), ("raise", "AssertionError")]),
  ("RandomUDSServer.routine_control", []),
  ("RandomUDSServer.read_data_by_identifier", []),
  ("RandomUDSServer.write_data_by_identifier", []),
  ("RandomUDSServer.input_output_control_by_identifier", []),
  ("RandomUDSServer.clear_diagnostic_information", []),
  ("RandomUDSServer.read_dtc_information", [("assert", "request.service_id == UDSIsoServices.ReadDTCInformation")]),
  ("RNG.random_payload", [])] ∧
    Gen.C14Partial.securityAccessClasses = ["RequestSeedRequest", "SendKeyRequest"] := by decide

/-- **no handler raises, on any parsed request, in any state, for any oracle**: evaluated in Python's order with every
    partial operation of `partial_ops_agree` able to fail (`AttributeError` on a `None` seed memory, the `AssertionError`
    of `security_access`, the `assert` of `read_dtc_information`), `respond_after_default` returns - and returns what
    `typedHandler` (the model the other theorems are about) returns -/
theorem handler_never_raises (o : Orc) (st : SrvState) (r : UdsReq.Req) :
    typedHandlerE o st r = .ok (typedHandler o st r) := by
  cases r with
  | sendKey lvl key sup =>
    cases h : st.lastSA with
    | none => simp [typedHandlerE, isSecurityAccess, securityAccessE, typedHandler, sendKey, h, bind, Except.bind, pure, Except.pure]
    | some p =>
      obtain ⟨t0, seed⟩ := p
      simp only [typedHandlerE, isSecurityAccess, securityAccessE, typedHandler, sendKey, h, optAttr, bind, Except.bind, pure, Except.pure,
        Option.isNone_some, Bool.false_eq_true, ↓reduceIte]
      by_cases h1 : lvl ≠ t0 + 1
      · simp [h1]
      · simp only [h1, decide_false, Bool.false_eq_true, ↓reduceIte]
        by_cases h2 : key = seed <;> simp [h2]
  | raw b =>
    simp only [typedHandlerE, isSecurityAccess, typedHandler, readDtcE, sidOf, UdsReq.encode, Bool.false_eq_true, ↓reduceIte]
    cases b with
    | nil => simp
    | cons x t => by_cases hx : x = 0x19 <;> simp [hx]
  | dtcByMask sf mask sup =>
    by_cases hs : sf = dtcByStatusMask <;>
      simp [typedHandlerE, isSecurityAccess, typedHandler, readDtcE, sidOf, UdsReq.encode, hs]
  | clearDDDI d sup => cases d <;> simp [typedHandlerE, isSecurityAccess, typedHandler, sidOf, UdsReq.encode]
  | _ => simp [typedHandlerE, isSecurityAccess, securityAccessE, typedHandler, readDtcE, sidOf, UdsReq.encode]

/-- **never raises, over the richer outcome type**: for every model, every state whose session is offered, every
    non-empty request and every oracle neither the rule chain (two asserts, one index error) nor the handler the chain
    lets the request through to (attribute of `None`, two assertion sites) raises -/
theorem never_raises_py (m : Model) (o : Orc) (st : SrvState) (b : Bytes) (hr : Ready m st) (hb : b ≠ []) :
    (∀ c, vecuRespond m o st b ≠ .crash c) ∧ (∀ e, typedHandlerE o st (UdsReq.decode b) ≠ .error e) ∧
      typedHandlerE o st (UdsReq.decode b) = .ok (typedHandler o st (UdsReq.decode b)) := by
  refine ⟨never_raises m o st b hr hb, ?_, handler_never_raises o st _⟩
  intro e h
  rw [handler_never_raises] at h
  cases h

/-- the error outcomes are real outcomes of the pieces (reached when the guards are taken away): a key request with no
    seed memory read without the `is None` test, `security_access` / `read_dtc_information` on a foreign request; and
    the guarded whole answers a key without seed memory with requestSequenceError -/
example : (optAttr (none : Option (Nat × Bytes)) = .error .attributeOfNone) ∧
    securityAccessE {} s1 (.rdbi [1]) = .error .assertion ∧ readDtcE {} (.rdbi [1]) = .error .assertion ∧
    typedHandlerE {} s1 (.sendKey 2 [1] false) = .ok (some (.neg 0x27 0x24)) := ⟨rfl, rfl, rfl, rfl⟩

/-! ## the whole connection: `TCPUDSServerTransport.handle_client` between the virtual ECU and the client's line
    layer (`Model/VEcuConn.lean`) -/

section Conn
open Gallia.VEcuConn Gallia.Lines

/-- one `handle_request` on a ready server with a non-empty request: it returns (does not raise), stores the second
    clock read, the state afterwards is ready again, and the answer is `vecuRespond`'s in the state after the
    inactivity rule -/
theorem handleSE_served (m : Model) (hm : ModelOK m) (ts : TState) (hr : Ready m ts.st) (q : CItem) (hb : q.bytes ≠ []) :
    ∃ st' reply st0, vecuHandleSE allOn m ts q = (⟨st', q.stop⟩, .ok st' reply) ∧ Ready m st' ∧ Ready m st0 ∧
      vecuRespond m q.orc st0 q.bytes = .ok st' reply := by
  have hlv := never_leaves m q.orc ts q.start q.bytes hm hr hb
  unfold vecuHandleAt handleAt at hlv
  unfold vecuHandleSE handleSE
  simp only at hlv ⊢
  have hr0 : Ready m (if q.start - ts.lastActive > idleLimit then ts.st.reset else ts.st) := by
    split
    · exact ⟨hr.wf, hm.closed.dflt, hr.listed⟩
    · exact hr
  generalize (if q.start - ts.lastActive > idleLimit then ts.st.reset else ts.st) = st0 at hr0 hlv ⊢
  cases hres : respond allOn m (vecuHandler q.orc) st0 (mkReq q.bytes) with
  | crash c => exact absurd hres (C13.respond_never_crashes_allOn m _ st0 _ hr0 hb c)
  | ok st' reply =>
    rw [hres] at hlv
    exact ⟨st', reply, st0, rfl, hlv, hr0, hres⟩

/-- an empty request (an empty or all-whitespace line) makes `handle_request` raise IndexError, in every state -/
theorem empty_request_raises (m : Model) (ts : TState) (s t : Nat) (o : Orc) :
    (vecuHandleSE allOn m ts ⟨s, t, [], o⟩).2 = .crash .index := by
  simp [vecuHandleSE, handleSE, respond, respondWith, respondNoStateWith, mkReq]

/-- **what ends the loop, exactly**: on a loop that is serving a ready server, after any event history (complete lines
    of any bytes, end of stream), the loop has ended iff some event of the history is one of the four the code names,
    and the recorded cause is that of the *first* such event: end of stream (`break`), a line longer than the reader's
    limit (`ValueError` from `readline()` in the `except` arm), a line that is not ASCII hex
    text of even length (`UnicodeDecodeError` / `binascii.Error` in the `except` arm), an empty request
    (`IndexError` from `handle_request` in the `except` arm). Nothing else - no non-empty request in any reachable
    state with any oracle - ends it. -/
theorem conn_end_exact (m : Model) (hm : ModelOK m) (evs : List Event) :
    ∀ (c : Conn), c.ended = none → Ready m c.ts.st →
      (runConn m c evs).1.ended = evs.findSome? (Event.endCause c.limit) ∧ Ready m (runConn m c evs).1.ts.st := by
  induction evs with
  | nil => intro c hc hr; exact ⟨by simpa [runConn] using hc, hr⟩
  | cons e rest ih =>
    intro c hc hr
    simp only [runConn, List.findSome?_cons]
    cases e with
    | eof tail =>
      have hd : (serveEof c).ended = some .eof := by simp [serveEof, Conn.alive, hc]
      simp only [stepConn, Event.endCause, runConn_dead m _ _ hd rest, hd]
      exact ⟨trivial, by simpa [serveEof, Conn.alive, hc] using hr⟩
    | line l s t o =>
      simp only [stepConn, Event.endCause]
      by_cases hlong : l.length > c.limit
      · rw [serveLine_long m c hc l hlong s t o]
        simp only [hlong, ↓reduceIte, runConn_dead m { c with ended := some .tooLong } .tooLong rfl rest]
        exact ⟨trivial, hr⟩
      have hl : l.length ≤ c.limit := Nat.le_of_not_gt hlong
      simp only [hlong, ↓reduceIte]
      rcases decodeLine_cases l with hbad | ⟨b, hmsg⟩
      · rw [serveLine_bad m c hc l hl s t o hbad, hbad]
        simp only [runConn_dead m { c with ended := some .badLine } .badLine rfl rest]
        exact ⟨trivial, hr⟩
      · cases b with
        | nil =>
          have hcr := empty_request_raises m c.ts s t o
          generalize hres : vecuHandleSE allOn m c.ts ⟨s, t, [], o⟩ = res at hcr
          obtain ⟨ts', out⟩ := res
          simp only at hcr; subst hcr
          have hts : ts'.st = (vecuHandleSE allOn m c.ts ⟨s, t, [], o⟩).1.st := by rw [hres]
          rw [serveLine_crash m c hc l hl s t o [] hmsg ts' .index hres, hmsg]
          simp only [runConn_dead m { c with ts := ts', ended := some (.raised .index) } _ rfl rest]
          refine ⟨trivial, ?_⟩
          rw [hts]
          simp only [vecuHandleSE, handleSE, respond, respondWith, respondNoStateWith, mkReq, List.isEmpty_nil, ↓reduceIte]
          split
          · exact ⟨hr.wf, hm.closed.dflt, hr.listed⟩
          · exact hr
        | cons b0 bt =>
          obtain ⟨st', reply, st0, hh, hr', _, _⟩ := handleSE_served m hm c.ts hr ⟨s, t, b0 :: bt, o⟩ (by simp)
          have hs := serveLine_ok m c hc l hl s t o (b0 :: bt) hmsg _ _ _ hh
          rw [hs, hmsg]
          exact ih { c with ts := ⟨st', t⟩, served := c.served + 1 } hc hr'

/-- **the loop is still serving after any history of non-empty requests**: start the ECU with any model `ModelOK`
    (every model `randomize()` builds: `randomize_model_ok`), open a connection, send any number of lines that decode to
    non-empty requests - any bytes, any case / surrounding whitespace, any clock readings, every handler call its own
    oracle -: the loop has not ended, it has served every one of them (so its epilogue cannot divide by zero once one
    was sent), and the session is still one the model offers -/
theorem conn_never_ends (m : Model) (hm : ModelOK m) (evs : List Event) (t0 : Nat)
    (hall : ∀ e ∈ evs, ∃ l s t o b, e = .line l s t o ∧ l.length ≤ 65536 ∧ decodeLine l = .msg b ∧ b ≠ []) :
    (runConn m (Conn.opened t0) evs).1.ended = none ∧ (runConn m (Conn.opened t0) evs).1.alive = true ∧
      Ready m (runConn m (Conn.opened t0) evs).1.ts.st := by
  obtain ⟨h1, h2⟩ := conn_end_exact m hm evs (Conn.opened t0) rfl hm.ready_init
  have hnone : evs.findSome? (Event.endCause (Conn.opened t0).limit) = none := by
    rw [List.findSome?_eq_none_iff]
    intro e he
    obtain ⟨l, s, t, o, b, rfl, hl, hmsg, hb⟩ := hall e he
    cases b with
    | nil => exact absurd rfl hb
    | cons _ _ => simp [Event.endCause, hmsg, Conn.opened, Nat.not_lt.mpr hl]
  rw [hnone] at h1
  exact ⟨h1, by simp [Conn.alive, h1], h2⟩

/-- ... and it counted them: `len(response_times)` is the number of requests, so the division after the loop is
    defined as soon as one request was served -/
theorem conn_served_all (m : Model) (hm : ModelOK m) (evs : List Event) :
    ∀ (c : Conn), c.ended = none → Ready m c.ts.st →
      (∀ e ∈ evs, ∃ l s t o b, e = .line l s t o ∧ l.length ≤ c.limit ∧ decodeLine l = .msg b ∧ b ≠ []) →
      (runConn m c evs).1.served = c.served + evs.length := by
  induction evs with
  | nil => intro c _ _ _; simp [runConn]
  | cons e rest ih =>
    intro c hc hr hall
    obtain ⟨l, s, t, o, b, rfl, hl, hmsg, hb⟩ := hall e (by simp)
    obtain ⟨st', reply, st0, hh, hr', _, _⟩ := handleSE_served m hm c.ts hr ⟨s, t, b, o⟩ hb
    have hs := serveLine_ok m c hc l hl s t o b hmsg _ _ _ hh
    simp only [runConn, stepConn, hs]
    rw [ih { c with ts := ⟨st', t⟩, served := c.served + 1 } hc hr' (fun e he => hall e (by simp [he]))]
    simp only [List.length_cons]; omega

/-- **what the server writes is exactly one line that the client's line layer decodes back to the reply bytes**: for a
    serving loop on a ready server and any line that decodes to a non-empty request, the bytes written are either
    nothing (the reply was suppressed) or `hexlify(reply) + "\n"` for the reply `x` of `handle_request`: only
    lower-case hex digits before the single final newline, `2 * len + 1` bytes, and the client's `read()` on a stream
    that starts with them returns exactly `x.pdu` and leaves exactly what followed -/
theorem conn_reply_line_wellformed (m : Model) (hm : ModelOK m) (c : Conn) (hc : c.ended = none) (hr : Ready m c.ts.st)
    (l : Bytes) (hl : l.length ≤ c.limit) (s t : Nat) (o : Orc) (b : Bytes) (hmsg : decodeLine l = .msg b) (hb : b ≠ []) :
    ((vecuHandleSE allOn m c.ts ⟨s, t, b, o⟩).2 = .ok (serveLine m c l s t o).1.ts.st none ∧ (serveLine m c l s t o).2 = []) ∨
    ∃ x, (vecuHandleSE allOn m c.ts ⟨s, t, b, o⟩).2 = .ok (serveLine m c l s t o).1.ts.st (some x) ∧
      (serveLine m c l s t o).2 = hexB x.pdu ++ [NL] ∧ NL ∉ hexB x.pdu ∧ (∀ ch ∈ hexB x.pdu, isLowerHex ch = true) ∧
      (hexB x.pdu).length = 2 * x.pdu.length ∧ x.pdu ≠ [] ∧
      ∀ rest eof, readLine ((serveLine m c l s t o).2 ++ rest) eof = (.msg x.pdu, rest) := by
  obtain ⟨st', reply, st0, hh, hr', hr0, hresp⟩ := handleSE_served m hm c.ts hr ⟨s, t, b, o⟩ hb
  have hs := serveLine_ok m c hc l hl s t o b hmsg _ _ _ hh
  rw [hs, hh]
  cases reply with
  | none => exact Or.inl ⟨rfl, rfl⟩
  | some x =>
    refine Or.inr ⟨x, rfl, rfl, nl_not_mem_hexB _, hexB_lower _, hexB_length _, ?_, fun rest eof => readLine_enc x.pdu rest eof⟩
    obtain ⟨y, hy, _, henc⟩ := reply_well_formed m o st0 st' b x hr0 hb hresp
    intro hnil
    rw [hnil] at hy
    have hd : UdsResp.decodeResp [] = .error .empty := by rfl
    rw [hd] at hy; cases hy

/-- the invariant of the composed system between two `client.request` calls: the loop is serving a ready server and
    both streams are empty -/
structure Quiet (m : Model) (s : Sys) : Prop where
  serving : s.conn.ended = none
  ready : Ready m s.conn.ts.st
  sbuf : s.sbuf = []
  rbuf : s.rbuf = []
  /-- the reader of the connection was created with asyncio's default limit -/
  lim : s.conn.limit = 65536

/-- **one `client.request` over the connection**: between quiet points, for any non-empty request, the client's
    `write` puts exactly one line on the server's stream, the loop reads it back as exactly the request bytes and
    serves it, and then either the server answered `x` and `client.request` returns the accepted response object `y`,
    which is the decoded `x` (`encodeResp y = x.pdu`), accepted as the answer to every request object with these bytes -
    or the reply was suppressed and the client's read times out having consumed nothing. Either way the system is quiet
    again: the loop serves, nothing is left in either stream. -/
theorem conn_exchange_accepted (m : Model) (hm : ModelOK m) (s : Sys) (hq : Quiet m s) (q : CItem) (hb : q.bytes ≠ [])
    (hlen : q.bytes.length ≤ 32768) :
    Quiet m (VEcuConn.exchange m s q).1 ∧ (VEcuConn.exchange m s q).1.conn.served = s.conn.served + 1 ∧
    ((∃ x y, serverReply m s.conn q = some (some x) ∧ (VEcuConn.exchange m s q).2 = .accepted y ∧ UdsResp.encodeResp y = x.pdu ∧
        y.WF ∧ ∀ r : UdsReq.Req, UdsReq.encode r = q.bytes → parsePdu x.pdu r = .accepted y) ∨
     (serverReply m s.conn q = some none ∧ (VEcuConn.exchange m s q).2 = .timeout)) := by
  obtain ⟨hc, hr, hsb, hrb, hlim⟩ := hq
  obtain ⟨st', reply, st0, hh, hr', hr0, hresp⟩ := handleSE_served m hm s.conn.ts hr q hb
  have hl : (hexB q.bytes).length ≤ s.conn.limit := by rw [hexB_length, hlim]; omega
  have hs := serveLine_ok m s.conn hc (hexB q.bytes) hl q.start q.stop q.orc q.bytes (decodeLine_hexB _) _ _ _ hh
  have hpump : serverPump m s.conn (s.sbuf ++ enc q.bytes) q.start q.stop q.orc =
      ({ s.conn with ts := ⟨st', q.stop⟩, served := s.conn.served + 1 }, lineOf reply, []) := by
    unfold serverPump
    rw [hsb, List.nil_append]
    have := cutLine_enc q.bytes []
    rw [List.append_nil] at this
    rw [this]
    simp only [hs]
  have hsr : serverReply m s.conn q = some reply := by simp [serverReply, hh]
  have hex : VEcuConn.exchange m s q =
      (⟨{ s.conn with ts := ⟨st', q.stop⟩, served := s.conn.served + 1 }, [], (clientRead (lineOf reply) q.bytes).2⟩,
       (clientRead (lineOf reply) q.bytes).1) := by
    simp only [VEcuConn.exchange, hpump, hrb, List.nil_append]
  rw [hex, hsr]
  cases reply with
  | none =>
    simp only [lineOf, clientRead_empty]
    exact ⟨⟨hc, hr', rfl, rfl, hlim⟩, by trivial, Or.inr ⟨by trivial, by trivial⟩⟩
  | some x =>
    obtain ⟨y, hdec, hacc⟩ := C03.genuine_accepted _ (dec_wf q.bytes) x.pdu (server_reply_genuine m q.orc st0 st' q.bytes x hr0 hb hresp)
    have hread : clientRead (enc x.pdu) q.bytes = (.accepted y, []) := by
      have := readLine_enc x.pdu [] false
      rw [List.append_nil] at this
      simp only [clientRead, this, clientVerdict, hacc]
    simp only [lineOf, hread]
    refine ⟨⟨hc, hr', rfl, rfl, hlim⟩, by trivial, Or.inl ⟨x, y, by trivial, by trivial, C02.encodeResp_decodeResp _ _ hdec, C02.decodeResp_wf _ _ hdec, ?_⟩⟩
    intro r hrb2
    rw [C03.parsePdu_bytes r (UdsReq.decode q.bytes) (by rw [hrb2, enc_dec]) x.pdu]
    exact hacc

/-- every history of `client.request` calls with non-empty requests keeps the system quiet -/
theorem conn_history_quiet (m : Model) (hm : ModelOK m) (hist : List CItem) :
    ∀ (s : Sys), Quiet m s → (∀ q ∈ hist, q.bytes ≠ [] ∧ q.bytes.length ≤ 32768) → Quiet m (runExchanges m s hist).1 ∧
      (runExchanges m s hist).2.length = hist.length ∧
      ∀ r ∈ (runExchanges m s hist).2, r = .timeout ∨ ∃ y, r = .accepted y := by
  induction hist with
  | nil => intro s hq _; exact ⟨hq, rfl, by simp [runExchanges]⟩
  | cons q rest ih =>
    intro s hq hall
    obtain ⟨hq', _, hres⟩ := conn_exchange_accepted m hm s hq q (hall q (by simp)).1 (hall q (by simp)).2
    obtain ⟨h1, h2, h3⟩ := ih _ hq' (fun p hp => hall p (by simp [hp]))
    simp only [runExchanges]
    refine ⟨h1, by simp [h2], ?_⟩
    intro r hr
    simp only [List.mem_cons] at hr
    rcases hr with rfl | hr
    · rcases hres with ⟨x, y, _, hy, _⟩ | ⟨_, ht⟩
      · exact Or.inr ⟨y, hy⟩
      · exact Or.inl ht
    · exact h3 r hr

/-- **a suppressed reply leaves nothing a later request could mistake for its answer**: on a freshly opened
    connection, after any history of non-empty requests - in particular one ending in a request whose reply was
    suppressed (the client timed out) - the client's stream is empty, the loop is serving, and the NEXT
    `client.request`, whatever it is, returns the decoded reply the server gave to that very request (or times out
    because that very reply was suppressed): no exchange ever reads the answer to an earlier one -/
theorem conn_no_stale_after_suppress (m : Model) (hm : ModelOK m) (hist : List CItem) (t0 : Nat)
    (hall : ∀ q ∈ hist, q.bytes ≠ [] ∧ q.bytes.length ≤ 32768) (q : CItem) (hb : q.bytes ≠ []) (hlen : q.bytes.length ≤ 32768) :
    let s := (runExchanges m (Sys.opened t0) hist).1
    s.rbuf = [] ∧ s.sbuf = [] ∧ s.conn.ended = none ∧ s.conn.served = hist.length ∧
    ((∃ x y, serverReply m s.conn q = some (some x) ∧ (VEcuConn.exchange m s q).2 = .accepted y ∧ UdsResp.encodeResp y = x.pdu) ∨
     (serverReply m s.conn q = some none ∧ (VEcuConn.exchange m s q).2 = .timeout)) := by
  intro s
  have hq0 : Quiet m (Sys.opened t0) := ⟨rfl, hm.ready_init, rfl, rfl, rfl⟩
  obtain ⟨hq, _, _⟩ := conn_history_quiet m hm hist _ hq0 hall
  obtain ⟨_, _, hres⟩ := conn_exchange_accepted m hm s hq q hb hlen
  have hserved : ∀ (hist : List CItem) (s0 : Sys), Quiet m s0 → (∀ q ∈ hist, q.bytes ≠ [] ∧ q.bytes.length ≤ 32768) →
      (runExchanges m s0 hist).1.conn.served = s0.conn.served + hist.length := by
    intro hist
    induction hist with
    | nil => intro s0 _ _; simp [runExchanges]
    | cons p rest ih =>
      intro s0 h0 hall
      obtain ⟨h1, h2, _⟩ := conn_exchange_accepted m hm s0 h0 p (hall p (by simp)).1 (hall p (by simp)).2
      simp only [runExchanges]
      rw [ih _ h1 (fun r hr => hall r (by simp [hr])), h2]
      simp only [List.length_cons]; omega
  refine ⟨hq.rbuf, hq.sbuf, hq.serving, ?_, ?_⟩
  · have h := hserved hist (Sys.opened t0) hq0 hall
    rw [show (Sys.opened t0).conn.served = 0 from rfl, Nat.zero_add] at h
    exact h
  · rcases hres with ⟨x, y, h1, h2, h3, _⟩ | h
    · exact Or.inl ⟨x, y, h1, h2, h3⟩
    · exact Or.inr h

/-- the event view and the exchange view are the same loop: the server side of a `client.request` history is
    `runConn` over the lines the client wrote -/
theorem conn_exchanges_are_events (m : Model) (hm : ModelOK m) (hist : List CItem) :
    ∀ (s : Sys), Quiet m s → (∀ q ∈ hist, q.bytes ≠ [] ∧ q.bytes.length ≤ 32768) →
      (runExchanges m s hist).1.conn = (runConn m s.conn (hist.map fun q => Event.line (hexB q.bytes) q.start q.stop q.orc)).1 := by
  induction hist with
  | nil => intro s _ _; rfl
  | cons q rest ih =>
    intro s hq hall
    obtain ⟨hq', _, _⟩ := conn_exchange_accepted m hm s hq q (hall q (by simp)).1 (hall q (by simp)).2
    have hpump : (VEcuConn.exchange m s q).1.conn = (serveLine m s.conn (hexB q.bytes) q.start q.stop q.orc).1 := by
      unfold VEcuConn.exchange serverPump
      rw [hq.sbuf, List.nil_append]
      have := cutLine_enc q.bytes []
      rw [List.append_nil] at this
      rw [this]
    simp only [runExchanges, List.map_cons, runConn, stepConn]
    rw [ih _ hq' (fun p hp => hall p (by simp [hp])), hpump]

/-- the division after the loop is defined once a request was served: after any non-empty history of non-empty
    requests `len(response_times)` is not zero -/
theorem conn_epilogue_defined (m : Model) (hm : ModelOK m) (evs : List Event) (t0 : Nat) (hne : evs ≠ [])
    (hall : ∀ e ∈ evs, ∃ l s t o b, e = .line l s t o ∧ l.length ≤ 65536 ∧ decodeLine l = .msg b ∧ b ≠ []) :
    (runConn m (Conn.opened t0) evs).1.epilogueRaises = false := by
  have h := conn_served_all m hm evs (Conn.opened t0) rfl hm.ready_init hall
  have hl : 0 < evs.length := List.length_pos_iff.mpr hne
  unfold Conn.epilogueRaises
  rw [h]
  simp only [Conn.opened, Nat.zero_add, beq_eq_false_iff_ne, ne_eq]
  omega

/-- non-vacuity: TesterPresent answered, TesterPresent with the suppress bit (timeout, nothing left), a session change
    read back as the answer to itself; then an all-whitespace line ends the loop with IndexError; a line of odd length
    ends a fresh loop; so does a line of five bytes on a reader with limit 4; end of stream on a loop that served
    nothing makes the epilogue divide by zero -/
example : ((runExchanges exM (Sys.opened 0) [⟨1, 1, [0x3E, 0x00], {}⟩, ⟨2, 2, [0x3E, 0x80], {}⟩, ⟨3, 3, [0x10, 0x03], {}⟩]).2 =
      [.accepted .testerPresent, .timeout, .accepted (.dsc 3 [])]) ∧
    (runConn exM (Conn.opened 0) [.line [0x33, 0x45, 0x30, 0x30, 0x0D] 1 1 {}, .line [0x20] 2 2 {}]).1.ended = some (.raised .index) ∧
    (runConn exM (Conn.opened 0) [.line [0x33, 0x65, 0x30] 1 1 {}]).1.ended = some .badLine ∧
    (runConn exM (Conn.opened 0 4) [.line [0x33, 0x65, 0x30, 0x30, 0x20] 1 1 {}]).1.ended = some .tooLong ∧
    (runConn exM (Conn.opened 0) [.eof []]).1.epilogueRaises = true := by decide +kernel

end Conn

end Gallia.C14
