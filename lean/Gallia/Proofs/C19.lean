import Gallia.Proofs.Lemmas.Lines
/-
  C19 — Line-based transports deliver every message intact, in order, one per read.
  Property theorems only; helper lemmas are in `Proofs/Lemmas/Lines.lean`.
-/
namespace Gallia.C19
open Gallia Gallia.Framing Gallia.Lines

/-- the wire text of a message decodes to that message (content intact, any bytes, any length) -/
theorem unhex_hex (m : Bytes) : unhexB (hexB m) = some m := unhexB_hexB_append m

/-- hex text never contains the line terminator, so message boundaries are unambiguous -/
theorem hex_no_newline (m : Bytes) : NL ∉ hexB m := nl_not_mem_hexB m

/-- one message per read: whatever follows an encoded message in the buffer (further coalesced messages,
    a partial line) is left for later reads, untouched -/
theorem one_message_per_read (m rest : Bytes) (eof : Bool) :
    readLine (enc m ++ rest) eof = (.msg m, rest) := by
  unfold readLine enc
  rw [List.append_assoc, List.singleton_append, cutLine_line _ _ (nl_not_mem_hexB m)]
  simp [decodeLine, strip_hexB, unhexB_hexB_append]

/-- any sequence of messages followed by an unterminated tail is cut into exactly those lines, in order -/
theorem frames_exact (ms : List Bytes) (tail : Bytes) (ht : NL ∉ tail) :
    parseAll lineCutter ((ms.map enc).flatten ++ tail) = (ms.map hexB, tail) := by
  have key := parseAll_encodeAll lineCutter (fun l => l ++ [NL]) (fun l => NL ∉ l)
    (by intro l rest hl; simpa [lineCutter, List.append_assoc] using cutLine_line l rest hl)
    (ms.map hexB) tail
    (by intro f hf; simp only [List.mem_map] at hf; obtain ⟨m, _, rfl⟩ := hf; exact nl_not_mem_hexB m)
    (by simpa [lineCutter] using cutLine_none_iff.mpr ht)
  have e : (ms.map hexB).map (fun l => l ++ [NL]) = ms.map enc := by simp [enc, List.map_map, Function.comp_def]
  rw [e] at key; exact key

/-- ... and every such line decodes to the message that was sent -/
theorem delivered_exactly (ms : List Bytes) (tail : Bytes) (ht : NL ∉ tail) :
    (parseAll lineCutter ((ms.map enc).flatten ++ tail)).1.map decodeLine = ms.map ReadRes.msg := by
  rw [frames_exact ms tail ht]
  simp [List.map_map, Function.comp_def, decodeLine, strip_hexB, unhexB_hexB_append]

/-- every segmentation of the byte stream (every split, every coalescing) yields the same lines and
    the same buffered tail as the unsegmented stream -/
theorem lines_any_segmentation (chunks : List Bytes) :
    chunks.foldl (feed lineCutter) ([], []) =
      ((parseAll lineCutter chunks.flatten).1, (parseAll lineCutter chunks.flatten).2) := by
  have := feed_chunks lineCutter chunks [] [] (by simp [lineCutter, cutLine])
  simpa using this

/-- hence: however the encoded messages are segmented, the reader ends up with exactly these messages -/
theorem messages_any_segmentation (ms : List Bytes) (chunks : List Bytes)
    (h : chunks.flatten = (ms.map enc).flatten) :
    (chunks.foldl (feed lineCutter) ([], [])).1.map decodeLine = ms.map ReadRes.msg ∧
    (chunks.foldl (feed lineCutter) ([], [])).2 = [] := by
  rw [lines_any_segmentation, h]
  have := frames_exact ms [] (by simp)
  simp only [List.append_nil] at this
  rw [this]
  simp [List.map_map, Function.comp_def, decodeLine, strip_hexB, unhexB_hexB_append]

/-- a read that finds no complete line blocks and consumes nothing -/
theorem timeout_consumes_nothing (buf : Bytes) (h : NL ∉ buf) : readLine buf false = (.pending, buf) := by
  simp [readLine, cutLine_none_iff.mpr h]

/-- a timeout at *any* point of a partially delivered line: the part delivered so far stays buffered and the
    next read after the remainder arrived returns the complete message -/
theorem read_after_timeout (m a b rest : Bytes) (hsplit : enc m = a ++ b) (hb : b ≠ []) :
    readLine a false = (.pending, a) ∧ readLine (a ++ (b ++ rest)) false = (.msg m, rest) := by
  constructor
  · apply timeout_consumes_nothing
    intro hmem
    -- `a` is a proper prefix of `hexB m ++ [NL]`, so it is a prefix of `hexB m`
    have hlen : a.length ≤ (hexB m).length := by
      have := congrArg List.length hsplit
      simp [enc] at this
      have : b.length ≠ 0 := by simpa using hb
      omega
    have : a = (hexB m).take a.length := by
      have h1 : (enc m).take a.length = a := by rw [hsplit]; simp
      rw [← h1, enc, List.take_append_of_le_length hlen]
      simp
    rw [this] at hmem
    exact nl_not_mem_hexB m (List.mem_of_mem_take hmem)
  · rw [← List.append_assoc, ← hsplit]; exact one_message_per_read m rest false

/-- end of stream is reported as such -- also when an unterminated tail is left in the buffer -- and it is
    distinguishable from every (non-empty) message at the API -/
theorem eos_distinct :
    readLine [] true = (.eos, []) ∧
    (∀ tail, NL ∉ tail → (readLine tail true).1 = .eos) ∧
    (∀ m : Bytes, m ≠ [] → (ReadRes.msg m).toApi ≠ ReadRes.eos.toApi) := by
  refine ⟨by simp [readLine, cutLine], ?_, ?_⟩
  · intro tail h; simp [readLine, cutLine_none_iff.mpr h]
  · intro m hm h; simp [ReadRes.toApi] at h; exact hm h

/-- the encoded form of a message is never empty (so an empty read can only mean end-of-stream) -/
theorem enc_ne_nil (m : Bytes) : enc m ≠ [] := by simp [enc]

/-! ### server loop -/

/-- the replies a handler gives to a sequence of requests, threading its state -/
def answers {σ} (h : σ → Bytes → σ × Option Bytes) : σ → List Bytes → σ × List (Option Bytes)
  | s, [] => (s, [])
  | s, m :: ms =>
    let (s', r) := h s m
    let (s'', rs) := answers h s' ms
    (s'', r :: rs)

/-- the server loop answers the coalesced requests one by one, in order, one reply line per answered
    request, nothing for suppressed replies, and leaves an incomplete request line buffered -/
theorem serve_replies {σ} (h : σ → Bytes → σ × Option Bytes) (s : σ) (ms : List Bytes) (tail : Bytes)
    (ht : NL ∉ tail) (fuel : Nat) (hf : ms.length < fuel) :
    serve h fuel s ((ms.map enc).flatten ++ tail) =
      ((answers h s ms).1, (((answers h s ms).2.filterMap id).map enc).flatten, false, tail) := by
  induction ms generalizing s fuel with
  | nil =>
    cases fuel with
    | zero => simp at hf
    | succ n => simp [serve, answers, cutLine_none_iff.mpr ht]
  | cons m ms ih =>
    cases fuel with
    | zero => simp at hf
    | succ n =>
      have hn : ms.length < n := by simp at hf; omega
      simp only [List.map_cons, List.flatten_cons, List.append_assoc, serve, enc]
      rw [List.singleton_append, cutLine_line _ _ (nl_not_mem_hexB m)]
      simp only [decodeLine, strip_hexB, unhexB_hexB_append, answers]
      have := ih (h s m).1 n hn
      rw [this]
      cases hr : (h s m).2 <;> simp [enc]

/-- non-vacuity: a concrete burst with a partial tail -/
example : readLine (enc [0x3e, 0x00] ++ enc [0x10, 0x01] ++ [0x33]) false = (.msg [0x3e, 0x00], enc [0x10, 0x01] ++ [0x33]) := by
  decide

end Gallia.C19
